#!/bin/bash
# One-off: rewrite /repo history so that every commit after the pinned snapshot is one self-contained "fix:" commit
#  - drop the fix 28a9fa9 and its revert 28733f9 (they cancel out)
#  - squash 62b3217 (fix of the fix) into 62b3217 (D9)
# then update the commit hashes recorded in /verif/known_findings.json (matched by commit subject).
set -e
cd /repo
[ -z "$(git status --porcelain --untracked-files=no)" ] || { echo "repo not clean"; exit 1; }
BASE=8de4d4d
git log --format='%h %s' $BASE..HEAD > /tmp/repo_old_log.txt
git branch -f backup-before-clean HEAD
git checkout -q --detach $BASE
for c in $(git rev-list --reverse $BASE..backup-before-clean); do
  short=$(git rev-parse --short $c)
  subj=$(git log -1 --format=%s $c)
  case "$subj" in
    "fix: signed_intersect ignores the stride instead of reporting an empty intersection"*) echo "drop $short"; continue;;
    "Revert \"fix: signed_intersect ignores the stride"*) echo "drop $short"; continue;;
    "fix: detect -1 in signed_mult_with_overflow_flag by comparison"*)
        git cherry-pick -n $c >/dev/null
        # fold into the previous D9 commit: find it is not HEAD necessarily -> use fixup via commit --fixup + autosquash later
        git commit -q --fixup=$(git log --format=%H --grep='fix: signed_mult_with_overflow_flag reports the overflow of -1' -1)
        continue;;
  esac
  git cherry-pick $c >/dev/null
done
GIT_SEQUENCE_EDITOR=true git rebase -q -i --autosquash $BASE
NEW=$(git rev-parse HEAD)
git diff --quiet backup-before-clean $NEW && echo "tree identical to before" || { echo "TREE DIFFERS"; exit 1; }
git checkout -q -B main $NEW 2>/dev/null || git checkout -q -B master $NEW
git log --format='%h %s' $BASE..HEAD > /tmp/repo_new_log.txt
python3 - <<'PY'
import json
old = dict((l.split(' ',1)[1].strip(), l.split(' ',1)[0]) for l in open('/tmp/repo_old_log.txt'))
new = dict((l.split(' ',1)[1].strip(), l.split(' ',1)[0]) for l in open('/tmp/repo_new_log.txt'))
old_by_hash = {v: k for k, v in old.items()}
p = '/verif/known_findings.json'
k = json.load(open(p))
for f in k['findings']:
    c = f.get('commit')
    if not c: continue
    subj = next((s for h, s in old_by_hash.items() if h.startswith(c[:7]) or c.startswith(h)), None)
    if subj == "fix: detect -1 in signed_mult_with_overflow_flag by comparison (ApInt::is_all_set is wrong for 64-bit values)":
        subj = next(s for s in new if s.startswith("fix: signed_mult_with_overflow_flag reports the overflow of -1"))
    if subj and subj in new:
        if 'line' in f: f['line'] = f['line'].replace(c, new[subj])
        f['commit'] = new[subj]
    else:
        print("WARNING: no new commit for", c, subj)
json.dump(k, open(p, 'w'), indent=1)
PY
git log --oneline $BASE..HEAD | wc -l
