#!/bin/bash
# confirm_seed.sh <worktree> <property> <tag> "<what it needs to manifest>"
# Confirms a seeded change (compiles, unit tests pass, demo fails with / passes without it), runs the
# property's check against it, stores everything under /verif/seeded/<property>-<tag>/ and removes the worktree.
set -u
WT=$1; PID=$2; TAG=$3; NEEDS=${4:-}
OUT=/verif/seeded/$PID-$TAG
mkdir -p "$OUT"
export CARGO_TARGET_DIR=$WT/target CARGO_NET_OFFLINE=true RUSTFLAGS=-Awarnings
cd "$WT" || exit 1
git diff -- src ':!src/cwe_checker_lib/tests' > "$OUT/patch.diff"
cp src/cwe_checker_lib/tests/seed_demo.rs "$OUT/seed_demo.rs" 2>/dev/null
UT=$(cargo test -p cwe_checker_lib --offline --lib 2>&1 | grep "^test result" | tail -1)
DEMO_WITH=$(cargo test -p cwe_checker_lib --offline --test seed_demo 2>&1 | grep "^test result" | tail -1)
# (no `git stash`: the stash is shared between all worktrees of a repository)
git apply -R "$OUT/patch.diff"
DEMO_WITHOUT=$(cargo test -p cwe_checker_lib --offline --test seed_demo 2>&1 | grep "^test result" | tail -1)
git apply "$OUT/patch.diff"
CHECK=$(cd /verif && VERIF_REPO=$WT ./check "$PID" 2>&1 | tail -1)
REPLAY=$(echo "$CHECK" | sed -n 's/.*replay=\([^ ]*\).*/\1/p')
VERDICT=""
[ -n "$REPLAY" ] && [ -f "$REPLAY.txt" ] && VERDICT=$(sed -n 2,3p "$REPLAY.txt" | cut -c1-400)
[ -n "$REPLAY" ] && [ -f "$REPLAY" ] && case "$REPLAY" in *.txt) VERDICT=$(head -12 "$REPLAY" | cut -c1-300);; esac
python3 - "$OUT" "$PID" "$TAG" "$NEEDS" "$UT" "$DEMO_WITH" "$DEMO_WITHOUT" "$CHECK" "$VERDICT" <<'PY'
import json, sys
out, pid, tag, needs, ut, dw, dwo, check, verdict = sys.argv[1:10]
json.dump({
 "property": pid, "tag": tag, "needs_to_manifest": needs,
 "base_commit": "/repo HEAD at seeding time (all fix: commits applied)",
 "confirmed": {
  "unit_tests_with_change": ut, "demo_with_change": dw, "demo_without_change": dwo,
  "commands": ["cargo test -p cwe_checker_lib --offline --lib", "cargo test -p cwe_checker_lib --offline --test seed_demo (with change, then with the change stashed)"]},
 "check": {"command": f"VERIF_REPO=<worktree> ./check {pid} --tier quick", "last_line": check, "caught": check.startswith("VIOLATION"), "verdict": verdict},
}, open(out + "/meta.json", "w"), indent=1)
PY
cat "$OUT/meta.json"
cd /; git -C /repo worktree remove --force "$WT"
