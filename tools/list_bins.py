#!/usr/bin/env python3
"""Print --bin arguments for the harness binaries of all claimed properties."""
import json, glob, os
ROOT = os.path.dirname(os.path.dirname(os.path.abspath(__file__)))
bs = set()
for p in glob.glob(os.path.join(ROOT, "props", "C*.json")):
    c = json.load(open(p))
    if not c.get("disabled"):
        bs.add(c["harness_bin"]); bs.update(c.get("extra_bins", []))
print(" ".join("--bin " + b for b in sorted(bs)))
