#!/usr/bin/env python3
"""Print the lake targets (theorem modules + drivers) of all claimed properties."""
import json, glob, os
ROOT = os.path.dirname(os.path.dirname(os.path.abspath(__file__)))
ds = set()
for p in glob.glob(os.path.join(ROOT, "props", "C*.json")):
    c = json.load(open(p))
    if not c.get("disabled"):
        ds.add(c["driver"]); ds.add(c["lean_module"])
print(" ".join(sorted(ds)))
