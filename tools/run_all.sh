#!/bin/sh
# Run every claimed check once (quick tier) and print one line per property.
cd "$(dirname "$0")/.."
TIER=${1:-quick}
for f in props/C*.json; do
  id=$(basename "$f" .json)
  if python3 -c "import json,sys; sys.exit(0 if json.load(open('$f')).get('disabled') else 1)"; then continue; fi
  out=$(./check "$id" --tier "$TIER" 2>&1 | tail -2 | tr '\n' ' ')
  echo "$id rc=$? $out"
done
