#!/bin/bash
# Run claimed checks once and print one line per property:  tools/run_all.sh [tier] [ids...]
cd "$(dirname "$0")/.."
TIER=${1:-quick}; shift
IDS="$@"
[ -z "$IDS" ] && IDS=$(ls props/C*.json | xargs -n1 basename | sed 's/.json//')
for id in $IDS; do
  f=props/$id.json
  [ -f "$f" ] || continue
  if python3 -c "import json,sys; sys.exit(0 if json.load(open('$f')).get('disabled') else 1)"; then continue; fi
  out=$(./check "$id" --tier "$TIER" 2>&1); rc=$?
  echo "$id rc=$rc $(echo "$out" | grep -E '^(PASS|VIOLATION|KNOWN-FINDING)' | tr '\n' ' ' | cut -c1-300)"
done
