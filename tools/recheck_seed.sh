#!/bin/bash
# recheck_seed.sh <Cxx-tag> [tier]   re-runs the property's check against a stored seeded change in a
# fresh scratch worktree of /repo (never in /repo itself) and prints the last line of the check.
# Appends the outcome to seeded/<Cxx-tag>/meta.json under "recheck_runs".
set -u
S=$1; TIER=${2:-quick}
PID=${S%%-*}
WT=/tmp/recheck_${S//-/_}
D=/verif/seeded/$S
[ -f "$D/patch.diff" ] || { echo "no such seed $S"; exit 2; }
git -C /repo worktree remove --force "$WT" 2>/dev/null
git -C /repo worktree add -q --detach "$WT" HEAD || exit 2
if ! git -C "$WT" apply "$D/patch.diff" 2>/tmp/recheck_apply_$$.err; then
  echo "$S: patch no longer applies to /repo HEAD: $(head -2 /tmp/recheck_apply_$$.err | tr '\n' ' ')"
  rm -f /tmp/recheck_apply_$$.err
  git -C /repo worktree remove --force "$WT"; exit 3
fi
rm -f /tmp/recheck_apply_$$.err
LAST=$(cd /verif && VERIF_REPO=$WT ./check "$PID" --tier "$TIER" 2>&1 | tail -1)
REPLAY=$(echo "$LAST" | sed -n 's/.*replay=\([^ ]*\).*/\1/p')
CLS=""
if [ -n "$REPLAY" ] && [ -f "$REPLAY" ]; then
  case "$REPLAY" in *.txt) CLS=$(head -6 "$REPLAY" | cut -c1-200 | tr '\n' ' ');; esac
fi
echo "$S: $LAST" | sed "s#$WT#<worktree>#g"
python3 - "$D/meta.json" "$LAST" "$WT" "$TIER" "$CLS" <<'PY'
import json, sys, subprocess
f, last, wt, tier, cls = sys.argv[1:6]
m = json.load(open(f))
head = subprocess.run(["git", "-C", "/repo", "rev-parse", "--short", "HEAD"], capture_output=True, text=True).stdout.strip()
vh = subprocess.run(["git", "-C", "/verif", "rev-parse", "--short", "HEAD"], capture_output=True, text=True).stdout.strip()
m.setdefault("recheck_runs", []).append({"repo_head": head, "verif_head": vh, "tier": tier,
    "last_line": last.replace(wt, "<worktree>"), "caught": last.startswith("VIOLATION"),
    "with_failing_input": last.startswith("VIOLATION") and "no-failing-input-found" not in last, "detail": cls.replace(wt, "<worktree>")})
json.dump(m, open(f, "w"), indent=1)
PY
git -C /repo worktree remove --force "$WT"
