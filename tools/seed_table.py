#!/usr/bin/env python3
"""Print the Markdown table of seeded changes (DESIGN.md section 10.3) from seeded/*/meta.json."""
import json, glob, os
rows = []
for p in sorted(glob.glob(os.path.join(os.path.dirname(os.path.dirname(os.path.abspath(__file__))), "seeded", "*", "meta.json"))):
    m = json.load(open(p))
    d = os.path.basename(os.path.dirname(p))
    last = m["check"]["last_line"]
    if last.startswith("VIOLATION") and "no-failing-input-found" in last:
        res = "correspondence broken, `no-failing-input-found`"
    elif last.startswith("VIOLATION"):
        cls = ""
        v = m["check"].get("verdict", "")
        import re
        mm = re.search(r"class=(\S+)", v)
        if mm: cls = " (class `" + mm.group(1)[:60] + "`)"
        res = "VIOLATION with replay" + cls
    else:
        res = "**missed** at seeding time"
    if m.get("recheck"):
        res += "; " + m["recheck"]
    patchfile = os.path.join(os.path.dirname(p), "patch.diff")
    files = sorted(set(l[6:].strip() for l in open(patchfile) if l.startswith("+++ b/")))
    files = ", ".join(os.path.basename(f) for f in files)
    rows.append(f"| {d} | {m['property']} | `{files}` | {m['needs_to_manifest']} | {res} |")
print("| seeded change | property | file | what it needs to manifest | result of `VERIF_REPO=<worktree> ./check <property>` (quick) |")
print("|---|---|---|---|---|")
print("\n".join(rows))
