#!/bin/bash
# recheck_all.sh [seed-ids...]   re-runs EVERY stored seeded change (seeded/<Cxx>-<tag>/patch.diff) against the
# current machinery and the current /repo HEAD, one after the other in ONE reused scratch worktree with a shared
# cargo target directory (so only cwe_checker_lib and the harness are recompiled per seed). Appends the outcome to
# each meta.json ("recheck_runs") and writes the summary table seeded/RECHECK.md.
set -u
cd /verif
WT=/tmp/recheck_wt
export VERIF_TARGET=/tmp/recheck_target
SEEDS="$@"
[ -z "$SEEDS" ] && SEEDS=$(ls seeded | grep -E '^C[0-9]+-[a-z]+$' | sort)
git -C /repo worktree remove --force "$WT" 2>/dev/null
git -C /repo worktree add -q --detach "$WT" HEAD || exit 2
OUT=${OUT:-seeded/RECHECK.md}
[ -n "${APPEND:-}" ] || {
echo "# Re-run of every stored seeded change against the final machinery"
echo
echo "/repo HEAD $(git -C /repo rev-parse --short HEAD), /verif HEAD $(git rev-parse --short HEAD), $(date -u +%Y-%m-%dT%H:%MZ); produced by tools/recheck_all.sh"
echo
echo "| seed | outcome | last line of the check |"
echo "|---|---|---|"
} > $OUT
for S in $SEEDS; do
  PID=${S%%-*}
  D=/verif/seeded/$S
  [ -f "$D/patch.diff" ] || continue
  git -C "$WT" checkout -q -- . ; git -C "$WT" clean -qfd -e .verif-out -e .verif-target >/dev/null
  rm -rf "$WT/.verif-out"
  if ! git -C "$WT" apply "$D/patch.diff" 2>/dev/null; then
    echo "| $S | patch does not apply to HEAD any more (code it changed was repaired/rewritten) | |" >> $OUT
    echo "$S: patch does not apply"
    continue
  fi
  LAST=$(VERIF_REPO=$WT ./check "$PID" --tier quick 2>&1 | tail -1)
  if [[ "$LAST" == VIOLATION*no-failing-input-found ]]; then O="caught (no failing input found)";
  elif [[ "$LAST" == VIOLATION* ]]; then O="caught with failing input";
  else O="MISSED"; fi
  echo "| $S | $O | \`$(echo "$LAST" | sed "s#$WT#<wt>#g" | cut -c1-160)\` |" >> $OUT
  echo "$S: $O"
  REPLAY=$(echo "$LAST" | sed -n 's/.*replay=\([^ ]*\).*/\1/p')
  case "$REPLAY" in
    *.jsonl) if [ -s "$REPLAY" ]; then mkdir -p corpus/$PID; head -c 2000000 "$REPLAY" > corpus/$PID/seed_${S#*-}.jsonl; fi;;
  esac
  python3 - "$D/meta.json" "$LAST" "$WT" <<'PY'
import json, sys, subprocess
f, last, wt = sys.argv[1:4]
m = json.load(open(f))
head = subprocess.run(["git", "-C", "/repo", "rev-parse", "--short", "HEAD"], capture_output=True, text=True).stdout.strip()
m.setdefault("recheck_runs", []).append({"repo_head": head, "tier": "quick", "last_line": last.replace(wt, "<worktree>"),
    "caught": last.startswith("VIOLATION"), "with_failing_input": last.startswith("VIOLATION") and "no-failing-input-found" not in last})
json.dump(m, open(f, "w"), indent=1)
PY
done
git -C /repo worktree remove --force "$WT"
rm -rf /tmp/recheck_target
# Gen tables may have been regenerated from a mutated tree: regenerate from /repo
for ex in extract/*.py; do python3 $ex /repo lean/CweModel/Gen >/dev/null 2>&1; done
echo done
