#!/usr/bin/env python3
"""Regenerate /verif/MANIFEST.json from props/*.json (one file per claimed property)."""
import json, os, glob
ROOT = os.path.dirname(os.path.dirname(os.path.abspath(__file__)))
ids = [json.loads(l)["id"] for l in open(os.path.join(ROOT, "properties.jsonl"))]
na_reasons = json.load(open(os.path.join(ROOT, "props", "not_applicable.json")))
checks, na = [], []
for pid in ids:
    p = os.path.join(ROOT, "props", pid + ".json")
    if not os.path.exists(p) or json.load(open(p)).get("disabled"):
        na.append({"property_id": pid, "reason": na_reasons.get(pid, "check not built yet; see DESIGN.md section 5 for the plan")})
        continue
    c = json.load(open(p))
    checks.append({
        "property_id": pid,
        "quick_cmd": f"./check {pid} --tier quick",
        "thorough_cmd": f"./check {pid} --tier thorough",
        "evidence_file": f"/verif/evidence/{pid}.json",
        "replay_cmd_template": f"./check {pid} --replay {{path}}",
        "engine": "lean4-proof+correspondence",
        "level_claimed": {"category": c["level"], "text": c["level_text"], "design_ref": c.get("design_ref", "DESIGN.md section 5, " + pid)},
        "level_note": c["level_note"],
        "technique": c["technique"],
    })
m = {
    "version": 1,
    "setup_cmd": "./setup.sh",
    "hooks": {
        "guard": "cwe_checker_verif",
        "enable": "RUSTFLAGS='--cfg cwe_checker_verif' (set by ./check for every cargo build of the harness; no source hook exists, all access is through pub items and serde)",
        "baseline_off_cmd": "cd /repo && cargo test --workspace --no-fail-fast --offline",
        "source_commits": [],
        "add_only": True,
    },
    "engines": [{
        "name": "lean4-proof+correspondence",
        "path": "/verif/check",
        "serves_properties": [c["property_id"] for c in checks],
        "kind_free_text": "Lean 4 theorems over hand-written models (lean/CweModel), tables regenerated from the Rust source (extract/), and a differential correspondence run: Rust harness drives the real code, compiled Lean driver runs model + executable spec on the same lines",
    }],
    "checks": checks,
    "notes": "Each check: lake build of the property's theorem module, #print axioms audit, escape-hatch grep, cargo rebuild of the harness against /repo's working tree, corpus replay, seeded correspondence run, evidence. See DESIGN.md.",
    "not_applicable": na,
}
json.dump(m, open(os.path.join(ROOT, "MANIFEST.json"), "w"), indent=1)
print(f"{len(checks)} checks, {len(na)} not claimed")
