#!/usr/bin/env python3
"""mk_seed_prompt.py Cxx tag  -> creates worktree /tmp/seed_Cxx_tag and prints the prompt for a mutation sub-agent"""
import sys, json, subprocess, os
pid, tag = sys.argv[1], sys.argv[2]
wt = f"/tmp/seed_{pid}_{tag}"
if not os.path.exists(wt):
    subprocess.run(["git", "-C", "/repo", "worktree", "add", "-q", "--detach", wt, "HEAD"], check=True)
prop = next(json.loads(l) for l in open("/verif/properties.jsonl") if json.loads(l)["id"] == pid)
text = prop["title"] + ". " + prop["statement"] + "\n    (It is meant to hold for: " + prop["quantifier"]["text"] + ".)\n    Code it is anchored in: " + ", ".join(prop["anchors"]["files"])
t = open("/verif/tools/seed_prompt.md").read().replace("WORKTREE", wt).replace("PROPERTY_TEXT", text)
print(t)
