#!/usr/bin/env python3
"""Regenerate the generated tables of DESIGN.md (sections 10.3 seeded changes, 10.4 findings)."""
import json, os, re, subprocess
ROOT = os.path.dirname(os.path.dirname(os.path.abspath(__file__)))
p = os.path.join(ROOT, "DESIGN.md")
s = open(p).read()
seed = subprocess.run(["python3", os.path.join(ROOT, "tools", "seed_table.py")], capture_output=True, text=True).stdout
k = json.load(open(os.path.join(ROOT, "known_findings.json")))["findings"]
rows = ["| property | status | commit in /repo | class (as matched by the check) | what |", "|---|---|---|---|---|"]
for f in sorted(k, key=lambda f: (f["property"], f["status"])):
    rows.append(f"| {f['property']} | {f['status']} | {f.get('commit','') or '—'} | `{f.get('class','')[:70]}` | {f['what'][:400]} |")
find = "\n".join(rows)
def put(s, tag, body):
    b, e = f"<!-- {tag} BEGIN -->", f"<!-- {tag} END -->"
    if b not in s:
        return s
    return s[:s.index(b) + len(b)] + "\n" + body.strip() + "\n" + s[s.index(e):]
s = put(s, "SEEDTABLE", seed)
s = put(s, "FINDINGS", find)
open(p, "w").write(s)
print("DESIGN.md tables regenerated:", seed.count("\n| C"), "seeds,", len(k), "findings")
