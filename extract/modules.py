#!/usr/bin/env python3
"""C21/C22/C23 extractor: regenerates lean/CweModel/Gen/Modules.lean from the Rust sources.

  python3 extract/modules.py /repo /verif/lean/CweModel/Gen

Extracted (exit != 0 if an anchored item is not found or has an unexpected shape; never a stale table):
  * `allModules`      — (name, version) of every `CWE_MODULE` static, in the order of the `vec![…]`
                        returned by `get_modules()`                       (cwe_checker_lib/src/lib.rs + each module)
  * `emits`           — per module: the warning names its (non-test) source can put into
                        `CweWarning.name`: the module name plus every `"CWE<digits>"` literal   (module file/dir)
  * `modulesLkm`      — `MODULES_LKM`                                      (checkers.rs)
  * `lkmAcceptance`   — `LKM_CWE` of the acceptance tests, normalised `cwe_252` -> `CWE252`   (test/src/lib.rs);
                        an independent statement of which checks must run on kernel modules
  * `defaultExcluded` — the names compared with `!=` in the default-run `modules.retain(…)`  (caller/src/main.rs)
                        (the extractor insists on the `if let Some(partial) … else if is_lkm … else …` shape)
  * `piModules`, `stringAbstractionModules` — the dependency lists of main.rs
  * `cweWarningFields` — field names of `struct CweWarning` in declaration order (utils/log.rs) and the
                        fact that it derives `PartialOrd, Ord` (the sort in main.rs is the derived order)
  * `sortCall`        — main.rs calls `all_cwes.sort()` before printing
  * `lkmMarkerSections` — the two section names whose CONJUNCTION defines `is_lkm` in `from_elf_sections`
                        (intermediate_representation/runtime_memory_image.rs; any other shape is an error)
The file is only rewritten when its content changes (keeps lake's cache warm).
"""
import sys, os, re


def die(msg):
    print("modules.py: " + msg)
    sys.exit(2)


def read(p):
    try:
        return open(p, encoding="utf-8").read()
    except OSError as e:
        die("cannot read source: %s" % e)


def strip_tests(src):
    """drop everything from the first `#[cfg(test)]` on (test modules are at the end of the files)"""
    i = src.find("#[cfg(test)]")
    return src if i < 0 else src[:i]


def strip_comments(src):
    src = re.sub(r"/\*.*?\*/", "", src, flags=re.S)
    return "\n".join(l for l in src.split("\n") if not l.lstrip().startswith("//"))


def lean_str(s):
    if not re.fullmatch(r"[A-Za-z0-9_.\- ]*", s):
        die("unexpected characters in extracted string %r" % s)
    return '"' + s + '"'


def lean_list(xs):
    return "[" + ", ".join(xs) + "]"


def module_sources(lib_src, mod_path):
    """files making up the Rust module `crate::a::b` (file a/b.rs and/or directory a/b/)"""
    rel = mod_path.split("::")
    base = os.path.join(lib_src, *rel)
    files = []
    if os.path.isfile(base + ".rs"):
        files.append(base + ".rs")
    if os.path.isdir(base):
        for root, _, fs in os.walk(base):
            for f in sorted(fs):
                if f.endswith(".rs") and f != "tests.rs" and "tests" not in os.path.relpath(root, base).split(os.sep):
                    files.append(os.path.join(root, f))
    if not files:
        die("no source files for module %s" % mod_path)
    return files


def main():
    if len(sys.argv) != 3:
        die("usage: modules.py <repo> <outdir>")
    repo, outdir = sys.argv[1], sys.argv[2]
    lib_src = os.path.join(repo, "src", "cwe_checker_lib", "src")
    lib = strip_comments(read(os.path.join(lib_src, "lib.rs")))
    m = re.search(r"pub fn get_modules\(\)\s*->\s*Vec<&'static CweModule>\s*\{\s*vec!\[(.*?)\]\s*\}", lib, re.S)
    if not m:
        die("`pub fn get_modules() -> Vec<&'static CweModule> { vec![…] }` not found in lib.rs")
    entries = [e.strip() for e in m.group(1).split(",") if e.strip()]
    mods = []
    for e in entries:
        mm = re.fullmatch(r"&crate::([\w:]+)::CWE_MODULE", e)
        if not mm:
            die("unexpected entry in get_modules(): %r" % e)
        mods.append(mm.group(1))
    if not mods:
        die("get_modules() returns an empty list")

    all_modules, emits = [], []
    for mp in mods:
        files = module_sources(lib_src, mp)
        srcs = [(f, strip_comments(strip_tests(read(f)))) for f in files]
        found = None
        for f, s in srcs:
            for st in re.finditer(r"pub static CWE_MODULE\s*:\s*(?:crate::)?CweModule\s*=\s*(?:crate::)?CweModule\s*\{(.*?)\};", s, re.S):
                if found:
                    die("more than one CWE_MODULE static in module %s" % mp)
                body = st.group(1)
                nm = re.search(r'\bname\s*:\s*"([^"]*)"', body)
                ver = re.search(r'\bversion\s*:\s*("([^"]*)"|([A-Z_]+))\s*,', body)
                if not nm or not ver:
                    die("CWE_MODULE of %s: name/version not found" % mp)
                if ver.group(2) is not None:
                    version = ver.group(2)
                else:
                    c = re.findall(r'const\s+%s\s*:\s*&str\s*=\s*"([^"]*)"\s*;' % ver.group(3), s)
                    if len(c) != 1:
                        die("CWE_MODULE of %s: constant %s not found" % (mp, ver.group(3)))
                    version = c[0]
                found = (nm.group(1), version)
        if not found:
            die("no CWE_MODULE static found in module %s" % mp)
        all_modules.append(found)
        names = [found[0]]
        for f, s in srcs:
            for lit in re.findall(r'"(CWE[0-9]+)"', s):
                if lit not in names:
                    names.append(lit)
        emits.append((found[0], names))

    checkers = strip_comments(read(os.path.join(lib_src, "checkers.rs")))
    m = re.search(r"pub const MODULES_LKM\s*:\s*\[&str;\s*(\d+)\]\s*=\s*\[(.*?)\];", checkers, re.S)
    if not m:
        die("`pub const MODULES_LKM: [&str; N] = […];` not found in checkers.rs")
    lkm = re.findall(r'"([^"]*)"', m.group(2))
    if len(lkm) != int(m.group(1)):
        die("MODULES_LKM: declared length %s != %d literals" % (m.group(1), len(lkm)))

    main_rs = strip_comments(read(os.path.join(repo, "src", "caller", "src", "main.rs")))
    sel = re.search(
        r"if let Some\(ref partial_module_list\) = args\.partial \{\s*"
        r"filter_modules_for_partial_run\(&mut modules, partial_module_list\);\s*"
        r"\} else if project\.runtime_memory_image\.is_lkm \{\s*"
        r"modules\.retain\(\|module\| cwe_checker_lib::checkers::MODULES_LKM\.contains\(&module\.name\)\);\s*"
        r"\} else \{\s*"
        r"modules\.retain\(\|module\| (.*?)\);\s*\}",
        main_rs, re.S)
    if not sel:
        die("the module selection `if let Some(partial) … else if is_lkm … else …` in main.rs no longer has the modelled shape")
    cond = sel.group(1).strip()
    parts = [p.strip() for p in cond.split("&&")]
    excluded = []
    for p in parts:
        pm = re.fullmatch(r'module\.name != "([^"]*)"', p)
        if not pm:
            die("default-run filter is not a conjunction of `module.name != \"…\"`: %r" % cond)
        excluded.append(pm.group(1))

    def dep_list(var):
        mm = re.search(r"let %s = BTreeSet::from_iter\(\[(.*?)\]\);" % var, main_rs, re.S)
        if not mm:
            die("`let %s = BTreeSet::from_iter([…]);` not found in main.rs" % var)
        return re.findall(r'"([^"]*)"', mm.group(1))

    pi = dep_list("modules_depending_on_pointer_inference")
    sa = dep_list("modules_depending_on_string_abstraction")

    sort_call = re.search(r"all_cwes\.sort\(\);\s*(?:.*?)print_all_messages\(all_logs, all_cwes,", main_rs, re.S) is not None

    log = strip_comments(read(os.path.join(lib_src, "utils", "log.rs")))
    cw = re.search(r"#\[derive\(([^)]*)\)\]\s*pub struct CweWarning\s*\{(.*?)\}", log, re.S)
    if not cw:
        die("struct CweWarning not found in utils/log.rs")
    derives = [d.strip() for d in cw.group(1).split(",")]
    if "PartialOrd" not in derives or "Ord" not in derives:
        die("CweWarning no longer derives PartialOrd, Ord")
    fields = re.findall(r"pub (\w+)\s*:\s*([\w<>]+)\s*,", cw.group(2))
    if re.search(r"impl\s+(?:PartialOrd|Ord)\s+for\s+CweWarning", log):
        die("CweWarning has a hand-written ordering")

    # classification "Linux kernel module": relocatable object with BOTH marker sections
    rmi = strip_comments(strip_tests(read(os.path.join(lib_src, "intermediate_representation", "runtime_memory_image.rs"))))
    if not re.search(r"elf::header::ET_REL\s*=>\s*Self::from_elf_sections\(binary, elf_file\)", rmi):
        die("runtime_memory_image.rs: `ET_REL => Self::from_elf_sections(..)` not found")
    lk = re.findall(r"is_lkm\s*:\s*([^,\n][^}]*?),\s*\n", rmi)
    lk_nonfalse = [x.strip() for x in lk if x.strip() not in ("false", "bool")]
    if len(lk_nonfalse) != 1:
        die("runtime_memory_image.rs: expected exactly one `is_lkm: <expr>` that is not `false`, found %r" % lk_nonfalse)
    conj = re.fullmatch(r'get_section\("([^"]+)", &elf_file\)\.is_some\(\)\s*&&\s*get_section\("([^"]+)", &elf_file\)\.is_some\(\)',
                        re.sub(r"\s+", " ", lk_nonfalse[0]))
    if not conj:
        die("runtime_memory_image.rs: `is_lkm` is no longer the conjunction `get_section(A).is_some() && get_section(B).is_some()`: %r" % lk_nonfalse[0])
    lkm_markers = [conj.group(1), conj.group(2)]
    fes = re.search(r"fn from_elf_sections\(.*?\n    \}\n", rmi, re.S)
    if not fes or lk_nonfalse[0] not in fes.group(0):
        die("runtime_memory_image.rs: the `is_lkm` conjunction is not inside from_elf_sections")

    # independent statement of what must work on kernel modules: the acceptance-test list of the repository
    test_lib = strip_comments(read(os.path.join(repo, "test", "src", "lib.rs")))
    acc = re.search(r'pub const LKM_CWE\s*:\s*&\[&str\]\s*=\s*&\[(.*?)\];', test_lib, re.S)
    if not acc:
        die("`pub const LKM_CWE: &[&str] = &[…];` not found in test/src/lib.rs")
    acc_names = re.findall(r'"([^"]*)"', acc.group(1))
    lkm_acceptance = []
    for a in acc_names:
        am = re.fullmatch(r"cwe_(\d+)", a)
        if not am:
            die("LKM_CWE entry %r is not of the form cwe_<digits>" % a)
        lkm_acceptance.append("CWE" + am.group(1))
    if not lkm_acceptance:
        die("LKM_CWE is empty")

    o = []
    o.append("/- GENERATED by extract/modules.py from lib.rs, checkers.rs, caller/src/main.rs, utils/log.rs and the")
    o.append("   CWE_MODULE statics — do not edit. -/")
    o.append("namespace CweModel.Gen.Modules")
    o.append("")
    o.append("/-- (name, version) of every module returned by `get_modules()`, in that order -/")
    o.append("def allModules : List (String × String) :=")
    o.append("  " + lean_list(["(%s, %s)" % (lean_str(n), lean_str(v)) for n, v in all_modules]))
    o.append("")
    o.append("/-- per module: the names its source can put into `CweWarning.name` -/")
    o.append("def emits : List (String × List String) :=")
    o.append("  " + lean_list(["(%s, %s)" % (lean_str(n), lean_list([lean_str(x) for x in xs])) for n, xs in emits]))
    o.append("")
    o.append("/-- `MODULES_LKM` -/")
    o.append("def modulesLkm : List String := " + lean_list([lean_str(x) for x in lkm]))
    o.append("")
    o.append("/-- `LKM_CWE` of test/src/lib.rs (the checks the acceptance tests run on kernel-module samples), as check names -/")
    o.append("def lkmAcceptance : List String := " + lean_list([lean_str(x) for x in lkm_acceptance]))
    o.append("")
    o.append("/-- names `n` of the conjuncts `module.name != n` of the default-run filter -/")
    o.append("def defaultExcluded : List String := " + lean_list([lean_str(x) for x in excluded]))
    o.append("")
    o.append("def piModules : List String := " + lean_list([lean_str(x) for x in pi]))
    o.append("def stringAbstractionModules : List String := " + lean_list([lean_str(x) for x in sa]))
    o.append("")
    o.append("/-- fields of `struct CweWarning` in declaration order (its `Ord` is derived: lexicographic in this order) -/")
    o.append("def cweWarningFields : List (String × String) :=")
    o.append("  " + lean_list(["(%s, %s)" % (lean_str(n), lean_str(t.replace("<", " ").replace(">", "").strip())) for n, t in fields]))
    o.append("")
    o.append("/-- `from_elf_sections` (the ET_REL branch of `RuntimeMemoryImage::new`) sets `is_lkm` to the CONJUNCTION")
    o.append("    `get_section(a).is_some() && get_section(b).is_some()` of these section names; every other constructor sets `false` -/")
    o.append("def lkmMarkerSections : List String := " + lean_list([lean_str(x) for x in lkm_markers]))
    o.append("")
    o.append("/-- main.rs sorts the warnings (`all_cwes.sort()`) before printing -/")
    o.append("def sortCall : Bool := " + ("true" if sort_call else "false"))
    o.append("")
    o.append("end CweModel.Gen.Modules")
    text = "\n".join(o) + "\n"
    os.makedirs(outdir, exist_ok=True)
    path = os.path.join(outdir, "Modules.lean")
    old = open(path, encoding="utf-8").read() if os.path.exists(path) else None
    if old != text:
        with open(path, "w", encoding="utf-8") as f:
            f.write(text)
    print("modules.py: %d modules, %d lkm names, default excludes %s" % (len(all_modules), len(lkm), excluded))


if __name__ == "__main__":
    main()
