#!/usr/bin/env python3
"""C20 extractor: regenerates lean/CweModel/Gen/C20Regex.lean from the Rust sources.

  python3 extract/c20_regex.py /repo /verif/lean/CweModel/Gen

Extracted (exit != 0 if any anchored item is not found):
  * the regex literal of `parse_format_string_parameters`            (utils/arguments.rs)
  * the variants of `enum Datatype`, the arms of `Datatype::from(String)`,
    the fields of `DatatypeProperties` and the arms of `get_size_from_data_type`
                                                                      (intermediate_representation/mod.rs)
  * the Unicode `Decimal_Number` ranges that `\\d` denotes in the regex-syntax version pinned by
    /repo/Cargo.lock (regex crate, Unicode mode is on by default)     (cargo registry source)
The file is only rewritten when its content changes (keeps lake's cache warm).
"""
import sys, os, re, glob


def die(msg):
    print("c20_regex.py: " + msg)
    sys.exit(2)


def lean_char(c):
    o = ord(c)
    if c == "\\":
        return "'\\\\'"
    if c == "'":
        return "'\\''"
    if 0x20 <= o < 0x7f:
        return "'" + c + "'"
    return "Char.ofNat %d" % o


def lean_chars(s):
    return "[" + ", ".join(lean_char(c) for c in s) + "]"


def fn_body(src, header_re, what):
    """text from the match of header_re up to the matching closing brace of its first `{`"""
    m = re.search(header_re, src)
    if not m:
        die("anchor not found: " + what)
    i = src.index("{", m.end() - 1) if src[m.end() - 1] != "{" else m.end() - 1
    depth = 0
    for j in range(i, len(src)):
        if src[j] == "{":
            depth += 1
        elif src[j] == "}":
            depth -= 1
            if depth == 0:
                return src[i:j + 1]
    die("unbalanced braces after " + what)


def strip_rust_comments(s):
    return "\n".join(l for l in s.split("\n") if not l.strip().startswith("//"))


def main():
    if len(sys.argv) != 3:
        die("usage: c20_regex.py <repo> <outdir>")
    repo, outdir = sys.argv[1], sys.argv[2]
    lib = os.path.join(repo, "src", "cwe_checker_lib", "src")
    try:
        args_rs = open(os.path.join(lib, "utils", "arguments.rs"), encoding="utf-8").read()
        mod_rs = open(os.path.join(lib, "intermediate_representation", "mod.rs"), encoding="utf-8").read()
        lock = open(os.path.join(repo, "Cargo.lock"), encoding="utf-8").read()
    except OSError as e:
        die("cannot read source: %s" % e)

    # ---- regex literal
    body = fn_body(args_rs, r"pub fn parse_format_string_parameters\s*\(", "fn parse_format_string_parameters")
    code = strip_rust_comments(body)
    lits = re.findall(r'Regex::new\(\s*r(#*)"(.*?)"\1\s*\)', code, re.S)
    if len(lits) != 1:
        die("expected exactly one `Regex::new(r\"…\")` in parse_format_string_parameters, found %d" % len(lits))
    regex = lits[0][1]
    if "\n" in regex:
        die("regex literal spans lines")
    if code.count("captures_iter") != 1:
        die("expected exactly one captures_iter over the regex")

    # ---- enum Datatype
    enum = fn_body(mod_rs, r"pub enum Datatype\s*\{", "enum Datatype")
    variants = re.findall(r"^\s*([A-Z]\w*)\s*,", strip_rust_comments(enum), re.M)
    if not variants:
        die("no variants of enum Datatype found")

    # ---- Datatype::from(String)
    frm = fn_body(mod_rs, r"impl From<String> for Datatype\s*\{", "impl From<String> for Datatype")
    mt = fn_body(frm, r"match specifier\.as_str\(\)\s*\{", "match specifier.as_str()")
    mt = strip_rust_comments(mt)[1:-1]
    arms = re.findall(r'((?:"[^"]*"\s*\|?\s*)+)=>\s*Datatype::(\w+)\s*,', mt)
    table = []
    for pats, dt in arms:
        if dt not in variants:
            die("Datatype::from arm yields unknown variant " + dt)
        for s in re.findall(r'"([^"]*)"', pats):
            table.append((s, dt))
    if not table:
        die("no arms of Datatype::from found")
    rest = re.sub(r'((?:"[^"]*"\s*\|?\s*)+)=>\s*Datatype::(\w+)\s*,', "", mt).strip()
    if not re.fullmatch(r"_\s*=>\s*panic!\([^)]*\)\s*,?", rest):
        die("Datatype::from has arms the extractor does not understand: " + rest[:120])
    if len(set(s for s, _ in table)) != len(table):
        die("duplicate specifier in Datatype::from")

    # ---- DatatypeProperties + get_size_from_data_type
    st = fn_body(mod_rs, r"pub struct DatatypeProperties\s*\{", "struct DatatypeProperties")
    fields = re.findall(r"pub (\w+)\s*:\s*ByteSize\s*,", st)
    if not fields:
        die("no ByteSize fields in DatatypeProperties")
    gs = fn_body(mod_rs, r"pub fn get_size_from_data_type\s*\(", "fn get_size_from_data_type")
    size_arms = re.findall(r"Datatype::(\w+)\s*=>\s*self\.(\w+)\s*,", gs)
    if sorted(v for v, _ in size_arms) != sorted(variants):
        die("get_size_from_data_type does not have exactly one arm per Datatype variant")
    for _, f in size_arms:
        if f not in fields:
            die("get_size_from_data_type reads unknown field " + f)

    # ---- Unicode decimal digits of the pinned regex-syntax
    m = re.search(r'name = "regex-syntax"\nversion = "([^"]+)"', lock)
    if not m:
        die("regex-syntax not pinned in Cargo.lock")
    rsver = m.group(1)
    homes = [os.environ.get("CARGO_HOME"), os.path.expanduser("~/.cargo"), "/root/.cargo"]
    tbl = None
    for h in homes:
        if not h:
            continue
        c = sorted(glob.glob(os.path.join(h, "registry", "src", "*", "regex-syntax-" + rsver, "src",
                                          "unicode_tables", "perl_decimal.rs")))
        if c:
            tbl = c[0]
            break
    if not tbl:
        die("source of regex-syntax %s (unicode_tables/perl_decimal.rs) not found in the cargo registry" % rsver)
    ptxt = open(tbl, encoding="utf-8").read()
    m = re.search(r"pub const DECIMAL_NUMBER[^=]*=\s*&\[(.*?)\];", ptxt, re.S)
    if not m:
        die("DECIMAL_NUMBER table not found in " + tbl)
    ranges = [(ord(a), ord(b)) for a, b in re.findall(r"\('(.)',\s*'(.)'\)", m.group(1))]
    if not ranges or (48, 57) not in ranges:
        die("DECIMAL_NUMBER table looks wrong")
    uver = re.search(r"Unicode version: ([\d.]+)", ptxt)
    uver = uver.group(1).rstrip(".") if uver else "?"

    # ---- emit
    o = []
    o.append("/- GENERATED by extract/c20_regex.py from the Rust sources — do not edit.")
    o.append("   regex literal: utils/arguments.rs `parse_format_string_parameters`;")
    o.append("   Datatype, Datatype::from, DatatypeProperties, get_size_from_data_type: intermediate_representation/mod.rs;")
    o.append("   decimalRanges: regex-syntax %s unicode_tables/perl_decimal.rs (Unicode %s). -/" % (rsver, uver))
    o.append("namespace CweModel.Gen.C20")
    o.append("")
    o.append("/-- the regex literal, character by character: `%s` -/" % regex.replace("-/", "- /"))
    o.append("def formatRegexChars : List Char :=\n  " + lean_chars(regex))
    o.append("")
    o.append("def formatRegex : String := String.ofList formatRegexChars")
    o.append("")
    o.append("/-- `enum Datatype` -/")
    o.append("inductive Datatype where")
    for v in variants:
        o.append("  | " + v)
    o.append("deriving DecidableEq, Repr, Inhabited")
    o.append("")
    o.append("/-- the arms of `impl From<String> for Datatype` in source order (the `_` arm panics) -/")
    o.append("def specTable : List (List Char × Datatype) := [")
    o.append(",\n".join("  (%s, .%s)" % (lean_chars(s), dt) for s, dt in table))
    o.append("]")
    o.append("")
    o.append("/-- `struct DatatypeProperties` (sizes in bytes) -/")
    o.append("structure DatatypeProperties where")
    for f in fields:
        o.append("  %s : Nat" % f)
    o.append("deriving DecidableEq, Repr, Inhabited")
    o.append("")
    o.append("/-- `DatatypeProperties::get_size_from_data_type` -/")
    o.append("def getSizeFromDataType (p : DatatypeProperties) : Datatype → Nat")
    for v, f in size_arms:
        o.append("  | .%s => p.%s" % (v, f))
    o.append("")
    o.append("/-- code point ranges of Unicode `Decimal_Number` = what `\\d` matches (regex-syntax %s) -/" % rsver)
    o.append("def decimalRanges : List (Nat × Nat) := [")
    o.append(",\n".join("  (%d, %d)" % r for r in ranges))
    o.append("]")
    o.append("")
    o.append("end CweModel.Gen.C20")
    text = "\n".join(o) + "\n"

    os.makedirs(outdir, exist_ok=True)
    path = os.path.join(outdir, "C20Regex.lean")
    old = open(path, encoding="utf-8").read() if os.path.exists(path) else None
    if old != text:
        tmp = path + ".tmp%d" % os.getpid()
        with open(tmp, "w", encoding="utf-8") as f:
            f.write(text)
        os.replace(tmp, path)
    print("C20Regex.lean: regex %d chars, %d specifiers, %d datatypes, %d decimal ranges%s"
          % (len(regex), len(table), len(variants), len(ranges), "" if old == text else " (rewritten)"))


if __name__ == "__main__":
    main()
