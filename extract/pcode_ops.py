#!/usr/bin/env python3
"""C11 extractor: regenerates lean/CweModel/Gen/PcodeOps.lean from the Rust sources.

  python3 extract/pcode_ops.py /repo /verif/lean/CweModel/Gen

Extracted (exit != 0 if an anchored item is missing or has an unexpected shape):
  * `enum ExpressionType` incl. serde aliases                                (pcode/expressions.rs)
  * the arms of `impl From<ExpressionType> for IrBinOpType / IrUnOpType / IrCastOpType`
    (mnemonic -> IR operation; the `_ => panic!()` arm becomes `none`)        (pcode/expressions.rs)
  * which arm of `impl From<Expression> for IrExpression` a mnemonic takes
    (copy / binOp / unOp / panic)                                             (pcode/expressions.rs)
  * which arm of `Def::into_ir_def` a mnemonic takes
    (load / store / subpiece / cast / expr)                                   (pcode/term.rs)
  * `enum JmpType`                                                            (pcode/term.rs)
  * the variants of the IR enums `BinOpType`, `UnOpType`, `CastOpType` are only used to validate
    the right-hand sides                                 (intermediate_representation/expression.rs)
The file is only rewritten when its content changes (keeps lake's cache warm).
"""
import sys, os, re


def die(msg):
    print("pcode_ops.py: " + msg)
    sys.exit(2)


def strip_comments(s):
    s = re.sub(r"/\*.*?\*/", "", s, flags=re.S)
    return "\n".join(re.sub(r"//.*$", "", l) for l in s.split("\n"))


def block_after(src, header_re, what, start=0):
    """(text of the `{…}` block that follows the match of header_re, end index)"""
    m = re.compile(header_re, re.S).search(src, start)
    if not m:
        die("anchor not found: " + what)
    i = src.find("{", m.end() - 1)
    if i < 0:
        die("no block after " + what)
    depth = 0
    for j in range(i, len(src)):
        if src[j] == "{":
            depth += 1
        elif src[j] == "}":
            depth -= 1
            if depth == 0:
                return src[i:j + 1], j + 1
    die("unbalanced braces after " + what)


def split_arms(match_block, what):
    """split the body of a `match … { … }` block into (pattern, body) pairs (top-level arms only)"""
    body = match_block[1:-1]
    arms, i, n = [], 0, len(body)
    while True:
        while i < n and body[i] in " \t\r\n,":
            i += 1
        if i >= n:
            break
        j = body.find("=>", i)
        if j < 0:
            die("arm without `=>` in " + what + ": " + body[i:i + 60])
        pat = body[i:j].strip()
        k = j + 2
        while k < n and body[k] in " \t\r\n":
            k += 1
        # body: either a `{…}` block or an expression up to the next top-level comma
        depth, e = 0, k
        if k < n and body[k] == "{":
            for e in range(k, n):
                if body[e] in "{([":
                    depth += 1
                elif body[e] in "})]":
                    depth -= 1
                    if depth == 0:
                        e += 1
                        break
        else:
            while e < n:
                c = body[e]
                if c in "{([":
                    depth += 1
                elif c in "})]":
                    depth -= 1
                elif c == "," and depth == 0:
                    break
                e += 1
        arms.append((pat, " ".join(body[k:e].split())))
        i = e
    if not arms:
        die("no arms in " + what)
    return arms


def pats(pat, variants, what):
    if pat == "_":
        return None
    names = [p.strip() for p in pat.split("|")]
    for p in names:
        if p not in variants:
            die("unknown mnemonic `%s` in a pattern of %s" % (p, what))
    return names


def enum_variants(src, name, what):
    blk, _ = block_after(src, r"pub enum " + name + r"\s*\{", what)
    out, aliases, pending = [], {}, []
    for line in blk[1:-1].split("\n"):
        line = line.strip()
        if not line:
            continue
        m = re.match(r'#\[serde\(alias\s*=\s*"([^"]+)"\)\]', line)
        if m:
            pending.append(m.group(1))
            continue
        if line.startswith("#["):
            continue
        m = re.match(r"([A-Za-z_][A-Za-z0-9_]*)\s*(?:\{|\(|,|$)", line)
        if not m:
            die("cannot read a variant of %s: %s" % (what, line))
        out.append(m.group(1))
        aliases[m.group(1)] = pending
        pending = []
    if not out:
        die("no variants in " + what)
    return out, aliases


def op_table(expr_rs, target, ir_variants, variants):
    what = "impl From<ExpressionType> for " + target
    impl, _ = block_after(expr_rs, r"impl From<ExpressionType> for " + target + r"\s*\{", what)
    mt, _ = block_after(impl, r"match expr_type\s*\{", "match expr_type in " + what)
    table, default, seen = {}, None, set()
    for pat, body in split_arms(mt, what):
        names = pats(pat, variants, what)
        if names is None:
            if body != "panic!()":
                die("the `_` arm of %s is not `panic!()`: %s" % (what, body))
            default = "panic"
            continue
        m = re.fullmatch(r"(?:" + target + r"::)?([A-Za-z0-9_]+)", body)
        if not m or m.group(1) not in ir_variants:
            die("right-hand side of %s not understood: %s => %s" % (what, pat, body))
        for nm in names:
            if nm in seen:
                die("mnemonic %s twice in %s" % (nm, what))
            seen.add(nm)
            table[nm] = m.group(1)
    if default is None and len(table) != len(variants):
        die(what + " is neither exhaustive nor has a `_ => panic!()` arm")
    return table


def classify(arms, variants, rules, what):
    """mnemonic -> class by keyword rules on the arm body; a `_` arm applies to the remaining mnemonics"""
    out, default = {}, None
    for pat, body in arms:
        cls = None
        for key, c in rules:
            if key in body:
                cls = c
                break
        if cls is None:
            die("arm body of %s not understood: %s => %s" % (what, pat, body[:100]))
        names = pats(pat, variants, what)
        if names is None:
            default = cls
            continue
        for nm in names:
            if nm not in out:          # first matching arm wins, as in Rust
                out[nm] = cls
    for v in variants:
        if v not in out:
            if default is None:
                die("%s has no arm for %s" % (what, v))
            out[v] = default
    return out


def main():
    if len(sys.argv) != 3:
        die("usage: pcode_ops.py <repo> <outdir>")
    repo, outdir = sys.argv[1], sys.argv[2]
    lib = os.path.join(repo, "src", "cwe_checker_lib", "src")
    try:
        expr_rs = strip_comments(open(os.path.join(lib, "pcode", "expressions.rs"), encoding="utf-8").read())
        term_rs = strip_comments(open(os.path.join(lib, "pcode", "term.rs"), encoding="utf-8").read())
        ir_rs = strip_comments(open(os.path.join(lib, "intermediate_representation", "expression.rs"),
                                    encoding="utf-8").read())
    except OSError as e:
        die("cannot read source: %s" % e)

    variants, aliases = enum_variants(expr_rs, "ExpressionType", "enum ExpressionType")
    jmp_variants, _ = enum_variants(term_rs, "JmpType", "enum JmpType")
    ir_bin, _ = enum_variants(ir_rs, "BinOpType", "enum BinOpType")
    ir_un, _ = enum_variants(ir_rs, "UnOpType", "enum UnOpType")
    ir_cast, _ = enum_variants(ir_rs, "CastOpType", "enum CastOpType")

    bin_t = op_table(expr_rs, "IrBinOpType", ir_bin, variants)
    un_t = op_table(expr_rs, "IrUnOpType", ir_un, variants)
    cast_t = op_table(expr_rs, "IrCastOpType", ir_cast, variants)

    # ---- impl From<Expression> for IrExpression
    what = "impl From<Expression> for IrExpression"
    impl, _ = block_after(expr_rs, r"impl From<Expression> for IrExpression\s*\{", what)
    mt, _ = block_after(impl, r"match expr\.mnemonic\s*\{", "match expr.mnemonic in " + what)
    expr_arm = classify(split_arms(mt, what), variants,
                        [("IrExpression::BinOp", "binOp"), ("IrExpression::UnOp", "unOp"),
                         ("panic!()", "panic"), ("unreachable!()", "panic"),
                         ("expr.input0.unwrap().into()", "copy")], what)

    # ---- Def::into_ir_def: the early-return match and the value match
    what = "Def::into_ir_def"
    fn, _ = block_after(term_rs, r"pub fn into_ir_def\s*\(", what)
    m1, end1 = block_after(fn, r"match self\.rhs\.mnemonic\s*\{", "first match of " + what)
    m2, _ = block_after(fn, r"match self\.rhs\.mnemonic\s*\{", "second match of " + what, end1)
    early = classify(split_arms(m1, what + " (early return)"), variants,
                     [("IrDef::Load", "load"), ("IrDef::Store", "store"), ("()", "none")], what + " (early return)")
    value = classify(split_arms(m2, what + " (value)"), variants,
                     [("IrExpression::Subpiece", "subpiece"), ("IrExpression::Cast", "cast"),
                      ("unreachable!()", "panic"), ("panic!()", "panic"), ("self.rhs.into()", "expr")],
                     what + " (value)")
    def_arm = {}
    for v in variants:
        def_arm[v] = early[v] if early[v] != "none" else value[v]

    # ---- emit
    o = []
    o.append("/- GENERATED by extract/pcode_ops.py from pcode/expressions.rs and pcode/term.rs — do not edit. -/")
    o.append("import CweModel.Base.IR")
    o.append("namespace CweModel.Gen.PcodeOps")
    o.append("open CweModel.IR")
    o.append("")
    o.append("/-- `enum ExpressionType` (pcode/expressions.rs) -/")
    o.append("inductive ExpressionType where")
    for v in variants:
        o.append("  | " + v)
    o.append("deriving DecidableEq, Repr, BEq, Hashable, Inhabited")
    o.append("")
    o.append("def ExpressionType.all : List ExpressionType :=\n  [" + ", ".join("." + v for v in variants) + "]")
    o.append("")
    o.append("/-- serde name followed by the `#[serde(alias = …)]` names -/")
    o.append("def ExpressionType.names : ExpressionType → List String")
    for v in variants:
        o.append("  | .%s => [%s]" % (v, ", ".join('"%s"' % s for s in [v] + aliases[v])))
    o.append("")
    for nm, tbl, ty, target in (("binOpMap", bin_t, "BinOpType", "IrBinOpType"), ("unOpMap", un_t, "UnOpType", "IrUnOpType"),
                                ("castMap", cast_t, "CastOpType", "IrCastOpType")):
        o.append("/-- `impl From<ExpressionType> for %s`; `none` = the `_ => panic!()` arm -/" % target)
        o.append("def %s : ExpressionType → Option %s" % (nm, ty))
        for v in variants:
            o.append("  | .%s => %s" % (v, ("some ." + tbl[v]) if v in tbl else "none"))
        o.append("")
    o.append("/-- the arm of `impl From<Expression> for IrExpression` a mnemonic takes -/")
    o.append("inductive ExprArm where\n  | copy | binOp | unOp | panic\nderiving DecidableEq, Repr, Inhabited")
    o.append("")
    o.append("def exprArm : ExpressionType → ExprArm")
    for v in variants:
        o.append("  | .%s => .%s" % (v, expr_arm[v]))
    o.append("")
    o.append("/-- the arm of `Def::into_ir_def` a mnemonic takes (`expr` = `self.rhs.into()`) -/")
    o.append("inductive DefArm where\n  | load | store | subpiece | cast | expr | panic\nderiving DecidableEq, Repr, Inhabited")
    o.append("")
    o.append("def defArm : ExpressionType → DefArm")
    for v in variants:
        o.append("  | .%s => .%s" % (v, def_arm[v]))
    o.append("")
    o.append("/-- `enum JmpType` (pcode/term.rs) -/")
    o.append("inductive JmpType where")
    for v in jmp_variants:
        o.append("  | " + v)
    o.append("deriving DecidableEq, Repr, BEq, Hashable, Inhabited")
    o.append("")
    o.append("def JmpType.all : List JmpType :=\n  [" + ", ".join("." + v for v in jmp_variants) + "]")
    o.append("")
    o.append("def JmpType.name : JmpType → String")
    for v in jmp_variants:
        o.append('  | .%s => "%s"' % (v, v))
    o.append("")
    o.append("end CweModel.Gen.PcodeOps")
    text = "\n".join(o) + "\n"

    os.makedirs(outdir, exist_ok=True)
    path = os.path.join(outdir, "PcodeOps.lean")
    old = open(path, encoding="utf-8").read() if os.path.exists(path) else None
    if old != text:
        tmp = path + ".tmp%d" % os.getpid()
        with open(tmp, "w", encoding="utf-8") as f:
            f.write(text)
        os.replace(tmp, path)
    print("PcodeOps.lean: %d mnemonics (%d binary, %d unary, %d cast), %d jump types%s"
          % (len(variants), len(bin_t), len(un_t), len(cast_t), len(jmp_variants), "" if old == text else " (rewritten)"))


if __name__ == "__main__":
    main()
