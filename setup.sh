#!/bin/sh
# Build everything the checks need, offline, from files on disk only.
set -e
cd "$(dirname "$0")"
mkdir -p .cache evidence replays
export CARGO_NET_OFFLINE=true CARGO_TARGET_DIR="$PWD/.cache/target" RUSTFLAGS="-Awarnings --cfg cwe_checker_verif"
[ -f harness/Cargo.lock ] || cp /repo/Cargo.lock harness/Cargo.lock
(cd lean && lake build $(python3 ../tools/list_drivers.py))
(cd harness && cargo build --release --offline $(python3 ../tools/list_bins.py))
