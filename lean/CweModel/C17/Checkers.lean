/-
C17 — the two checkers (`cwe_367::check_cwe`, `cwe_243::check_cwe`) follow their path specification
on every graph.
-/
import CweModel.C17.Search

namespace CweModel.C17
open CweModel.IR CweModel.Cfg CweModel.Reach List

/-! ### `sub_calls_chdir_and_priviledge_dropping_func` -/

theorem blkCallsTid_isSome (blk : Term Blk) (tid : Tid) :
    (blkCallsTid blk tid).isSome = blk.term.jmps.any (callsTid tid) := by
  simp only [blkCallsTid, Option.isSome_map]
  induction blk.term.jmps with
  | nil => rfl
  | cons j js ih => cases h : callsTid tid j <;> simp [h, ih]

/-- the function contains a direct call to `tid` -/
def SubCalls (sub : Term Sub) (tid : Tid) : Prop :=
  ∃ blk ∈ sub.term.blocks, ∃ j ∈ blk.term.jmps, ∃ r, j.term = .Call tid r

theorem callsTid_iff (tid : Tid) (j : Term Jmp) : callsTid tid j = true ↔ ∃ r, j.term = .Call tid r := by
  unfold callsTid
  cases h : j.term <;> simp [eq_comm]

/-- **C17-privdrop.** `sub_calls_chdir_and_priviledge_dropping_func` is true exactly when the function
calls `chdir` AND calls at least one of the privilege-dropping functions. -/
theorem subCallsChdirAndPrivDrop_iff (sub : Term Sub) (chdir : Tid) (privs : List Tid) :
    subCallsChdirAndPrivDrop sub chdir privs = true ↔ SubCalls sub chdir ∧ ∃ t ∈ privs, SubCalls sub t := by
  simp only [subCallsChdirAndPrivDrop, blkCallsTid_isSome, SubCalls]
  cases h : sub.term.blocks.any (fun blk => blk.term.jmps.any (callsTid chdir))
  · simp only [Bool.not_false, if_true, Bool.false_eq_true, false_iff, not_and]
    intro ⟨blk, hb, j, hj, hr⟩
    have : sub.term.blocks.any (fun blk => blk.term.jmps.any (callsTid chdir)) = true :=
      any_eq_true.mpr ⟨blk, hb, any_eq_true.mpr ⟨j, hj, (callsTid_iff _ _).mpr hr⟩⟩
    rw [h] at this; cases this
  · simp only [Bool.not_true, Bool.false_eq_true, if_false, any_eq_true] at h ⊢
    constructor
    · rintro ⟨blk, hb, t, ht, j, hj, hc⟩
      obtain ⟨b0, hb0, j0, hj0, hc0⟩ := h
      exact ⟨⟨b0, hb0, j0, hj0, (callsTid_iff _ _).mp hc0⟩, t, ht, blk, hb, j, hj, (callsTid_iff _ _).mp hc⟩
    · rintro ⟨_, t, ht, blk, hb, j, hj, hr⟩
      exact ⟨blk, hb, t, ht, j, hj, (callsTid_iff _ _).mpr hr⟩


/-! ### the checkers -/

theorem concatE_ok {α β : Type} {f : α → Except String (List β)} :
    ∀ {l : List α} {ws : List β}, concatE f l = .ok ws →
      ∀ w, w ∈ ws ↔ ∃ a ∈ l, ∃ wa, f a = .ok wa ∧ w ∈ wa
  | [], ws, h, w => by
    simp only [concatE, Except.ok.injEq] at h
    subst h; simp
  | a :: l, ws, h, w => by
    unfold concatE at h
    cases hfa : f a with
    | error e => simp [hfa] at h
    | ok wa =>
      simp only [hfa] at h
      cases hr : concatE f l with
      | error e => simp [hr] at h
      | ok wr =>
        simp only [hr, Except.ok.injEq] at h
        subst h
        have ih := concatE_ok hr w
        simp only [mem_append, ih, mem_cons]
        constructor
        · rintro (h | ⟨a', ha', wa', hf', hw'⟩)
          · exact ⟨a, .inl rfl, wa, hfa, h⟩
          · exact ⟨a', .inr ha', wa', hf', hw'⟩
        · rintro ⟨a', (rfl | ha'), wa', hf', hw'⟩
          · rw [hfa] at hf'; cases hf'; exact .inl hw'
          · exact .inr ⟨a', ha', wa', hf', hw'⟩

theorem concatE_ok_all {α β : Type} {f : α → Except String (List β)} :
    ∀ {l : List α} {ws : List β}, concatE f l = .ok ws → ∀ a ∈ l, ∃ wa, f a = .ok wa
  | [], _, _, a, ha => by cases ha
  | x :: l, ws, h, a, ha => by
    unfold concatE at h
    cases hfx : f x with
    | error e => simp [hfx] at h
    | ok wx =>
      simp only [hfx] at h
      cases hr : concatE f l with
      | error e => simp [hr] at h
      | ok wr =>
        rcases mem_cons.mp ha with rfl | ha
        · exact ⟨wx, hfx⟩
        · exact concatE_ok_all hr a ha

theorem concatE_total {α β : Type} {f : α → Except String (List β)} :
    ∀ {l : List α}, (∀ a ∈ l, ∃ wa, f a = .ok wa) → ∃ ws, concatE f l = .ok ws
  | [], _ => ⟨[], rfl⟩
  | a :: l, h => by
    obtain ⟨wa, hwa⟩ := h a (by simp)
    obtain ⟨wr, hwr⟩ := concatE_total (l := l) (fun x hx => h x (by simp [hx]))
    exact ⟨wa ++ wr, by simp [concatE, hwa, hwr]⟩

theorem concatE_error {α β : Type} {f : α → Except String (List β)} :
    ∀ {l : List α} {e : String}, concatE f l = .error e → ∃ a ∈ l, f a = .error e
  | [], e, h => by simp [concatE] at h
  | a :: l, e, h => by
    unfold concatE at h
    cases hfa : f a with
    | error e' => simp [hfa] at h; exact ⟨a, by simp, by rw [hfa, h]⟩
    | ok wa =>
      simp only [hfa] at h
      cases hr : concatE f l with
      | error e' =>
        simp only [hr, Except.error.injEq] at h
        obtain ⟨a', ha', hf'⟩ := concatE_error hr
        exact ⟨a', by simp [ha'], h ▸ hf'⟩
      | ok wr => simp [hr] at h

/-! #### CWE-367 -/

/-- `e` is the stub edge of a call to `s` that returns to block `blk` of function `sub` -/
def SourceCall (g : Graph) (s : Tid) (e : EdgeRef) (blk : Term Blk) (sub : Term Sub) : Prop :=
  e ∈ g.edges ∧ (∃ jt, externCall e.label = some (s, jt)) ∧ e.dst = .BlkStart blk sub

theorem check367Edge_ok {g : Graph} {source sink : String} {s k : Tid} {e : EdgeRef} {wa : List Warning}
    (h : check367Edge g source sink s k e = .ok wa) (w : Warning) :
    w ∈ wa ↔ (∃ jt, externCall e.label = some (s, jt)) ∧ ∃ blk sub t, e.dst = .BlkStart blk sub ∧
      isSinkCallReachable g e.dst s k = some t ∧ w = warning367 source sink blk.tid t sub.term.name := by
  unfold check367Edge at h
  cases hx : externCall e.label with
  | none => simp [hx] at h; subst h; simp
  | some tj =>
    obtain ⟨target, jt⟩ := tj
    simp only [hx] at h
    by_cases ht : target = s
    · subst ht
      simp only [if_true] at h
      cases hr : isSinkCallReachable g e.dst target k with
      | none => simp [hr] at h; subst h; simp
      | some t =>
        simp only [hr] at h
        cases hd : e.dst with
        | BlkStart blk sub =>
          simp only [hd, Except.ok.injEq] at h
          subst h
          constructor
          · intro hw
            simp only [mem_singleton] at hw
            exact ⟨⟨jt, rfl⟩, blk, sub, t, rfl, rfl, hw⟩
          · rintro ⟨_, blk', sub', t', hd', hr', rfl⟩
            cases hd'
            cases hr'
            simp
        | BlkEnd _ _ => simp [hd] at h
        | CallReturn _ _ => simp [hd] at h
        | CallSource _ _ => simp [hd] at h
    · simp only [ht, if_false, Except.ok.injEq] at h
      subst h
      simp [ht]

/-- **C17-toctou (reported ⇒ reachable).** Every warning of the TOCTOU check belongs to a configured
(check, use) pair whose symbols are imported and to a call of the check function; the reported use call
is a call to the use function that is reachable from the return site of the check call along
intraprocedural control flow without passing another call to the check function. -/
theorem check367_sound {p : Program} {g : Graph} {pairs : List (String × String)} {ws : List Warning}
    (h : check367 p g pairs = .ok ws) {w : Warning} (hw : w ∈ ws) :
    ∃ pr ∈ pairs, ∃ s k, symbolMapGet p pr.1 = some s ∧ symbolMapGet p pr.2 = some k ∧
      ∃ e blk sub t, SourceCall g s e blk sub ∧ w = warning367 pr.1 pr.2 blk.tid t sub.term.name ∧
        ∃ m, IntraPath g s e.dst m ∧ SinkCallAt g k m t := by
  unfold check367 at h
  obtain ⟨pr, hpr, wa, hwa, hwm⟩ := (concatE_ok h w).mp hw
  cases hs : symbolMapGet p pr.1 with
  | none => simp [hs] at hwa; subst hwa; cases hwm
  | some s =>
    cases hk : symbolMapGet p pr.2 with
    | none => simp [hs, hk] at hwa; subst hwa; cases hwm
    | some k =>
      simp only [hs, hk] at hwa
      obtain ⟨e, he, we, hwe, hwme⟩ := (concatE_ok hwa w).mp hwm
      obtain ⟨hx, blk, sub, t, hd, hr, rfl⟩ := (check367Edge_ok hwe w).mp hwme
      exact ⟨pr, hpr, s, k, hs, hk, e, blk, sub, t, ⟨he, hx, hd⟩, rfl, isSinkCallReachable_sound hr⟩

/-- **C17-toctou (reachable ⇒ reported).** For every configured (check, use) pair whose symbols are
imported and every call of the check function from whose return site a call to the use function is
reachable (intraprocedurally, without passing another call to the check function), the TOCTOU check
reports a warning for this call site, naming a reachable call to the use function. -/
theorem check367_complete {p : Program} {g : Graph} {pairs : List (String × String)} {ws : List Warning}
    (h : check367 p g pairs = .ok ws) {pr : String × String} (hpr : pr ∈ pairs) {s k : Tid}
    (hs : symbolMapGet p pr.1 = some s) (hk : symbolMapGet p pr.2 = some k)
    {e : EdgeRef} {blk : Term Blk} {sub : Term Sub} (hsc : SourceCall g s e blk sub)
    (hreach : ∃ m t, IntraPath g s e.dst m ∧ SinkCallAt g k m t) :
    ∃ t, warning367 pr.1 pr.2 blk.tid t sub.term.name ∈ ws ∧ ∃ m, IntraPath g s e.dst m ∧ SinkCallAt g k m t := by
  obtain ⟨t, ht⟩ := Option.isSome_iff_exists.mp ((isSinkCallReachable_isSome_iff g e.dst s k).mpr hreach)
  refine ⟨t, ?_, isSinkCallReachable_sound ht⟩
  unfold check367 at h
  -- the inner loop for this pair succeeded
  have hin : ∃ wa, concatE (check367Edge g pr.1 pr.2 s k) g.edges = .ok wa := by
    obtain ⟨wa, hwa⟩ := concatE_ok_all h pr hpr
    simp only [hs, hk] at hwa
    exact ⟨wa, hwa⟩
  obtain ⟨wa, hwa⟩ := hin
  refine (concatE_ok h _).mpr ⟨pr, hpr, wa, by simp only [hs, hk, hwa], ?_⟩
  obtain ⟨wsrc, hwsrc⟩ : ∃ we, check367Edge g pr.1 pr.2 s k e = .ok we := by
    obtain ⟨_, ⟨jt, hx⟩, hd⟩ := hsc
    rw [hd] at ht
    simp [check367Edge, hx, ht, hd]
  refine (concatE_ok hwa _).mpr ⟨e, hsc.1, wsrc, hwsrc, ?_⟩
  exact (check367Edge_ok hwsrc _).mpr ⟨hsc.2.1, blk, sub, t, hsc.2.2, ht, rfl⟩

/-! #### CWE-243 -/

/-- a call to `chdir` is reachable after the chroot call ending `n` (from its return site,
intraprocedurally, without passing another chroot call) -/
def ChdirAfter (g : Graph) (chroot chdir : Tid) (n : Node) : Prop :=
  ∃ retTo ∈ g.neighbors n, ∃ m t, IntraPath g chroot retTo m ∧ SinkCallAt g chdir m t

/-- the verdict of the chroot check for the call site `BlkEnd blk sub` -/
def Insecure (p : Program) (g : Graph) (chroot : Tid) (privs : List Tid) (n : Node) (sub : Term Sub) : Prop :=
  findSymbol p "chdir" = none ∨
  ∃ chdir, findSymbol p "chdir" = some chdir ∧ ¬ ChdirAfter g chroot chdir n ∧
    ¬ (SubCalls sub chdir ∧ ∃ t ∈ privs, SubCalls sub t)

theorem check243Node_ok {p : Program} {g : Graph} {chroot : Tid} {privs : List Tid} {n : Node}
    {wa : List Warning} (h : check243Node p g chroot privs n = .ok wa) (w : Warning) :
    w ∈ wa ↔ ∃ blk sub callsite, n = .BlkEnd blk sub ∧ blkCallsTid blk chroot = some callsite ∧
      w = warning243 sub callsite ∧ Insecure p g chroot privs n sub := by
  unfold check243Node at h
  cases n with
  | BlkStart _ _ => simp at h; subst h; simp
  | CallReturn _ _ => simp at h; subst h; simp
  | CallSource _ _ => simp at h; subst h; simp
  | BlkEnd blk sub =>
    simp only at h
    cases hc : blkCallsTid blk chroot with
    | none => simp [hc] at h; subst h; simp [hc]
    | some callsite =>
      simp only [hc] at h
      have key : (∃ blk' sub' cs', Node.BlkEnd blk sub = .BlkEnd blk' sub' ∧ blkCallsTid blk' chroot = some cs' ∧
          w = warning243 sub' cs' ∧ Insecure p g chroot privs (.BlkEnd blk sub) sub') ↔
          (w = warning243 sub callsite ∧ Insecure p g chroot privs (.BlkEnd blk sub) sub) := by
        constructor
        · rintro ⟨blk', sub', cs', heq, h1, h2, h3⟩
          cases heq
          rw [hc] at h1
          cases h1
          exact ⟨h2, h3⟩
        · rintro ⟨h2, h3⟩
          exact ⟨blk, sub, callsite, rfl, hc, h2, h3⟩
      rw [key]
      unfold Insecure
      cases hd : findSymbol p "chdir" with
      | none =>
        simp only [hd, Except.ok.injEq] at h
        subst h
        simp
      | some chdir =>
        simp only [hd] at h
        by_cases hlen : (g.neighbors (.BlkEnd blk sub)).length > 1
        · simp [hlen] at h
        · simp only [hlen, if_false] at h
          -- the reachability test
          have hreach : chdirReachableAfter g (.BlkEnd blk sub) chroot chdir = true ↔
              ChdirAfter g chroot chdir (.BlkEnd blk sub) := by
            unfold ChdirAfter chdirReachableAfter
            rcases hn : g.neighbors (.BlkEnd blk sub) with _ | ⟨r, _ | ⟨r2, rest⟩⟩
            · simp
            · simp [isSinkCallReachable_isSome_iff]
            · rw [hn] at hlen; simp at hlen
          have hpriv := subCallsChdirAndPrivDrop_iff sub chdir privs
          cases hr : chdirReachableAfter g (.BlkEnd blk sub) chroot chdir with
          | true =>
            have hca := hreach.mp hr
            simp only [hr, Bool.not_true, Bool.false_eq_true, if_false, Except.ok.injEq] at h
            subst h
            simp [hca]
          | false =>
            have hca : ¬ ChdirAfter g chroot chdir (.BlkEnd blk sub) := fun hc' => by
              have := hreach.mpr hc'; rw [hr] at this; cases this
            simp only [hr, Bool.not_false, if_true] at h
            cases hp : subCallsChdirAndPrivDrop sub chdir privs with
            | true =>
              have hp' := hpriv.mp hp
              simp only [hp, Bool.not_true, Bool.false_eq_true, if_false, Except.ok.injEq] at h
              subst h
              simp [hp']
            | false =>
              have hp' : ¬ (SubCalls sub chdir ∧ ∃ t ∈ privs, SubCalls sub t) := fun hq => by
                have := hpriv.mpr hq; rw [hp] at this; cases this
              simp only [hp, Bool.not_false, if_true, Except.ok.injEq] at h
              subst h
              simp [hca]
              intro _ h1 x hx h2
              exact hp' ⟨h1, x, hx, h2⟩

/-- **C17-chroot.** The chroot check reports a warning exactly for the chroot call sites
(`BlkEnd` nodes of blocks calling `chroot`) for which `chdir` is not imported at all, or no call to
`chdir` is reachable after the chroot call (intraprocedurally, without passing another chroot call)
and the function does not call both `chdir` and one of the privilege-dropping functions. -/
theorem check243_iff {p : Program} {g : Graph} {privNames : List String} {ws : List Warning}
    (h : check243 p g privNames = .ok ws) (w : Warning) :
    w ∈ ws ↔ ∃ chroot, findSymbol p "chroot" = some chroot ∧ ∃ blk sub callsite,
      Node.BlkEnd blk sub ∈ g.nodes ∧ blkCallsTid blk chroot = some callsite ∧ w = warning243 sub callsite ∧
      Insecure p g chroot (privNames.filterMap (findSymbol p)) (.BlkEnd blk sub) sub := by
  unfold check243 at h
  cases hc : findSymbol p "chroot" with
  | none => simp [hc] at h; subst h; simp
  | some chroot =>
    simp only [hc] at h
    rw [concatE_ok h w]
    constructor
    · rintro ⟨n, hn, wa, hwa, hw⟩
      obtain ⟨blk, sub, callsite, rfl, h1, h2, h3⟩ := (check243Node_ok hwa w).mp hw
      exact ⟨chroot, rfl, blk, sub, callsite, hn, h1, h2, h3⟩
    · rintro ⟨chroot', hc', blk, sub, callsite, hn, h1, h2, h3⟩
      cases hc'
      obtain ⟨wa, hwa⟩ := concatE_ok_all h _ hn
      exact ⟨_, hn, wa, hwa, (check243Node_ok hwa w).mpr ⟨blk, sub, callsite, rfl, h1, h2, h3⟩⟩

/-- **C17-chroot-total (graph level).** The chroot check fails only through its explicit assertion:
it returns normally whenever every chroot call site has at most one outgoing edge — in particular a
chroot call without a return site (no outgoing edge, finding D7) is handled. -/
theorem check243_total_of {p : Program} {g : Graph} {privNames : List String}
    (hdeg : ∀ blk sub, Node.BlkEnd blk sub ∈ g.nodes → ∀ chroot, findSymbol p "chroot" = some chroot →
      (blkCallsTid blk chroot).isSome → (g.neighbors (.BlkEnd blk sub)).length ≤ 1) :
    ∃ ws, check243 p g privNames = .ok ws := by
  unfold check243
  cases hc : findSymbol p "chroot" with
  | none => exact ⟨[], rfl⟩
  | some chroot =>
    simp only
    apply concatE_total
    intro n hn
    unfold check243Node
    cases n with
    | BlkStart _ _ => exact ⟨[], rfl⟩
    | CallReturn _ _ => exact ⟨[], rfl⟩
    | CallSource _ _ => exact ⟨[], rfl⟩
    | BlkEnd blk sub =>
      simp only
      cases hb : blkCallsTid blk chroot with
      | none => exact ⟨[], rfl⟩
      | some callsite =>
        simp only
        cases findSymbol p "chdir" with
        | none => exact ⟨_, rfl⟩
        | some chdir =>
          have := hdeg blk sub hn chroot hc (by simp [hb])
          have hlen : ¬ (g.neighbors (.BlkEnd blk sub)).length > 1 := by omega
          simp only [hlen, if_false]
          generalize chdirReachableAfter g (.BlkEnd blk sub) chroot chdir = b1
          generalize subCallsChdirAndPrivDrop sub chdir _ = b2
          cases b1 <;> cases b2 <;> exact ⟨_, rfl⟩

end CweModel.C17
