/-
C17 — property theorems. Statement of the property:

  The TOCTOU check reports a (check, use) pair at a call to the check function exactly when a call
  to the use function is reachable from it along intraprocedural control flow without passing another
  call to the check function. The chroot check reports a chroot call exactly when no chdir call is
  reachable after it in that sense and its function does not call both chdir and a
  privilege-dropping function (or when chdir is not imported at all); it handles every program
  without failing.

Where the theorems are:
* `Search.lean`: `isSinkCallReachable_sound`, `isSinkCallReachable_isSome_iff`, `search_fuel_sufficient`
  (the reachability query = existence of a passable path to a sink call, for every graph),
* `Checkers.lean`: `check367_sound`, `check367_complete`, `check243_iff`, `check243_total_of`,
  `subCallsChdirAndPrivDrop_iff` (the two checkers, for every graph),
* this file: on the graph of a program (`buildCfgE`, property C08) the checks never fail:
  `check367_total`, `check243_total` (the latter under `NoConditionalCalls`).
-/
import CweModel.C08.Props
import CweModel.C17.Checkers

namespace CweModel.C17
open CweModel.IR CweModel.Cfg CweModel.C08 List

/-! ### the graph of a program: chroot call sites have at most one outgoing edge -/

theorem length_filter_flatMap_le {α β : Type} (f : α → List β) (q : β → Bool) (a0 : α) :
    ∀ {l : List α}, l.Nodup → (∀ a ∈ l, a ≠ a0 → (f a).filter q = []) →
      ((l.flatMap f).filter q).length ≤ ((f a0).filter q).length
  | [], _, _ => by simp
  | a :: l, hn, h => by
    rw [nodup_cons] at hn
    simp only [flatMap_cons, filter_append, length_append]
    by_cases ha : a = a0
    · subst ha
      have : (l.flatMap f).filter q = [] := by
        rw [filter_flatMap]
        simp only [flatMap_eq_nil_iff]
        intro x hx
        exact h x (mem_cons_of_mem _ hx) (fun hxa => hn.1 (hxa ▸ hx))
      simp [this]
    · rw [h a (by simp) ha]
      simpa using length_filter_flatMap_le f q a0 hn.2 (fun x hx => h x (mem_cons_of_mem _ hx))

theorem edgeTo_src {bs : BlkSub} {t : Tid} {l : Edge} {e : EdgeRef} (h : e ∈ edgeTo bs t l) :
    e.src = .BlkEnd bs.1 bs.2 := by
  unfold edgeTo at h
  split at h
  · simp only [mem_singleton] at h; rw [h]
  · cases h

theorem jumpEdges_src {p : Program} {bs : BlkSub} {ju : Term Jmp × Option (Term Jmp)} {e : EdgeRef}
    (h : e ∈ jumpEdges p bs ju) : e.src = .BlkEnd bs.1 bs.2 := by
  unfold jumpEdges at h
  split at h
  · exact edgeTo_src h
  · exact edgeTo_src h
  · obtain ⟨t, _, ht⟩ := mem_flatMap.mp h; exact edgeTo_src ht
  · split at h
    · exact edgeTo_src h
    · cases h
  · exact edgeTo_src h
  · cases h

/-- programs without conditional calls: a block that contains a call has no other jump
("Conditional calls are not supported", `graph.rs`) -/
def NoConditionalCalls (p : Program) : Prop :=
  ∀ s ∈ p.subs, ∀ b ∈ s.term.blocks, b.term.jmps.any isCall = true → b.term.jmps.length = 1

instance (p : Program) : Decidable (NoConditionalCalls p) := by unfold NoConditionalCalls; infer_instance

theorem filter_eq_nil_of {α : Type} {q : α → Bool} {l : List α} (h : ∀ x ∈ l, q x = false) : l.filter q = [] := by
  rw [filter_eq_nil_iff]
  intro x hx
  simp [h x hx]

/-- In the graph of a program, the end node of a block whose only jump is a call to an extern symbol
has at most one outgoing edge (the `ExternCallStub` to the return site, if there is one). -/
theorem extern_callsite_out_le_one {p : Program} (hr : CfgReady p) {g : Graph} (hg : buildCfgE p = .ok g)
    {blk : Term Blk} {sub : Term Sub} (hm : (blk, sub) ∈ pairs p) {jt t : Tid} {r : Option Tid}
    (hj : blk.term.jmps = [⟨jt, .Call t r⟩]) (hx : isExtern p t = true) :
    (g.neighbors (.BlkEnd blk sub)).length ≤ 1 := by
  obtain ⟨g', hg', _, hperm⟩ := buildCfg_spec hr
  rw [hg] at hg'
  cases hg'
  let q : EdgeRef → Bool := fun e => decide (e.src = Node.BlkEnd blk sub)
  have hlen : (g.neighbors (.BlkEnd blk sub)).length = ((specEdges p).filter q).length := by
    simp only [Graph.neighbors, Graph.outEdges, length_map, length_reverse]
    exact (Perm.filter q hperm).length_eq
  rw [hlen]
  have hnd := pairs_nodup hr
  unfold specEdges
  simp only [filter_append, length_append]
  -- block edges
  have hA : ((pairs p).map (fun bs => (⟨.BlkStart bs.1 bs.2, .BlkEnd bs.1 bs.2, .Block⟩ : EdgeRef))).filter q = [] :=
    filter_eq_nil_of (by
      intro e he
      obtain ⟨bs, _, rfl⟩ := mem_map.mp he
      simp [q])
  -- jump edges
  have hmj : markedJumps blk = [(⟨jt, .Call t r⟩, none)] := by simp [markedJumps, hj]
  have hB : (((pairs p).flatMap (fun bs => (markedJumps bs.1).flatMap (jumpEdges p bs))).filter q).length ≤ 1 := by
    refine Nat.le_trans (length_filter_flatMap_le _ q (blk, sub) hnd ?_) ?_
    · intro bs _ hne
      refine filter_eq_nil_of ?_
      intro e he
      obtain ⟨ju, _, hju⟩ := mem_flatMap.mp he
      have := jumpEdges_src hju
      simp only [q, this, decide_eq_false_iff_not, Node.BlkEnd.injEq, not_and]
      intro h1 h2
      exact hne (Prod.ext h1 h2)
    · refine Nat.le_trans (length_filter_le _ _) ?_
      simp only [hmj, flatMap_cons, flatMap_nil, append_nil, jumpEdges]
      cases r with
      | none => simp
      | some rt =>
        simp only [hx, if_true, edgeTo]
        split <;> simp
  -- call edges
  have hC : ((pairs p).flatMap (fun bs => (callSites p bs).flatMap (·.callEdges))).filter q = [] := by
    refine filter_eq_nil_of ?_
    intro e he
    obtain ⟨bs, hbs, hc⟩ := mem_flatMap.mp he
    obtain ⟨c, hc, hce⟩ := mem_flatMap.mp hc
    obtain ⟨hsrc, hjm, _⟩ := mem_callSites hc
    simp only [CallSite.callEdges, mem_cons, not_mem_nil, or_false] at hce
    rcases hce with rfl | rfl
    · simp only [q, decide_eq_false_iff_not, Node.BlkEnd.injEq, not_and]
      intro h1 h2
      -- then `bs = (blk, sub)`, whose only jump is a call to an extern symbol
      have hbs' : bs = (blk, sub) := by rw [← hsrc]; exact Prod.ext h1 h2
      subst hbs'
      simp only [callSites, hj, flatMap_cons, flatMap_nil, append_nil, callSite1, calleeOf, hx, if_true] at hc
      cases hc
    · simp [q, CallSite.sourceNode]
  -- return edges
  have hD : ((pairs p).flatMap (fun rf =>
      if hasReturn rf.1 then (returningCallsTo p rf.2.tid).flatMap (fun cr => returnEdges rf cr.1 cr.2)
      else [])).filter q = [] := by
    refine filter_eq_nil_of ?_
    intro e he
    obtain ⟨rf, hrf, hc⟩ := mem_flatMap.mp he
    split at hc
    next hret =>
      obtain ⟨cr, _, hce⟩ := mem_flatMap.mp hc
      simp only [returnEdges, mem_cons, not_mem_nil, or_false] at hce
      rcases hce with rfl | rfl | rfl
      · simp [q, CallSite.sourceNode]
      · simp only [q, decide_eq_false_iff_not, Node.BlkEnd.injEq, not_and]
        intro h1 _
        subst h1
        simp [hasReturn, hj, isReturn] at hret
      · simp [q, callReturnNode]
    next => cases hc
  rw [hA, hC, hD]
  simpa using hB

theorem blkEnd_mem_specNodes {p : Program} {blk : Term Blk} {sub : Term Sub}
    (h : Node.BlkEnd blk sub ∈ specNodes p) : (blk, sub) ∈ pairs p := by
  unfold specNodes at h
  simp only [mem_append, mem_flatMap] at h
  rcases h with (⟨bs, hbs, hn⟩ | ⟨bs, _, hn⟩) | ⟨rf, _, hn⟩
  · simp only [mem_cons, not_mem_nil, or_false] at hn
    rcases hn with hn | hn
    · cases hn
    · cases hn; exact hbs
  · obtain ⟨c, _, hc⟩ := mem_map.mp hn
    simp [CallSite.sourceNode] at hc
  · split at hn
    · obtain ⟨c, _, hc⟩ := mem_map.mp hn
      simp [callReturnNode] at hc
    · cases hn

theorem findSymbol_isExtern {p : Program} {name : String} {t : Tid} (h : findSymbol p name = some t) :
    isExtern p t = true := by
  unfold findSymbol at h
  obtain ⟨s, hs, rfl⟩ := Option.map_eq_some_iff.mp h
  simp only [isExtern, externTids, any_eq_true, decide_eq_true_eq]
  exact ⟨s.tid, mem_map_of_mem (mem_of_find?_eq_some hs), rfl⟩

theorem externCall_edge_dst {p : Program} {e : EdgeRef} (he : e ∈ specEdges p) {x : Tid × Tid}
    (hx : externCall e.label = some x) : ∃ b s, e.dst = .BlkStart b s := by
  unfold specEdges at he
  simp only [mem_append, mem_flatMap, mem_map] at he
  rcases he with ((⟨bs, _, rfl⟩ | ⟨bs, _, ju, _, hj⟩) | ⟨bs, _, c, _, hc⟩) | ⟨rf, _, hr⟩
  · simp [externCall] at hx
  · -- every jump / stub edge ends at a block start
    have hdst : ∀ {t : Tid} {l : Edge} {e : EdgeRef}, e ∈ edgeTo bs t l → ∃ b s, e.dst = .BlkStart b s := by
      intro t l e h
      unfold edgeTo at h
      split at h
      · simp only [mem_singleton] at h; subst h; exact ⟨_, _, rfl⟩
      · cases h
    unfold jumpEdges at hj
    split at hj
    · exact hdst hj
    · exact hdst hj
    · obtain ⟨t, _, ht⟩ := mem_flatMap.mp hj; exact hdst ht
    · split at hj
      · exact hdst hj
      · cases hj
    · exact hdst hj
    · cases hj
  · simp only [CallSite.callEdges, mem_cons, not_mem_nil, or_false] at hc
    rcases hc with rfl | rfl <;> simp [externCall] at hx
  · split at hr
    · obtain ⟨cr, _, hce⟩ := mem_flatMap.mp hr
      simp only [returnEdges, mem_cons, not_mem_nil, or_false] at hce
      rcases hce with rfl | rfl | rfl <;> simp [externCall] at hx
    · cases hr

/-- **C17-toctou-total.** On the graph of a program satisfying `CfgReady` the TOCTOU check never
fails. -/
theorem check367_total {p : Program} (hr : CfgReady p) {g : Graph} (hg : buildCfgE p = .ok g)
    (pairs : List (String × String)) : ∃ ws, check367 p g pairs = .ok ws := by
  obtain ⟨g', hg', _, hperm⟩ := buildCfg_spec hr
  rw [hg] at hg'
  cases hg'
  unfold check367
  apply concatE_total
  intro pr _
  cases symbolMapGet p pr.1 with
  | none => exact ⟨[], rfl⟩
  | some s =>
    cases symbolMapGet p pr.2 with
    | none => exact ⟨[], rfl⟩
    | some k =>
      simp only
      apply concatE_total
      intro e he
      unfold check367Edge
      cases hx : externCall e.label with
      | none => exact ⟨[], rfl⟩
      | some tj =>
        obtain ⟨b, sb, hd⟩ := externCall_edge_dst (hperm.mem_iff.mp he) hx
        simp only
        split
        · split
          · rw [hd]; exact ⟨_, rfl⟩
          · exact ⟨[], rfl⟩
        · exact ⟨[], rfl⟩

/-- **C17-chroot-total.** On the graph of every program that satisfies `CfgReady` and has no
conditional calls the chroot check returns normally ("it handles every program without failing"):
in particular for chroot calls without a return site (finding D7, repaired). -/
theorem check243_total {p : Program} (hr : CfgReady p) (hnc : NoConditionalCalls p) {g : Graph}
    (hg : buildCfgE p = .ok g) (privNames : List String) : ∃ ws, check243 p g privNames = .ok ws := by
  apply check243_total_of
  intro blk sub hn chroot hc hcalls
  obtain ⟨g', hg', hpn, _⟩ := buildCfg_spec hr
  rw [hg] at hg'
  cases hg'
  have hm := blkEnd_mem_specNodes (hpn.mem_iff.mp hn)
  have ⟨hs, hb⟩ := mem_pairs.mp hm
  rw [blkCallsTid_isSome] at hcalls
  obtain ⟨j, hj, hjc⟩ := any_eq_true.mp hcalls
  obtain ⟨r, hjr⟩ := (callsTid_iff _ _).mp hjc
  have hany : blk.term.jmps.any isCall = true := any_eq_true.mpr ⟨j, hj, by simp [isCall, hjr]⟩
  have hlen := hnc sub hs blk hb hany
  obtain ⟨jt, jterm⟩ := j
  simp only at hjr
  subst hjr
  have hjmps : blk.term.jmps = [⟨jt, .Call chroot r⟩] := by
    rcases hl : blk.term.jmps with _ | ⟨a, _ | ⟨b, rest⟩⟩
    · rw [hl] at hj; cases hj
    · rw [hl] at hj; simp only [mem_singleton] at hj; rw [hj]
    · rw [hl] at hlen; simp at hlen
  exact extern_callsite_out_le_one hr hg hm hjmps (findSymbol_isExtern hc)

/-! ### non-vacuity -/

namespace Example
def zf : Expression := .Var ⟨"ZF", 1, false⟩
def jmp (t : String) (j : Jmp) : Term Jmp := ⟨⟨t, "UNKNOWN"⟩, j⟩
def blk (t : String) (jmps : List (Term Jmp)) : Term Blk :=
  ⟨⟨t, "UNKNOWN"⟩, { defs := [], jmps := jmps, indirectJmpTargets := [] }⟩
def ext (t name : String) : ExternSymbol :=
  { tid := ⟨t, "UNKNOWN"⟩, addresses := [], name := name, callingConvention := none, parameters := [],
    returnValues := [], noReturn := false, hasVarArgs := false }

/-- `access(); if .. { open() }; chroot()` where the chroot call has no return site (finding D7) -/
def prog : Program :=
  { subs := [
      ⟨⟨"main", "UNKNOWN"⟩, { name := "main", blocks := [
        blk "m0" [jmp "m0j0" (.Call ⟨"x_access", "UNKNOWN"⟩ (some ⟨"m1", "UNKNOWN"⟩))],
        blk "m1" [jmp "m1j0" (.CBranch ⟨"m3", "UNKNOWN"⟩ zf), jmp "m1j1" (.Branch ⟨"m2", "UNKNOWN"⟩)],
        blk "m2" [jmp "m2j0" (.Call ⟨"x_open", "UNKNOWN"⟩ (some ⟨"m3", "UNKNOWN"⟩))],
        blk "m3" [jmp "m3j0" (.Call ⟨"x_chroot", "UNKNOWN"⟩ none)]] }⟩],
    externSymbols := [ext "x_access" "access", ext "x_chdir" "chdir", ext "x_chroot" "chroot", ext "x_open" "open"],
    entryPoints := [⟨"main", "UNKNOWN"⟩] }

example : CfgReady prog ∧ NoConditionalCalls prog := by decide

example : (check367 prog (buildCfg prog) [("access", "open")]).toOption
    = some [warning367 "access" "open" ⟨"m1", "UNKNOWN"⟩ ⟨"m2j0", "UNKNOWN"⟩ "main"] := by decide

example : (check243 prog (buildCfg prog) ["setuid"]).toOption
    = some [warning243 ⟨⟨"main", "UNKNOWN"⟩, { name := "main", blocks := [] }⟩ ⟨"m3j0", "UNKNOWN"⟩] := by decide
end Example

end CweModel.C17
