/- C17 model driver: runs the models of the two checkers (on the graph model of C08) and the
path specification on harness cases. -/
import CweModel.Base.Proto
import CweModel.Base.IR
import CweModel.Base.Cfg
import CweModel.C17.Model
open Lean CweModel.Proto CweModel.IR CweModel.Cfg

namespace CweModel.C17

def parseWarning (j : Json) : Except String Warning := do
  return { tids := ← mapM' (·.getStr?) (← arrF j "t"), addresses := ← mapM' (·.getStr?) (← arrF j "a"),
           symbols := ← mapM' (·.getStr?) (← arrF j "s"), description := ← strF j "d" }

def warnS (w : Warning) : String :=
  "[" ++ ",".intercalate w.tids ++ "|" ++ ",".intercalate w.addresses ++ "|" ++ ",".intercalate w.symbols ++ "|" ++
    w.description ++ "]"

def sortedW (ws : List Warning) : List String := ((ws.map warnS).toArray.qsort (· < ·)).toList

def clean (s : String) : String := s.replace " " "_"

/-- remove the first element satisfying `q`; `none` if there is none -/
def removeFirst {α : Type} (q : α → Bool) : List α → Option (List α)
  | [] => none
  | a :: as => if q a then some as else (removeFirst q as).map (a :: ·)

/-- match every implementation warning with a distinct expectation (a list of admissible warnings) -/
def matchAll : List Warning → List (List Warning) → Bool
  | [], [] => true
  | [], _ :: _ => false
  | w :: ws, exps =>
    match removeFirst (fun (cands : List Warning) => cands.contains w) exps with
    | some rest => matchAll ws rest
    | none => false

/-- executable form of the TOCTOU specification: for every configured pair with both symbols
imported and every stub edge of a call to the check symbol from whose return site a call to the use
symbol is reachable (path specification), the admissible warnings (one per reachable use call) -/
def expected367 (p : Program) (g : Graph) (pairs : List (String × String)) : List (List Warning) :=
  pairs.flatMap (fun pr =>
    match symbolMapGet p pr.1, symbolMapGet p pr.2 with
    | some s, some k =>
      g.edges.filterMap (fun e =>
        match externCall e.label with
        | some (target, _) =>
          if target = s then
            match reachableSinkCalls g e.dst s k, e.dst with
            | [], _ => none
            | ts, .BlkStart blk sub => some (ts.map (fun t => warning367 pr.1 pr.2 blk.tid t sub.term.name))
            | _, _ => none
          else none
        | none => none)
    | _, _ => [])

/-- the function calls `tid` somewhere -/
def subCalls (sub : Term Sub) (tid : Tid) : Bool :=
  sub.term.blocks.any (fun b => b.term.jmps.any (callsTid tid))

/-- executable form of the chroot specification (`none`: outside the hypothesis "a chroot call is
the only jump of its block") -/
def expected243 (p : Program) (g : Graph) (privNames : List String) : Option (List Warning) :=
  match findSymbol p "chroot" with
  | none => some []
  | some chroot =>
    let sites := g.nodes.filterMap (fun n =>
      match n with
      | .BlkEnd blk sub =>
        match blk.term.jmps.find? (callsTid chroot) with
        | some j => some (n, blk, sub, j)
        | none => none
      | _ => none)
    if sites.any (fun s => s.2.1.term.jmps.length != 1) then none
    else some (sites.filterMap (fun (n, _, sub, j) =>
      match findSymbol p "chdir" with
      | none => some (warning243 sub j.tid)
      | some chdir =>
        let after := (g.neighbors n).flatMap (fun r => reachableSinkCalls g r chroot chdir)
        let privs := privNames.filterMap (findSymbol p)
        if after.isEmpty && !(subCalls sub chdir && privs.any (subCalls sub)) then some (warning243 sub j.tid)
        else none))

def parsePairs (j : Json) : Except String (List (String × String)) := do
  let arr ← arrF j "pairs"
  mapM' (fun pj => do
    match (← pj.getArr?).toList with
    | [a, b] => return (← a.getStr?, ← b.getStr?)
    | _ => throw "pair") arr

def handleE (line : String) : Except String String := do
  let j ← Json.parse line
  let q ← strF j "q"
  let p ← parseProgram (← field j "prog")
  let params ← field j "params"
  let implJ ← field j "impl"
  let impl : Option (List Warning) ← match implJ with
    | .str _ => pure none
    | .arr a => do pure (some (← mapM' parseWarning a.toList))
    | _ => throw "impl"
  let ready := decide (CfgReady p)
  match buildCfgE p with
  | .error _ =>
    match impl with
    | none => return s!"ok q{q} cfg-panic modelonly"
    | some _ => return s!"diff class=q{q}-cfg model=panic impl=warnings"
  | .ok g =>
    if q == "367" then
      let pairs ← parsePairs params
      let exp := expected367 p g pairs
      let model := check367 p g pairs
      match impl with
      | none => return s!"spec class=q367-panic expected=warnings impl={clean (implJ.getStr?.toOption.getD "?")}"
      | some ws =>
        if !matchAll ws exp then
          return s!"spec class=q367-warnings expected={clean (toString (exp.map (·.map warnS)))} impl={clean (toString (ws.map warnS))}"
        else match model with
          | .error e => return s!"diff class=q367-model-error model={clean e} impl=warnings"
          | .ok ms =>
            let tag := if exp.isEmpty then "q367-none" else "q367-warnings"
            if ms.map warnS == ws.map warnS then return s!"ok {tag} constrained"
            else if sortedW ms == sortedW ws then
              return s!"diff class=q367-order model={clean (toString (ms.map warnS))} impl={clean (toString (ws.map warnS))}"
            else if matchAll ms exp then return s!"ok {tag} constrained other-sink-chosen"
            else return s!"diff class=q367-warnings model={clean (toString (sortedW ms))} impl={clean (toString (sortedW ws))}"
    else
      let privNames ← mapM' (·.getStr?) (← arrF params "priviledge_dropping_functions")
      let model := check243 p g privNames
      let exp := if ready then expected243 p g privNames else none
      match exp with
      | some ews =>
        match impl with
        | none => return s!"spec class=q243-panic expected={clean (toString (sortedW ews))} impl={clean (implJ.getStr?.toOption.getD "?")}"
        | some ws =>
          if sortedW ws != sortedW ews then
            return s!"spec class=q243-warnings expected={clean (toString (sortedW ews))} impl={clean (toString (sortedW ws))}"
          else match model with
            | .error e => return s!"diff class=q243-model-error model={clean e} impl=warnings"
            | .ok ms =>
              if ms.map warnS == ws.map warnS then
                return s!"ok {if ews.isEmpty then "q243-none" else "q243-warnings"} constrained"
              else if sortedW ms == sortedW ws then
                return s!"diff class=q243-order model={clean (toString (ms.map warnS))} impl={clean (toString (ws.map warnS))}"
              else return s!"diff class=q243-warnings model={clean (toString (sortedW ms))} impl={clean (toString (sortedW ws))}"
      | none =>
        match impl, model with
        | none, .error _ => return "ok q243-conditional-call modelonly bothpanic"
        | some ws, .ok ms =>
          if sortedW ms == sortedW ws then return "ok q243-conditional-call modelonly"
          else return s!"diff class=q243-warnings model={clean (toString (sortedW ms))} impl={clean (toString (sortedW ws))}"
        | none, .ok _ => return "diff class=q243-panic model=warnings impl=panic"
        | some _, .error _ => return "diff class=q243-panic model=panic impl=warnings"

end CweModel.C17

def main : IO Unit := CweModel.Proto.runDriver (CweModel.Proto.guarded CweModel.C17.handleE)
