/-
C17 — correctness of the model of `is_sink_call_reachable_from_source_call`:
the worklist search (mark-on-push DFS with early exit, skip-at-source rule and edge-kind filter)
returns `Some(t)` iff a call to the sink symbol is reachable along a passable path, and `t` is the
TID of such a call; the fuel of the model loop always suffices.
-/
import CweModel.C17.Model

namespace CweModel.C17
open CweModel.IR CweModel.Cfg CweModel.Reach List

/-! ### the search: `is_sink_call_reachable_from_source_call` -/

/-- successors along the edges the search follows -/
def nextGo (g : Graph) (src snk : Tid) (n : Node) : List Node :=
  ((g.outEdges n).filter (fun e => decide (classify src snk e.label = .follow))).map (·.dst)

theorem mem_nextGo {g : Graph} {src snk : Tid} {n d : Node} :
    d ∈ nextGo g src snk n ↔ ∃ e ∈ g.outEdges n, classify src snk e.label = .follow ∧ e.dst = d := by
  simp [nextGo, and_assoc]

theorem scan_found {src snk : Tid} : ∀ {es : List EdgeRef} {vis wl : List Node} {t : Tid},
    scanEdges src snk es vis wl = .found t → ∃ e ∈ es, classify src snk e.label = .found t
  | [], _, _, _, h => by simp [scanEdges] at h
  | e :: es, vis, wl, t, h => by
    unfold scanEdges at h
    split at h
    next t' hc =>
      cases h
      exact ⟨e, by simp, hc⟩
    next hc =>
      obtain ⟨e', he', h'⟩ := scan_found h
      exact ⟨e', by simp [he'], h'⟩
    next hc =>
      split at h
      · obtain ⟨e', he', h'⟩ := scan_found h
        exact ⟨e', by simp [he'], h'⟩
      · obtain ⟨e', he', h'⟩ := scan_found h
        exact ⟨e', by simp [he'], h'⟩

structure ScanInv (src snk : Tid) (es : List EdgeRef) (vis wl vis' wl' : List Node) : Prop where
  noFound : ∀ e ∈ es, ∀ t, classify src snk e.label ≠ .found t
  followedIn : ∀ e ∈ es, classify src snk e.label = .follow → e.dst ∈ vis'
  visMono : ∀ x ∈ vis, x ∈ vis'
  visNew : ∀ x ∈ vis', x ∈ vis ∨ ∃ e ∈ es, classify src snk e.label = .follow ∧ e.dst = x
  wlMono : ∀ x ∈ wl, x ∈ wl'
  wlNew : ∀ x ∈ wl', x ∈ wl ∨ x ∈ vis'
  newOnWl : ∀ x ∈ vis', x ∈ vis ∨ x ∈ wl'

theorem scan_cont {src snk : Tid} : ∀ {es : List EdgeRef} {vis wl vis' wl' : List Node},
    scanEdges src snk es vis wl = .cont vis' wl' → ScanInv src snk es vis wl vis' wl'
  | [], vis, wl, vis', wl', h => by
    simp only [scanEdges, ScanRes.cont.injEq] at h
    obtain ⟨rfl, rfl⟩ := h
    exact ⟨by simp, by simp, fun _ h => h, fun _ h => .inl h, fun _ h => h, fun _ h => .inl h, fun _ h => .inl h⟩
  | e :: es, vis, wl, vis', wl', h => by
    unfold scanEdges at h
    split at h
    next t' hc => cases h
    next hc =>
      have ih := scan_cont h
      refine ⟨?_, ?_, ih.visMono, ?_, ih.wlMono, ih.wlNew, ih.newOnWl⟩
      · intro e' he' t
        rcases mem_cons.mp he' with rfl | he'
        · rw [hc]; simp
        · exact ih.noFound e' he' t
      · intro e' he' hf
        rcases mem_cons.mp he' with rfl | he'
        · rw [hc] at hf; cases hf
        · exact ih.followedIn e' he' hf
      · intro x hx
        rcases ih.visNew x hx with h | ⟨e', he', h'⟩
        · exact .inl h
        · exact .inr ⟨e', by simp [he'], h'⟩
    next hc =>
      split at h
      next hv =>
        have ih := scan_cont h
        refine ⟨?_, ?_, ih.visMono, ?_, ih.wlMono, ih.wlNew, ih.newOnWl⟩
        · intro e' he' t
          rcases mem_cons.mp he' with rfl | he'
          · rw [hc]; simp
          · exact ih.noFound e' he' t
        · intro e' he' hf
          rcases mem_cons.mp he' with rfl | he'
          · exact ih.visMono _ hv
          · exact ih.followedIn e' he' hf
        · intro x hx
          rcases ih.visNew x hx with h | ⟨e', he', h'⟩
          · exact .inl h
          · exact .inr ⟨e', by simp [he'], h'⟩
      next hv =>
        have ih := scan_cont h
        refine ⟨?_, ?_, fun x hx => ih.visMono x (mem_cons_of_mem _ hx), ?_,
          fun x hx => ih.wlMono x (mem_cons_of_mem _ hx), ?_, ?_⟩
        · intro e' he' t
          rcases mem_cons.mp he' with rfl | he'
          · rw [hc]; simp
          · exact ih.noFound e' he' t
        · intro e' he' hf
          rcases mem_cons.mp he' with rfl | he'
          · exact ih.visMono _ (by simp)
          · exact ih.followedIn e' he' hf
        · intro x hx
          rcases ih.visNew x hx with h | ⟨e', he', h'⟩
          · rcases mem_cons.mp h with rfl | h
            · exact .inr ⟨e, by simp, hc, rfl⟩
            · exact .inl h
          · exact .inr ⟨e', by simp [he'], h'⟩
        · intro x hx
          rcases ih.wlNew x hx with h | h
          · rcases mem_cons.mp h with rfl | h
            · exact .inr (ih.visMono _ (by simp))
            · exact .inl h
          · exact .inr h
        · intro x hx
          rcases ih.newOnWl x hx with h | h
          · rcases mem_cons.mp h with rfl | h
            · exact .inr (ih.wlMono _ (by simp))
            · exact .inl h
          · exact .inr h

/-- **soundness of the search** -/
theorem search_found {g : Graph} {src snk : Tid} {n0 : Node} :
    ∀ (fuel : Nat) (vis wl : List Node) (t : Tid), search g src snk fuel vis wl = .found t →
      (∀ v ∈ vis, Reach (nextGo g src snk) n0 v) → (∀ w ∈ wl, w ∈ vis) →
      ∃ m, Reach (nextGo g src snk) n0 m ∧ ∃ e ∈ g.outEdges m, classify src snk e.label = .found t
  | _, _, [], _, h, _, _ => by simp [search] at h
  | 0, _, _ :: _, _, h, _, _ => by simp [search] at h
  | fuel + 1, vis, n :: wl, t, h, h1, h2 => by
    unfold search at h
    split at h
    next t' hs =>
      cases h
      exact ⟨n, h1 n (h2 n (by simp)), scan_found hs⟩
    next vis' wl' hs =>
      have inv := scan_cont hs
      refine search_found fuel vis' wl' t h ?_ ?_
      · intro v hv
        rcases inv.visNew v hv with hv | ⟨e, he, hf, rfl⟩
        · exact h1 v hv
        · exact .tail (h1 n (h2 n (by simp))) (mem_nextGo.mpr ⟨e, he, hf, rfl⟩)
      · intro w hw
        rcases inv.wlNew w hw with hw | hw
        · exact inv.visMono _ (h2 w (mem_cons_of_mem _ hw))
        · exact hw

/-- node `v` has been fully processed w.r.t. the visited set `visF` -/
def Done (g : Graph) (src snk : Tid) (visF : List Node) (v : Node) : Prop :=
  (∀ e ∈ g.outEdges v, ∀ t, classify src snk e.label ≠ .found t) ∧ (∀ d ∈ nextGo g src snk v, d ∈ visF)

/-- **completeness of the search**: a finished unsuccessful run ends with a visited set that is closed
under followed edges and has no sink call edge -/
theorem search_notFound {g : Graph} {src snk : Tid} :
    ∀ (fuel : Nat) (vis wl : List Node), search g src snk fuel vis wl = .notFound →
      (∀ w ∈ wl, w ∈ vis) → (∀ v ∈ vis, v ∈ wl ∨ Done g src snk vis v) →
      ∃ visF, (∀ v ∈ vis, v ∈ visF) ∧ ∀ v ∈ visF, Done g src snk visF v
  | _, vis, [], _, _, h3 => ⟨vis, fun _ h => h, fun v hv => by
      rcases h3 v hv with h | h
      · cases h
      · exact h⟩
  | 0, _, _ :: _, h, _, _ => by simp [search] at h
  | fuel + 1, vis, n :: wl, h, h2, h3 => by
    unfold search at h
    split at h
    next t' hs => cases h
    next vis' wl' hs =>
      have inv := scan_cont hs
      have mono : ∀ v, Done g src snk vis v → Done g src snk vis' v :=
        fun v hd => ⟨hd.1, fun d hdm => inv.visMono _ (hd.2 d hdm)⟩
      obtain ⟨visF, hsub, hdone⟩ := search_notFound fuel vis' wl' h
        (by
          intro w hw
          rcases inv.wlNew w hw with hw | hw
          · exact inv.visMono _ (h2 w (mem_cons_of_mem _ hw))
          · exact hw)
        (by
          intro v hv
          rcases inv.newOnWl v hv with hv | hv
          · rcases h3 v hv with hw | hd
            · rcases mem_cons.mp hw with rfl | hw
              · refine .inr ⟨inv.noFound, ?_⟩
                intro d hd
                obtain ⟨e, he, hf, rfl⟩ := mem_nextGo.mp hd
                exact inv.followedIn e he hf
              · exact .inl (inv.wlMono _ hw)
            · exact .inr (mono v hd)
          · exact .inl hv)
      exact ⟨visF, fun v hv => hsub v (inv.visMono v hv), hdone⟩

/-! ### fuel -/

/-- number of edges whose target is not visited yet -/
def openTargets (g : Graph) (vis : List Node) : Nat := (g.edges.filter (fun e => decide (e.dst ∉ vis))).length

theorem filter_length_lt {α : Type} (p q : α → Bool) (hpq : ∀ x, q x = true → p x = true) :
    ∀ (l : List α), (∃ a ∈ l, p a = true ∧ q a = false) → (l.filter q).length < (l.filter p).length
  | [], h => by obtain ⟨a, ha, _⟩ := h; cases ha
  | x :: l, h => by
    have hle : (l.filter q).length ≤ (l.filter p).length := by
      clear h
      induction l with
      | nil => simp
      | cons y l ih =>
        simp only [filter_cons]
        cases hq : q y
        · cases hp : p y <;> simp <;> omega
        · simp [hpq y hq]; exact ih
    obtain ⟨a, ha, hpa, hqa⟩ := h
    simp only [filter_cons]
    rcases mem_cons.mp ha with rfl | ha
    · simp [hpa, hqa]; omega
    · have ih := filter_length_lt p q hpq l ⟨a, ha, hpa, hqa⟩
      cases hq : q x
      · cases hp : p x <;> simp <;> omega
      · simp [hpq x hq]; exact ih

theorem openTargets_visit (g : Graph) (vis : List Node) {e : EdgeRef} (he : e ∈ g.edges) (hv : e.dst ∉ vis) :
    openTargets g (e.dst :: vis) + 1 ≤ openTargets g vis := by
  unfold openTargets
  have := filter_length_lt (fun e => decide (e.dst ∉ vis)) (fun e' => decide (e'.dst ∉ e.dst :: vis))
    (by intro x hx; simp at hx ⊢; exact hx.2) g.edges ⟨e, he, by simpa using hv, by simp⟩
  omega

theorem scan_measure {g : Graph} {src snk : Tid} : ∀ {es : List EdgeRef} {vis wl vis' wl' : List Node},
    (∀ e ∈ es, e ∈ g.edges) → scanEdges src snk es vis wl = .cont vis' wl' →
    wl'.length + openTargets g vis' ≤ wl.length + openTargets g vis
  | [], vis, wl, vis', wl', _, h => by
    simp only [scanEdges, ScanRes.cont.injEq] at h
    obtain ⟨rfl, rfl⟩ := h
    exact Nat.le_refl _
  | e :: es, vis, wl, vis', wl', hes, h => by
    have hes' : ∀ e' ∈ es, e' ∈ g.edges := fun e' he' => hes e' (mem_cons_of_mem _ he')
    unfold scanEdges at h
    split at h
    next => cases h
    next => exact scan_measure hes' h
    next =>
      split at h
      next => exact scan_measure hes' h
      next hv =>
        have ih := scan_measure hes' h
        have := openTargets_visit g vis (hes e (by simp)) hv
        simp only [length_cons] at ih
        omega

theorem outEdges_subset (g : Graph) (n : Node) : ∀ e ∈ g.outEdges n, e ∈ g.edges := by
  intro e he
  simp only [Graph.outEdges, mem_reverse, mem_filter] at he
  exact he.1

/-- **fuel sufficiency**: every iteration decreases `worklist.length + openTargets` -/
theorem search_fuel {g : Graph} {src snk : Tid} :
    ∀ (fuel : Nat) (vis wl : List Node), wl.length + openTargets g vis < fuel →
      search g src snk fuel vis wl ≠ .outOfFuel
  | _, _, [], _ => by simp [search]
  | 0, _, _ :: _, h => by omega
  | fuel + 1, vis, n :: wl, h => by
    unfold search
    split
    next => simp
    next vis' wl' hs =>
      have := scan_measure (g := g) (outEdges_subset g n) hs
      exact search_fuel fuel vis' wl' (by simp only [length_cons] at h; omega)

theorem search_fuel_sufficient (g : Graph) (src snk : Tid) (n : Node) :
    search g src snk (searchFuel g) [n] [n] ≠ .outOfFuel := by
  apply search_fuel
  have : openTargets g [n] ≤ g.edges.length := length_filter_le _ _
  simp only [searchFuel, length_cons, length_nil]
  omega

/-! ### from the search to the path specification -/

theorem classify_found_iff (src snk : Tid) (l : Edge) (t : Tid) :
    classify src snk l = .found t ↔ externCall l = some (snk, t) := by
  unfold classify
  cases h : externCall l with
  | none => simp; split <;> simp
  | some tj =>
    obtain ⟨target, jt⟩ := tj
    simp only
    by_cases h1 : target = snk
    · subst h1; simp [eq_comm]
    · simp only [h1, if_false, Option.some.injEq, Prod.mk.injEq, false_and, iff_false]
      split
      · simp
      · split <;> simp

theorem classify_follow_iff (src snk : Tid) (l : Edge) :
    classify src snk l = .follow ↔ passable src l = true ∧ ∀ t, externCall l ≠ some (snk, t) := by
  unfold classify passable
  cases h : externCall l with
  | none => cases followed l <;> simp
  | some tj =>
    obtain ⟨target, jt⟩ := tj
    simp only
    by_cases h1 : target = snk
    · subst h1; simp
    · by_cases h2 : target = src
      · subst h2; simp [h1]
      · cases followed l <;> simp [h1, h2]

theorem mem_nextOk {g : Graph} {src : Tid} {n d : Node} :
    d ∈ nextOk g src n ↔ ∃ e ∈ g.edges, e.src = n ∧ passable src e.label = true ∧ e.dst = d := by
  simp only [nextOk, mem_map, mem_filter, decide_eq_true_eq]
  constructor
  · rintro ⟨e, ⟨⟨h1, h2⟩, h3⟩, h4⟩; exact ⟨e, h1, h2, h3, h4⟩
  · rintro ⟨e, h1, h2, h3, h4⟩; exact ⟨e, ⟨⟨h1, h2⟩, h3⟩, h4⟩

theorem mem_outEdges {g : Graph} {n : Node} {e : EdgeRef} : e ∈ g.outEdges n ↔ e ∈ g.edges ∧ e.src = n := by
  simp [Graph.outEdges]

theorem reachGo_reachOk {g : Graph} {src snk : Tid} {a b : Node} (h : Reach (nextGo g src snk) a b) :
    IntraPath g src a b := by
  refine Reach.congr ?_ h
  intro x y hy
  obtain ⟨e, he, hf, rfl⟩ := mem_nextGo.mp hy
  obtain ⟨he1, he2⟩ := mem_outEdges.mp he
  exact mem_nextOk.mpr ⟨e, he1, he2, ((classify_follow_iff _ _ _).mp hf).1, rfl⟩

/-- on a passable path either a sink call occurs at a node the search reaches, or the search reaches
the end of the path -/
theorem reachOk_cases {g : Graph} {src snk : Tid} {a b : Node} (h : IntraPath g src a b) :
    (∃ m t, Reach (nextGo g src snk) a m ∧ SinkCallAt g snk m t) ∨ Reach (nextGo g src snk) a b := by
  induction h with
  | refl => exact .inr (.refl _)
  | tail _ hs ih =>
    rcases ih with hl | hr
    · exact .inl hl
    · obtain ⟨e, he, hsrc, hp, rfl⟩ := mem_nextOk.mp hs
      by_cases hk : ∃ t, externCall e.label = some (snk, t)
      · obtain ⟨t, ht⟩ := hk
        exact .inl ⟨_, t, hr, e, he, hsrc, ht⟩
      · refine .inr (.tail hr (mem_nextGo.mpr ⟨e, mem_outEdges.mpr ⟨he, hsrc⟩, ?_, rfl⟩))
        exact (classify_follow_iff _ _ _).mpr ⟨hp, fun t ht => hk ⟨t, ht⟩⟩

/-- **C17-reach-sound.** If `is_sink_call_reachable_from_source_call` returns `Some(t)`, then `t` is the
TID of a call to the sink symbol at a node that is reachable from the start node along an
intraprocedural path that does not traverse a stub edge of a call to the source symbol. -/
theorem isSinkCallReachable_sound {g : Graph} {n : Node} {src snk t : Tid}
    (h : isSinkCallReachable g n src snk = some t) :
    ∃ m, IntraPath g src n m ∧ SinkCallAt g snk m t := by
  unfold isSinkCallReachable at h
  split at h
  next t' hs =>
    cases h
    obtain ⟨m, hr, e, he, hc⟩ := search_found (n0 := n) _ _ _ _ hs
      (by intro v hv; simp only [mem_singleton] at hv; subst hv; exact .refl _) (by simp)
    obtain ⟨he1, he2⟩ := mem_outEdges.mp he
    exact ⟨m, reachGo_reachOk hr, e, he1, he2, (classify_found_iff _ _ _ _).mp hc⟩
  next => cases h

/-- **C17-reach-complete.** `is_sink_call_reachable_from_source_call` returns `Some(_)` exactly when a
call to the sink symbol is reachable from the start node along an intraprocedural path that does
not traverse a stub edge of a call to the source symbol. -/
theorem isSinkCallReachable_isSome_iff (g : Graph) (n : Node) (src snk : Tid) :
    (isSinkCallReachable g n src snk).isSome = true ↔ ∃ m t, IntraPath g src n m ∧ SinkCallAt g snk m t := by
  constructor
  · intro h
    obtain ⟨t, ht⟩ := Option.isSome_iff_exists.mp h
    obtain ⟨m, h1, h2⟩ := isSinkCallReachable_sound ht
    exact ⟨m, t, h1, h2⟩
  · rintro ⟨m, t, hp, hsink⟩
    -- a sink call at a node the search can reach
    obtain ⟨m', t', hr', e, he, hsrc, hx⟩ : ∃ m' t', Reach (nextGo g src snk) n m' ∧ SinkCallAt g snk m' t' := by
      rcases reachOk_cases (snk := snk) hp with h | h
      · exact h
      · exact ⟨m, t, h, hsink⟩
    unfold isSinkCallReachable
    cases hs : search g src snk (searchFuel g) [n] [n] with
    | found t'' => rfl
    | outOfFuel => exact absurd hs (search_fuel_sufficient g src snk n)
    | notFound =>
      exfalso
      obtain ⟨visF, hsub, hdone⟩ := search_notFound _ _ _ hs (by simp) (by simp)
      have hm' : m' ∈ visF :=
        Reach.closed (P := fun x => x ∈ visF) (fun a b ha hb => (hdone a ha).2 b hb) hr' (hsub n (by simp))
      exact (hdone m' hm').1 e (mem_outEdges.mpr ⟨he, hsrc⟩) t' ((classify_found_iff _ _ _ _).mpr hx)

theorem isSinkCallReachable_none_iff (g : Graph) (n : Node) (src snk : Tid) :
    isSinkCallReachable g n src snk = none ↔ ¬ ∃ m t, IntraPath g src n m ∧ SinkCallAt g snk m t := by
  rw [← isSinkCallReachable_isSome_iff]
  cases isSinkCallReachable g n src snk <;> simp

end CweModel.C17
