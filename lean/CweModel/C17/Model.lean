/-
C17 — model of the reachability-based checkers
(`utils/graph_utils.rs::is_sink_call_reachable_from_source_call`, `checkers/cwe_367.rs::check_cwe`,
`checkers/cwe_243.rs::check_cwe` incl. `blk_calls_tid`, `sub_calls_chdir_and_priviledge_dropping_func`,
`utils/symbol_utils.rs::find_symbol`) over the graph model of `CweModel.Base.Cfg`, and their
specification in terms of paths (`CweModel.Base.Reach`).

`cwe_243::check_cwe` is modelled AFTER the `fix:` commit for finding D7 (a `chroot` call without return
site is treated as "no chdir call follows" instead of `unwrap()`ing the missing neighbour).

Representation: `HashSet<NodeIndex>` ↔ list of nodes (membership only); `Vec` worklist (stack) ↔ list,
top first; `graph.edges(node)` ↔ `Graph.outEdges` (petgraph order: newest edge first). The `while let`
loop gets fuel `#edges + 2`, proved sufficient (`search_fuel_sufficient`). A Rust panic ↔ `Except.error`.
-/
import CweModel.Base.Cfg
import CweModel.Base.Reach

namespace CweModel.C17
open CweModel.IR CweModel.Cfg

/-! ### `is_sink_call_reachable_from_source_call` -/

/-- the last `match edge.weight()` of the loop body: edges that stay inside the function -/
def followed : Edge → Bool
  | .Block | .CrCallStub | .CallCombine _ | .ReturnCombine _ | .Jump _ _ | .ExternCallStub _ => true
  | .Call _ | .CrReturnStub => false

/-- `if let Edge::ExternCallStub(jmp) = .. { if let Jmp::Call { target, .. } = &jmp.term {..} }`:
(target, TID of the jump) -/
def externCall : Edge → Option (Tid × Tid)
  | .ExternCallStub j =>
    match j.term with
    | .Call target _ => some (target, j.tid)
    | _ => none
  | _ => none

/-- what the loop body does with one edge -/
inductive Action where
  | found (t : Tid)     -- `return Some(jmp.tid.clone())`
  | skip                -- `continue`, or an edge kind that leaves the function
  | follow              -- push the target if not visited
deriving DecidableEq, Repr

def classify (src snk : Tid) (l : Edge) : Action :=
  match externCall l with
  | some (target, jt) =>
    if target = snk then .found jt
    else if target = src then .skip
    else if followed l then .follow else .skip
  | none => if followed l then .follow else .skip

inductive ScanRes where
  | found (t : Tid)
  | cont (vis wl : List Node)

/-- `for edge in graph.edges(node) { .. }` on the list of outgoing edges -/
def scanEdges (src snk : Tid) : List EdgeRef → List Node → List Node → ScanRes
  | [], vis, wl => .cont vis wl
  | e :: es, vis, wl =>
    match classify src snk e.label with
    | .found t => .found t
    | .skip => scanEdges src snk es vis wl
    | .follow =>
      if e.dst ∈ vis then scanEdges src snk es vis wl
      else scanEdges src snk es (e.dst :: vis) (e.dst :: wl)

inductive SearchRes where
  | found (t : Tid)
  | notFound
  | outOfFuel
deriving DecidableEq, Repr

/-- `while let Some(node) = worklist.pop() { .. }` -/
def search (g : Graph) (src snk : Tid) : Nat → List Node → List Node → SearchRes
  | _, _, [] => .notFound
  | 0, _, _ :: _ => .outOfFuel
  | fuel + 1, vis, n :: wl =>
    match scanEdges src snk (g.outEdges n) vis wl with
    | .found t => .found t
    | .cont vis' wl' => search g src snk fuel vis' wl'

def searchFuel (g : Graph) : Nat := g.edges.length + 2

/-- `is_sink_call_reachable_from_source_call(graph, source_node, source_symbol, sink_symbol)` -/
def isSinkCallReachable (g : Graph) (n : Node) (src snk : Tid) : Option Tid :=
  match search g src snk (searchFuel g) [n] [n] with
  | .found t => some t
  | _ => none

/-! ### path specification -/

/-- an edge a path may traverse: it stays inside the function and is not a stub edge of a call to
`src` -/
def passable (src : Tid) (l : Edge) : Bool :=
  followed l && (match externCall l with
    | some (target, _) => !decide (target = src)
    | none => true)

/-- successors along passable edges -/
def nextOk (g : Graph) (src : Tid) (n : Node) : List Node :=
  ((g.edges.filter (fun e => decide (e.src = n))).filter (fun e => passable src e.label)).map (·.dst)

/-- `IntraPath g src a b`: there is an intraprocedural path from `a` to `b` that does not traverse a
stub edge of a call to `src` -/
abbrev IntraPath (g : Graph) (src : Tid) (a b : Node) : Prop := Reach.Reach (nextOk g src) a b

/-- node `m` is the call site of a call to `snk` whose jump has TID `t` -/
def SinkCallAt (g : Graph) (snk : Tid) (m : Node) (t : Tid) : Prop :=
  ∃ e ∈ g.edges, e.src = m ∧ externCall e.label = some (snk, t)

/-- the TIDs of all calls to `snk` reachable from `n` (executable, for the driver): the `t` with
`∃ m, IntraPath g src n m ∧ SinkCallAt g snk m t` -/
def reachableSinkCalls (g : Graph) (n : Node) (src snk : Tid) : List Tid :=
  let ms := (Reach.dfs (nextOk g src) (g.edges.length + 3) [n] []).2
  ms.flatMap (fun m => (g.edges.filter (fun e => decide (e.src = m))).filterMap (fun e =>
    match externCall e.label with
    | some (target, t) => if target = snk then some t else none
    | none => none))

/-! ### CWE-367 -/

structure Warning where
  tids : List String
  addresses : List String
  symbols : List String
  description : String
deriving DecidableEq, Repr

/-- `symbol_map: HashMap<&str, Tid>` collected from `extern_symbols` in key order: the last symbol
with that name wins -/
def symbolMapGet (p : Program) (name : String) : Option Tid :=
  (p.externSymbols.reverse.find? (fun s => decide (s.name = name))).map (·.tid)

/-- `cwe_367::generate_cwe_warning` -/
def warning367 (source sink : String) (sourceCallsite sinkCallsite : Tid) (subName : String) : Warning :=
  { tids := [sourceCallsite.id, sinkCallsite.id],
    addresses := [sourceCallsite.address, sinkCallsite.address],
    symbols := [source, sink],
    description := "(Time-of-check Time-of-use Race Condition) '" ++ sink ++ "' is reachable from '" ++
      source ++ "' at " ++ sinkCallsite.address ++ " (" ++ subName ++ "). This could lead to a TOCTOU." }

/-- body of `for edge in graph.edge_references()` in `cwe_367::check_cwe`; `error` = panic
("Malformed control flow graph" / `get_block` on a non-block node) -/
def check367Edge (g : Graph) (source sink : String) (sourceTid sinkTid : Tid) (e : EdgeRef) :
    Except String (List Warning) :=
  match externCall e.label with
  | some (target, _) =>
    if target = sourceTid then
      match isSinkCallReachable g e.dst target sinkTid with
      | some sinkCallsite =>
        match e.dst with
        | .BlkStart blk sub => .ok [warning367 source sink blk.tid sinkCallsite sub.term.name]
        | _ => .error "panic:get_block"
      | none => .ok []
    else .ok []
  | none => .ok []

def concatE {α β : Type} (f : α → Except String (List β)) : List α → Except String (List β)
  | [] => .ok []
  | a :: as =>
    match f a with
    | .ok ws =>
      match concatE f as with
      | .ok ws' => .ok (ws ++ ws')
      | .error e => .error e
    | .error e => .error e

/-- `cwe_367::check_cwe` for the configuration `pairs` -/
def check367 (p : Program) (g : Graph) (pairs : List (String × String)) : Except String (List Warning) :=
  concatE (fun (pr : String × String) =>
    match symbolMapGet p pr.1, symbolMapGet p pr.2 with
    | some sourceTid, some sinkTid => concatE (check367Edge g pr.1 pr.2 sourceTid sinkTid) g.edges
    | _, _ => .ok []) pairs

/-! ### CWE-243 -/

/-- `symbol_utils::find_symbol`: the first extern symbol (key order) with that name -/
def findSymbol (p : Program) (name : String) : Option Tid :=
  (p.externSymbols.find? (fun s => decide (s.name = name))).map (·.tid)

def callsTid (tid : Tid) (j : Term Jmp) : Bool :=
  match j.term with
  | .Call target _ => decide (target = tid)
  | _ => false

/-- `cwe_243::blk_calls_tid` -/
def blkCallsTid (blk : Term Blk) (tid : Tid) : Option Tid :=
  (blk.term.jmps.find? (callsTid tid)).map (·.tid)

/-- `cwe_243::sub_calls_chdir_and_priviledge_dropping_func` -/
def subCallsChdirAndPrivDrop (sub : Term Sub) (chdir : Tid) (privs : List Tid) : Bool :=
  let isChdirCalled := sub.term.blocks.any (fun blk => (blkCallsTid blk chdir).isSome)
  if !isChdirCalled then false
  else sub.term.blocks.any (fun blk => privs.any (fun tid => (blkCallsTid blk tid).isSome))

/-- `cwe_243::generate_cwe_warning` -/
def warning243 (sub : Term Sub) (callsite : Tid) : Warning :=
  { tids := [callsite.id], addresses := [callsite.address], symbols := [sub.term.name],
    description := "(The program utilizes chroot without dropping privileges and/or changing the directory) at "
      ++ callsite.address ++ " (" ++ sub.term.name ++ ")" }

/-- "is a call to `chdir` reachable after the `chroot` call ending node `n`?" (repaired code:
`graph.neighbors(node).next()` may be `None`, then the call does not return and nothing follows) -/
def chdirReachableAfter (g : Graph) (n : Node) (chroot chdir : Tid) : Bool :=
  match (g.neighbors n).head? with
  | some retTo => (isSinkCallReachable g retTo chroot chdir).isSome
  | none => false          -- the call does not return (fix for D7)

/-- body of `for node in graph.node_indices()` in `cwe_243::check_cwe` (repaired code) -/
def check243Node (p : Program) (g : Graph) (chroot : Tid) (privs : List Tid) (n : Node) :
    Except String (List Warning) :=
  match n with
  | .BlkEnd blk sub =>
    match blkCallsTid blk chroot with
    | some callsite =>
      match findSymbol p "chdir" with
      | some chdir =>
        if (g.neighbors n).length > 1 then
          .error "panic:Malformed Control flow graph: More than one edge for extern function call"
        else
          if !chdirReachableAfter g n chroot chdir then
            if !subCallsChdirAndPrivDrop sub chdir privs then .ok [warning243 sub callsite] else .ok []
          else .ok []
      | none => .ok [warning243 sub callsite]
    | none => .ok []
  | _ => .ok []

/-- `cwe_243::check_cwe` with `priviledge_dropping_functions = privNames` -/
def check243 (p : Program) (g : Graph) (privNames : List String) : Except String (List Warning) :=
  let privs := privNames.filterMap (findSymbol p)
  match findSymbol p "chroot" with
  | some chroot => concatE (check243Node p g chroot privs) g.nodes
  | none => .ok []

end CweModel.C17
