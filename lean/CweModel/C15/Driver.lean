/- C15 model driver: runs the model of the CWE476 check with the real schedule, and the executable
path specification, on the cases written by `h_c15`. -/
import CweModel.Base.Proto
import CweModel.C15.Model
open Lean CweModel.Proto CweModel.IR

namespace CweModel.C15

/-! ### universe of variables -/

def defVars : Def → List Variable
  | .Load v a => v :: a.inputVars
  | .Store a x => a.inputVars ++ x.inputVars
  | .Assign v e => v :: e.inputVars

def jmpVars : Jmp → List Variable
  | .BranchInd e | .CBranch _ e | .CallInd e _ | .Return e => e.inputVars
  | _ => []

def argVars : Arg → List Variable
  | .Register e _ => e.inputVars
  | .Stack a _ _ => a.inputVars

def allVars (pr : Project) : List Variable :=
  let blocks := pr.program.subs.flatMap (·.term.blocks)
  let a := blocks.flatMap fun b => b.term.defs.flatMap (fun d => defVars d.term) ++ b.term.jmps.flatMap (fun j => jmpVars j.term)
  let b := pr.program.externSymbols.flatMap fun s => (s.parameters ++ s.returnValues).flatMap argVars
  let c := pr.callingConventions.flatMap fun cc =>
    cc.integerParameterRegister ++ cc.floatParameterRegister.flatMap (·.inputVars) ++ cc.integerReturnRegister
      ++ cc.floatReturnRegister.flatMap (·.inputVars) ++ cc.calleeSavedRegister
  (a ++ b ++ c ++ pr.registerSet).eraseDups

/-! ### the premise of the property, checked statically: no tainted value can ever be stored -/

/-- flow-insensitive closure: registers that may ever hold (a value computed from) a source's return value -/
def mayTaint (pr : Project) (srcVars : List Variable) : List Variable :=
  let assigns : List (Variable × List Variable) :=
    (pr.program.subs.flatMap (·.term.blocks)).flatMap fun b => b.term.defs.filterMap fun d =>
      match d.term with
      | .Assign v e => some (v, e.inputVars)
      | _ => none
  let step (t : List Variable) : List Variable :=
    assigns.foldl (fun t (v, ins) => if !t.contains v && ins.any t.contains then v :: t else t) t
  let rec go : Nat → List Variable → List Variable
    | 0, t => t
    | n + 1, t => let t' := step t; if t'.length == t.length then t else go n t'
  go (assigns.length + 1) srcVars

def premiseB (pr : Project) (sources : List Source) : Bool :=
  let t := mayTaint pr (sources.flatMap (fun s => returnVars s.sym))
  let stores := (pr.program.subs.flatMap (·.term.blocks)).flatMap fun b => b.term.defs.filterMap fun d =>
    match d.term with
    | .Store _ x => some x.inputVars
    | _ => none
  stores.all (fun ins => !ins.any t.contains) &&
    sources.all (fun s => s.sym.returnValues.all fun | .Register _ _ => true | .Stack _ _ _ => false)

/-! ### consistency of the graph model with the exported real graph -/

def nodeKind : Cfg.Node → String
  | .BlkStart _ _ => "BS" | .BlkEnd _ _ => "BE" | .CallReturn _ _ => "CR" | .CallSource _ _ => "CS"

def nodeBlkSub : Cfg.Node → Tid × Tid
  | .BlkStart b s | .BlkEnd b s => (b.tid, s.tid)
  | .CallReturn c _ => (c.1.tid, c.2.tid)
  | .CallSource c _ => (c.1.tid, c.2.tid)

def edgeKind : Cfg.Edge → String
  | .Block => "Block" | .Jump _ _ => "Jump" | .Call _ => "Call" | .ExternCallStub _ => "ExternCallStub"
  | .CrCallStub => "CrCallStub" | .CrReturnStub => "CrReturnStub" | .CallCombine _ => "CallCombine"
  | .ReturnCombine _ => "ReturnCombine"

def checkGraph (g : Cfg.Graph) (es : List IEdge) (gj : Json) : Except String Unit := do
  let ns ← arrF gj "nodes"
  let ejs ← arrF gj "edges"
  if ns.length != g.nodes.length then throw s!"cfg-mismatch nodes {ns.length} vs {g.nodes.length}"
  if ejs.length != es.length then throw s!"cfg-mismatch edges {ejs.length} vs {es.length}"
  for (n, j) in g.nodes.zip ns do
    let k ← strF j "k"
    let b ← parseTid (← field j "b")
    let s ← parseTid (← field j "s")
    if k != nodeKind n || (b, s) != nodeBlkSub n then throw s!"cfg-mismatch node {k} {b.id}"
  for (e, j) in es.zip ejs do
    let k ← strF j "k"
    if k != edgeKind e.ref.label || (← natF j "s") != e.src || (← natF j "d") != e.dst then
      throw s!"cfg-mismatch edge {k} {e.src}->{e.dst}"

/-! ### one source -/

/-- coverage tags of one source: what happened to the taint on some path -/
def flowTags (pr : Project) (U : List Variable) (es : List IEdge) (states : List (Nat × V)) : List String :=
  let hit (f : IEdge → V → Bool) : Bool :=
    states.any fun x => (es.filter (fun e => e.src == x.1)).any fun e => f e x.2
  let isJump (e : IEdge) : Bool := match e.ref.label with | .Jump _ _ => true | _ => false
  let isStub (e : IEdge) : Bool := match e.ref.label with | .ExternCallStub _ => true | _ => false
  let isBlock (e : IEdge) : Bool := match e.ref.label with | .Block => true | _ => false
  let isRet (e : IEdge) : Bool := match e.ref.label with | .ReturnCombine _ => true | _ => false
  (if hit (fun e v => isJump e && (edgeTri pr U e.ref v).blk) then ["checked"] else []) ++
  (if hit (fun e v => isJump e && !(edgeTri pr U e.ref v).blk) then ["passed"] else []) ++
  (if hit (fun e v => isStub e && !(edgeTri pr U e.ref v).blk && (edgeTri pr U e.ref v).g != v
      && (edgeTri pr U e.ref v).g != vbot) then ["clobber-part"] else []) ++
  (if hit (fun e v => isStub e && !(edgeTri pr U e.ref v).blk && (edgeTri pr U e.ref v).g == vbot) then ["clobber-all"] else []) ++
  (if hit (fun e v => isRet e && !(edgeTri pr U e.ref v).blk && (edgeTri pr U e.ref v).g != vbot) then ["through-internal-call"] else []) ++
  (if hit (fun e v => isBlock e && !(edgeTri pr U e.ref v).blk && (edgeTri pr U e.ref v).g == vbot) then ["overwritten"] else []) ++
  (if hit (fun e v => isBlock e && !(edgeTri pr U e.ref v).blk && ((edgeTri pr U e.ref v).g.1 &&& v.1) != (edgeTri pr U e.ref v).g.1)
    then ["copied"] else []) ++
  (if states.length > 12 then ["states>12"] else if states.length > 4 then ["states>4"] else [])

structure SrcResult where
  warnings : List Warning
  specWarn : Bool
  interf : Bool
  finished : Bool
  stabilized : Bool
  states : Nat
  sinks : List String

def sinkKind (es : List IEdge) (sink : Tid) : String :=
  match es.find? (fun e => match e.ref.label with
      | .Call j | .ExternCallStub j | .ReturnCombine j => j.tid == sink
      | _ => false) with
  | some e => edgeKind e.ref.label
  | none => if sink.id.endsWith "j0" || sink.id.endsWith "j1" then "Return" else "Def"

def runSource (pr : Project) (U : List Variable) (es : List IEdge) (W : Nat) (prio : List Nat)
    (outE : Nat → List IEdge) (src : Source) : SrcResult :=
  let v0 : V := sourceInit U src
  let n0 := src.edge.dst
  let r := runSourceExec pr U es W prio outE 100 200000 src
  -- finished, no node given up, and the side-computed warning list agrees with the warning node
  let stab := execOk prio r.1 &&
    (warned W r.1.st == !r.2.isEmpty)
  let ws := sourceWarnings src r.2
  let (states, fin) := reachStates pr U es 200000 n0 v0
  ⟨ws, specWarnB pr U es states, interferenceB pr U es states, fin, stab, states.length,
   (r.2.map (fun t => "sink:" ++ sinkKind es t)).eraseDups ++ flowTags pr U es states⟩

def showWarnings (ws : List Warning) : String :=
  ",".intercalate (ws.map fun w => s!"{w.srcAddr}|{w.srcTid}|{w.sinkTid}|{w.symbol}")

def parseImpl (j : Json) : Except String String := do
  match j with
  | .str s => return s
  | .arr a =>
    let ws ← mapM' (fun (w : Json) => do
      let xs ← w.getArr?
      let g (i : Nat) : Except String String := (xs[i]?.getD Json.null).getStr?
      return (⟨← g 0, ← g 1, ← g 2, ← g 3⟩ : Warning)) a.toList
    return showWarnings ws
  | _ => throw "impl"

def handleE (line : String) : Except String String := do
  let j ← Json.parse line
  let pr ← parseProject (← field j "proj")
  let gj ← field j "graph"
  let syms ← mapM' (·.getStr?) (← arrF j "syms")
  let impl ← parseImpl (← field j "impl")
  -- the analyses the check is built on (function signatures / pointer inference) panicked: the
  -- module under test was never run on this input
  if impl.startsWith "prereq-panic" then return "ok " ++ impl.replace ":" "-"
  let g ← match Cfg.buildCfgE pr.program with
    | .ok g => pure g
    | .error e => throw s!"cfg-error {e}"
  let es := indexEdges g
  checkGraph g es gj
  let U := allVars pr
  let W := g.nodes.length
  let prio0 ← mapM' (·.getNat?) (← arrF gj "prio")
  let prio := W :: prio0
  let outJ ← arrF gj "out"
  let esArr := es.toArray
  let outLists ← mapM' (fun (o : Json) => do
    let ids ← mapM' (·.getNat?) (← o.getArr?).toList
    return ids.filterMap (fun i => esArr[i]?)) outJ
  let outArr := outLists.toArray
  -- petgraph walks the out-edges newest first; the exported order must be that order
  for p in List.range W do
    let exported := (outArr[p]?.getD []).map (fun e => (e.src, e.dst, edgeKind e.ref.label))
    let modelled := ((es.filter (fun e => e.src == p)).reverse).map (fun e => (e.src, e.dst, edgeKind e.ref.label))
    if exported != modelled then throw s!"cfg-mismatch out-edge order at node {p}"
  let outE : Nat → List IEdge := outEdgesOf es
  let sources := sourcesOf pr syms es
  let results := sources.map (runSource pr U es W prio outE)
  if results.any (fun r => !r.finished) then throw "spec-search-fuel"
  if results.any (fun r => !r.stabilized) then throw "model-not-stabilized"
  let model := showWarnings (dedupByAddr (results.flatMap (·.warnings)))
  let premise := premiseB pr sources
  let implAddrs := (impl.splitOn ",").filterMap fun w => if w.isEmpty then none else (w.splitOn "|").head?
  let tagged := sources.zip results
  let specAddrs := (tagged.filter (·.2.specWarn)).map (·.1.call.tid.address)
  -- addresses for which a missing warning is explained by interference at every unreported source
  let fp := implAddrs.filter (fun a => !specAddrs.contains a)
  let fnAll := specAddrs.filter (fun a => !implAddrs.contains a)
  let fnHard := fnAll.filter fun a => tagged.any fun (s, r) => s.call.tid.address == a && r.specWarn && !r.interf
  let tags :=
    s!"src{min sources.length 3}" ++ (if model.isEmpty then " nowarn" else " warn") ++
    (if results.any (·.interf) then " interference" else "") ++
    (if sources.length != (sources.map (·.call.tid.address)).eraseDups.length then " sameaddr" else "") ++
    String.join ((results.flatMap (·.sinks)).eraseDups.map (fun k => " " ++ k))
  if impl.startsWith "panic" then
    return s!"spec class=panic expected=no-panic impl={impl}"
  if !premise then
    return if impl == model then "ok outside-premise" else s!"diff class=outside-premise model={model} impl={impl}"
  if implAddrs.length != implAddrs.eraseDups.length then
    return s!"spec class=duplicate-report expected=one-warning-per-source-address impl={impl} model={model}"
  if !fp.isEmpty then
    return s!"spec class=false-positive expected=[{",".intercalate specAddrs}] impl={impl} model={model}"
  if !fnHard.isEmpty then
    return s!"spec class=false-negative expected=[{",".intercalate specAddrs}] impl={impl} model={model}"
  if impl != model then
    return s!"diff class=warnings model={model} impl={impl}"
  if !fnAll.isEmpty then
    return s!"spec class=fn-merged-check expected=[{",".intercalate specAddrs}] impl={impl} model={model}"
  return "ok " ++ tags

end CweModel.C15

def main : IO Unit := CweModel.Proto.runDriver (CweModel.Proto.guarded CweModel.C15.handleE)
