/-
C15 — model of the NULL-dereference check (CWE476) of cwe_checker, register fragment.

Mirrors, function by function,
  * `analysis/taint/state.rs`      register part of `State`: `eval`, `set_register_taint`,
                                   `remove_non_callee_saved_taint`, `new_return`, `merge`, `is_empty`,
                                   `check_register_list_for_taint`, `check_generic_function_params_for_taint`,
                                   `check_return_values_for_taint`, `check_extern_parameters_for_taint`
  * `analysis/taint/mod.rs`        `update_def` (= `update_def_assign/load/store` then `update_def_post`),
                                   `update_return` (the 2x2 table), the `Taint` register domain
  * `checkers/cwe_476/context.rs`  the overridden callbacks `update_call_generic`, `update_call`,
                                   `update_call_stub`, `update_jump`, `update_return_callee`, `update_def_post`
  * `analysis/forward_interprocedural_fixpoint.rs`  `GeneralizedContext::update_edge` (dispatch on the edge kind)
  * `analysis/fixpoint.rs`         `Computation::{new, set_node_value, compute_with_max_steps}` — through `Base/Fix`
  * `checkers/cwe_476.rs`          `check_cwe`: one bounded fixpoint per source edge, warnings deduplicated by source address

Representation choices
  * A register taint map `DomainMap<Variable, Taint>` is a *set of tainted registers*; it is represented as
    a bit set (`Nat`) over the positions of a variable list `U` (the driver passes all variables that
    occur in the project). `Taint::Tainted/Top` sizes play no role in any decision and are dropped.
  * Memory taint is NOT modelled. In the fragment of the property (the value flows only through
    registers: no `Store` ever stores a tainted value, sources return in registers) the memory part of
    every state is free of taint, `load_taint_from_memory` yields `Top`, and all `POINTER_TAINT` /
    `Arg::Stack` parameter checks are false.
  * `NodeValue::Value(s)` is the pair `(s, 0)`, `NodeValue::CallFlowCombinator{call_stub: a, interprocedural_flow: b}`
    is `(a, b)`; "no value" (`None`) and the empty state are identified: every transfer that would
    return `Some(empty state)` returns `none` here. An empty state never produces a warning or taint;
    in the real worklist it only causes visits without effect.
  * Warnings are a side effect of the callbacks (`generate_cwe_warning`). `edgeOut` returns them next to
    the propagated value. For the theorems they are turned into edges to one extra node `W`
    (`problem`): a warning was generated iff `W` has a value.
  * The graph is `Base/Cfg.Graph` (`get_program_cfg`), nodes numbered by insertion order = petgraph index.
-/
import CweModel.Base.IR
import CweModel.Base.Cfg
import CweModel.Base.Fix
import CweModel.Base.Reach

namespace CweModel.C15
open CweModel.IR

/-! ## Bit sets -/

/-- the set `{ i < n | p i }` -/
def ofPred : Nat → (Nat → Bool) → Nat
  | 0, _ => 0
  | n + 1, p => ofPred n p ||| (if p n then 2 ^ n else 0)

/-- node values: `(value / call_stub part, interprocedural_flow part)` -/
abbrev V := Nat × Nat

/-- `State::merge` on both components (`merge_option` of the `CallFlowCombinator`) -/
def vjoin (a b : V) : V := (a.1 ||| b.1, a.2 ||| b.2)

def vbot : V := (0, 0)

/-- `Some(empty)` ≈ `None` -/
def norm (v : V) : Option V := if v = vbot then none else some v

/-! ## `taint::State`, register part -/

section State
variable (U : List Variable)

/-- `self.register_taint.get(var).is_some()` -/
def memV (s : Nat) (v : Variable) : Bool := s.testBit (U.idxOf v)

/-- `State::eval(e).is_tainted()`: constants and `Unknown` are untainted, every operation is tainted
iff one of its operands is (`Taint::bin_op/un_op/cast/subpiece`). -/
def evalT (s : Nat) : Expression → Bool
  | .Var v => memV U s v
  | .Const _ _ => false
  | .BinOp _ l r => evalT s l || evalT s r
  | .UnOp _ a => evalT s a
  | .Cast _ _ a => evalT s a
  | .Unknown _ _ => false
  | .Subpiece _ _ a => evalT s a

/-- `State::set_register_taint(v, if b {Tainted} else {Top})` -/
def setReg (s : Nat) (v : Variable) (b : Bool) : Nat :=
  ofPred U.length (fun i => if i = U.idxOf v then b else s.testBit i)

/-- keep only the taint of the listed registers (`remove_non_callee_saved_taint` with `keep` = callee saved) -/
def keepRegs (s : Nat) (keep : List Variable) : Nat :=
  ofPred U.length (fun i => s.testBit i && (keep.map U.idxOf).contains i)

/-- the state in which exactly the listed registers are tainted -/
def fromVars (vs : List Variable) : Nat :=
  ofPred U.length (fun i => (vs.map U.idxOf).contains i)

/-- `check_register_list_for_taint` (register part) -/
def anyTainted (s : Nat) (vs : List Variable) : Bool := vs.any (memV U s)

end State

/-! ## calling conventions (`Project::get_*_calling_convention`) -/

def findCconv (pr : Project) (name : String) : Option CallingConvention :=
  pr.callingConventions.find? (fun c => c.name == name)

/-- `get_standard_calling_convention` -/
def standardCconv (pr : Project) : Option CallingConvention :=
  (findCconv pr "__stdcall").orElse fun _ => (findCconv pr "__cdecl").orElse fun _ => findCconv pr "__thiscall"

/-- `get_specific_calling_convention` -/
def specificCconv (pr : Project) (hint : Option String) : Option CallingConvention :=
  (hint.bind (findCconv pr)).orElse fun _ => standardCconv pr

/-- `get_calling_convention(extern_symbol)`; `none` = the Rust function panics -/
def externCconv (pr : Project) (sym : ExternSymbol) : Option CallingConvention :=
  match sym.callingConvention with
  | some n => findCconv pr n
  | none => standardCconv pr

/-- integer parameter registers followed by the input variables of the float parameter expressions -/
def paramRegs (cc : CallingConvention) : List Variable :=
  cc.integerParameterRegister ++ cc.floatParameterRegister.flatMap (·.inputVars)

section Checks
variable (pr : Project) (U : List Variable)

/-- `check_generic_function_params_for_taint::<true>` -/
def genericParamsTainted (s : Nat) (hint : Option String) : Bool :=
  match specificCconv pr hint with
  | some cc => anyTainted U s (paramRegs cc)
  | none => s != 0

/-- `check_return_values_for_taint::<true>` -/
def returnValuesTainted (s : Nat) (hint : Option String) : Bool :=
  match specificCconv pr hint with
  | some cc => anyTainted U s cc.integerReturnRegister
  | none => s != 0

/-- `check_extern_parameters_for_taint::<true>`, register parameters (a stack parameter is tainted only
through memory taint) -/
def externParamsTainted (s : Nat) (sym : ExternSymbol) : Bool :=
  sym.parameters.any fun
    | .Register e _ => evalT U s e
    | .Stack _ _ _ => false

/-- what the generic call handling leaves of the state: `remove_non_callee_saved_taint` if a calling
convention is found, the unchanged state otherwise -/
def afterGenericCall (s : Nat) (hint : Option String) : Nat :=
  match specificCconv pr hint with
  | some cc => keepRegs U s cc.calleeSavedRegister
  | none => s

end Checks

/-! ## the callbacks -/

/-- result of one edge transfer: the propagated value and the warnings generated on the way
(`generate_cwe_warning(sink tid)`, in order) -/
structure Out where
  next : Option V
  warns : List Tid
deriving Inhabited

inductive DefRes where
  | cont (s : Nat)
  | stop
  | warn
deriving DecidableEq

section Callbacks
variable (pr : Project) (U : List Variable)

/-- `Context::update_def` of the taint analysis with the `update_def_post` of CWE476:
no propagation from the empty state; a load/store through a tainted address is a sink. -/
def updateDef (s : Nat) (d : Def) : DefRes :=
  if s = 0 then .stop else
  match d with
  | .Load var address => if evalT U s address then .warn else .cont (setReg U s var false)
  | .Store address _ => if evalT U s address then .warn else .cont s
  | .Assign var value => .cont (setReg U s var (evalT U s value))

inductive BlkRes where
  | cont (s : Nat)
  | stop
  | warn (sink : Tid)

/-- `defs.iter().try_fold(value, update_def)` of `Edge::Block` -/
def runDefs : List (Term Def) → Nat → BlkRes
  | [], s => .cont s
  | d :: ds, s =>
    match updateDef U s d.term with
    | .cont s' => runDefs ds s'
    | .stop => .stop
    | .warn => .warn d.tid

def condTainted (s : Nat) (j : Term Jmp) : Bool :=
  match j.term with
  | .CBranch _ c => evalT U s c
  | _ => false

/-- CWE476 `update_jump` -/
def updateJump (s : Nat) (jump : Term Jmp) (untaken : Option (Term Jmp)) : Option Nat :=
  if s = 0 then none
  else if condTainted U s jump then none
  else if (match untaken with | some u => condTainted U s u | none => false) then none
  else some s

/-- CWE476 `update_call_generic`: `(new state, warning generated)` -/
def updateCallGeneric (s : Nat) (hint : Option String) : Option Nat × Bool :=
  if genericParamsTainted pr U s hint then (none, true) else (some (afterGenericCall pr U s hint), false)

/-- CWE476 `update_call_stub`. The `expect`/`unwrap` on a missing symbol / calling convention (a panic
of the real code) is `(none, false)`; it cannot occur for the edges `get_program_cfg` builds from a
project whose symbols name existing calling conventions. -/
def updateCallStub (s : Nat) (call : Term Jmp) : Option Nat × Bool :=
  if s = 0 then (none, false) else
  match call.term with
  | .Call target _ =>
    match pr.program.externSymbols.find? (fun sy => sy.tid == target) with
    | some sym =>
      if externParamsTainted U s sym then (none, true)
      else match externCconv pr sym with
        | some cc => (some (keepRegs U s cc.calleeSavedRegister), false)
        | none => (none, false)
    | none => (none, false)
  | .CallInd _ _ => updateCallGeneric pr U s none
  | _ => (none, false)

def optV (o : Option Nat) : Option V :=
  match o with
  | some s => norm (s, 0)
  | none => none

/-- `GeneralizedContext::update_edge`: the transfer of one edge of the graph, with the node weights at
its ends (`Edge::Block` reads the block of the start node, `Edge::Call` the calling convention of the
target function, `Edge::ReturnCombine` the returned-from block and function of the `CallReturn` node). -/
def edgeOut (e : Cfg.EdgeRef) (v : V) : Out :=
  match e.label with
  | .Block =>
    match e.src.getBlock? with
    | some blk =>
      match runDefs U blk.term.defs v.1 with
      | .cont s => ⟨norm (s, 0), []⟩
      | .stop => ⟨none, []⟩
      | .warn t => ⟨none, [t]⟩
    | none => ⟨none, []⟩
  | .Jump jmp untaken => ⟨optV (updateJump U v.1 jmp untaken), []⟩
  | .Call jmp =>
    -- `update_call`: warn if a parameter register of the callee's convention is tainted; never propagate
    let hint := match e.dst.getSub? with | some sub => sub.term.callingConvention | none => none
    ⟨none, if genericParamsTainted pr U v.1 hint then [jmp.tid] else []⟩
  | .ExternCallStub jmp =>
    let r := updateCallStub pr U v.1 jmp
    ⟨optV r.1, if r.2 then [jmp.tid] else []⟩
  | .CrCallStub => ⟨norm (v.1, 0), []⟩
  | .CrReturnStub => ⟨norm (0, v.1), []⟩
  | .CallCombine _ => ⟨norm (v.1, 0), []⟩
  | .ReturnCombine callTerm =>
    match e.src with
    | .CallReturn _ ret =>
      -- `update_return(interprocedural_flow, call_stub, call_term, return_from_block.jmps[0], return_from_sub.cconv)`
      let hint := ret.2.term.callingConvention
      let caller := updateCallGeneric pr U v.1 hint
      let retWarn : List Tid :=
        match ret.1.term.jmps with
        | j :: _ => if returnValuesTainted pr U v.2 hint then [j.tid] else []
        | [] => []
      ⟨optV caller.1, (if caller.2 then [callTerm.tid] else []) ++ retWarn⟩
    | _ => ⟨none, []⟩

end Callbacks


/-! ## the transfer of an edge as (blocking test, set transformer, warning test)

Every edge transfer has the shape `if blk v then none else norm (g v)` with a warning iff `warn v`
(`C15.Props.edgeOut_eq_tri`); `blk`/`warn` are unions of per-register tests and `g` maps every tainted
register independently of the others (`Props.tri_*_join`). -/

section Tri
variable (pr : Project) (U : List Variable)

/-- effect of a `Def` that is not a sink on the tainted set -/
def gDef (s : Nat) : Def → Nat
  | .Load var _ => setReg U s var false
  | .Store _ _ => s
  | .Assign var value => setReg U s var (evalT U s value)

/-- the `Def` is a sink for `s`: load/store through a tainted address -/
def sinkDef (s : Nat) : Def → Bool
  | .Load _ a => evalT U s a
  | .Store a _ => evalT U s a
  | .Assign _ _ => false

def gDefs : List (Term Def) → Nat → Nat
  | [], s => s
  | d :: ds, s => gDefs ds (gDef U s d.term)

def blkDefs : List (Term Def) → Nat → Bool
  | [], _ => false
  | d :: ds, s => sinkDef U s d.term || blkDefs ds (gDef U s d.term)

structure Tri where
  blk : Bool
  g : V
  warn : Bool

def blockTri (defs : List (Term Def)) (s : Nat) : Tri :=
  ⟨blkDefs U defs s, (gDefs U defs s, 0), blkDefs U defs s⟩

def jumpTri (s : Nat) (jmp : Term Jmp) (untaken : Option (Term Jmp)) : Tri :=
  ⟨condTainted U s jmp || (match untaken with | some u => condTainted U s u | none => false), (s, 0), false⟩

def genericTri (s : Nat) (hint : Option String) : Tri :=
  ⟨genericParamsTainted pr U s hint, (afterGenericCall pr U s hint, 0), genericParamsTainted pr U s hint⟩

def stubTri (s : Nat) (jmp : Term Jmp) : Tri :=
  match jmp.term with
  | .Call target _ =>
    match pr.program.externSymbols.find? (fun sy => sy.tid == target) with
    | some sym =>
      ⟨externParamsTainted U s sym,
       (match externCconv pr sym with
        | some cc => (keepRegs U s cc.calleeSavedRegister, 0)
        | none => vbot),
       externParamsTainted U s sym⟩
    | none => ⟨false, vbot, false⟩
  | .CallInd _ _ => genericTri pr U s none
  | _ => ⟨false, vbot, false⟩

def edgeTri (e : Cfg.EdgeRef) (v : V) : Tri :=
  match e.label with
  | .Block =>
    match e.src.getBlock? with
    | some b => blockTri U b.term.defs v.1
    | none => ⟨false, vbot, false⟩
  | .Jump jmp untaken => jumpTri U v.1 jmp untaken
  | .Call _ =>
    let hint := match e.dst.getSub? with | some sub => sub.term.callingConvention | none => none
    ⟨false, vbot, genericParamsTainted pr U v.1 hint⟩
  | .ExternCallStub jmp => stubTri pr U v.1 jmp
  | .CrCallStub => ⟨false, (v.1, 0), false⟩
  | .CrReturnStub => ⟨false, (0, v.1), false⟩
  | .CallCombine _ => ⟨false, (v.1, 0), false⟩
  | .ReturnCombine _ =>
    match e.src with
    | .CallReturn _ ret =>
      let hint := ret.2.term.callingConvention
      let t := genericTri pr U v.1 hint
      ⟨t.blk, t.g, t.warn || (!ret.1.term.jmps.isEmpty && returnValuesTainted pr U v.2 hint)⟩
    | _ => ⟨false, vbot, false⟩

end Tri

/-! ## the fixpoint problem of one source (for `Base/Fix`) -/

/-- an edge of the graph with its endpoints as node indices -/
structure IEdge where
  src : Nat
  dst : Nat
  ref : Cfg.EdgeRef

def indexEdges (g : Cfg.Graph) : List IEdge :=
  g.edges.map fun e => ⟨g.nodes.idxOf e.src, g.nodes.idxOf e.dst, e⟩

section Problem
variable (pr : Project) (U : List Variable)

def flowEdge (e : IEdge) : Fix.Edge V := ⟨e.src, e.dst, fun v => (edgeOut pr U e.ref v).next⟩

/-- the warning side effect of evaluating edge `e`, as an edge to the extra node `W` -/
def warnEdge (W : Nat) (e : IEdge) : Fix.Edge V :=
  ⟨e.src, W, fun v => if (edgeOut pr U e.ref v).warns.isEmpty then none else some v⟩

/-- evaluating edge `e`: first the side effect, then the propagated value -/
def pairEdges (W : Nat) (e : IEdge) : List (Fix.Edge V) := [warnEdge pr U W e, flowEdge pr U e]

def problem (es : List IEdge) (W : Nat) : Fix.Problem V :=
  { edges := es.flatMap (pairEdges pr U W), join := vjoin }

/-- `computation.set_node_value(return_node, Value(new_return(..)))` on a fresh computation -/
def initState (node : Nat) (v : V) : Fix.State V :=
  { vals := fun i => if i = node then some v else none
    wl := fun i => decide (i = node) }

/-- warning generated ⇔ `W` has a value -/
def warned (W : Nat) (s : Fix.State V) : Bool := (s.vals W).isSome

/-! ### the real schedule: highest priority first, out-edges in petgraph order -/

/-- `worklist.iter().next_back()`: the node of the worklist that comes last in `priority_sorted_nodes` -/
def pickNode (prio : List Nat) (wl : Nat → Bool) : Option Nat := prio.reverse.find? wl

/-- evaluating one out-edge of node `p`: the warnings it generates for the current value of `p`
(collected on the side) and the update of the solver state -/
def processStep (P : Fix.Problem V) (W : Nat) (p : Nat) (acc : Fix.State V × List Tid) (e : IEdge) :
    Fix.State V × List Tid :=
  let ws := match acc.1.vals p with
    | some v => (edgeOut pr U e.ref v).warns
    | none => []
  (Fix.updateEdges P acc.1 (pairEdges pr U W e), acc.2 ++ ws)

/-- one `update_node`: all out-edges in order -/
def processNode (P : Fix.Problem V) (W : Nat) (outs : List IEdge) (s : Fix.State V) (p : Nat) :
    Fix.State V × List Tid :=
  outs.foldl (processStep pr U P W p) (s, [])

/-- `compute_with_max_steps(k)` with the real scheduler; returns the final bounded state and all
warnings (sink tids) in the order of generation. `fuel` bounds the number of loop iterations. -/
def execLoop (P : Fix.Problem V) (W : Nat) (outE : Nat → List IEdge) (prio : List Nat) (k : Nat) :
    Nat → Fix.BState V → List Tid → Fix.BState V × List Tid
  | 0, b, ws => (b, ws)
  | fuel + 1, b, ws =>
    match pickNode prio b.st.wl with
    | none => (b, ws)
    | some p =>
      if b.steps p < k then
        let r := processNode pr U P W (outE p) (b.st.remove p) p
        execLoop P W outE prio k fuel
          { st := r.1, steps := fun i => if i = p then b.steps i + 1 else b.steps i, nonStab := b.nonStab }
          (ws ++ r.2)
      else
        execLoop P W outE prio k fuel
          { st := b.st.remove p, steps := b.steps, nonStab := fun i => if i = p then true else b.nonStab i } ws

end Problem

/-- `graph.edges(p)`: the out-edges of node `p`, newest first -/
def outEdgesOf (es : List IEdge) (p : Nat) : List IEdge := (es.filter (fun e => e.src == p)).reverse

/-! ## `check_cwe` -/

/-- `symbol_utils::get_symbol_map`: for every configured name the first extern symbol of that name -/
def symbolMap (pr : Project) (syms : List String) : List ExternSymbol :=
  syms.filterMap fun n => pr.program.externSymbols.find? (fun s => s.name == n)

/-- registers tainted by `State::new_return` (a stack return value would taint memory: outside the fragment) -/
def returnVars (sym : ExternSymbol) : List Variable :=
  sym.returnValues.flatMap fun
    | .Register e _ => e.inputVars
    | .Stack _ _ _ => []

/-- a taint source: an `ExternCallStub` edge whose call targets a configured symbol -/
structure Source where
  edge : IEdge
  call : Term Jmp
  sym : ExternSymbol

def sourcesOf (pr : Project) (syms : List String) (es : List IEdge) : List Source :=
  let m := symbolMap pr syms
  es.filterMap fun e =>
    match e.ref.label with
    | .ExternCallStub jmp =>
      match jmp.term with
      | .Call target _ =>
        match m.find? (fun s => s.tid == target) with
        | some sym => some ⟨e, jmp, sym⟩
        | none => none
      | _ => none
    | _ => none

/-- a warning as it leaves `generate_cwe_warning` -/
structure Warning where
  srcAddr : String
  srcTid : String
  sinkTid : String
  symbol : String
deriving DecidableEq, Repr

/-- `BTreeMap::insert(source address, warning)` for all warnings in order, then `into_values()`:
the last warning of each source address, sorted by address -/
def uniq : List String → List String
  | [] => []
  | a :: as => if a ∈ uniq as then uniq as else a :: uniq as

def dedupByAddr (ws : List Warning) : List Warning :=
  let addrs := uniq (ws.map (·.srcAddr))
  let sorted := addrs.mergeSort (fun a b => !(b < a))
  sorted.filterMap fun a => ws.reverse.find? (fun w => w.srcAddr == a)

/-- `TaState::new_return` (register part) as the start value of the return node -/
def sourceInit (U : List Variable) (src : Source) : V := (fromVars U (returnVars src.sym), 0)

/-- the bounded fixpoint computation of one source with the real scheduler: final state and the
sink tids of the generated warnings in order -/
def runSourceExec (pr : Project) (U : List Variable) (es : List IEdge) (W : Nat) (prio : List Nat)
    (outE : Nat → List IEdge) (k fuel : Nat) (src : Source) : Fix.BState V × List Tid :=
  execLoop pr U (problem pr U es W) W outE prio k fuel
    (Fix.BState.start (initState src.edge.dst (sourceInit U src))) []

/-- what `has_stabilized()` would report: the worklist is empty and no node was given up -/
def execOk (prio : List Nat) (b : Fix.BState V) : Bool :=
  (pickNode prio b.st.wl).isNone && prio.all (fun i => !b.nonStab i)

/-- `generate_cwe_warning` for every sink -/
def sourceWarnings (src : Source) (sinks : List Tid) : List Warning :=
  sinks.map fun sink => ⟨src.call.tid.address, src.call.tid.id, sink.id, src.sym.name⟩

/-- `check_cwe`: all sources in edge order, `compute_with_max_steps(k)` each, dedup by source address -/
def checkCwe (pr : Project) (U : List Variable) (es : List IEdge) (W : Nat) (prio : List Nat)
    (outE : Nat → List IEdge) (k fuel : Nat) (syms : List String) : List Warning :=
  dedupByAddr ((sourcesOf pr syms es).flatMap fun src =>
    sourceWarnings src (runSourceExec pr U es W prio outE k fuel src).2)

/-! ## Specification: paths -/

section Spec
variable (pr : Project) (U : List Variable) (es : List IEdge)

/-- `PathVal n v`: some control-flow path from the return site `n0` of the source to node `n`, along
which every edge transfer lets the taint through (no conditional jump on a tainted condition, no
sink, taint not extinguished), carries the tainted-register set `v` to `n`. The taint is propagated
along the path by the per-instruction rules above, on the path's own state only. -/
inductive PathVal (n0 : Nat) (v0 : V) : Nat → V → Prop where
  | init : PathVal n0 v0 n0 v0
  | step {n : Nat} {v v' : V} (e : IEdge) : PathVal n0 v0 n v → e ∈ es → e.src = n →
      (edgeOut pr U e.ref v).next = some v' → PathVal n0 v0 e.dst v'

/-- **the path specification**: some such path reaches an edge on which the path's state triggers a
sink (load/store through a tainted address, call with a tainted parameter, return of a tainted value
to a caller). -/
def PathWarn (n0 : Nat) (v0 : V) : Prop :=
  ∃ n v e, PathVal pr U es n0 v0 n v ∧ e ∈ es ∧ e.src = n ∧ (edgeOut pr U e.ref v).warns ≠ []

/-- paths that are not stopped with respect to the (merged) node values `S` either: like `PathVal`, and
in addition no edge of the path is blocked for the value `S` holds at its start node -/
inductive PathValM (S : Nat → Option V) (n0 : Nat) (v0 : V) : Nat → V → Prop where
  | init : PathValM S n0 v0 n0 v0
  | step {n : Nat} {v v' : V} (e : IEdge) : PathValM S n0 v0 n v → e ∈ es → e.src = n →
      (∀ a, S n = some a → (edgeTri pr U e.ref a).blk = false) →
      (edgeOut pr U e.ref v).next = some v' → PathValM S n0 v0 e.dst v'

/-- successor function of the product graph (node, path state) -/
def prodNext (x : Nat × V) : List (Nat × V) :=
  (es.filter (fun e => e.src == x.1)).filterMap fun e =>
    match (edgeOut pr U e.ref x.2).next with
    | some v' => some (e.dst, v')
    | none => none

def warnsAt (x : Nat × V) : Bool :=
  (es.filter (fun e => e.src == x.1)).any fun e => !(edgeOut pr U e.ref x.2).warns.isEmpty


/-- all (node, path state) pairs of `PathVal`, by depth-first search of the product graph;
the second component tells whether the search finished within `fuel` -/
def reachStates (fuel : Nat) (n0 : Nat) (v0 : V) : List (Nat × V) × Bool :=
  let r := Reach.dfs (prodNext pr U es) fuel [(n0, v0)] []
  (r.2, r.1.isEmpty)

/-- executable `PathWarn` -/
def specWarnB (states : List (Nat × V)) : Bool := states.any (warnsAt pr U es)

/-- executable `¬ NoInterference`: two path states at the same node, one blocked on an out-edge and
the other not -/
def interferenceB (states : List (Nat × V)) : Bool :=
  states.any fun x => states.any fun y =>
    x.1 == y.1 && (es.filter (fun e => e.src == x.1)).any fun e =>
      (edgeTri pr U e.ref y.2).blk && !(edgeTri pr U e.ref x.2).blk

/-- **no interference**: at every node, an out-edge that blocks one path state blocks every path
state that reaches the node. (Then merging the states of different paths never turns a check on one
path into a check on another.) -/
def NoInterference (n0 : Nat) (v0 : V) : Prop :=
  ∀ n x y e, PathVal pr U es n0 v0 n x → PathVal pr U es n0 v0 n y → e ∈ es → e.src = n →
    (edgeTri pr U e.ref y).blk = true → (edgeTri pr U e.ref x).blk = true

end Spec

end CweModel.C15
