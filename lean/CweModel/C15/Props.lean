/-
C15 — theorems about the model of the NULL-dereference check (see `Model.lean`, `Flow.lean`).
-/
import CweModel.C15.Model
import CweModel.C15.Flow

namespace CweModel.C15
open CweModel.IR

/-! ## bit sets -/

theorem testBit_ofPred (n : Nat) (p : Nat → Bool) (i : Nat) :
    (ofPred n p).testBit i = (decide (i < n) && p i) := by
  induction n with
  | zero => simp [ofPred]
  | succ n ih =>
    simp only [ofPred, Nat.testBit_or, ih]
    by_cases hin : i < n
    · have h1 : i < n + 1 := by omega
      have h2 : ¬ n = i := by omega
      by_cases hp : p n <;> simp [hp, hin, h1, h2]
    · by_cases hn : n = i
      · subst hn
        by_cases hp : p n <;> simp [hp]
      · have h1 : ¬ i < n + 1 := by omega
        by_cases hp : p n <;> simp [hp, hin, h1, hn]

theorem ofPred_or (n : Nat) (p q : Nat → Bool) :
    ofPred n p ||| ofPred n q = ofPred n (fun i => p i || q i) := by
  apply Nat.eq_of_testBit_eq
  intro i
  simp only [Nat.testBit_or, testBit_ofPred]
  cases decide (i < n) <;> simp

theorem ofPred_eq_zero (n : Nat) (p : Nat → Bool) (h : ∀ i, i < n → p i = false) : ofPred n p = 0 := by
  apply Nat.eq_of_testBit_eq
  intro i
  simp only [testBit_ofPred, Nat.zero_testBit]
  by_cases hi : i < n
  · simp [h i hi]
  · simp [hi]

theorem or_ne_zero (s t : Nat) : ((s ||| t) != 0) = ((s != 0) || (t != 0)) := by
  by_cases hs : s = 0
  · rw [hs, Nat.zero_or]; rfl
  · have h1 : ¬ (s ||| t = 0) := fun h => hs (Nat.or_eq_zero_iff.mp h).1
    have h2 : (s != 0) = true := by simpa using hs
    have h3 : ((s ||| t) != 0) = true := by simpa using h1
    rw [h2, h3]; rfl

/-! ## `vjoin` is a semilattice with least element `vbot` -/

theorem vjoin_semilattice : Fix.IsSemilattice vjoin where
  comm a b := by simp only [vjoin]; rw [Nat.or_comm a.1, Nat.or_comm a.2]
  assoc a b c := by simp only [vjoin]; rw [Nat.or_assoc, Nat.or_assoc]
  idem a := by simp [vjoin]

theorem vbot_vjoin (x : V) : vjoin vbot x = x := by simp [vjoin, vbot]

/-! ## every operation of the register state works register by register -/

section Distrib
variable (pr : Project) (U : List Variable)

theorem memV_or (s t : Nat) (v : Variable) : memV U (s ||| t) v = (memV U s v || memV U t v) := by
  simp [memV, Nat.testBit_or]

theorem memV_zero (v : Variable) : memV U 0 v = false := by simp [memV]

/-- **C15-eval.** An expression is tainted in a union of tainted sets iff it is tainted in one of
them (`State::eval` looks at each input register on its own). -/
theorem evalT_or (s t : Nat) (e : Expression) : evalT U (s ||| t) e = (evalT U s e || evalT U t e) := by
  induction e with
  | Var v => simp [evalT, memV_or]
  | Const _ _ => simp [evalT]
  | BinOp _ l r ihl ihr =>
    simp only [evalT, ihl, ihr]
    cases evalT U s l <;> cases evalT U t l <;> cases evalT U s r <;> cases evalT U t r <;> rfl
  | UnOp _ a ih => simpa [evalT] using ih
  | Cast _ _ a ih => simpa [evalT] using ih
  | Unknown _ _ => simp [evalT]
  | Subpiece _ _ a ih => simpa [evalT] using ih

theorem evalT_zero (e : Expression) : evalT U 0 e = false := by
  induction e with
  | Var v => simp [evalT, memV_zero]
  | Const _ _ => simp [evalT]
  | BinOp _ l r ihl ihr => simp [evalT, ihl, ihr]
  | UnOp _ a ih => simpa [evalT] using ih
  | Cast _ _ a ih => simpa [evalT] using ih
  | Unknown _ _ => simp [evalT]
  | Subpiece _ _ a ih => simpa [evalT] using ih

/-- **C15-eval-inputs.** `eval` is tainted iff some input variable of the expression is tainted. -/
theorem evalT_iff_inputVars (s : Nat) (e : Expression) : evalT U s e = e.inputVars.any (memV U s) := by
  induction e with
  | Var v => simp [evalT, Expression.inputVars]
  | Const _ _ => simp [evalT, Expression.inputVars]
  | BinOp _ l r ihl ihr => simp [evalT, Expression.inputVars, ihl, ihr, List.any_append]
  | UnOp _ a ih => simpa [evalT, Expression.inputVars] using ih
  | Cast _ _ a ih => simpa [evalT, Expression.inputVars] using ih
  | Unknown _ _ => simp [evalT, Expression.inputVars]
  | Subpiece _ _ a ih => simpa [evalT, Expression.inputVars] using ih

/-- **C15-overwrite.** `set_register_taint` on a union: the written register gets the new taint
(an overwrite with an untainted value ends the dependence), every other register keeps its own. -/
theorem setReg_or (s t : Nat) (v : Variable) (a b : Bool) :
    setReg U (s ||| t) v (a || b) = setReg U s v a ||| setReg U t v b := by
  simp only [setReg, ofPred_or]
  congr 1
  funext i
  by_cases h : i = U.idxOf v <;> simp [h, Nat.testBit_or]

theorem setReg_zero (v : Variable) : setReg U 0 v false = 0 := by
  apply ofPred_eq_zero
  intro i _
  by_cases h : i = U.idxOf v <;> simp [h]

theorem testBit_setReg (s : Nat) (v : Variable) (b : Bool) (i : Nat) :
    (setReg U s v b).testBit i = (decide (i < U.length) && (if i = U.idxOf v then b else s.testBit i)) := by
  simp [setReg, testBit_ofPred]

theorem keepRegs_or (s t : Nat) (k : List Variable) :
    keepRegs U (s ||| t) k = keepRegs U s k ||| keepRegs U t k := by
  simp only [keepRegs, ofPred_or]
  congr 1
  funext i
  simp only [Nat.testBit_or]
  cases s.testBit i <;> cases t.testBit i <;> simp

theorem keepRegs_zero (k : List Variable) : keepRegs U 0 k = 0 := by
  apply ofPred_eq_zero
  intro i _
  simp

/-- **C15-clobber.** After a call exactly the tainted callee-saved registers stay tainted. -/
theorem testBit_keepRegs (s : Nat) (k : List Variable) (i : Nat) :
    (keepRegs U s k).testBit i = (decide (i < U.length) && (s.testBit i && (k.map U.idxOf).contains i)) := by
  simp [keepRegs, testBit_ofPred]

theorem anyTainted_or (s t : Nat) (vs : List Variable) :
    anyTainted U (s ||| t) vs = (anyTainted U s vs || anyTainted U t vs) := by
  induction vs with
  | nil => simp [anyTainted]
  | cons v vs ih =>
    simp only [anyTainted, List.any_cons] at ih ⊢
    rw [ih, memV_or]
    cases memV U s v <;> cases memV U t v <;> cases vs.any (memV U s) <;> cases vs.any (memV U t) <;> rfl

theorem anyTainted_zero (vs : List Variable) : anyTainted U 0 vs = false := by
  induction vs with
  | nil => simp [anyTainted]
  | cons v vs ih =>
    simp only [anyTainted, List.any_cons] at ih ⊢
    simp [ih, memV_zero]

theorem externParamsTainted_or (s t : Nat) (sym : ExternSymbol) :
    externParamsTainted U (s ||| t) sym = (externParamsTainted U s sym || externParamsTainted U t sym) := by
  unfold externParamsTainted
  induction sym.parameters with
  | nil => simp
  | cons a as ih =>
    simp only [List.any_cons, ih]
    cases a with
    | Register e _ =>
      simp only [evalT_or]
      generalize evalT U s e = x1
      generalize evalT U t e = x2
      generalize (as.any _) = y1
      generalize (as.any _) = y2
      cases x1 <;> cases x2 <;> cases y1 <;> cases y2 <;> rfl
    | Stack _ _ _ => simp

theorem genericParamsTainted_or (s t : Nat) (hint : Option String) :
    genericParamsTainted pr U (s ||| t) hint =
      (genericParamsTainted pr U s hint || genericParamsTainted pr U t hint) := by
  unfold genericParamsTainted
  cases specificCconv pr hint with
  | some cc => exact anyTainted_or U s t _
  | none => exact or_ne_zero s t

theorem returnValuesTainted_or (s t : Nat) (hint : Option String) :
    returnValuesTainted pr U (s ||| t) hint =
      (returnValuesTainted pr U s hint || returnValuesTainted pr U t hint) := by
  unfold returnValuesTainted
  cases specificCconv pr hint with
  | some cc => exact anyTainted_or U s t _
  | none => exact or_ne_zero s t

theorem afterGenericCall_or (s t : Nat) (hint : Option String) :
    afterGenericCall pr U (s ||| t) hint = afterGenericCall pr U s hint ||| afterGenericCall pr U t hint := by
  unfold afterGenericCall
  cases specificCconv pr hint with
  | some cc => exact keepRegs_or U s t _
  | none => rfl

theorem condTainted_or (s t : Nat) (j : Term Jmp) :
    condTainted U (s ||| t) j = (condTainted U s j || condTainted U t j) := by
  unfold condTainted
  cases j.term <;> simp [evalT_or]

/-! ### `Def`s -/

/-- **C15-def-distributive.** The effect of a `Def` on a union of tainted sets is the union of its
effects: the taint of each register propagates independently. -/
theorem gDef_or (s t : Nat) (d : Def) : gDef U (s ||| t) d = gDef U s d ||| gDef U t d := by
  cases d with
  | Load var a =>
    have := setReg_or U s t var false false
    simpa [gDef] using this
  | Store a x => rfl
  | Assign var value => simp only [gDef, evalT_or, setReg_or]

theorem sinkDef_or (s t : Nat) (d : Def) : sinkDef U (s ||| t) d = (sinkDef U s d || sinkDef U t d) := by
  cases d <;> simp [sinkDef, evalT_or]

theorem gDef_zero (d : Def) : gDef U 0 d = 0 := by
  cases d with
  | Load var a => exact setReg_zero U var
  | Store a x => rfl
  | Assign var value => simp only [gDef, evalT_zero]; exact setReg_zero U var

theorem sinkDef_zero (d : Def) : sinkDef U 0 d = false := by
  cases d <;> simp [sinkDef, evalT_zero]

theorem gDefs_or (ds : List (Term Def)) (s t : Nat) : gDefs U ds (s ||| t) = gDefs U ds s ||| gDefs U ds t := by
  induction ds generalizing s t with
  | nil => rfl
  | cons d ds ih => simp only [gDefs, gDef_or, ih]

theorem blkDefs_or (ds : List (Term Def)) (s t : Nat) :
    blkDefs U ds (s ||| t) = (blkDefs U ds s || blkDefs U ds t) := by
  induction ds generalizing s t with
  | nil => rfl
  | cons d ds ih =>
    simp only [blkDefs, gDef_or, sinkDef_or, ih]
    generalize sinkDef U s d.term = a
    generalize sinkDef U t d.term = b
    generalize blkDefs U ds (gDef U s d.term) = c
    generalize blkDefs U ds (gDef U t d.term) = e
    cases a <;> cases b <;> cases c <;> cases e <;> rfl

theorem gDefs_zero (ds : List (Term Def)) : gDefs U ds 0 = 0 := by
  induction ds with
  | nil => rfl
  | cons d ds ih => simp only [gDefs, gDef_zero, ih]

theorem blkDefs_zero (ds : List (Term Def)) : blkDefs U ds 0 = false := by
  induction ds with
  | nil => rfl
  | cons d ds ih => simp only [blkDefs, gDef_zero, sinkDef_zero, ih]; rfl

theorem updateDef_spec (s : Nat) (d : Def) (hs : s ≠ 0) :
    updateDef U s d = if sinkDef U s d then .warn else .cont (gDef U s d) := by
  unfold updateDef
  simp only [hs, if_false]
  cases d with
  | Load var a => by_cases h : evalT U s a = true <;> simp [sinkDef, gDef, h]
  | Store a x => by_cases h : evalT U s a = true <;> simp [sinkDef, gDef, h]
  | Assign var value => simp [sinkDef, gDef]

/-- the `try_fold` over the `Def`s of a block: a warning iff some `Def` is a sink for the state that
reaches it; otherwise the composed effect (the fold stops early only if the state became empty,
and then the composed effect is empty, too) -/
theorem runDefs_spec (ds : List (Term Def)) (s : Nat) :
    match runDefs U ds s with
    | .warn _ => blkDefs U ds s = true
    | .stop => blkDefs U ds s = false ∧ gDefs U ds s = 0
    | .cont s' => blkDefs U ds s = false ∧ gDefs U ds s = s' := by
  induction ds generalizing s with
  | nil => simp [runDefs, blkDefs, gDefs]
  | cons d ds ih =>
    by_cases hs : s = 0
    · subst hs
      simp [runDefs, updateDef, blkDefs_zero, gDefs_zero]
    · simp only [runDefs, updateDef_spec U s d.term hs]
      by_cases hk : sinkDef U s d.term = true
      · simp [hk, blkDefs]
      · have hk' : sinkDef U s d.term = false := by simpa using hk
        simp only [hk', blkDefs, gDefs, Bool.false_or]
        exact ih (gDef U s d.term)

end Distrib


/-! ## the edge transfer in (blocking test, set transformer, warning test) form -/

section TriForm
variable (pr : Project) (U : List Variable)

theorem externParamsTainted_zero (sym : ExternSymbol) : externParamsTainted U 0 sym = false := by
  unfold externParamsTainted
  induction sym.parameters with
  | nil => rfl
  | cons a as ih =>
    simp only [List.any_cons, ih]
    cases a <;> simp [evalT_zero]

theorem genericParamsTainted_zero (hint : Option String) : genericParamsTainted pr U 0 hint = false := by
  unfold genericParamsTainted
  cases specificCconv pr hint with
  | some cc => exact anyTainted_zero U _
  | none => rfl

theorem returnValuesTainted_zero (hint : Option String) : returnValuesTainted pr U 0 hint = false := by
  unfold returnValuesTainted
  cases specificCconv pr hint with
  | some cc => exact anyTainted_zero U _
  | none => rfl

theorem afterGenericCall_zero (hint : Option String) : afterGenericCall pr U 0 hint = 0 := by
  unfold afterGenericCall
  cases specificCconv pr hint with
  | some cc => exact keepRegs_zero U _
  | none => rfl

theorem condTainted_zero (j : Term Jmp) : condTainted U 0 j = false := by
  unfold condTainted
  cases j.term <;> simp [evalT_zero]

theorem norm_vbot : norm vbot = none := by simp [norm]

theorem norm_zero : norm ((0, 0) : V) = none := by simp [norm, vbot]

theorem optV_some (s : Nat) : optV (some s) = norm (s, 0) := rfl

theorem updateCallGeneric_spec (s : Nat) (hint : Option String) :
    updateCallGeneric pr U s hint =
      if genericParamsTainted pr U s hint then (none, true) else (some (afterGenericCall pr U s hint), false) := rfl

theorem blockOut_spec (defs : List (Term Def)) (s : Nat) :
    (match runDefs U defs s with
      | .cont s' => (⟨norm (s', 0), []⟩ : Out)
      | .stop => ⟨none, []⟩
      | .warn t => ⟨none, [t]⟩).next =
        (if (blockTri U defs s).blk then none else norm (blockTri U defs s).g) ∧
    (match runDefs U defs s with
      | .cont s' => (⟨norm (s', 0), []⟩ : Out)
      | .stop => ⟨none, []⟩
      | .warn t => ⟨none, [t]⟩).warns.isEmpty = !(blockTri U defs s).warn := by
  have h := runDefs_spec U defs s
  cases hr : runDefs U defs s with
  | cont s' => rw [hr] at h; simp [blockTri, h.1, h.2]
  | stop => rw [hr] at h; simp [blockTri, h.1, h.2, norm_zero]
  | warn t => rw [hr] at h; simp [blockTri, h]

theorem updateJump_tri (s : Nat) (jmp : Term Jmp) (untaken : Option (Term Jmp)) :
    optV (updateJump U s jmp untaken) =
      if (jumpTri U s jmp untaken).blk then none else norm (jumpTri U s jmp untaken).g := by
  unfold updateJump jumpTri
  by_cases hs : s = 0
  · subst hs
    cases untaken <;> simp [condTainted_zero, optV, norm_zero]
  · cases untaken with
    | none => cases h1 : condTainted U s jmp <;> simp [hs, optV]
    | some u => cases h1 : condTainted U s jmp <;> cases h2 : condTainted U s u <;> simp [hs, optV, h2]

theorem updateCallGeneric_tri (s : Nat) (hint : Option String) :
    optV (updateCallGeneric pr U s hint).1 =
      (if (genericTri pr U s hint).blk then none else norm (genericTri pr U s hint).g) ∧
    (updateCallGeneric pr U s hint).2 = (genericTri pr U s hint).warn := by
  unfold updateCallGeneric genericTri
  cases genericParamsTainted pr U s hint <;> simp [optV]

theorem genericTri_zero (hint : Option String) :
    (genericTri pr U 0 hint).blk = false ∧ norm (genericTri pr U 0 hint).g = none ∧
      (genericTri pr U 0 hint).warn = false := by
  simp [genericTri, genericParamsTainted_zero, afterGenericCall_zero, norm_zero]

theorem updateCallStub_tri (s : Nat) (jmp : Term Jmp) :
    optV (updateCallStub pr U s jmp).1 =
      (if (stubTri pr U s jmp).blk then none else norm (stubTri pr U s jmp).g) ∧
    (updateCallStub pr U s jmp).2 = (stubTri pr U s jmp).warn := by
  unfold updateCallStub stubTri
  by_cases hs : s = 0
  · subst hs
    simp only [if_true, optV]
    cases jmp.term with
    | Call target _ =>
      simp only
      cases pr.program.externSymbols.find? (fun sy => sy.tid == target) with
      | none => simp [norm_vbot]
      | some sym =>
        simp only [externParamsTainted_zero]
        cases externCconv pr sym <;> simp [norm_vbot, keepRegs_zero, norm_zero]
    | CallInd _ _ =>
      have := genericTri_zero pr U none
      simp [this.1, this.2.1, this.2.2]
    | _ => simp [norm_vbot]
  · simp only [hs, if_false]
    cases jmp.term with
    | Call target _ =>
      simp only
      cases pr.program.externSymbols.find? (fun sy => sy.tid == target) with
      | none => simp [norm_vbot, optV]
      | some sym =>
        simp only
        cases hp : externParamsTainted U s sym with
        | true => simp [optV]
        | false =>
          cases externCconv pr sym <;> simp [norm_vbot, optV]
    | CallInd _ _ => exact updateCallGeneric_tri pr U s none
    | _ => simp [norm_vbot, optV]

/-- **C15-transfer-form.** Every edge transfer is `if blk v then none else norm (g v)`. -/
theorem edgeOut_next (e : Cfg.EdgeRef) (v : V) :
    (edgeOut pr U e v).next =
      if (edgeTri pr U e v).blk then none else norm (edgeTri pr U e v).g := by
  obtain ⟨src, dst, label⟩ := e
  cases label with
  | Block =>
    cases src with
    | BlkStart b _ => exact (blockOut_spec U b.term.defs v.1).1
    | BlkEnd b _ => exact (blockOut_spec U b.term.defs v.1).1
    | _ => simp [edgeOut, edgeTri, Cfg.Node.getBlock?, norm_vbot]
  | Jump jmp untaken => simp only [edgeOut, edgeTri]; exact updateJump_tri U v.1 jmp untaken
  | Call jmp => simp [edgeOut, edgeTri, norm_vbot]
  | ExternCallStub jmp => simp only [edgeOut, edgeTri]; exact (updateCallStub_tri pr U v.1 jmp).1
  | CrCallStub => simp [edgeOut, edgeTri]
  | CrReturnStub => simp [edgeOut, edgeTri]
  | CallCombine _ => simp [edgeOut, edgeTri]
  | ReturnCombine callTerm =>
    simp only [edgeOut, edgeTri]
    cases src with
    | CallReturn c ret => exact (updateCallGeneric_tri pr U v.1 _).1
    | _ => simp [norm_vbot]

/-- **C15-warning-form.** A warning is generated iff `warn v`. -/
theorem edgeOut_warns (e : Cfg.EdgeRef) (v : V) :
    (edgeOut pr U e v).warns.isEmpty = !(edgeTri pr U e v).warn := by
  obtain ⟨src, dst, label⟩ := e
  cases label with
  | Block =>
    cases src with
    | BlkStart b _ => exact (blockOut_spec U b.term.defs v.1).2
    | BlkEnd b _ => exact (blockOut_spec U b.term.defs v.1).2
    | _ => simp [edgeOut, edgeTri, Cfg.Node.getBlock?]
  | Jump jmp untaken => simp [edgeOut, edgeTri, jumpTri]
  | Call jmp =>
    simp only [edgeOut, edgeTri]
    generalize genericParamsTainted pr U v.1 _ = b
    cases b <;> simp
  | ExternCallStub jmp =>
    simp only [edgeOut, edgeTri]
    rw [← (updateCallStub_tri pr U v.1 jmp).2]
    cases (updateCallStub pr U v.1 jmp).2 <;> simp
  | CrCallStub => simp [edgeOut, edgeTri]
  | CrReturnStub => simp [edgeOut, edgeTri]
  | CallCombine _ => simp [edgeOut, edgeTri]
  | ReturnCombine callTerm =>
    simp only [edgeOut, edgeTri]
    cases src with
    | CallReturn c ret =>
      simp only
      rw [← (updateCallGeneric_tri pr U v.1 ret.2.term.callingConvention).2]
      cases (updateCallGeneric pr U v.1 ret.2.term.callingConvention).2
      · cases hj : ret.1.term.jmps with
        | nil => simp
        | cons j js =>
          cases returnValuesTainted pr U v.2 ret.2.term.callingConvention <;> simp
      · simp
    | _ => simp

end TriForm

/-! ## the laws: `blk`/`warn` are unions of per-register tests, `g` acts register by register -/

section TriLaws
variable (pr : Project) (U : List Variable)

theorem vjoin_fst (x y : V) : (vjoin x y).1 = x.1 ||| y.1 := rfl
theorem vjoin_snd (x y : V) : (vjoin x y).2 = x.2 ||| y.2 := rfl
theorem vjoin_mk (a b c d : Nat) : vjoin (a, b) (c, d) = (a ||| c, b ||| d) := rfl
theorem vjoin_vbot : vjoin vbot vbot = vbot := by simp [vjoin, vbot]

theorem blockTri_or (defs : List (Term Def)) (s t : Nat) :
    (blockTri U defs (s ||| t)).blk = ((blockTri U defs s).blk || (blockTri U defs t).blk) ∧
    (blockTri U defs (s ||| t)).g = vjoin (blockTri U defs s).g (blockTri U defs t).g ∧
    (blockTri U defs (s ||| t)).warn = ((blockTri U defs s).warn || (blockTri U defs t).warn) := by
  simp [blockTri, blkDefs_or, gDefs_or, vjoin]

theorem jumpTri_or (s t : Nat) (jmp : Term Jmp) (untaken : Option (Term Jmp)) :
    (jumpTri U (s ||| t) jmp untaken).blk = ((jumpTri U s jmp untaken).blk || (jumpTri U t jmp untaken).blk) ∧
    (jumpTri U (s ||| t) jmp untaken).g = vjoin (jumpTri U s jmp untaken).g (jumpTri U t jmp untaken).g ∧
    (jumpTri U (s ||| t) jmp untaken).warn = ((jumpTri U s jmp untaken).warn || (jumpTri U t jmp untaken).warn) := by
  refine ⟨?_, by simp [jumpTri, vjoin], by simp [jumpTri]⟩
  cases untaken with
  | none =>
    simp only [jumpTri, condTainted_or, Bool.or_false]
  | some u =>
    simp only [jumpTri, condTainted_or]
    generalize condTainted U s jmp = a
    generalize condTainted U t jmp = b
    generalize condTainted U s u = c
    generalize condTainted U t u = d
    cases a <;> cases b <;> cases c <;> cases d <;> rfl

theorem genericTri_or (s t : Nat) (hint : Option String) :
    (genericTri pr U (s ||| t) hint).blk = ((genericTri pr U s hint).blk || (genericTri pr U t hint).blk) ∧
    (genericTri pr U (s ||| t) hint).g = vjoin (genericTri pr U s hint).g (genericTri pr U t hint).g ∧
    (genericTri pr U (s ||| t) hint).warn = ((genericTri pr U s hint).warn || (genericTri pr U t hint).warn) := by
  simp [genericTri, genericParamsTainted_or, afterGenericCall_or, vjoin]

theorem stubTri_or (s t : Nat) (jmp : Term Jmp) :
    (stubTri pr U (s ||| t) jmp).blk = ((stubTri pr U s jmp).blk || (stubTri pr U t jmp).blk) ∧
    (stubTri pr U (s ||| t) jmp).g = vjoin (stubTri pr U s jmp).g (stubTri pr U t jmp).g ∧
    (stubTri pr U (s ||| t) jmp).warn = ((stubTri pr U s jmp).warn || (stubTri pr U t jmp).warn) := by
  unfold stubTri
  cases jmp.term with
  | Call target _ =>
    simp only
    cases pr.program.externSymbols.find? (fun sy => sy.tid == target) with
    | none => simp [vjoin_vbot]
    | some sym =>
      simp only [externParamsTainted_or]
      cases externCconv pr sym <;> simp [keepRegs_or, vjoin]
  | CallInd _ _ => exact genericTri_or pr U s t none
  | _ => simp [vjoin_vbot]

/-- **C15-distributive (edge level).** For every edge of the graph: the blocking test and the
warning test of a union of states are the disjunctions of the tests on the parts, and the propagated
state is the union of the propagated parts. -/
theorem edgeTri_join (e : Cfg.EdgeRef) (x y : V) :
    (edgeTri pr U e (vjoin x y)).blk = ((edgeTri pr U e x).blk || (edgeTri pr U e y).blk) ∧
    (edgeTri pr U e (vjoin x y)).g = vjoin (edgeTri pr U e x).g (edgeTri pr U e y).g ∧
    (edgeTri pr U e (vjoin x y)).warn = ((edgeTri pr U e x).warn || (edgeTri pr U e y).warn) := by
  obtain ⟨src, dst, label⟩ := e
  cases label with
  | Block =>
    cases src with
    | BlkStart b _ => exact blockTri_or U b.term.defs x.1 y.1
    | BlkEnd b _ => exact blockTri_or U b.term.defs x.1 y.1
    | _ => simp [edgeTri, Cfg.Node.getBlock?, vjoin_vbot]
  | Jump jmp untaken => exact jumpTri_or U x.1 y.1 jmp untaken
  | Call jmp => simp [edgeTri, vjoin_vbot, vjoin_fst, genericParamsTainted_or]
  | ExternCallStub jmp => exact stubTri_or pr U x.1 y.1 jmp
  | CrCallStub => simp [edgeTri, vjoin]
  | CrReturnStub => simp [edgeTri, vjoin]
  | CallCombine _ => simp [edgeTri, vjoin]
  | ReturnCombine callTerm =>
    cases src with
    | CallReturn c ret =>
      have h := genericTri_or pr U x.1 y.1 ret.2.term.callingConvention
      simp only [edgeTri, vjoin_fst, vjoin_snd, h.1, h.2.1, h.2.2, returnValuesTainted_or, true_and]
      generalize (genericTri pr U x.1 ret.2.term.callingConvention).warn = a
      generalize (genericTri pr U y.1 ret.2.term.callingConvention).warn = b
      generalize returnValuesTainted pr U x.2 ret.2.term.callingConvention = c
      generalize returnValuesTainted pr U y.2 ret.2.term.callingConvention = d
      cases ret.1.term.jmps.isEmpty <;> cases a <;> cases b <;> cases c <;> cases d <;> rfl
    | _ => simp [edgeTri, vjoin_vbot]

end TriLaws

/-! ## instantiation of `Flow` -/

section Inst
variable (pr : Project) (U : List Variable)

def toT (e : IEdge) : Flow.TEdge V :=
  ⟨e.src, e.dst, fun v => (edgeTri pr U e.ref v).blk, fun v => (edgeTri pr U e.ref v).g,
   fun v => (edgeTri pr U e.ref v).warn⟩

theorem laws (es : List IEdge) : Flow.Laws vjoin vbot (es.map (toT pr U)) where
  semi := vjoin_semilattice
  bot_join := vbot_vjoin
  blk_join := by
    intro e he x y
    obtain ⟨ie, _, rfl⟩ := List.mem_map.mp he
    exact (edgeTri_join pr U ie.ref x y).1
  g_join := by
    intro e he x y
    obtain ⟨ie, _, rfl⟩ := List.mem_map.mp he
    exact (edgeTri_join pr U ie.ref x y).2.1
  warn_join := by
    intro e he x y
    obtain ⟨ie, _, rfl⟩ := List.mem_map.mp he
    exact (edgeTri_join pr U ie.ref x y).2.2

theorem flow_toT (e : IEdge) (v : V) : Flow.flow vbot (toT pr U e) v = (edgeOut pr U e.ref v).next := by
  rw [edgeOut_next]
  simp only [Flow.flow, toT, norm]
  by_cases hb : (edgeTri pr U e.ref v).blk = true
  · simp [hb]
  · by_cases hg : (edgeTri pr U e.ref v).g = vbot <;> simp [hb, hg]

theorem warn_toT (e : IEdge) (v : V) : (toT pr U e).warn v = !(edgeOut pr U e.ref v).warns.isEmpty := by
  rw [edgeOut_warns]; simp [toT]

theorem pairEdges_eq (W : Nat) (e : IEdge) : pairEdges pr U W e = Flow.fEdges vbot W (toT pr U e) := by
  simp only [pairEdges, Flow.fEdges, warnEdge, flowEdge]
  congr 1
  · congr 1
    funext v
    simp only [Flow.wflow, warn_toT]
    cases (edgeOut pr U e.ref v).warns.isEmpty <;> simp
  · congr 2
    funext v
    exact (flow_toT pr U e v).symm

theorem problem_eq (es : List IEdge) (W : Nat) :
    problem pr U es W = Flow.problem vjoin vbot (es.map (toT pr U)) W := by
  simp only [problem, Flow.problem, List.flatMap_map]
  congr 1
  induction es with
  | nil => rfl
  | cons e es ih => simp only [List.flatMap_cons, ih, pairEdges_eq]

theorem pathVal_iff (es : List IEdge) (n0 : Nat) (v0 : V) (n : Nat) (v : V) :
    PathVal pr U es n0 v0 n v ↔ Flow.PathVal vbot (es.map (toT pr U)) n0 v0 n v := by
  constructor
  · intro h
    induction h with
    | init => exact .init
    | step e _ he hsrc hnext ih =>
      exact Flow.PathVal.step (toT pr U e) ih (List.mem_map.mpr ⟨e, he, rfl⟩) hsrc
        (by rw [flow_toT]; exact hnext)
  · intro h
    induction h with
    | init => exact .init
    | step e _ he hsrc hnext ih =>
      obtain ⟨ie, hie, rfl⟩ := List.mem_map.mp he
      exact PathVal.step ie ih hie hsrc (by rw [← flow_toT]; exact hnext)

theorem pathWarn_iff (es : List IEdge) (n0 : Nat) (v0 : V) :
    PathWarn pr U es n0 v0 ↔ Flow.PathWarn vbot (es.map (toT pr U)) n0 v0 := by
  constructor
  · rintro ⟨n, v, e, hp, he, hsrc, hw⟩
    refine ⟨n, v, toT pr U e, (pathVal_iff pr U es n0 v0 n v).mp hp, List.mem_map.mpr ⟨e, he, rfl⟩, hsrc, ?_⟩
    rw [warn_toT]
    cases h : (edgeOut pr U e.ref v).warns with
    | nil => exact absurd h hw
    | cons _ _ => rfl
  · rintro ⟨n, v, e, hp, he, hsrc, hw⟩
    obtain ⟨ie, hie, rfl⟩ := List.mem_map.mp he
    refine ⟨n, v, ie, (pathVal_iff pr U es n0 v0 n v).mpr hp, hie, hsrc, ?_⟩
    rw [warn_toT] at hw
    intro hc
    rw [hc] at hw
    cases hw

theorem noInterference_iff (es : List IEdge) (n0 : Nat) (v0 : V) :
    NoInterference pr U es n0 v0 ↔ Flow.NoInterference vbot (es.map (toT pr U)) n0 v0 := by
  constructor
  · intro h n x y e hx hy he hsrc hb
    obtain ⟨ie, hie, rfl⟩ := List.mem_map.mp he
    exact h n x y ie ((pathVal_iff pr U es n0 v0 n x).mpr hx) ((pathVal_iff pr U es n0 v0 n y).mpr hy) hie hsrc hb
  · intro h n x y e hx hy he hsrc hb
    exact h n x y (toT pr U e) ((pathVal_iff pr U es n0 v0 n x).mp hx) ((pathVal_iff pr U es n0 v0 n y).mp hy)
      (List.mem_map.mpr ⟨e, he, rfl⟩) hsrc hb

end Inst

/-! ## the property: warning ⇔ path -/

section Main
variable (pr : Project) (U : List Variable) (es : List IEdge) (W : Nat) (n0 : Nat) (v0 : V)

/-- the warning node is not a node of the graph -/
def FreshW : Prop := (∀ e ∈ es, e.src ≠ W ∧ e.dst ≠ W) ∧ n0 ≠ W

theorem freshW_map (h : FreshW es W n0) : ∀ e ∈ es.map (toT pr U), e.src ≠ W ∧ e.dst ≠ W := by
  intro e he
  obtain ⟨ie, hie, rfl⟩ := List.mem_map.mp he
  exact h.1 ie hie

theorem init_initState : Fix.Init (initState n0 v0) := by
  intro i a h
  by_cases hi : i = n0
  · simp [initState, hi]
  · simp [initState, hi] at h

theorem pathValM_iff (S : Nat → Option V) (n : Nat) (v : V) :
    PathValM pr U es S n0 v0 n v ↔ Flow.PathValU vbot (es.map (toT pr U)) S n0 v0 n v := by
  constructor
  · intro h
    induction h with
    | init => exact .init
    | step e _ he hsrc hub hnext ih =>
      exact Flow.PathValU.step (toT pr U e) ih (List.mem_map.mpr ⟨e, he, rfl⟩) hsrc hub
        (by rw [flow_toT]; exact hnext)
  · intro h
    induction h with
    | init => exact .init
    | step e _ he hsrc hub hnext ih =>
      obtain ⟨ie, hie, rfl⟩ := List.mem_map.mp he
      exact PathValM.step ie ih hie hsrc hub (by rw [← flow_toT]; exact hnext)

/-- **C15-sound (bounded solver).** For every program graph, every scheduler and every state the
loop of `compute_with_max_steps(k)` can be in (finished or not): if a warning was generated for the
source, then some control-flow path from the return site of the source call, along which the taint —
propagated by the per-instruction rules on that path alone — passes no conditional jump on a tainted
condition, reaches a sink (load/store through a tainted address, call with a tainted parameter
register, return of a tainted return register to a caller). -/
theorem warn_sound (hW : FreshW es W n0) {k : Nat} {c : Fix.BState V}
    (r : Fix.BRun (problem pr U es W) k (Fix.BState.start (initState n0 v0)) c)
    (hw : warned W c.st = true) : PathWarn pr U es n0 v0 := by
  rw [problem_eq] at r
  have hinv := Flow.sound_brun (laws pr U es) (freshW_map pr U es W n0 hW)
    (Flow.sinv_init (join := vjoin) (bot := vbot) (es := es.map (toT pr U)) (v0 := v0) hW.2) r
  rw [pathWarn_iff]
  simp only [warned, Option.isSome_iff_exists] at hw
  obtain ⟨b, hb⟩ := hw
  exact hinv.2 b hb

/-- **C15-sound (unbounded solver `compute`).** -/
theorem warn_sound_run (hW : FreshW es W n0) {t : Fix.State V}
    (r : Fix.Run (problem pr U es W) (initState n0 v0) t)
    (hw : warned W t = true) : PathWarn pr U es n0 v0 := by
  rw [problem_eq] at r
  have hinv := Flow.sound_run (laws pr U es) (freshW_map pr U es W n0 hW)
    (Flow.sinv_init (join := vjoin) (bot := vbot) (es := es.map (toT pr U)) (v0 := v0) hW.2) r
  rw [pathWarn_iff]
  simp only [warned, Option.isSome_iff_exists] at hw
  obtain ⟨b, hb⟩ := hw
  exact hinv.2 b hb

/-- every value of the result is a union of path states (so a register is tainted at a node only if
some path taints it there) -/
theorem values_are_path_unions (hW : FreshW es W n0) {k : Nat} {c : Fix.BState V}
    (r : Fix.BRun (problem pr U es W) k (Fix.BState.start (initState n0 v0)) c) {n : Nat} {v : V}
    (hn : n ≠ W) (hv : c.st.vals n = some v) : Flow.Gen vjoin vbot (es.map (toT pr U)) n0 v0 n v := by
  rw [problem_eq] at r
  exact (Flow.sound_brun (laws pr U es) (freshW_map pr U es W n0 hW)
    (Flow.sinv_init (join := vjoin) (bot := vbot) (es := es.map (toT pr U)) (v0 := v0) hW.2) r).1 n v hn hv

theorem brun_grows {k : Nat} {s : Fix.State V} {c : Fix.BState V}
    (r : Fix.BRun (problem pr U es W) k (Fix.BState.start s) c) :
    Fix.Assign.le (problem pr U es W) s.vals c.st.vals :=
  Fix.BRun.induction (fun u => Fix.Assign.le (problem pr U es W) s.vals u.vals) (fun _ _ h => h)
    (fun u e _ h => Fix.Assign.le_trans vjoin_semilattice h
      (Fix.updateEdge_grows (problem pr U es W) vjoin_semilattice u e))
    (Fix.Assign.le_refl vjoin_semilattice _) r

/-- **C15-complete w.r.t. the merged result.** If `compute_with_max_steps(k)` finished and gave up no
node, then every path to a sink that is not stopped with respect to its own state AND not blocked with
respect to the merged states of the result generates the warning. -/
theorem warn_complete_merged {k : Nat} {c : Fix.BState V}
    (r : Fix.BRun (problem pr U es W) k (Fix.BState.start (initState n0 v0)) c)
    (hdone : c.st.stabilized) (hstab : c.finish.stabilized)
    {n : Nat} {v : V} {e : IEdge} (hp : PathValM pr U es c.st.vals n0 v0 n v) (he : e ∈ es)
    (hsrc : e.src = n) (hw : (edgeOut pr U e.ref v).warns ≠ []) : warned W c.st = true := by
  have hcl : Fix.Closed (problem pr U es W) c.st.vals :=
    Fix.bounded_closed_of_stabilized vjoin_semilattice (init_initState n0 v0) r hdone hstab
  obtain ⟨a0, ha0, hle⟩ := brun_grows pr U es W r n0 v0 (by simp [initState])
  rw [problem_eq] at hcl
  have hwt : (toT pr U e).warn v = true := by
    rw [warn_toT]
    cases h : (edgeOut pr U e.ref v).warns with
    | nil => exact absurd h hw
    | cons _ _ => rfl
  obtain ⟨b, hb⟩ := Flow.complete_merged (laws pr U es) hcl ha0 hle
    ((pathValM_iff pr U es n0 v0 c.st.vals n v).mp hp) (List.mem_map.mpr ⟨e, he, rfl⟩) hsrc hwt
  simp [warned, hb]

/-
**C15 (the property as stated).**  For every program (graph) and every source:
    the check reports the source  ⇔  `PathWarn`.
The direction ⇒ is `warn_sound` (all programs). The direction ⇐ does NOT hold for all programs: the
solver merges the states of all paths at a node before it applies the blocking test of an out-edge,
so a conditional jump on a register that is tainted on ANOTHER path only stops this path as well
(known finding `fn-merged-check`, corpus/C15/merged_check.jsonl). It holds whenever merging cannot
do that (`NoInterference`), and in general for the paths of `warn_complete_merged`.
-/

/-- **C15-iff (partial: under `NoInterference`).** If the bounded solver finished without giving up
a node and the program has no interference for this source, the source is reported iff some
unchecked path reaches a sink. -/
theorem warn_iff_pathWarn_partial (hW : FreshW es W n0) {k : Nat} {c : Fix.BState V}
    (r : Fix.BRun (problem pr U es W) k (Fix.BState.start (initState n0 v0)) c)
    (hdone : c.st.stabilized) (hstab : c.finish.stabilized)
    (hni : NoInterference pr U es n0 v0) :
    warned W c.st = true ↔ PathWarn pr U es n0 v0 := by
  constructor
  · exact warn_sound pr U es W n0 v0 hW r
  · intro hpw
    have hcl : Fix.Closed (problem pr U es W) c.st.vals :=
      Fix.bounded_closed_of_stabilized vjoin_semilattice (init_initState n0 v0) r hdone hstab
    obtain ⟨a0, ha0, hle⟩ := brun_grows pr U es W r n0 v0 (by simp [initState])
    have r' := r
    rw [problem_eq] at hcl r'
    have hinv := Flow.sound_brun (laws pr U es) (freshW_map pr U es W n0 hW)
      (Flow.sinv_init (join := vjoin) (bot := vbot) (es := es.map (toT pr U)) (v0 := v0) hW.2) r'
    obtain ⟨b, hb⟩ := (Flow.iff_of_noInterference (laws pr U es) (freshW_map pr U es W n0 hW) hinv hcl ha0 hle
      ((noInterference_iff pr U es n0 v0).mp hni)).mpr ((pathWarn_iff pr U es n0 v0).mp hpw)
    simp [warned, hb]

end Main

/-! ## the executable solver run is a run of the abstract machine -/

section Exec
variable (pr : Project) (U : List Variable)

theorem processNode_fold (P : Fix.Problem V) (W : Nat) (p : Nat) (outs : List IEdge)
    (acc : Fix.State V × List Tid) :
    (outs.foldl (processStep pr U P W p) acc).1 =
    Fix.updateEdges P acc.1 (outs.flatMap (pairEdges pr U W)) := by
  induction outs generalizing acc with
  | nil => rfl
  | cons e outs ih =>
    rw [List.foldl_cons, ih]
    simp only [processStep, List.flatMap_cons, Fix.updateEdges, List.foldl_append]

theorem processNode_fst (P : Fix.Problem V) (W : Nat) (outs : List IEdge) (s : Fix.State V) (p : Nat) :
    (processNode pr U P W outs s p).1 = Fix.updateEdges P s (outs.flatMap (pairEdges pr U W)) :=
  processNode_fold pr U P W p outs (s, [])

/-- the out-edges of `p` in the order of `graph.edges(p)`, expanded to the edges of the problem, are
an admissible enumeration for `Base/Fix` -/
theorem outEdges_ok (es : List IEdge) (W : Nat) (p : Nat) :
    Fix.OutEdges (problem pr U es W) p ((outEdgesOf es p).flatMap (pairEdges pr U W)) := by
  constructor
  · intro fe hfe
    obtain ⟨e, he, hfe⟩ := List.mem_flatMap.mp hfe
    have he' := List.mem_filter.mp (List.mem_reverse.mp he)
    have hsrc : e.src = p := by simpa using he'.2
    refine ⟨List.mem_flatMap.mpr ⟨e, he'.1, hfe⟩, ?_⟩
    simp only [pairEdges, List.mem_cons, List.not_mem_nil, or_false] at hfe
    rcases hfe with rfl | rfl <;> simpa [warnEdge, flowEdge] using hsrc
  · intro fe hfe hsrc
    obtain ⟨e, he, hfe'⟩ := List.mem_flatMap.mp hfe
    have : e.src = p := by
      simp only [pairEdges, List.mem_cons, List.not_mem_nil, or_false] at hfe'
      rcases hfe' with rfl | rfl <;> simpa [warnEdge, flowEdge] using hsrc
    exact List.mem_flatMap.mpr ⟨e, List.mem_reverse.mpr (List.mem_filter.mpr ⟨he, by simpa using this⟩), hfe'⟩

/-- **C15-exec.** The executable model of `compute_with_max_steps` with the real scheduler (highest
priority first, out-edges in petgraph order) performs a run of the bounded abstract machine — so all
theorems above apply to what the driver computes. -/
theorem execLoop_brun (es : List IEdge) (W : Nat) (prio : List Nat) (k : Nat) :
    ∀ (fuel : Nat) (b : Fix.BState V) (ws : List Tid),
      Fix.BRun (problem pr U es W) k b
        (execLoop pr U (problem pr U es W) W (outEdgesOf es) prio k fuel b ws).1 := by
  intro fuel
  induction fuel with
  | zero => intro b ws; exact .refl b
  | succ fuel ih =>
    intro b ws
    simp only [execLoop]
    cases hp : pickNode prio b.st.wl with
    | none => exact .refl b
    | some p =>
      have hwl : b.st.wl p = true := List.find?_some hp
      simp only
      by_cases hlt : b.steps p < k
      · simp only [hlt, if_true]
        refine .step ?_ (ih _ _)
        rw [processNode_fst]
        exact Fix.BStep.process b p _ hwl hlt (outEdges_ok pr U es W p)
      · simp only [hlt, if_false]
        exact .step (Fix.BStep.giveUp b p hwl hlt) (ih _ _)

end Exec

/-! ## the executable specification decides the path specification -/

section SpecExec
variable (pr : Project) (U : List Variable) (es : List IEdge)

theorem mem_prodNext {x y : Nat × V} :
    y ∈ prodNext pr U es x ↔ ∃ e ∈ es, e.src = x.1 ∧ (edgeOut pr U e.ref x.2).next = some y.2 ∧ e.dst = y.1 := by
  simp only [prodNext, List.mem_filterMap, List.mem_filter]
  constructor
  · rintro ⟨e, ⟨he, hsrc⟩, h⟩
    refine ⟨e, he, by simpa using hsrc, ?_⟩
    cases hn : (edgeOut pr U e.ref x.2).next with
    | none => simp [hn] at h
    | some v' =>
      simp only [hn, Option.some.injEq] at h
      subst h
      exact ⟨rfl, rfl⟩
  · rintro ⟨e, he, hsrc, hn, hd⟩
    refine ⟨e, ⟨he, by simpa using hsrc⟩, ?_⟩
    simp only [hn, Option.some.injEq]
    exact Prod.ext hd rfl

theorem pathVal_iff_reach (n0 : Nat) (v0 : V) (n : Nat) (v : V) :
    PathVal pr U es n0 v0 n v ↔ Reach.Reach (prodNext pr U es) (n0, v0) (n, v) := by
  constructor
  · intro h
    induction h with
    | init => exact .refl _
    | step e _ he hsrc hn ih =>
      exact .tail ih ((mem_prodNext pr U es).mpr ⟨e, he, hsrc, hn, rfl⟩)
  · intro h
    generalize hx : (n, v) = x at h
    induction h generalizing n v with
    | refl => cases hx; exact .init
    | @tail b c _ hs ih =>
      subst hx
      obtain ⟨e, he, hsrc, hn, hd⟩ := (mem_prodNext pr U es).mp hs
      have := PathVal.step e (ih b.1 b.2 rfl) he hsrc hn
      simpa [hd] using this

/-- **C15-spec-exec.** When the product search finished, its visited set is exactly the set of
(node, path state) pairs of the path specification … -/
theorem mem_reachStates (fuel n0 : Nat) (v0 : V) (hfin : (reachStates pr U es fuel n0 v0).2 = true)
    (n : Nat) (v : V) : (n, v) ∈ (reachStates pr U es fuel n0 v0).1 ↔ PathVal pr U es n0 v0 n v := by
  have hfin' : (Reach.dfs (prodNext pr U es) fuel [(n0, v0)] []).1 = [] := by
    simpa [reachStates, List.isEmpty_iff] using hfin
  rw [pathVal_iff_reach]
  simp only [reachStates]
  rw [Reach.mem_dfs_iff _ _ _ hfin']
  simp

/-- … so `specWarnB` decides `PathWarn` … -/
theorem specWarnB_iff (fuel n0 : Nat) (v0 : V) (hfin : (reachStates pr U es fuel n0 v0).2 = true) :
    specWarnB pr U es (reachStates pr U es fuel n0 v0).1 = true ↔ PathWarn pr U es n0 v0 := by
  simp only [specWarnB, List.any_eq_true, warnsAt, List.mem_filter]
  constructor
  · rintro ⟨⟨n, v⟩, hx, e, ⟨he, hsrc⟩, hw⟩
    refine ⟨n, v, e, (mem_reachStates pr U es fuel n0 v0 hfin n v).mp hx, he, by simpa using hsrc, ?_⟩
    intro hc
    simp [hc] at hw
  · rintro ⟨n, v, e, hp, he, hsrc, hw⟩
    refine ⟨(n, v), (mem_reachStates pr U es fuel n0 v0 hfin n v).mpr hp, e, ⟨he, by simpa using hsrc⟩, ?_⟩
    cases h : (edgeOut pr U e.ref v).warns with
    | nil => exact absurd h hw
    | cons _ _ => rfl

/-- … and `interferenceB` decides `NoInterference`. -/
theorem interferenceB_iff (fuel n0 : Nat) (v0 : V) (hfin : (reachStates pr U es fuel n0 v0).2 = true) :
    interferenceB pr U es (reachStates pr U es fuel n0 v0).1 = false ↔ NoInterference pr U es n0 v0 := by
  constructor
  · intro h n x y e hx hy he hsrc hb
    cases hbx : (edgeTri pr U e.ref x).blk with
    | true => rfl
    | false =>
      have : interferenceB pr U es (reachStates pr U es fuel n0 v0).1 = true := by
        simp only [interferenceB, List.any_eq_true, List.mem_filter]
        refine ⟨(n, x), (mem_reachStates pr U es fuel n0 v0 hfin n x).mpr hx,
          (n, y), (mem_reachStates pr U es fuel n0 v0 hfin n y).mpr hy, ?_⟩
        simp only [beq_self_eq_true, Bool.true_and, List.any_eq_true, List.mem_filter]
        exact ⟨e, ⟨he, by simpa using hsrc⟩, by simp [hb, hbx]⟩
      rw [h] at this
      cases this
  · intro h
    cases hi : interferenceB pr U es (reachStates pr U es fuel n0 v0).1 with
    | false => rfl
    | true =>
      simp only [interferenceB, List.any_eq_true, List.mem_filter] at hi
      obtain ⟨⟨n, x⟩, hx, ⟨m, y⟩, hy, hi⟩ := hi
      simp only [Bool.and_eq_true, beq_iff_eq, List.any_eq_true, List.mem_filter] at hi
      obtain ⟨hnm, e, ⟨he, hsrc⟩, hb⟩ := hi
      subst hnm
      have hb' : (edgeTri pr U e.ref y).blk = true ∧ (edgeTri pr U e.ref x).blk = false := by
        simpa using hb
      have := h n x y e ((mem_reachStates pr U es fuel n0 v0 hfin n x).mp hx)
        ((mem_reachStates pr U es fuel n0 v0 hfin n y).mp hy) he (by simpa using hsrc) hb'.1
      rw [hb'.2] at this
      cases this

end SpecExec

/-! ## dedup of the warnings by source address -/

theorem mem_uniq (l : List String) (a : String) : a ∈ uniq l ↔ a ∈ l := by
  induction l with
  | nil => simp [uniq]
  | cons b l ih =>
    simp only [uniq]
    by_cases hb : b ∈ uniq l
    · simp only [hb, if_true, List.mem_cons, ih]
      constructor
      · exact Or.inr
      · rintro (rfl | h)
        · exact ih.mp hb
        · exact h
    · simp only [hb, if_false, List.mem_cons, ih]

theorem nodup_uniq (l : List String) : (uniq l).Nodup := by
  induction l with
  | nil => simp [uniq]
  | cons b l ih =>
    simp only [uniq]
    by_cases hb : b ∈ uniq l
    · simpa [hb] using ih
    · simp only [hb, if_false]
      exact List.nodup_cons.mpr ⟨hb, ih⟩

/-- the addresses of the reported warnings are exactly the sorted distinct source addresses -/
theorem dedupByAddr_addrs (ws : List Warning) :
    (dedupByAddr ws).map (·.srcAddr) = (uniq (ws.map (·.srcAddr))).mergeSort (fun a b => !(b < a)) := by
  simp only [dedupByAddr]
  have hmem : ∀ a ∈ (uniq (ws.map (·.srcAddr))).mergeSort (fun a b => !(b < a)), a ∈ ws.map (·.srcAddr) := by
    intro a ha
    exact (mem_uniq _ a).mp (List.mem_mergeSort.mp ha)
  generalize (uniq (ws.map (·.srcAddr))).mergeSort (fun a b => !(b < a)) = sorted at hmem
  induction sorted with
  | nil => rfl
  | cons a as ih =>
    have ha := hmem a (List.mem_cons_self ..)
    obtain ⟨w, hw, hwa⟩ := List.mem_map.mp ha
    have : (ws.reverse.find? (fun w' => w'.srcAddr == a)).isSome = true :=
      List.find?_isSome.mpr ⟨w, List.mem_reverse.mpr hw, by simp [hwa]⟩
    obtain ⟨w', hw'⟩ := Option.isSome_iff_exists.mp this
    have hw'a : w'.srcAddr = a := by simpa using List.find?_some hw'
    simp only [List.filterMap_cons, hw', List.map_cons, hw'a]
    rw [ih (fun b hb => hmem b (List.mem_cons_of_mem _ hb))]

/-- **C15-dedup.** `check_cwe` reports every source address at most once, … -/
theorem dedupByAddr_nodup (ws : List Warning) : ((dedupByAddr ws).map (·.srcAddr)).Nodup := by
  rw [dedupByAddr_addrs]
  exact (List.mergeSort_perm _ _).nodup_iff.mpr (nodup_uniq _)

/-- … an address is reported iff some warning was generated for it, … -/
theorem dedupByAddr_addr (ws : List Warning) (a : String) :
    a ∈ (dedupByAddr ws).map (·.srcAddr) ↔ a ∈ ws.map (·.srcAddr) := by
  rw [dedupByAddr_addrs, List.mem_mergeSort, mem_uniq]

/-- … and every reported warning is one of the generated ones. -/
theorem dedupByAddr_sub (ws : List Warning) (w : Warning) (h : w ∈ dedupByAddr ws) : w ∈ ws := by
  simp only [dedupByAddr, List.mem_filterMap] at h
  obtain ⟨a, _, hf⟩ := h
  exact List.mem_reverse.mp (List.mem_of_find?_eq_some hf)

/-! ## the warning list of the executable model and the warning node agree -/

section Consistency
variable (pr : Project) (U : List Variable)

theorem vals_updateEdge_other (P : Fix.Problem V) (s : Fix.State V) (fe : Fix.Edge V) (i : Nat)
    (hi : i ≠ fe.dst) : (Fix.updateEdge P s fe).vals i = s.vals i := by
  unfold Fix.updateEdge
  cases s.vals fe.src with
  | none => rfl
  | some a =>
    simp only
    cases fe.f a with
    | none => rfl
    | some x =>
      simp only [Fix.mergeNodeValue]
      cases s.vals fe.dst with
      | none => simp [Fix.State.setNodeValue, hi]
      | some old =>
        simp only
        split
        · simp [Fix.State.setNodeValue, hi]
        · rfl

theorem isSome_updateEdge_warn (P : Fix.Problem V) (s : Fix.State V) (W : Nat) (e : IEdge) :
    ((Fix.updateEdge P s (warnEdge pr U W e)).vals W).isSome =
      ((s.vals W).isSome ||
        (match s.vals e.src with
          | some v => !(edgeOut pr U e.ref v).warns.isEmpty
          | none => false)) := by
  unfold Fix.updateEdge
  simp only [warnEdge]
  cases hsrc : s.vals e.src with
  | none => simp
  | some a =>
    simp only
    cases hw : (edgeOut pr U e.ref a).warns.isEmpty with
    | true => simp
    | false =>
      simp only [Fix.mergeNodeValue, Bool.false_eq_true, if_false]
      cases hW : s.vals W with
      | none => simp [Fix.State.setNodeValue]
      | some old =>
        simp only
        split
        · simp [Fix.State.setNodeValue]
        · simp [hW]

theorem processStep_consistent (P : Fix.Problem V) (W : Nat) (p : Nat) (e : IEdge)
    (he : e.src = p ∧ e.dst ≠ W) (acc : Fix.State V × List Tid) :
    ∃ ws, (processStep pr U P W p acc e).2 = acc.2 ++ ws ∧
      ((processStep pr U P W p acc e).1.vals W).isSome = ((acc.1.vals W).isSome || !ws.isEmpty) := by
  refine ⟨_, rfl, ?_⟩
  simp only [processStep, pairEdges, Fix.updateEdges, List.foldl_cons, List.foldl_nil]
  have hflow : ((Fix.updateEdge P (Fix.updateEdge P acc.1 (warnEdge pr U W e)) (flowEdge pr U e)).vals W) =
      (Fix.updateEdge P acc.1 (warnEdge pr U W e)).vals W :=
    vals_updateEdge_other P _ _ W (by simpa [flowEdge] using fun h => he.2 h.symm)
  rw [hflow, isSome_updateEdge_warn, he.1]
  cases acc.1.vals p <;> simp

/-- one `update_node`: the warning node has a value afterwards iff it had one before or a warning was
generated -/
theorem processNode_consistent (P : Fix.Problem V) (W : Nat) (p : Nat) (outs : List IEdge)
    (houts : ∀ e ∈ outs, e.src = p ∧ e.dst ≠ W) (s : Fix.State V) :
    ((processNode pr U P W outs s p).1.vals W).isSome =
      ((s.vals W).isSome || !(processNode pr U P W outs s p).2.isEmpty) := by
  unfold processNode
  suffices h : ∀ (acc : Fix.State V × List Tid), ∃ extra,
      (outs.foldl (processStep pr U P W p) acc).2 = acc.2 ++ extra ∧
      ((outs.foldl (processStep pr U P W p) acc).1.vals W).isSome = ((acc.1.vals W).isSome || !extra.isEmpty) by
    obtain ⟨extra, h2, h1⟩ := h (s, [])
    rw [h1, h2]; simp
  induction outs with
  | nil => intro acc; exact ⟨[], by simp, by simp⟩
  | cons e outs ih =>
    intro acc
    rw [List.foldl_cons]
    obtain ⟨ws, hw2, hw1⟩ := processStep_consistent pr U P W p e (houts e (List.mem_cons_self ..)) acc
    obtain ⟨extra, hx2, hx1⟩ := ih (fun e' he' => houts e' (List.mem_cons_of_mem _ he')) (processStep pr U P W p acc e)
    refine ⟨ws ++ extra, by rw [hx2, hw2, List.append_assoc], ?_⟩
    rw [hx1, hw1]
    cases ws <;> cases extra <;> simp

/-- **C15-exec-warnings.** The executable solver returns a non-empty list of sinks iff the warning
node has a value at the end (so `warn_sound`/`warn_complete_merged` speak about the reported warnings). -/
theorem execLoop_consistent (es : List IEdge) (W : Nat) (hW : ∀ e ∈ es, e.src ≠ W ∧ e.dst ≠ W)
    (prio : List Nat) (k : Nat) :
    ∀ (fuel : Nat) (b : Fix.BState V) (ws : List Tid),
      (b.st.vals W).isSome = !ws.isEmpty →
      ((execLoop pr U (problem pr U es W) W (outEdgesOf es) prio k fuel b ws).1.st.vals W).isSome =
        !(execLoop pr U (problem pr U es W) W (outEdgesOf es) prio k fuel b ws).2.isEmpty := by
  intro fuel
  induction fuel with
  | zero => intro b ws h; exact h
  | succ fuel ih =>
    intro b ws h
    simp only [execLoop]
    cases hp : pickNode prio b.st.wl with
    | none => exact h
    | some p =>
      simp only
      by_cases hlt : b.steps p < k
      · simp only [hlt, if_true]
        apply ih
        simp only
        have houts : ∀ e ∈ outEdgesOf es p, e.src = p ∧ e.dst ≠ W := by
          intro e he
          have he' := List.mem_filter.mp (List.mem_reverse.mp he)
          exact ⟨by simpa using he'.2, (hW e he'.1).2⟩
        rw [processNode_consistent pr U _ W p _ houts]
        have : (b.st.remove p).vals W = b.st.vals W := rfl
        rw [this, h]
        cases ws <;> cases (processNode pr U (problem pr U es W) W (outEdgesOf es p) (b.st.remove p) p).2 <;> simp
      · simp only [hlt, if_false]
        exact ih _ _ h

end Consistency

/-! ## "finished" for the executable solver -/

section Finished
variable (pr : Project) (U : List Variable) (es : List IEdge) (W : Nat)

theorem wl_updateEdge (P : Fix.Problem V) (s : Fix.State V) (fe : Fix.Edge V) (i : Nat)
    (h : (Fix.updateEdge P s fe).wl i = true) : s.wl i = true ∨ i = fe.dst := by
  unfold Fix.updateEdge at h
  cases hs : s.vals fe.src with
  | none => simp [hs] at h; exact .inl h
  | some a =>
    simp only [hs] at h
    cases hf : fe.f a with
    | none => simp [hf] at h; exact .inl h
    | some x =>
      simp only [hf, Fix.mergeNodeValue] at h
      by_cases hi : i = fe.dst
      · exact .inr hi
      · left
        cases hd : s.vals fe.dst with
        | none => simpa [hd, Fix.State.setNodeValue, hi] using h
        | some old =>
          simp only [hd] at h
          split at h
          · simpa [Fix.State.setNodeValue, hi] using h
          · exact h

/-- worklist and given-up set stay inside the priority list -/
theorem brun_wl_sub (prio : List Nat) (hprio : ∀ e ∈ es, e.dst ∈ prio) (hWp : W ∈ prio) {k : Nat}
    {b c : Fix.BState V} (r : Fix.BRun (problem pr U es W) k b c)
    (hb : ∀ i, b.st.wl i = true → i ∈ prio) : ∀ i, c.st.wl i = true → i ∈ prio := by
  refine Fix.BRun.induction (P := problem pr U es W) (fun u => ∀ i, u.wl i = true → i ∈ prio) ?_ ?_ hb r
  · intro s p h i hi
    by_cases hip : i = p
    · simp [Fix.State.remove, hip] at hi
    · exact h i (by simpa [Fix.State.remove, hip] using hi)
  · intro s fe hfe h i hi
    rcases wl_updateEdge _ s fe i hi with h1 | h1
    · exact h i h1
    · subst h1
      obtain ⟨e, he, hfe'⟩ := List.mem_flatMap.mp hfe
      simp only [pairEdges, List.mem_cons, List.not_mem_nil, or_false] at hfe'
      rcases hfe' with rfl | rfl
      · exact hWp
      · exact hprio e he

theorem stabilized_of_pickNode_none (prio : List Nat) (s : Fix.State V)
    (hsub : ∀ i, s.wl i = true → i ∈ prio) (h : pickNode prio s.wl = none) : s.stabilized := by
  intro i
  cases hi : s.wl i with
  | false => rfl
  | true =>
    have := List.find?_eq_none.mp h i (List.mem_reverse.mpr (hsub i hi))
    exact absurd hi this

theorem brun_nonStab_sub (prio : List Nat) (hprio : ∀ e ∈ es, e.dst ∈ prio) (hWp : W ∈ prio) {k : Nat}
    {b c : Fix.BState V} (r : Fix.BRun (problem pr U es W) k b c)
    (hb : ∀ i, b.st.wl i = true → i ∈ prio) (hn : ∀ i, b.nonStab i = true → i ∈ prio) :
    ∀ i, c.nonStab i = true → i ∈ prio := by
  induction r with
  | refl => exact hn
  | @step b c d hst _ ih =>
    have hwl := brun_wl_sub pr U es W prio hprio hWp (.step hst (.refl c)) hb
    apply ih hwl
    cases hst with
    | process p es' _ _ _ => exact hn
    | giveUp p hp _ =>
      intro i hi
      by_cases hip : i = p
      · subst hip; exact hb i hp
      · exact hn i (by simpa [hip] using hi)

/-- the decidable test `execOk` implies the two "finished" hypotheses of the theorems -/
theorem finished_of_execOk (prio : List Nat) (hprio : ∀ e ∈ es, e.dst ∈ prio) (hWp : W ∈ prio) {k : Nat}
    {n0 : Nat} {v0 : V} (hn0 : n0 ∈ prio) {c : Fix.BState V}
    (r : Fix.BRun (problem pr U es W) k (Fix.BState.start (initState n0 v0)) c)
    (hok : execOk prio c = true) : c.st.stabilized ∧ c.finish.stabilized := by
  simp only [execOk, Bool.and_eq_true, Option.isNone_iff_eq_none, List.all_eq_true] at hok
  have hb : ∀ i, (Fix.BState.start (initState n0 v0)).st.wl i = true → i ∈ prio := by
    intro i hi
    have : i = n0 := by simpa [Fix.BState.start, initState] using hi
    subst this; exact hn0
  have hn : ∀ i, (Fix.BState.start (initState n0 v0)).nonStab i = true → i ∈ prio := by
    intro i hi; simp [Fix.BState.start] at hi
  refine ⟨stabilized_of_pickNode_none prio c.st (brun_wl_sub pr U es W prio hprio hWp r hb) hok.1, ?_⟩
  intro i
  cases hi : c.nonStab i with
  | false => simpa [Fix.BState.finish] using hi
  | true =>
    have := hok.2 i (brun_nonStab_sub pr U es W prio hprio hWp r hb hn i hi)
    simp [hi] at this

end Finished

/-! ## `check_cwe` as a whole -/

section Top
variable (pr : Project) (U : List Variable) (es : List IEdge) (W : Nat)

theorem source_edge_mem (syms : List String) (src : Source) (h : src ∈ sourcesOf pr syms es) :
    src.edge ∈ es := by
  simp only [sourcesOf, List.mem_filterMap] at h
  obtain ⟨e, he, h⟩ := h
  split at h
  · split at h
    · split at h
      · simp only [Option.some.injEq] at h
        subst h
        exact he
      · cases h
    · cases h
  · cases h

theorem mem_sourceWarnings (src : Source) (sinks : List Tid) (w : Warning) (h : w ∈ sourceWarnings src sinks) :
    w.srcAddr = src.call.tid.address ∧ sinks ≠ [] := by
  simp only [sourceWarnings, List.mem_map] at h
  obtain ⟨t, ht, rfl⟩ := h
  exact ⟨rfl, List.ne_nil_of_mem ht⟩

/-- **C15-check-sound.** Every source address the (executable model of the) check reports belongs to a
call of a configured symbol from whose return site an unchecked path reaches a sink. Holds for every
program, every priority order and every step bound. -/
theorem checkCwe_sound (hW : ∀ e ∈ es, e.src ≠ W ∧ e.dst ≠ W) (prio : List Nat) (k fuel : Nat)
    (syms : List String) (a : String)
    (ha : a ∈ (checkCwe pr U es W prio (outEdgesOf es) k fuel syms).map (·.srcAddr)) :
    ∃ src ∈ sourcesOf pr syms es, src.call.tid.address = a ∧
      PathWarn pr U es src.edge.dst (sourceInit U src) := by
  rw [checkCwe, dedupByAddr_addr] at ha
  obtain ⟨w, hw, rfl⟩ := List.mem_map.mp ha
  obtain ⟨src, hsrc, hw⟩ := List.mem_flatMap.mp hw
  obtain ⟨haddr, hne⟩ := mem_sourceWarnings src _ w hw
  refine ⟨src, hsrc, haddr.symm, ?_⟩
  have hfresh : FreshW es W src.edge.dst := ⟨hW, (hW _ (source_edge_mem pr es syms src hsrc)).2⟩
  have hinit : ((Fix.BState.start (initState src.edge.dst (sourceInit U src))).st.vals W).isSome
      = !([] : List Tid).isEmpty := by
    have : ¬ W = src.edge.dst := fun h => hfresh.2 h.symm
    simp [Fix.BState.start, initState, this]
  have hcons := execLoop_consistent pr U es W hW prio k fuel _ [] hinit
  have hwarned : warned W (runSourceExec pr U es W prio (outEdgesOf es) k fuel src).1.st = true := by
    simp only [warned, runSourceExec]
    rw [hcons]
    cases h : (execLoop pr U (problem pr U es W) W (outEdgesOf es) prio k fuel
      (Fix.BState.start (initState src.edge.dst (sourceInit U src))) []).2 with
    | nil => exact absurd h hne
    | cons _ _ => rfl
  exact warn_sound pr U es W _ _ hfresh (execLoop_brun pr U es W prio k fuel _ []) hwarned

/-- **C15-check-complete (partial: `NoInterference`, solver finished without giving up a node).**
A source from whose return site an unchecked path reaches a sink is reported. -/
theorem checkCwe_complete_partial (hW : ∀ e ∈ es, e.src ≠ W ∧ e.dst ≠ W) (prio : List Nat) (k fuel : Nat)
    (syms : List String) (src : Source) (hsrc : src ∈ sourcesOf pr syms es)
    (hdone : (runSourceExec pr U es W prio (outEdgesOf es) k fuel src).1.st.stabilized)
    (hstab : (runSourceExec pr U es W prio (outEdgesOf es) k fuel src).1.finish.stabilized)
    (hni : NoInterference pr U es src.edge.dst (sourceInit U src))
    (hpw : PathWarn pr U es src.edge.dst (sourceInit U src)) :
    src.call.tid.address ∈ (checkCwe pr U es W prio (outEdgesOf es) k fuel syms).map (·.srcAddr) := by
  have hfresh : FreshW es W src.edge.dst := ⟨hW, (hW _ (source_edge_mem pr es syms src hsrc)).2⟩
  have hwarned := (warn_iff_pathWarn_partial pr U es W _ _ hfresh
    (execLoop_brun pr U es W prio k fuel _ []) hdone hstab hni).mpr hpw
  have hinit : ((Fix.BState.start (initState src.edge.dst (sourceInit U src))).st.vals W).isSome
      = !([] : List Tid).isEmpty := by
    have : ¬ W = src.edge.dst := fun h => hfresh.2 h.symm
    simp [Fix.BState.start, initState, this]
  have hcons := execLoop_consistent pr U es W hW prio k fuel _ [] hinit
  simp only [warned] at hwarned
  rw [hcons] at hwarned
  rw [checkCwe, dedupByAddr_addr]
  cases hs : (runSourceExec pr U es W prio (outEdgesOf es) k fuel src).2 with
  | nil =>
    simp only [runSourceExec] at hs
    simp [hs] at hwarned
  | cons t ts =>
    refine List.mem_map.mpr ⟨⟨src.call.tid.address, src.call.tid.id, t.id, src.sym.name⟩, ?_, rfl⟩
    refine List.mem_flatMap.mpr ⟨src, hsrc, ?_⟩
    simp [sourceWarnings, hs]

/-- **C15-check-complete, executable form (partial: `NoInterference`).** With the decidable finish
test of the driver instead of the abstract "stabilized" hypotheses. -/
theorem checkCwe_complete_exec_partial (hW : ∀ e ∈ es, e.src ≠ W ∧ e.dst ≠ W) (prio : List Nat)
    (hprio : ∀ e ∈ es, e.dst ∈ prio) (hWp : W ∈ prio) (k fuel : Nat)
    (syms : List String) (src : Source) (hsrc : src ∈ sourcesOf pr syms es)
    (hok : execOk prio (runSourceExec pr U es W prio (outEdgesOf es) k fuel src).1 = true)
    (hni : NoInterference pr U es src.edge.dst (sourceInit U src))
    (hpw : PathWarn pr U es src.edge.dst (sourceInit U src)) :
    src.call.tid.address ∈ (checkCwe pr U es W prio (outEdgesOf es) k fuel syms).map (·.srcAddr) := by
  have hfin := finished_of_execOk pr U es W prio hprio hWp
    (hprio _ (source_edge_mem pr es syms src hsrc))
    (execLoop_brun pr U es W prio k fuel (Fix.BState.start (initState src.edge.dst (sourceInit U src))) []) hok
  exact checkCwe_complete_partial pr U es W hW prio k fuel syms src hsrc hfin.1 hfin.2 hni hpw

end Top

/-! ## examples: the hypotheses are satisfiable, and `NoInterference` cannot be dropped -/

namespace Ex
def v (n : String) (s : Nat := 8) : Variable := ⟨n, s, false⟩
def t (s : String) : Tid := ⟨s, "UNKNOWN"⟩
def mallocSym : ExternSymbol :=
  { tid := t "sym_malloc", addresses := [], name := "malloc", callingConvention := some "__stdcall",
    parameters := [.Register (.Var (v "RDI")) none], returnValues := [.Register (.Var (v "RAX")) none],
    noReturn := false, hasVarArgs := false }
def blk (id : String) (defs : List (Term Def)) (jmps : List (Term Jmp)) : Term Blk :=
  ⟨t id, { defs := defs, jmps := jmps }⟩
def cc : CallingConvention :=
  { name := "__stdcall", integerParameterRegister := [v "RDI", v "RSI"], floatParameterRegister := [],
    integerReturnRegister := [v "RAX"], floatReturnRegister := [], calleeSavedRegister := [v "RBX"] }
def mkProject (blocks : List (Term Blk)) : Project :=
  { program := { subs := [⟨t "f0", { name := "f0", blocks := blocks }⟩], externSymbols := [mallocSym], entryPoints := [] },
    cpuArchitecture := "x86_64", stackPointerRegister := v "RSP", callingConventions := [cc], registerSet := [],
    datatypeProperties := ⟨1, 8, 4, 4, 8, 8, 8, 8, 2⟩ }
def U : List Variable := [v "RAX", v "RBX", v "RCX", v "ZF" 1, v "CF" 1, v "RDI", v "RSI", v "R11"]
def callMalloc : Term Jmp := ⟨⟨"call_malloc", "00001000"⟩, .Call (t "sym_malloc") (some (t "b1"))⟩
def ret (id : String) : Term Jmp := ⟨t id, .Return (.Var (v "R11"))⟩
def zfOf (id reg : String) : Term Def :=
  ⟨t id, .Assign (v "ZF" 1) (.BinOp .IntEqual (.Var (v reg)) (.Const 8 0))⟩

/-- `p = malloc(); *p = 1;` -/
def prA : Project := mkProject
  [blk "b0" [] [callMalloc],
   blk "b1" [⟨t "d1", .Store (.Var (v "RAX")) (.Const 8 1)⟩] [ret "j1"]]
def esA : List IEdge := indexEdges (Cfg.buildCfg prA.program)
def prioA : List Nat := [4, 3, 2, 1, 0]

/-- the value is checked on one path only and the paths join BEFORE the check
(`corpus/C15/merged_check.jsonl`):
`b1: if CF goto b2 else b3;  b2: RBX := RAX; RAX := 0; goto b4;  b3: goto b4;
 b4: ZF := RBX == 0; if ZF goto b5 else b6;  b5: RCX := load RAX` -/
def prB : Project := mkProject
  [blk "b0" [] [callMalloc],
   blk "b1" [] [⟨t "j1a", .CBranch (t "b2") (.Var (v "CF" 1))⟩, ⟨t "j1b", .Branch (t "b3")⟩],
   blk "b2" [⟨t "d2a", .Assign (v "RBX") (.Var (v "RAX"))⟩, ⟨t "d2b", .Assign (v "RAX") (.Const 8 0)⟩]
     [⟨t "j2", .Branch (t "b4")⟩],
   blk "b3" [] [⟨t "j3", .Branch (t "b4")⟩],
   blk "b4" [zfOf "d4" "RBX"] [⟨t "j4a", .CBranch (t "b5") (.Var (v "ZF" 1))⟩, ⟨t "j4b", .Branch (t "b6")⟩],
   blk "b5" [⟨t "d5", .Load (v "RCX") (.Var (v "RAX"))⟩] [ret "j5"],
   blk "b6" [] [ret "j6"]]
def esB : List IEdge := indexEdges (Cfg.buildCfg prB.program)
/-- `kosaraju_scc` order of the real graph (exported by the harness), warning node first -/
def prioB : List Nat := [14, 13, 12, 11, 10, 9, 8, 7, 6, 5, 4, 3, 2, 1, 0]
def finalB : Fix.BState V × List Tid :=
  execLoop prB U (problem prB U esB 14) 14 (outEdgesOf esB) prioB 100 60
    (Fix.BState.start (initState 2 (1, 0))) []
end Ex

open Ex in
set_option maxRecDepth 100000 in
/-- non-vacuity: program A satisfies all hypotheses of `checkCwe_complete_exec_partial` … -/
example : (∀ e ∈ esA, e.src ≠ 4 ∧ e.dst ≠ 4) ∧ (∀ e ∈ esA, e.dst ∈ prioA) ∧
    (sourcesOf prA ["malloc"] esA).length = 1 ∧
    (∀ src ∈ sourcesOf prA ["malloc"] esA,
      execOk prioA (runSourceExec prA U esA 4 prioA (outEdgesOf esA) 100 40 src).1 = true ∧
      src.edge.dst = 2 ∧ sourceInit U src = (1, 0)) := by decide

open Ex in
set_option maxRecDepth 100000 in
/-- … including `NoInterference` and `PathWarn`, so the source is reported. -/
example : NoInterference prA U esA 2 (1, 0) ∧ PathWarn prA U esA 2 (1, 0) :=
  have hfin : (reachStates prA U esA 40 2 (1, 0)).2 = true := by decide
  ⟨(interferenceB_iff prA U esA 40 2 (1, 0) hfin).mp (by decide),
   (specWarnB_iff prA U esA 40 2 (1, 0) hfin).mp (by decide)⟩

open Ex in
set_option maxRecDepth 100000 in
/-- **C15-counterexample (why the iff is only `_partial`).** For program B the path specification
holds — the path `b1, b3, b4, b5` passes no conditional jump on a tainted condition and dereferences
`RAX` —, the solver (real scheduler) finishes without giving up a node, and NO warning is generated;
the program has interference. The real implementation behaves the same (known finding
`fn-merged-check`). -/
theorem merged_check_counterexample :
    PathWarn prB U esB 2 (1, 0) ∧ ¬ NoInterference prB U esB 2 (1, 0) ∧
    execOk prioB finalB.1 = true ∧ finalB.2 = [] ∧ warned 14 finalB.1.st = false := by
  have hfin : (reachStates prB U esB 60 2 (1, 0)).2 = true := by decide
  refine ⟨(specWarnB_iff prB U esB 60 2 (1, 0) hfin).mp (by decide), ?_, by decide, by decide, by decide⟩
  intro h
  have := (interferenceB_iff prB U esB 60 2 (1, 0) hfin).mpr h
  revert this
  decide

end CweModel.C15
