/-
C15/Flow — "blocking distributive" dataflow problems: MFP versus MOP.

An edge transfer is given by three functions of the node value,
  `blk` (the flow is stopped: conditional jump on a tainted condition, or a sink),
  `g`   (the set transformer applied otherwise),
  `warn` (evaluating the edge on this value generates a warning),
and the transfer is `flow e x = if blk x then none else if g x = ⊥ then none else some (g x)`.
`g` distributes over joins and `blk`/`warn` are join-prime (`Laws`): every element of a value is
propagated, blocks and warns independently of the others. Such a system is NOT monotone in the sense
of `Base/Fix` (a larger value may be blocked where a smaller one passes), so the worklist result is
not a least fixpoint in general. What holds, for EVERY scheduler and every step bound:

  * `sound`            every value the solver ever stores is a join of values of complete paths,
                       hence a generated warning is justified by one path (`PathWarn`);
  * `complete_merged`  a path that is not blocked with respect to the final, merged node values
                       contributes its value to the result, and its warning is generated;
  * `path_unblocked_of_noInterference` + `iff_of_noInterference`
                       if merging never blocks a path that would not be blocked on its own
                       (`NoInterference`), the solver warns iff some path warns (MFP = MOP).

Warnings are modelled as edges into one extra node `W`. Core only.
-/
import CweModel.Base.Fix

namespace CweModel.C15.Flow
open CweModel

structure TEdge (V : Type) where
  src : Nat
  dst : Nat
  blk : V → Bool
  g : V → V
  warn : V → Bool

section
variable {V : Type} [DecidableEq V] (join : V → V → V) (bot : V)

def flow (e : TEdge V) (x : V) : Option V :=
  if e.blk x then none else if e.g x = bot then none else some (e.g x)

def wflow (e : TEdge V) (x : V) : Option V := if e.warn x then some x else none

def fEdges (W : Nat) (e : TEdge V) : List (Fix.Edge V) :=
  [⟨e.src, W, wflow e⟩, ⟨e.src, e.dst, flow bot e⟩]

def problem (es : List (TEdge V)) (W : Nat) : Fix.Problem V :=
  { edges := es.flatMap (fEdges bot W), join := join }

structure Laws (es : List (TEdge V)) : Prop where
  semi : Fix.IsSemilattice join
  bot_join : ∀ x, join bot x = x
  blk_join : ∀ e ∈ es, ∀ x y, e.blk (join x y) = (e.blk x || e.blk y)
  g_join : ∀ e ∈ es, ∀ x y, e.g (join x y) = join (e.g x) (e.g y)
  warn_join : ∀ e ∈ es, ∀ x y, e.warn (join x y) = (e.warn x || e.warn y)

/-- value carried to node `n` by some path from `(n0, v0)` none of whose edges stops it -/
inductive PathVal (es : List (TEdge V)) (n0 : Nat) (v0 : V) : Nat → V → Prop where
  | init : PathVal es n0 v0 n0 v0
  | step {n : Nat} {v v' : V} (e : TEdge V) : PathVal es n0 v0 n v → e ∈ es → e.src = n →
      flow bot e v = some v' → PathVal es n0 v0 e.dst v'

def PathWarn (es : List (TEdge V)) (n0 : Nat) (v0 : V) : Prop :=
  ∃ n v e, PathVal bot es n0 v0 n v ∧ e ∈ es ∧ e.src = n ∧ e.warn v = true

/-- finite joins of path values -/
inductive Gen (es : List (TEdge V)) (n0 : Nat) (v0 : V) : Nat → V → Prop where
  | base {n : Nat} {x : V} : PathVal bot es n0 v0 n x → Gen es n0 v0 n x
  | join {n : Nat} {x y : V} : Gen es n0 v0 n x → Gen es n0 v0 n y → Gen es n0 v0 n (join x y)

/-- paths that are not blocked with respect to the node values `S` -/
inductive PathValU (es : List (TEdge V)) (S : Fix.Assign V) (n0 : Nat) (v0 : V) : Nat → V → Prop where
  | init : PathValU es S n0 v0 n0 v0
  | step {n : Nat} {v v' : V} (e : TEdge V) : PathValU es S n0 v0 n v → e ∈ es → e.src = n →
      (∀ a, S n = some a → e.blk a = false) → flow bot e v = some v' → PathValU es S n0 v0 e.dst v'

/-- merging never blocks: an out-edge that blocks one path value at a node blocks all of them -/
def NoInterference (es : List (TEdge V)) (n0 : Nat) (v0 : V) : Prop :=
  ∀ n x y e, PathVal bot es n0 v0 n x → PathVal bot es n0 v0 n y → e ∈ es → e.src = n →
    e.blk y = true → e.blk x = true

variable {join bot}
variable {es : List (TEdge V)} {n0 : Nat} {v0 : V}

omit [DecidableEq V] in
theorem join_bot (hL : Laws join bot es) (x : V) : join x bot = x := by
  rw [hL.semi.comm, hL.bot_join]

theorem flow_some {e : TEdge V} {x z : V} (h : flow bot e x = some z) :
    e.blk x = false ∧ e.g x ≠ bot ∧ z = e.g x := by
  unfold flow at h
  by_cases hb : e.blk x = true
  · simp [hb] at h
  · by_cases hg : e.g x = bot
    · simp [hb, hg] at h
    · simp [hb, hg] at h
      exact ⟨by simpa using hb, hg, h.symm⟩

theorem flow_of {e : TEdge V} {x : V} (hb : e.blk x = false) (hg : e.g x ≠ bot) :
    flow bot e x = some (e.g x) := by
  simp [flow, hb, hg]

/-- a transfer that lets a join of path values through lets through (the non-vanishing ones of) the
path values, and its result is the join of their results -/
theorem gen_flow (hL : Laws join bot es) {e : TEdge V} (he : e ∈ es) {v : V}
    (hg : Gen join bot es n0 v0 e.src v) : ∀ z, flow bot e v = some z → Gen join bot es n0 v0 e.dst z := by
  generalize hn : e.src = n at hg
  induction hg with
  | base hp =>
    intro z hz
    exact .base (.step e hp he hn hz)
  | @join x y _ _ ihx ihy =>
    intro z hz
    obtain ⟨hb, hgz, rfl⟩ := flow_some hz
    rw [hL.blk_join e he] at hb
    have hbx : e.blk x = false := by
      cases h : e.blk x <;> simp [h] at hb ⊢
    have hby : e.blk y = false := by
      cases h : e.blk y <;> simp [h] at hb ⊢
    rw [hL.g_join e he] at hgz ⊢
    by_cases hx : e.g x = bot
    · rw [hx, hL.bot_join] at hgz ⊢
      exact ihy _ (flow_of hby hgz)
    · by_cases hy : e.g y = bot
      · rw [hy, join_bot hL] at hgz ⊢
        exact ihx _ (flow_of hbx hgz)
      · exact .join (ihx _ (flow_of hbx hx)) (ihy _ (flow_of hby hy))

theorem gen_warn (hL : Laws join bot es) {e : TEdge V} (he : e ∈ es) {n : Nat} {v : V}
    (hg : Gen join bot es n0 v0 n v) (hw : e.warn v = true) :
    ∃ x, PathVal bot es n0 v0 n x ∧ e.warn x = true := by
  induction hg with
  | base hp => exact ⟨_, hp, hw⟩
  | join _ _ ihx ihy =>
    rw [hL.warn_join e he, Bool.or_eq_true] at hw
    rcases hw with h | h
    · exact ihx h
    · exact ihy h

theorem gen_blk (hL : Laws join bot es) {e : TEdge V} (he : e ∈ es) {n : Nat} {v : V}
    (hg : Gen join bot es n0 v0 n v) (hw : e.blk v = true) :
    ∃ x, PathVal bot es n0 v0 n x ∧ e.blk x = true := by
  induction hg with
  | base hp => exact ⟨_, hp, hw⟩
  | join _ _ ihx ihy =>
    rw [hL.blk_join e he, Bool.or_eq_true] at hw
    rcases hw with h | h
    · exact ihx h
    · exact ihy h

/-! ### soundness -/

/-- every stored value is a join of path values; the warning node has a value only if a path warns -/
def SInv (join : V → V → V) (bot : V) (es : List (TEdge V)) (n0 : Nat) (v0 : V) (W : Nat)
    (s : Fix.State V) : Prop :=
  (∀ n v, n ≠ W → s.vals n = some v → Gen join bot es n0 v0 n v) ∧
  (∀ v, s.vals W = some v → PathWarn bot es n0 v0)

theorem mem_problem {W : Nat} {fe : Fix.Edge V} (h : fe ∈ (problem join bot es W).edges) :
    ∃ e ∈ es, fe = ⟨e.src, e.dst, flow bot e⟩ ∨ fe = ⟨e.src, W, wflow e⟩ := by
  simp only [problem, List.mem_flatMap, fEdges, List.mem_cons, List.not_mem_nil, or_false] at h
  obtain ⟨e, he, h⟩ := h
  exact ⟨e, he, h.symm⟩

theorem sinv_updateEdge (hL : Laws join bot es) {W : Nat} (hW : ∀ e ∈ es, e.src ≠ W ∧ e.dst ≠ W)
    (s : Fix.State V) (fe : Fix.Edge V) (hfe : fe ∈ (problem join bot es W).edges)
    (h : SInv join bot es n0 v0 W s) :
    SInv join bot es n0 v0 W (Fix.updateEdge (problem join bot es W) s fe) := by
  rcases Fix.updateEdge_cases (problem join bot es W) hL.semi s fe with ⟨heq, _⟩ |
    ⟨a, x, nv, hsrc, hf, heq, _, hnv⟩
  · rw [heq]; exact h
  · rw [heq]
    obtain ⟨e, he, hfe'⟩ := mem_problem hfe
    rcases hfe' with rfl | rfl
    · -- flow edge
      have hga : Gen join bot es n0 v0 e.src a := h.1 _ _ (hW e he).1 hsrc
      have hgx : Gen join bot es n0 v0 e.dst x := gen_flow hL he hga x hf
      constructor
      · intro n v hn hv
        by_cases hnd : n = e.dst
        · subst hnd
          have : v = nv := by simpa [Fix.State.setNodeValue] using hv.symm
          subst this
          rcases hnv with ⟨_, rfl⟩ | ⟨old, hold, rfl, _⟩
          · exact hgx
          · exact .join hgx (h.1 _ _ hn hold)
        · exact h.1 n v hn (by simpa [Fix.State.setNodeValue, hnd] using hv)
      · intro v hv
        have hne : W ≠ e.dst := fun hc => (hW e he).2 hc.symm
        exact h.2 v (by simpa [Fix.State.setNodeValue, hne] using hv)
    · -- warning edge
      have hga : Gen join bot es n0 v0 e.src a := h.1 _ _ (hW e he).1 hsrc
      have hwa : e.warn a = true := by
        simp only [wflow] at hf
        by_cases hw : e.warn a = true
        · exact hw
        · simp [hw] at hf
      obtain ⟨y, hy, hwy⟩ := gen_warn hL he hga hwa
      constructor
      · intro n v hn hv
        exact h.1 n v hn (by simpa [Fix.State.setNodeValue, hn] using hv)
      · intro _ _
        exact ⟨_, y, e, hy, he, rfl, hwy⟩

theorem sinv_remove {W : Nat} (s : Fix.State V) (p : Nat) (h : SInv join bot es n0 v0 W s) :
    SInv join bot es n0 v0 W (s.remove p) := h

theorem sinv_init {W : Nat} (hW : n0 ≠ W) :
    SInv join bot es n0 v0 W
      { vals := fun i => if i = n0 then some v0 else none, wl := fun i => decide (i = n0) } := by
  constructor
  · intro n v _ hv
    by_cases hn : n = n0
    · subst hn
      simp at hv
      subst hv
      exact .base .init
    · simp [hn] at hv
  · intro v hv
    have : ¬ W = n0 := fun hc => hW hc.symm
    simp [this] at hv

/-- **soundness, unbounded solver**: whatever the scheduler does, after any number of steps -/
theorem sound_run (hL : Laws join bot es) {W : Nat} (hW : ∀ e ∈ es, e.src ≠ W ∧ e.dst ≠ W)
    {s t : Fix.State V} (h0 : SInv join bot es n0 v0 W s) (r : Fix.Run (problem join bot es W) s t) :
    SInv join bot es n0 v0 W t :=
  Fix.Run.induction (SInv join bot es n0 v0 W) sinv_remove
    (fun u fe hfe h => sinv_updateEdge hL hW u fe hfe h) h0 r

/-- **soundness, `compute_with_max_steps`** -/
theorem sound_brun (hL : Laws join bot es) {W : Nat} (hW : ∀ e ∈ es, e.src ≠ W ∧ e.dst ≠ W) {k : Nat}
    {b c : Fix.BState V} (h0 : SInv join bot es n0 v0 W b.st)
    (r : Fix.BRun (problem join bot es W) k b c) : SInv join bot es n0 v0 W c.st :=
  Fix.BRun.induction (SInv join bot es n0 v0 W) sinv_remove
    (fun u fe hfe h => sinv_updateEdge hL hW u fe hfe h) h0 r

/-! ### completeness with respect to the merged result -/

theorem flow_mem_problem {W : Nat} {e : TEdge V} (he : e ∈ es) :
    (⟨e.src, e.dst, flow bot e⟩ : Fix.Edge V) ∈ (problem join bot es W).edges := by
  simp only [problem, List.mem_flatMap, fEdges]
  exact ⟨e, he, by simp⟩

theorem wflow_mem_problem {W : Nat} {e : TEdge V} (he : e ∈ es) :
    (⟨e.src, W, wflow e⟩ : Fix.Edge V) ∈ (problem join bot es W).edges := by
  simp only [problem, List.mem_flatMap, fEdges]
  exact ⟨e, he, by simp⟩

/-- a path that the merged values `S` do not block is contained in `S` -/
theorem pathU_le (hL : Laws join bot es) {W : Nat} {S : Fix.Assign V}
    (hS : Fix.Closed (problem join bot es W) S) {a0 : V} (h0 : S n0 = some a0) (h0le : join v0 a0 = a0)
    {n : Nat} {x : V} (hp : PathValU bot es S n0 v0 n x) : ∃ a, S n = some a ∧ join x a = a := by
  induction hp with
  | init => exact ⟨a0, h0, h0le⟩
  | @step n v v' e _ he hsrc hub hf ih =>
    obtain ⟨a, ha, hva⟩ := ih
    obtain ⟨_, hgv, rfl⟩ := flow_some hf
    have hba : e.blk a = false := hub a ha
    have hle : join (e.g v) (e.g a) = e.g a := by rw [← hL.g_join e he, hva]
    have hga : e.g a ≠ bot := by
      intro hc
      rw [hc, join_bot hL] at hle
      exact hgv hle
    have hsat := hS _ (flow_mem_problem (W := W) he) a (e.g a) (by simpa [hsrc] using ha) (flow_of hba hga)
    obtain ⟨b, hb, hab⟩ := hsat
    exact ⟨b, hb, hL.semi.le_trans hle hab⟩

/-- **completeness w.r.t. the merged result**: if some path that is not blocked by the final node
values reaches an edge on which it warns, the warning node has a value. -/
theorem complete_merged (hL : Laws join bot es) {W : Nat} {S : Fix.Assign V}
    (hS : Fix.Closed (problem join bot es W) S) {a0 : V} (h0 : S n0 = some a0) (h0le : join v0 a0 = a0)
    {n : Nat} {x : V} {e : TEdge V} (hp : PathValU bot es S n0 v0 n x) (he : e ∈ es) (hsrc : e.src = n)
    (hw : e.warn x = true) : ∃ b, S W = some b := by
  obtain ⟨a, ha, hxa⟩ := pathU_le hL hS h0 h0le hp
  have hwa : e.warn a = true := by
    rw [← hxa, hL.warn_join e he, hw]; rfl
  have hsat := hS _ (wflow_mem_problem (W := W) he) a a (by simpa [hsrc] using ha) (by simp [wflow, hwa])
  obtain ⟨b, hb, _⟩ := hsat
  exact ⟨b, hb⟩

/-! ### no interference ⇒ MFP = MOP -/

theorem path_unblocked_of_noInterference (hL : Laws join bot es) {W : Nat}
    (hW : ∀ e ∈ es, e.src ≠ W ∧ e.dst ≠ W) {S : Fix.Assign V}
    (hgen : ∀ n v, n ≠ W → S n = some v → Gen join bot es n0 v0 n v)
    (hni : NoInterference bot es n0 v0) {n : Nat} {x : V} (hp : PathVal bot es n0 v0 n x) :
    PathValU bot es S n0 v0 n x := by
  induction hp with
  | init => exact .init
  | @step n v v' e hpv he hsrc hf ih =>
    refine .step e ih he hsrc ?_ hf
    intro a ha
    cases hb : e.blk a with
    | false => rfl
    | true =>
      have hga : Gen join bot es n0 v0 n a := hgen n a (by rw [← hsrc]; exact (hW e he).1) ha
      obtain ⟨y, hy, hby⟩ := gen_blk hL he hga hb
      have := hni n v y e hpv hy he hsrc hby
      rw [(flow_some hf).1] at this
      cases this

/-- **MFP = MOP for the warning**, any state that satisfies the soundness invariant and is closed -/
theorem iff_of_noInterference (hL : Laws join bot es) {W : Nat}
    (hW : ∀ e ∈ es, e.src ≠ W ∧ e.dst ≠ W) {t : Fix.State V}
    (hinv : SInv join bot es n0 v0 W t) (hS : Fix.Closed (problem join bot es W) t.vals)
    {a0 : V} (h0 : t.vals n0 = some a0) (h0le : join v0 a0 = a0)
    (hni : NoInterference bot es n0 v0) :
    (∃ b, t.vals W = some b) ↔ PathWarn bot es n0 v0 := by
  constructor
  · rintro ⟨b, hb⟩
    exact hinv.2 b hb
  · rintro ⟨n, x, e, hp, he, hsrc, hw⟩
    exact complete_merged hL hS h0 h0le (path_unblocked_of_noInterference hL hW hinv.1 hni hp) he hsrc hw

end

end CweModel.C15.Flow
