/- C01 model driver. Case line formats (space separated, values hex):
   B <op> <wa> <a> <wb> r0 … r255      binary op on a and every b in 0..255 (width wb = 8)
   b <op> <wa> <a> <wb> <b> r          binary op
   u <op> <wa> <a> r                   unary op
   c <cast> <bytes> <wa> <a> r         cast
   s <low> <size> <wa> <a> r           subpiece
   d <kind> … r                        BitvectorDomain operations (operands `T<bytes>` | `V<w>:<hex>`)
   results r: `<w>:<hex>` | `u` (Err) | `p` (panic); domain results `T<bytes>` | `V<w>:<hex>` | `p` -/
import CweModel.Base.Proto
import CweModel.C01.Model
open CweModel CweModel.IR CweModel.Proto

namespace CweModel.C01

def parseHexNat (s : String) : Except String Nat :=
  s.toList.foldlM (fun acc c => match hexDigit c with
    | some d => .ok (acc * 16 + d)
    | none => .error s!"bad hex {s}") 0

def hexOf (n : Nat) : String := String.ofList (Nat.toDigits 16 n)

def showRes : Res → String
  | .val b => s!"{b.w}:{hexOf b.v.toNat}"
  | .unknown => "u"
  | .panic => "p"

def parseNat (s : String) : Except String Nat :=
  match s.toNat? with
  | some n => .ok n
  | none => .error s!"bad nat {s}"

def parseDom (s : String) : Except String BvDomain := do
  if s.startsWith "T" then return .top (← parseNat (s.drop 1).toString)
  else if s.startsWith "V" then
    match (s.drop 1).toString.splitOn ":" with
    | [w, v] => return .value (Bv.ofNat (← parseNat w) (← parseHexNat v))
    | _ => throw s!"bad dom {s}"
  else throw s!"bad dom {s}"

def showDRes : DRes → String
  | .dom (.top n) => s!"T{n}"
  | .dom (.value b) => s!"V{b.w}:{hexOf b.v.toNat}"
  | .panic => "p"

def opClass (a b : Bv) : String :=
  let sgn (x : Bv) := if x.v.msb then "neg" else "pos"
  s!"{sgn a}-{sgn b}"

/-- compare one implementation result with model and reference -/
def judge (cls : String) (impl : String) (m r : Res) : String :=
  let ms := showRes m
  let rs := showRes r
  -- panics are outside the domain of the property: only model ≡ impl is required there
  match r with
  | .panic => if impl == ms then s!"ok {cls} outside-domain" else s!"diff class={cls} model={ms} impl={impl}"
  | _ =>
    if impl != rs then s!"spec class={cls} expected={rs} impl={impl} model={ms}"
    else if impl != ms then s!"diff class={cls} model={ms} impl={impl}"
    else s!"ok {cls}"

def handleE (line : String) : Except String String := do
  let toks := (line.splitOn " ").filter (· != "")
  match toks with
  | "B" :: op :: wa :: a :: wb :: rs =>
    let op ← parseBinOpType op
    let a := Bv.ofNat (← parseNat wa) (← parseHexNat a)
    let wb ← parseNat wb
    if rs.length != 256 then throw "batch needs 256 results"
    let mut firstBad : Option String := none
    let mut i := 0
    for r in rs do
      let b := Bv.ofNat wb i
      let v := judge s!"{op.name}-{opClass a b}" r (Impl.binOp op a b) (Ref.binOp op a b)
      if !(v.startsWith "ok") then
        if firstBad.isNone || (v.startsWith "spec" && !(firstBad.getD "").startsWith "spec") then
          firstBad := some (v ++ s!" b={hexOf i}")
      i := i + 1
    return firstBad.getD s!"ok {op.name} batch256"
  | ["b", op, wa, a, wb, b, r] =>
    let op ← parseBinOpType op
    let a := Bv.ofNat (← parseNat wa) (← parseHexNat a)
    let b := Bv.ofNat (← parseNat wb) (← parseHexNat b)
    return judge s!"{op.name}-{opClass a b}" r (Impl.binOp op a b) (Ref.binOp op a b)
  | ["u", op, wa, a, r] =>
    let op ← parseUnOpType op
    let a := Bv.ofNat (← parseNat wa) (← parseHexNat a)
    return judge s!"{op.name}" r (Impl.unOp op a) (Ref.unOp op a)
  | ["c", op, bytes, wa, a, r] =>
    let op ← parseCastOpType op
    let a := Bv.ofNat (← parseNat wa) (← parseHexNat a)
    let bytes ← parseNat bytes
    return judge s!"{op.name}" r (Impl.cast op bytes a) (Ref.cast op bytes a)
  | ["s", low, size, wa, a, r] =>
    let a := Bv.ofNat (← parseNat wa) (← parseHexNat a)
    let low ← parseNat low
    let size ← parseNat size
    return judge "Subpiece" r (Impl.subpieceOp low size a) (Ref.subpieceOp low size a)
  | ["h", kind, wa, a, b, r] =>
    -- overflow-checked helpers: result `<hex>` | `none` (sadd/ssub), `<hex>:<0|1>` | `err` (smul)
    let w ← parseNat wa
    let x := BitVec.ofNat w (← parseHexNat a)
    let y := BitVec.ofNat w (← parseHexNat b)
    let fin (cls m sp : String) : String :=
      if r != sp then s!"spec class=helper-{cls} expected={sp} impl={r} model={m}"
      else if r != m then s!"diff class=helper-{cls} model={m} impl={r}" else s!"ok helper-{cls}"
    match kind with
    | "sadd" =>
      let m := match Impl.saddChecked x y with | some v => hexOf v.toNat | none => "none"
      let sp := if Ref.scarry x y then "none" else hexOf (Ref.add x y).toNat
      return fin "sadd" m sp
    | "ssub" =>
      let m := match Impl.ssubChecked x y with | some v => hexOf v.toNat | none => "none"
      let sp := if Ref.sborrow x y then "none" else hexOf (Ref.sub x y).toNat
      return fin "ssub" m sp
    | "smul" =>
      let m := match Impl.smulFlag x y with
        | some (v, f) => s!"{hexOf v.toNat}:{if f then 1 else 0}" | none => "err"
      let ov := decide (x.toInt * y.toInt ≥ 2 ^ (w - 1)) || decide (x.toInt * y.toInt < -2 ^ (w - 1))
      let sp := if w > 64 then (if x.toNat == 0 then s!"0:0" else "err")
                else s!"{hexOf (Ref.mul x y).toNat}:{if ov then 1 else 0}"
      return fin "smul" m sp
    | _ => throw "bad helper kind"
  | "d" :: kind :: rest =>
    -- BitvectorDomain: the spec is "Value of the reference result, Top of the result size for unknown"
    let specOf (r : Res) (topSize : Nat) : Option String := match r with
      | .val v => some s!"V{v.w}:{hexOf v.v.toNat}"
      | .unknown => some s!"T{topSize}"
      | .panic => none
    let fin (cls impl : String) (m : DRes) (sp : Option String) : String :=
      let ms := showDRes m
      match sp with
      | some e =>
        if impl != e then s!"spec class=dom-{cls} expected={e} impl={impl} model={ms}"
        else if impl != ms then s!"diff class=dom-{cls} model={ms} impl={impl}" else s!"ok dom-{cls}"
      | none => if impl != ms then s!"diff class=dom-{cls} model={ms} impl={impl}" else s!"ok dom-{cls} outside-domain"
    match kind, rest with
    | "bin", [op, a, b, r] =>
      let op ← parseBinOpType op
      let a ← parseDom a
      let b ← parseDom b
      let sizeOk := match op with
        | .Piece | .IntLeft | .IntRight | .IntSRight => true
        | _ => a.bytesize == b.bytesize
      let sp := if !sizeOk then none else match a, b with
        | .value x, .value y => specOf (Ref.binOp op x y) (binOpBytesize op a.bytesize b.bytesize)
        | _, _ => some s!"T{binOpBytesize op a.bytesize b.bytesize}"
      return fin op.name r (BvDomain.binOp op a b) sp
    | "un", [op, a, r] =>
      let op ← parseUnOpType op
      let a ← parseDom a
      let ts := match op with | .BoolNegate | .FloatNaN => 1 | _ => a.bytesize
      let sp := match a with
        | .value x => specOf (Ref.unOp op x) ts
        | _ => some s!"T{ts}"
      return fin op.name r (BvDomain.unOp op a) sp
    | "cast", [op, bytes, a, r] =>
      let op ← parseCastOpType op
      let bytes ← parseNat bytes
      let a ← parseDom a
      let sp := match a with
        | .value x => specOf (Ref.cast op bytes x) bytes
        | _ => some s!"T{bytes}"
      return fin op.name r (BvDomain.cast op bytes a) sp
    | "sub", [low, size, a, r] =>
      let low ← parseNat low
      let size ← parseNat size
      let a ← parseDom a
      let sp := match a with
        | .value x => specOf (Ref.subpieceOp low size x) size
        | _ => some s!"T{size}"
      return fin "Subpiece" r (BvDomain.subpiece low size a) sp
    | _, _ => throw "bad domain case"
  | _ => throw "unknown case kind"

end CweModel.C01

def main : IO Unit := CweModel.Proto.runDriver (CweModel.Proto.guarded CweModel.C01.handleE)
