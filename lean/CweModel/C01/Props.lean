/-
C01 — Constant folding of IR operations agrees with P-Code semantics.

  "Whenever the analyzer computes the value of an integer operation (arithmetic, bitwise, shifts,
   comparisons, carry/borrow flags, piece/subpiece, extensions, popcount, leading-zero count) on known
   operand values, the result is exactly the value the Ghidra P-Code reference semantics define for
   those operands. For operations it does not support (floating point, multiplication/division wider
   than 8 bytes, division by zero) it reports 'unknown' instead of a value; it never returns a wrong value."

`Impl.*` (Base/Bv.lean) is the model of `bitvector.rs`, `Ref.*` the reference semantics written as
arithmetic on `toNat`/`toInt`. All theorems hold for EVERY width `w` (not only 8/16/32/64).
-/
import CweModel.C01.Model
import CweModel.C01.Sizes

namespace CweModel.C01
open CweModel CweModel.IR BitVec

variable {w : Nat}

theorem two_pow_le {a b : Nat} (h : a ≤ b) : (2 : Int) ^ a ≤ 2 ^ b := by
  exact_mod_cast Nat.pow_le_pow_right (by omega : 0 < 2) h

theorem two_pow_pos (a : Nat) : (0 : Int) < 2 ^ a := Int.pow_pos (by omega)

theorem two_pow_pred_lt {w : Nat} (hw : w ≠ 0) : (2 : Int) ^ (w - 1) < 2 ^ w := by
  obtain ⟨k, rfl⟩ : ∃ k, w = k + 1 := ⟨w - 1, by omega⟩
  have := two_pow_pos k
  simp [Int.pow_succ]; omega

theorem toInt_ofInt_of_range (v : Nat) (i : Int) (hv : 0 < v) (h1 : -2 ^ (v - 1) ≤ i)
    (h2 : i < 2 ^ (v - 1)) : (BitVec.ofInt v i).toInt = i := by
  rw [BitVec.toInt_ofInt]
  obtain ⟨k, rfl⟩ : ∃ k, v = k + 1 := ⟨v - 1, by omega⟩
  apply Int.bmod_eq_of_le
  · have : ((2 ^ (k + 1) : Nat) : Int) / 2 = 2 ^ k := by simp [Int.pow_succ]
    rw [this]; simpa using h1
  · have : (((2 ^ (k + 1) : Nat) : Int) + 1) / 2 = 2 ^ k := by simp [Int.pow_succ]; omega
    rw [this]; simpa using h2

theorem zero_sub_one (w : Nat) : 0#w - 1#w = BitVec.ofInt w (-1) := by
  rw [BitVec.zero_sub]
  have : BitVec.ofInt w (-1) = - BitVec.ofInt w 1 := by rw [← BitVec.ofInt_neg]
  rw [this]
  congr 1

/-! ### kernels: model = reference, for every width -/

theorem carry_eq (x y : BitVec w) : Impl.carry x y = Ref.carry x y := by
  simp only [Impl.carry, Ref.carry, BitVec.ult, BitVec.toNat_add]
  have hx := x.isLt; have hy := y.isLt
  rw [Bool.eq_iff_iff]; simp only [Bool.or_eq_true, decide_eq_true_eq]
  by_cases h : x.toNat + y.toNat < 2 ^ w
  · rw [Nat.mod_eq_of_lt h]; omega
  · have : (x.toNat + y.toNat) % 2 ^ w = x.toNat + y.toNat - 2 ^ w := by
      rw [Nat.mod_eq_sub_mod (by omega), Nat.mod_eq_of_lt (by omega)]
    rw [this]; omega

theorem scarry_eq (x y : BitVec w) : Impl.scarry x y = Ref.scarry x y := by
  have := BitVec.saddOverflow_eq x y
  simp only [BitVec.saddOverflow] at this
  simp only [Impl.scarry, Ref.scarry, this]
  cases (x + y).msb <;> cases x.msb <;> cases y.msb <;> rfl

theorem sborrow_eq (x y : BitVec w) : Impl.sborrow x y = Ref.sborrow x y := by
  have := BitVec.ssubOverflow_eq x y
  simp only [BitVec.ssubOverflow] at this
  simp only [Impl.sborrow, Ref.sborrow, this]
  cases (x - y).msb <;> cases x.msb <;> cases y.msb <;> rfl

theorem less_eq (x y : BitVec w) : x.ult y = Ref.less x y := by simp [Ref.less, BitVec.ult]
theorem lessEq_eq (x y : BitVec w) : x.ule y = Ref.lessEq x y := by simp [Ref.lessEq, BitVec.ule]
theorem sless_eq (x y : BitVec w) : x.slt y = Ref.sless x y := by simp [Ref.sless, BitVec.slt]
theorem slessEq_eq (x y : BitVec w) : x.sle y = Ref.slessEq x y := by simp [Ref.slessEq, BitVec.sle]
theorem eq_eq (x y : BitVec w) : (x == y) = Ref.eq x y := by
  simp only [Ref.eq]; rw [Bool.eq_iff_iff]; simp [BitVec.toNat_inj]
theorem ne_eq (x y : BitVec w) : (x != y) = !Ref.eq x y := by
  rw [← eq_eq]; rfl
theorem add_eq (x y : BitVec w) : x + y = Ref.add x y := by
  apply BitVec.eq_of_toNat_eq; simp [Ref.add]
theorem sub_eq (x y : BitVec w) : x - y = Ref.sub x y := by
  apply BitVec.eq_of_toInt_eq; simp [Ref.sub, BitVec.toInt_sub, BitVec.toInt_ofInt]
theorem mul_eq (x y : BitVec w) : x * y = Ref.mul x y := by
  apply BitVec.eq_of_toNat_eq; simp [Ref.mul]
theorem udiv_eq (x y : BitVec w) : x / y = Ref.udiv x y := by
  apply BitVec.eq_of_toNat_eq
  simp only [Ref.udiv, BitVec.toNat_udiv, BitVec.toNat_ofNat]
  rw [Nat.mod_eq_of_lt]; exact Nat.lt_of_le_of_lt (Nat.div_le_self _ _) x.isLt
theorem urem_eq (x y : BitVec w) : x % y = Ref.urem x y := by
  apply BitVec.eq_of_toNat_eq
  have h : x.toNat % y.toNat < 2 ^ w := Nat.lt_of_le_of_lt (Nat.mod_le _ _) x.isLt
  simp only [Ref.urem, BitVec.toNat_umod, BitVec.toNat_ofNat, Nat.mod_eq_of_lt h]
theorem sdiv_eq (x y : BitVec w) : x.sdiv y = Ref.sdiv x y := by
  apply BitVec.eq_of_toInt_eq; simp [Ref.sdiv, BitVec.toInt_sdiv, BitVec.toInt_ofInt]
theorem srem_eq (x y : BitVec w) : x.srem y = Ref.srem x y := by
  apply BitVec.eq_of_toInt_eq
  rw [BitVec.toInt_srem]
  simp only [Ref.srem, BitVec.toInt_ofInt]
  -- |x tmod y| ≤ |x| stays in range, so the bmod is the identity
  by_cases hw : w = 0
  · subst hw; simp [BitVec.toInt_zero_length]
  have h1 := BitVec.le_toInt x
  have h2 := @BitVec.toInt_lt w x
  have h3 : (x.toInt.tmod y.toInt).natAbs ≤ x.toInt.natAbs := by
    rw [Int.natAbs_tmod]; exact Nat.mod_le _ _
  have h4 : 0 ≤ x.toInt → 0 ≤ x.toInt.tmod y.toInt := Int.tmod_nonneg _
  have h5 : x.toInt ≤ 0 → x.toInt.tmod y.toInt ≤ 0 := by
    intro hx
    have := Int.tmod_nonneg y.toInt (by omega : 0 ≤ -x.toInt)
    rw [Int.neg_tmod] at this; omega
  have hr : (BitVec.ofInt w (x.toInt.tmod y.toInt)).toInt = x.toInt.tmod y.toInt :=
    toInt_ofInt_of_range w _ (by omega) (by omega) (by omega)
  rw [← BitVec.toInt_ofInt]; exact hr.symm

theorem neg_eq (x : BitVec w) : -x = Ref.neg x := by
  apply BitVec.eq_of_toInt_eq; simp [Ref.neg, BitVec.toInt_neg, BitVec.toInt_ofInt]
theorem not_eq (x : BitVec w) : ~~~x = Ref.not x := by
  apply BitVec.eq_of_toNat_eq
  simp only [Ref.not, BitVec.toNat_not, BitVec.toNat_ofNat]
  have := x.isLt
  rw [Nat.mod_eq_of_lt (by omega)]
theorem zext_eq (x : BitVec w) (v : Nat) : x.setWidth v = Ref.zext x v := by
  apply BitVec.eq_of_toNat_eq; simp [Ref.zext]

theorem sext_eq (x : BitVec w) (v : Nat) (h : w ≤ v) : x.signExtend v = Ref.sext x v := by
  apply BitVec.eq_of_toInt_eq
  rw [BitVec.toInt_signExtend_of_le h]
  simp only [Ref.sext]
  by_cases hv : v = 0
  · subst hv
    have : w = 0 := by omega
    subst this; simp [BitVec.toInt_zero_length]
  by_cases hw : w = 0
  · subst hw
    rw [BitVec.toInt_zero_length]; simp
  have hp : (2 : Int) ^ (w - 1) ≤ 2 ^ (v - 1) := two_pow_le (by omega)
  have h1 := BitVec.le_toInt x
  have h2 := @BitVec.toInt_lt w x
  rw [toInt_ofInt_of_range v x.toInt (by omega) (by omega) (by omega)]

/-- `IntLeft`: the saturating model equals the arithmetic reference for EVERY shift amount -/
theorem shl_eq (x : BitVec w) (n : Nat) : Impl.shl x n = Ref.shl x n := by
  apply BitVec.eq_of_toNat_eq
  simp only [Impl.shl, Ref.shl, BitVec.toNat_ofNat]
  split
  · simp [BitVec.toNat_shiftLeft, Nat.shiftLeft_eq]
  · next h =>
    have : 2 ^ w ∣ x.toNat * 2 ^ n := Nat.dvd_mul_left_of_dvd (Nat.pow_dvd_pow 2 (by omega)) _
    simp [Nat.mod_eq_zero_of_dvd this]

theorem shr_eq (x : BitVec w) (n : Nat) : Impl.shr x n = Ref.shr x n := by
  apply BitVec.eq_of_toNat_eq
  simp only [Impl.shr, Ref.shr, BitVec.toNat_ofNat]
  have hx := x.isLt
  have hle : x.toNat / 2 ^ n < 2 ^ w := Nat.lt_of_le_of_lt (Nat.div_le_self _ _) hx
  rw [Nat.mod_eq_of_lt hle]
  split
  · simp [BitVec.toNat_ushiftRight, Nat.shiftRight_eq_div_pow]
  · next h =>
    have : 2 ^ w ≤ 2 ^ n := Nat.pow_le_pow_right (by omega) (by omega)
    simp [Nat.div_eq_of_lt (by omega : x.toNat < 2 ^ n)]

theorem sar_eq (x : BitVec w) (n : Nat) : Impl.sar x n = Ref.sar x n := by
  simp only [Impl.sar, Ref.sar]
  split
  · rw [BitVec.sshiftRight_eq, Int.shiftRight_eq_div_pow]; simp
  · next h =>
    have h1 := BitVec.le_toInt x
    have h2 := @BitVec.toInt_lt w x
    by_cases hw : w = 0
    · subst hw; apply BitVec.eq_of_toNat_eq; simp [BitVec.of_length_zero]
    have hpw : (2 : Int) ^ (w - 1) < 2 ^ n := by
      have := two_pow_pred_lt hw
      have : (2 : Int) ^ w ≤ 2 ^ n := two_pow_le (by omega)
      omega
    have hpos : (0 : Int) < 2 ^ n := two_pow_pos n
    rw [BitVec.msb_eq_toInt]
    by_cases hneg : x.toInt < 0
    · simp only [hneg, decide_true, if_true]
      have : x.toInt / 2 ^ n = -1 := by
        have hq : -1 ≤ x.toInt / 2 ^ n := (Int.le_ediv_iff_mul_le hpos).mpr (by omega)
        have hq2 : x.toInt / 2 ^ n < 0 := (Int.ediv_lt_iff_lt_mul hpos).mpr (by omega)
        omega
      rw [this]; exact zero_sub_one w
    · simp only [hneg, decide_false]
      have : x.toInt / 2 ^ n = 0 := Int.ediv_eq_zero_of_lt (by omega) (by omega)
      rw [this]; simp

end CweModel.C01

namespace CweModel.C01
open CweModel CweModel.IR BitVec
variable {w : Nat}

/-- `Piece`: zero-extend/shift/or equals concatenation arithmetic -/
theorem piece_eq {w₁ w₂ : Nat} (x : BitVec w₁) (y : BitVec w₂) : Impl.piece x y = Ref.piece x y := by
  apply BitVec.eq_of_toNat_eq
  have hx := x.isLt; have hy := y.isLt
  have hxy : x.toNat * 2 ^ w₂ + y.toNat < 2 ^ (w₁ + w₂) := by
    rw [Nat.pow_add]
    calc x.toNat * 2 ^ w₂ + y.toNat < x.toNat * 2 ^ w₂ + 2 ^ w₂ := by omega
      _ = (x.toNat + 1) * 2 ^ w₂ := by rw [Nat.add_mul]; simp
      _ ≤ 2 ^ w₁ * 2 ^ w₂ := Nat.mul_le_mul_right _ (by omega)
  have hx' : x.toNat < 2 ^ (w₁ + w₂) := Nat.lt_of_lt_of_le hx (Nat.pow_le_pow_right (by omega) (by omega))
  have hy' : y.toNat < 2 ^ (w₁ + w₂) := Nat.lt_of_lt_of_le hy (Nat.pow_le_pow_right (by omega) (by omega))
  have hs : x.toNat * 2 ^ w₂ < 2 ^ (w₁ + w₂) := by omega
  simp only [Impl.piece, Ref.piece, BitVec.toNat_or, BitVec.toNat_shiftLeft, BitVec.toNat_setWidth,
    BitVec.toNat_ofNat, Nat.mod_eq_of_lt hx', Nat.mod_eq_of_lt hy', Nat.shiftLeft_eq,
    Nat.mod_eq_of_lt hs, Nat.mod_eq_of_lt hxy]
  rw [← Nat.shiftLeft_eq, Nat.shiftLeft_add_eq_or_of_lt hy]

theorem subpiece_eq (x : BitVec w) (low size : Nat) : Impl.subpiece x low size = Ref.subpiece x low size := by
  apply BitVec.eq_of_toNat_eq
  simp [Impl.subpiece, Ref.subpiece, BitVec.toNat_ushiftRight, Nat.shiftRight_eq_div_pow]

theorem cpop_le (x : BitVec w) : x.cpop.toNat ≤ w := by
  rw [BitVec.toNat_cpop]; exact BitVec.cpopNatRec_zero_le x w

theorem clz_toNat_le (x : BitVec w) : x.clz.toNat ≤ w := by
  have h := @BitVec.clz_le w x
  rw [BitVec.le_def] at h
  have hw : w < 2 ^ w := Nat.lt_two_pow_self
  simpa [Nat.mod_eq_of_lt hw] using h

/-- the 64-bit detour of the `PopCount`/`LzCount` casts loses nothing (widths are `usize`) -/
theorem resize64 (n v : Nat) (h : n < 2 ^ 64) : (BitVec.ofNat 64 n).setWidth v = BitVec.ofNat v n := by
  apply BitVec.eq_of_toNat_eq
  simp [Nat.mod_eq_of_lt h]

theorem popcountCast_eq (x : BitVec w) (v : Nat) (hw : w < 2 ^ 64) :
    Impl.popcountCast x v = BitVec.ofNat v (Ref.popcount x) :=
  resize64 _ v (Nat.lt_of_le_of_lt (cpop_le x) hw)

theorem lzcountCast_eq (x : BitVec w) (v : Nat) (hw : w < 2 ^ 64) :
    Impl.lzcountCast x v = BitVec.ofNat v (Ref.lzcount x) :=
  resize64 _ v (Nat.lt_of_le_of_lt (clz_toNat_le x) hw)

/-! ### clamping the shift amount in the executable reference changes nothing -/

theorem Ref.shl_clamp (x : BitVec w) (n : Nat) : Ref.shl x (min n w) = Ref.shl x n := by
  rw [← shl_eq, ← shl_eq]; simp only [Impl.shl]
  by_cases h : n < w
  · simp [Nat.min_eq_left (Nat.le_of_lt h)]
  · simp [Nat.min_eq_right (Nat.le_of_not_lt h), h]

theorem Ref.shr_clamp (x : BitVec w) (n : Nat) : Ref.shr x (min n w) = Ref.shr x n := by
  rw [← shr_eq, ← shr_eq]; simp only [Impl.shr]
  by_cases h : n < w
  · simp [Nat.min_eq_left (Nat.le_of_lt h)]
  · simp [Nat.min_eq_right (Nat.le_of_not_lt h), h]

theorem Ref.sar_clamp (x : BitVec w) (n : Nat) : Ref.sar x (min n w) = Ref.sar x n := by
  rw [← sar_eq, ← sar_eq]; simp only [Impl.sar]
  by_cases h : n < w
  · simp [Nat.min_eq_left (Nat.le_of_lt h)]
  · simp [Nat.min_eq_right (Nat.le_of_not_lt h), h]

/-! ### the API level: `Bitvector::bin_op / un_op / cast / subpiece` -/

theorem sameW_congr (a b : Bv) (f g : {w : Nat} → BitVec w → BitVec w → Res)
    (h : ∀ (w : Nat) (x y : BitVec w), @f w x y = @g w x y) : sameW a b f = sameW a b g := by
  unfold sameW; split <;> simp [h]

/-- operand sizes for which the operation is defined (everything else is a caller bug that makes
the real code panic or return `Err`; the property does not speak about it) -/
def WellSizedBin (op : BinOpType) (a b : Bv) : Prop :=
  match op with
  | .Piece => True
  | .IntLeft | .IntRight | .IntSRight => b.toNat < 2 ^ 64
  | _ => a.w = b.w

/-- **C01-binop.** For every binary operation and all operands of admissible sizes — of EVERY bit
width — the model of `Bitvector::bin_op` returns exactly the P-Code reference result: the reference
value where one is defined, `unknown` for float operations, 64+-bit mult/div and division by zero. -/
theorem binOp_eq_ref (op : BinOpType) (a b : Bv) (h : WellSizedBin op a b) :
    Impl.binOp op a b = Ref.binOp op a b := by
  cases op <;> simp only [Impl.binOp, Ref.binOp, WellSizedBin] at h ⊢
  case Piece => rw [piece_eq]
  case IntEqual => exact sameW_congr _ _ _ _ fun w x y => by rw [eq_eq]
  case IntNotEqual => exact sameW_congr _ _ _ _ fun w x y => by rw [ne_eq]
  case IntLess => exact sameW_congr _ _ _ _ fun w x y => by rw [less_eq]
  case IntSLess => exact sameW_congr _ _ _ _ fun w x y => by rw [sless_eq]
  case IntLessEqual => exact sameW_congr _ _ _ _ fun w x y => by rw [lessEq_eq]
  case IntSLessEqual => exact sameW_congr _ _ _ _ fun w x y => by rw [slessEq_eq]
  case IntAdd => exact sameW_congr _ _ _ _ fun w x y => by rw [add_eq]
  case IntSub => exact sameW_congr _ _ _ _ fun w x y => by rw [sub_eq]
  case IntCarry => exact sameW_congr _ _ _ _ fun w x y => by rw [carry_eq]
  case IntSCarry => exact sameW_congr _ _ _ _ fun w x y => by rw [scarry_eq]
  case IntSBorrow => exact sameW_congr _ _ _ _ fun w x y => by rw [sborrow_eq]
  case IntLeft => rw [shl_eq, Ref.shl_clamp]
  case IntRight => rw [shr_eq, Ref.shr_clamp]
  case IntSRight => rw [sar_eq, Ref.sar_clamp]
  case IntMult =>
    split
    · rfl
    · exact sameW_congr _ _ _ _ fun w x y => by rw [mul_eq]
  case IntDiv =>
    split
    · rfl
    · simp only [sameW, sameWErr, h, dite_true]
      have hz : ∀ y : BitVec a.w, (y == 0) = decide (y.toNat = 0) := fun y => by
        rw [Bool.eq_iff_iff]; simp [BitVec.toNat_eq]
      simp only [hz, udiv_eq, decide_eq_true_eq]
  case IntRem =>
    split
    · rfl
    · simp only [sameW, sameWErr, h, dite_true]
      have hz : ∀ y : BitVec a.w, (y == 0) = decide (y.toNat = 0) := fun y => by
        rw [Bool.eq_iff_iff]; simp [BitVec.toNat_eq]
      simp only [hz, urem_eq, decide_eq_true_eq]
  case IntSDiv =>
    split
    · rfl
    · simp only [sameW, sameWErr, h, dite_true]
      have hz : ∀ y : BitVec a.w, (y == 0) = decide (y.toNat = 0) := fun y => by
        rw [Bool.eq_iff_iff]; simp [BitVec.toNat_eq]
      simp only [hz, sdiv_eq, decide_eq_true_eq]
  case IntSRem =>
    split
    · rfl
    · simp only [sameW, sameWErr, h, dite_true]
      have hz : ∀ y : BitVec a.w, (y == 0) = decide (y.toNat = 0) := fun y => by
        rw [Bool.eq_iff_iff]; simp [BitVec.toNat_eq]
      simp only [hz, srem_eq, decide_eq_true_eq]

end CweModel.C01

namespace CweModel.C01
open CweModel CweModel.IR BitVec

/-- **C01-unop.** `Bitvector::un_op` = reference for every width (BoolNegate: on booleans, and the
same out-of-domain behaviour elsewhere). -/
theorem unOp_eq_ref (op : UnOpType) (a : Bv) : Impl.unOp op a = Ref.unOp op a := by
  cases op <;> simp only [Impl.unOp, Ref.unOp]
  case Int2Comp => rw [neg_eq]
  case IntNegate => rw [not_eq]
  case BoolNegate =>
    have h0 : (a.v == 0) = decide (a.toNat = 0) := by
      rw [Bool.eq_iff_iff]; simp only [Bv.toNat, beq_iff_eq, BitVec.toNat_eq, BitVec.toNat_ofNat, Nat.zero_mod]
      exact ⟨fun h => decide_eq_true h, of_decide_eq_true⟩
    have h1 : (a == Bv.ofNat 8 1) = decide (a.w = 8 ∧ a.toNat = 1) := by
      rw [Bool.eq_iff_iff]
      simp only [BEq.beq, Bv.ofNat, Bv.toNat, Bool.and_eq_true, decide_eq_true_eq, BitVec.toNat_ofNat]
      constructor
      · intro h; exact decide_eq_true ⟨of_decide_eq_true h.1, h.2⟩
      · intro h; have h' := of_decide_eq_true h; exact ⟨decide_eq_true h'.1, h'.2⟩
    simp only [h0, h1, decide_eq_true_eq]

/-- **C01-cast.** `Bitvector::cast` = reference (extensions for every width pair, popcount/lzcount
through the 64-bit detour, `unknown` for the float casts). -/
theorem cast_eq_ref (op : CastOpType) (bytes : Nat) (a : Bv) (hw : a.w < 2 ^ 64) :
    Impl.cast op bytes a = Ref.cast op bytes a := by
  cases op <;> simp only [Impl.cast, Ref.cast]
  case IntZExt => rw [zext_eq]
  case IntSExt =>
    split
    · next h => rw [sext_eq _ _ h]
    · rfl
  case PopCount => rw [popcountCast_eq _ _ hw]
  case LzCount => rw [lzcountCast_eq _ _ hw]

/-- **C01-subpiece.** -/
theorem subpiece_eq_ref (low size : Nat) (a : Bv) : Impl.subpieceOp low size a = Ref.subpieceOp low size a := by
  simp only [Impl.subpieceOp, Ref.subpieceOp, subpiece_eq]

/-- **C01-unknown-iff-unsupported.** On admissible sizes the reference (hence, by `binOp_eq_ref`, the
model of the code) reports `unknown` exactly for float operations, multiplication/division wider
than 64 bit and division by zero — and never panics. -/
theorem ref_binOp_unknown_iff (op : BinOpType) (a b : Bv) (h : WellSizedBin op a b) :
    (Ref.binOp op a b = .unknown ↔
      op.isFloat = true ∨
      (op ∈ [BinOpType.IntMult, .IntDiv, .IntRem, .IntSDiv, .IntSRem] ∧ a.w > 64) ∨
      (op ∈ [BinOpType.IntDiv, .IntRem, .IntSDiv, .IntSRem] ∧ b.toNat = 0)) ∧
    Ref.binOp op a b ≠ .panic := by
  obtain ⟨aw, av⟩ := a
  obtain ⟨bw, bv⟩ := b
  cases op <;> simp only [WellSizedBin] at h <;> (try subst h) <;>
    simp [Ref.binOp, sameW, valV, valB, BinOpType.isFloat, Bv.toNat] <;>
    (try split) <;> (try simp_all [Bv.toNat]) <;> (try split) <;> (try simp_all) <;> (try (intro; omega))

end CweModel.C01

namespace CweModel.C01
open CweModel CweModel.IR BitVec

/-- **C01-size.** Whenever the reference yields a value on byte-sized operands, its size is the one
`Expression::bytesize` / `bin_op_bytesize` predict for the operation. -/
theorem ref_binOp_size (op : BinOpType) (a b : Bv) (r : Bv) (ha : a.w = 8 * a.bytes) (hb : b.w = 8 * b.bytes)
    (hbool : op ∈ [BinOpType.BoolXOr, .BoolAnd, .BoolOr] → a.bytes = 1)
    (h : Ref.binOp op a b = .val r) : r.bytes = binOpBytesize op a.bytes b.bytes := by
  obtain ⟨aw, av⟩ := a
  obtain ⟨bw, bv⟩ := b
  simp only [Bv.bytes] at ha hb hbool ⊢
  cases op <;> simp only [Ref.binOp, sameW, sameWErr, valV, valB, Bv.ofBool, binOpBytesize] at h ⊢ <;>
    (try split at h) <;> (try split at h) <;> (try split at h) <;>
    (try (injection h with h; subst h; first | omega | rfl | (dsimp only; omega) | (dsimp only; simp at hbool; omega))) <;>
    (try cases h)

/-- **C01-domain.** `BitvectorDomain::bin_op` on two known values returns `Value` of the reference
result, `Top` of the predicted size when the reference is `unknown`; with a `Top` operand it returns
`Top` of the predicted size. -/
theorem domain_binOp_spec (op : BinOpType) (a b : Bv)
    (hsz : binSizeOk op a.bytes b.bytes = true) (h : WellSizedBin op a b) :
    BvDomain.binOp op (.value a) (.value b) =
      match Ref.binOp op a b with
      | .val v => .dom (.value v)
      | .unknown => .dom (.top (binOpBytesize op a.bytes b.bytes))
      | .panic => .panic := by
  unfold BvDomain.binOp
  simp only [BvDomain.bytesize, hsz, Bool.not_true, Bool.false_eq_true, if_false]
  rw [binOp_eq_ref op a b h]
  cases Ref.binOp op a b <;> rfl

theorem domain_binOp_top (op : BinOpType) (a b : BvDomain)
    (hsz : binSizeOk op a.bytesize b.bytesize = true)
    (ht : (∃ n, a = .top n) ∨ (∃ n, b = .top n)) :
    BvDomain.binOp op a b = .dom (.top (binOpBytesize op a.bytesize b.bytesize)) := by
  unfold BvDomain.binOp
  simp only [hsz, Bool.not_true, Bool.false_eq_true, if_false]
  rcases ht with ⟨n, rfl⟩ | ⟨n, rfl⟩
  · rfl
  · cases a <;> rfl

/-! ### non-vacuity and regression witnesses -/

-- the defect repaired by the `fix:` commit (D1): 0x00 SBORROW 0x80 must be 1
example : Ref.sborrow (0x00#8) (0x80#8) = true := by decide
example : Impl.sborrow (0x00#8) (0x80#8) = true := by decide
-- the unrepaired formula (`!signed_self.is_positive()`) is refuted by that witness
example : ¬ (let x := 0x00#8; let y := 0x80#8; let r := x - y
    ((r.msb && !(!x.msb) && y.msb) || (!r.msb && x.msb && !y.msb)) = Ref.sborrow x y) := by decide
example : WellSizedBin .IntSDiv (Bv.ofNat 8 0x80) (Bv.ofNat 8 0xff) := rfl
example : Ref.sdiv (0x80#8) (0xff#8) = 0x80#8 := by decide
example : Ref.sar (0x80#8) 200 = 0xff#8 := by decide
example : Ref.piece (0xab#8) (0xcd#8) = 0xabcd#16 := by decide

end CweModel.C01

/-! ### the overflow-checked helpers of `BitvectorExtended` (used by the interval domain) -/

namespace CweModel.C01
open CweModel CweModel.IR BitVec
variable {w : Nat}

/-- wrap-around of a sum/difference of two in-range values -/
theorem bmod_cases (w : Nat) (hw : 0 < w) (s : Int) (h1 : -2 ^ w ≤ s) (h2 : s < 2 ^ w) :
    s.bmod (2 ^ w) = if s ≥ 2 ^ (w - 1) then s - 2 ^ w else if s < -2 ^ (w - 1) then s + 2 ^ w else s := by
  obtain ⟨k, rfl⟩ : ∃ k, w = k + 1 := ⟨w - 1, by omega⟩
  have hk : (2 : Int) ^ (k + 1) = 2 * 2 ^ k := by rw [Int.pow_succ]; omega
  have hpos := two_pow_pos k
  have hc : ((2 ^ (k + 1) : Nat) : Int) = 2 ^ (k + 1) := by simp
  have e1 : ((2 ^ (k + 1) : Nat) : Int) / 2 = 2 ^ k := by rw [hc, hk]; omega
  have e2 : (((2 ^ (k + 1) : Nat) : Int) + 1) / 2 = 2 ^ k := by rw [hc, hk]; omega
  simp only [Nat.add_sub_cancel]
  split
  · have : (s - 2 ^ (k + 1)).bmod (2 ^ (k + 1)) = s - 2 ^ (k + 1) :=
      Int.bmod_eq_of_le (by rw [e1]; omega) (by rw [e2]; omega)
    rw [← this, ← hc, Int.sub_bmod_right]
  · split
    · have : (s + 2 ^ (k + 1)).bmod (2 ^ (k + 1)) = s + 2 ^ (k + 1) :=
        Int.bmod_eq_of_le (by rw [e1]; omega) (by rw [e2]; omega)
      rw [← this, ← hc, Int.add_bmod_right]
    · exact Int.bmod_eq_of_le (by rw [e1]; omega) (by rw [e2]; omega)

/-- `(x + y).toInt` by cases (no wrap / wrap down / wrap up) -/
theorem toInt_add_cases (x y : BitVec w) (hw : w ≠ 0) :
    (x.toInt + y.toInt ≥ 2 ^ (w - 1) ∧ (x + y).toInt = x.toInt + y.toInt - 2 ^ w) ∨
    (x.toInt + y.toInt < -2 ^ (w - 1) ∧ (x + y).toInt = x.toInt + y.toInt + 2 ^ w) ∨
    (-2 ^ (w - 1) ≤ x.toInt + y.toInt ∧ x.toInt + y.toInt < 2 ^ (w - 1) ∧ (x + y).toInt = x.toInt + y.toInt) := by
  have hx1 := BitVec.le_toInt x; have hx2 := @BitVec.toInt_lt w x
  have hy1 := BitVec.le_toInt y; have hy2 := @BitVec.toInt_lt w y
  have h2 : (2 : Int) ^ w = 2 * 2 ^ (w - 1) := by
    obtain ⟨k, rfl⟩ : ∃ k, w = k + 1 := ⟨w - 1, by omega⟩
    rw [Int.pow_succ]; simp; omega
  have hsum := bmod_cases w (by omega) (x.toInt + y.toInt) (by omega) (by omega)
  rw [BitVec.toInt_add, hsum]
  by_cases h1 : x.toInt + y.toInt ≥ 2 ^ (w - 1)
  · left; simp [h1]
  · by_cases h3 : x.toInt + y.toInt < -2 ^ (w - 1)
    · right; left; simp [h1, h3]
    · right; right; simp [h1, h3]; omega

theorem toInt_sub_cases (x y : BitVec w) (hw : w ≠ 0) :
    (x.toInt - y.toInt ≥ 2 ^ (w - 1) ∧ (x - y).toInt = x.toInt - y.toInt - 2 ^ w) ∨
    (x.toInt - y.toInt < -2 ^ (w - 1) ∧ (x - y).toInt = x.toInt - y.toInt + 2 ^ w) ∨
    (-2 ^ (w - 1) ≤ x.toInt - y.toInt ∧ x.toInt - y.toInt < 2 ^ (w - 1) ∧ (x - y).toInt = x.toInt - y.toInt) := by
  have hx1 := BitVec.le_toInt x; have hx2 := @BitVec.toInt_lt w x
  have hy1 := BitVec.le_toInt y; have hy2 := @BitVec.toInt_lt w y
  have h2 : (2 : Int) ^ w = 2 * 2 ^ (w - 1) := by
    obtain ⟨k, rfl⟩ : ∃ k, w = k + 1 := ⟨w - 1, by omega⟩
    rw [Int.pow_succ]; simp; omega
  have hsum := bmod_cases w (by omega) (x.toInt - y.toInt) (by omega) (by omega)
  rw [BitVec.toInt_sub, hsum]
  by_cases h1 : x.toInt - y.toInt ≥ 2 ^ (w - 1)
  · left; simp [h1]
  · by_cases h3 : x.toInt - y.toInt < -2 ^ (w - 1)
    · right; left; simp [h1, h3]
    · right; right; simp [h1, h3]; omega

/-- **C01-sadd-checked.** `signed_add_overflow_checked` returns the sum exactly when the signed
addition does not overflow. -/
theorem saddChecked_eq (x y : BitVec w) :
    Impl.saddChecked x y = if Ref.scarry x y then none else some (Ref.add x y) := by
  by_cases hw : w = 0
  · subst hw
    have hx := BitVec.of_length_zero (x := x); have hy := BitVec.of_length_zero (x := y)
    subst hx; subst hy; decide
  have hx1 := BitVec.le_toInt x; have hx2 := @BitVec.toInt_lt w x
  have hy1 := BitVec.le_toInt y; have hy2 := @BitVec.toInt_lt w y
  have h2 : (2 : Int) ^ w = 2 * 2 ^ (w - 1) := by
    obtain ⟨k, rfl⟩ : ∃ k, w = k + 1 := ⟨w - 1, by omega⟩
    rw [Int.pow_succ]; simp; omega
  simp only [Impl.saddChecked, Ref.scarry, ← add_eq, BitVec.sle, BitVec.msb_eq_toInt]
  rcases toInt_add_cases x y hw with ⟨h1, hr⟩ | ⟨h1, hr⟩ | ⟨h1, h3, hr⟩ <;> rw [hr] <;>
    by_cases hy : y.toInt < 0 <;> simp only [hy, decide_true, decide_false, ge_iff_le, Bool.or_eq_true, decide_eq_true_eq] <;>
    (first | rw [decide_eq_true (by omega : _ ≤ _)] | rw [decide_eq_false (by omega : ¬ _ ≤ _)]) <;>
    (first | rw [if_pos (by omega)] | rw [if_neg (by omega)]) <;> (try (first | rfl | (exfalso; omega)))

theorem ssubChecked_eq (x y : BitVec w) :
    Impl.ssubChecked x y = if Ref.sborrow x y then none else some (Ref.sub x y) := by
  by_cases hw : w = 0
  · subst hw
    have hx := BitVec.of_length_zero (x := x); have hy := BitVec.of_length_zero (x := y)
    subst hx; subst hy; decide
  have hx1 := BitVec.le_toInt x; have hx2 := @BitVec.toInt_lt w x
  have hy1 := BitVec.le_toInt y; have hy2 := @BitVec.toInt_lt w y
  have h2 : (2 : Int) ^ w = 2 * 2 ^ (w - 1) := by
    obtain ⟨k, rfl⟩ : ∃ k, w = k + 1 := ⟨w - 1, by omega⟩
    rw [Int.pow_succ]; simp; omega
  simp only [Impl.ssubChecked, Ref.sborrow, ← sub_eq, BitVec.sle, BitVec.msb_eq_toInt]
  rcases toInt_sub_cases x y hw with ⟨h1, hr⟩ | ⟨h1, hr⟩ | ⟨h1, h3, hr⟩ <;> rw [hr] <;>
    by_cases hy : y.toInt < 0 <;> simp only [hy, decide_true, decide_false, ge_iff_le, Bool.or_eq_true, decide_eq_true_eq] <;>
    (first | rw [decide_eq_true (by omega : _ ≤ _)] | rw [decide_eq_false (by omega : ¬ _ ≤ _)]) <;>
    (first | rw [if_pos (by omega)] | rw [if_neg (by omega)]) <;> (try (first | rfl | (exfalso; omega)))


theorem toInt_neg_one (hw : w ≠ 0) : (-1#w).toInt = -1 := by
  have : -1#w = BitVec.ofInt w (-1) := by
    have : BitVec.ofInt w (-1) = - BitVec.ofInt w 1 := by rw [← BitVec.ofInt_neg]
    rw [this]; congr 1
  rw [this]
  have h1 : (1 : Int) ≤ 2 ^ (w - 1) := by have := two_pow_pos (w - 1); omega
  exact toInt_ofInt_of_range w (-1) (by omega) (by omega) (by omega)

/-- **C01-smul-flag.** `signed_mult_with_overflow_flag` (widths up to 64 bit) returns the wrapped
product and reports overflow exactly when the mathematical product of the signed values does not
fit — including `-1 * MIN`, the case repaired by the `fix:` commit. -/
theorem smulFlag_eq (x y : BitVec w) (hw : w ≤ 64) :
    Impl.smulFlag x y = some (Ref.mul x y, x.smulOverflow y) := by
  by_cases hw0 : w = 0
  · subst hw0
    have hx := BitVec.of_length_zero (x := x); have hy := BitVec.of_length_zero (x := y)
    subst hx; subst hy; decide
  have hx1 := BitVec.le_toInt x; have hx2 := @BitVec.toInt_lt w x
  have hy1 := BitVec.le_toInt y; have hy2 := @BitVec.toInt_lt w y
  have hp1 : (1 : Int) ≤ 2 ^ (w - 1) := by have := two_pow_pos (w - 1); omega
  have h2 : (2 : Int) ^ w = 2 * 2 ^ (w - 1) := by
    obtain ⟨k, rfl⟩ : ∃ k, w = k + 1 := ⟨w - 1, by omega⟩
    rw [Int.pow_succ]; simp; omega
  unfold Impl.smulFlag
  by_cases hx0 : x = 0#w
  · subst hx0
    simp [Ref.mul, BitVec.smulOverflow]
    omega
  · have hxb : (x == 0#w) = false := by simpa using hx0
    have hw' : ¬ w > 64 := by omega
    simp only [hxb, Bool.false_eq_true, if_false, hw', ← mul_eq]
    congr 1; congr 1
    have hxi : x.toInt ≠ 0 := by
      intro h; apply hx0; apply BitVec.eq_of_toInt_eq; simpa using h
    by_cases hov : x.smulOverflow y = true
    · rw [hov]
      simp only [BitVec.smulOverflow, Bool.or_eq_true, decide_eq_true_eq] at hov
      by_cases hxm : x = -1#w
      · -- -1 * y overflows only for y = MIN: the special case of the fix
        have hym : y = BitVec.intMin w := by
          apply BitVec.eq_of_toInt_eq
          rw [BitVec.toInt_intMin_of_pos (by omega)]
          rw [hxm, toInt_neg_one hw0] at hov
          omega
        simp [hxm, hym]
      · -- otherwise the division check detects it
        have hne : x * y ≠ BitVec.intMin w ∨ x ≠ -1#w := Or.inr hxm
        have hsd := BitVec.toInt_sdiv_of_ne_or_ne (x * y) x hne
        have hr1 := BitVec.le_toInt (x * y); have hr2 := @BitVec.toInt_lt w (x * y)
        have hrm : (x * y).toInt + ((2 ^ w : Nat) : Int) * Int.bdiv (x.toInt * y.toInt) (2 ^ w) = x.toInt * y.toInt := by
          rw [BitVec.toInt_mul]; exact Int.bmod_add_bdiv _ _
        have hcast : ((2 ^ w : Nat) : Int) = 2 ^ w := by simp
        rw [hcast] at hrm
        have hdm := Int.mul_tdiv_add_tmod (x * y).toInt x.toInt
        have habs : ((x * y).toInt.tmod x.toInt).natAbs < x.toInt.natAbs := by
          rw [Int.natAbs_tmod]; exact Nat.mod_lt _ (by omega)
        have hsne : (x * y).sdiv x ≠ y := by
          intro heq
          have hq : (x * y).toInt.tdiv x.toInt = y.toInt := by rw [← hsd, heq]
          rw [hq] at hdm
          -- k ≠ 0 because the product is out of range while the wrapped result is in range
          generalize hk : Int.bdiv (x.toInt * y.toInt) (2 ^ w) = k at hrm
          have hk0 : k ≠ 0 := by
            intro h0; rw [h0] at hrm; omega
          have hmk : (2 : Int) ^ w * k ≥ 2 ^ w ∨ (2 : Int) ^ w * k ≤ -2 ^ w := by
            have hm := two_pow_pos w
            rcases Int.lt_or_gt_of_ne hk0 with hneg | hpos
            · right
              have : (2 : Int) ^ w * k ≤ 2 ^ w * (-1) := Int.mul_le_mul_of_nonneg_left (by omega) (by omega)
              omega
            · left
              have : (2 : Int) ^ w * 1 ≤ 2 ^ w * k := Int.mul_le_mul_of_nonneg_left (by omega) (by omega)
              omega
          omega
        have : ((x * y).sdiv x != y) = true := by simpa using hsne
        simp [this]
    · have hov' : x.smulOverflow y = false := by simpa using hov
      rw [hov']
      have hr := BitVec.toInt_mul_of_not_smulOverflow (x := x) (y := y) (by simp [hov'])
      simp only [BitVec.smulOverflow, Bool.or_eq_false_iff, decide_eq_false_iff_not] at hov'
      have hsp : ((x == -1#w) && (y == BitVec.intMin w)) = false := by
        rw [Bool.and_eq_false_iff]
        by_cases hxm : x = -1#w
        · right
          have : y ≠ BitVec.intMin w := by
            intro hy; subst hxm; subst hy
            rw [toInt_neg_one hw0, BitVec.toInt_intMin_of_pos (by omega)] at hov'
            omega
          simpa using this
        · left; simpa using hxm
      rw [hsp, Bool.false_or]
      have hne : x * y ≠ BitVec.intMin w ∨ x ≠ -1#w := by
        by_cases hxm : x = -1#w
        · left
          intro hm
          have := congrArg BitVec.toInt hm
          rw [hr, BitVec.toInt_intMin_of_pos (by omega), hxm, toInt_neg_one hw0] at this
          omega
        · right; exact hxm
      have hs : ((x * y).sdiv x).toInt = y.toInt := by
        rw [BitVec.toInt_sdiv_of_ne_or_ne _ _ hne, hr, Int.mul_tdiv_cancel_left _ hxi]
      have : (x * y).sdiv x = y := BitVec.eq_of_toInt_eq hs
      simp [this]

end CweModel.C01
