/-
C01 — model of `BitvectorDomain` (`abstract_domain/bitvector.rs`) on top of the bit-vector model
`CweModel.Base.Bv` (`Impl.*` = model of `intermediate_representation/bitvector.rs`, `Ref.*` = P-Code
reference semantics), and `Expression::bytesize`-style result sizes (`RegisterDomain::bin_op_bytesize`).
-/
import CweModel.Base.Bv

namespace CweModel.C01
open CweModel CweModel.IR

/-- `BitvectorDomain` -/
inductive BvDomain where
  | top (bytes : Nat)
  | value (b : Bv)

def BvDomain.bytesize : BvDomain → Nat
  | .top n => n
  | .value b => b.bytes

/-- `RegisterDomain::bin_op_bytesize` (generic implementation in abstract_domain/mod.rs) -/
def binOpBytesize (op : BinOpType) (l r : Nat) : Nat :=
  match op with
  | .Piece => l + r
  | .IntAdd | .IntSub | .IntMult | .IntDiv | .IntSDiv | .IntRem | .IntSRem | .IntLeft
  | .IntRight | .IntSRight | .IntAnd | .IntOr | .IntXOr | .FloatAdd | .FloatSub | .FloatMult
  | .FloatDiv => l
  | _ => 1

/-- result of a domain operation: a domain value, or a panic of the real code -/
inductive DRes where
  | dom (d : BvDomain)
  | panic

/-- the `assert_eq!(self.bytesize(), rhs.bytesize())` of `BitvectorDomain::bin_op` (not for shifts/piece) -/
def binSizeOk (op : BinOpType) (l r : Nat) : Bool :=
  match op with
  | .Piece | .IntLeft | .IntRight | .IntSRight => true
  | _ => l == r

/-- `BitvectorDomain::bin_op` -/
def BvDomain.binOp (op : BinOpType) (a b : BvDomain) : DRes :=
  if !binSizeOk op a.bytesize b.bytesize then .panic else
  match a, b with
  | .value x, .value y =>
    match Impl.binOp op x y with
    | .val v => .dom (.value v)
    | .unknown => .dom (.top (binOpBytesize op a.bytesize b.bytesize))
    | .panic => .panic
  | _, _ => .dom (.top (binOpBytesize op a.bytesize b.bytesize))

/-- `BitvectorDomain::un_op` -/
def BvDomain.unOp (op : UnOpType) (a : BvDomain) : DRes :=
  let topSize := match op with
    | .BoolNegate | .FloatNaN => 1
    | _ => a.bytesize
  match a with
  | .value x =>
    match Impl.unOp op x with
    | .val v => .dom (.value v)
    | .unknown => .dom (.top topSize)
    | .panic => .panic
  | .top _ => .dom (.top topSize)

/-- `BitvectorDomain::cast` -/
def BvDomain.cast (op : CastOpType) (bytes : Nat) (a : BvDomain) : DRes :=
  match a with
  | .value x =>
    match Impl.cast op bytes x with
    | .val v => .dom (.value v)
    | .unknown => .dom (.top bytes)
    | .panic => .panic
  | .top _ => .dom (.top bytes)

/-- `BitvectorDomain::subpiece` -/
def BvDomain.subpiece (low size : Nat) (a : BvDomain) : DRes :=
  match a with
  | .value x =>
    match Impl.subpieceOp low size x with
    | .val v => .dom (.value v)
    | .unknown => .dom (.top size)
    | .panic => .panic
  | .top _ => .dom (.top size)

end CweModel.C01
