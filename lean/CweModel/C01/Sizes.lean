/-
C01 — the size tables REGENERATED from the Rust source on every run (`extract/c01_sizes.py` →
`Gen/C01Sizes.lean`) agree with the model: `binOpBytesize` (C01/Model.lean, used by the domain
theorems) and `Expression.bytesize` (Base/IR.lean, used by every IR-level property).
A change of `bin_op_bytesize` or `Expression::bytesize` in the Rust code changes the generated
table and breaks these theorems at `lake build`.
-/
import CweModel.C01.Model
import CweModel.Gen.C01Sizes

namespace CweModel.C01
open CweModel.IR CweModel.Gen.C01Sizes

def applyClass : SizeClass → Nat → Nat → Nat
  | .sum, l, r => l + r
  | .lhs, l, _ => l
  | .one, _, _ => 1

def lookup (t : List (BinOpType × SizeClass)) (op : BinOpType) : Option SizeClass :=
  (t.find? (·.1 == op)).map (·.2)

/-- the generated variant list is complete -/
theorem binOpVariants_complete : ∀ op : BinOpType, op ∈ binOpVariants := by
  intro op; cases op <;> simp [binOpVariants]

/-- **C01-size-table (translator).** the model's `binOpBytesize` is the table extracted from
`RegisterDomain::bin_op_bytesize` -/
theorem binOpBytesize_eq_generated (op : BinOpType) (l r : Nat) :
    ∃ c, lookup binOpBytesizeTable op = some c ∧ binOpBytesize op l r = applyClass c l r := by
  cases op <;> exact ⟨_, rfl, rfl⟩

/-- **C01-expr-size-table (translator).** `Expression.bytesize` of the IR model is the table extracted
from `Expression::bytesize` -/
theorem exprBytesize_eq_generated (op : BinOpType) (l r : Expression) :
    ∃ c, lookup exprBytesizeTable op = some c ∧
      (Expression.BinOp op l r).bytesize = applyClass c l.bytesize r.bytesize := by
  cases op <;> exact ⟨_, rfl, rfl⟩

/-- both Rust functions agree with each other on every operation -/
theorem generated_tables_agree : binOpBytesizeTable = exprBytesizeTable := by decide

theorem unOpBytesize_eq_generated (op : UnOpType) (a : Expression) :
    (Expression.UnOp op a).bytesize = if unOpSizeOne.contains op then 1 else a.bytesize := by
  cases op <;> rfl

end CweModel.C01
