/-
C05 — `merge_inner`: the loop over the zipped map with the running `merged_range_end` keeps
exactly the cells the reference store's declarative `Spec.merge` keeps, and preserves the
invariant.
-/
import CweModel.C05.Ops

namespace CweModel.C05
open CweModel.MemRegion

variable {V : Type} [ValueDomain V]

/-- an entry of the `zipped` map of `merge_inner` -/
abbrev ZEntry (V : Type) := Int × (Option V × Option V)

/-- `compute_range_end` of an entry -/
def rangeEnd (e : ZEntry V) : Int := computeRangeEnd e.1 e.2.1 e.2.2

/-- `merge_or_merge_with_top` of an entry -/
def outVal (e : ZEntry V) : Option V := mergeOrMergeWithTop e.2.1 e.2.2

/-! ### the zipped map -/

omit [ValueDomain V] in
theorem zip_spec {a b : Region V} (ha : BMap.Sorted a) (hb : BMap.Sorted b) :
    BMap.Sorted (zipRegions a b) ∧
    ∀ e, e ∈ zipRegions a b ↔
      (∃ c ∈ a, e = (c.1, some c.2, BMap.get b c.1)) ∨
      (∃ d ∈ b, (∀ y ∈ a, y.1 ≠ d.1) ∧ e = (d.1, none, some d.2)) := by
  have hda : a.Pairwise (fun x y => x.1 ≠ y.1) := ha.imp (fun {x y} h => by omega)
  obtain ⟨hs1, hm1⟩ := BMap.foldl_insert (fun c : Int × V => c.1)
    (fun c => ((some c.2, BMap.get b c.1) : Option V × Option V)) (m := []) List.Pairwise.nil hda
  -- the second loop inserts the entries of `b` whose key is not in `a`
  have hfold : zipRegions a b =
      (b.filter (fun c => !BMap.containsKey a c.1)).foldl
        (fun z c => BMap.insert z c.1 ((none, some c.2) : Option V × Option V))
        (a.foldl (fun z c => BMap.insert z c.1 (some c.2, BMap.get b c.1)) []) := by
    unfold zipRegions
    rw [List.foldl_filter]
  have hnk : ∀ d : Int × V, (!BMap.containsKey a d.1) = true ↔ ∀ y ∈ a, y.1 ≠ d.1 := by
    intro d
    rw [Bool.not_eq_true', ← Bool.not_eq_true, BMap.containsKey_eq_true]
    exact ⟨fun h y hy hk => h ⟨y, hy, hk⟩, fun h ⟨y, hy, hk⟩ => h y hy hk⟩
  have hdb : (b.filter (fun c => !BMap.containsKey a c.1)).Pairwise (fun x y => x.1 ≠ y.1) :=
    (hb.sublist List.filter_sublist).imp (fun {x y} h => by omega)
  obtain ⟨hs2, hm2⟩ := BMap.foldl_insert (fun c : Int × V => c.1)
    (fun c => ((none, some c.2) : Option V × Option V)) hs1 hdb
  rw [hfold]
  refine ⟨hs2, fun e => ?_⟩
  rw [hm2 e]
  constructor
  · rintro (⟨d, hd, rfl⟩ | ⟨he, _⟩)
    · rw [List.mem_filter] at hd
      exact .inr ⟨d, hd.1, (hnk d).mp hd.2, rfl⟩
    · rcases (hm1 e).mp he with h | ⟨h, _⟩
      · exact .inl h
      · cases h
  · rintro (⟨c, hc, rfl⟩ | ⟨d, hd, hno, rfl⟩)
    · refine .inr ⟨(hm1 _).mpr (.inl ⟨c, hc, rfl⟩), fun d hd => ?_⟩
      rw [List.mem_filter] at hd
      exact ((hnk d).mp hd.2 c hc).symm
    · exact .inl ⟨d, List.mem_filter.mpr ⟨hd, (hnk d).mpr hno⟩, rfl⟩

/-! ### the second loop -/

theorem firstFrom_none {α : Type} {Z : BMap α} {lo : Int} (h : BMap.firstFrom Z lo = none) :
    ∀ e ∈ Z, ¬ lo ≤ e.1 := by
  intro e he
  have := List.find?_eq_none.mp h e he
  simpa using this

theorem firstFrom_some {α : Type} {Z : BMap α} (hs : BMap.Sorted Z) {lo : Int} {f : Int × α}
    (h : BMap.firstFrom Z lo = some f) : f ∈ Z ∧ lo ≤ f.1 ∧ ∀ e ∈ Z, lo ≤ e.1 → f.1 ≤ e.1 := by
  unfold BMap.firstFrom at h
  obtain ⟨hp, as, bs, hZ, has⟩ := List.find?_eq_some_iff_append.mp h
  have hp : lo ≤ f.1 := by simpa using hp
  refine ⟨by rw [hZ]; simp, hp, fun e he hlo => ?_⟩
  rw [hZ] at he hs
  rcases List.mem_append.mp he with he | he
  · have := has e he; simp at this; omega
  · rcases List.mem_cons.mp he with rfl | he
    · omega
    · have := (List.pairwise_cons.mp (List.pairwise_append.mp hs).2.1).1 e he
      omega

/-- `merged_values.insert(index, merged)` if `merge_or_merge_with_top` returned a value -/
def pushOut (acc : Region V) (k : Int) : Option V → Region V
  | some m => BMap.insert acc k m
  | none => acc

omit [ValueDomain V] in
theorem mem_pushOut {acc : Region V} (hs : BMap.Sorted acc) {k : Int} (hk : ∀ y ∈ acc, y.1 ≠ k)
    {o : Option V} {x : Int × V} :
    x ∈ pushOut acc k o ↔ x ∈ acc ∨ (o = some x.2 ∧ x.1 = k) := by
  cases o with
  | none => simp [pushOut]
  | some m =>
    simp only [pushOut, BMap.mem_insert hs, Option.some.injEq]
    constructor
    · rintro (rfl | ⟨hx, _⟩)
      · exact .inr ⟨rfl, rfl⟩
      · exact .inl hx
    · rintro (hx | ⟨rfl, rfl⟩)
      · exact .inr ⟨hx, hk x hx⟩
      · exact .inl rfl

omit [ValueDomain V] in
theorem sorted_pushOut {acc : Region V} (hs : BMap.Sorted acc) (k : Int) (o : Option V) :
    BMap.Sorted (pushOut acc k o) := by
  cases o with
  | none => exact hs
  | some m => exact hs.insert k m

theorem mergeStep_keep {Z : BMap (Option V × Option V)} (hs : BMap.Sorted Z) {mre : Int}
    {e : ZEntry V} (acc : Region V) (h1 : mre ≤ e.1)
    (h2 : ∀ e' ∈ Z, e.1 + 1 ≤ e'.1 → rangeEnd e ≤ e'.1) :
    mergeStep Z mre e acc = pushOut acc e.1 (outVal e) := by
  unfold mergeStep
  have h1' : e.1 ≥ mre := h1
  simp only [h1', if_true]
  cases hf : BMap.firstFrom Z (e.1 + 1) with
  | none =>
    dsimp only
    cases ho : mergeOrMergeWithTop e.2.1 e.2.2 <;> simp [pushOut, outVal, ho]
  | some f =>
    obtain ⟨hfZ, hflo, _⟩ := firstFrom_some hs hf
    have := h2 f hfZ hflo
    obtain ⟨nk, nv⟩ := f
    have hge : nk ≥ computeRangeEnd e.1 e.2.1 e.2.2 := this
    simp only [hge, if_true]
    cases ho : mergeOrMergeWithTop e.2.1 e.2.2 <;> simp [pushOut, outVal, ho]

theorem mergeStep_drop {Z : BMap (Option V × Option V)} (hs : BMap.Sorted Z) {mre : Int}
    {e : ZEntry V} (acc : Region V)
    (h : ¬ (mre ≤ e.1 ∧ ∀ e' ∈ Z, e.1 + 1 ≤ e'.1 → rangeEnd e ≤ e'.1)) :
    mergeStep Z mre e acc = acc := by
  unfold mergeStep
  by_cases h1 : e.1 ≥ mre
  · simp only [h1, if_true]
    cases hf : BMap.firstFrom Z (e.1 + 1) with
    | none =>
      exfalso; apply h
      exact ⟨h1, fun e' he' hlo => absurd hlo (firstFrom_none hf e' he')⟩
    | some f =>
      obtain ⟨hfZ, hflo, hmin⟩ := firstFrom_some hs hf
      obtain ⟨nk, nv⟩ := f
      have hlt : ¬ nk ≥ computeRangeEnd e.1 e.2.1 e.2.2 := by
        intro hge; apply h
        refine ⟨h1, fun e' he' hlo => ?_⟩
        have := hmin e' he' hlo
        simp only [rangeEnd]; simp only [] at this; omega
      simp only [hlt, if_false]
  · simp only [h1, if_false]

/-- entry `e` of the zipped map `Z` overlaps no other entry (and `i64::MIN ≤ index`) -/
def Iso (Z : BMap (Option V × Option V)) (e : ZEntry V) : Prop :=
  i64Min ≤ e.1 ∧ (∀ d ∈ Z, d.1 < e.1 → rangeEnd d ≤ e.1) ∧ (∀ e' ∈ Z, e.1 < e'.1 → rangeEnd e ≤ e'.1)

theorem mergeLoop_spec {Z : BMap (Option V × Option V)} (hZ : BMap.Sorted Z) :
    ∀ (todo done : List (ZEntry V)) (mre : Int) (acc : Region V), Z = done ++ todo →
      (∀ k, mre ≤ k ↔ (i64Min ≤ k ∧ ∀ d ∈ done, rangeEnd d ≤ k)) →
      BMap.Sorted acc → (∀ x ∈ acc, ∀ e ∈ todo, x.1 ≠ e.1) →
      BMap.Sorted (mergeLoop Z todo mre acc) ∧
      ∀ x, x ∈ mergeLoop Z todo mre acc ↔
        x ∈ acc ∨ ∃ e ∈ todo, Iso Z e ∧ outVal e = some x.2 ∧ x.1 = e.1 := by
  intro todo
  induction todo with
  | nil => intro done mre acc _ _ hacc _; simp [mergeLoop, hacc]
  | cons e rest ih =>
    intro done mre acc hsplit hmre hacc hkeys
    -- in the sorted `Z = done ++ e :: rest`, the entries before `e` are those of `done`
    have hsZ := hZ
    rw [hsplit] at hsZ
    have hdone_lt : ∀ d ∈ done, d.1 < e.1 := fun d hd =>
      (List.pairwise_append.mp hsZ).2.2 d hd e List.mem_cons_self
    have hrest_gt : ∀ r ∈ rest, e.1 < r.1 :=
      (List.pairwise_cons.mp (List.pairwise_append.mp hsZ).2.1).1
    have hbefore : (∀ d ∈ Z, d.1 < e.1 → rangeEnd d ≤ e.1) ↔ ∀ d ∈ done, rangeEnd d ≤ e.1 := by
      constructor
      · intro h d hd
        exact h d (by rw [hsplit]; exact List.mem_append_left _ hd) (hdone_lt d hd)
      · intro h d hd hlt
        rw [hsplit] at hd
        rcases List.mem_append.mp hd with hd | hd
        · exact h d hd
        · rcases List.mem_cons.mp hd with rfl | hd
          · omega
          · have := hrest_gt d hd; omega
    have hcond : (mre ≤ e.1 ∧ ∀ e' ∈ Z, e.1 + 1 ≤ e'.1 → rangeEnd e ≤ e'.1) ↔ Iso Z e := by
      unfold Iso
      rw [hmre e.1, hbefore]
      constructor
      · rintro ⟨⟨h1, h2⟩, h3⟩; exact ⟨h1, h2, fun e' he' hlt => h3 e' he' (by omega)⟩
      · rintro ⟨h1, h2, h3⟩; exact ⟨⟨h1, h2⟩, fun e' he' hlt => h3 e' he' (by omega)⟩
    have hkacc : ∀ y ∈ acc, y.1 ≠ e.1 := fun y hy => hkeys y hy e List.mem_cons_self
    -- the step
    have hstep : BMap.Sorted (mergeStep Z mre e acc) ∧
        ∀ x, x ∈ mergeStep Z mre e acc ↔ x ∈ acc ∨ (Iso Z e ∧ outVal e = some x.2 ∧ x.1 = e.1) := by
      by_cases hc : mre ≤ e.1 ∧ ∀ e' ∈ Z, e.1 + 1 ≤ e'.1 → rangeEnd e ≤ e'.1
      · rw [mergeStep_keep hZ acc hc.1 hc.2]
        refine ⟨sorted_pushOut hacc _ _, fun x => ?_⟩
        rw [mem_pushOut hacc hkacc]
        have := hcond.mp hc
        exact ⟨fun h => h.imp id (fun h => ⟨this, h⟩), fun h => h.imp id (fun h => h.2)⟩
      · rw [mergeStep_drop hZ acc hc]
        refine ⟨hacc, fun x => ⟨.inl, fun h => ?_⟩⟩
        rcases h with h | ⟨h, _⟩
        · exact h
        · exact absurd (hcond.mpr h) hc
    have hmre' : ∀ k, max mre (computeRangeEnd e.1 e.2.1 e.2.2) ≤ k ↔
        (i64Min ≤ k ∧ ∀ d ∈ done ++ [e], rangeEnd d ≤ k) := by
      intro k
      have := hmre k
      simp only [List.mem_append, List.mem_singleton]
      constructor
      · intro h
        have h1 : mre ≤ k := by omega
        have h2 : rangeEnd e ≤ k := by simp only [rangeEnd]; omega
        refine ⟨(this.mp h1).1, fun d hd => ?_⟩
        rcases hd with hd | rfl
        · exact (this.mp h1).2 d hd
        · exact h2
      · rintro ⟨h1, h2⟩
        have h3 : mre ≤ k := this.mpr ⟨h1, fun d hd => h2 d (.inl hd)⟩
        have h4 := h2 e (.inr rfl)
        simp only [rangeEnd] at h4; omega
    have hkeys' : ∀ x ∈ mergeStep Z mre e acc, ∀ r ∈ rest, x.1 ≠ r.1 := by
      intro x hx r hr
      rcases (hstep.2 x).mp hx with hx | ⟨_, _, hk⟩
      · exact hkeys x hx r (List.mem_cons_of_mem _ hr)
      · have := hrest_gt r hr; omega
    have := ih (done ++ [e]) (max mre (computeRangeEnd e.1 e.2.1 e.2.2)) (mergeStep Z mre e acc)
      (by rw [hsplit]; simp) hmre' hstep.1 hkeys'
    unfold mergeLoop
    refine ⟨this.1, fun x => ?_⟩
    rw [this.2 x, hstep.2 x]
    constructor
    · rintro ((h | h) | ⟨e', he', h⟩)
      · exact .inl h
      · exact .inr ⟨e, List.mem_cons_self, h⟩
      · exact .inr ⟨e', List.mem_cons_of_mem _ he', h⟩
    · rintro (h | ⟨e', he', h⟩)
      · exact .inl (.inl h)
      · rcases List.mem_cons.mp he' with rfl | he'
        · exact .inl (.inr h)
        · exact .inr ⟨e', he', h⟩

/-- `merge_inner` as a set of cells: the isolated entries of the zipped map, merged -/
theorem mergeInner_spec {a b : Region V} (ha : BMap.Sorted a) (hb : BMap.Sorted b) :
    BMap.Sorted (mergeInner a b) ∧
    ∀ x, x ∈ mergeInner a b ↔
      ∃ e ∈ zipRegions a b, Iso (zipRegions a b) e ∧ outVal e = some x.2 ∧ x.1 = e.1 := by
  obtain ⟨hsZ, _⟩ := zip_spec ha hb
  have := mergeLoop_spec hsZ (zipRegions a b) [] i64Min [] (by simp)
    (fun k => by simp) List.Pairwise.nil (fun x hx => nomatch hx)
  unfold mergeInner
  refine ⟨this.1, fun x => ?_⟩
  rw [this.2 x]
  simp

/-! ### entries of the zipped map versus cells of the two inputs -/

theorem zip_before {a b : Region V} (ha : BMap.Sorted a) (hb : BMap.Sorted b) (k : Int) :
    (∀ d ∈ zipRegions a b, d.1 < k → rangeEnd d ≤ k) ↔
      (∀ y, (y ∈ a ∨ y ∈ b) → y.1 < k → y.1 + isize y.2 ≤ k) := by
  obtain ⟨_, hm⟩ := zip_spec ha hb
  constructor
  · intro h y hy hlt
    rcases hy with hy | hy
    · have := h _ ((hm _).mpr (.inl ⟨y, hy, rfl⟩)) hlt
      revert this
      cases BMap.get b y.1 <;> simp only [rangeEnd, computeRangeEnd] <;> omega
    · by_cases hex : ∃ c ∈ a, c.1 = y.1
      · obtain ⟨c, hc, hk⟩ := hex
        have hg : BMap.get b c.1 = some y.2 := BMap.get_of_mem hb (by rw [hk]; exact hy)
        have := h _ ((hm _).mpr (.inl ⟨c, hc, rfl⟩)) (by simp only []; omega)
        rw [hg] at this
        simp only [rangeEnd, computeRangeEnd] at this; omega
      · have hno : ∀ c ∈ a, c.1 ≠ y.1 := fun c hc hk => hex ⟨c, hc, hk⟩
        have := h _ ((hm _).mpr (.inr ⟨y, hy, hno, rfl⟩)) hlt
        simpa only [rangeEnd, computeRangeEnd] using this
  · intro h d hd hlt
    rcases (hm d).mp hd with ⟨c, hc, rfl⟩ | ⟨d', hd', _, rfl⟩
    · have h1 := h c (.inl hc) hlt
      cases hg : BMap.get b c.1 with
      | none => simpa only [rangeEnd, computeRangeEnd] using h1
      | some dv =>
        have h2 := h (c.1, dv) (.inr (BMap.mem_of_get hg)) hlt
        simp only [rangeEnd, computeRangeEnd] at h2 ⊢; omega
    · simpa only [rangeEnd, computeRangeEnd] using h d' (.inr hd') hlt

omit [ValueDomain V] in
theorem zip_after {a b : Region V} (ha : BMap.Sorted a) (hb : BMap.Sorted b) (k E : Int) :
    (∀ e' ∈ zipRegions a b, k < e'.1 → E ≤ e'.1) ↔
      (∀ y, (y ∈ a ∨ y ∈ b) → k < y.1 → E ≤ y.1) := by
  obtain ⟨_, hm⟩ := zip_spec ha hb
  constructor
  · intro h y hy hlt
    rcases hy with hy | hy
    · exact h _ ((hm _).mpr (.inl ⟨y, hy, rfl⟩)) hlt
    · by_cases hex : ∃ c ∈ a, c.1 = y.1
      · obtain ⟨c, hc, hk⟩ := hex
        have := h _ ((hm _).mpr (.inl ⟨c, hc, rfl⟩)) (by simp only []; omega)
        simp only [] at this; omega
      · have hno : ∀ c ∈ a, c.1 ≠ y.1 := fun c hc hk => hex ⟨c, hc, hk⟩
        exact h _ ((hm _).mpr (.inr ⟨y, hy, hno, rfl⟩)) hlt
  · intro h e' he' hlt
    rcases (hm e').mp he' with ⟨c, hc, rfl⟩ | ⟨d', hd', _, rfl⟩
    · exact h c (.inl hc) hlt
    · exact h d' (.inr hd') hlt

theorem cellsOverlap_iff {c d : Int × V} :
    cellsOverlap c d = true ↔ c.1 < d.1 + isize d.2 ∧ d.1 < c.1 + isize c.2 := by
  simp [cellsOverlap, overlaps]

theorem sameSlot_iff {c d : Int × V} : sameSlot c d = true ↔ c.1 = d.1 ∧ size c.2 = size d.2 := by
  simp [sameSlot]

/-- an entry whose cell(s) are disjoint from all other cells of both inputs is isolated -/
theorem iso_of_disjoint {a b : Region V} (ha : BMap.Sorted a) (hb : BMap.Sorted b) (e : ZEntry V)
    (hmin : i64Min ≤ e.1)
    (h1 : ∀ y, (y ∈ a ∨ y ∈ b) → y.1 < e.1 → y.1 + isize y.2 ≤ e.1)
    (h2 : ∀ y, (y ∈ a ∨ y ∈ b) → e.1 < y.1 → rangeEnd e ≤ y.1) : Iso (zipRegions a b) e :=
  ⟨hmin, (zip_before ha hb e.1).mpr h1, (zip_after ha hb e.1 (rangeEnd e)).mpr h2⟩

/-! ### `merge_inner` refines the reference merge -/

/-- the entry of a cell of the left input -/
theorem merge_left {a b : Region V} (ha : Inv a) (hb : Inv b) (hba : LowerBounded a)
    {c : Int × V} (hc : c ∈ a) (x : Int × V) :
    (match b.find? (sameSlot c) with
      | some d => keepNonTop c.1 (merge c.2 d.2)
      | none => if b.any (cellsOverlap c) then none
                else keepNonTop c.1 (merge c.2 (newTop (size c.2)))) = some x ↔
    (Iso (zipRegions a b) (c.1, some c.2, BMap.get b c.1) ∧
      outVal ((c.1, some c.2, BMap.get b c.1) : ZEntry V) = some x.2 ∧ x.1 = c.1) := by
  have hposc := ha.pos hc
  cases hg : BMap.get b c.1 with
  | some dv =>
    have hd : (c.1, dv) ∈ b := BMap.mem_of_get hg
    have hposd : 0 < isize dv := hb.pos hd
    have huniq : ∀ d' ∈ b, d'.1 = c.1 → d' = (c.1, dv) := fun d' hd' hk => hb.key_inj hd' hd hk
    by_cases hsz : size c.2 = size dv
    · -- same slot in both inputs
      have hfind : b.find? (sameSlot c) = some (c.1, dv) := by
        cases hf : b.find? (sameSlot c) with
        | none =>
          have := List.find?_eq_none.mp hf _ hd
          exact absurd ((sameSlot_iff (c := c) (d := (c.1, dv))).mpr ⟨rfl, hsz⟩) this
        | some d' =>
          have h1 := List.mem_of_find?_eq_some hf
          have h2 := sameSlot_iff.mp (List.find?_some (p := fun d : Int × V => sameSlot c d) hf)
          rw [huniq d' h1 h2.1.symm]
      have hiso : Iso (zipRegions a b) (c.1, some c.2, some dv) := by
        refine iso_of_disjoint ha.sorted hb.sorted _ (hba c hc) ?_ ?_
        · rintro y (hy | hy) hlt
          · exact ha.lt_disjoint hy hc hlt
          · have := hb.lt_disjoint hy hd hlt
            exact this
        · rintro y (hy | hy) hlt
          · have := ha.lt_disjoint hc hy hlt
            have h' : isize c.2 = isize dv := by simp only [isize, hsz]
            simp only [rangeEnd, computeRangeEnd, h'] at this ⊢; omega
          · have := hb.lt_disjoint hd hy hlt
            have h' : isize c.2 = isize dv := by simp only [isize, hsz]
            simp only [rangeEnd, computeRangeEnd, h'] at this ⊢; omega
      rw [hfind]
      simp only [keepNonTop_eq_some, outVal, mergeOrMergeWithTop, hsz, if_true]
      constructor
      · rintro ⟨ht, rfl⟩; exact ⟨hiso, by simp [ht], rfl⟩
      · rintro ⟨_, ho, hk⟩
        cases ht : isTop (merge c.2 dv)
        · simp [ht] at ho
          exact ⟨rfl, Prod.ext hk ho.symm⟩
        · simp [ht] at ho
    · -- same offset, different sizes: dropped by both
      have hfind : b.find? (sameSlot c) = none := by
        rw [List.find?_eq_none]
        intro d' hd' hs
        have := sameSlot_iff.mp hs
        rw [huniq d' hd' this.1.symm] at this
        exact hsz this.2
      have hany : b.any (cellsOverlap c) = true :=
        List.any_eq_true.mpr ⟨(c.1, dv), hd, cellsOverlap_iff.mpr ⟨by simp only []; omega, by simp only []; omega⟩⟩
      rw [hfind]
      simp [hany, outVal, mergeOrMergeWithTop, hsz]
  | none =>
    have hnokey := BMap.get_eq_none.mp hg
    have hfind : b.find? (sameSlot c) = none := by
      rw [List.find?_eq_none]
      intro d' hd' hs
      exact hnokey d' hd' (sameSlot_iff.mp hs).1.symm
    rw [hfind]
    -- isolated iff no cell of `b` shares a byte with `c`
    have hiso : Iso (zipRegions a b) (c.1, some c.2, none) ↔ b.any (cellsOverlap c) = false := by
      rw [Bool.eq_false_iff, Ne, List.any_eq_true]
      constructor
      · rintro ⟨_, h1, h2⟩ ⟨d, hd, hov⟩
        have hov := cellsOverlap_iff.mp hov
        have h1 := (zip_before ha.sorted hb.sorted c.1).mp h1 d (.inr hd)
        have h2 := (zip_after ha.sorted hb.sorted c.1 _).mp h2 d (.inr hd)
        have hne := hnokey d hd
        simp only [rangeEnd, computeRangeEnd] at h1 h2
        omega
      · intro hno
        refine iso_of_disjoint ha.sorted hb.sorted _ (hba c hc) ?_ ?_
        · rintro y (hy | hy) hlt
          · exact ha.lt_disjoint hy hc hlt
          · simp only [] at hlt ⊢
            have hp := hb.pos hy
            refine Int.not_lt.mp (fun hh => hno ⟨y, hy, cellsOverlap_iff.mpr ⟨by omega, by omega⟩⟩)
        · rintro y (hy | hy) hlt
          · have := ha.lt_disjoint hc hy hlt
            simpa only [rangeEnd, computeRangeEnd] using this
          · simp only [rangeEnd, computeRangeEnd] at hlt ⊢
            have hp := hb.pos hy
            refine Int.not_lt.mp (fun hh => hno ⟨y, hy, cellsOverlap_iff.mpr ⟨by omega, by omega⟩⟩)
    cases hany : b.any (cellsOverlap c)
    · simp only [Bool.false_eq_true, if_false, keepNonTop_eq_some, outVal, mergeOrMergeWithTop]
      constructor
      · rintro ⟨ht, rfl⟩; exact ⟨hiso.mpr hany, by simp [ht], rfl⟩
      · rintro ⟨_, ho, hk⟩
        cases ht : isTop (merge c.2 (newTop (size c.2)))
        · simp [ht] at ho
          exact ⟨rfl, Prod.ext hk ho.symm⟩
        · simp [ht] at ho
    · simp only [if_true]
      constructor
      · intro h; cases h
      · rintro ⟨hi, _⟩
        rw [hiso.mp hi] at hany; cases hany

/-- the entry of a cell of the right input -/
theorem merge_right {a b : Region V} (ha : Inv a) (hb : Inv b) (hbb : LowerBounded b)
    {d : Int × V} (hd : d ∈ b) (x : Int × V) :
    (if a.any (sameSlot d) then none
      else if a.any (cellsOverlap d) then none
      else keepNonTop d.1 (merge d.2 (newTop (size d.2)))) = some x ↔
    ((∀ y ∈ a, y.1 ≠ d.1) ∧ Iso (zipRegions a b) (d.1, none, some d.2) ∧
      outVal ((d.1, none, some d.2) : ZEntry V) = some x.2 ∧ x.1 = d.1) := by
  have hposd := hb.pos hd
  by_cases hkey : ∃ y ∈ a, y.1 = d.1
  · obtain ⟨y, hy, hk⟩ := hkey
    have hposy := ha.pos hy
    have hov : a.any (cellsOverlap d) = true :=
      List.any_eq_true.mpr ⟨y, hy, cellsOverlap_iff.mpr ⟨by omega, by omega⟩⟩
    constructor
    · intro h
      cases hs : a.any (sameSlot d) <;> simp [hs, hov] at h
    · rintro ⟨hno, _⟩; exact absurd hk (hno y hy)
  · have hnokey : ∀ y ∈ a, y.1 ≠ d.1 := fun y hy hk => hkey ⟨y, hy, hk⟩
    have hslot : a.any (sameSlot d) = false := by
      rw [Bool.eq_false_iff, Ne, List.any_eq_true]
      rintro ⟨y, hy, hs⟩
      exact hnokey y hy (sameSlot_iff.mp hs).1.symm
    have hiso : Iso (zipRegions a b) (d.1, none, some d.2) ↔ a.any (cellsOverlap d) = false := by
      rw [Bool.eq_false_iff, Ne, List.any_eq_true]
      constructor
      · rintro ⟨_, h1, h2⟩ ⟨y, hy, hov⟩
        have hov := cellsOverlap_iff.mp hov
        have h1 := (zip_before ha.sorted hb.sorted d.1).mp h1 y (.inl hy)
        have h2 := (zip_after ha.sorted hb.sorted d.1 _).mp h2 y (.inl hy)
        have hne := hnokey y hy
        simp only [rangeEnd, computeRangeEnd] at h1 h2
        omega
      · intro hno
        refine iso_of_disjoint ha.sorted hb.sorted _ (hbb d hd) ?_ ?_
        · rintro y (hy | hy) hlt
          · simp only [] at hlt ⊢
            have hp := ha.pos hy
            refine Int.not_lt.mp (fun hh => hno ⟨y, hy, cellsOverlap_iff.mpr ⟨by omega, by omega⟩⟩)
          · exact hb.lt_disjoint hy hd hlt
        · rintro y (hy | hy) hlt
          · simp only [rangeEnd, computeRangeEnd] at hlt ⊢
            have hp := ha.pos hy
            refine Int.not_lt.mp (fun hh => hno ⟨y, hy, cellsOverlap_iff.mpr ⟨by omega, by omega⟩⟩)
          · have := hb.lt_disjoint hd hy hlt
            simpa only [rangeEnd, computeRangeEnd] using this
    simp only [hslot, Bool.false_eq_true, if_false]
    cases hany : a.any (cellsOverlap d)
    · simp only [Bool.false_eq_true, if_false, keepNonTop_eq_some, outVal, mergeOrMergeWithTop]
      constructor
      · rintro ⟨ht, rfl⟩; exact ⟨hnokey, hiso.mpr hany, by simp [ht], rfl⟩
      · rintro ⟨_, _, ho, hk⟩
        cases ht : isTop (merge d.2 (newTop (size d.2)))
        · simp [ht] at ho
          exact ⟨rfl, Prod.ext hk ho.symm⟩
        · simp [ht] at ho
    · simp only [if_true]
      constructor
      · intro h; cases h
      · rintro ⟨_, hi, _⟩
        rw [hiso.mp hi] at hany; cases hany

/-- **`merge_inner` = reference merge** (as sets of cells). Only `i64::MIN ≤ position` is needed of
the operands (`LowerBounded`: the loop starts with `merged_range_end = i64::MIN`); cell ends may
exceed `i64::MAX` (the repaired code computes them in i128). -/
theorem mem_mergeInner_lb {a b : Region V} (ha : Inv a) (hb : Inv b) (hba : LowerBounded a) (hbb : LowerBounded b)
    {x : Int × V} : x ∈ mergeInner a b ↔ x ∈ Spec.merge a b := by
  rw [(mergeInner_spec ha.sorted hb.sorted).2 x]
  obtain ⟨_, hm⟩ := zip_spec ha.sorted hb.sorted
  unfold Spec.merge
  rw [List.mem_append, List.mem_filterMap, List.mem_filterMap]
  constructor
  · rintro ⟨e, he, hiso, ho, hk⟩
    rcases (hm e).mp he with ⟨c, hc, rfl⟩ | ⟨d, hd, hno, rfl⟩
    · exact .inl ⟨c, hc, (merge_left ha hb hba hc x).mpr ⟨hiso, ho, hk⟩⟩
    · exact .inr ⟨d, hd, (merge_right ha hb hbb hd x).mpr ⟨hno, hiso, ho, hk⟩⟩
  · rintro (⟨c, hc, h⟩ | ⟨d, hd, h⟩)
    · obtain ⟨hiso, ho, hk⟩ := (merge_left ha hb hba hc x).mp h
      exact ⟨_, (hm _).mpr (.inl ⟨c, hc, rfl⟩), hiso, ho, hk⟩
    · obtain ⟨hno, hiso, ho, hk⟩ := (merge_right ha hb hbb hd x).mp h
      exact ⟨_, (hm _).mpr (.inr ⟨d, hd, hno, rfl⟩), hiso, ho, hk⟩

theorem lowerBounded_of_bounded {r : Region V} (h : Bounded r) : LowerBounded r := fun c hc => (h c hc).1

/-- `mem_mergeInner_lb` for operands whose cells end inside i64 -/
theorem mem_mergeInner {a b : Region V} (ha : Inv a) (hb : Inv b) (hba : Bounded a) (hbb : Bounded b)
    {x : Int × V} : x ∈ mergeInner a b ↔ x ∈ Spec.merge a b :=
  mem_mergeInner_lb ha hb (lowerBounded_of_bounded hba) (lowerBounded_of_bounded hbb)

/-- where a cell of the reference merge comes from -/
theorem Spec.merge_source [LawfulValueDomain V] {a b : Store V} {x : Int × V}
    (hx : x ∈ Spec.merge a b) :
    isTop x.2 = false ∧
    ((∃ c ∈ a, c.1 = x.1 ∧ size c.2 = size x.2) ∨
     (∃ d ∈ b, d.1 = x.1 ∧ size d.2 = size x.2 ∧ ∀ c ∈ a, cellsOverlap d c = false)) := by
  unfold Spec.merge at hx
  rw [List.mem_append, List.mem_filterMap, List.mem_filterMap] at hx
  rcases hx with ⟨c, hc, h⟩ | ⟨d, hd, h⟩
  · cases hf : b.find? (sameSlot c) with
    | some d =>
      have hs := sameSlot_iff.mp (List.find?_some (p := fun d : Int × V => sameSlot c d) hf)
      rw [hf] at h
      obtain ⟨ht, rfl⟩ := keepNonTop_eq_some.mp h
      exact ⟨ht, .inl ⟨c, hc, rfl, (LawfulValueDomain.size_merge _ _ hs.2).symm⟩⟩
    | none =>
      rw [hf] at h
      cases hany : b.any (cellsOverlap c)
      · simp only [hany, Bool.false_eq_true, if_false] at h
        obtain ⟨ht, rfl⟩ := keepNonTop_eq_some.mp h
        exact ⟨ht, .inl ⟨c, hc, rfl, (size_merge_newTop c.2).symm⟩⟩
      · simp [hany] at h
  · cases hs : a.any (sameSlot d)
    · cases hany : a.any (cellsOverlap d)
      · simp only [hs, hany, Bool.false_eq_true, if_false] at h
        obtain ⟨ht, rfl⟩ := keepNonTop_eq_some.mp h
        refine ⟨ht, .inr ⟨d, hd, rfl, (size_merge_newTop d.2).symm, fun c hc => ?_⟩⟩
        rw [Bool.eq_false_iff]
        exact fun hov => by
          have := List.any_eq_true.mpr ⟨c, hc, hov⟩
          rw [hany] at this; cases this
      · simp [hs, hany] at h
    · simp [hs] at h

/-- **`merge_inner` preserves the invariant** -/
theorem inv_mergeInner_lb [LawfulValueDomain V] {a b : Region V} (ha : Inv a) (hb : Inv b)
    (hba : LowerBounded a) (hbb : LowerBounded b) : Inv (mergeInner a b) := by
  have hsrc : ∀ x ∈ mergeInner a b, _ := fun x hx => Spec.merge_source ((mem_mergeInner_lb ha hb hba hbb).mp hx)
  refine inv_of_sorted (mergeInner_spec ha.sorted hb.sorted).1 ?_ ?_ (fun x hx => (hsrc x hx).1)
  · intro x hx y hy hlt
    rcases (hsrc x hx).2 with ⟨c, hc, hk, hs⟩ | ⟨d, hd, hk, hs, hno⟩ <;>
    rcases (hsrc y hy).2 with ⟨c', hc', hk', hs'⟩ | ⟨d', hd', hk', hs', hno'⟩
    · have := ha.lt_disjoint hc hc' (by omega)
      simp only [isize] at this ⊢; omega
    · have := hno' c hc
      rw [Bool.eq_false_iff, Ne, cellsOverlap_iff] at this
      have hp := hb.pos hd'
      simp only [isize] at this hp ⊢; omega
    · have := hno c' hc'
      rw [Bool.eq_false_iff, Ne, cellsOverlap_iff] at this
      have hp := ha.pos hc'
      simp only [isize] at this hp ⊢; omega
    · have := hb.lt_disjoint hd hd' (by omega)
      simp only [isize] at this ⊢; omega
  · intro x hx
    rcases (hsrc x hx).2 with ⟨c, hc, _, hs⟩ | ⟨d, hd, _, hs, _⟩
    · have := ha.posSizes c hc; omega
    · have := hb.posSizes d hd; omega

theorem inv_mergeInner [LawfulValueDomain V] {a b : Region V} (ha : Inv a) (hb : Inv b)
    (hba : Bounded a) (hbb : Bounded b) : Inv (mergeInner a b) :=
  inv_mergeInner_lb ha hb (lowerBounded_of_bounded hba) (lowerBounded_of_bounded hbb)

end CweModel.C05
