/-
C05 — property theorems. Statement of the property:

  After any sequence of writes, removals, top-writes, offset shifts and merges on an abstract
  memory region, no two stored cells overlap and no stored cell is the unknown value. A read at
  an offset with a size returns the value last written there with exactly that offset and size
  unless a later operation touched an overlapping byte, and the unknown value otherwise; a merge
  keeps only cells that both inputs hold at the same offset with the same size (merged) or that
  overlap nothing in the other input.

Model: `CweModel/Base/MemRegion.lean` (one definition per function of `mem_region.rs`),
histories and the reference cell store: `CweModel/C05/Model.lean`. Per-operation lemmas:
`Lemmas.lean`, `Ops.lean`, `Merge.lean`.

Preconditions made explicit (`Pre`): sizes are positive (the Rust code asserts it), top-write
intervals are non-empty, and the offsets of the two operands of a merge are not below `i64::MIN`
(`LowerBounded`; `merge_inner` starts its running range end at `i64::MIN`).

Positions are `Int`s in the model. The last section ("positions representable in i64") ties this
to the code, whose positions are i64 values: the repaired interval arithmetic of `mem_region.rs`
(interval ends in i128, range `position..` when `position + size` exceeds `i64::MAX`) is
modelled literally (`stepI64`) and proved equal to the `Int` model for ALL i64 positions —
including those at and next to `i64::MAX` — under the explicit hypotheses `KeysI64`/`OpI64`.
-/
import CweModel.C05.Merge

namespace CweModel.C05
open CweModel.MemRegion

/-! ### the three value domains of the correspondence run satisfy the domain laws -/

instance : LawfulValueDomain BvVal where
  size_newTop _ := rfl
  isTop_newTop _ := rfl
  topOf_eq _ := rfl
  size_merge a b _ := by
    show BvVal.size (if a = b then a else .top a.size) = a.size
    split <;> rfl

instance : LawfulValueDomain TaintVal where
  size_newTop _ := rfl
  isTop_newTop _ := rfl
  topOf_eq _ := rfl
  size_merge a b h := by
    cases a <;> cases b <;> first | rfl | exact h.symm

instance : LawfulValueDomain DataVal where
  size_newTop _ := rfl
  isTop_newTop _ := rfl
  topOf_eq _ := rfl
  size_merge _ _ _ := rfl

/-- merging a value with itself gives the value (needed only for the `self == other`
short-circuit of `AbstractDomain::merge` on regions) -/
class IdemMerge (V : Type) [ValueDomain V] : Prop where
  merge_idem : ∀ v : V, merge v v = v

instance : IdemMerge BvVal := ⟨fun v => by show (if v = v then v else _) = v; simp⟩
instance : IdemMerge TaintVal := ⟨fun v => by cases v <;> rfl⟩
instance : IdemMerge DataVal := ⟨fun v => by
  obtain ⟨s, a, f⟩ := v
  show DataVal.mk _ _ _ = _
  congr
  · cases a with
    | none => rfl
    | some l => show some (if l = l then l else _) = some l; simp
  · simp⟩

variable {V : Type} [ValueDomain V]

/-! ### preconditions -/

/-- hypotheses of the property on one operation applied to region `r` -/
def Pre (r : Region V) : Op V → Prop
  | .insert _ v => 0 < size v
  | .remove _ n => 0 < n
  | .mergeWriteTop _ n => 0 < n
  | .markInterval s e n => s < e + (n : Int)
  | .merge other => Inv other ∧ LowerBounded other ∧ LowerBounded r
  | _ => True

/-- the preconditions hold along the whole history -/
def PreAll [DecidableEq V] (r : Region V) : List (Op V) → Prop
  | [] => True
  | op :: ops => Pre r op ∧ ∀ r', step r op = some r' → PreAll r' ops

theorem Pre.specPre {r : Region V} {op : Op V} (h : Pre r op) : Spec.pre op = true := by
  cases op <;> simp_all [Pre, Spec.pre]

/-! ### same set of cells -/

/-- two cell lists hold the same cells (the reference store is unsorted) -/
def SameCells (s s' : List (Int × V)) : Prop := ∀ x, x ∈ s ↔ x ∈ s'

omit [ValueDomain V] in
theorem SameCells.refl (s : List (Int × V)) : SameCells s s := fun _ => Iff.rfl
omit [ValueDomain V] in
theorem SameCells.symm {s s' : List (Int × V)} (h : SameCells s s') : SameCells s' s := fun x => (h x).symm
omit [ValueDomain V] in
theorem SameCells.trans {s s' s'' : List (Int × V)} (h : SameCells s s') (h' : SameCells s' s'') :
    SameCells s s'' := fun x => (h x).trans (h' x)

omit [ValueDomain V] in
theorem SameCells.filter {s s' : List (Int × V)} (h : SameCells s s') (p : Int × V → Bool) :
    SameCells (s.filter p) (s'.filter p) := fun x => by simp [List.mem_filter, h x]

omit [ValueDomain V] in
theorem SameCells.filterMap {s s' : List (Int × V)} (h : SameCells s s') (f : Int × V → Option (Int × V)) :
    SameCells (s.filterMap f) (s'.filterMap f) := fun x => by
  simp only [List.mem_filterMap]
  exact ⟨fun ⟨c, hc, hf⟩ => ⟨c, (h c).mp hc, hf⟩, fun ⟨c, hc, hf⟩ => ⟨c, (h c).mpr hc, hf⟩⟩

omit [ValueDomain V] in
theorem SameCells.any {s s' : List (Int × V)} (h : SameCells s s') (p : Int × V → Bool) :
    s.any p = s'.any p := by
  rw [Bool.eq_iff_iff, List.any_eq_true, List.any_eq_true]
  exact ⟨fun ⟨c, hc, hp⟩ => ⟨c, (h c).mp hc, hp⟩, fun ⟨c, hc, hp⟩ => ⟨c, (h c).mpr hc, hp⟩⟩

/-- the operations of the reference store only depend on the SET of cells of the store -/
theorem Spec.step_congr {s s' : Store V} (h : SameCells s s') (op : Op V) :
    SameCells (Spec.step s op) (Spec.step s' op) := by
  cases op with
  | insert p v =>
    intro x; simp only [Spec.step, Spec.write, Spec.delete, List.mem_append, (h.filter _) x]
  | remove p n => exact h.filter _
  | mergeWriteTop p n =>
    simp only [Spec.step, Spec.writeTop, h.any]
    split
    · exact h.filterMap _
    · exact h.filter _
  | markInterval st e n => exact h.filterMap _
  | markAll => exact h.filterMap _
  | addOffset d =>
    intro x; simp only [Spec.step, Spec.shift, List.mem_map]
    exact ⟨fun ⟨c, hc, hf⟩ => ⟨c, (h c).mp hc, hf⟩, fun ⟨c, hc, hf⟩ => ⟨c, (h c).mpr hc, hf⟩⟩
  | scrub p => exact h.filter _
  | clearTop => exact h
  | merge other =>
    intro x
    simp only [Spec.step, Spec.merge, List.mem_append, (h.filterMap _) x, h.any]

theorem Spec.run_congr {s s' : Store V} (h : SameCells s s') (ops : List (Op V)) :
    SameCells (Spec.run s ops) (Spec.run s' ops) := by
  induction ops generalizing s s' with
  | nil => exact h
  | cons op ops ih => exact ih (Spec.step_congr h op)

/-! ### one operation -/

/-- merging a region with itself in the reference store gives the region -/
theorem Spec.merge_self [IdemMerge V] {r : Region V} (h : Inv r) : SameCells (Spec.merge r r) r := by
  intro x
  unfold Spec.merge
  rw [List.mem_append, List.mem_filterMap, List.mem_filterMap]
  have hself : ∀ c ∈ r, r.find? (sameSlot c) = some c := by
    intro c hc
    cases hf : r.find? (sameSlot c) with
    | none =>
      have := List.find?_eq_none.mp hf c hc
      exact absurd (sameSlot_iff.mpr ⟨rfl, rfl⟩) this
    | some d =>
      have h1 := List.mem_of_find?_eq_some hf
      have h2 := sameSlot_iff.mp (List.find?_some (p := fun d : Int × V => sameSlot c d) hf)
      rw [h.key_inj h1 hc h2.1.symm]
  constructor
  · rintro (⟨c, hc, hF⟩ | ⟨d, hd, hG⟩)
    · rw [hself c hc] at hF
      dsimp only at hF
      rw [IdemMerge.merge_idem] at hF
      obtain ⟨_, rfl⟩ := keepNonTop_eq_some.mp hF
      exact hc
    · have : r.any (sameSlot d) = true := List.any_eq_true.mpr ⟨d, hd, sameSlot_iff.mpr ⟨rfl, rfl⟩⟩
      simp [this] at hG
  · intro hx
    refine .inl ⟨x, hx, ?_⟩
    rw [hself x hx]
    dsimp only
    rw [IdemMerge.merge_idem]
    exact keepNonTop_eq_some.mpr ⟨h.noTop x hx, rfl⟩

/-- **C05-step.** Under the preconditions an operation does not panic, re-establishes the
invariant (no two cells overlap, no stored cell is the unknown value) and yields exactly the
cells of the reference cell store. -/
theorem step_refines [LawfulValueDomain V] [IdemMerge V] [DecidableEq V] {r : Region V}
    (h : Inv r) (op : Op V) (hpre : Pre r op) :
    ∃ r', step r op = some r' ∧ Inv r' ∧ SameCells r' (Spec.step r op) := by
  cases op with
  | insert p v =>
    exact ⟨_, insertAtByteIndex_eq r p hpre, inv_writeCell h p hpre, fun x => mem_writeCell h hpre⟩
  | remove p n =>
    exact ⟨_, remove_eq r p hpre, inv_clearInterval h p n, fun x => mem_clearInterval_spec h hpre⟩
  | mergeWriteTop p n =>
    exact ⟨_, rfl, inv_mergeWriteTop h p hpre, fun x => mem_mergeWriteTop h hpre⟩
  | markInterval s e n =>
    exact ⟨_, markInterval_eq r hpre, inv_weakenedRange h hpre, (weakenedRange_spec h hpre).2⟩
  | markAll => exact ⟨_, rfl, inv_markAll h, fun x => mem_markAll⟩
  | addOffset d => exact ⟨_, rfl, inv_addOffset h d, (addOffset_spec h d).2⟩
  | scrub p => exact ⟨_, rfl, inv_scrub h p, fun x => mem_scrub h⟩
  | clearTop =>
    exact ⟨_, rfl, inv_of_sublist h (clearTopValues_sublist r), fun x => mem_clearTopValues_inv h⟩
  | merge other =>
    obtain ⟨ho, hbo, hbr⟩ := hpre
    refine ⟨mergeRegions r other, rfl, ?_, ?_⟩
    · unfold mergeRegions; split
      · exact h
      · exact inv_mergeInner_lb h ho hbr hbo
    · unfold mergeRegions; split
      · rename_i heq; subst heq
        exact (Spec.merge_self h).symm
      · exact fun x => mem_mergeInner_lb h ho hbr hbo

/-! ### histories -/

theorem run_append [DecidableEq V] (r : Region V) (ops1 ops2 : List (Op V)) :
    run r (ops1 ++ ops2) = (run r ops1).bind (fun r' => run r' ops2) := by
  induction ops1 generalizing r with
  | nil => simp [run]
  | cons op ops ih =>
    simp only [List.cons_append, run]
    cases step r op with
    | none => simp
    | some r' => simp [ih]

theorem PreAll.append [DecidableEq V] {r : Region V} {ops1 ops2 : List (Op V)}
    (h : PreAll r (ops1 ++ ops2)) {r1 : Region V} (hr : run r ops1 = some r1) : PreAll r1 ops2 := by
  induction ops1 generalizing r with
  | nil => simp [run] at hr; subst hr; exact h
  | cons op ops ih =>
    simp only [List.cons_append, PreAll] at h
    simp only [run] at hr
    cases hs : step r op with
    | none => simp [hs] at hr
    | some r' =>
      simp only [hs, Option.bind_some] at hr
      exact ih (h.2 r' hs) hr

theorem PreAll.prefix [DecidableEq V] {r : Region V} {ops1 ops2 : List (Op V)}
    (h : PreAll r (ops1 ++ ops2)) : PreAll r ops1 := by
  induction ops1 generalizing r with
  | nil => trivial
  | cons op ops ih => exact ⟨h.1, fun r' hr' => ih (h.2 r' hr')⟩

/-- **C05-refinement.** For EVERY history that meets the preconditions, started in a region
satisfying the invariant (in particular the empty region): no operation panics, the invariant
holds at the end, and the region holds exactly the cells of the reference cell store run on
the same history (from any store holding the same cells). -/
theorem run_refines [LawfulValueDomain V] [IdemMerge V] [DecidableEq V] (ops : List (Op V)) :
    ∀ {r : Region V} {s : Store V}, Inv r → SameCells r s → PreAll r ops →
      ∃ r', run r ops = some r' ∧ Inv r' ∧ SameCells r' (Spec.run s ops) := by
  induction ops with
  | nil => intro r s h hs _; exact ⟨r, rfl, h, hs⟩
  | cons op ops ih =>
    intro r s h hs hpre
    obtain ⟨r1, hstep, hinv1, hsame1⟩ := step_refines h op hpre.1
    obtain ⟨r', hrun, hinv', hsame'⟩ :=
      ih hinv1 (hsame1.trans (Spec.step_congr hs op)) (hpre.2 r1 hstep)
    exact ⟨r', by simp [run, hstep, hrun], hinv', hsame'⟩

/-- **C05-invariant.** After any sequence of operations on the empty region (`MemRegion::new`)
no two stored cells overlap and no stored cell is the unknown value; the cells are those of the
reference store. -/
theorem run_new_refines [LawfulValueDomain V] [IdemMerge V] [DecidableEq V] (ops : List (Op V))
    (hpre : PreAll (MemRegion.new : Region V) ops) :
    ∃ r, run (MemRegion.new : Region V) ops = some r ∧ Inv r ∧ SameCells r (Spec.run [] ops) :=
  run_refines ops inv_nil (SameCells.refl _) hpre

/-! ### reads -/

/-- `get` on a region = exact (offset, size) hit in any store with the same cells -/
theorem get_eq_read {r : Region V} (h : Inv r) {s : Store V} (hs : SameCells r s) (p : Int) (n : Nat) :
    get r p n = Spec.read s p n := by
  unfold MemRegion.get Spec.read
  cases hf : s.find? (isSlot p n) with
  | some c =>
    have hc : c ∈ r := (hs c).mpr (List.mem_of_find?_eq_some hf)
    have hslot := isSlot_iff.mp (List.find?_some (p := fun c : Int × V => isSlot p n c) hf)
    have : BMap.get r p = some c.2 := BMap.get_of_mem h.sorted (by rw [← hslot.1]; exact hc)
    simp [this, hslot.2]
  | none =>
    have hnone := List.find?_eq_none.mp hf
    cases hg : BMap.get r p with
    | none => rfl
    | some elem =>
      dsimp only
      split
      · rename_i hsz
        have := hnone (p, elem) ((hs _).mp (BMap.mem_of_get hg))
        exact absurd (isSlot_iff.mpr ⟨rfl, hsz⟩) this
      · rfl

theorem getUnsized_eq_read {r : Region V} (h : Inv r) {s : Store V} (hs : SameCells r s) (p : Int) :
    getUnsized r p = Spec.readUnsized s p := by
  unfold getUnsized Spec.readUnsized
  cases hf : s.find? (fun c => decide (c.1 = p)) with
  | some c =>
    have hc : c ∈ r := (hs c).mpr (List.mem_of_find?_eq_some hf)
    have hk : c.1 = p := by simpa using List.find?_some (p := fun c : Int × V => decide (c.1 = p)) hf
    simpa using BMap.get_of_mem h.sorted (by rw [← hk]; exact hc)
  | none =>
    have hnone := List.find?_eq_none.mp hf
    simp only [Option.map_none]
    rw [BMap.get_eq_none]
    intro x hx
    simpa using hnone x ((hs x).mp hx)

/-- a stored cell is what `get` returns for its slot, every other slot reads as unknown -/
theorem get_of_mem {r : Region V} (h : Inv r) {p : Int} {v : V} (hm : (p, v) ∈ r) :
    get r p (size v) = v := by
  simp [MemRegion.get, BMap.get_of_mem h.sorted hm]

theorem get_of_no_slot {r : Region V} {p : Int} {n : Nat} (hno : ∀ v, size v = n → (p, v) ∉ r) :
    get r p n = newTop n := by
  unfold MemRegion.get
  cases hg : BMap.get r p with
  | none => rfl
  | some elem =>
    dsimp only
    split
    · rename_i hsz; exact absurd (BMap.mem_of_get hg) (hno elem hsz)
    · rfl

/-! ### read after write, read after clobber, read of a never written slot

The slot (offset `p`, size `n`) is looked at; `Touches op p n` says that `op` may change the
cell stored in that slot (it writes, removes or top-writes a range sharing a byte with
`[p, p + n)`, shifts all offsets, or merges). -/

/-- `op` may change the cell stored in slot (p, n) -/
def Touches : Op V → Int → Nat → Prop
  | .insert q w, p, n => q < p + n ∧ p < q + size w
  | .remove q m, p, n => q < p + n ∧ p < q + m
  | .mergeWriteTop q m, p, n => q < p + n ∧ p < q + m
  | .markInterval st e m, p, n => st < p + n ∧ p < e + m
  | .markAll, _, _ => True
  | .addOffset d, _, _ => d ≠ 0
  | .scrub q, p, _ => q = p
  | .clearTop, _, _ => False
  | .merge _, _, _ => True

/-- `op` destroys whatever is stored in slot (p, n): a write or removal of a range sharing a
byte with `[p, p + n)` that is not a write of a known value to exactly this slot -/
def Clobbers : Op V → Int → Nat → Prop
  | .insert q w, p, n => (q < p + n ∧ p < q + size w) ∧ ¬ (q = p ∧ size w = n ∧ isTop w = false)
  | .remove q m, p, n => q < p + n ∧ p < q + m
  | .scrub q, p, _ => q = p
  | _, _, _ => False

/-- `op` may create a cell in slot (p, n): a write to exactly this slot, a shift, a merge -/
def Produces : Op V → Int → Nat → Prop
  | .insert q w, p, n => q = p ∧ size w = n
  | .addOffset d, _, _ => d ≠ 0
  | .merge _, _, _ => True
  | _, _, _ => False

theorem Spec.slot_frame [LawfulValueDomain V] {s : Store V} {op : Op V} {p : Int} {n : Nat}
    (hn : 0 < n) (hpre : Spec.pre op = true) (hnt : ¬ Touches op p n) {v : V} (hv : size v = n) :
    (p, v) ∈ Spec.step s op ↔ (p, v) ∈ s := by
  have hiv : isize v = n := by simp only [isize, hv]
  cases op with
  | insert q w =>
    have hw : 0 < size w := by simpa [Spec.pre] using hpre
    simp only [Spec.step, Spec.mem_write, Ov, Touches, isize, hv] at hnt ⊢
    constructor
    · rintro (⟨hm, _⟩ | ⟨_, heq⟩)
      · exact hm
      · simp only [Prod.mk.injEq] at heq
        obtain ⟨rfl, rfl⟩ := heq
        exact absurd ⟨by omega, by omega⟩ hnt
    · exact fun hm => .inl ⟨hm, fun hov => hnt ⟨hov.2, hov.1⟩⟩
  | remove q m =>
    simp only [Spec.step, Spec.mem_delete, Ov, Touches, hiv] at hnt ⊢
    exact ⟨fun hm => hm.1, fun hm => ⟨hm, fun hov => hnt ⟨hov.2, hov.1⟩⟩⟩
  | mergeWriteTop q m =>
    have hm0 : 0 < m := by simpa [Spec.pre] using hpre
    simp only [Spec.step, Spec.writeTop, Touches] at hnt ⊢
    split
    · rw [mem_weakenIf]
      constructor
      · rintro (⟨hm, _⟩ | ⟨c, _, hslot, hw⟩)
        · exact hm
        · have hsrc := weaken_source hw
          have hs := isSlot_iff.mp hslot
          simp only [] at hsrc
          exact absurd ⟨by omega, by omega⟩ hnt
      · intro hm
        refine .inl ⟨hm, ?_⟩
        rw [Bool.eq_false_iff]; intro hslot
        have hs := isSlot_iff.mp hslot
        simp only [] at hs
        exact hnt ⟨by omega, by omega⟩
    · simp only [Spec.mem_delete, Ov, hiv]
      exact ⟨fun hm => hm.1, fun hm => ⟨hm, fun hov => hnt ⟨hov.2, hov.1⟩⟩⟩
  | markInterval st e m =>
    simp only [Spec.step, Spec.weakenRange, Touches] at hnt ⊢
    rw [mem_weakenIf]
    constructor
    · rintro (⟨hm, _⟩ | ⟨c, _, hov, hw⟩)
      · exact hm
      · have hsrc := weaken_source hw
        have hov := overlaps_iff.mp hov
        simp only [Ov, isize] at hsrc hov
        exact absurd ⟨by omega, by omega⟩ hnt
    · intro hm
      refine .inl ⟨hm, ?_⟩
      rw [Bool.eq_false_iff]; intro hov
      have hov := overlaps_iff.mp hov
      simp only [Ov, hiv] at hov
      exact hnt ⟨hov.2, hov.1⟩
  | markAll => exact absurd trivial hnt
  | addOffset d =>
    have hd : d = 0 := by simpa [Touches] using hnt
    subst hd
    simp [Spec.step, Spec.shift]
  | scrub q =>
    simp only [Spec.step, Spec.dropAt, List.mem_filter, Touches] at hnt ⊢
    exact ⟨fun hm => hm.1, fun hm => ⟨hm, by simpa using fun h => hnt h.symm⟩⟩
  | clearTop => exact Iff.rfl
  | merge other => exact absurd trivial hnt

theorem Spec.slot_clobbered {s : Store V} {op : Op V} {p : Int} {n : Nat}
    (hc : Clobbers op p n) {v : V} (hv : size v = n) : (p, v) ∉ Spec.step s op := by
  have hiv : isize v = n := by simp only [isize, hv]
  cases op with
  | insert q w =>
    simp only [Spec.step, Spec.mem_write, Ov, Clobbers, isize, hv] at hc ⊢
    rintro (⟨_, hno⟩ | ⟨ht, heq⟩)
    · exact hno ⟨hc.1.2, hc.1.1⟩
    · simp only [Prod.mk.injEq] at heq
      obtain ⟨rfl, rfl⟩ := heq
      exact hc.2 ⟨rfl, hv, ht⟩
  | remove q m =>
    simp only [Spec.step, Spec.mem_delete, Ov, Clobbers, hiv] at hc ⊢
    exact fun hm => hm.2 ⟨hc.2, hc.1⟩
  | scrub q =>
    simp only [Spec.step, Spec.dropAt, List.mem_filter, Clobbers] at hc ⊢
    subst hc; simp
  | mergeWriteTop _ _ => exact hc.elim
  | markInterval _ _ _ => exact hc.elim
  | markAll => exact hc.elim
  | addOffset _ => exact hc.elim
  | clearTop => exact hc.elim
  | merge _ => exact hc.elim

theorem Spec.slot_not_produced [LawfulValueDomain V] {s : Store V} {op : Op V} {p : Int} {n : Nat}
    (hnp : ¬ Produces op p n) (hno : ∀ v, size v = n → (p, v) ∉ s) :
    ∀ v, size v = n → (p, v) ∉ Spec.step s op := by
  intro v hv
  have hweak : ∀ c ∈ s, weaken c ≠ some (p, v) := by
    intro c hc hw
    have hsrc := weaken_source hw
    simp only [] at hsrc
    have : c = (p, c.2) := by rw [← hsrc.2.1]
    exact hno c.2 (by omega) (this ▸ hc)
  cases op with
  | insert q w =>
    simp only [Spec.step, Spec.mem_write, Produces] at hnp ⊢
    rintro (⟨hm, _⟩ | ⟨_, heq⟩)
    · exact hno v hv hm
    · simp only [Prod.mk.injEq] at heq
      obtain ⟨rfl, rfl⟩ := heq
      exact hnp ⟨rfl, hv⟩
  | remove q m => exact fun hm => hno v hv (Spec.mem_delete.mp hm).1
  | mergeWriteTop q m =>
    simp only [Spec.step, Spec.writeTop]
    split
    · rw [mem_weakenIf]
      rintro (⟨hm, _⟩ | ⟨c, hc, _, hw⟩)
      · exact hno v hv hm
      · exact hweak c hc hw
    · exact fun hm => hno v hv (Spec.mem_delete.mp hm).1
  | markInterval st e m =>
    simp only [Spec.step, Spec.weakenRange]
    rw [mem_weakenIf]
    rintro (⟨hm, _⟩ | ⟨c, hc, _, hw⟩)
    · exact hno v hv hm
    · exact hweak c hc hw
  | markAll =>
    simp only [Spec.step, Spec.weakenAll, List.mem_filterMap]
    rintro ⟨c, hc, hw⟩
    exact hweak c hc hw
  | addOffset d =>
    have hd : d = 0 := by simpa [Produces] using hnp
    subst hd
    simpa [Spec.step, Spec.shift] using hno v hv
  | scrub q => exact fun hm => hno v hv (List.mem_filter.mp hm).1
  | clearTop => exact hno v hv
  | merge other => exact absurd trivial hnp

section histories
variable [LawfulValueDomain V] [IdemMerge V] [DecidableEq V]

/-- operations that do not touch the slot leave the cell in the slot alone -/
theorem frame_run {p : Int} {n : Nat} (hn : 0 < n) (ops : List (Op V)) :
    ∀ {r : Region V}, Inv r → PreAll r ops → (∀ op ∈ ops, ¬ Touches op p n) →
      ∃ r', run r ops = some r' ∧ Inv r' ∧ ∀ v, size v = n → ((p, v) ∈ r' ↔ (p, v) ∈ r) := by
  induction ops with
  | nil => intro r h _ _; exact ⟨r, rfl, h, fun _ _ => Iff.rfl⟩
  | cons op ops ih =>
    intro r h hpre hnt
    obtain ⟨r1, hstep, hinv1, hsame1⟩ := step_refines h op hpre.1
    obtain ⟨r', hrun, hinv', hfr⟩ := ih hinv1 (hpre.2 r1 hstep)
      (fun o ho => hnt o (List.mem_cons_of_mem _ ho))
    refine ⟨r', by simp [run, hstep, hrun], hinv', fun v hv => ?_⟩
    rw [hfr v hv, hsame1 (p, v)]
    exact Spec.slot_frame hn hpre.1.specPre (hnt op List.mem_cons_self) hv

/-- operations that cannot create a cell in an empty slot leave it empty -/
theorem no_slot_run {p : Int} {n : Nat} (ops : List (Op V)) :
    ∀ {r : Region V}, Inv r → PreAll r ops → (∀ op ∈ ops, ¬ Produces op p n) →
      (∀ v, size v = n → (p, v) ∉ r) →
      ∃ r', run r ops = some r' ∧ Inv r' ∧ ∀ v, size v = n → (p, v) ∉ r' := by
  induction ops with
  | nil => intro r h _ _ hno; exact ⟨r, rfl, h, hno⟩
  | cons op ops ih =>
    intro r h hpre hnp hno
    obtain ⟨r1, hstep, hinv1, hsame1⟩ := step_refines h op hpre.1
    have hno1 : ∀ v, size v = n → (p, v) ∉ r1 := fun v hv hm =>
      Spec.slot_not_produced (hnp op List.mem_cons_self) hno v hv ((hsame1 _).mp hm)
    obtain ⟨r', hrun, hinv', hno'⟩ := ih hinv1 (hpre.2 r1 hstep)
      (fun o ho => hnp o (List.mem_cons_of_mem _ ho)) hno1
    exact ⟨r', by simp [run, hstep, hrun], hinv', hno'⟩

/-- **C05-read-after-write.** In every history: after a write of a known value `v` at offset `p`,
as long as no later operation touches a byte of `[p, p + size v)` (and none shifts or merges),
a read at `p` with size `size v` returns `v`. -/
theorem read_after_write {r0 : Region V} (h0 : Inv r0) (ops1 ops2 : List (Op V)) (p : Int) (v : V)
    (hv : isTop v = false) (hpre : PreAll r0 (ops1 ++ Op.insert p v :: ops2))
    (hnt : ∀ op ∈ ops2, ¬ Touches op p (size v)) :
    ∃ r, run r0 (ops1 ++ Op.insert p v :: ops2) = some r ∧ Inv r ∧ get r p (size v) = v := by
  have hpre1 := hpre.prefix
  obtain ⟨r1, hrun1, hinv1, _⟩ := run_refines ops1 h0 (SameCells.refl _) hpre1
  have hpre2 := hpre.append hrun1
  have hsz : 0 < size v := hpre2.1
  obtain ⟨r2, hstep, hinv2, hsame2⟩ := step_refines hinv1 (Op.insert p v) hpre2.1
  have hin : (p, v) ∈ r2 := (hsame2 _).mpr (Spec.mem_write.mpr (.inr ⟨hv, rfl⟩))
  obtain ⟨r, hrun, hinv, hfr⟩ := frame_run hsz ops2 hinv2 (hpre2.2 r2 hstep) hnt
  refine ⟨r, ?_, hinv, get_of_mem hinv ((hfr v rfl).mpr hin)⟩
  rw [run_append, hrun1]
  simp [run, hstep, hrun]

/-- **C05-read-after-clobber.** In every history: after an operation that overwrites or removes
a byte of `[p, p + n)` (other than a write of a known value to exactly this slot), a read at
`p` with size `n` returns the unknown value — until an operation writes exactly this slot again
(or shifts / merges). -/
theorem read_after_clobber {r0 : Region V} (h0 : Inv r0) (ops1 ops2 : List (Op V)) (op : Op V)
    (p : Int) {n : Nat} (hc : Clobbers op p n)
    (hpre : PreAll r0 (ops1 ++ op :: ops2)) (hnp : ∀ o ∈ ops2, ¬ Produces o p n) :
    ∃ r, run r0 (ops1 ++ op :: ops2) = some r ∧ Inv r ∧ get r p n = newTop n := by
  have hpre1 := hpre.prefix
  obtain ⟨r1, hrun1, hinv1, _⟩ := run_refines ops1 h0 (SameCells.refl _) hpre1
  have hpre2 := hpre.append hrun1
  obtain ⟨r2, hstep, hinv2, hsame2⟩ := step_refines hinv1 op hpre2.1
  have hno2 : ∀ v, size v = n → (p, v) ∉ r2 := fun v hv hm =>
    Spec.slot_clobbered hc hv ((hsame2 _).mp hm)
  obtain ⟨r, hrun, hinv, hno⟩ := no_slot_run ops2 hinv2 (hpre2.2 r2 hstep) hnp hno2
  refine ⟨r, ?_, hinv, get_of_no_slot hno⟩
  rw [run_append, hrun1]
  simp [run, hstep, hrun]

/-- **C05-read-unwritten.** A slot that no operation of the history writes exactly (and no shift
or merge) reads as the unknown value. -/
theorem read_unwritten (ops : List (Op V)) (p : Int) (n : Nat)
    (hpre : PreAll (MemRegion.new : Region V) ops) (hnp : ∀ o ∈ ops, ¬ Produces o p n) :
    ∃ r, run (MemRegion.new : Region V) ops = some r ∧ Inv r ∧ get r p n = newTop n := by
  obtain ⟨r, hrun, hinv, hno⟩ := no_slot_run ops inv_nil hpre hnp (fun _ _ h => nomatch h)
  exact ⟨r, hrun, hinv, get_of_no_slot hno⟩

end histories

/-! ### merge -/

/-- the cells of the reference merge, declaratively -/
theorem Spec.mem_merge {a b : Region V} (ha : Inv a) (hb : Inv b) (x : Int × V) :
    x ∈ Spec.merge a b ↔ isTop x.2 = false ∧
      ((∃ va vb, (x.1, va) ∈ a ∧ (x.1, vb) ∈ b ∧ size va = size vb ∧ x.2 = ValueDomain.merge va vb) ∨
       (∃ va, (x.1, va) ∈ a ∧ (∀ d ∈ b, cellsOverlap (x.1, va) d = false) ∧
          x.2 = ValueDomain.merge va (newTop (size va))) ∨
       (∃ vb, (x.1, vb) ∈ b ∧ (∀ c ∈ a, cellsOverlap (x.1, vb) c = false) ∧
          x.2 = ValueDomain.merge vb (newTop (size vb)))) := by
  have hnone_of_any : ∀ {l : List (Int × V)} {q : Int × V → Bool}, l.any q = false → ∀ d ∈ l, q d = false := by
    intro l q h d hd
    rw [Bool.eq_false_iff]; intro hq
    have := List.any_eq_true.mpr ⟨d, hd, hq⟩
    rw [h] at this; cases this
  have hany_of_none : ∀ {l : List (Int × V)} {q : Int × V → Bool}, (∀ d ∈ l, q d = false) → l.any q = false := by
    intro l q h
    rw [Bool.eq_false_iff, Ne, List.any_eq_true]
    rintro ⟨d, hd, hq⟩
    rw [h d hd] at hq; cases hq
  unfold Spec.merge
  rw [List.mem_append, List.mem_filterMap, List.mem_filterMap]
  constructor
  · rintro (⟨c, hc, hF⟩ | ⟨d, hd, hG⟩)
    · cases hf : b.find? (sameSlot c) with
      | some d =>
        rw [hf] at hF
        obtain ⟨ht, rfl⟩ := keepNonTop_eq_some.mp hF
        have hd := List.mem_of_find?_eq_some hf
        have hs := sameSlot_iff.mp (List.find?_some (p := fun d : Int × V => sameSlot c d) hf)
        refine ⟨ht, .inl ⟨c.2, d.2, hc, ?_, hs.2, rfl⟩⟩
        show (c.1, d.2) ∈ b
        rw [hs.1]; exact hd
      | none =>
        rw [hf] at hF
        cases hany : b.any (cellsOverlap c)
        · simp only [hany, Bool.false_eq_true, if_false] at hF
          obtain ⟨ht, rfl⟩ := keepNonTop_eq_some.mp hF
          exact ⟨ht, .inr (.inl ⟨c.2, hc, hnone_of_any hany, rfl⟩)⟩
        · simp [hany] at hF
    · cases hs : a.any (sameSlot d)
      · cases hany : a.any (cellsOverlap d)
        · simp only [hs, hany, Bool.false_eq_true, if_false] at hG
          obtain ⟨ht, rfl⟩ := keepNonTop_eq_some.mp hG
          exact ⟨ht, .inr (.inr ⟨d.2, hd, hnone_of_any hany, rfl⟩)⟩
        · simp [hs, hany] at hG
      · simp [hs] at hG
  · obtain ⟨k, xv⟩ := x
    rintro ⟨ht, ⟨va, vb, hca, hcb, hsz, rfl⟩ | ⟨va, hca, hno, rfl⟩ | ⟨vb, hcb, hno, rfl⟩⟩
    · refine .inl ⟨(k, va), hca, ?_⟩
      have hfind : b.find? (sameSlot (k, va)) = some (k, vb) := by
        cases hf : b.find? (sameSlot (k, va)) with
        | none =>
          have := List.find?_eq_none.mp hf _ hcb
          exact absurd ((sameSlot_iff (c := (k, va)) (d := (k, vb))).mpr ⟨rfl, hsz⟩) this
        | some d' =>
          have h1 := List.mem_of_find?_eq_some hf
          have h2 := sameSlot_iff.mp (List.find?_some (p := fun d : Int × V => sameSlot (k, va) d) hf)
          rw [hb.key_inj h1 hcb h2.1.symm]
      rw [hfind]
      exact keepNonTop_eq_some.mpr ⟨ht, rfl⟩
    · refine .inl ⟨(k, va), hca, ?_⟩
      have hpa := ha.pos hca
      have hfind : b.find? (sameSlot (k, va)) = none := by
        rw [List.find?_eq_none]
        intro d hd hs
        have hs := sameSlot_iff.mp hs
        have hpd := hb.pos hd
        have := hno d hd
        rw [Bool.eq_false_iff, Ne, cellsOverlap_iff] at this
        simp only [] at hs hpa this
        exact this ⟨by omega, by omega⟩
      rw [hfind]
      simp only [hany_of_none hno, Bool.false_eq_true, if_false]
      exact keepNonTop_eq_some.mpr ⟨ht, rfl⟩
    · refine .inr ⟨(k, vb), hcb, ?_⟩
      have hpb := hb.pos hcb
      have hslot : a.any (sameSlot (k, vb)) = false := by
        apply hany_of_none
        intro c hc
        rw [Bool.eq_false_iff]; intro hs
        have hs := sameSlot_iff.mp hs
        have hpc := ha.pos hc
        have := hno c hc
        rw [Bool.eq_false_iff, Ne, cellsOverlap_iff] at this
        simp only [] at hs hpb this
        exact this ⟨by omega, by omega⟩
      simp only [hslot, hany_of_none hno, Bool.false_eq_true, if_false]
      exact keepNonTop_eq_some.mpr ⟨ht, rfl⟩

/-- **C05-merge.** `merge_inner` keeps exactly: the cells that both inputs hold at the same
offset with the same size (values merged), and the cells of either input that share no byte with
any cell of the other input (merged with the unknown value) — each dropped if the merged value
is the unknown value — and nothing else. -/
theorem mergeInner_cells {a b : Region V} (ha : Inv a) (hb : Inv b) (hba : LowerBounded a)
    (hbb : LowerBounded b) (x : Int × V) :
    x ∈ mergeInner a b ↔ isTop x.2 = false ∧
      ((∃ va vb, (x.1, va) ∈ a ∧ (x.1, vb) ∈ b ∧ size va = size vb ∧ x.2 = merge va vb) ∨
       (∃ va, (x.1, va) ∈ a ∧ (∀ d ∈ b, cellsOverlap (x.1, va) d = false) ∧
          x.2 = merge va (newTop (size va))) ∨
       (∃ vb, (x.1, vb) ∈ b ∧ (∀ c ∈ a, cellsOverlap (x.1, vb) c = false) ∧
          x.2 = merge vb (newTop (size vb)))) :=
  (mem_mergeInner_lb ha hb hba hbb).trans (Spec.mem_merge ha hb x)

/-- **C05-merge-invariant.** the public `merge` (with its `self == other` short-cut) preserves the
invariant and yields the cells of the reference merge -/
theorem mergeRegions_refines [LawfulValueDomain V] [IdemMerge V] [DecidableEq V] {a b : Region V}
    (ha : Inv a) (hb : Inv b) (hba : LowerBounded a) (hbb : LowerBounded b) :
    Inv (mergeRegions a b) ∧ SameCells (mergeRegions a b) (Spec.merge a b) := by
  obtain ⟨r', hstep, hinv, hsame⟩ := step_refines ha (Op.merge b) ⟨hb, hbb, hba⟩
  simp only [step, Option.some.injEq] at hstep
  subst hstep
  exact ⟨hinv, hsame⟩

/-! ### the merge operand may be any store holding the same cells

The driver runs the reference store with merge operands that are themselves reference stores
(unsorted); `run_refines_store` covers that use. -/

theorem Spec.merge_congr_right {a : Store V} {b b' : Store V}
    (hu : ∀ d ∈ b, ∀ d' ∈ b, d.1 = d'.1 → d = d') (h : SameCells b b') :
    SameCells (Spec.merge a b) (Spec.merge a b') := by
  have hfind : ∀ c : Int × V, b.find? (sameSlot c) = b'.find? (sameSlot c) := by
    intro c
    have key : ∀ {l l' : List (Int × V)}, (∀ x, x ∈ l → x ∈ b) → (∀ x, x ∈ l' → x ∈ l) →
        ∀ d, l.find? (sameSlot c) = some d → l'.find? (sameSlot c) = none ∨ l'.find? (sameSlot c) = some d := by
      intro l l' hl hl' d hf
      cases hf' : l'.find? (sameSlot c) with
      | none => exact .inl rfl
      | some d' =>
        right
        have h1 := hl _ (List.mem_of_find?_eq_some hf)
        have h2 := hl _ (hl' _ (List.mem_of_find?_eq_some hf'))
        have s1 := sameSlot_iff.mp (List.find?_some (p := fun d : Int × V => sameSlot c d) hf)
        have s2 := sameSlot_iff.mp (List.find?_some (p := fun d : Int × V => sameSlot c d) hf')
        rw [hu d' h2 d h1 (by omega)]
    cases hf : b.find? (sameSlot c) with
    | none =>
      cases hf' : b'.find? (sameSlot c) with
      | none => rfl
      | some d' =>
        have := List.find?_eq_none.mp hf d' ((h d').mpr (List.mem_of_find?_eq_some hf'))
        exact absurd (List.find?_some (p := fun d : Int × V => sameSlot c d) hf') this
    | some d =>
      rcases key (l := b) (l' := b') (fun _ hx => hx) (fun x hx => (h x).mpr hx) d hf with h' | h'
      · have := List.find?_eq_none.mp h' d ((h d).mp (List.mem_of_find?_eq_some hf))
        exact absurd (List.find?_some (p := fun d : Int × V => sameSlot c d) hf) this
      · exact h'.symm
  intro x
  unfold Spec.merge
  simp only [List.mem_append, hfind, h.any, (h.filterMap _) x]

/-- the operations agree up to the cells of a merge operand -/
inductive OpRel : Op V → Op V → Prop where
  | same (op : Op V) : OpRel op op
  | merge {o : Region V} {o' : Store V} : Inv o → SameCells o o' → OpRel (.merge o) (.merge o')

/-- pointwise `OpRel` -/
inductive HistRel : List (Op V) → List (Op V) → Prop where
  | nil : HistRel [] []
  | cons {op op' : Op V} {ops ops' : List (Op V)} : OpRel op op' → HistRel ops ops' →
      HistRel (op :: ops) (op' :: ops')

theorem Spec.step_congr_rel {s s' : Store V} (h : SameCells s s') {op op' : Op V} (hr : OpRel op op') :
    SameCells (Spec.step s op) (Spec.step s' op') := by
  cases hr with
  | same => exact Spec.step_congr h _
  | merge ho hoo =>
    exact (Spec.step_congr h _).trans
      (Spec.merge_congr_right (fun d hd d' hd' hk => ho.key_inj hd hd' hk) hoo)

/-- **C05-refinement'** — as `run_refines`, the reference store using its own merge operands -/
theorem run_refines_store [LawfulValueDomain V] [IdemMerge V] [DecidableEq V] (ops sops : List (Op V))
    (hrel : HistRel ops sops) :
    ∀ {r : Region V} {s : Store V}, Inv r → SameCells r s → PreAll r ops →
      ∃ r', run r ops = some r' ∧ Inv r' ∧ SameCells r' (Spec.run s sops) := by
  induction hrel with
  | nil => intro r s h hs _; exact ⟨r, rfl, h, hs⟩
  | cons hop _ ih =>
    intro r s h hs hpre
    obtain ⟨r1, hstep, hinv1, hsame1⟩ := step_refines h _ hpre.1
    obtain ⟨r', hrun, hinv', hsame'⟩ :=
      ih hinv1 (hsame1.trans (Spec.step_congr_rel hs hop)) (hpre.2 r1 hstep)
    exact ⟨r', by simp [run, hstep, hrun], hinv', hsame'⟩

/-! ### a top-write to exactly a stored slot -/

/-- **C05-read-after-top-write.** `merge_write_top` on exactly the slot of a stored cell leaves
`merge v top` there (the unknown value if that is unknown, e.g. whenever top is maximal). -/
theorem get_mergeWriteTop_hit [LawfulValueDomain V] {r : Region V} (h : Inv r) {p : Int} {v : V}
    (hm : (p, v) ∈ r) :
    get (mergeWriteTop r p (size v)) p (size v) =
      if isTop (merge v (topOf v)) then newTop (size v) else merge v (topOf v) := by
  have hg : BMap.get r p = some v := BMap.get_of_mem h.sorted hm
  unfold mergeWriteTop
  simp only [hg, if_true]
  unfold storeMerged
  cases ht : isTop (merge v (topOf v))
  · simp only [Bool.false_eq_true, if_false]
    have : (p, merge v (topOf v)) ∈ BMap.insert r p (merge v (topOf v)) :=
      (BMap.mem_insert h.sorted).mpr (.inl rfl)
    have hg' := BMap.get_of_mem (h.sorted.insert p _) this
    simp [MemRegion.get, hg', size_merge_topOf]
  · simp only [if_true]
    apply get_of_no_slot
    intro w _ hw
    exact (BMap.mem_remove.mp hw).2 rfl

/-! ### non-vacuity: concrete histories meeting the hypotheses -/

/-- histories without merges: the preconditions do not depend on the region -/
theorem PreAll.of_simple [DecidableEq V] {ops : List (Op V)} :
    ∀ {r : Region V},
      (∀ op ∈ ops, Spec.pre op = true ∧ ∀ o, op ≠ Op.merge o) → PreAll r ops := by
  induction ops with
  | nil => intro _ _; trivial
  | cons op ops ih =>
    intro r h
    refine ⟨?_, fun r' _ => ih (fun o ho => h o (List.mem_cons_of_mem _ ho))⟩
    have := h op List.mem_cons_self
    cases op <;> simp_all [Pre, Spec.pre]

def exOps : List (Op BvVal) :=
  [.insert 0 (.val 4 7), .insert 8 (.val 8 1), .insert 2 (.val 4 9), .mergeWriteTop 20 2,
   .addOffset 0, .remove (-4) 5]

example : run ([] : Region BvVal) exOps = some [(2, .val 4 9), (8, .val 8 1)] := by decide
example : Spec.run ([] : Store BvVal) exOps = [(8, .val 8 1), (2, .val 4 9)] := by decide

theorem exOps_pre : PreAll (MemRegion.new : Region BvVal) exOps :=
  PreAll.of_simple (by simp [exOps, Spec.pre, ValueDomain.size, BvVal.size])

example : ∃ r, run (MemRegion.new : Region BvVal) exOps = some r ∧ Inv r ∧
    SameCells r (Spec.run [] exOps) := run_new_refines exOps exOps_pre

/-- `read_after_write` applies: the value written at 8 survives the later operations -/
example : ∃ r, run (MemRegion.new : Region BvVal) exOps = some r ∧ Inv r ∧
    get r 8 8 = BvVal.val 8 1 :=
  read_after_write (V := BvVal) (r0 := MemRegion.new) inv_nil [Op.insert 0 (BvVal.val 4 7)]
    [Op.insert 2 (BvVal.val 4 9), Op.mergeWriteTop 20 2, Op.addOffset 0, Op.remove (-4) 5]
    8 (BvVal.val 8 1) rfl exOps_pre
    (by
      intro op hop
      simp only [List.mem_cons, List.not_mem_nil, or_false] at hop
      rcases hop with rfl | rfl | rfl | rfl <;> simp [Touches, ValueDomain.size, BvVal.size])

/-- `read_after_clobber` applies: the write at 2 destroys the 4-byte cell at 0 -/
example : ∃ r, run (MemRegion.new : Region BvVal) exOps = some r ∧ Inv r ∧
    get r 0 4 = BvVal.top 4 :=
  read_after_clobber (V := BvVal) (r0 := MemRegion.new) inv_nil
    [Op.insert 0 (BvVal.val 4 7), Op.insert 8 (BvVal.val 8 1)]
    [Op.mergeWriteTop 20 2, Op.addOffset 0, Op.remove (-4) 5] (Op.insert 2 (BvVal.val 4 9)) 0 (n := 4)
    (by simp [Clobbers, ValueDomain.size, BvVal.size]) exOps_pre
    (by
      intro op hop
      simp only [List.mem_cons, List.not_mem_nil, or_false] at hop
      rcases hop with rfl | rfl | rfl <;> simp [Produces])

/-- merge over a domain whose top is not maximal: equal slots are merged, cells overlapping a cell
of the other input are dropped, cells overlapping nothing survive -/
example : mergeInner ([(0, .tainted 4), (8, .tainted 4)] : Region TaintVal)
    [(0, .tainted 4), (10, .tainted 2), (20, .tainted 1)] = [(0, .tainted 4), (20, .tainted 1)] := by
  decide

example : Spec.merge ([(0, .tainted 4), (8, .tainted 4)] : Store TaintVal)
    [(0, .tainted 4), (10, .tainted 2), (20, .tainted 1)] = [(0, .tainted 4), (20, .tainted 1)] := by
  decide

/-- over `BitvectorDomain` (top maximal) only equal values in equal slots survive a merge -/
example : mergeInner ([(0, .val 4 1), (8, .val 4 2), (16, .val 2 3)] : Region BvVal)
    [(0, .val 4 1), (8, .val 4 5), (30, .val 4 4)] = [(0, .val 4 1)] := by decide

/-! ### the repaired interval arithmetic: positions representable in i64

`mem_region.rs` computes interval ends in i128 (exact) and asks the BTreeMap for `start..end` if
`end` is an i64 and for `start..` otherwise (`interval_bounds`). `stepI64` (Model.lean) mirrors
that. On a region whose positions are i64 values — every `BTreeMap<i64, T>` — it coincides with
the `Int` model `step` the theorems above are about, for ALL i64 position arguments (no
"position + size does not overflow" precondition any more). The hypothesis "positions
representable in i64" is explicit: `KeysI64` on regions, `OpI64` on operation arguments. -/

omit [ValueDomain V] in
theorem KeysI64.upper {r : Region V} (h : KeysI64 r) : UpperI64 r := fun c hc => (h c hc).2

omit [ValueDomain V] in
theorem KeysI64.lower {r : Region V} (h : KeysI64 r) : LowerBounded r := fun c hc => (h c hc).1

omit [ValueDomain V] in
theorem UpperI64.sublist {r r' : Region V} (h : UpperI64 r) (hs : r'.Sublist r) : UpperI64 r' :=
  fun c hc => h c (hs.subset hc)

/-- `range(interval_bounds(lo, hi))` = `range(lo..hi)` computed without bounds, on a map whose keys
do not exceed `i64::MAX` -/
theorem rangeI64_eq {α : Type} {m : BMap α} (hm : UpperI64 m) {lo hi : Int} (hhi : i64Min ≤ hi) :
    rangeI64 m lo hi = BMap.range m lo hi := by
  unfold rangeI64 BMap.range
  split
  · rfl
  · rename_i hno
    have hgt : i64Max < hi := by omega
    apply List.filter_congr
    intro c hc
    have := hm c hc
    have hlt : c.1 < hi := by omega
    simp [hlt]

/-- **C05-clear-overflow (code path).** If `position + size` exceeds `i64::MAX`, the repaired
`clear_interval` clears all cells from `position` upward … -/
theorem clearIntervalI64_overflow (r : Region V) {p n : Int} (h : i64Max < p + n) :
    clearIntervalI64 r p n = clearFrom r p := by
  have : ¬ (i64Min ≤ p + n ∧ p + n ≤ i64Max) := by omega
  simp only [clearIntervalI64, clearFrom, rangeI64, this, if_false]

/-- the repaired `clear_interval` is the `Int` model on regions with positions ≤ `i64::MAX` -/
theorem clearIntervalI64_eq {r : Region V} (hu : UpperI64 r) {p n : Int} (h : i64Min ≤ p + n) :
    clearIntervalI64 r p n = clearInterval r p n := by
  simp only [clearIntervalI64, clearInterval, rangeI64_eq (hu.sublist (clearPrev_sublist r p)) h]

/-- **C05-clear-overflow.** … and for a region all of whose positions are ≤ `i64::MAX` that is
the same as clearing `[position, position + size)`: -/
theorem clearFrom_eq_clearInterval {r : Region V} (hu : UpperI64 r) {p n : Int} (h : i64Max < p + n) :
    clearFrom r p = clearInterval r p n := by
  rw [← clearIntervalI64_overflow r h, clearIntervalI64_eq hu (by unfold i64Min; unfold i64Max at h; omega)]

/-- reference store: delete every cell that reaches `lo` or lies above it -/
def Spec.deleteFrom (s : Store V) (lo : Int) : Store V := s.filter (fun c => !decide (lo < c.1 + isize c.2))

/-- **C05-clear-overflow (specification).** For a store all of whose cell positions are
≤ `i64::MAX`, deleting `[p, hi)` equals deleting `[p, ∞)` whenever `hi > i64::MAX`. -/
theorem Spec.delete_eq_deleteFrom {s : Store V} (hu : UpperI64 s) {lo hi : Int} (h : i64Max < hi) :
    Spec.delete s lo hi = Spec.deleteFrom s lo := by
  unfold Spec.delete Spec.deleteFrom
  apply List.filter_congr
  intro c hc
  have := hu c hc
  have hlt : c.1 < hi := by omega
  simp [overlaps, hlt]

/-- `clearFrom` removes exactly the cells reaching `p` or lying above it -/
theorem mem_clearFrom {r : Region V} (h : Inv r) (hu : UpperI64 r) {p : Int} {x : Int × V} :
    x ∈ clearFrom r p ↔ x ∈ Spec.deleteFrom r p := by
  have hn : i64Max < p + (max 1 (i64Max + 1 - p)) := by omega
  have hpos : 0 < max 1 (i64Max + 1 - p) := by omega
  rw [clearFrom_eq_clearInterval hu hn, mem_clearInterval_spec h hpos, Spec.delete_eq_deleteFrom hu hn]

/-- the position arguments of the operation are i64 values; an offset shift keeps all positions
inside i64 (`index + offset` is the one sum `mem_region.rs` still computes in i64) -/
def OpI64 (r : Region V) : Op V → Prop
  | .insert p _ => I64 p
  | .remove p _ => I64 p
  | .mergeWriteTop p _ => I64 p
  | .markInterval s e _ => I64 s ∧ I64 e
  | .addOffset d => ∀ c ∈ r, I64 (c.1 + d)
  | .merge other => KeysI64 other
  | _ => True

theorem upper_mergePrevWithTop {r : Region V} (h : Inv r) (hu : UpperI64 r) (p : Int) :
    UpperI64 (mergePrevWithTop r p) := by
  intro x hx
  rcases (mem_mergePrevWithTop h).mp hx with ⟨hx, _⟩ | ⟨c, hc, _, hw⟩
  · exact hu x hx
  · obtain ⟨_, rfl⟩ := weaken_eq_some.mp hw
    exact hu c hc

/-- **C05-i64.** On a region with positions ≤ `i64::MAX` and for i64 position arguments the
repaired code (`stepI64`: interval ends in i128, unbounded range above `i64::MAX`) is the `Int`
model `step` — including the panics. -/
theorem stepI64_eq_step [DecidableEq V] {r : Region V} (h : Inv r) (hu : UpperI64 r) {op : Op V}
    (hop : OpI64 r op) : stepI64 r op = step r op := by
  cases op with
  | insert p v =>
    have hp : I64 p := hop
    unfold I64 at hp
    simp only [stepI64, step, insertAtByteIndexI64, insertAtByteIndex]
    split
    · rename_i hpos
      rw [clearIntervalI64_eq hu (by omega)]
    · rfl
  | remove p n =>
    have hp : I64 p := hop
    unfold I64 at hp
    simp only [stepI64, step, removeI64, MemRegion.remove]
    split
    · rename_i hpos
      rw [clearIntervalI64_eq hu (by omega)]
    · rfl
  | mergeWriteTop p n =>
    have hp : I64 p := hop
    unfold I64 at hp
    simp only [stepI64, step, mergeWriteTopI64, mergeWriteTop,
      clearIntervalI64_eq hu (show i64Min ≤ p + (n : Int) by omega)]
    cases BMap.get r p <;> rfl
  | markInterval s e n =>
    have hp : I64 s ∧ I64 e := hop
    unfold I64 at hp
    simp only [stepI64, step, markIntervalValuesAsTopI64, markIntervalValuesAsTop,
      mergeValuesIntersectingRangeWithTopI64, mergeValuesIntersectingRangeWithTop]
    rw [rangeI64_eq (upper_mergePrevWithTop h hu s) (by omega)]
    by_cases hlt : e + (n : Int) < s
    · rw [if_pos ⟨⟨by omega, by omega⟩, hlt⟩, if_pos hlt]
    · rw [if_neg (fun hh => hlt hh.2), if_neg hlt]
  | markAll => rfl
  | addOffset d => rfl
  | scrub p => rfl
  | clearTop => rfl
  | merge other => rfl

/-- an operation keeps the positions inside i64 -/
theorem keysI64_step [LawfulValueDomain V] [IdemMerge V] [DecidableEq V] {r r' : Region V} (h : Inv r)
    {op : Op V} (hpre : Pre r op) (hk : KeysI64 r) (hop : OpI64 r op) (hs : step r op = some r') :
    KeysI64 r' := by
  obtain ⟨r'', hs', _, hsame⟩ := step_refines h op hpre
  rw [hs] at hs'
  obtain rfl : r' = r'' := by simpa using hs'
  intro x hx
  have hx := (hsame x).mp hx
  cases op with
  | insert p v =>
    rcases Spec.mem_write.mp hx with ⟨hx, _⟩ | ⟨_, rfl⟩
    · exact hk x hx
    · exact hop
  | remove p n => exact hk x (Spec.mem_delete.mp hx).1
  | mergeWriteTop p n =>
    obtain ⟨_, c, hc, hkc, _⟩ := Spec.writeTop_source h.noTop hx
    rw [← hkc]; exact hk c hc
  | markInterval s e n =>
    obtain ⟨_, c, hc, hkc, _⟩ := Spec.weakenIf_source h.noTop hx
    rw [← hkc]; exact hk c hc
  | markAll =>
    obtain ⟨c, hc, hw⟩ := List.mem_filterMap.mp hx
    rw [← (weaken_source hw).2.1]; exact hk c hc
  | addOffset d =>
    obtain ⟨c, hc, rfl⟩ := List.mem_map.mp hx
    exact hop c hc
  | scrub p => exact hk x (List.mem_filter.mp hx).1
  | clearTop => exact hk x hx
  | merge other =>
    rcases (Spec.merge_source hx).2 with ⟨c, hc, hkc, _⟩ | ⟨d, hd, hkd, _⟩
    · rw [← hkc]; exact hk c hc
    · rw [← hkd]; exact hop d hd

/-- the position arguments are i64 values along the whole history -/
def OpI64All [DecidableEq V] (r : Region V) : List (Op V) → Prop
  | [] => True
  | op :: ops => OpI64 r op ∧ ∀ r', step r op = some r' → OpI64All r' ops

/-- **C05-refinement (repaired code, i64 positions).** For EVERY history whose position arguments
are i64 values (and whose offset shifts stay inside i64) and that meets the preconditions —
nothing is assumed about `position + size`: positions AT `i64::MAX` are included — the repaired
code does not panic, agrees with the `Int` model, keeps the invariant and all positions inside
i64, and holds exactly the cells of the reference cell store. -/
theorem runI64_refines [LawfulValueDomain V] [IdemMerge V] [DecidableEq V] (ops : List (Op V)) :
    ∀ {r : Region V} {s : Store V}, Inv r → KeysI64 r → SameCells r s → PreAll r ops → OpI64All r ops →
      ∃ r', runI64 r ops = some r' ∧ run r ops = some r' ∧ Inv r' ∧ KeysI64 r' ∧
        SameCells r' (Spec.run s ops) := by
  induction ops with
  | nil => intro r s h hk hs _ _; exact ⟨r, rfl, rfl, h, hk, hs⟩
  | cons op ops ih =>
    intro r s h hk hs hpre hop
    obtain ⟨r1, hstep, hinv1, hsame1⟩ := step_refines h op hpre.1
    have hk1 := keysI64_step h hpre.1 hk hop.1 hstep
    obtain ⟨r', hrunI, hrun, hinv', hk', hsame'⟩ :=
      ih hinv1 hk1 (hsame1.trans (Spec.step_congr hs op)) (hpre.2 r1 hstep) (hop.2 r1 hstep)
    refine ⟨r', ?_, by simp [run, hstep, hrun], hinv', hk', hsame'⟩
    simp [runI64, stepI64_eq_step h hk.upper hop.1, hstep, hrunI]

/-- histories without shifts and merges: `OpI64` does not depend on the region -/
theorem OpI64All.of_static [DecidableEq V] {ops : List (Op V)} :
    ∀ {r : Region V}, (∀ op ∈ ops, OpI64 ([] : Region V) op ∧ (∀ d, op ≠ Op.addOffset d) ∧ ∀ o, op ≠ Op.merge o) →
      OpI64All r ops := by
  induction ops with
  | nil => intro _ _; trivial
  | cons op ops ih =>
    intro r h
    refine ⟨?_, fun r' _ => ih (fun o ho => h o (List.mem_cons_of_mem _ ho))⟩
    have := h op List.mem_cons_self
    cases op <;> simp_all [OpI64]

/-- a history AT `i64::MAX`: every interval end exceeds `i64::MAX` -/
def exEdgeOps : List (Op BvVal) :=
  [.insert (i64Max - 8) (.val 8 5), .insert i64Max (.val 8 1), .insert (i64Max - 2) (.val 4 9),
   .mergeWriteTop (i64Max - 1) 8, .insert i64Max (.val 1 2), .markInterval (i64Max - 20) i64Max 4,
   .insert (i64Max - 3) (.val 8 7), .remove (i64Max - 4) 1]

example : runI64 ([] : Region BvVal) exEdgeOps = some [(i64Max - 3, .val 8 7)] := by decide
example : Spec.run ([] : Store BvVal) exEdgeOps = [(i64Max - 3, .val 8 7)] := by decide

theorem exEdgeOps_pre : PreAll (MemRegion.new : Region BvVal) exEdgeOps :=
  PreAll.of_simple (by simp [exEdgeOps, Spec.pre, ValueDomain.size, BvVal.size, i64Max])

theorem exEdgeOps_i64 : OpI64All (MemRegion.new : Region BvVal) exEdgeOps :=
  OpI64All.of_static (by simp [exEdgeOps, OpI64, I64, i64Max, i64Min])

example : ∃ r, runI64 (MemRegion.new : Region BvVal) exEdgeOps = some r ∧
    run (MemRegion.new : Region BvVal) exEdgeOps = some r ∧ Inv r ∧ KeysI64 r ∧
    SameCells r (Spec.run [] exEdgeOps) :=
  runI64_refines exEdgeOps inv_nil (fun _ h => nomatch h) (SameCells.refl _) exEdgeOps_pre exEdgeOps_i64

end CweModel.C05
