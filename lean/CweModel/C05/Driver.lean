/- C05 model driver: replays one operation history per line on the model region and on the
reference cell store and compares both with the implementation output after EVERY operation. -/
import CweModel.Base.Proto
import CweModel.C05.Model
open Lean CweModel.Proto CweModel.MemRegion

namespace CweModel.C05

/-- JSON decoding and canonical printing of a value domain -/
structure Codec (V : Type) where
  parse : Json → Except String V
  shw : V → String

def showBv : BvVal → String
  | .top n => s!"T{n}"
  | .val n v => s!"V{n}:{v}"

def parseBv (j : Json) : Except String BvVal := do
  let s ← natF j "s"
  match optF j "v" with
  | some v => return .val s (← v.getNat?)
  | none => return .top s

def bvCodec : Codec BvVal := { parse := parseBv, shw := showBv }

def taintCodec : Codec TaintVal where
  parse j := do
    let s ← natF j "s"
    match optF j "t" with
    | some _ => return .tainted s
    | none => return .top s
  shw v := match v with | .tainted n => s!"X{n}" | .top n => s!"T{n}"

def dataCodec : Codec DataVal where
  parse j := do
    let s ← natF j "s"
    let a ← match optF j "a" with
      | some a => (parseBv a).map some
      | none => pure none
    return { size := s, abs := a, containsTop := ← boolF j "f" }
  shw v := s!"D{v.size}:" ++ (match v.abs with | some a => showBv a | none => "-") ++ (if v.containsTop then ":1" else ":0")

section
variable {V : Type} [ValueDomain V] [DecidableEq V]

def showCells (c : Codec V) (r : List (Int × V)) : String :=
  ",".intercalate (r.map (fun x => s!"{x.1}={c.shw x.2}"))

/-- stable insertion sort by offset (keeps duplicates, so a broken store stays visible) -/
def sortCells : List (Int × V) → List (Int × V)
  | [] => []
  | c :: rest => ins c (sortCells rest)
where ins (c : Int × V) : List (Int × V) → List (Int × V)
  | [] => [c]
  | d :: ds => if c.1 ≤ d.1 then c :: d :: ds else d :: ins c ds

/-- the operation computes an interval end above `i64::MAX` on region `m`: its own interval, or
the end of a stored cell (of `m` or of the merge operand) that it may have to look at -/
def overflows (m : Region V) (op : Op V) : Bool :=
  let cellOver (r : Region V) : Bool := r.any (fun c => decide (i64Max < c.1 + isize c.2))
  cellOver m || (match op with
    | .insert p v => decide (i64Max < p + isize v)
    | .remove p n => decide (i64Max < p + n)
    | .mergeWriteTop p n => decide (i64Max < p + (n : Int))
    | .markInterval _ e n => decide (i64Max < e + (n : Int))
    | .merge o => cellOver o
    | _ => false)

/-- some operation of the history (of a merge operand) computes an interval end above `i64::MAX` -/
def runOverflows : Region V → List (Op V) → Bool
  | _, [] => false
  | r, op :: ops => overflows r op || (match stepI64 r op with | some r' => runOverflows r' ops | none => false)

/-- a line item: a mutating operation (model op, spec op, name) or a read probe -/
inductive Item (V : Type) where
  | op (m s : Op V) (name : String) (otherImpl : Option String) (operandOverflows : Bool)
  | get (p : Int) (n : Nat)
  | getu (p : Int)

def parseSimpleOp (c : Codec V) (j : Json) : Except String (Op V × String) := do
  let o ← strF j "o"
  match o with
  | "ins" | "add" => return (.insert (← intF j "p") (← c.parse (← field j "v")), o)
  | "rm" => return (.remove (← intF j "p") (← intF j "n"), o)
  | "mwt" => return (.mergeWriteTop (← intF j "p") (← natF j "n"), o)
  | "mi" => return (.markInterval (← intF j "s") (← intF j "e") (← natF j "n"), o)
  | "ma" => return (.markAll, o)
  | "off" => return (.addOffset (← intF j "d"), o)
  | "scrub" => return (.scrub (← intF j "p"), o)
  | "ct" => return (.clearTop, o)
  | _ => throw s!"unknown op {o}"

def parseItem (c : Codec V) (j : Json) : Except String (Item V) := do
  let o ← strF j "o"
  match o with
  | "get" => return .get (← intF j "p") (← natF j "n")
  | "getu" => return .getu (← intF j "p")
  | "merge" =>
    let wops ← mapM' (fun x => (parseSimpleOp c x).map (·.1)) (← arrF j "w")
    let ws := (strF j "ws").toOption
    match runI64 ([] : Region V) wops with
    | some other => return .op (.merge other) (.merge (Spec.run [] wops)) "merge" ws (runOverflows [] wops)
    | none => throw "history of the merge operand panics in the model"
  | _ =>
    let (op, name) ← parseSimpleOp c j
    return .op op op name none false

/-- walk through the history; returns the verdict -/
def walk (c : Codec V) (dom : String) : List (Item V) → List String → Region V → Store V → Nat → Bool → String
  | [], [], _, _, k, ov => s!"ok {dom} steps{if k ≥ 20 then "20+" else if k ≥ 8 then "8+" else "lt8"}{if ov then " end-above-i64max" else ""}"
  | [], _ :: _, _, _, _, _ => "bad more impl outputs than operations"
  | _ :: _, [], _, _, _, _ => "bad fewer impl outputs than operations"
  | .get p n :: items, impl :: impls, m, s, k, ov =>
    let e := c.shw (Spec.read s p n)
    let mv := c.shw (get m p n)
    if impl != e then s!"spec class={dom}-get step={k} expected={e} impl={impl} model={mv}"
    else if impl != mv then s!"diff class={dom}-get step={k} model={mv} impl={impl}"
    else walk c dom items impls m s (k + 1) ov
  | .getu p :: items, impl :: impls, m, s, k, ov =>
    let sh : Option V → String := fun o => match o with | some v => c.shw v | none => "none"
    let e := sh (Spec.readUnsized s p)
    let mv := sh (getUnsized m p)
    if impl != e then s!"spec class={dom}-getu step={k} expected={e} impl={impl} model={mv}"
    else if impl != mv then s!"diff class={dom}-getu step={k} model={mv} impl={impl}"
    else walk c dom items impls m s (k + 1) ov
  | .op mop sop name other wov :: items, impl :: impls, m, s, k, ov =>
    -- the merge operand itself: model of its history vs the implementation's operand
    let otherBad : Option String := match mop, other with
      | .merge o, some ws => if showCells c o != ws then some s!"diff class={dom}-merge-operand step={k} model={showCells c o} impl={ws}" else none
      | _, _ => none
    match otherBad with
    | some v => v
    | none =>
    let mres := stepI64 m mop
    let mstr := match mres with | some r => showCells c r | none => "panic"
    if Spec.pre mop then
      let s' := Spec.step s sop
      let e := showCells c (sortCells s')
      -- failures of the interval arithmetic next to i64::MAX get their own classes
      let cls := if overflows m mop || wov then (if impl == "panic" then "panic-position-overflow" else "cells-position-overflow")
                 else s!"{dom}-{name}"
      if impl != e then s!"spec class={cls} op={dom}-{name} step={k} expected={e} impl={impl} model={mstr}"
      else if impl != mstr then s!"diff class={dom}-{name} step={k} model={mstr} impl={impl}"
      else match mres with
        | some r => walk c dom items impls r s' (k + 1) (ov || overflows m mop || wov)
        | none => "bad unreachable"
    else
      -- an emptied BTreeMap (root node still allocated) panics on an inverted range, see the model
      let inverted := match mop with | .markInterval st e n => decide (e + (n : Int) < st) | _ => false
      let emptiedMapPanic := impl == "panic" && inverted && mstr == "" && items.isEmpty
      if emptiedMapPanic then s!"ok {dom} modelonly panic-emptied-map"
      else if impl != mstr then s!"diff class={dom}-{name}-nopre step={k} model={mstr} impl={impl}"
      else match mres with
        | some r => walk c dom items impls r r (k + 1) ov   -- outside the hypotheses: resynchronise the store
        | none => if items.isEmpty then s!"ok {dom} modelonly panic" else "bad operations after a panic"

def handleDom (c : Codec V) (dom : String) (j : Json) : Except String String := do
  let items ← mapM' (parseItem c) (← arrF j "ops")
  let impls ← mapM' (fun (x : Json) => x.getStr?) (← arrF j "impl")
  return walk c dom items impls [] [] 0 false

end

def handleE (line : String) : Except String String := do
  let j ← Json.parse line
  let dom ← strF j "dom"
  match dom with
  | "bv" => handleDom bvCodec dom j
  | "taint" => handleDom taintCodec dom j
  | "data" => handleDom dataCodec dom j
  | _ => throw s!"unknown domain {dom}"

end CweModel.C05

def main : IO Unit := CweModel.Proto.runDriver (CweModel.Proto.guarded CweModel.C05.handleE)
