/-
C05 — model of operation histories on a `MemRegion` and the executable specification
(the *reference cell store*).

The model of every `MemRegion` function is in `CweModel/Base/MemRegion.lean`
(`src/cwe_checker_lib/src/abstract_domain/mem_region.rs`). This file adds

* `Op`, `step`, `run`: one constructor per public mutating operation, histories;
* `Spec.*`: the reference cell store — an UNSORTED list of cells where a write deletes EVERY
  cell sharing a byte with the written range and then appends the new cell (unless the value is
  the unknown value), and a read is an exact (offset, size) hit or the unknown value;
* models of the three value domains the correspondence run uses: `BitvectorDomain`
  (`abstract_domain/bitvector.rs`; top is maximal, merging two different values gives top),
  `Taint` (`analysis/taint/mod.rs`; top = untainted is NOT maximal) and `DataDomain<BitvectorDomain>`
  without relative values (`abstract_domain/data/trait_impl.rs`; top is not maximal, merging
  with top sets a flag, the empty value merged with top is top).

A cell `(o, v)` stands for the triple (offset `o`, size `size v`, value `v`).
-/
import CweModel.Base.MemRegion

namespace CweModel.C05
open CweModel.MemRegion

variable {V : Type} [ValueDomain V]

/-! ### operations and histories -/

/-- the public mutating operations of `MemRegion` -/
inductive Op (V : Type) where
  /-- `insert_at_byte_index(value, position)` / `add(value, position)` -/
  | insert (position : Int) (value : V)
  /-- `remove(position, size_in_bytes)` -/
  | remove (position size : Int)
  /-- `merge_write_top(position, size)` -/
  | mergeWriteTop (position : Int) (size : Nat)
  /-- `mark_interval_values_as_top(start, end, elem_size)` -/
  | markInterval (start end_ : Int) (elemSize : Nat)
  /-- `mark_all_values_as_top()` -/
  | markAll
  /-- `add_offset_to_all_indices(offset)` -/
  | addOffset (offset : Int)
  /-- `values_mut()`: overwrite the value stored at `position` (if any) by its `top()`, then
  `clear_top_values()` — the documented use of `clear_top_values` -/
  | scrub (position : Int)
  /-- `clear_top_values()` -/
  | clearTop
  /-- `self = self.merge(&other)` (`AbstractDomain::merge` → `merge_inner`) -/
  | merge (other : Region V)

/-- `values_mut()` used to overwrite the value at `position` by `value.top()` -/
def pokeTop (r : Region V) (position : Int) : Region V :=
  r.map (fun c => if c.1 = position then (c.1, topOf c.2) else c)

/-- one operation on the model region; `none` = the Rust code panics -/
def step [DecidableEq V] (r : Region V) : Op V → Option (Region V)
  | .insert p v => insertAtByteIndex r v p
  | .remove p n => MemRegion.remove r p n
  | .mergeWriteTop p n => some (mergeWriteTop r p n)
  | .markInterval s e n => markIntervalValuesAsTop r s e n
  | .markAll => some (markAllValuesAsTop r)
  | .addOffset d => some (addOffsetToAllIndices r d)
  | .scrub p => some (clearTopValues (pokeTop r p))
  | .clearTop => some (clearTopValues r)
  | .merge other => some (mergeRegions r other)

/-- a history; `none` as soon as one operation panics -/
def run [DecidableEq V] (r : Region V) : List (Op V) → Option (Region V)
  | [] => some r
  | op :: ops => (step r op).bind (fun r' => run r' ops)

/-! ### the repaired interval arithmetic with i64 positions

`CweModel/Base/MemRegion.lean` computes interval ends in `Int`. The code (since the repair of the
position-overflow panic) computes them in i128 (`interval_end`), which is exact, and turns an
interval `[start, end)` into BTreeMap range bounds by `interval_bounds(start, end)`:
`start..end` if `end` is an i64 and `start..` (no upper bound) otherwise. The definitions below
mirror exactly that; `C05/Props.lean` proves that they coincide with the `Int` definitions on every
region whose positions are representable in i64 (`stepI64_eq_step`). The driver runs these. -/

/-- the value is an i64 -/
def I64 (x : Int) : Prop := i64Min ≤ x ∧ x ≤ i64Max

instance (x : Int) : Decidable (I64 x) := by unfold I64; infer_instance

/-- all positions of the region are representable in i64 (true for every `BTreeMap<i64, T>`) -/
def KeysI64 {α : Type} (r : BMap α) : Prop := ∀ c ∈ r, I64 c.1

/-- no position of the region exceeds `i64::MAX` -/
def UpperI64 {α : Type} (r : BMap α) : Prop := ∀ c ∈ r, c.1 ≤ i64Max

/-- no position of the region lies below `i64::MIN` (what `merge_inner`, which starts its running
range end at `i64::MIN`, needs) -/
def LowerBounded {α : Type} (r : BMap α) : Prop := ∀ c ∈ r, i64Min ≤ c.1

/-- `map.range(interval_bounds(lo, hi))`: `lo..hi` if `i64::try_from(hi)` succeeds, else `lo..` -/
def rangeI64 {α : Type} (m : BMap α) (lo hi : Int) : BMap α :=
  if i64Min ≤ hi ∧ hi ≤ i64Max then BMap.range m lo hi else m.filter (fun c => decide (lo ≤ c.1))

/-- `MemRegion::clear_interval(position, size)` (`interval_end(prev_pos, prev_size) > position` is
the `Int` comparison of `clearPrev`) -/
def clearIntervalI64 (r : Region V) (position size : Int) : Region V :=
  let r1 := clearPrev r position
  let intersecting : List Int := (rangeI64 r1 position (position + size)).map (·.1)
  intersecting.foldl (fun m index => BMap.remove m index) r1

/-- "clear all cells from `position` upward": what `clear_interval` does when `position + size`
exceeds `i64::MAX` -/
def clearFrom (r : Region V) (position : Int) : Region V :=
  let r1 := clearPrev r position
  ((r1.filter (fun c => decide (position ≤ c.1))).map (·.1)).foldl (fun m index => BMap.remove m index) r1

/-- `MemRegion::insert_at_byte_index(value, position)` -/
def insertAtByteIndexI64 (r : Region V) (value : V) (position : Int) : Option (Region V) :=
  let sizeInBytes := isize value
  if sizeInBytes > 0 then
    let r := clearIntervalI64 r position sizeInBytes
    if !isTop value then some (BMap.insert r position value) else some r
  else none

/-- `MemRegion::remove(position, size_in_bytes)` -/
def removeI64 (r : Region V) (position size : Int) : Option (Region V) :=
  if size > 0 then some (clearIntervalI64 r position size) else none

/-- `MemRegion::merge_write_top(position, size)` -/
def mergeWriteTopI64 (r : Region V) (position : Int) (sz : Nat) : Region V :=
  match BMap.get r position with
  | some prev =>
    if size prev = sz then storeMerged r position (merge prev (topOf prev))
    else clearIntervalI64 r position (sz : Int)
  | none => clearIntervalI64 r position (sz : Int)

/-- `MemRegion::merge_values_intersecting_range_with_top(start, end)` with `end : i128`;
`none` = `BTreeMap::range` panics because both bounds are given and `start > end` (see
`mergeValuesIntersectingRangeWithTop` for the empty-map quirk) -/
def mergeValuesIntersectingRangeWithTopI64 (r : Region V) (start end_ : Int) : Option (Region V) :=
  let r1 := mergePrevWithTop r start
  if (i64Min ≤ end_ ∧ end_ ≤ i64Max) ∧ end_ < start then (if r1.isEmpty then some r1 else none)
  else
    let intersecting : List (Int × V) :=
      (rangeI64 r1 start end_).map (fun c => (c.1, merge c.2 (topOf c.2)))
    some (intersecting.foldl (fun m c => storeMerged m c.1 c.2) r1)

/-- `MemRegion::mark_interval_values_as_top(start, end, elem_size)` -/
def markIntervalValuesAsTopI64 (r : Region V) (start end_ : Int) (elemSize : Nat) : Option (Region V) :=
  mergeValuesIntersectingRangeWithTopI64 r start (end_ + (elemSize : Int))

/-- one operation of the repaired code on a region with i64 positions (`merge_inner` computes its
range ends in i128 and looks up the next entry by `(Excluded(index), Unbounded)`: that is the `Int`
model `mergeInner`) -/
def stepI64 [DecidableEq V] (r : Region V) : Op V → Option (Region V)
  | .insert p v => insertAtByteIndexI64 r v p
  | .remove p n => removeI64 r p n
  | .mergeWriteTop p n => some (mergeWriteTopI64 r p n)
  | .markInterval s e n => markIntervalValuesAsTopI64 r s e n
  | op => step r op

def runI64 [DecidableEq V] (r : Region V) : List (Op V) → Option (Region V)
  | [] => some r
  | op :: ops => (stepI64 r op).bind (fun r' => runI64 r' ops)

/-! ### specification: the reference cell store -/

/-- unsorted list of cells -/
abbrev Store (V : Type) := List (Int × V)

/-- the cell shares a byte with `[lo, hi)` -/
def overlaps (c : Int × V) (lo hi : Int) : Bool := decide (c.1 < hi) && decide (lo < c.1 + isize c.2)

/-- two cells share a byte -/
def cellsOverlap (c d : Int × V) : Bool := overlaps c d.1 (d.1 + isize d.2)

/-- same offset and same size -/
def sameSlot (c d : Int × V) : Bool := decide (c.1 = d.1) && decide (size c.2 = size d.2)

/-- the cell is exactly the slot (offset `p`, size `n`) -/
def isSlot (p : Int) (n : Nat) (c : Int × V) : Bool := decide (c.1 = p) && decide (size c.2 = n)

/-- a cell unless its value is the unknown value -/
def keepNonTop (o : Int) (v : V) : Option (Int × V) := if isTop v then none else some (o, v)

/-- a write of the unknown value over one cell: `v ↦ merge v top`, dropped if that is unknown -/
def weaken (c : Int × V) : Option (Int × V) := keepNonTop c.1 (merge c.2 (topOf c.2))

namespace Spec

/-- delete EVERY cell sharing a byte with `[lo, hi)` -/
def delete (s : Store V) (lo hi : Int) : Store V := s.filter (fun c => !overlaps c lo hi)

/-- write: delete every overlapped cell, then append (unless the value is unknown) -/
def write (s : Store V) (p : Int) (v : V) : Store V :=
  delete s p (p + isize v) ++ (if isTop v then [] else [(p, v)])

/-- read: exact (offset, size) hit, else the unknown value -/
def read (s : Store V) (p : Int) (n : Nat) : V :=
  match s.find? (isSlot p n) with
  | some c => c.2
  | none => newTop n

def readUnsized (s : Store V) (p : Int) : Option V := (s.find? (fun c => decide (c.1 = p))).map (·.2)

/-- top-write to a slot: an exactly matching cell is weakened, otherwise every overlapped cell is deleted -/
def writeTop (s : Store V) (p : Int) (n : Nat) : Store V :=
  if s.any (isSlot p n) then s.filterMap (fun c => if isSlot p n c then weaken c else some c)
  else delete s p (p + (n : Int))

/-- top-write to an unknown position in `[lo, hi)`: every overlapped cell is weakened -/
def weakenRange (s : Store V) (lo hi : Int) : Store V :=
  s.filterMap (fun c => if overlaps c lo hi then weaken c else some c)

def weakenAll (s : Store V) : Store V := s.filterMap weaken

def shift (s : Store V) (d : Int) : Store V := s.map (fun c => (c.1 + d, c.2))

/-- delete the cell at offset `p` -/
def dropAt (s : Store V) (p : Int) : Store V := s.filter (fun c => c.1 != p)

/-- merge: a cell of one input survives iff the other input holds a cell in the same slot (then
the values are merged) or no cell of the other input shares a byte with it (then it is merged
with the unknown value); results that are the unknown value are dropped. -/
def merge (a b : Store V) : Store V :=
  a.filterMap (fun c =>
    match b.find? (sameSlot c) with
    | some d => keepNonTop c.1 (ValueDomain.merge c.2 d.2)
    | none => if b.any (cellsOverlap c) then none
              else keepNonTop c.1 (ValueDomain.merge c.2 (newTop (size c.2))))
  ++ b.filterMap (fun d =>
    if a.any (sameSlot d) then none
    else if a.any (cellsOverlap d) then none
    else keepNonTop d.1 (ValueDomain.merge d.2 (newTop (size d.2))))

/-- hypotheses of the property on one operation (the Rust code panics exactly when the first
three fail; an empty interval is excluded for the top-writes because the code then still
weakens a predecessor cell that covers the start position). -/
def pre : Op V → Bool
  | .insert _ v => decide (0 < size v)
  | .remove _ n => decide (0 < n)
  | .mergeWriteTop _ n => decide (0 < n)
  | .markInterval s e n => decide (s < e + (n : Int))
  | _ => true

/-- one operation on the reference store -/
def step (s : Store V) : Op V → Store V
  | .insert p v => write s p v
  | .remove p n => delete s p (p + n)
  | .mergeWriteTop p n => writeTop s p n
  | .markInterval st e n => weakenRange s st (e + (n : Int))
  | .markAll => weakenAll s
  | .addOffset d => shift s d
  | .scrub p => dropAt s p
  | .clearTop => s
  | .merge other => merge s other

def run (s : Store V) (ops : List (Op V)) : Store V := ops.foldl step s

end Spec

/-! ### value domains of the correspondence run -/

/-- `BitvectorDomain`: `Top(bytesize)` | `Value(bitvector)` (size in bytes, unsigned value) -/
inductive BvVal where
  | top (size : Nat)
  | val (size : Nat) (v : Nat)
deriving DecidableEq, Repr

def BvVal.size : BvVal → Nat
  | .top n => n
  | .val n _ => n

instance : ValueDomain BvVal where
  size := BvVal.size
  isTop v := match v with | .top _ => true | .val .. => false
  newTop n := .top n
  topOf v := .top v.size
  merge a b := if a = b then a else .top a.size

/-- `Taint`: `Tainted(bytesize)` | `Top(bytesize)` -/
inductive TaintVal where
  | tainted (size : Nat)
  | top (size : Nat)
deriving DecidableEq, Repr

def TaintVal.size : TaintVal → Nat
  | .tainted n => n
  | .top n => n

instance : ValueDomain TaintVal where
  size := TaintVal.size
  isTop v := match v with | .top _ => true | .tainted _ => false
  newTop n := .top n
  topOf v := .top v.size
  merge a b := match a, b with
    | .tainted s, _ => .tainted s
    | _, .tainted s => .tainted s
    | _, _ => .top a.size

/-- `DataDomain<BitvectorDomain>` with an empty `relative_values` map -/
structure DataVal where
  size : Nat
  abs : Option BvVal
  containsTop : Bool
deriving DecidableEq, Repr

instance : ValueDomain DataVal where
  size v := v.size
  isTop v := v.abs.isNone && v.containsTop
  newTop n := { size := n, abs := none, containsTop := true }
  topOf v := { size := v.size, abs := none, containsTop := true }
  merge a b :=
    { size := a.size,
      abs := match a.abs, b.abs with
        | some l, some r => some (ValueDomain.merge l r)
        | some v, none => some v
        | none, some v => some v
        | none, none => none,
      containsTop := a.containsTop || b.containsTop }

end CweModel.C05
