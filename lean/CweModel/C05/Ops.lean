/-
C05 — every single `MemRegion` operation (except `merge_inner`, see `Merge.lean`) refines the
corresponding operation of the reference cell store and preserves the invariant:

  `Inv r → pre → (∀ x, x ∈ modelOp r ↔ x ∈ Spec.op r) ∧ Inv (modelOp r)`.
-/
import CweModel.C05.Lemmas

namespace CweModel.C05
open CweModel.MemRegion

variable {V : Type} [ValueDomain V]

/-! ### membership in the operations of the reference store -/

theorem Spec.mem_delete {s : Store V} {lo hi : Int} {x : Int × V} :
    x ∈ Spec.delete s lo hi ↔ x ∈ s ∧ ¬ Ov x lo hi := by
  simp [Spec.delete, List.mem_filter, ← overlaps_iff]

theorem Spec.mem_write {s : Store V} {p : Int} {v : V} {x : Int × V} :
    x ∈ Spec.write s p v ↔ (x ∈ s ∧ ¬ Ov x p (p + isize v)) ∨ (isTop v = false ∧ x = (p, v)) := by
  unfold Spec.write
  rw [List.mem_append, Spec.mem_delete]
  cases isTop v <;> simp

theorem isSlot_iff {p : Int} {n : Nat} {c : Int × V} : isSlot p n c = true ↔ c.1 = p ∧ size c.2 = n := by
  simp [isSlot]

/-! ### insert_at_byte_index / add -/

/-- result of `insert_at_byte_index` when the size assertion holds -/
def writeCell (r : Region V) (v : V) (p : Int) : Region V :=
  if isTop v then clearInterval r p (isize v) else BMap.insert (clearInterval r p (isize v)) p v

theorem insertAtByteIndex_eq (r : Region V) {v : V} (p : Int) (hsz : 0 < size v) :
    insertAtByteIndex r v p = some (writeCell r v p) := by
  have : isize v > 0 := by simp only [isize]; omega
  unfold insertAtByteIndex writeCell
  cases isTop v <;> simp [this]

theorem insertAtByteIndex_eq_none (r : Region V) {v : V} (p : Int) (hsz : ¬ 0 < size v) :
    insertAtByteIndex r v p = none := by
  have : ¬ isize v > 0 := by simp only [isize]; omega
  simp [insertAtByteIndex, this]

theorem mem_writeCell {r : Region V} (h : Inv r) {v : V} {p : Int} (hsz : 0 < size v) {x : Int × V} :
    x ∈ writeCell r v p ↔ x ∈ Spec.write r p v := by
  have hpos : 0 < isize v := by simp only [isize]; omega
  rw [Spec.mem_write]
  unfold writeCell
  cases hv : isTop v
  · simp only [Bool.false_eq_true, if_false, BMap.mem_insert (inv_clearInterval h _ _).sorted,
      mem_clearInterval h hpos, true_and]
    constructor
    · rintro (hx | ⟨hx, _⟩)
      · exact .inr hx
      · exact .inl hx
    · rintro (hx | hx)
      · refine .inr ⟨hx, fun hk => hx.2 ⟨by omega, ?_⟩⟩
        have := h.pos hx.1; omega
      · exact .inl hx
  · simp [mem_clearInterval h hpos]

theorem inv_writeCell {r : Region V} (h : Inv r) {v : V} (p : Int) (hsz : 0 < size v) :
    Inv (writeCell r v p) := by
  have hpos : 0 < isize v := by simp only [isize]; omega
  have hci := inv_clearInterval h p (isize v)
  unfold writeCell
  cases hv : isTop v
  · simp only [Bool.false_eq_true, if_false]
    have hmem : ∀ x, x ∈ BMap.insert (clearInterval r p (isize v)) p v ↔
        x = (p, v) ∨ ((x ∈ r ∧ ¬ Ov x p (p + isize v)) ∧ x.1 ≠ p) := by
      intro x; rw [BMap.mem_insert hci.sorted, mem_clearInterval h hpos]
    refine inv_of_sorted (hci.sorted.insert p v) ?_ ?_ ?_
    · intro x hx y hy hlt
      rcases (hmem x).mp hx with rfl | ⟨⟨hx, hox⟩, _⟩ <;> rcases (hmem y).mp hy with rfl | ⟨⟨hy, hoy⟩, _⟩
      · simp only [] at hlt; omega
      · have := h.pos hy; simp only [Ov] at hoy hlt ⊢; omega
      · have := h.pos hx; simp only [Ov] at hox hlt ⊢; omega
      · exact h.lt_disjoint hx hy hlt
    · intro x hx
      rcases (hmem x).mp hx with rfl | ⟨⟨hx, _⟩, _⟩
      · exact hsz
      · exact h.posSizes x hx
    · intro x hx
      rcases (hmem x).mp hx with rfl | ⟨⟨hx, _⟩, _⟩
      · exact hv
      · exact h.noTop x hx
  · simpa using hci

/-! ### remove -/

theorem remove_eq (r : Region V) (p : Int) {n : Int} (hn : 0 < n) :
    MemRegion.remove r p n = some (clearInterval r p n) := by
  simp [MemRegion.remove, hn]

theorem mem_clearInterval_spec {r : Region V} (h : Inv r) {p n : Int} (hn : 0 < n) {x : Int × V} :
    x ∈ clearInterval r p n ↔ x ∈ Spec.delete r p (p + n) := by
  rw [mem_clearInterval h hn, Spec.mem_delete]

/-! ### merge_write_top -/

theorem mem_mergeWriteTop {r : Region V} (h : Inv r) {p : Int} {n : Nat} (hn : 0 < n) {x : Int × V} :
    x ∈ mergeWriteTop r p n ↔ x ∈ Spec.writeTop r p n := by
  have hn' : (0 : Int) < n := by omega
  unfold mergeWriteTop Spec.writeTop
  cases hg : BMap.get r p with
  | none =>
    have hnone := BMap.get_eq_none.mp hg
    have : r.any (isSlot p n) = false := by
      rw [Bool.eq_false_iff]; intro hany
      obtain ⟨c, hc, hs⟩ := List.any_eq_true.mp hany
      exact hnone c hc (isSlot_iff.mp hs).1
    simp only [this, Bool.false_eq_true, if_false]
    exact mem_clearInterval_spec h hn'
  | some prev =>
    have hprev : (p, prev) ∈ r := BMap.mem_of_get hg
    have huniq : ∀ c ∈ r, c.1 = p → c = (p, prev) := fun c hc hk => h.key_inj hc hprev hk
    by_cases hsz : size prev = n
    · have : r.any (isSlot p n) = true :=
        List.any_eq_true.mpr ⟨(p, prev), hprev, isSlot_iff.mpr ⟨rfl, hsz⟩⟩
      simp only [hsz, this, if_true]
      rw [mem_storeMerged h.sorted, mem_weakenIf]
      constructor
      · rintro (⟨hx, hne⟩ | ⟨ht, rfl⟩)
        · refine .inl ⟨hx, ?_⟩
          rw [Bool.eq_false_iff]; intro hs; exact hne (isSlot_iff.mp hs).1
        · exact .inr ⟨(p, prev), hprev, isSlot_iff.mpr ⟨rfl, hsz⟩, weaken_eq_some.mpr ⟨ht, rfl⟩⟩
      · rintro (⟨hx, hs⟩ | ⟨c, hc, hs, hw⟩)
        · refine .inl ⟨hx, fun hk => ?_⟩
          have := huniq x hx hk; subst this
          have : isSlot p n (p, prev) = true := isSlot_iff.mpr ⟨rfl, hsz⟩
          rw [this] at hs; cases hs
        · have := huniq c hc (isSlot_iff.mp hs).1; subst this
          exact .inr (weaken_eq_some.mp hw)
    · have : r.any (isSlot p n) = false := by
        rw [Bool.eq_false_iff]; intro hany
        obtain ⟨c, hc, hs⟩ := List.any_eq_true.mp hany
        have := huniq c hc (isSlot_iff.mp hs).1; subst this
        exact hsz (isSlot_iff.mp hs).2
      simp only [hsz, this, Bool.false_eq_true, if_false]
      exact mem_clearInterval_spec h hn'

theorem sorted_mergeWriteTop {r : Region V} (h : Inv r) (p : Int) (n : Nat) :
    BMap.Sorted (mergeWriteTop r p n) := by
  unfold mergeWriteTop
  split
  · split
    · exact sorted_storeMerged h.sorted _ _
    · exact (inv_clearInterval h _ _).sorted
  · exact (inv_clearInterval h _ _).sorted

theorem Spec.writeTop_source [LawfulValueDomain V] {s : Store V} {p : Int} {n : Nat} {x : Int × V}
    (hno : ∀ c ∈ s, isTop c.2 = false) (hx : x ∈ Spec.writeTop s p n) :
    isTop x.2 = false ∧ ∃ c ∈ s, c.1 = x.1 ∧ size c.2 = size x.2 := by
  unfold Spec.writeTop at hx
  split at hx
  · rcases mem_weakenIf.mp hx with ⟨hx, _⟩ | ⟨c, hc, _, hw⟩
    · exact ⟨hno x hx, x, hx, rfl, rfl⟩
    · have := weaken_source hw
      exact ⟨this.1, c, hc, this.2⟩
  · have := (Spec.mem_delete.mp hx).1
    exact ⟨hno x this, x, this, rfl, rfl⟩

theorem inv_mergeWriteTop [LawfulValueDomain V] {r : Region V} (h : Inv r) (p : Int) {n : Nat}
    (hn : 0 < n) : Inv (mergeWriteTop r p n) :=
  inv_of_sources h (sorted_mergeWriteTop h p n)
    (fun _ hx => Spec.writeTop_source h.noTop ((mem_mergeWriteTop h hn).mp hx))

/-! ### mark_interval_values_as_top -/

theorem sorted_mergePrevWithTop {r : Region V} (hs : BMap.Sorted r) (p : Int) :
    BMap.Sorted (mergePrevWithTop r p) := by
  unfold mergePrevWithTop
  split
  · split
    · split
      · exact sorted_storeMerged hs _ _
      · exact hs
    · exact hs
  · exact hs

theorem mem_mergePrevWithTop {r : Region V} (h : Inv r) {p : Int} {x : Int × V} :
    x ∈ mergePrevWithTop r p ↔
      (x ∈ r ∧ (x.1 < p → ¬ p < x.1 + isize x.2)) ∨
      ∃ c ∈ r, (c.1 < p ∧ p < c.1 + isize c.2) ∧ weaken c = some x := by
  unfold mergePrevWithTop
  cases hlb : BMap.lastBelow r p with
  | none =>
    have hnone := BMap.lastBelow_eq_none hlb
    dsimp only
    constructor
    · exact fun hx => .inl ⟨hx, fun hlt => absurd hlt (hnone x hx)⟩
    · rintro (⟨hx, _⟩ | ⟨c, hc, ⟨hlt, _⟩, _⟩)
      · exact hx
      · exact absurd hlt (hnone c hc)
  | some c =>
    obtain ⟨hc, hcp, hmax⟩ := BMap.lastBelow_eq_some h.sorted hlb
    obtain ⟨k, e⟩ := c
    dsimp only at hcp hmax ⊢
    have key : ∀ y ∈ r, y.1 < p → p < y.1 + isize y.2 → y = (k, e) := by
      intro y hy h1 h2
      have hle := hmax y hy h1
      by_cases hk : y.1 = k
      · exact h.key_inj hy hc hk
      · have := h.lt_disjoint hy hc (by simp only []; omega)
        simp only [] at this; omega
    split
    · rename_i hov
      rw [BMap.get_of_mem h.sorted hc]
      dsimp only
      rw [mem_storeMerged h.sorted]
      constructor
      · rintro (⟨hx, hne⟩ | ⟨ht, rfl⟩)
        · exact .inl ⟨hx, fun h1 h2 => hne (by rw [key x hx h1 h2])⟩
        · exact .inr ⟨(k, e), hc, ⟨hcp, by simp only []; omega⟩, weaken_eq_some.mpr ⟨ht, rfl⟩⟩
      · rintro (⟨hx, hno⟩ | ⟨c, hc', ⟨h1, h2⟩, hw⟩)
        · refine .inl ⟨hx, fun hk => ?_⟩
          have : x = (k, e) := h.key_inj hx hc hk
          subst this
          exact hno hcp (by simp only []; omega)
        · have := key c hc' h1 h2; subst this
          exact .inr (weaken_eq_some.mp hw)
    · rename_i hov
      constructor
      · intro hx
        refine .inl ⟨hx, fun h1 h2 => hov ?_⟩
        have := key x hx h1 h2
        subst this; simp only [] at h2; omega
      · rintro (⟨hx, _⟩ | ⟨c, hc', ⟨h1, h2⟩, _⟩)
        · exact hx
        · have := key c hc' h1 h2; subst this
          simp only [] at h2; omega

theorem mergeValues_eq (r : Region V) {s e : Int} (hse : ¬ e < s) :
    mergeValuesIntersectingRangeWithTop r s e =
      some (((BMap.range (mergePrevWithTop r s) s e).map (fun c => (c.1, merge c.2 (topOf c.2)))).foldl
        (fun m c => storeMerged m c.1 c.2) (mergePrevWithTop r s)) := by
  simp [mergeValuesIntersectingRangeWithTop, hse]

/-- the region after `merge_values_intersecting_range_with_top(s, e)` for `s ≤ e` -/
def weakenedRange (r : Region V) (s e : Int) : Region V :=
  ((BMap.range (mergePrevWithTop r s) s e).map (fun c => (c.1, merge c.2 (topOf c.2)))).foldl
    (fun m c => storeMerged m c.1 c.2) (mergePrevWithTop r s)

theorem weakenedRange_spec [LawfulValueDomain V] {r : Region V} (h : Inv r) {s e : Int} (hse : s < e) :
    BMap.Sorted (weakenedRange r s e) ∧ ∀ x, x ∈ weakenedRange r s e ↔ x ∈ Spec.weakenRange r s e := by
  have hs1 := sorted_mergePrevWithTop h.sorted s
  have hd : ((BMap.range (mergePrevWithTop r s) s e).map (fun c => (c.1, merge c.2 (topOf c.2)))).Pairwise
      (fun a b => a.1 ≠ b.1) := by
    rw [List.pairwise_map]
    have : BMap.Sorted (BMap.range (mergePrevWithTop r s) s e) := hs1.sublist List.filter_sublist
    exact this.imp (fun {a b} hab => by simp only []; omega)
  obtain ⟨hsorted, hmem⟩ := foldl_storeMerged hs1 hd
  refine ⟨hsorted, fun x => ?_⟩
  unfold weakenedRange
  rw [hmem x]
  unfold Spec.weakenRange
  rw [mem_weakenIf]
  simp only [List.mem_map, BMap.range, List.mem_filter, mem_mergePrevWithTop h,
    Bool.and_eq_true, decide_eq_true_eq, overlaps_iff, ← Bool.not_eq_true, Ov]
  constructor
  · rintro (⟨hx1, hall⟩ | ⟨⟨c, ⟨hc1, hlo, hhi⟩, rfl⟩, ht⟩)
    · rcases hx1 with ⟨hx, hno⟩ | ⟨c, hc, ⟨h1, h2⟩, hw⟩
      · refine .inl ⟨hx, fun hov => ?_⟩
        by_cases hlt : x.1 < s
        · exact hno hlt hov.2
        · exact hall _ ⟨x, ⟨.inl ⟨hx, hno⟩, by omega, hov.1⟩, rfl⟩ rfl
      · exact .inr ⟨c, hc, ⟨by omega, h2⟩, hw⟩
    · rcases hc1 with ⟨hc, _⟩ | ⟨c', hc', ⟨h1, _⟩, hw⟩
      · have := h.pos hc
        exact .inr ⟨c, hc, ⟨hhi, by omega⟩, weaken_eq_some.mpr ⟨by simpa using ht, rfl⟩⟩
      · have := (weaken_source hw).2.1; omega
  · rintro (⟨hx, hno⟩ | ⟨c, hc, ⟨h1, h2⟩, hw⟩)
    · have hpos := h.pos hx
      refine .inl ⟨.inl ⟨hx, fun hlt hov => hno ⟨by omega, hov⟩⟩, ?_⟩
      rintro _ ⟨y, ⟨_, hlo, hhi⟩, rfl⟩ hk
      simp only [] at hk
      exact hno ⟨by omega, by omega⟩
    · by_cases hlt : c.1 < s
      · refine .inl ⟨.inr ⟨c, hc, ⟨hlt, h2⟩, hw⟩, ?_⟩
        rintro _ ⟨y, ⟨_, hlo, hhi⟩, rfl⟩ hk
        have := (weaken_source hw).2.1
        simp only [] at hk; omega
      · obtain ⟨ht, rfl⟩ := weaken_eq_some.mp hw
        refine .inr ⟨⟨c, ⟨.inl ⟨hc, fun hh => absurd hh hlt⟩, by omega, h1⟩, rfl⟩, by simpa using ht⟩

theorem Spec.weakenIf_source [LawfulValueDomain V] {s : Store V} {P : Int × V → Bool} {x : Int × V}
    (hno : ∀ c ∈ s, isTop c.2 = false)
    (hx : x ∈ s.filterMap (fun c => if P c then weaken c else some c)) :
    isTop x.2 = false ∧ ∃ c ∈ s, c.1 = x.1 ∧ size c.2 = size x.2 := by
  rcases mem_weakenIf.mp hx with ⟨hx, _⟩ | ⟨c, hc, _, hw⟩
  · exact ⟨hno x hx, x, hx, rfl, rfl⟩
  · have := weaken_source hw
    exact ⟨this.1, c, hc, this.2⟩

theorem inv_weakenedRange [LawfulValueDomain V] {r : Region V} (h : Inv r) {s e : Int} (hse : s < e) :
    Inv (weakenedRange r s e) :=
  inv_of_sources h (weakenedRange_spec h hse).1
    (fun x hx => Spec.weakenIf_source h.noTop (((weakenedRange_spec h hse).2 x).mp hx))

theorem markInterval_eq (r : Region V) {s e : Int} {n : Nat} (hse : s < e + (n : Int)) :
    markIntervalValuesAsTop r s e n = some (weakenedRange r s (e + (n : Int))) := by
  unfold markIntervalValuesAsTop weakenedRange
  exact mergeValues_eq r (by omega)

/-! ### mark_all_values_as_top, clear_top_values, values_mut -/

theorem mem_clearTopValues {r : Region V} {x : Int × V} :
    x ∈ clearTopValues r ↔ x ∈ r ∧ isTop x.2 = false := by
  simp [clearTopValues, BMap.retain, List.mem_filter]

theorem clearTopValues_sublist (r : Region V) : (clearTopValues r).Sublist r := List.filter_sublist

theorem mem_clearTopValues_inv {r : Region V} (h : Inv r) {x : Int × V} :
    x ∈ clearTopValues r ↔ x ∈ r := by
  rw [mem_clearTopValues]; exact ⟨fun hx => hx.1, fun hx => ⟨hx, h.noTop x hx⟩⟩

theorem mem_markAll {r : Region V} {x : Int × V} :
    x ∈ markAllValuesAsTop r ↔ x ∈ Spec.weakenAll r := by
  unfold markAllValuesAsTop Spec.weakenAll
  rw [mem_clearTopValues, List.mem_map, List.mem_filterMap]
  constructor
  · rintro ⟨⟨c, hc, rfl⟩, ht⟩; exact ⟨c, hc, weaken_eq_some.mpr ⟨ht, rfl⟩⟩
  · rintro ⟨c, hc, hw⟩
    obtain ⟨ht, rfl⟩ := weaken_eq_some.mp hw
    exact ⟨⟨c, hc, rfl⟩, ht⟩

omit [ValueDomain V] in
theorem sorted_map_keys {r : Region V} (hs : BMap.Sorted r) (f : Int × V → Int × V)
    (hf : ∀ c, (f c).1 = c.1) : BMap.Sorted (r.map f) := by
  unfold BMap.Sorted
  rw [List.pairwise_map]
  exact hs.imp (fun {a b} hab => by rw [hf a, hf b]; exact hab)

theorem inv_markAll [LawfulValueDomain V] {r : Region V} (h : Inv r) : Inv (markAllValuesAsTop r) := by
  refine inv_of_sources h ?_ ?_
  · have : BMap.Sorted (r.map (fun c => (c.1, merge c.2 (topOf c.2)))) :=
      sorted_map_keys h.sorted _ (fun _ => rfl)
    exact this.sublist (clearTopValues_sublist _)
  · intro x hx
    obtain ⟨c, hc, hw⟩ := List.mem_filterMap.mp (mem_markAll.mp hx)
    have := weaken_source hw
    exact ⟨this.1, c, hc, this.2⟩

theorem mem_scrub [LawfulValueDomain V] {r : Region V} (h : Inv r) {p : Int} {x : Int × V} :
    x ∈ clearTopValues (pokeTop r p) ↔ x ∈ Spec.dropAt r p := by
  unfold pokeTop Spec.dropAt
  rw [mem_clearTopValues, List.mem_map, List.mem_filter]
  constructor
  · rintro ⟨⟨c, hc, rfl⟩, ht⟩
    by_cases hk : c.1 = p
    · simp only [hk, if_true] at ht
      rw [LawfulValueDomain.topOf_eq, LawfulValueDomain.isTop_newTop] at ht; cases ht
    · simp only [hk, if_false]; exact ⟨hc, by simpa using hk⟩
  · rintro ⟨hx, hk⟩
    have hk : ¬ x.1 = p := by simpa using hk
    exact ⟨⟨x, hx, by simp [hk]⟩, h.noTop x hx⟩

theorem inv_scrub [LawfulValueDomain V] {r : Region V} (h : Inv r) (p : Int) :
    Inv (clearTopValues (pokeTop r p)) := by
  refine inv_of_sources h ?_ ?_
  · refine (sorted_map_keys h.sorted _ (fun c => ?_)).sublist (clearTopValues_sublist _)
    split <;> rfl
  · intro x hx
    have := (mem_scrub h).mp hx
    have hx' := (List.mem_filter.mp this).1
    exact ⟨h.noTop x hx', x, hx', rfl, rfl⟩

/-! ### add_offset_to_all_indices -/

theorem addOffset_spec {r : Region V} (h : Inv r) (d : Int) :
    BMap.Sorted (addOffsetToAllIndices r d) ∧
    ∀ x, x ∈ addOffsetToAllIndices r d ↔ x ∈ Spec.shift r d := by
  unfold addOffsetToAllIndices Spec.shift
  by_cases hd : d = 0
  · subst hd
    simp only [if_true, Int.add_zero, List.mem_map]
    exact ⟨h.sorted, fun x => ⟨fun hx => ⟨x, hx, rfl⟩, fun ⟨c, hc, hcx⟩ => hcx ▸ hc⟩⟩
  · simp only [hd, if_false]
    have hdist : r.Pairwise (fun a b => a.1 + d ≠ b.1 + d) :=
      h.sorted.imp (fun {a b} hab => by omega)
    obtain ⟨hs, hm⟩ := BMap.foldl_insert (fun c : Int × V => c.1 + d) (fun c => c.2)
      (m := []) List.Pairwise.nil hdist
    refine ⟨hs, fun x => ?_⟩
    rw [hm x, List.mem_map]
    constructor
    · rintro (⟨c, hc, rfl⟩ | ⟨hx, _⟩)
      · exact ⟨c, hc, rfl⟩
      · cases hx
    · rintro ⟨c, hc, rfl⟩; exact .inl ⟨c, hc, rfl⟩

theorem inv_addOffset {r : Region V} (h : Inv r) (d : Int) : Inv (addOffsetToAllIndices r d) := by
  obtain ⟨hs, hm⟩ := addOffset_spec h d
  have hm' : ∀ x, x ∈ addOffsetToAllIndices r d ↔ ∃ c ∈ r, (c.1 + d, c.2) = x := by
    intro x; rw [hm x]; simp [Spec.shift]
  refine inv_of_sorted hs ?_ ?_ ?_
  · intro x hx y hy hlt
    obtain ⟨c, hc, rfl⟩ := (hm' x).mp hx
    obtain ⟨c', hc', rfl⟩ := (hm' y).mp hy
    have := h.lt_disjoint hc hc' (by simp only [] at hlt; omega)
    simp only []; omega
  · intro x hx
    obtain ⟨c, hc, rfl⟩ := (hm' x).mp hx
    exact h.posSizes c hc
  · intro x hx
    obtain ⟨c, hc, rfl⟩ := (hm' x).mp hx
    exact h.noTop c hc

end CweModel.C05
