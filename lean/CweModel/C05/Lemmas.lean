/-
C05 — lemmas about the BTreeMap model (`BMap`) and membership characterisations of the
`MemRegion` operations (`CweModel/Base/MemRegion.lean`). The property theorems are in
`CweModel/C05/Props.lean`.
-/
import CweModel.C05.Model

namespace CweModel.MemRegion

/-! ### lists -/

theorem pairwise_mem_cases {α : Type} {R : α → α → Prop} {l : List α} (h : l.Pairwise R)
    {x y : α} (hx : x ∈ l) (hy : y ∈ l) : x = y ∨ R x y ∨ R y x := by
  induction l with
  | nil => cases hx
  | cons a l ih =>
    rw [List.pairwise_cons] at h
    rcases List.mem_cons.mp hx with rfl | hx' <;> rcases List.mem_cons.mp hy with rfl | hy'
    · exact .inl rfl
    · exact .inr (.inl (h.1 y hy'))
    · exact .inr (.inr (h.1 x hx'))
    · exact ih h.2 hx' hy'

namespace BMap
variable {α : Type}

theorem Sorted.key_inj {m : BMap α} (hs : Sorted m) {x y : Int × α} (hx : x ∈ m) (hy : y ∈ m)
    (h : x.1 = y.1) : x = y := by
  rcases pairwise_mem_cases hs hx hy with h' | h' | h'
  · exact h'
  · omega
  · omega

theorem Sorted.sublist {m m' : BMap α} (hs : Sorted m) (h : m'.Sublist m) : Sorted m' :=
  List.Pairwise.sublist h hs

theorem Sorted.tail {c : Int × α} {m : BMap α} (hs : Sorted (c :: m)) : Sorted m :=
  (List.pairwise_cons.mp hs).2

theorem Sorted.head_lt {c : Int × α} {m : BMap α} (hs : Sorted (c :: m)) : ∀ x ∈ m, c.1 < x.1 :=
  (List.pairwise_cons.mp hs).1

/-! #### get -/

theorem get_eq_none {m : BMap α} {k : Int} : get m k = none ↔ ∀ x ∈ m, x.1 ≠ k := by
  induction m with
  | nil => simp [get]
  | cons c m ih =>
    obtain ⟨k', v⟩ := c
    by_cases h : k' = k
    · simp [get, h]
    · simp [get, h, ih]

theorem mem_of_get {m : BMap α} {k : Int} {v : α} (h : get m k = some v) : (k, v) ∈ m := by
  induction m with
  | nil => simp [get] at h
  | cons c m ih =>
    obtain ⟨k', v'⟩ := c
    by_cases hk : k' = k
    · simp [get, hk] at h; simp [hk, h]
    · simp [get, hk] at h; exact List.mem_cons_of_mem _ (ih h)

theorem get_of_mem {m : BMap α} (hs : Sorted m) {k : Int} {v : α} (h : (k, v) ∈ m) :
    get m k = some v := by
  cases hg : get m k with
  | none => exact absurd rfl (get_eq_none.mp hg _ h)
  | some v' =>
    have := hs.key_inj (mem_of_get hg) h rfl
    simp at this; rw [this]

theorem get_eq_some {m : BMap α} (hs : Sorted m) {k : Int} {v : α} :
    get m k = some v ↔ (k, v) ∈ m := ⟨mem_of_get, get_of_mem hs⟩

theorem containsKey_eq_true {m : BMap α} {k : Int} : containsKey m k = true ↔ ∃ x ∈ m, x.1 = k := by
  unfold containsKey
  cases hg : get m k with
  | none =>
    have := get_eq_none.mp hg
    constructor
    · intro h; simp at h
    · rintro ⟨x, hx, hk⟩; exact absurd hk (this x hx)
  | some v => exact ⟨fun _ => ⟨(k, v), mem_of_get hg, rfl⟩, fun _ => rfl⟩

/-! #### remove -/

theorem mem_remove {m : BMap α} {k : Int} {x : Int × α} : x ∈ remove m k ↔ x ∈ m ∧ x.1 ≠ k := by
  simp [remove, List.mem_filter]

theorem remove_sublist (m : BMap α) (k : Int) : (remove m k).Sublist m := List.filter_sublist

theorem Sorted.remove {m : BMap α} (hs : Sorted m) (k : Int) : Sorted (remove m k) :=
  hs.sublist (remove_sublist m k)

/-! #### insert -/

theorem mem_insert {m : BMap α} (hs : Sorted m) {k : Int} {v : α} {x : Int × α} :
    x ∈ insert m k v ↔ x = (k, v) ∨ (x ∈ m ∧ x.1 ≠ k) := by
  induction m with
  | nil => simp [insert]
  | cons c m ih =>
    obtain ⟨k', v'⟩ := c
    have hlt := hs.head_lt
    have ih := ih hs.tail
    unfold insert
    by_cases h1 : k < k'
    · simp only [h1, if_true, List.mem_cons]
      constructor
      · rintro (h | h | h)
        · exact .inl h
        · subst h; exact .inr ⟨.inl rfl, by simp; omega⟩
        · exact .inr ⟨.inr h, by have := hlt x h; simp at this; omega⟩
      · rintro (h | ⟨h | h, _⟩)
        · exact .inl h
        · exact .inr (.inl h)
        · exact .inr (.inr h)
    · by_cases h2 : k = k'
      · subst h2
        simp only [Int.lt_irrefl, if_false, if_true, List.mem_cons]
        constructor
        · rintro (h | h)
          · exact .inl h
          · exact .inr ⟨.inr h, by have := hlt x h; simp at this; omega⟩
        · rintro (h | ⟨h | h, hne⟩)
          · exact .inl h
          · subst h; simp at hne
          · exact .inr h
      · simp only [h1, h2, if_false, List.mem_cons, ih]
        constructor
        · rintro (h | h | ⟨h, hne⟩)
          · subst h; exact .inr ⟨.inl rfl, by simp; omega⟩
          · exact .inl h
          · exact .inr ⟨.inr h, hne⟩
        · rintro (h | ⟨h | h, hne⟩)
          · exact .inr (.inl h)
          · exact .inl h
          · exact .inr (.inr ⟨h, hne⟩)

theorem Sorted.insert {m : BMap α} (hs : Sorted m) (k : Int) (v : α) : Sorted (insert m k v) := by
  induction m with
  | nil => simp [BMap.insert, Sorted]
  | cons c m ih =>
    obtain ⟨k', v'⟩ := c
    have hlt := hs.head_lt
    have ih' := ih hs.tail
    unfold BMap.insert
    by_cases h1 : k < k'
    · simp only [h1, if_true]
      refine List.pairwise_cons.mpr ⟨?_, hs⟩
      intro x hx
      rcases List.mem_cons.mp hx with rfl | hx
      · exact h1
      · have := hlt x hx; simp at this ⊢; omega
    · by_cases h2 : k = k'
      · subst h2
        simp only [Int.lt_irrefl, if_false, if_true]
        exact List.pairwise_cons.mpr ⟨fun x hx => hlt x hx, hs.tail⟩
      · simp only [h1, h2, if_false]
        refine List.pairwise_cons.mpr ⟨?_, ih'⟩
        intro x hx
        rcases (mem_insert hs.tail).mp hx with rfl | ⟨hx, _⟩
        · simp; omega
        · exact hlt x hx

/-! #### lastBelow -/

theorem lastBelow_eq_none {m : BMap α} {p : Int} (h : lastBelow m p = none) : ∀ x ∈ m, ¬ x.1 < p := by
  intro x hx hlt
  unfold lastBelow at h
  rw [List.getLast?_eq_none_iff] at h
  have : x ∈ m.filter (fun c => decide (c.1 < p)) := by simp [List.mem_filter, hx, hlt]
  rw [h] at this; cases this

theorem lastBelow_eq_some {m : BMap α} (hs : Sorted m) {p : Int} {c : Int × α}
    (h : lastBelow m p = some c) : c ∈ m ∧ c.1 < p ∧ ∀ x ∈ m, x.1 < p → x.1 ≤ c.1 := by
  unfold lastBelow at h
  rw [List.getLast?_eq_some_iff] at h
  obtain ⟨ys, hys⟩ := h
  have hc : c ∈ m.filter (fun c => decide (c.1 < p)) := by rw [hys]; simp
  rw [List.mem_filter] at hc
  refine ⟨hc.1, by simpa using hc.2, ?_⟩
  intro x hx hlt
  have hxf : x ∈ m.filter (fun c => decide (c.1 < p)) := by simp [List.mem_filter, hx, hlt]
  have hsf : Sorted (m.filter (fun c => decide (c.1 < p))) := hs.sublist List.filter_sublist
  rw [hys] at hxf hsf
  rcases List.mem_append.mp hxf with hxy | hxc
  · have := (List.pairwise_append.mp hsf).2.2 x hxy c (by simp)
    omega
  · simp at hxc; subst hxc; omega

/-! #### folds -/

theorem mem_foldl_remove {ks : List Int} {m : BMap α} {x : Int × α} :
    x ∈ ks.foldl (fun m k => remove m k) m ↔ x ∈ m ∧ x.1 ∉ ks := by
  induction ks generalizing m with
  | nil => simp
  | cons k ks ih =>
    simp only [List.foldl_cons, ih, mem_remove, List.mem_cons, not_or]
    constructor
    · rintro ⟨⟨h1, h2⟩, h3⟩; exact ⟨h1, h2, h3⟩
    · rintro ⟨h1, h2, h3⟩; exact ⟨⟨h1, h2⟩, h3⟩

theorem foldl_remove_sublist (ks : List Int) (m : BMap α) :
    (ks.foldl (fun m k => remove m k) m).Sublist m := by
  induction ks generalizing m with
  | nil => simp
  | cons k ks ih => exact (ih _).trans (remove_sublist m k)

/-- a loop of `map.insert(key c, val c)` over entries with pairwise different keys -/
theorem foldl_insert {β : Type} (key : β → Int) (val : β → α) {l : List β} {m : BMap α}
    (hs : Sorted m) (hd : l.Pairwise (fun a b => key a ≠ key b)) :
    Sorted (l.foldl (fun z c => insert z (key c) (val c)) m) ∧
    ∀ x, x ∈ l.foldl (fun z c => insert z (key c) (val c)) m ↔
      (∃ c ∈ l, x = (key c, val c)) ∨ (x ∈ m ∧ ∀ c ∈ l, key c ≠ x.1) := by
  induction l generalizing m with
  | nil => simp [hs]
  | cons b l ih =>
    rw [List.pairwise_cons] at hd
    have ih := ih (hs.insert (key b) (val b)) hd.2
    simp only [List.foldl_cons]
    refine ⟨ih.1, fun x => ?_⟩
    rw [ih.2 x, mem_insert hs]
    constructor
    · rintro (⟨c, hc, rfl⟩ | ⟨rfl | ⟨hx, hne⟩, hall⟩)
      · exact .inl ⟨c, List.mem_cons_of_mem _ hc, rfl⟩
      · exact .inl ⟨b, List.mem_cons_self, rfl⟩
      · refine .inr ⟨hx, fun c hc => ?_⟩
        rcases List.mem_cons.mp hc with rfl | hc
        · exact fun h => hne h.symm
        · exact hall c hc
    · rintro (⟨c, hc, rfl⟩ | ⟨hx, hall⟩)
      · rcases List.mem_cons.mp hc with rfl | hc
        · exact .inr ⟨.inl rfl, fun c' hc' => by simpa using (hd.1 c' hc').symm⟩
        · exact .inl ⟨c, hc, rfl⟩
      · exact .inr ⟨.inr ⟨hx, fun h => hall b List.mem_cons_self h.symm⟩,
          fun c hc => hall c (List.mem_cons_of_mem _ hc)⟩

end BMap

/-! ### the invariant, set-level view -/

section region
variable {V : Type} [ValueDomain V]

/-- the cell shares a byte with `[lo, hi)` (`Prop` form of `C05.overlaps`) -/
def Ov (c : Int × V) (lo hi : Int) : Prop := c.1 < hi ∧ lo < c.1 + isize c.2

theorem Inv.lt_disjoint {r : Region V} (h : Inv r) {x y : Int × V} (hx : x ∈ r) (hy : y ∈ r)
    (hlt : x.1 < y.1) : x.1 + isize x.2 ≤ y.1 := by
  rcases pairwise_mem_cases h.noOverlap hx hy with h' | h' | h'
  · subst h'; omega
  · exact h'
  · have := h.posSizes y hy
    simp only [isize] at h' ⊢; omega

theorem Inv.key_inj {r : Region V} (h : Inv r) {x y : Int × V} (hx : x ∈ r) (hy : y ∈ r)
    (hk : x.1 = y.1) : x = y := h.sorted.key_inj hx hy hk

theorem Inv.pos {r : Region V} (h : Inv r) {x : Int × V} (hx : x ∈ r) : 0 < isize x.2 := by
  have := h.posSizes x hx
  simp only [isize]; omega

/-- the BTreeMap order is implied by the two cell conditions -/
theorem sorted_of_noOverlap {r : Region V} (hn : NoOverlap r) (hp : PosSizes r) : BMap.Sorted r :=
  List.Pairwise.imp_of_mem (fun {a b} ha _ hab => by
    have := hp a ha
    simp only [isize] at hab; omega) hn

theorem inv_of_sorted {r : Region V} (hs : BMap.Sorted r)
    (hd : ∀ x ∈ r, ∀ y ∈ r, x.1 < y.1 → x.1 + isize x.2 ≤ y.1)
    (hp : PosSizes r) (ht : NoTopStored r) : Inv r :=
  ⟨hs, List.Pairwise.imp_of_mem (fun {a b} ha hb hab => hd a ha b hb hab) hs, hp, ht⟩

/-- a sorted region whose cells all sit in slots (offset, size) of cells of an invariant region -/
theorem inv_of_sources {r r' : Region V} (hr : Inv r) (hs : BMap.Sorted r')
    (hsrc : ∀ x ∈ r', isTop x.2 = false ∧ ∃ c ∈ r, c.1 = x.1 ∧ size c.2 = size x.2) : Inv r' := by
  refine inv_of_sorted hs ?_ ?_ (fun x hx => (hsrc x hx).1)
  · intro x hx y hy hlt
    obtain ⟨_, cx, hcx, h1, h2⟩ := hsrc x hx
    obtain ⟨_, cy, hcy, h3, _⟩ := hsrc y hy
    have := hr.lt_disjoint hcx hcy (by omega)
    simp only [isize] at this ⊢; omega
  · intro x hx
    obtain ⟨_, cx, hcx, _, h2⟩ := hsrc x hx
    have := hr.posSizes cx hcx
    omega

theorem inv_of_sublist {r r' : Region V} (hr : Inv r) (h : r'.Sublist r) : Inv r' :=
  inv_of_sources hr (hr.sorted.sublist h)
    (fun x hx => ⟨hr.noTop x (h.subset hx), x, h.subset hx, rfl, rfl⟩)

theorem inv_nil : Inv ([] : Region V) :=
  ⟨List.Pairwise.nil, List.Pairwise.nil, fun _ h => (nomatch h), fun _ h => (nomatch h)⟩

/-! ### clear_interval -/

theorem clearPrev_sublist (r : Region V) (p : Int) : (clearPrev r p).Sublist r := by
  unfold clearPrev
  cases BMap.lastBelow r p with
  | none => exact List.Sublist.refl _
  | some c =>
    obtain ⟨k, e⟩ := c
    dsimp only
    split
    · exact BMap.remove_sublist _ _
    · exact List.Sublist.refl _

theorem mem_clearPrev {r : Region V} (h : Inv r) {p : Int} {x : Int × V} :
    x ∈ clearPrev r p ↔ x ∈ r ∧ ¬ (x.1 < p ∧ p < x.1 + isize x.2) := by
  unfold clearPrev
  cases hlb : BMap.lastBelow r p with
  | none =>
    have := BMap.lastBelow_eq_none hlb
    dsimp only
    exact ⟨fun hx => ⟨hx, fun hh => this x hx hh.1⟩, fun hx => hx.1⟩
  | some c =>
    obtain ⟨hc, hcp, hmax⟩ := BMap.lastBelow_eq_some h.sorted hlb
    obtain ⟨k, e⟩ := c
    dsimp only at hcp hmax ⊢
    have key : ∀ y ∈ r, y.1 < p → p < y.1 + isize y.2 → y = (k, e) := by
      intro y hy h1 h2
      have hle := hmax y hy h1
      by_cases hk : y.1 = k
      · exact h.key_inj hy hc hk
      · have := h.lt_disjoint hy hc (by simp only []; omega)
        simp only [] at this; omega
    split
    · rename_i hov
      rw [BMap.mem_remove]
      constructor
      · rintro ⟨hx, hne⟩
        exact ⟨hx, fun hh => hne (by rw [key x hx hh.1 hh.2])⟩
      · rintro ⟨hx, hno⟩
        refine ⟨hx, fun hk => hno ?_⟩
        have : x = (k, e) := h.key_inj hx hc hk
        subst this; exact ⟨hcp, by simp only []; omega⟩
    · rename_i hov
      constructor
      · intro hx
        refine ⟨hx, fun hh => hov ?_⟩
        have := key x hx hh.1 hh.2
        subst this; simp only [] at hh; omega
      · exact fun hx => hx.1

theorem clearInterval_sublist (r : Region V) (p s : Int) : (clearInterval r p s).Sublist r :=
  (BMap.foldl_remove_sublist _ _).trans (clearPrev_sublist r p)

/-- `clear_interval` removes exactly the cells sharing a byte with `[p, p + s)` — although it
only looks at the immediate predecessor of `p` and at the cells starting inside the interval. -/
theorem mem_clearInterval {r : Region V} (h : Inv r) {p s : Int} (hs : 0 < s) {x : Int × V} :
    x ∈ clearInterval r p s ↔ x ∈ r ∧ ¬ Ov x p (p + s) := by
  unfold clearInterval
  simp only [BMap.mem_foldl_remove, mem_clearPrev h, List.mem_map, BMap.range, List.mem_filter,
    Bool.and_eq_true, decide_eq_true_eq, Ov]
  constructor
  · rintro ⟨⟨hx, hprev⟩, hrange⟩
    refine ⟨hx, fun hov => ?_⟩
    by_cases hlt : x.1 < p
    · exact hprev ⟨hlt, hov.2⟩
    · exact hrange ⟨x, ⟨⟨hx, hprev⟩, by omega, hov.1⟩, rfl⟩
  · rintro ⟨hx, hno⟩
    have hpos := h.pos hx
    refine ⟨⟨hx, fun hh => hno ⟨by omega, hh.2⟩⟩, ?_⟩
    rintro ⟨y, ⟨⟨hy, _⟩, h1, h2⟩, hk⟩
    exact hno ⟨by omega, by omega⟩

theorem inv_clearInterval {r : Region V} (h : Inv r) (p s : Int) : Inv (clearInterval r p s) :=
  inv_of_sublist h (clearInterval_sublist r p s)

end region
/-! ### weakening (merging a cell with the unknown value) -/

section weaken
open CweModel.C05
variable {V : Type} [ValueDomain V]

theorem overlaps_iff {c : Int × V} {lo hi : Int} : overlaps c lo hi = true ↔ Ov c lo hi := by
  simp [overlaps, Ov]

theorem keepNonTop_eq_some {o : Int} {v : V} {x : Int × V} :
    keepNonTop o v = some x ↔ isTop v = false ∧ x = (o, v) := by
  unfold keepNonTop
  cases isTop v <;> simp [eq_comm]

theorem weaken_eq_some {c x : Int × V} :
    weaken c = some x ↔ isTop (merge c.2 (topOf c.2)) = false ∧ x = (c.1, merge c.2 (topOf c.2)) :=
  keepNonTop_eq_some

theorem size_merge_topOf [LawfulValueDomain V] (v : V) : size (merge v (topOf v)) = size v := by
  apply LawfulValueDomain.size_merge
  rw [LawfulValueDomain.topOf_eq, LawfulValueDomain.size_newTop]

theorem size_merge_newTop [LawfulValueDomain V] (v : V) : size (merge v (newTop (size v))) = size v := by
  apply LawfulValueDomain.size_merge
  rw [LawfulValueDomain.size_newTop]

/-- a weakened cell keeps its slot and is not the unknown value -/
theorem weaken_source [LawfulValueDomain V] {c x : Int × V} (h : weaken c = some x) :
    isTop x.2 = false ∧ c.1 = x.1 ∧ size c.2 = size x.2 := by
  obtain ⟨h1, rfl⟩ := weaken_eq_some.mp h
  exact ⟨h1, rfl, (size_merge_topOf c.2).symm⟩

/-- membership in "weaken the cells satisfying `P`, keep the others" -/
theorem mem_weakenIf {s : List (Int × V)} {P : Int × V → Bool} {x : Int × V} :
    x ∈ s.filterMap (fun c => if P c then weaken c else some c) ↔
      (x ∈ s ∧ P x = false) ∨ ∃ c ∈ s, P c = true ∧ weaken c = some x := by
  rw [List.mem_filterMap]
  constructor
  · rintro ⟨c, hc, h⟩
    cases hP : P c
    · simp [hP] at h; subst h; exact .inl ⟨hc, hP⟩
    · simp [hP] at h; exact .inr ⟨c, hc, hP, h⟩
  · rintro (⟨hx, hP⟩ | ⟨c, hc, hP, h⟩)
    · exact ⟨x, hx, by simp [hP]⟩
    · exact ⟨c, hc, by simp [hP, h]⟩

/-! ### storeMerged and loops over it -/

theorem mem_storeMerged {m : Region V} (hs : BMap.Sorted m) {k : Int} {v : V} {x : Int × V} :
    x ∈ storeMerged m k v ↔ (x ∈ m ∧ x.1 ≠ k) ∨ (isTop v = false ∧ x = (k, v)) := by
  unfold storeMerged
  cases hv : isTop v
  · simp [BMap.mem_insert hs, or_comm]
  · simp [BMap.mem_remove]

theorem sorted_storeMerged {m : Region V} (hs : BMap.Sorted m) (k : Int) (v : V) :
    BMap.Sorted (storeMerged m k v) := by
  unfold storeMerged
  split
  · exact hs.remove k
  · exact hs.insert k v

theorem foldl_storeMerged {l : List (Int × V)} {m : Region V} (hs : BMap.Sorted m)
    (hd : l.Pairwise (fun a b => a.1 ≠ b.1)) :
    BMap.Sorted (l.foldl (fun m c => storeMerged m c.1 c.2) m) ∧
    ∀ x, x ∈ l.foldl (fun m c => storeMerged m c.1 c.2) m ↔
      (x ∈ m ∧ ∀ e ∈ l, e.1 ≠ x.1) ∨ (x ∈ l ∧ isTop x.2 = false) := by
  induction l generalizing m with
  | nil => simp [hs]
  | cons b l ih =>
    rw [List.pairwise_cons] at hd
    have ih := ih (sorted_storeMerged hs b.1 b.2) hd.2
    simp only [List.foldl_cons]
    refine ⟨ih.1, fun x => ?_⟩
    rw [ih.2 x, mem_storeMerged hs]
    constructor
    · rintro (⟨⟨hx, hne⟩ | ⟨ht, rfl⟩, hall⟩ | ⟨hx, ht⟩)
      · refine .inl ⟨hx, fun e he => ?_⟩
        rcases List.mem_cons.mp he with rfl | he
        · exact fun h => hne h.symm
        · exact hall e he
      · exact .inr ⟨by simp, ht⟩
      · exact .inr ⟨List.mem_cons_of_mem _ hx, ht⟩
    · rintro (⟨hx, hall⟩ | ⟨hx, ht⟩)
      · exact .inl ⟨.inl ⟨hx, fun h => hall b List.mem_cons_self h.symm⟩,
          fun e he => hall e (List.mem_cons_of_mem _ he)⟩
      · rcases List.mem_cons.mp hx with rfl | hx
        · exact .inl ⟨.inr ⟨ht, rfl⟩, fun e he => (hd.1 e he).symm⟩
        · exact .inr ⟨hx, ht⟩

end weaken

end CweModel.MemRegion
