/-
C25 — model of the log collector (`src/cwe_checker_lib/src/utils/log.rs`,
`LogThread::spawn / collect / collect_and_deduplicate`) and the specification vocabulary
(interleavings of per-thread send sequences, "last message for a key").

What is modelled: the channel content is ONE sequence `σ` of messages (crossbeam's unbounded MPMC
channel is FIFO and linearisable: `σ` is an interleaving of the senders' sequences in which a
message whose `send` returned before another `send` started comes first — this is the trusted
runtime part, see props/C25.json). `collect()` appends `Terminate` to whatever was sent before it
and joins the collector thread; `collect_and_deduplicate` is the fold `recvLoop` below.

* `BTreeMap<String, V>` whose key is a function of the value (`tid.address` of a log,
  `addresses[0]` of a warning) is modelled as a key-unique list: `insertBy` = `BTreeMap::insert`
  (overwrite), `values` = iteration in key order = sort by key (keys are unique, so any stable
  sort by the key order gives the same list).
* `K` = address type (Rust `String`), `I` = everything else a message carries (text, level, source,
  term id, description, …): the collector never looks at it.
-/
namespace CweModel.C25

variable {K I : Type}

/-- `LogMessage`: `addr = location.map(|tid| tid.address)` -/
structure Log (K I : Type) where
  id : I
  addr : Option K
deriving DecidableEq, Repr

/-- `CweWarning` -/
structure Cwe (K I : Type) where
  id : I
  addrs : List K
deriving DecidableEq, Repr

/-- `LogThreadMsg` -/
inductive Msg (K I : Type) where
  | log (l : Log K I)
  | cwe (w : Cwe K I)
  | terminate
deriving DecidableEq, Repr

/-- the map key of a warning: its first address -/
def Cwe.key (w : Cwe K I) : Option K := w.addrs.head?

def Msg.isTerminate : Msg K I → Bool
  | .terminate => true
  | _ => false

/-- `BTreeMap::insert` for a map whose key is `key v`: the new value replaces an old one with the
same key -/
def insertBy {V κ : Type} [DecidableEq κ] (key : V → κ) (m : List V) (v : V) : List V :=
  v :: m.filter (fun x => decide (key x ≠ key v))

/-- `BTreeMap::values()` / `into_values()`: iteration in key order -/
def values {V : Type} (le : V → V → Bool) (m : List V) : List V := m.mergeSort le

/-- the three local variables of `collect_and_deduplicate` -/
structure State (K I : Type) where
  logsWithAddress : List (Log K I)
  generalLogs : List (Log K I)
  collectedCwes : List (Cwe K I)

def State.init : State K I := ⟨[], [], []⟩

variable [DecidableEq K]

/-- `while let Ok(msg) = receiver.recv() { match msg { … } }` on the channel content;
`none` = the `panic!("Unexpected CWE warning without origin address")`.
(The `[]` case — channel empty and all senders gone — cannot happen while the `LogThread` value,
which owns a sender, is alive; `collect()` always sends `Terminate` first.) -/
def recvLoop (s : State K I) : List (Msg K I) → Option (State K I)
  | [] => some s
  | .terminate :: _ => some s
  | .log l :: rest =>
    match l.addr with
    | some _ => recvLoop { s with logsWithAddress := insertBy (·.addr) s.logsWithAddress l } rest
    | none => recvLoop { s with generalLogs := s.generalLogs ++ [l] } rest
  | .cwe w :: rest =>
    match w.addrs with
    | [] => none
    | _ :: _ => recvLoop { s with collectedCwes := insertBy Cwe.key s.collectedCwes w } rest

/-- `collect_and_deduplicate` on the channel content `σ`; `leL`/`leC` order logs / warnings by
their key (the `String` order of the addresses).
Result: (`logs_with_address.values() ++ general_logs`, `collected_cwes.into_values()`). -/
def collector (leL : Log K I → Log K I → Bool) (leC : Cwe K I → Cwe K I → Bool) (σ : List (Msg K I)) :
    Option (List (Log K I) × List (Cwe K I)) :=
  (recvLoop State.init σ).map fun s =>
    (values leL s.logsWithAddress ++ s.generalLogs, values leC s.collectedCwes)

/-! ### Specification vocabulary -/

/-- the messages received before collection was requested -/
def pre (σ : List (Msg K I)) : List (Msg K I) := σ.takeWhile (fun m => !m.isTerminate)

/-- the address-less logs of a message sequence, in order -/
def generalOf (l : List (Msg K I)) : List (Log K I) :=
  l.filterMap fun m => match m with
    | .log x => if x.addr.isNone then some x else none
    | _ => none

/-- the logs with a location, in order -/
def keyedLogsOf (l : List (Msg K I)) : List (Log K I) :=
  l.filterMap fun m => match m with
    | .log x => if x.addr.isSome then some x else none
    | _ => none

/-- the warnings, in order -/
def cwesOf (l : List (Msg K I)) : List (Cwe K I) :=
  l.filterMap fun m => match m with
    | .cwe w => some w
    | _ => none

/-- `x` occurs in `l` and nothing after that occurrence has the same key: "the last one sent for
its key" -/
def LastOf {α κ : Type} (key : α → κ) (x : α) (l : List α) : Prop :=
  ∃ p q, l = p ++ x :: q ∧ ∀ y ∈ q, key y ≠ key x

/-- `σ` is an interleaving of the sequences `hs` (one per sending thread): every step takes the
first remaining message of some thread. -/
inductive Interleave {α : Type} : List (List α) → List α → Prop where
  | done {hs : List (List α)} : (∀ h ∈ hs, h = []) → Interleave hs []
  | step {p q : List (List α)} {h : List α} {x : α} {σ : List α} :
      Interleave (p ++ h :: q) σ → Interleave (p ++ (x :: h) :: q) (x :: σ)

/-! ### executable forms used by the driver -/

/-- remove `x` from the head of the first thread whose next message it is -/
def popHead {α : Type} [DecidableEq α] (x : α) : List (List α) → Option (List (List α))
  | [] => none
  | [] :: hs => (popHead x hs).map ([] :: ·)
  | (y :: t) :: hs => if y = x then some (t :: hs) else (popHead x hs).map ((y :: t) :: ·)

/-- executable check that `σ` is an interleaving of `hs` (sound for `Interleave`, see Props) -/
def isInterleaveB {α : Type} [DecidableEq α] : List (List α) → List α → Bool
  | hs, [] => hs.all (·.isEmpty)
  | hs, x :: σ =>
    match popHead x hs with
    | some hs' => isInterleaveB hs' σ
    | none => false

/-- remove `x` from the head of thread number `i` -/
def popAt {α : Type} [DecidableEq α] (x : α) : Nat → List (List α) → Option (List (List α))
  | _, [] => none
  | 0, [] :: _ => none
  | 0, (y :: t) :: hs => if y = x then some (t :: hs) else none
  | i + 1, h :: hs => (popAt x i hs).map (h :: ·)

/-- executable check of an interleaving that says which thread every message is taken from
(needed when identical messages occur in several threads; sound for `Interleave`, see Props) -/
def isInterleaveIdxB {α : Type} [DecidableEq α] : List (List α) → List (Nat × α) → Bool
  | hs, [] => hs.all (·.isEmpty)
  | hs, (i, x) :: σ =>
    match popAt x i hs with
    | some hs' => isInterleaveIdxB hs' σ
    | none => false

/-- executable `LastOf` -/
def lastOfB {α κ : Type} [DecidableEq α] [DecidableEq κ] (key : α → κ) (x : α) : List α → Bool
  | [] => false
  | y :: q => lastOfB key x q || (decide (y = x) && q.all (fun z => decide (key z ≠ key x)))

end CweModel.C25
