/- C25 model driver.

case line: {"mode": "single"|"multi", "threads": [[msg…]…], "impl": {"logs":[msg…],"cwes":[msg…]} | "panic", …}
  msg: {"t":"L","id":…,"a":null|address} | {"t":"C","id":…,"as":[addresses]} | {"t":"T"}

For every case the executable forms of the theorems are evaluated on the IMPLEMENTATION output
(address-less logs: every thread's sequence is a subsequence and nothing is missing or added;
logs with address / warnings: one per key, each the last one for its key of the thread that sent it,
no key missing). Then
  * single: the output must be exactly `collector (history ++ [Terminate])`;
  * multi: the driver searches (depth-first, with backtracking, because messages may be identical
    within and across threads) an interleaving τ of the recorded per-thread sequences whose
    address-less logs are the observed ones in the observed order and whose last message per
    address is the observed winner, then CHECKS that τ is an interleaving (`isInterleaveIdxB`,
    proved sound) and that `collector (τ ++ [Terminate])` is exactly the output.
Messages are compared by VALUE as sequences / multisets (identical messages are legal): nothing
here assumes that messages are distinct. -/
import CweModel.Base.Proto
import CweModel.C25.Model
import Std.Data.HashSet
open Lean CweModel.Proto

namespace CweModel.C25

abbrev L := Log String String
abbrev C := Cwe String String
abbrev M := Msg String String

/-- Rust `String` order on ASCII addresses (lexicographic) -/
def strLe (a b : String) : Bool := !(decide (b < a))
def leL (a b : L) : Bool := strLe (a.addr.getD "") (b.addr.getD "")
def leC (a b : C) : Bool := strLe (a.key.getD "") (b.key.getD "")

def parseMsg (j : Json) : Except String M := do
  match ← strF j "t" with
  | "T" => return .terminate
  | "L" =>
    let a := match optF j "a" with
      | some (.str s) => some s
      | _ => none
    return .log { id := ← strF j "id", addr := a }
  | "C" =>
    let as ← mapM' (fun x : Json => x.getStr?) (← arrF j "as")
    return .cwe { id := ← strF j "id", addrs := as }
  | t => throw s!"bad message type {t}"

def asLog : M → Except String L
  | .log l => .ok l
  | _ => .error "log expected"

def asCwe : M → Except String C
  | .cwe w => .ok w
  | _ => .error "warning expected"

def nodupB {α : Type} [DecidableEq α] : List α → Bool
  | [] => true
  | x :: xs => !xs.contains x && nodupB xs

/-! ### search for an interleaving (messages may be identical, so this needs backtracking) -/

/-- the map a message is deduplicated in, and its key there -/
def mkey : M → Option (Bool × Option String)
  | .log l => if l.addr.isSome then some (false, l.addr) else none
  | .cwe w => some (true, w.key)
  | .terminate => none

/-- after taking `x` (key `k`, observed winner `w`) the remaining queues `qs` can still end with `w`
as the last message for `k` -/
def okAfter (qs : List (List M)) (k : Bool × Option String) (w x : M) : Bool :=
  let lasts := qs.filterMap fun q => (q.filter fun m => mkey m == some k).getLast?
  if lasts.isEmpty then x == w else lasts.any (· == w)

abbrev Failed := Std.HashSet (List Nat)

mutual
/-- depth-first search; `g` = the address-less logs still to be produced, in order; `winner` = the
observed kept message per key (`none` for a key: any order is fine); positions (remaining queue
lengths) from which no completion exists are memoised in `failed` (the rest of the state is a
function of the position). Returns the interleaving with the thread number of every message (if
found), the remaining step budget and the memo table. -/
partial def dfs (winner : Bool × Option String → Option (Option M)) (qs : List (List M)) (g : List M)
    (acc : List (Nat × M)) (budget : Nat) (failed : Failed) : Option (List (Nat × M)) × Nat × Failed :=
  if qs.all (·.isEmpty) then (if g.isEmpty then some acc.reverse else none, budget, failed)
  else
    let pos := qs.map List.length
    if failed.contains pos then (none, budget, failed)
    else
      match tryFrom winner [] qs g acc budget failed with
      | (some τ, b, f) => (some τ, b, f)
      | (none, b, f) => (none, b, if b == 0 then f else f.insert pos)

partial def tryFrom (winner : Bool × Option String → Option (Option M)) (before after : List (List M))
    (g : List M) (acc : List (Nat × M)) (budget : Nat) (failed : Failed) :
    Option (List (Nat × M)) × Nat × Failed :=
  match after with
  | [] => (none, budget, failed)
  | q :: rest =>
    match q with
    | [] => tryFrom winner (before ++ [q]) rest g acc budget failed
    | x :: t =>
      if budget == 0 then (none, 0, failed)
      -- an identical queue was already tried at this point: same subtree
      else if before.contains q then tryFrom winner (before ++ [q]) rest g acc budget failed
      else
        let qs' := before ++ t :: rest
        let g' : Option (List M) :=
          match mkey x with
          | none =>
            match g with
            | y :: g' => if y == x then some g' else none
            | [] => none
          | some k =>
            match winner k with
            | none => some g
            | some none => none
            | some (some w) => if okAfter qs' k w x then some g else none
        match g' with
        | none => tryFrom winner (before ++ [q]) rest g acc budget failed
        | some g' =>
          match dfs winner qs' g' ((before.length, x) :: acc) (budget - 1) failed with
          | (some τ, b, f) => (some τ, b, f)
          | (none, b, f) => tryFrom winner (before ++ [q]) rest g acc b f
end

def searchBudget : Nat := 200000

/-- is `g` an interleaving of the sequences `hs`? (`none` = budget exhausted) -/
def interleavingExists (hs : List (List M)) (g : List M) : Option Bool :=
  match dfs (fun _ => none) hs g [] searchBudget {} with
  | (some _, _, _) => some true
  | (none, 0, _) => none
  | (none, _, _) => some false

def findWitness (hs : List (List M)) (logs : List L) (cwes : List C) : Option (List (Nat × M)) × Nat :=
  let gen := (logs.filter (·.addr.isNone)).map Msg.log
  let winners : List M := (logs.filter (·.addr.isSome)).map Msg.log ++ cwes.map Msg.cwe
  let winner (k : Bool × Option String) : Option (Option M) := some (winners.find? fun m => mkey m == some k)
  let r := dfs winner hs gen [] searchBudget {}
  (r.1, r.2.1)

/-- executable form of the theorems on an output; `hs` = the parts of the histories sent before
collection was requested. Sequences and multisets, by value. Returns the name of the first violated
clause. -/
def specViolation (hs : List (List M)) (logs : List L) (cwes : List C) : Option String :=
  let g := logs.filter (·.addr.isNone)
  let allGen := (hs.map generalOf).flatten
  let kl := logs.filter (·.addr.isSome)
  -- address-less logs: same multiset as sent (duplicates count), every thread's sequence is a
  -- subsequence, and the whole is an interleaving of the threads' sequences
  if !(g.length == allGen.length && allGen.all (fun x => g.count x == allGen.count x)
      && hs.all (fun h => (generalOf h).isSublist g)
      && interleavingExists (hs.map fun h => (generalOf h).map Msg.log) (g.map Msg.log) != some false)
    then some "general-logs"
  else if !(nodupB (kl.map (·.addr))
      && kl.all (fun l => hs.any fun h => lastOfB (·.addr) l (keyedLogsOf h))
      && hs.all (fun h => (keyedLogsOf h).all fun l => kl.any fun l' => l'.addr == l.addr)) then some "located-logs"
  else if !(nodupB (cwes.map Cwe.key)
      && cwes.all (fun w => hs.any fun h => lastOfB Cwe.key w (cwesOf h))
      && hs.all (fun h => (cwesOf h).all fun w => cwes.any fun w' => w'.key == w.key)) then some "warnings"
  else none

def showOut (o : Option (List L × List C)) : String :=
  match o with
  | none => "panic"
  | some (ls, cs) =>
    "logs=[" ++ ",".intercalate (ls.map fun l => (l.id.takeWhile (· != '|')).toString ++ "@" ++ (l.addr.getD "-")) ++ "];cwes=["
      ++ ",".intercalate (cs.map fun w => (w.id.splitOn "(desc) ").getLast! ++ "@" ++ (w.key.getD "-")) ++ "]"

def handleE (line : String) : Except String String := do
  let j ← Json.parse line
  let mode ← strF j "mode"
  let threadsJ ← arrF j "threads"
  let hs ← mapM' (fun t : Json => do mapM' parseMsg (← t.getArr?).toList) threadsJ
  let impl : Option (List L × List C) ← match ← field j "impl" with
    | .str _ => pure none
    | o => do
      let ls ← mapM' (fun x => do asLog (← parseMsg x)) (← arrF o "logs")
      let cs ← mapM' (fun x => do asCwe (← parseMsg x)) (← arrF o "cwes")
      pure (some (ls, cs))
  let dup0 := if nodupB hs.flatten then "" else " identical-messages"
  let tag := match optF j "tag" with
    | some (.str t) => if t.isEmpty then "" else " " ++ t
    | _ => ""
  let dup := dup0 ++ tag
  let pres := hs.map pre
  let sent := (pres.map List.length).sum
  let panicExpected := pres.any fun h => (cwesOf h).any fun w => w.addrs.isEmpty
  let cut := if hs.any (fun h => h.any Msg.isTerminate) then " cutoff" else ""
  let k := hs.length
  -- outside the hypotheses of the theorems (a warning without address): model ≡ implementation only
  if panicExpected then
    if mode != "single" then throw "address-less warning in a multi-threaded case"
    let model := collector leL leC (hs.flatten ++ [.terminate])
    if impl != model then return s!"diff class={mode}-panic model={showOut model} impl={showOut impl}"
    return s!"ok {mode} modelonly panic{cut}"
  match impl with
  | none => return s!"spec class={mode}-panic expected=a-result impl=panic{tag}"
  | some (logs, cwes) =>
    if let some v := specViolation pres logs cwes then
      let model := if mode == "single" then showOut (collector leL leC (hs.flatten ++ [.terminate])) else "some-interleaving"
      return s!"spec class={mode}-{v} expected={model} impl={showOut impl}{tag}"
    let dd := if logs.length + cwes.length < sent then " dedup" else ""
    if mode == "single" then
      let model := collector leL leC (hs.flatten ++ [.terminate])
      if impl != model then return s!"diff class=single-order model={showOut model} impl={showOut impl}"
      return s!"ok single constrained{dd}{cut}{dup}"
    else
      match findWitness hs logs cwes with
      | (none, b) =>
        let why := if b == 0 then "multi-search-budget" else "multi-no-interleaving"
        return s!"diff class={why} model=none impl={showOut impl}"
      | (some τi, _) =>
        if !isInterleaveIdxB hs τi then return s!"diff class=multi-witness-not-interleaving model=none impl={showOut impl}"
        let model := collector leL leC (τi.map (·.2) ++ [.terminate])
        if impl != model then
          return s!"diff class=multi-order model={showOut model} impl={showOut impl}"
        return s!"ok multi constrained threads={k}{dd}{dup}"

end CweModel.C25

def main : IO Unit := CweModel.Proto.runDriver (CweModel.Proto.guarded CweModel.C25.handleE)
