/- C25 model driver.

case line: {"mode": "single"|"multi", "threads": [[msg…]…], "impl": {"logs":[msg…],"cwes":[msg…]} | "panic", …}
  msg: {"t":"L","id":…,"a":null|address} | {"t":"C","id":…,"as":[addresses]} | {"t":"T"}

For every case the executable forms of the theorems are evaluated on the IMPLEMENTATION output
(address-less logs: every thread's sequence is a subsequence and nothing is missing or added;
logs with address / warnings: one per key, each the last one for its key of the thread that sent it,
no key missing). Then
  * single: the output must be exactly `collector (history ++ [Terminate])`;
  * multi: the driver constructs an interleaving τ of the recorded per-thread sequences (topological
    order of: thread orders, the observed order of the address-less logs, "every other message with
    the winner's key comes before the winner"), CHECKS that τ is an interleaving (`isInterleaveB`,
    proved sound) and that `collector (τ ++ [Terminate])` is exactly the output. -/
import CweModel.Base.Proto
import CweModel.C25.Model
open Lean CweModel.Proto

namespace CweModel.C25

abbrev L := Log String String
abbrev C := Cwe String String
abbrev M := Msg String String

/-- Rust `String` order on ASCII addresses (lexicographic) -/
def strLe (a b : String) : Bool := !(decide (b < a))
def leL (a b : L) : Bool := strLe (a.addr.getD "") (b.addr.getD "")
def leC (a b : C) : Bool := strLe (a.key.getD "") (b.key.getD "")

def parseMsg (j : Json) : Except String M := do
  match ← strF j "t" with
  | "T" => return .terminate
  | "L" =>
    let a := match optF j "a" with
      | some (.str s) => some s
      | _ => none
    return .log { id := ← strF j "id", addr := a }
  | "C" =>
    let as ← mapM' (fun x : Json => x.getStr?) (← arrF j "as")
    return .cwe { id := ← strF j "id", addrs := as }
  | t => throw s!"bad message type {t}"

def asLog : M → Except String L
  | .log l => .ok l
  | _ => .error "log expected"

def asCwe : M → Except String C
  | .cwe w => .ok w
  | _ => .error "warning expected"

def nodupB {α : Type} [DecidableEq α] : List α → Bool
  | [] => true
  | x :: xs => !xs.contains x && nodupB xs

/-- executable form of the theorems on an output; `hs` = the parts of the histories sent before
collection was requested. Returns the name of the first violated clause. -/
def specViolation (hs : List (List M)) (logs : List L) (cwes : List C) : Option String :=
  let g := logs.filter (·.addr.isNone)
  let total := (hs.map fun h => (generalOf h).length).sum
  let kl := logs.filter (·.addr.isSome)
  if !(g.length == total && hs.all (fun h => (generalOf h).isSublist g)) then some "general-logs"
  else if !(nodupB (kl.map (·.addr))
      && kl.all (fun l => hs.any fun h => lastOfB (·.addr) l (keyedLogsOf h))
      && hs.all (fun h => (keyedLogsOf h).all fun l => kl.any fun l' => l'.addr == l.addr)) then some "located-logs"
  else if !(nodupB (cwes.map Cwe.key)
      && cwes.all (fun w => hs.any fun h => lastOfB Cwe.key w (cwesOf h))
      && hs.all (fun h => (cwesOf h).all fun w => cwes.any fun w' => w'.key == w.key)) then some "warnings"
  else none

/-! ### construction of an explaining interleaving -/

def pickAvail (edges : List (Nat × Nat)) (done : Array Bool) :
    List (List Nat) → Option (Nat × List (List Nat))
  | [] => none
  | [] :: qs => (pickAvail edges done qs).map fun r => (r.1, [] :: r.2)
  | (x :: t) :: qs =>
    if edges.all (fun e => e.2 != x || done[e.1]!) then some (x, t :: qs)
    else (pickAvail edges done qs).map fun r => (r.1, (x :: t) :: r.2)

def kahn (edges : List (Nat × Nat)) : Nat → List (List Nat) → Array Bool → List Nat → Option (List Nat)
  | 0, qs, _, acc => if qs.all (·.isEmpty) then some acc.reverse else none
  | fuel + 1, qs, done, acc =>
    if qs.all (·.isEmpty) then some acc.reverse
    else match pickAvail edges done qs with
      | none => none
      | some (x, qs') => kahn edges fuel qs' (done.set! x true) (x :: acc)

def queues : Nat → List (List M) → List (List Nat)
  | _, [] => []
  | off, h :: hs => (List.range h.length).map (· + off) :: queues (off + h.length) hs

def findWitness (hs : List (List M)) (logs : List L) (cwes : List C) : Option (List M) :=
  let flat := hs.flatten
  let arr := flat.toArray
  let idx (m : M) : Option Nat := let i := flat.idxOf m; if i < flat.length then some i else none
  let gen := (logs.filter (·.addr.isNone)).map Msg.log
  let genEdges := gen.zip gen.tail
  let keyedAll := keyedLogsOf flat
  let logEdges := (logs.filter (·.addr.isSome)).flatMap fun w =>
    (keyedAll.filter fun m => m.addr == w.addr && m != w).map fun m => (Msg.log m, Msg.log w)
  let cweAll := cwesOf flat
  let cweEdges := cwes.flatMap fun w =>
    (cweAll.filter fun m => m.key == w.key && m != w).map fun m => (Msg.cwe m, Msg.cwe w)
  let edges := (genEdges ++ logEdges ++ cweEdges).filterMap fun e => do
    let a ← idx e.1
    let b ← idx e.2
    pure (a, b)
  match kahn edges (flat.length + 1) (queues 0 hs) (Array.replicate flat.length false) [] with
  | none => none
  | some order => some (order.filterMap fun i => arr[i]?)

def showOut (o : Option (List L × List C)) : String :=
  match o with
  | none => "panic"
  | some (ls, cs) =>
    "logs=[" ++ ",".intercalate (ls.map fun l => (l.id.takeWhile (· != '|')).toString ++ "@" ++ (l.addr.getD "-")) ++ "];cwes=["
      ++ ",".intercalate (cs.map fun w => (w.id.splitOn "(desc) ").getLast! ++ "@" ++ (w.key.getD "-")) ++ "]"

def handleE (line : String) : Except String String := do
  let j ← Json.parse line
  let mode ← strF j "mode"
  let threadsJ ← arrF j "threads"
  let hs ← mapM' (fun t : Json => do mapM' parseMsg (← t.getArr?).toList) threadsJ
  let impl : Option (List L × List C) ← match ← field j "impl" with
    | .str _ => pure none
    | o => do
      let ls ← mapM' (fun x => do asLog (← parseMsg x)) (← arrF o "logs")
      let cs ← mapM' (fun x => do asCwe (← parseMsg x)) (← arrF o "cwes")
      pure (some (ls, cs))
  if !nodupB hs.flatten.reverse && mode == "multi" then throw "message ids are not unique"
  let pres := hs.map pre
  let sent := (pres.map List.length).sum
  let panicExpected := pres.any fun h => (cwesOf h).any fun w => w.addrs.isEmpty
  let cut := if hs.any (fun h => h.any Msg.isTerminate) then " cutoff" else ""
  let k := hs.length
  -- outside the hypotheses of the theorems (a warning without address): model ≡ implementation only
  if panicExpected then
    if mode != "single" then throw "address-less warning in a multi-threaded case"
    let model := collector leL leC (hs.flatten ++ [.terminate])
    if impl != model then return s!"diff class={mode}-panic model={showOut model} impl={showOut impl}"
    return s!"ok {mode} modelonly panic{cut}"
  match impl with
  | none => return s!"spec class={mode}-panic expected=a-result impl=panic"
  | some (logs, cwes) =>
    if let some v := specViolation pres logs cwes then
      let model := if mode == "single" then showOut (collector leL leC (hs.flatten ++ [.terminate])) else "some-interleaving"
      return s!"spec class={mode}-{v} expected={model} impl={showOut impl}"
    let dd := if logs.length + cwes.length < sent then " dedup" else ""
    if mode == "single" then
      let model := collector leL leC (hs.flatten ++ [.terminate])
      if impl != model then return s!"diff class=single-order model={showOut model} impl={showOut impl}"
      return s!"ok single constrained{dd}{cut}"
    else
      match findWitness hs logs cwes with
      | none => return s!"diff class=multi-no-interleaving model=none impl={showOut impl}"
      | some τ =>
        if !isInterleaveB hs τ then return s!"diff class=multi-witness-not-interleaving model=none impl={showOut impl}"
        let model := collector leL leC (τ ++ [.terminate])
        if impl != model then
          return s!"diff class=multi-order model={showOut model} impl={showOut impl}"
        return s!"ok multi constrained threads={k}{dd}"

end CweModel.C25

def main : IO Unit := CweModel.Proto.runDriver (CweModel.Proto.guarded CweModel.C25.handleE)
