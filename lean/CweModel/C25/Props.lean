/-
C25 — property theorems. Statement of the property:

  For any interleaving of threads sending log messages and warnings to the log collector, every
  message whose send completed before collection was requested is returned, address-less logs keep
  their send order, and for each reporting address exactly the last warning sent for it is kept.

Reading used here (documented behaviour of `collect_and_deduplicate`): logs WITH a location are
deduplicated by their address exactly like warnings, so "returned" means "returned, or superseded by
a later message with the same address, which is returned". All theorems hold for EVERY channel
content `σ` (hence for every interleaving); the `Interleave` theorems at the end instantiate them
for the situation of the property: histories `hs` of the sending threads, all sends completed,
then `Terminate`.
-/
import CweModel.C25.Model

namespace CweModel.C25

variable {K I : Type} [DecidableEq K]

/-! ### `LastOf` -/

section LastOf
variable {α κ : Type} (key : α → κ)

theorem lastOf_nil (x : α) : ¬ LastOf key x [] := by
  rintro ⟨p, q, h, _⟩
  cases p <;> simp at h

theorem lastOf_cons (x y : α) (l : List α) :
    LastOf key x (y :: l) ↔ LastOf key x l ∨ (y = x ∧ ∀ z ∈ l, key z ≠ key x) := by
  constructor
  · rintro ⟨p, q, h, hq⟩
    cases p with
    | nil =>
      simp only [List.nil_append, List.cons.injEq] at h
      exact Or.inr ⟨h.1, by rw [h.2]; exact hq⟩
    | cons a p =>
      simp only [List.cons_append, List.cons.injEq] at h
      exact Or.inl ⟨p, q, h.2, hq⟩
  · rintro (⟨p, q, h, hq⟩ | ⟨rfl, hq⟩)
    · exact ⟨y :: p, q, by simp [h], hq⟩
    · exact ⟨[], l, rfl, hq⟩

theorem LastOf.mem {x : α} {l : List α} (h : LastOf key x l) : x ∈ l := by
  obtain ⟨p, q, rfl, _⟩ := h
  simp

/-- every element is superseded-or-kept: some element with the same key is the last for that key -/
theorem exists_lastOf {l : List α} : ∀ {x : α}, x ∈ l → ∃ y, key y = key x ∧ LastOf key y l := by
  induction l with
  | nil => intro x hx; cases hx
  | cons a l ih =>
    intro x hx
    by_cases hl : ∃ z ∈ l, key z = key x
    · obtain ⟨z, hz, hzk⟩ := hl
      obtain ⟨y, hy, hlast⟩ := ih hz
      exact ⟨y, hy.trans hzk, (lastOf_cons key y a l).mpr (Or.inl hlast)⟩
    · rcases List.mem_cons.mp hx with rfl | hx'
      · exact ⟨x, rfl, (lastOf_cons key x x l).mpr (Or.inr ⟨rfl, fun z hz hk => hl ⟨z, hz, hk⟩⟩)⟩
      · exact absurd ⟨x, hx', rfl⟩ hl

/-- two "last for their key" elements with the same key: the same element of the sequence -/
theorem lastOf_unique {x y : α} {l : List α} (hx : LastOf key x l) (hy : LastOf key y l)
    (hk : key x = key y) : x = y := by
  induction l with
  | nil => exact absurd hx (lastOf_nil key x)
  | cons a l ih =>
    rcases (lastOf_cons key x a l).mp hx with hx' | ⟨rfl, hxq⟩
    · rcases (lastOf_cons key y a l).mp hy with hy' | ⟨rfl, hyq⟩
      · exact ih hx' hy'
      · exact absurd hk (hyq x (LastOf.mem key hx'))
    · rcases (lastOf_cons key y a l).mp hy with hy' | ⟨rfl, _⟩
      · exact absurd hk.symm (hxq y (LastOf.mem key hy'))
      · rfl

theorem lastOfB_iff [DecidableEq α] [DecidableEq κ] (x : α) (l : List α) :
    lastOfB key x l = true ↔ LastOf key x l := by
  induction l with
  | nil => simp [lastOfB, lastOf_nil]
  | cons a l ih =>
    rw [lastOf_cons, ← ih]
    simp [lastOfB]

end LastOf

/-! ### the last-wins map -/

section Map
variable {V κ : Type} [DecidableEq κ] (key : V → κ)

theorem mem_insertBy (m : List V) (v x : V) :
    x ∈ insertBy key m v ↔ x = v ∨ (x ∈ m ∧ key x ≠ key v) := by
  simp [insertBy]

/-- after inserting the values `vs` one after the other into `m`, the map holds exactly the values
that are the last for their key in `vs`, plus the old values whose key was not touched -/
theorem mem_foldl_insertBy (vs : List V) (m : List V) (x : V) :
    x ∈ vs.foldl (insertBy key) m ↔ LastOf key x vs ∨ (x ∈ m ∧ ∀ y ∈ vs, key y ≠ key x) := by
  induction vs generalizing m with
  | nil => simp [lastOf_nil]
  | cons v vs ih =>
    rw [List.foldl_cons, ih, mem_insertBy, lastOf_cons]
    constructor
    · rintro (h | ⟨rfl | ⟨hm, hk⟩, hvs⟩)
      · exact Or.inl (Or.inl h)
      · exact Or.inl (Or.inr ⟨rfl, hvs⟩)
      · refine Or.inr ⟨hm, ?_⟩
        intro y hy
        rcases List.mem_cons.mp hy with rfl | hy'
        · exact fun e => hk e.symm
        · exact hvs y hy'
    · rintro ((h | ⟨rfl, hvs⟩) | ⟨hm, hall⟩)
      · exact Or.inl h
      · exact Or.inr ⟨Or.inl rfl, hvs⟩
      · refine Or.inr ⟨Or.inr ⟨hm, fun e => hall v (List.mem_cons_self ..) e.symm⟩, ?_⟩
        exact fun y hy => hall y (List.mem_cons_of_mem _ hy)

theorem nodup_insertBy (m : List V) (v : V) (h : (m.map key).Nodup) :
    ((insertBy key m v).map key).Nodup := by
  simp only [insertBy, List.map_cons, List.nodup_cons, List.mem_map, List.mem_filter,
    decide_eq_true_eq, not_exists, not_and]
  refine ⟨fun x hx e => hx.2 e, ?_⟩
  exact (List.filter_sublist.map key).nodup h

theorem nodup_foldl_insertBy (vs m : List V) (h : (m.map key).Nodup) :
    ((vs.foldl (insertBy key) m).map key).Nodup := by
  induction vs generalizing m with
  | nil => exact h
  | cons v vs ih => exact ih _ (nodup_insertBy key m v h)

theorem mem_values (le : V → V → Bool) (m : List V) (x : V) : x ∈ values le m ↔ x ∈ m := by
  simp [values, List.mem_mergeSort]

omit [DecidableEq κ] in
theorem nodup_values (le : V → V → Bool) (m : List V) (h : (m.map key).Nodup) :
    ((values le m).map key).Nodup :=
  ((List.mergeSort_perm m le).map key).nodup_iff.mpr h

end Map

/-! ### the receive loop -/

omit [DecidableEq K] in
theorem pre_cons_terminate (σ : List (Msg K I)) : pre (Msg.terminate :: σ) = [] := by
  simp [pre, Msg.isTerminate]

/-- the three collections after the loop are folds over the three kinds of messages received
before the first `Terminate` -/
theorem recvLoop_some (s s' : State K I) (σ : List (Msg K I)) (h : recvLoop s σ = some s') :
    s'.logsWithAddress = (keyedLogsOf (pre σ)).foldl (insertBy (·.addr)) s.logsWithAddress
    ∧ s'.generalLogs = s.generalLogs ++ generalOf (pre σ)
    ∧ s'.collectedCwes = (cwesOf (pre σ)).foldl (insertBy Cwe.key) s.collectedCwes := by
  induction σ generalizing s with
  | nil => simp [recvLoop] at h; subst h; simp [pre, keyedLogsOf, generalOf, cwesOf]
  | cons m σ ih =>
    cases m with
    | terminate => simp [recvLoop] at h; subst h; simp [pre, Msg.isTerminate, keyedLogsOf, generalOf, cwesOf]
    | log l =>
      simp only [recvLoop] at h
      cases ha : l.addr with
      | some a =>
        rw [ha] at h
        have := ih _ h
        simpa [pre, Msg.isTerminate, keyedLogsOf, generalOf, cwesOf, ha] using this
      | none =>
        rw [ha] at h
        have := ih _ h
        simpa [pre, Msg.isTerminate, keyedLogsOf, generalOf, cwesOf, ha] using this
    | cwe w =>
      simp only [recvLoop] at h
      cases ha : w.addrs with
      | nil => rw [ha] at h; cases h
      | cons a as =>
        rw [ha] at h
        have := ih _ h
        simpa [pre, Msg.isTerminate, keyedLogsOf, generalOf, cwesOf] using this

/-- **C25-total.** The collector returns a result (does not hit its `panic!`) iff every warning
received before `Terminate` has at least one address. -/
theorem recvLoop_isSome_iff (s : State K I) (σ : List (Msg K I)) :
    (recvLoop s σ).isSome = true ↔ ∀ w ∈ cwesOf (pre σ), w.addrs ≠ [] := by
  induction σ generalizing s with
  | nil => simp [recvLoop, pre, cwesOf]
  | cons m σ ih =>
    cases m with
    | terminate => simp [recvLoop, pre, Msg.isTerminate, cwesOf]
    | log l =>
      simp only [recvLoop]
      cases ha : l.addr <;> simp [ih, pre, Msg.isTerminate, cwesOf]
    | cwe w =>
      simp only [recvLoop]
      cases ha : w.addrs with
      | nil => simp [pre, Msg.isTerminate, cwesOf, ha]
      | cons a as => simp [ih, pre, Msg.isTerminate, cwesOf, ha]

theorem collector_isSome_iff (leL : Log K I → Log K I → Bool) (leC : Cwe K I → Cwe K I → Bool)
    (σ : List (Msg K I)) :
    (collector leL leC σ).isSome = true ↔ ∀ w ∈ cwesOf (pre σ), w.addrs ≠ [] := by
  simp [collector, recvLoop_isSome_iff]

omit [DecidableEq K] in
theorem mem_keyedLogsOf {l : Log K I} {σ : List (Msg K I)} (h : l ∈ keyedLogsOf σ) : l.addr.isSome = true := by
  simp only [keyedLogsOf, List.mem_filterMap] at h
  obtain ⟨m, _, hm⟩ := h
  cases m with
  | log x => by_cases hx : x.addr.isSome = true <;> simp [hx] at hm; subst hm; exact hx
  | cwe w => simp at hm
  | terminate => simp at hm

omit [DecidableEq K] in
theorem mem_generalOf {l : Log K I} {σ : List (Msg K I)} (h : l ∈ generalOf σ) : l.addr.isNone = true := by
  simp only [generalOf, List.mem_filterMap] at h
  obtain ⟨m, _, hm⟩ := h
  cases m with
  | log x => by_cases hx : x.addr.isNone = true <;> simp [hx] at hm; subst hm; exact hx
  | cwe w => simp at hm
  | terminate => simp at hm

section Collector
variable (leL : Log K I → Log K I → Bool) (leC : Cwe K I → Cwe K I → Bool)
variable {σ : List (Msg K I)} {logs : List (Log K I)} {cwes : List (Cwe K I)}

/-- shape of the result -/
theorem collector_some (h : collector leL leC σ = some (logs, cwes)) :
    logs = values leL ((keyedLogsOf (pre σ)).foldl (insertBy (·.addr)) []) ++ generalOf (pre σ)
    ∧ cwes = values leC ((cwesOf (pre σ)).foldl (insertBy Cwe.key) []) := by
  simp only [collector, Option.map_eq_some_iff] at h
  obtain ⟨s, hs, hout⟩ := h
  obtain ⟨h1, h2, h3⟩ := recvLoop_some _ _ _ hs
  simp only [Prod.mk.injEq] at hout
  rw [← hout.1, ← hout.2, h1, h2, h3]
  simp [State.init]

theorem keyed_part_isSome (x : Log K I)
    (hx : x ∈ values leL ((keyedLogsOf (pre σ)).foldl (insertBy (·.addr)) [])) : x.addr.isSome = true := by
  rw [mem_values, mem_foldl_insertBy] at hx
  rcases hx with h | ⟨h, _⟩
  · exact mem_keyedLogsOf (LastOf.mem _ h)
  · cases h

/-- **C25-order.** The address-less logs in the result are exactly the address-less logs received
before `Terminate`, in the order in which they were received (none lost, none invented). -/
theorem general_logs_in_send_order (h : collector leL leC σ = some (logs, cwes)) :
    logs.filter (fun l => l.addr.isNone) = generalOf (pre σ) := by
  obtain ⟨hl, _⟩ := collector_some leL leC h
  rw [hl, List.filter_append]
  have h1 : (values leL ((keyedLogsOf (pre σ)).foldl (insertBy (·.addr)) [])).filter
      (fun l => l.addr.isNone) = [] := by
    rw [List.filter_eq_nil_iff]
    intro x hx
    have := keyed_part_isSome leL x hx
    cases hxa : x.addr <;> simp_all
  have h2 : (generalOf (pre σ)).filter (fun l => l.addr.isNone) = generalOf (pre σ) := by
    rw [List.filter_eq_self]
    exact fun x hx => mem_generalOf hx
  rw [h1, h2, List.nil_append]

/-- **C25-logs.** A log with a location is in the result iff it is the last log received for its
address before `Terminate`. -/
theorem located_log_mem_iff (h : collector leL leC σ = some (logs, cwes)) (l : Log K I)
    (hl : l.addr.isSome = true) :
    l ∈ logs ↔ LastOf (·.addr) l (keyedLogsOf (pre σ)) := by
  obtain ⟨hlogs, _⟩ := collector_some leL leC h
  rw [hlogs, List.mem_append, mem_values, mem_foldl_insertBy]
  constructor
  · rintro ((h1 | ⟨h1, _⟩) | h2)
    · exact h1
    · cases h1
    · have := mem_generalOf h2
      cases hla : l.addr <;> simp_all
  · exact fun h1 => Or.inl (Or.inl h1)

/-- **C25-warnings.** A warning is in the result iff it is the last warning received for its
(first) address before `Terminate`… -/
theorem cwe_mem_iff (h : collector leL leC σ = some (logs, cwes)) (w : Cwe K I) :
    w ∈ cwes ↔ LastOf Cwe.key w (cwesOf (pre σ)) := by
  obtain ⟨_, hc⟩ := collector_some leL leC h
  rw [hc, mem_values, mem_foldl_insertBy]
  constructor
  · rintro (h1 | ⟨h1, _⟩)
    · exact h1
    · cases h1
  · exact fun h1 => Or.inl h1

/-- …and there is exactly one warning per address in the result ("exactly the last warning"). -/
theorem cwe_keys_nodup (h : collector leL leC σ = some (logs, cwes)) : (cwes.map Cwe.key).Nodup := by
  obtain ⟨_, hc⟩ := collector_some leL leC h
  rw [hc]
  exact nodup_values _ _ _ (nodup_foldl_insertBy _ _ _ List.nodup_nil)

theorem located_log_keys_nodup (h : collector leL leC σ = some (logs, cwes)) :
    ((logs.filter (fun l => l.addr.isSome)).map (·.addr)).Nodup := by
  obtain ⟨hl, _⟩ := collector_some leL leC h
  have h1 : logs.filter (fun l => l.addr.isSome)
      = values leL ((keyedLogsOf (pre σ)).foldl (insertBy (·.addr)) []) := by
    rw [hl, List.filter_append]
    have a1 : (values leL ((keyedLogsOf (pre σ)).foldl (insertBy (·.addr)) [])).filter
        (fun l => l.addr.isSome) = values leL ((keyedLogsOf (pre σ)).foldl (insertBy (·.addr)) []) := by
      rw [List.filter_eq_self]; exact fun x hx => keyed_part_isSome leL x hx
    have a2 : (generalOf (pre σ)).filter (fun l => l.addr.isSome) = [] := by
      rw [List.filter_eq_nil_iff]
      intro x hx
      have := mem_generalOf hx
      cases hxa : x.addr <;> simp_all
    rw [a1, a2, List.append_nil]
  rw [h1]
  exact nodup_values _ _ _ (nodup_foldl_insertBy _ _ _ List.nodup_nil)

/-- what "returned" means for a message, `rcv` being the messages received before collection was
requested -/
def Delivered (rcv : List (Msg K I)) (logs : List (Log K I)) (cwes : List (Cwe K I)) : Msg K I → Prop
  | .log l =>
    match l.addr with
    | none => l ∈ logs
    | some _ => ∃ l' ∈ logs, l'.addr = l.addr ∧ LastOf (·.addr) l' (keyedLogsOf rcv)
  | .cwe w => ∃ w' ∈ cwes, w'.key = w.key ∧ LastOf Cwe.key w' (cwesOf rcv)
  | .terminate => True

/-- **C25-delivery.** Every message received before `Terminate` is returned: an address-less log
itself; a located log or a warning itself or — if later messages for the same address were
received — the last of those. Nothing is lost. -/
theorem delivered_or_superseded (h : collector leL leC σ = some (logs, cwes)) (m : Msg K I)
    (hm : m ∈ pre σ) : Delivered (pre σ) logs cwes m := by
  cases m with
  | terminate => trivial
  | cwe w =>
    have hw : w ∈ cwesOf (pre σ) := by
      simp only [cwesOf, List.mem_filterMap]; exact ⟨_, hm, rfl⟩
    obtain ⟨w', hk, hlast⟩ := exists_lastOf Cwe.key hw
    exact ⟨w', (cwe_mem_iff leL leC h w').mpr hlast, hk, hlast⟩
  | log l =>
    cases ha : l.addr with
    | none =>
      have hg : l ∈ generalOf (pre σ) := by
        simp only [generalOf, List.mem_filterMap]; exact ⟨_, hm, by simp [ha]⟩
      rw [← general_logs_in_send_order leL leC h] at hg
      simp only [Delivered, ha]
      exact (List.mem_filter.mp hg).1
    | some a =>
      have hk : l ∈ keyedLogsOf (pre σ) := by
        simp only [keyedLogsOf, List.mem_filterMap]; exact ⟨_, hm, by simp [ha]⟩
      obtain ⟨l', hkey, hlast⟩ := exists_lastOf (·.addr) hk
      have hs : l'.addr.isSome = true := mem_keyedLogsOf (LastOf.mem _ hlast)
      simp only [Delivered, ha]
      exact ⟨l', (located_log_mem_iff leL leC h l' hs).mpr hlast, by rw [← ha]; exact hkey, hlast⟩

end Collector

/-! ### interleavings of sending threads -/

section Interleave
variable {α : Type}

/-- every thread's sequence is a subsequence of the interleaving: per-thread order is preserved -/
theorem Interleave.sublist {hs : List (List α)} {σ : List α} (hi : Interleave hs σ) :
    ∀ h ∈ hs, h.Sublist σ := by
  induction hi with
  | done hall => intro h hh; rw [hall h hh]; exact List.nil_sublist _
  | @step p q t x σ _ ih =>
    intro h hh
    rcases List.mem_append.mp hh with hp | hq
    · exact (ih h (List.mem_append_left _ hp)).cons _
    · rcases List.mem_cons.mp hq with rfl | hq'
      · exact (ih t (List.mem_append_right _ (List.mem_cons_self ..))).cons_cons _
      · exact (ih h (List.mem_append_right _ (List.mem_cons_of_mem _ hq'))).cons _

/-- an interleaving contains exactly the messages of the threads -/
theorem Interleave.mem_iff {hs : List (List α)} {σ : List α} (hi : Interleave hs σ) (m : α) :
    m ∈ σ ↔ ∃ h ∈ hs, m ∈ h := by
  induction hi with
  | done hall =>
    constructor
    · intro h; cases h
    · rintro ⟨h, hh, hm⟩; rw [hall h hh] at hm; cases hm
  | @step p q t x σ _ ih =>
    constructor
    · intro hm
      rcases List.mem_cons.mp hm with rfl | hm'
      · exact ⟨m :: t, by simp, List.mem_cons_self ..⟩
      · obtain ⟨h, hh, hmh⟩ := ih.mp hm'
        rcases List.mem_append.mp hh with hp | hq
        · exact ⟨h, List.mem_append_left _ hp, hmh⟩
        · rcases List.mem_cons.mp hq with rfl | hq'
          · exact ⟨x :: h, by simp, List.mem_cons_of_mem _ hmh⟩
          · exact ⟨h, List.mem_append_right _ (List.mem_cons_of_mem _ hq'), hmh⟩
    · rintro ⟨h, hh, hmh⟩
      rcases List.mem_append.mp hh with hp | hq
      · exact List.mem_cons_of_mem _ (ih.mpr ⟨h, List.mem_append_left _ hp, hmh⟩)
      · rcases List.mem_cons.mp hq with rfl | hq'
        · rcases List.mem_cons.mp hmh with rfl | hmt
          · exact List.mem_cons_self ..
          · exact List.mem_cons_of_mem _ (ih.mpr ⟨t, by simp, hmt⟩)
        · exact List.mem_cons_of_mem _ (ih.mpr ⟨h, List.mem_append_right _ (List.mem_cons_of_mem _ hq'), hmh⟩)

theorem popHead_some [DecidableEq α] {x : α} {hs hs' : List (List α)} (h : popHead x hs = some hs') :
    ∃ p t q, hs = p ++ (x :: t) :: q ∧ hs' = p ++ t :: q := by
  induction hs generalizing hs' with
  | nil => simp [popHead] at h
  | cons a hs ih =>
    cases a with
    | nil =>
      simp only [popHead, Option.map_eq_some_iff] at h
      obtain ⟨r, hr, rfl⟩ := h
      obtain ⟨p, t, q, rfl, rfl⟩ := ih hr
      exact ⟨[] :: p, t, q, rfl, rfl⟩
    | cons y t =>
      simp only [popHead] at h
      split at h
      · rename_i hy
        subst hy
        simp only [Option.some.injEq] at h
        exact ⟨[], t, hs, rfl, h.symm⟩
      · simp only [Option.map_eq_some_iff] at h
        obtain ⟨r, hr, rfl⟩ := h
        obtain ⟨p, t', q, rfl, rfl⟩ := ih hr
        exact ⟨(y :: t) :: p, t', q, rfl, rfl⟩

/-- the driver's executable interleaving test is sound -/
theorem isInterleaveB_sound [DecidableEq α] (hs : List (List α)) (σ : List α)
    (h : isInterleaveB hs σ = true) : Interleave hs σ := by
  induction σ generalizing hs with
  | nil =>
    simp only [isInterleaveB, List.all_eq_true, List.isEmpty_iff] at h
    exact Interleave.done h
  | cons x σ ih =>
    simp only [isInterleaveB] at h
    split at h
    · rename_i hs' hp
      obtain ⟨p, t, q, rfl, rfl⟩ := popHead_some hp
      exact Interleave.step (ih _ h)
    · cases h

theorem popAt_some [DecidableEq α] {x : α} {i : Nat} {hs hs' : List (List α)} (h : popAt x i hs = some hs') :
    ∃ p t q, hs = p ++ (x :: t) :: q ∧ hs' = p ++ t :: q := by
  induction hs generalizing i hs' with
  | nil => simp [popAt] at h
  | cons a hs ih =>
    cases i with
    | zero =>
      cases a with
      | nil => simp [popAt] at h
      | cons y t =>
        simp only [popAt] at h
        split at h
        · rename_i hy
          subst hy
          simp only [Option.some.injEq] at h
          exact ⟨[], t, hs, rfl, h.symm⟩
        · cases h
    | succ i =>
      simp only [popAt, Option.map_eq_some_iff] at h
      obtain ⟨r, hr, rfl⟩ := h
      obtain ⟨p, t, q, rfl, rfl⟩ := ih hr
      exact ⟨a :: p, t, q, rfl, rfl⟩

/-- the driver's thread-indexed interleaving test is sound -/
theorem isInterleaveIdxB_sound [DecidableEq α] (hs : List (List α)) (σ : List (Nat × α))
    (h : isInterleaveIdxB hs σ = true) : Interleave hs (σ.map (·.2)) := by
  induction σ generalizing hs with
  | nil =>
    simp only [isInterleaveIdxB, List.all_eq_true, List.isEmpty_iff] at h
    exact Interleave.done h
  | cons ix σ ih =>
    obtain ⟨i, x⟩ := ix
    simp only [isInterleaveIdxB] at h
    split at h
    · rename_i hs' hp
      obtain ⟨p, t, q, rfl, rfl⟩ := popAt_some hp
      exact Interleave.step (ih _ h)
    · cases h

end Interleave

/-! ### the property for sending threads -/

omit [DecidableEq K] in
theorem pre_append_terminate (τ rest : List (Msg K I)) (hτ : ∀ m ∈ τ, m.isTerminate = false) :
    pre (τ ++ Msg.terminate :: rest) = τ := by
  induction τ with
  | nil => simp [pre, Msg.isTerminate]
  | cons m τ ih =>
    have hm := hτ m (List.mem_cons_self ..)
    have := ih (fun x hx => hτ x (List.mem_cons_of_mem _ hx))
    simp only [pre] at this ⊢
    simp [hm, this]

omit [DecidableEq K] in
theorem generalOf_sublist {a b : List (Msg K I)} (h : a.Sublist b) : (generalOf a).Sublist (generalOf b) :=
  h.filterMap _

section Threads
variable (leL : Log K I → Log K I → Bool) (leC : Cwe K I → Cwe K I → Bool)
variable {hs : List (List (Msg K I))} {τ rest : List (Msg K I)}
variable {logs : List (Log K I)} {cwes : List (Cwe K I)}

/-- **C25-threads.** Sending threads with histories `hs` (log messages and warnings), ANY
interleaving `τ` of them in the channel, all sends completed before collection is requested
(`Terminate` comes after `τ`; `rest` = whatever is sent later). Then
 (1) every message of every thread is returned (itself, or the last message for its address),
 (2) each thread's address-less logs appear in the result in the order the thread sent them, and
     the address-less logs of the result are exactly those of `τ` in channel order,
 (3) a warning is kept iff it is the last one in `τ` for its address, one warning per address. -/
theorem threads_property (hnt : ∀ h ∈ hs, ∀ m ∈ h, m.isTerminate = false)
    (hi : Interleave hs τ) (hc : collector leL leC (τ ++ Msg.terminate :: rest) = some (logs, cwes)) :
    (∀ h ∈ hs, ∀ m ∈ h, Delivered τ logs cwes m)
    ∧ (∀ h ∈ hs, (generalOf h).Sublist logs) ∧ logs.filter (fun l => l.addr.isNone) = generalOf τ
    ∧ (∀ w, w ∈ cwes ↔ LastOf Cwe.key w (cwesOf τ)) ∧ (cwes.map Cwe.key).Nodup := by
  have hτ : ∀ m ∈ τ, m.isTerminate = false := by
    intro m hm
    obtain ⟨h, hh, hmh⟩ := (hi.mem_iff m).mp hm
    exact hnt h hh m hmh
  have hpre := pre_append_terminate τ rest hτ
  have hord := general_logs_in_send_order leL leC hc
  rw [hpre] at hord
  refine ⟨?_, ?_, hord, ?_, cwe_keys_nodup leL leC hc⟩
  · intro h hh m hm
    have hmτ : m ∈ pre (τ ++ Msg.terminate :: rest) := by
      rw [hpre]; exact (hi.mem_iff m).mpr ⟨h, hh, hm⟩
    have := delivered_or_superseded leL leC hc m hmτ
    rwa [hpre] at this
  · intro h hh
    have h1 : (generalOf h).Sublist (generalOf τ) := generalOf_sublist (hi.sublist h hh)
    rw [← hord] at h1
    exact h1.trans List.filter_sublist
  · intro w
    have := cwe_mem_iff leL leC hc w
    rwa [hpre] at this

/-- the collector cannot panic when every warning of every thread has an address -/
theorem threads_no_panic (hnt : ∀ h ∈ hs, ∀ m ∈ h, m.isTerminate = false)
    (haddr : ∀ h ∈ hs, ∀ w ∈ cwesOf h, w.addrs ≠ [])
    (hi : Interleave hs τ) : (collector leL leC (τ ++ Msg.terminate :: rest)).isSome = true := by
  have hτ : ∀ m ∈ τ, m.isTerminate = false := by
    intro m hm
    obtain ⟨h, hh, hmh⟩ := (hi.mem_iff m).mp hm
    exact hnt h hh m hmh
  rw [collector_isSome_iff, pre_append_terminate τ rest hτ]
  intro w hw
  simp only [cwesOf, List.mem_filterMap] at hw
  obtain ⟨m, hm, hmw⟩ := hw
  obtain ⟨h, hh, hmh⟩ := (hi.mem_iff m).mp hm
  exact haddr h hh w (by simp only [cwesOf, List.mem_filterMap]; exact ⟨m, hmh, hmw⟩)

end Threads

/-! ### non-vacuity -/

section Examples
abbrev L' := Log Nat Nat
abbrev M' := Msg Nat Nat

def leL' (a b : L') : Bool := decide (a.addr.getD 0 ≤ b.addr.getD 0)
def leC' (a b : Cwe Nat Nat) : Bool := decide (a.key.getD 0 ≤ b.key.getD 0)

/-- thread 1: general log 1, warning 2 @7, general log 3; thread 2: warning 4 @7, log 5 @9, log 6 @9 -/
def th1 : List M' := [.log ⟨1, none⟩, .cwe ⟨2, [7, 8]⟩, .log ⟨3, none⟩]
def th2 : List M' := [.cwe ⟨4, [7]⟩, .log ⟨5, some 9⟩, .log ⟨6, some 9⟩]
/-- one interleaving of them -/
def tau : List M' := [.cwe ⟨4, [7]⟩, .log ⟨1, none⟩, .log ⟨5, some 9⟩, .cwe ⟨2, [7, 8]⟩, .log ⟨6, some 9⟩, .log ⟨3, none⟩]

example : Interleave [th1, th2] tau := isInterleaveB_sound _ _ (by decide)
example : ∀ h ∈ [th1, th2], ∀ m ∈ h, m.isTerminate = false := by decide
example : collector leL' leC' (tau ++ Msg.terminate :: [.log ⟨99, none⟩])
    = some ([⟨6, some 9⟩, ⟨1, none⟩, ⟨3, none⟩], [⟨2, [7, 8]⟩]) := by
  simp [collector, recvLoop, tau, State.init, insertBy, values, Cwe.key]
example : LastOf Cwe.key (⟨2, [7, 8]⟩ : Cwe Nat Nat) (cwesOf tau) :=
  (lastOfB_iff _ _ _).mp (by decide)

end Examples

end CweModel.C25
