/-
C08 — specification of the interprocedural control flow graph.

The model of the code (`GraphBuilder::build`, `get_program_cfg`, `get_entry_nodes_of_subs`) is
`CweModel.Base.Cfg` (shared with C13/C15/C17). This file states WHAT the graph of a program is:
node and edge multisets written as comprehensions over the program text. Nothing here replays the
builder: there is no worklist, no map of already created nodes, no state.

Vocabulary: a *pair* is a (block, function) pair `(b, s)` with `b ∈ s.blocks`.
-/
import CweModel.Base.Cfg

namespace CweModel.C08
open CweModel.IR CweModel.Cfg

/-- the block of function `s` with TID `t` -/
def blockOf (s : Term Sub) (t : Tid) : Option (Term Blk) :=
  s.term.blocks.find? (fun b => decide (b.tid = t))

/-- the function with TID `t` -/
def subOf (p : Program) (t : Tid) : Option (Term Sub) :=
  p.subs.find? (fun s => decide (s.tid = t))

/-- the callee of a direct call to `t` together with its entry block: defined iff `t` is not an
extern symbol and names a function that has at least one block -/
def calleeOf (p : Program) (t : Tid) : Option BlkSub :=
  if isExtern p t then none
  else match subOf p t with
    | some s => s.term.blocks.head?.map (fun e => (e, s))
    | none => none

/-- the jumps of a block, each with the conditional jump that was not taken before it
(`none` for the first jump) -/
def markedJumps (b : Term Blk) : List (Term Jmp × Option (Term Jmp)) :=
  match b.term.jmps with
  | [] => []
  | j :: rest => (j, none) :: rest.map (fun k => (k, some j))

/-- edge from the end of `(b, s)` to the start of the block of `s` named `t` (none if there is no
such block) -/
def edgeTo (bs : BlkSub) (t : Tid) (l : Edge) : List EdgeRef :=
  match blockOf bs.2 t with
  | some tb => [⟨.BlkEnd bs.1 bs.2, .BlkStart tb bs.2, l⟩]
  | none => []

/-- Jump and stub edges of one jump `j` (with untaken conditional `u`) of the pair `bs`:
* `Branch`/`CBranch`: a `Jump(j, u)` edge to the target block,
* `BranchInd`: a `Jump(j, u)` edge to every indirect-jump target hint of the block,
* `Call` to an extern symbol / `CallInd`, with a return site: an `ExternCallStub(j)` edge to the
  return site,
* nothing else. -/
def jumpEdges (p : Program) (bs : BlkSub) (ju : Term Jmp × Option (Term Jmp)) : List EdgeRef :=
  match ju.1.term with
  | .Branch t | .CBranch t _ => edgeTo bs t (.Jump ju.1 ju.2)
  | .BranchInd _ => bs.1.term.indirectJmpTargets.flatMap (fun t => edgeTo bs t (.Jump ju.1 ju.2))
  | .Call t (some r) => if isExtern p t then edgeTo bs r (.ExternCallStub ju.1) else []
  | .CallInd _ (some r) => edgeTo bs r (.ExternCallStub ju.1)
  | _ => []

/-- a direct call to an internal function that has an entry block -/
structure CallSite where
  src : BlkSub          -- the pair containing the call
  jmp : Term Jmp        -- the call
  target : Tid          -- TID of the callee
  ret : Option Tid      -- return site
  callee : BlkSub       -- (entry block, callee)
deriving Repr, DecidableEq

/-- the internal call made by jump `j` of the pair `bs` (at most one) -/
def callSite1 (p : Program) (bs : BlkSub) (j : Term Jmp) : List CallSite :=
  match j.term with
  | .Call t r =>
    match calleeOf p t with
    | some c => [⟨bs, j, t, r, c⟩]
    | none => []
  | _ => []

/-- the internal calls of the pair `bs` -/
def callSites (p : Program) (bs : BlkSub) : List CallSite :=
  bs.1.term.jmps.flatMap (callSite1 p bs)

def CallSite.sourceNode (c : CallSite) : Node := .CallSource c.src c.callee

/-- callsite → `CallSource` → callee entry -/
def CallSite.callEdges (c : CallSite) : List EdgeRef :=
  [⟨.BlkEnd c.src.1 c.src.2, c.sourceNode, .CallCombine c.jmp⟩,
   ⟨c.sourceNode, .BlkStart c.callee.1 c.callee.2, .Call c.jmp⟩]

/-- the return site of an internal call, if it has one (a block of the caller) -/
def CallSite.retSite (c : CallSite) : List (CallSite × Term Blk) :=
  match c.ret with
  | some r =>
    match blockOf c.src.2 r with
    | some rb => [(c, rb)]
    | none => []
  | none => []

/-- the internal calls of the pair `bs` that have a return site: `(call, return-site block)` -/
def retSites (p : Program) (bs : BlkSub) : List (CallSite × Term Blk) :=
  (callSites p bs).flatMap (·.retSite)

/-- the internal calls (anywhere in the program) with a return site that target the function with
TID `t` -/
def returningCallsTo (p : Program) (t : Tid) : List (CallSite × Term Blk) :=
  ((pairs p).flatMap (retSites p)).filter (fun cr => decide (cr.1.target = t))

def hasReturn (b : Term Blk) : Bool := b.term.jmps.any isReturn

def callReturnNode (c : CallSite) (rf : BlkSub) : Node := .CallReturn c.src rf

/-- return linkage of the returning pair `rf = (rb, s)` and a call `c` to `s` that returns to `rt` -/
def returnEdges (rf : BlkSub) (c : CallSite) (rt : Term Blk) : List EdgeRef :=
  [⟨c.sourceNode, callReturnNode c rf, .CrCallStub⟩,
   ⟨.BlkEnd rf.1 rf.2, callReturnNode c rf, .CrReturnStub⟩,
   ⟨callReturnNode c rf, .BlkStart rt c.src.2, .ReturnCombine c.jmp⟩]

/-- **Specification of the node multiset**: one `BlkStart` and one `BlkEnd` per pair, one `CallSource`
per internal call, one `CallReturn` per (returning pair of a function, call to that function with a
return site). -/
def specNodes (p : Program) : List Node :=
  (pairs p).flatMap (fun bs => [.BlkStart bs.1 bs.2, .BlkEnd bs.1 bs.2])
  ++ (pairs p).flatMap (fun bs => (callSites p bs).map (·.sourceNode))
  ++ (pairs p).flatMap (fun rf =>
      if hasReturn rf.1 then (returningCallsTo p rf.2.tid).map (fun cr => callReturnNode cr.1 rf) else [])

/-- **Specification of the edge multiset**: one `Block` edge per pair; the jump / stub edges of every
jump of every pair; `CallCombine` + `Call` for every internal call; `CrCallStub`, `CrReturnStub`,
`ReturnCombine` for every (returning pair of a function, call to that function with a return site);
and nothing else. -/
def specEdges (p : Program) : List EdgeRef :=
  (pairs p).map (fun bs => ⟨.BlkStart bs.1 bs.2, .BlkEnd bs.1 bs.2, .Block⟩)
  ++ (pairs p).flatMap (fun bs => (markedJumps bs.1).flatMap (jumpEdges p bs))
  ++ (pairs p).flatMap (fun bs => (callSites p bs).flatMap (·.callEdges))
  ++ (pairs p).flatMap (fun rf =>
      if hasReturn rf.1 then (returningCallsTo p rf.2.tid).flatMap (fun cr => returnEdges rf cr.1 cr.2)
      else [])

/-- Specification of `get_entry_nodes_of_subs`: the `BlkStart` node of the first block of the
function with TID `t`. -/
def specEntryNode (p : Program) (t : Tid) : Option Node :=
  match subOf p t with
  | some s => s.term.blocks.head?.map (fun e => .BlkStart e s)
  | none => none

end CweModel.C08
