/- C08 model driver: runs the model `buildCfgE` and the comprehension spec on harness cases. -/
import CweModel.Base.Proto
import CweModel.Base.IR
import CweModel.Base.Cfg
import CweModel.C08.Model
open Lean CweModel.Proto CweModel.IR CweModel.Cfg

namespace CweModel.C08

def tidS (t : Tid) : String := if t.address == "UNKNOWN" then t.id else t.id ++ "@" ++ t.address

def bsS (bs : BlkSub) : String := tidS bs.1.tid ++ "," ++ tidS bs.2.tid

def nodeS : Node → String
  | .BlkStart b s => "S(" ++ bsS (b, s) ++ ")"
  | .BlkEnd b s => "E(" ++ bsS (b, s) ++ ")"
  | .CallReturn c r => "R(" ++ bsS c ++ ";" ++ bsS r ++ ")"
  | .CallSource s t => "C(" ++ bsS s ++ ";" ++ bsS t ++ ")"

def labelS : Edge → String
  | .Block => "B"
  | .Jump j u => "J(" ++ tidS j.tid ++ "," ++ (match u with | some k => tidS k.tid | none => "-") ++ ")"
  | .Call j => "Call(" ++ tidS j.tid ++ ")"
  | .ExternCallStub j => "X(" ++ tidS j.tid ++ ")"
  | .CrCallStub => "CrC"
  | .CrReturnStub => "CrR"
  | .CallCombine j => "CC(" ++ tidS j.tid ++ ")"
  | .ReturnCombine j => "RC(" ++ tidS j.tid ++ ")"

def edgeS (e : EdgeRef) : String := nodeS e.src ++ ">" ++ nodeS e.dst ++ ":" ++ labelS e.label

def sorted (l : List String) : List String := (l.toArray.qsort (· < ·)).toList

structure Dump where
  nodes : List String
  edges : List String
  entry : List String
deriving BEq

def distinctTids (l : List Tid) : List Tid :=
  l.foldl (fun acc t => if acc.any (fun u => decide (u = t)) then acc else acc ++ [t]) []

def dumpModel (g : Graph) : Dump :=
  let en := entryNodesOfSubs g
  { nodes := sorted (g.nodes.map nodeS), edges := sorted (g.edges.map edgeS),
    entry := sorted ((distinctTids (en.map (·.1))).filterMap (fun t =>
      (Cfg.lookup t en).map (fun n => tidS t ++ "=" ++ nodeS n))) }

def dumpSpec (p : Program) : Dump :=
  { nodes := sorted ((specNodes p).map nodeS), edges := sorted ((specEdges p).map edgeS),
    entry := sorted ((distinctTids (p.subs.map (·.tid))).filterMap (fun t =>
      (specEntryNode p t).map (fun n => tidS t ++ "=" ++ nodeS n))) }

def parseDump (j : Json) : Except String Dump := do
  return { nodes := ← mapM' (·.getStr?) (← arrF j "n"), edges := ← mapM' (·.getStr?) (← arrF j "e"),
           entry := ← mapM' (·.getStr?) (← arrF j "x") }

/-- first element of `a` not in `b` (as multisets of sorted lists this is enough for a message) -/
def firstDiff (a b : List String) : String :=
  match a.find? (fun x => !b.contains x), b.find? (fun x => !a.contains x) with
  | some x, _ => "missing:" ++ x
  | none, some y => "extra:" ++ y
  | none, none => "multiplicity"

def diffClass (expected impl : Dump) : String × String :=
  if expected.nodes != impl.nodes then ("nodes", firstDiff expected.nodes impl.nodes)
  else if expected.edges != impl.edges then ("edges", firstDiff expected.edges impl.edges)
  else ("entry", firstDiff expected.entry impl.entry)

def clean (s : String) : String := s.replace " " "_"

def handleE (line : String) : Except String String := do
  let j ← Json.parse line
  let p ← parseProgram (← field j "prog")
  let kind := (strF j "kind").toOption.getD "?"
  let implJ ← field j "impl"
  let impl : Option Dump ← match implJ with
    | .str _ => pure none
    | o => do pure (some (← parseDump o))
  let model : Option Dump := match buildCfgE p with
    | .ok g => some (dumpModel g)
    | .error _ => none
  let ready := decide (CfgReady p)
  let wf := decide (WellFormedNormalized p)
  let tags := s!"{kind} " ++ (if wf then "wellformed" else if ready then "cfgready" else "notready")
  if ready then
    -- the theorem's hypothesis holds: the implementation must produce the specified graph
    let spec := dumpSpec p
    match impl with
    | none => return s!"spec class=panic expected=graph impl={clean (implJ.getStr?.toOption.getD "?")}"
    | some d =>
      if d != spec then
        let (c, w) := diffClass spec d
        return s!"spec class={c} expected={clean w} impl=differs"
      else match model with
        | none => return s!"diff class=model-error model=error impl=graph"
        | some m =>
          if m != d then
            let (c, w) := diffClass m d
            return s!"diff class={c} model={clean w} impl=differs"
          else return s!"ok {tags} constrained"
  else
    match impl, model with
    | none, none => return s!"ok {tags} modelonly bothpanic"
    | some d, some m =>
      if m != d then
        let (c, w) := diffClass m d
        return s!"diff class={c} model={clean w} impl=differs"
      else return s!"ok {tags} modelonly"
    | none, some _ => return s!"diff class=panic model=graph impl=panic"
    | some _, none => return s!"diff class=panic model=error impl=graph"

end CweModel.C08

def main : IO Unit := CweModel.Proto.runDriver (CweModel.Proto.guarded CweModel.C08.handleE)
