/-
C08 — property theorems. Statement of the property:

  For every well-formed normalized program, the interprocedural control flow graph has one start
  node, one end node and one block edge per (block, function) pair, a jump edge for every
  intraprocedural branch and indirect-jump target hint (marked with the untaken conditional where
  applicable), call/return linkage for every call to an internal function (callsite to callee entry,
  every callee return to the call's return site), a stub edge for every extern or indirect call that
  returns, and no other edges.

Main theorems: `buildCfg_spec` (hypothesis `CfgReady`, the minimal precondition) and
`buildCfg_spec_wellFormedNormalized`: the model of `get_program_cfg` does not panic and its node and
edge lists are permutations of the comprehension specification `specNodes` / `specEdges`
(permutation = equality of multisets, so "one … per" and "no other edges" are both covered).
-/
import CweModel.C08.Model

namespace CweModel.C08
open CweModel.IR CweModel.Cfg List

/-! ### generic list lemmas -/

theorem flatMap_congr_perm {α β : Type} {f g : α → List β} :
    ∀ (l : List α), (∀ a ∈ l, f a ~ g a) → l.flatMap f ~ l.flatMap g
  | [], _ => by simp
  | a :: l, h => by
    simp only [flatMap_cons]
    exact Perm.append (h a (by simp)) (flatMap_congr_perm l (fun x hx => h x (by simp [hx])))

theorem flatMap_append_perm {α β : Type} (f g : α → List β) :
    ∀ (l : List α), l.flatMap (fun a => f a ++ g a) ~ l.flatMap f ++ l.flatMap g
  | [] => by simp
  | a :: l => by
    simp only [flatMap_cons]
    have ih := flatMap_append_perm f g l
    calc f a ++ g a ++ flatMap (fun a => f a ++ g a) l
        ~ f a ++ g a ++ (flatMap f l ++ flatMap g l) := Perm.append_left _ ih
      _ ~ f a ++ flatMap f l ++ (g a ++ flatMap g l) := by
          simp only [append_assoc]
          apply Perm.append_left
          rw [← append_assoc, ← append_assoc]
          exact Perm.append_right _ perm_append_comm

theorem filter_flatMap_ite {α β : Type} (q : α → Bool) (g : α → List β) :
    ∀ (l : List α), (l.filter q).flatMap g = l.flatMap (fun a => if q a then g a else [])
  | [] => by simp
  | a :: l => by
    cases h : q a <;> simp [h, filter_flatMap_ite q g l]

theorem inj_of_nodup_map {α β : Type} (f : α → β) :
    ∀ {l : List α}, (l.map f).Nodup → ∀ {a b : α}, a ∈ l → b ∈ l → f a = f b → a = b
  | [], _, _, _, ha, _, _ => by cases ha
  | x :: l, h, a, b, ha, hb, hab => by
    rw [map_cons, nodup_cons] at h
    rcases mem_cons.mp ha with rfl | ha' <;> rcases mem_cons.mp hb with rfl | hb'
    · rfl
    · exact absurd (hab ▸ mem_map_of_mem hb') h.1
    · exact absurd (hab ▸ mem_map_of_mem ha') h.1
    · exact inj_of_nodup_map f h.2 ha' hb' hab

/-- `lookup` finds a binding that is the only one for its key -/
theorem lookup_eq_some {κ ν : Type} [DecidableEq κ] {k : κ} {v : ν} :
    ∀ {l : List (κ × ν)}, (k, v) ∈ l → (∀ v', (k, v') ∈ l → v' = v) → Cfg.lookup k l = some v
  | [], h, _ => by cases h
  | (k', v') :: l, h, hf => by
    unfold Cfg.lookup
    by_cases hk : k' = k
    · subst hk
      simp only [if_true]
      rw [hf v' (by simp)]
    · simp only [hk, if_false]
      have hm : (k, v) ∈ l := by
        rcases mem_cons.mp h with h | h
        · exact absurd (Prod.mk.inj h).1.symm hk
        · exact h
      exact lookup_eq_some hm (fun w hw => hf w (mem_cons_of_mem _ hw))

theorem lookup_eq_none {κ ν : Type} [DecidableEq κ] {k : κ} :
    ∀ {l : List (κ × ν)}, (∀ kv ∈ l, kv.1 ≠ k) → Cfg.lookup k l = none
  | [], _ => rfl
  | (k', v') :: l, h => by
    unfold Cfg.lookup
    have hk : k' ≠ k := h (k', v') (by simp)
    simp only [hk, if_false]
    exact lookup_eq_none (fun kv hkv => h kv (mem_cons_of_mem _ hkv))

/-! ### facts about programs satisfying `CfgReady` -/

theorem mem_pairs {p : Program} {bs : BlkSub} :
    bs ∈ pairs p ↔ bs.2 ∈ p.subs ∧ bs.1 ∈ bs.2.term.blocks := by
  obtain ⟨b, s⟩ := bs
  simp only [pairs, mem_flatMap, mem_map, Prod.mk.injEq]
  constructor
  · rintro ⟨s', hs', b', hb', rfl, rfl⟩; exact ⟨hs', hb'⟩
  · rintro ⟨hs, hb⟩; exact ⟨s, hs, b, hb, rfl, rfl⟩

theorem blockOf_of_mem {s : Term Sub} (hn : (s.term.blocks.map (·.tid)).Nodup) {tb : Term Blk}
    (h : tb ∈ s.term.blocks) : blockOf s tb.tid = some tb := by
  unfold blockOf
  cases hf : s.term.blocks.find? (fun b => decide (b.tid = tb.tid)) with
  | none =>
    rw [find?_eq_none] at hf
    exact absurd (by simp) (hf tb h)
  | some b =>
    have hb := mem_of_find?_eq_some hf
    have ht : b.tid = tb.tid := by
      simpa using find?_some (p := fun b : Term Blk => decide (b.tid = tb.tid)) hf
    rw [inj_of_nodup_map (·.tid) hn hb h ht]

theorem blockOf_some {s : Term Sub} {t : Tid} {tb : Term Blk} (h : blockOf s t = some tb) :
    tb ∈ s.term.blocks ∧ tb.tid = t :=
  ⟨mem_of_find?_eq_some h, by simpa using find?_some (p := fun b : Term Blk => decide (b.tid = t)) h⟩

theorem blockOf_exists {s : Term Sub} (hn : (s.term.blocks.map (·.tid)).Nodup) {t : Tid}
    (h : ∃ tb ∈ s.term.blocks, tb.tid = t) : ∃ tb, blockOf s t = some tb ∧ tb ∈ s.term.blocks := by
  obtain ⟨tb, hm, rfl⟩ := h
  exact ⟨tb, blockOf_of_mem hn hm, hm⟩

theorem subOf_some {p : Program} {t : Tid} {s : Term Sub} (h : subOf p t = some s) :
    s ∈ p.subs ∧ s.tid = t :=
  ⟨mem_of_find?_eq_some h, by simpa using find?_some (p := fun s : Term Sub => decide (s.tid = t)) h⟩

theorem subOf_of_mem {p : Program} (hn : (p.subs.map (·.tid)).Nodup) {s : Term Sub} (h : s ∈ p.subs) :
    subOf p s.tid = some s := by
  unfold subOf
  cases hf : p.subs.find? (fun x => decide (x.tid = s.tid)) with
  | none =>
    rw [find?_eq_none] at hf
    exact absurd (by simp) (hf s h)
  | some x =>
    have hx := mem_of_find?_eq_some hf
    have ht : x.tid = s.tid := by
      simpa using find?_some (p := fun x : Term Sub => decide (x.tid = s.tid)) hf
    rw [inj_of_nodup_map (·.tid) hn hx h ht]

/-- the entry of the function with TID `t` (the value of `call_targets`) -/
def entryOf (p : Program) (t : Tid) : Option BlkSub :=
  match subOf p t with
  | some s => s.term.blocks.head?.map (fun e => (e, s))
  | none => none

theorem calleeOf_eq (p : Program) (t : Tid) :
    calleeOf p t = if isExtern p t then none else entryOf p t := rfl

/-! ### the builder state -/

/-- append nodes, edges and return addresses -/
def ext (b : Builder) (ns : List Node) (es : List EdgeRef) (rs : List (Tid × Node × Node)) : Builder :=
  { b with nodes := b.nodes ++ ns, edges := b.edges ++ es, returnAddresses := b.returnAddresses ++ rs }

@[simp] theorem ext_nil (b : Builder) : ext b [] [] [] = b := by simp [ext]

@[simp] theorem ext_ext (b : Builder) (n1 n2 e1 e2 r1 r2) :
    ext (ext b n1 e1 r1) n2 e2 r2 = ext b (n1 ++ n2) (e1 ++ e2) (r1 ++ r2) := by
  simp [ext, append_assoc]

theorem addNode_eq (b : Builder) (n : Node) : b.addNode n = ext b [n] [] [] := by
  simp [ext, Builder.addNode]

theorem addEdge_eq (b : Builder) (s d : Node) (l : Edge) : b.addEdge s d l = ext b [] [⟨s, d, l⟩] [] := by
  simp [ext, Builder.addEdge]

/-- `jump_targets` knows every pair of the program -/
def JTgood (p : Program) (jt : List ((Tid × Tid) × BlkSub)) : Prop :=
  ∀ s ∈ p.subs, ∀ tb ∈ s.term.blocks, Cfg.lookup (tb.tid, s.tid) jt = some (tb, s)

/-- `call_targets` maps exactly the functions with an entry block to it -/
def CTgood (p : Program) (ct : List (Tid × BlkSub)) : Prop :=
  ∀ t, Cfg.lookup t ct = entryOf p t

structure Good (p : Program) (b : Builder) : Prop where
  jt : JTgood p b.jumpTargets
  ct : CTgood p b.callTargets

theorem Good.ext {p : Program} {b : Builder} (h : Good p b) (ns es rs) : Good p (ext b ns es rs) :=
  ⟨h.jt, h.ct⟩

/-! ### `add_program_blocks` -/

def blockNodes (bs : BlkSub) : List Node := [.BlkStart bs.1 bs.2, .BlkEnd bs.1 bs.2]
def blockEdge (bs : BlkSub) : EdgeRef := ⟨.BlkStart bs.1 bs.2, .BlkEnd bs.1 bs.2, .Block⟩
def jtEntry (bs : BlkSub) : (Tid × Tid) × BlkSub := ((bs.1.tid, bs.2.tid), bs)

def addBlocks (b : Builder) (l : List BlkSub) : Builder := l.foldl (fun b bs => b.addBlock bs.1 bs.2) b

theorem addProgramBlocks_eq (p : Program) (b : Builder) : b.addProgramBlocks p = addBlocks b (pairs p) := by
  simp only [Builder.addProgramBlocks, addBlocks, pairs, flatMap_def, foldl_flatten, foldl_map]

theorem addBlocks_eq : ∀ (l : List BlkSub) (b : Builder),
    addBlocks b l =
      { b with nodes := b.nodes ++ l.flatMap blockNodes, edges := b.edges ++ l.map blockEdge,
               jumpTargets := (l.map jtEntry).reverse ++ b.jumpTargets,
               worklist := l.reverse ++ b.worklist }
  | [], b => by simp [addBlocks]
  | bs :: l, b => by
    have ih := addBlocks_eq l (b.addBlock bs.1 bs.2)
    simp only [addBlocks, foldl_cons] at ih ⊢
    rw [ih]
    simp [Builder.addBlock, blockNodes, blockEdge, jtEntry, append_assoc]

theorem jtGood_pairs {p : Program} (hr : CfgReady p) : JTgood p ((pairs p).map jtEntry).reverse := by
  intro s hs tb htb
  apply lookup_eq_some
  · simp only [mem_reverse, mem_map]
    exact ⟨(tb, s), mem_pairs.mpr ⟨hs, htb⟩, rfl⟩
  · intro v hv
    simp only [mem_reverse, mem_map] at hv
    obtain ⟨⟨b', s'⟩, hm, he⟩ := hv
    have ⟨hs', hb'⟩ := mem_pairs.mp hm
    simp only [jtEntry, Prod.mk.injEq] at he
    obtain ⟨⟨hbt, hst⟩, rfl⟩ := he
    have : s' = s := inj_of_nodup_map (·.tid) hr.subTids hs' hs hst
    subst this
    have : b' = tb := inj_of_nodup_map (·.tid) (hr.blkTids _ hs) hb' htb hbt
    subst this
    rfl

/-! ### `add_subs_to_call_targets` -/

def ctEntry (s : Term Sub) : Option (Tid × BlkSub) := s.term.blocks.head?.map (fun e => (s.tid, (e, s)))

theorem addSubToCallTargets_eq {p : Program} {b : Builder} (hj : JTgood p b.jumpTargets) {s : Term Sub}
    (hs : s ∈ p.subs) :
    b.addSubToCallTargets s = { b with callTargets := (ctEntry s).toList ++ b.callTargets } := by
  unfold Builder.addSubToCallTargets ctEntry
  cases hb : s.term.blocks with
  | nil => simp
  | cons e rest =>
    have hlk := hj s hs e (by simp [hb])
    simp [hlk]

theorem addSubsToCallTargets_aux {p : Program} :
    ∀ (l : List (Term Sub)) (b : Builder), (∀ s ∈ l, s ∈ p.subs) → JTgood p b.jumpTargets →
      l.foldl Builder.addSubToCallTargets b
      = { b with callTargets := (l.filterMap ctEntry).reverse ++ b.callTargets }
  | [], b, _, _ => by simp
  | s :: l, b, hl, hj => by
    simp only [foldl_cons]
    rw [addSubToCallTargets_eq hj (hl s (by simp))]
    have := addSubsToCallTargets_aux l { b with callTargets := (ctEntry s).toList ++ b.callTargets }
      (fun x hx => hl x (mem_cons_of_mem _ hx)) hj
    rw [this]
    cases h : ctEntry s <;> simp [h]

theorem ctGood_subs {p : Program} (hr : CfgReady p) : CTgood p (p.subs.filterMap ctEntry).reverse := by
  intro t
  unfold entryOf
  cases hso : subOf p t with
  | none =>
    apply lookup_eq_none
    intro kv hkv
    simp only [mem_reverse, mem_filterMap] at hkv
    obtain ⟨s, hs, he⟩ := hkv
    simp only [ctEntry, Option.map_eq_some_iff] at he
    obtain ⟨e, _, rfl⟩ := he
    intro ht
    have := find?_eq_none.mp hso s hs
    simp at this
    exact this ht
  | some s =>
    obtain ⟨hs, rfl⟩ := subOf_some hso
    cases hh : s.term.blocks.head? with
    | none =>
      simp only [hh, Option.map_none]
      apply lookup_eq_none
      intro kv hkv
      simp only [mem_reverse, mem_filterMap] at hkv
      obtain ⟨s', hs', he⟩ := hkv
      simp only [ctEntry, Option.map_eq_some_iff] at he
      obtain ⟨e, he', rfl⟩ := he
      intro ht
      have : s' = s := inj_of_nodup_map (·.tid) hr.subTids hs' hs ht
      subst this
      rw [hh] at he'
      cases he'
    | some e =>
      simp only [hh, Option.map_some]
      apply lookup_eq_some
      · simp only [mem_reverse, mem_filterMap]
        exact ⟨s, hs, by simp [ctEntry, hh]⟩
      · intro v hv
        simp only [mem_reverse, mem_filterMap] at hv
        obtain ⟨s', hs', he⟩ := hv
        simp only [ctEntry, Option.map_eq_some_iff] at he
        obtain ⟨e', he', heq⟩ := he
        simp only [Prod.mk.injEq] at heq
        obtain ⟨ht, rfl⟩ := heq
        have : s' = s := inj_of_nodup_map (·.tid) hr.subTids hs' hs ht
        subst this
        rw [hh] at he'
        cases he'
        rfl

/-! ### one jump: `add_jump_edge` -/

def jNodes (p : Program) (bs : BlkSub) (j : Term Jmp) : List Node :=
  (callSite1 p bs j).map (·.sourceNode)

def jEdges (p : Program) (bs : BlkSub) (ju : Term Jmp × Option (Term Jmp)) : List EdgeRef :=
  jumpEdges p bs ju ++ (callSite1 p bs ju.1).flatMap (·.callEdges)

/-- the `return_addresses` entry of a call with a return site -/
def raOf (cr : CallSite × Term Blk) : Tid × Node × Node :=
  (cr.1.target, cr.1.sourceNode, .BlkStart cr.2 cr.1.src.2)

def jRets (p : Program) (bs : BlkSub) (j : Term Jmp) : List (Tid × Node × Node) :=
  ((callSite1 p bs j).flatMap (·.retSite)).map raOf

theorem getOrAddTarget_ok {p : Program} {b : Builder} (hj : JTgood p b.jumpTargets) {s : Term Sub}
    (hs : s ∈ p.subs) {t : Tid} {tb : Term Blk} (hb : blockOf s t = some tb) :
    getOrAddTarget p b s t = .ok (b, (tb, s)) := by
  obtain ⟨hm, rfl⟩ := blockOf_some hb
  unfold getOrAddTarget
  rw [hj s hs tb hm]

theorem edgeTo_some {bs : BlkSub} {t : Tid} {tb : Term Blk} (hb : blockOf bs.2 t = some tb) (l : Edge) :
    edgeTo bs t l = [⟨.BlkEnd bs.1 bs.2, .BlkStart tb bs.2, l⟩] := by
  simp [edgeTo, hb]

theorem addIntraproceduralEdge_ok {p : Program} {b : Builder} (hg : Good p b) {bs : BlkSub}
    (hs : bs.2 ∈ p.subs) {t : Tid} {tb : Term Blk} (hb : blockOf bs.2 t = some tb) (j : Term Jmp)
    (u : Option (Term Jmp)) :
    addIntraproceduralEdge p b bs t j u = .ok (ext b [] (edgeTo bs t (.Jump j u)) []) := by
  unfold addIntraproceduralEdge
  rw [getOrAddTarget_ok hg.jt hs hb, edgeTo_some hb]
  simp [addEdge_eq]

theorem addIndirectJumps_ok {p : Program} (hr : CfgReady p) {bs : BlkSub} (hs : bs.2 ∈ p.subs)
    (j : Term Jmp) (u : Option (Term Jmp)) :
    ∀ (ts : List Tid) (b : Builder), Good p b → (∀ t ∈ ts, ∃ tb ∈ bs.2.term.blocks, tb.tid = t) →
      addIndirectJumps p bs j u b ts = .ok (ext b [] (ts.flatMap (fun t => edgeTo bs t (.Jump j u))) [])
  | [], b, _, _ => by simp [addIndirectJumps]
  | t :: ts, b, hg, ht => by
    obtain ⟨tb, hb, _⟩ := blockOf_exists (hr.blkTids _ hs) (ht t (by simp))
    unfold addIndirectJumps
    rw [addIntraproceduralEdge_ok hg hs hb]
    simp only
    rw [addIndirectJumps_ok hr hs j u ts _ (hg.ext _ _ _) (fun x hx => ht x (by simp [hx]))]
    simp

theorem addJumpEdge_ok {p : Program} (hr : CfgReady p) {b : Builder} (hg : Good p b) {bs : BlkSub}
    (hm : bs ∈ pairs p) {j : Term Jmp} (hj : j ∈ bs.1.term.jmps) (u : Option (Term Jmp)) :
    addJumpEdge p b bs j u = .ok (ext b (jNodes p bs j) (jEdges p bs (j, u)) (jRets p bs j)) := by
  have ⟨hs, hb⟩ := mem_pairs.mp hm
  have htg := hr.targets _ hs _ hb _ hj
  have hbt := hr.blkTids _ hs
  obtain ⟨jtid, jterm⟩ := j
  cases jterm with
  | Branch t =>
    obtain ⟨tb, htb, _⟩ := blockOf_exists hbt (htg t (by simp [intraTargets]))
    simp only [addJumpEdge, jNodes, jEdges, jRets, callSite1, jumpEdges]
    rw [addIntraproceduralEdge_ok hg hs htb]
    simp
  | CBranch t c =>
    obtain ⟨tb, htb, _⟩ := blockOf_exists hbt (htg t (by simp [intraTargets]))
    simp only [addJumpEdge, jNodes, jEdges, jRets, callSite1, jumpEdges]
    rw [addIntraproceduralEdge_ok hg hs htb]
    simp
  | BranchInd e =>
    simp only [addJumpEdge, jNodes, jEdges, jRets, callSite1, jumpEdges]
    rw [addIndirectJumps_ok hr hs _ _ _ _ hg (hr.hints _ hs _ hb)]
    simp
  | Return e => simp [addJumpEdge, jNodes, jEdges, jRets, callSite1, jumpEdges]
  | CallOther d r => simp [addJumpEdge, jNodes, jEdges, jRets, callSite1, jumpEdges]
  | CallInd e r =>
    cases r with
    | none => simp [addJumpEdge, jNodes, jEdges, jRets, callSite1, jumpEdges]
    | some rt =>
      obtain ⟨rb, hrb, _⟩ := blockOf_exists hbt (htg rt (by simp [intraTargets]))
      simp only [addJumpEdge, jNodes, jEdges, jRets, callSite1, jumpEdges]
      rw [getOrAddTarget_ok hg.jt hs hrb, edgeTo_some hrb]
      simp [addEdge_eq]
  | Call target r =>
    have hct := hg.ct target
    cases r with
    | none =>
      simp only [addJumpEdge, jNodes, jEdges, jRets, callSite1, jumpEdges, calleeOf_eq]
      cases hx : isExtern p target with
      | true => simp
      | false =>
        simp only [Bool.false_eq_true, if_false, hct]
        cases entryOf p target with
        | none => simp
        | some tgt =>
          simp [addNode_eq, addEdge_eq, CallSite.sourceNode, CallSite.callEdges, CallSite.retSite]
    | some rt =>
      obtain ⟨rb, hrb, _⟩ := blockOf_exists hbt (htg rt (by simp [intraTargets]))
      simp only [addJumpEdge, jNodes, jEdges, jRets, callSite1, jumpEdges, calleeOf_eq]
      rw [getOrAddTarget_ok hg.jt hs hrb]
      cases hx : isExtern p target with
      | true => simp [edgeTo_some hrb, addEdge_eq]
      | false =>
        simp only [Bool.false_eq_true, if_false, hct]
        cases entryOf p target with
        | none => simp
        | some tgt =>
          simp [addNode_eq, addEdge_eq, CallSite.sourceNode, CallSite.callEdges, CallSite.retSite, hrb,
            raOf, ext]

/-! ### one block: `add_outgoing_edges`, and the worklist loop -/

def blkNodes (p : Program) (bs : BlkSub) : List Node :=
  (markedJumps bs.1).flatMap (fun ju => jNodes p bs ju.1)
def blkEdges (p : Program) (bs : BlkSub) : List EdgeRef := (markedJumps bs.1).flatMap (jEdges p bs)
def blkRets (p : Program) (bs : BlkSub) : List (Tid × Node × Node) :=
  (markedJumps bs.1).flatMap (fun ju => jRets p bs ju.1)

theorem addOutgoingEdges_ok {p : Program} (hr : CfgReady p) {b : Builder} (hg : Good p b) {bs : BlkSub}
    (hm : bs ∈ pairs p) :
    addOutgoingEdges p b bs = .ok (ext b (blkNodes p bs) (blkEdges p bs) (blkRets p bs)) := by
  have ⟨hs, hb⟩ := mem_pairs.mp hm
  have hsh := hr.shape _ hs _ hb
  unfold jmpShapeOk at hsh
  unfold addOutgoingEdges blkNodes blkEdges blkRets markedJumps
  rcases hjm : bs.1.term.jmps with _ | ⟨j1, _ | ⟨j2, _ | ⟨j3, rest⟩⟩⟩
  · simp
  · simp only [map_nil, flatMap_cons, flatMap_nil, append_nil]
    exact addJumpEdge_ok hr hg hm (by simp [hjm]) none
  · simp only [map_cons, map_nil, flatMap_cons, flatMap_nil, append_nil]
    rw [addJumpEdge_ok hr hg hm (by simp [hjm]) none]
    simp only
    rw [addJumpEdge_ok hr (hg.ext _ _ _) hm (by simp [hjm]) (some j1)]
    simp
  · simp [hjm] at hsh

theorem loop_ok {p : Program} (hr : CfgReady p) :
    ∀ (W : List BlkSub) (fuel : Nat) (b : Builder), (∀ bs ∈ W, bs ∈ pairs p) → Good p b →
      b.worklist = W → W.length ≤ fuel →
      addJumpAndCallEdges p fuel b =
        .ok (ext { b with worklist := [] } (W.flatMap (blkNodes p)) (W.flatMap (blkEdges p))
          (W.flatMap (blkRets p)))
  | [], fuel, b, _, _, hw, _ => by
    cases fuel <;> (unfold addJumpAndCallEdges; simp only [hw]; cases b; simp_all [ext])
  | bs :: W, 0, b, _, _, _, hf => by simp at hf
  | bs :: W, fuel + 1, b, hW, hg, hw, hf => by
    unfold addJumpAndCallEdges
    simp only [hw]
    have hg' : Good p { b with worklist := W } := ⟨hg.jt, hg.ct⟩
    rw [addOutgoingEdges_ok hr hg' (hW bs (by simp))]
    simp only
    rw [loop_ok hr W fuel _ (fun x hx => hW x (by simp [hx])) (hg'.ext _ _ _) (by simp [ext])
      (by simpa using hf)]
    simp [ext]

/-! ### `add_return_edges` -/

theorem foldE_ok {α : Type} (f : Builder → α → Except String Builder) (I : Builder → Prop)
    (fn : α → List Node) (fe : α → List EdgeRef)
    (hI : ∀ b ns es, I b → I (ext b ns es [])) :
    ∀ (l : List α), (∀ a ∈ l, ∀ b, I b → f b a = .ok (ext b (fn a) (fe a) [])) →
      ∀ b, I b → foldE f b l = .ok (ext b (l.flatMap fn) (l.flatMap fe) [])
  | [], _, b, _ => by simp [foldE]
  | a :: l, hf, b, hb => by
    unfold foldE
    rw [hf a (by simp) b hb]
    simp only
    rw [foldE_ok f I fn fe hI l (fun x hx => hf x (by simp [hx])) _ (hI _ _ _ hb)]
    simp

theorem foldE_map {α β : Type} (f : Builder → β → Except String Builder) (g : α → β) :
    ∀ (l : List α) (b : Builder), foldE f b (l.map g) = foldE (fun b a => f b (g a)) b l
  | [], b => by simp [foldE]
  | a :: l, b => by
    simp only [map_cons, foldE]
    cases f b (g a) with
    | ok b' => exact foldE_map f g l b'
    | error e => rfl

theorem isCall_of_isCBranch {j : Term Jmp} (h : isCBranch j = true) : isCall j = false := by
  obtain ⟨t, jt⟩ := j
  cases jt <;> simp_all [isCBranch, isCall]

theorem find_call {b : Term Blk} (hsh : jmpShapeOk b = true) {j : Term Jmp} (hj : j ∈ b.term.jmps)
    (hc : isCall j = true) : b.term.jmps.find? isCall = some j := by
  unfold jmpShapeOk at hsh
  rcases hjm : b.term.jmps with _ | ⟨j1, _ | ⟨j2, _ | ⟨j3, rest⟩⟩⟩
  · simp [hjm] at hj
  · simp only [hjm, mem_singleton] at hj
    subst hj
    simp [hc]
  · simp only [hjm] at hsh hj
    have h1 := isCall_of_isCBranch hsh
    rcases mem_cons.mp hj with rfl | hj
    · rw [h1] at hc; cases hc
    · simp only [mem_singleton] at hj
      subst hj
      simp [h1, hc]
  · simp [hjm] at hsh

theorem mem_callSite1 {p : Program} {bs : BlkSub} {j : Term Jmp} {c : CallSite} (h : c ∈ callSite1 p bs j) :
    c.src = bs ∧ c.jmp = j ∧ isCall j = true := by
  obtain ⟨t, jt⟩ := j
  cases jt <;> simp [callSite1] at h
  case Call target r =>
    cases hc : calleeOf p target with
    | none => simp [hc] at h
    | some cl =>
      simp only [hc, mem_singleton] at h
      subst h
      simp [isCall]

theorem mem_callSites {p : Program} {bs : BlkSub} {c : CallSite} (h : c ∈ callSites p bs) :
    c.src = bs ∧ c.jmp ∈ bs.1.term.jmps ∧ isCall c.jmp = true := by
  simp only [callSites, mem_flatMap] at h
  obtain ⟨j, hj, hc⟩ := h
  obtain ⟨h1, h2, h3⟩ := mem_callSite1 hc
  exact ⟨h1, h2 ▸ hj, h2 ▸ h3⟩

theorem mem_retSite {c : CallSite} {cr : CallSite × Term Blk} (h : cr ∈ c.retSite) : cr.1 = c := by
  unfold CallSite.retSite at h
  split at h
  · split at h
    · simp only [mem_singleton] at h; rw [h]
    · cases h
  · cases h

theorem mem_retSites {p : Program} {bs : BlkSub} {cr : CallSite × Term Blk} (h : cr ∈ retSites p bs) :
    cr.1 ∈ callSites p bs := by
  simp only [retSites, mem_flatMap] at h
  obtain ⟨c, hc, hcr⟩ := h
  rw [mem_retSite hcr]; exact hc

/-- the call term that `add_call_return_node_and_edges` looks up is the call of the call site -/
def CallFound (cr : CallSite × Term Blk) : Prop := cr.1.src.1.term.jmps.find? isCall = some cr.1.jmp

theorem callFound_of_mem {p : Program} (hr : CfgReady p) {bs : BlkSub} (hm : bs ∈ pairs p)
    {cr : CallSite × Term Blk} (h : cr ∈ retSites p bs) : CallFound cr := by
  obtain ⟨h1, h2, h3⟩ := mem_callSites (mem_retSites h)
  have ⟨hs, hb⟩ := mem_pairs.mp hm
  unfold CallFound
  rw [h1]
  exact find_call (hr.shape _ hs _ hb) h2 h3

theorem addCallReturn_ok (b : Builder) (rf : BlkSub) {cr : CallSite × Term Blk} (h : CallFound cr) :
    addCallReturn b rf (raOf cr) = .ok (ext b [callReturnNode cr.1 rf] (returnEdges rf cr.1 cr.2) []) := by
  unfold CallFound at h
  simp [addCallReturn, raOf, CallSite.sourceNode, h, addNode_eq, addEdge_eq, callReturnNode, returnEdges]

theorem addCallReturnNodeAndEdges_ok (crs : List (CallSite × Term Blk)) (hc : ∀ cr ∈ crs, CallFound cr)
    (rf : BlkSub) (b : Builder) (hb : b.returnAddresses = crs.map raOf) :
    addCallReturnNodeAndEdges b rf =
      .ok (ext b ((crs.filter (fun cr => decide (cr.1.target = rf.2.tid))).map (fun cr => callReturnNode cr.1 rf))
        ((crs.filter (fun cr => decide (cr.1.target = rf.2.tid))).flatMap (fun cr => returnEdges rf cr.1 cr.2))
        []) := by
  unfold addCallReturnNodeAndEdges
  rw [hb, filter_map, foldE_map]
  have hcomp : ((fun ra : Tid × Node × Node => decide (ra.1 = rf.2.tid)) ∘ raOf)
      = (fun cr : CallSite × Term Blk => decide (cr.1.target = rf.2.tid)) := by
    funext cr; rfl
  rw [hcomp]
  have := foldE_ok (fun b cr => addCallReturn b rf (raOf cr)) (fun _ => True)
    (fun cr => [callReturnNode cr.1 rf]) (fun cr => returnEdges rf cr.1 cr.2) (fun _ _ _ _ => trivial)
    (crs.filter (fun cr => decide (cr.1.target = rf.2.tid)))
    (fun cr hcr b _ => addCallReturn_ok b rf (hc cr (mem_filter.mp hcr).1)) b trivial
  rw [this]
  congr 2
  induction (crs.filter (fun cr => decide (cr.1.target = rf.2.tid))) with
  | nil => rfl
  | cons a l ih => simp [ih]

theorem addReturnEdges_ok (crs : List (CallSite × Term Blk)) (hc : ∀ cr ∈ crs, CallFound cr)
    (b : Builder) (hb : b.returnAddresses = crs.map raOf) :
    addReturnEdges b =
      .ok (ext b
        ((returnFromNodes b.nodes).flatMap (fun rf =>
          (crs.filter (fun cr => decide (cr.1.target = rf.2.tid))).map (fun cr => callReturnNode cr.1 rf)))
        ((returnFromNodes b.nodes).flatMap (fun rf =>
          (crs.filter (fun cr => decide (cr.1.target = rf.2.tid))).flatMap (fun cr => returnEdges rf cr.1 cr.2)))
        []) := by
  unfold addReturnEdges
  exact foldE_ok addCallReturnNodeAndEdges (fun b => b.returnAddresses = crs.map raOf) _ _
    (fun b ns es h => by simpa [ext] using h) (returnFromNodes b.nodes)
    (fun rf _ b hb => addCallReturnNodeAndEdges_ok crs hc rf b hb) b hb

theorem returnFromNodes_blockNodes : ∀ (l : List BlkSub),
    returnFromNodes (l.flatMap blockNodes) = l.filter (fun bs => hasReturn bs.1)
  | [] => rfl
  | bs :: l => by
    have ih := returnFromNodes_blockNodes l
    unfold returnFromNodes at ih ⊢
    simp only [flatMap_cons, filterMap_append, ih, blockNodes, filter_cons, hasReturn]
    cases h : bs.1.term.jmps.any isReturn <;> simp only [filterMap_cons, filterMap_nil, h] <;> simp

theorem returnFromNodes_callSources {p : Program} : ∀ (l : List BlkSub),
    returnFromNodes (l.flatMap (blkNodes p)) = [] := by
  intro l
  unfold returnFromNodes
  rw [filterMap_eq_nil_iff]
  intro n hn
  simp only [blkNodes, jNodes, mem_flatMap, mem_map] at hn
  obtain ⟨_, _, _, _, c, _, rfl⟩ := hn
  rfl

/-! ### per-block contributions in terms of the specification's vocabulary -/

theorem markedJumps_fst (b : Term Blk) : (markedJumps b).map Prod.fst = b.term.jmps := by
  unfold markedJumps
  cases b.term.jmps with
  | nil => rfl
  | cons j rest => simp [Function.comp_def]

theorem flatMap_markedJumps_fst {β : Type} (b : Term Blk) (g : Term Jmp → List β) :
    (markedJumps b).flatMap (fun ju => g ju.1) = b.term.jmps.flatMap g := by
  rw [← markedJumps_fst b, flatMap_map]

theorem blkNodes_eq (p : Program) (bs : BlkSub) : blkNodes p bs = (callSites p bs).map (·.sourceNode) := by
  unfold blkNodes callSites
  rw [flatMap_markedJumps_fst bs.1 (jNodes p bs), map_flatMap]
  rfl

theorem blkRets_eq (p : Program) (bs : BlkSub) : blkRets p bs = (retSites p bs).map raOf := by
  unfold blkRets retSites callSites
  rw [flatMap_markedJumps_fst bs.1 (jRets p bs), flatMap_assoc, map_flatMap]
  rfl

theorem blkEdges_perm (p : Program) (bs : BlkSub) :
    blkEdges p bs ~ (markedJumps bs.1).flatMap (jumpEdges p bs) ++ (callSites p bs).flatMap (·.callEdges) := by
  unfold blkEdges jEdges callSites
  rw [flatMap_assoc, ← flatMap_markedJumps_fst bs.1 (fun j => (callSite1 p bs j).flatMap (·.callEdges))]
  exact flatMap_append_perm _ _ _

/-! ### the result of `build` -/

/-- the state of the builder at the end of `build`, in closed form -/
theorem buildE_closed {p : Program} (hr : CfgReady p) :
    ∃ b, buildE p = .ok b ∧
      b.nodes = (pairs p).flatMap blockNodes ++ (pairs p).reverse.flatMap (blkNodes p) ++
        ((pairs p).filter (fun bs => hasReturn bs.1)).flatMap (fun rf =>
          (((pairs p).reverse.flatMap (retSites p)).filter (fun cr => decide (cr.1.target = rf.2.tid))).map
            (fun cr => callReturnNode cr.1 rf)) ∧
      b.edges = (pairs p).map blockEdge ++ (pairs p).reverse.flatMap (blkEdges p) ++
        ((pairs p).filter (fun bs => hasReturn bs.1)).flatMap (fun rf =>
          (((pairs p).reverse.flatMap (retSites p)).filter (fun cr => decide (cr.1.target = rf.2.tid))).flatMap
            (fun cr => returnEdges rf cr.1 cr.2)) := by
  unfold buildE
  simp only [addProgramBlocks_eq, addBlocks_eq, Builder.addSubsToCallTargets]
  rw [addSubsToCallTargets_aux (p := p) p.subs _ (fun _ h => h) (by simpa using jtGood_pairs hr)]
  have hfuel : (pairs p).reverse.length ≤ buildFuel p := by
    simp only [length_reverse, buildFuel]
    exact Nat.le_trans (Nat.le_succ _) (Nat.le_mul_of_pos_right _ (Nat.succ_pos _))
  rw [loop_ok hr (pairs p).reverse (buildFuel p) _ (fun bs h => mem_reverse.mp h)
    ⟨by simpa using jtGood_pairs hr, by simpa using ctGood_subs hr⟩ (by simp) hfuel]
  simp only
  have hcrs : ∀ cr ∈ (pairs p).reverse.flatMap (retSites p), CallFound cr := by
    intro cr hcr
    obtain ⟨bs, hbs, h⟩ := mem_flatMap.mp hcr
    exact callFound_of_mem hr (mem_reverse.mp hbs) h
  rw [addReturnEdges_ok _ hcrs _ (by
    simp only [ext, nil_append, map_flatMap]
    rw [funext (blkRets_eq p)])]
  refine ⟨_, rfl, ?_, ?_⟩
  · simp only [ext, nil_append, returnFromNodes, filterMap_append]
    have h1 := returnFromNodes_blockNodes (pairs p)
    have h2 := returnFromNodes_callSources (p := p) (pairs p).reverse
    unfold returnFromNodes at h1 h2
    rw [h1, h2, append_nil]
  · simp only [ext, nil_append, returnFromNodes, filterMap_append]
    have h1 := returnFromNodes_blockNodes (pairs p)
    have h2 := returnFromNodes_callSources (p := p) (pairs p).reverse
    unfold returnFromNodes at h1 h2
    rw [h1, h2, append_nil]

theorem returningCalls_perm (p : Program) (t : Tid) :
    ((pairs p).reverse.flatMap (retSites p)).filter (fun cr => decide (cr.1.target = t))
      ~ returningCallsTo p t :=
  Perm.filter _ (Perm.flatMap_right _ (reverse_perm _))

/-- **C08-cfg-exact.** For every program satisfying `CfgReady` (unique function TIDs, unique block
TIDs per function, at most two jumps per block with the first of two conditional, every
intraprocedural target / indirect-jump hint / return site a block of the same function) the model of
`get_program_cfg` does not panic, and its node list and edge list are permutations of the
specification `specNodes p` / `specEdges p` — the same nodes and edges with the same multiplicities,
and no others. -/
theorem buildCfg_spec {p : Program} (hr : CfgReady p) :
    ∃ g, buildCfgE p = .ok g ∧ g.nodes ~ specNodes p ∧ g.edges ~ specEdges p := by
  obtain ⟨b, hb, hn, he⟩ := buildE_closed hr
  refine ⟨⟨b.nodes, b.edges⟩, by simp [buildCfgE, hb], ?_, ?_⟩
  · show b.nodes ~ specNodes p
    rw [hn]
    unfold specNodes
    refine Perm.append (Perm.append (Perm.refl _) ?_) ?_
    · refine (Perm.flatMap_right _ (reverse_perm _)).trans ?_
      rw [funext (blkNodes_eq p)]
    · rw [filter_flatMap_ite]
      exact flatMap_congr_perm _ (fun rf _ => by
        cases hasReturn rf.1
        · simp
        · simpa using Perm.map _ (returningCalls_perm p rf.2.tid))
  · show b.edges ~ specEdges p
    rw [he]
    unfold specEdges
    refine Perm.append ?_ ?_
    · rw [append_assoc]
      refine Perm.append (Perm.refl _) ?_
      refine (Perm.flatMap_right _ (reverse_perm _)).trans ?_
      exact (flatMap_congr_perm _ (fun bs _ => blkEdges_perm p bs)).trans (flatMap_append_perm _ _ _)
    · rw [filter_flatMap_ite]
      exact flatMap_congr_perm _ (fun rf _ => by
        cases hasReturn rf.1
        · simp
        · simpa using Perm.flatMap_right _ (returningCalls_perm p rf.2.tid))

/-- `buildCfg` (the total version used by C13/C15/C17) is the graph of `buildCfg_spec`. -/
theorem buildCfg_eq {p : Program} {g : Graph} (h : buildCfgE p = .ok g) : buildCfg p = g := by
  simp [buildCfg, h]

/-- **C08-no-panic.** `get_program_cfg` does not panic on programs satisfying `CfgReady`
(last clause of property C09). -/
theorem buildCfgE_ok {p : Program} (hr : CfgReady p) : ∃ g, buildCfgE p = .ok g :=
  let ⟨g, h, _⟩ := buildCfg_spec hr; ⟨g, h⟩

/-! ### normalized programs -/

theorem sublist_flatMap_pointwise {α β : Type} {f g : α → List β} (h : ∀ a, g a <+ f a) :
    ∀ (l : List α), l.flatMap g <+ l.flatMap f
  | [] => by simp
  | a :: l => by
    simp only [flatMap_cons]
    exact Sublist.append (h a) (sublist_flatMap_pointwise h l)

theorem map_eq_flatMap_singleton {α β : Type} (f : α → β) (l : List α) : l.map f = l.flatMap (fun a => [f a]) := by
  induction l with
  | nil => rfl
  | cons a l ih => simp [ih]

theorem sublist_flatMap_of_mem' {α β : Type} (f : α → List β) {l : List α} {a : α} (h : a ∈ l) :
    f a <+ l.flatMap f := by
  rw [flatMap_def]
  exact sublist_flatten_of_mem (mem_map_of_mem h)

/-- A normalized program satisfies the preconditions of the graph construction. -/
theorem wellFormedNormalized_cfgReady {p : Program} (h : WellFormedNormalized p) : CfgReady p where
  subTids := by
    refine Nodup.sublist ?_ h.tidsUnique
    rw [map_eq_flatMap_singleton]
    exact sublist_flatMap_pointwise (fun s => by simp) _
  blkTids := by
    intro s hs
    refine Nodup.sublist ?_ h.tidsUnique
    refine Sublist.trans ?_ (sublist_flatMap_of_mem' _ hs)
    refine Sublist.trans ?_ (sublist_cons_self _ _)
    rw [map_eq_flatMap_singleton]
    exact sublist_flatMap_pointwise (fun b => by simp) _
  shape := h.shape
  targets := h.targets
  hints := h.hints

/-- **C08-cfg-exact (normalized programs).** The property as stated: for every well-formed
normalized program the graph is exactly the specified one. -/
theorem buildCfg_spec_wellFormedNormalized {p : Program} (h : WellFormedNormalized p) :
    ∃ g, buildCfgE p = .ok g ∧ g.nodes ~ specNodes p ∧ g.edges ~ specEdges p :=
  buildCfg_spec (wellFormedNormalized_cfgReady h)

/-! ### pairs are pairwise different -/

theorem nodup_of_nodup_map {α β : Type} (f : α → β) : ∀ {l : List α}, (l.map f).Nodup → l.Nodup
  | [], _ => nodup_nil
  | a :: l, h => by
    rw [map_cons, nodup_cons] at h
    exact nodup_cons.mpr ⟨fun ha => h.1 (mem_map_of_mem ha), nodup_of_nodup_map f h.2⟩

theorem nodup_map_of_inj {α β : Type} (f : α → β) (hf : ∀ a b, f a = f b → a = b) :
    ∀ {l : List α}, l.Nodup → (l.map f).Nodup
  | [], _ => nodup_nil
  | a :: l, h => by
    rw [nodup_cons] at h
    rw [map_cons, nodup_cons]
    refine ⟨?_, nodup_map_of_inj f hf h.2⟩
    intro hm
    obtain ⟨b, hb, hfb⟩ := mem_map.mp hm
    exact h.1 (hf _ _ hfb ▸ hb)

theorem pairs_nodup {p : Program} (hr : CfgReady p) : (pairs p).Nodup := by
  unfold pairs
  rw [Nodup, pairwise_flatMap]
  constructor
  · intro s hs
    exact nodup_map_of_inj _ (fun a b h => (Prod.mk.inj h).1) (nodup_of_nodup_map _ (hr.blkTids s hs))
  · have hsubs : p.subs.Nodup := nodup_of_nodup_map _ hr.subTids
    refine Pairwise.imp ?_ hsubs
    intro s s' hne x hx y hy hxy
    simp only [mem_map] at hx hy
    obtain ⟨_, _, rfl⟩ := hx
    obtain ⟨_, _, rfl⟩ := hy
    exact hne (Prod.mk.inj hxy).2


/-! ### `get_entry_nodes_of_subs` -/

/-- the binding `get_entry_nodes_of_subs` inserts for a node -/
def entryBinding (n : Node) : Option (Tid × Node) :=
  match n with
  | .BlkStart blk sub =>
    match sub.term.blocks with
    | entry :: _ => if blk.tid = entry.tid then some (sub.tid, n) else none
    | [] => none
  | _ => none

theorem entryNodesOfSubs_rev (es : List EdgeRef) : ∀ (l : List Node),
    entryNodesOfSubs ⟨l.reverse, es⟩ = l.filterMap entryBinding
  | [] => rfl
  | n :: l => by
    have ih := entryNodesOfSubs_rev es l
    unfold entryNodesOfSubs at ih ⊢
    simp only [reverse_cons, foldl_append, foldl_cons, foldl_nil, filterMap_cons] at ih ⊢
    rw [ih]
    cases n with
    | BlkStart blk sub =>
      simp only [entryBinding]
      cases sub.term.blocks with
      | nil => rfl
      | cons e rest =>
        simp only
        split <;> rfl
    | BlkEnd _ _ => rfl
    | CallReturn _ _ => rfl
    | CallSource _ _ => rfl

theorem entryNodesOfSubs_eq (g : Graph) : entryNodesOfSubs g = (g.nodes.filterMap entryBinding).reverse := by
  have := entryNodesOfSubs_rev g.edges g.nodes.reverse
  simp only [reverse_reverse] at this
  rw [this, filterMap_reverse]

theorem blkStart_mem_specNodes {p : Program} {blk : Term Blk} {sub : Term Sub} :
    Node.BlkStart blk sub ∈ specNodes p ↔ (blk, sub) ∈ pairs p := by
  unfold specNodes
  simp only [mem_append, mem_flatMap]
  constructor
  · rintro ((⟨bs, hbs, hn⟩ | ⟨bs, _, hn⟩) | ⟨rf, _, hn⟩)
    · simp only [mem_cons, not_mem_nil, or_false] at hn
      rcases hn with hn | hn
      · cases hn; exact hbs
      · cases hn
    · obtain ⟨c, _, hc⟩ := mem_map.mp hn
      simp [CallSite.sourceNode] at hc
    · split at hn
      · obtain ⟨c, _, hc⟩ := mem_map.mp hn
        simp [callReturnNode] at hc
      · cases hn
  · intro h
    exact .inl (.inl ⟨(blk, sub), h, by simp⟩)

/-- **C08-entry-nodes.** `get_entry_nodes_of_subs` maps the TID of every function that has blocks to
the `BlkStart` node of its first block, and nothing else. -/
theorem entryNodesOfSubs_spec {p : Program} (hr : CfgReady p) {g : Graph} (hg : buildCfgE p = .ok g) (t : Tid) :
    Cfg.lookup t (entryNodesOfSubs g) = specEntryNode p t := by
  obtain ⟨g', hg', hpn, _⟩ := buildCfg_spec hr
  rw [hg] at hg'
  cases hg'
  rw [entryNodesOfSubs_eq]
  -- what the bindings are
  have hmem : ∀ kv, kv ∈ (g.nodes.filterMap entryBinding).reverse ↔
      ∃ s ∈ p.subs, ∃ e rest, s.term.blocks = e :: rest ∧ kv = (s.tid, Node.BlkStart e s) := by
    intro kv
    simp only [mem_reverse, mem_filterMap]
    constructor
    · rintro ⟨n, hn, hb⟩
      cases n with
      | BlkStart blk sub =>
        have hp := blkStart_mem_specNodes.mp (hpn.mem_iff.mp hn)
        have ⟨hs, hbm⟩ := mem_pairs.mp hp
        simp only [entryBinding] at hb
        cases hbl : sub.term.blocks with
        | nil => simp [hbl] at hb
        | cons e rest =>
          simp only [hbl] at hb
          split at hb
          next heq =>
            cases hb
            have : blk = e := inj_of_nodup_map (·.tid) (hr.blkTids _ hs) hbm (by simp [hbl]) heq
            subst this
            exact ⟨sub, hs, blk, rest, hbl, rfl⟩
          next => cases hb
      | BlkEnd _ _ => simp [entryBinding] at hb
      | CallReturn _ _ => simp [entryBinding] at hb
      | CallSource _ _ => simp [entryBinding] at hb
    · rintro ⟨s, hs, e, rest, hbl, rfl⟩
      refine ⟨.BlkStart e s, hpn.mem_iff.mpr (blkStart_mem_specNodes.mpr (mem_pairs.mpr ⟨hs, by simp [hbl]⟩)), ?_⟩
      simp [entryBinding, hbl]
  unfold specEntryNode
  cases hso : subOf p t with
  | none =>
    apply lookup_eq_none
    intro kv hkv
    obtain ⟨s, hs, e, rest, _, rfl⟩ := (hmem kv).mp hkv
    intro ht
    have := find?_eq_none.mp hso s hs
    simp at this
    exact this ht
  | some s =>
    obtain ⟨hs, rfl⟩ := subOf_some hso
    cases hbl : s.term.blocks with
    | nil =>
      simp only [hbl, head?_nil, Option.map_none]
      apply lookup_eq_none
      intro kv hkv
      obtain ⟨s', hs', e, rest, hbl', rfl⟩ := (hmem kv).mp hkv
      intro ht
      have : s' = s := inj_of_nodup_map (·.tid) hr.subTids hs' hs ht
      subst this
      rw [hbl] at hbl'
      cases hbl'
    | cons e rest =>
      simp only [hbl, head?_cons, Option.map_some]
      apply lookup_eq_some
      · exact (hmem _).mpr ⟨s, hs, e, rest, hbl, rfl⟩
      · intro v hv
        obtain ⟨s', hs', e', rest', hbl', heq⟩ := (hmem _).mp hv
        simp only [Prod.mk.injEq] at heq
        obtain ⟨ht, rfl⟩ := heq
        have : s' = s := inj_of_nodup_map (·.tid) hr.subTids hs' hs ht.symm
        subst this
        rw [hbl] at hbl'
        cases hbl'
        rfl

/-! ### node weights are pairwise different -/

theorem nodup_flatMap_of {α β : Type} {f : α → List β} :
    ∀ {l : List α}, l.Nodup → (∀ a ∈ l, (f a).Nodup) →
      (∀ a ∈ l, ∀ b ∈ l, a ≠ b → ∀ x ∈ f a, x ∉ f b) → (l.flatMap f).Nodup
  | [], _, _, _ => by simp
  | a :: l, hn, h1, h2 => by
    rw [nodup_cons] at hn
    simp only [flatMap_cons]
    rw [nodup_append]
    refine ⟨h1 a (by simp), nodup_flatMap_of hn.2 (fun x hx => h1 x (by simp [hx]))
      (fun x hx y hy => h2 x (by simp [hx]) y (by simp [hy])), ?_⟩
    intro x hx y hy hxy
    subst hxy
    obtain ⟨b, hb, hxb⟩ := mem_flatMap.mp hy
    exact h2 a (by simp) b (by simp [hb]) (fun hab => hn.1 (hab ▸ hb)) x hx hxb

/-- a block has at most one internal call site -/
theorem callSites_length_le_one {p : Program} (hr : CfgReady p) {bs : BlkSub} (hm : bs ∈ pairs p) :
    (callSites p bs).length ≤ 1 := by
  have ⟨hs, hb⟩ := mem_pairs.mp hm
  have hsh := hr.shape _ hs _ hb
  unfold jmpShapeOk at hsh
  unfold callSites
  have h1 : ∀ j, (callSite1 p bs j).length ≤ 1 := by
    intro j
    unfold callSite1
    split
    · split <;> simp
    · simp
  rcases hjm : bs.1.term.jmps with _ | ⟨j1, _ | ⟨j2, _ | ⟨j3, rest⟩⟩⟩
  · simp
  · simpa using h1 j1
  · simp only [hjm] at hsh
    have : callSite1 p bs j1 = [] := by
      obtain ⟨t, jt⟩ := j1
      cases jt <;> simp_all [isCBranch, callSite1]
    simpa [this] using h1 j2
  · simp [hjm] at hsh

theorem nodup_of_length_le_one {α : Type} {l : List α} (h : l.length ≤ 1) : l.Nodup := by
  rcases l with _ | ⟨a, _ | ⟨b, rest⟩⟩
  · simp
  · simp
  · simp at h

theorem retSites_length_le_one {p : Program} (hr : CfgReady p) {bs : BlkSub} (hm : bs ∈ pairs p) :
    (retSites p bs).length ≤ 1 := by
  have h := callSites_length_le_one hr hm
  unfold retSites
  have h1 : ∀ c : CallSite, c.retSite.length ≤ 1 := by
    intro c
    unfold CallSite.retSite
    split
    · split <;> simp
    · simp
  rcases hc : callSites p bs with _ | ⟨c, _ | ⟨c2, rest⟩⟩
  · simp
  · simpa using h1 c
  · rw [hc] at h; simp at h

/-- the call sites with a return site of the whole program have pairwise different sources -/
theorem allRetSites_src_nodup {p : Program} (hr : CfgReady p) :
    (((pairs p).flatMap (retSites p)).map (fun cr => cr.1.src)).Nodup := by
  rw [map_flatMap]
  refine nodup_flatMap_of (pairs_nodup hr) ?_ ?_
  · intro bs hbs
    exact nodup_of_length_le_one (by simpa using retSites_length_le_one hr hbs)
  · intro a _ b _ hab x hxa hxb
    obtain ⟨cr, hcr, rfl⟩ := mem_map.mp hxa
    obtain ⟨cr', hcr', heq⟩ := mem_map.mp hxb
    have h1 := (mem_callSites (mem_retSites hcr)).1
    have h2 := (mem_callSites (mem_retSites hcr')).1
    exact hab (by rw [← h1, ← heq, h2])

theorem Nodup.filter' {α : Type} (q : α → Bool) {l : List α} (h : l.Nodup) : (l.filter q).Nodup :=
  Nodup.sublist filter_sublist h

/-- **C08-nodes-distinct.** The node weights of the graph are pairwise different, so identifying a
node by its weight (kind, block, function[, second pair]) loses nothing. -/
theorem specNodes_nodup {p : Program} (hr : CfgReady p) : (specNodes p).Nodup := by
  have hnd := pairs_nodup hr
  unfold specNodes
  rw [nodup_append, nodup_append]
  refine ⟨⟨?_, ?_, ?_⟩, ?_, ?_⟩
  · -- BlkStart / BlkEnd
    refine nodup_flatMap_of hnd ?_ ?_
    · intro bs _; simp
    · intro a _ b _ hab x hxa hxb
      simp only [mem_cons, not_mem_nil, or_false] at hxa hxb
      rcases hxa with rfl | rfl <;> rcases hxb with h | h <;>
        simp only [Node.BlkStart.injEq, Node.BlkEnd.injEq, reduceCtorEq] at h <;>
        exact hab (Prod.ext h.1 h.2)
  · -- CallSource
    refine nodup_flatMap_of hnd ?_ ?_
    · intro bs hbs
      exact nodup_of_length_le_one (by simpa using callSites_length_le_one hr hbs)
    · intro a _ b _ hab x hxa hxb
      obtain ⟨c, hc, rfl⟩ := mem_map.mp hxa
      obtain ⟨c', hc', heq⟩ := mem_map.mp hxb
      simp only [CallSite.sourceNode, Node.CallSource.injEq] at heq
      exact hab (by rw [← (mem_callSites hc).1, ← heq.1, (mem_callSites hc').1])
  · intro x hx y hy hxy
    subst hxy
    obtain ⟨bs, _, hb⟩ := mem_flatMap.mp hx
    obtain ⟨bs', _, hb'⟩ := mem_flatMap.mp hy
    obtain ⟨c, _, hc⟩ := mem_map.mp hb'
    simp only [mem_cons, not_mem_nil, or_false] at hb
    rcases hb with rfl | rfl <;> simp [CallSite.sourceNode] at hc
  · -- CallReturn
    refine nodup_flatMap_of hnd ?_ ?_
    · intro rf _
      split
      · have h := allRetSites_src_nodup hr
        have h2 : ((returningCallsTo p rf.2.tid).map (fun cr => cr.1.src)).Nodup := by
          unfold returningCallsTo
          exact Nodup.sublist (Sublist.map _ filter_sublist) h
        have h3 := nodup_of_nodup_map _ h2
        refine nodup_of_nodup_map (fun n => match n with | .CallReturn c _ => c | _ => rf) ?_
        rw [map_map]
        exact h2
      · simp
    · intro a _ b _ hab x hxa hxb
      split at hxa
      · split at hxb
        · obtain ⟨c, _, rfl⟩ := mem_map.mp hxa
          obtain ⟨c', _, heq⟩ := mem_map.mp hxb
          simp only [callReturnNode, Node.CallReturn.injEq] at heq
          exact hab heq.2.symm
        · cases hxb
      · cases hxa
  · intro x hx y hy hxy
    subst hxy
    rcases mem_append.mp hx with hx | hx
    · obtain ⟨bs, _, hb⟩ := mem_flatMap.mp hx
      obtain ⟨rf, _, hr'⟩ := mem_flatMap.mp hy
      split at hr'
      · obtain ⟨c, _, hc⟩ := mem_map.mp hr'
        simp only [mem_cons, not_mem_nil, or_false] at hb
        rcases hb with rfl | rfl <;> simp [callReturnNode] at hc
      · cases hr'
    · obtain ⟨bs, _, hb⟩ := mem_flatMap.mp hx
      obtain ⟨c0, _, hc0⟩ := mem_map.mp hb
      obtain ⟨rf, _, hr'⟩ := mem_flatMap.mp hy
      split at hr'
      · obtain ⟨c, _, hc⟩ := mem_map.mp hr'
        rw [← hc0] at hc
        simp [callReturnNode, CallSite.sourceNode] at hc
      · cases hr'

theorem buildCfg_nodes_nodup {p : Program} (hr : CfgReady p) {g : Graph} (hg : buildCfgE p = .ok g) :
    g.nodes.Nodup := by
  obtain ⟨g', hg', hpn, _⟩ := buildCfg_spec hr
  rw [hg] at hg'
  cases hg'
  exact hpn.nodup_iff.mpr (specNodes_nodup hr)

/-! ### non-vacuity: a concrete normalized program -/

namespace Example
def zf : Expression := .Var ⟨"ZF", 1, false⟩
def rax : Expression := .Var ⟨"RAX", 8, false⟩
def jmp (t : String) (j : Jmp) : Term Jmp := ⟨⟨t, "UNKNOWN"⟩, j⟩
def blk (t : String) (jmps : List (Term Jmp)) (hints : List String := []) : Term Blk :=
  ⟨⟨t, "UNKNOWN"⟩, { defs := [], jmps := jmps, indirectJmpTargets := hints.map (fun h => ⟨h, "UNKNOWN"⟩) }⟩

/-- `main`: conditional jump, internal call with return site, extern call, indirect jump with two
hints, return; `helper`: two returning blocks; `empty`: no blocks. -/
def prog : Program :=
  { subs := [
      ⟨⟨"empty", "UNKNOWN"⟩, { name := "empty", blocks := [] }⟩,
      ⟨⟨"helper", "UNKNOWN"⟩, { name := "helper", blocks := [
        blk "h0" [jmp "h0j0" (.CBranch ⟨"h1", "UNKNOWN"⟩ zf), jmp "h0j1" (.Return rax)],
        blk "h1" [jmp "h1j0" (.Return rax)]] }⟩,
      ⟨⟨"main", "UNKNOWN"⟩, { name := "main", blocks := [
        blk "m0" [jmp "m0j0" (.CBranch ⟨"m1", "UNKNOWN"⟩ zf), jmp "m0j1" (.Branch ⟨"m2", "UNKNOWN"⟩)],
        blk "m1" [jmp "m1j0" (.Call ⟨"helper", "UNKNOWN"⟩ (some ⟨"m2", "UNKNOWN"⟩))],
        blk "m2" [jmp "m2j0" (.Call ⟨"ext", "UNKNOWN"⟩ (some ⟨"m3", "UNKNOWN"⟩))],
        blk "m3" [jmp "m3j0" (.BranchInd rax)] ["m0", "m4"],
        blk "m4" [jmp "m4j0" (.Call ⟨"empty", "UNKNOWN"⟩ none)],
        blk "m5" [jmp "m5j0" (.Return rax)]] }⟩],
    externSymbols := [
      { tid := ⟨"ext", "UNKNOWN"⟩, addresses := [], name := "ext", callingConvention := none,
        parameters := [], returnValues := [], noReturn := false, hasVarArgs := false }],
    entryPoints := [⟨"main", "UNKNOWN"⟩] }

example : WellFormedNormalized prog := by decide

/-- 8 pairs → 16 block nodes, one internal call with an entry → 1 `CallSource`, two returning blocks of
`helper` × one returning call → 2 `CallReturn`; 8 Block + 1+2+2 jump + 1 stub + 2 call + 6 return edges. -/
example : (specNodes prog).length = 19 ∧ (specEdges prog).length = 22 := by decide

example : (match buildCfgE prog with
    | .ok g => (g.nodes.length, g.edges.length)
    | .error _ => (0, 0)) = (19, 22) := by decide
end Example

end CweModel.C08
