/-
C19 — property theorems. Statement of the property:

  For every set of disjoint memory segments and every address and size, a read returns the
  bytes stored at that address (in the image's byte order) exactly when the whole range lies in
  one read-only segment, reports 'unknown content' when it lies in one writable segment, and
  fails otherwise. A string read at any address inside a read-only segment returns the
  NUL-terminated string stored there, and writability/readability queries report the flags of
  the segment containing the address.
-/
import CweModel.C19.Model

namespace CweModel.C19

/-! ### helper lemmas -/

theorem containsRange_iff (s : Seg) (addr size : Nat) :
    s.containsRange addr size = true ↔ s.hasRange addr size := by
  simp only [Seg.containsRange, Seg.hasRange, Bool.and_eq_true, decide_eq_true_eq]
  omega

theorem containsAddr_iff (s : Seg) (a : Nat) : s.containsAddr a = true ↔ s.has a := by
  simp only [Seg.containsAddr, Seg.has, Bool.and_eq_true, decide_eq_true_eq, ge_iff_le]

theorem pieceBytes_foldl (bs : List Nat) (acc : Nat) :
    bs.foldl (fun acc b => acc * 256 + b) acc = acc * 256 ^ bs.length + pieceBytes bs := by
  induction bs generalizing acc with
  | nil => simp [pieceBytes]
  | cons b bs ih =>
    have h0 : pieceBytes (b :: bs) = (0 * 256 + b) * 256 ^ bs.length + pieceBytes bs := by
      rw [pieceBytes, List.foldl_cons]; exact ih _
    simp only [List.foldl_cons, List.length_cons]
    rw [ih, h0]
    simp [Nat.pow_succ, Nat.add_mul, Nat.mul_assoc, Nat.add_assoc, Nat.mul_comm 256]

theorem pieceBytes_cons (b : Nat) (bs : List Nat) :
    pieceBytes (b :: bs) = b * 256 ^ bs.length + pieceBytes bs := by
  rw [pieceBytes, List.foldl_cons, pieceBytes_foldl]; simp

theorem pieceBytes_append_single (bs : List Nat) (b : Nat) :
    pieceBytes (bs ++ [b]) = pieceBytes bs * 256 + b := by
  simp [pieceBytes, List.foldl_append]

/-- the bytes `[addr, addr+n)` of a segment as a list -/
theorem take_drop_succ (s : Seg) (addr n : Nat) (h1 : s.base ≤ addr) (h2 : addr + (n + 1) ≤ s.endAddr) :
    (s.bytes.drop (addr - s.base)).take (n + 1)
      = s.byteAt addr :: (s.bytes.drop (addr + 1 - s.base)).take n := by
  have hlen : addr - s.base < s.bytes.length := by simp [Seg.endAddr] at h2; omega
  rw [List.drop_eq_getElem_cons hlen, List.take_succ_cons]
  have : addr + 1 - s.base = addr - s.base + 1 := by omega
  rw [this]
  simp [Seg.byteAt, List.getD_eq_getElem?_getD, hlen]

theorem length_take_drop (s : Seg) (addr n : Nat) (h1 : s.base ≤ addr) (h2 : addr + n ≤ s.endAddr) :
    ((s.bytes.drop (addr - s.base)).take n).length = n := by
  simp [Seg.endAddr] at h2
  simp; omega

theorem value_be (s : Seg) (addr n : Nat) (h1 : s.base ≤ addr) (h2 : addr + n ≤ s.endAddr) :
    pieceBytes ((s.bytes.drop (addr - s.base)).take n) = valueAt s false addr n := by
  induction n generalizing addr with
  | zero => simp [pieceBytes, valueAt]
  | succ n ih =>
    rw [take_drop_succ s addr n h1 h2, pieceBytes_cons, valueAt]
    rw [length_take_drop s (addr + 1) n (by omega) (by omega)]
    rw [ih (addr + 1) (by omega) (by omega)]
    simp

theorem value_le (s : Seg) (addr n : Nat) (h1 : s.base ≤ addr) (h2 : addr + n ≤ s.endAddr) :
    pieceBytes ((s.bytes.drop (addr - s.base)).take n).reverse = valueAt s true addr n := by
  induction n generalizing addr with
  | zero => simp [pieceBytes, valueAt]
  | succ n ih =>
    rw [take_drop_succ s addr n h1 h2, List.reverse_cons, pieceBytes_append_single, valueAt]
    rw [ih (addr + 1) (by omega) (by omega)]
    simp; omega

theorem model_value (s : Seg) (le : Bool) (addr size : Nat) (h : s.hasRange addr size) :
    pieceBytes (if le then ((s.bytes.drop (addr - s.base)).take size).reverse
                else (s.bytes.drop (addr - s.base)).take size) = valueAt s le addr size := by
  cases le
  · simpa using value_be s addr size h.1 h.2
  · simpa using value_le s addr size h.1 h.2

/-- in a pairwise-disjoint list two segments sharing an address are the same segment -/
theorem disjoint_unique {segs : List Seg} (hd : Disjoint segs) {s t : Seg} (hs : s ∈ segs)
    (ht : t ∈ segs) {a : Nat} (hsa : s.has a) (hta : t.has a) : s = t := by
  induction segs with
  | nil => cases hs
  | cons u us ih =>
    rw [Disjoint, List.pairwise_cons] at hd
    have key : ∀ v ∈ us, v.has a → u.has a → False := by
      intro v hv hva hua
      have := hd.1 v hv
      simp only [Seg.disjoint, Seg.has] at *
      omega
    rcases List.mem_cons.mp hs with rfl | hs' <;> rcases List.mem_cons.mp ht with rfl | ht'
    · rfl
    · exact (key t ht' hta hsa).elim
    · exact (key s hs' hsa hta).elim
    · exact ih hd.2 hs' ht'

theorem hasRange_has {s : Seg} {addr size : Nat} (h : s.hasRange addr size) (hpos : 0 < size) :
    s.has addr := by
  simp only [Seg.hasRange, Seg.has] at *; omega

theorem find_containsAddr {segs : List Seg} (hd : Disjoint segs) {s : Seg} (hs : s ∈ segs)
    {a : Nat} (hsa : s.has a) : segs.find? (fun t => t.containsAddr a) = some s := by
  cases hf : segs.find? (fun t => t.containsAddr a) with
  | none =>
    rw [List.find?_eq_none] at hf
    exact absurd ((containsAddr_iff s a).mpr hsa) (hf s hs)
  | some t =>
    have ht := List.mem_of_find?_eq_some hf
    have hta := (containsAddr_iff t a).mp (List.find?_some (p := fun t : Seg => t.containsAddr a) hf)
    rw [disjoint_unique hd hs ht hsa hta]

/-! ### `read` -/

/-- **C19-read.** The model of `read` satisfies the declarative specification: the value of the
bytes in image order iff the whole range lies in one read-only segment, `unknown` iff in one
writable segment, failure iff in no segment. -/
theorem read_satisfies_spec (segs : List Seg) (le : Bool) (addr size : Nat) :
    ReadSpec segs le addr size (read segs le addr size) := by
  unfold read
  cases hf : segs.find? (fun s => s.containsRange addr size) with
  | none =>
    rw [List.find?_eq_none] at hf
    exact .fail (fun s hs h => hf s hs ((containsRange_iff s addr size).mpr h))
  | some s =>
    have hs := List.mem_of_find?_eq_some hf
    have hr := (containsRange_iff s addr size).mp (List.find?_some (p := fun t : Seg => t.containsRange addr size) hf)
    cases hw : s.w with
    | true => simpa [hw] using ReadSpec.unknown s hs hr hw
    | false =>
      simp only [hw, Bool.false_eq_true, if_false]
      rw [model_value s le addr size hr]
      exact ReadSpec.value s hs hr hw

/-- **C19-read-exactly.** For disjoint segments and a non-empty range the specification admits
exactly one answer, so `read_satisfies_spec` determines the result ("exactly when"). -/
theorem readSpec_functional {segs : List Seg} (hd : Disjoint segs) {le : Bool} {addr size : Nat}
    (hpos : 0 < size) {r₁ r₂ : Res (Option Nat)}
    (h₁ : ReadSpec segs le addr size r₁) (h₂ : ReadSpec segs le addr size r₂) : r₁ = r₂ := by
  have uniq : ∀ {s t : Seg}, s ∈ segs → t ∈ segs → s.hasRange addr size → t.hasRange addr size → s = t :=
    fun hs ht hsr htr => disjoint_unique hd hs ht (hasRange_has hsr hpos) (hasRange_has htr hpos)
  cases h₁ with
  | value s hs hr hw =>
    cases h₂ with
    | value t ht hr' _ => rw [uniq hs ht hr hr']
    | unknown t ht hr' hw' => rw [uniq hs ht hr hr'] at hw; simp [hw] at hw'
    | fail h => exact absurd hr (h s hs)
  | unknown s hs hr hw =>
    cases h₂ with
    | value t ht hr' hw' => rw [uniq hs ht hr hr'] at hw; simp [hw] at hw'
    | unknown _ _ _ _ => rfl
    | fail h => exact absurd hr (h s hs)
  | fail h =>
    cases h₂ with
    | value t ht hr' _ => exact absurd hr' (h t ht)
    | unknown t ht hr' _ => exact absurd hr' (h t ht)
    | fail _ => rfl

/-- the executable specification used on implementation outputs is the declarative one -/
theorem specRead_satisfies_spec (segs : List Seg) (le : Bool) (addr size : Nat) :
    ReadSpec segs le addr size (specRead segs le addr size) := by
  unfold specRead
  cases hf : segs.filter (fun s => decide (s.base ≤ addr) && decide (addr + size ≤ s.endAddr)) with
  | nil =>
    refine .fail (fun s hs h => ?_)
    have : s ∈ segs.filter (fun s => decide (s.base ≤ addr) && decide (addr + size ≤ s.endAddr)) := by
      simp [List.mem_filter, hs, h.1, h.2]
    rw [hf] at this; cases this
  | cons s rest =>
    have hm : s ∈ segs.filter (fun s => decide (s.base ≤ addr) && decide (addr + size ≤ s.endAddr)) := by
      rw [hf]; exact List.mem_cons_self
    rw [List.mem_filter] at hm
    have hr : s.hasRange addr size := by simpa [Seg.hasRange] using hm.2
    cases hw : s.w with
    | true => simpa [hw] using ReadSpec.unknown s hm.1 hr hw
    | false => simpa [hw] using ReadSpec.value s hm.1 hr hw

/-- **C19-read-eq.** model = executable specification, for every layout -/
theorem read_eq_specRead {segs : List Seg} (hd : Disjoint segs) (le : Bool) (addr size : Nat)
    (hpos : 0 < size) : read segs le addr size = specRead segs le addr size :=
  readSpec_functional hd hpos (read_satisfies_spec ..) (specRead_satisfies_spec ..)

/-- `is_global_memory_address` answers whether the constant's own bytes range lies in a segment -/
theorem isGlobal_iff (segs : List Seg) (le : Bool) (addr size : Nat) :
    isGlobalMemoryAddress segs le addr size = true ↔ ∃ s ∈ segs, s.hasRange addr size := by
  unfold isGlobalMemoryAddress
  have h := read_satisfies_spec segs le addr size
  cases hr : read segs le addr size with
  | ok v =>
    rw [hr] at h
    cases h with
    | value s hs hrg _ => simp; exact ⟨s, hs, hrg⟩
    | unknown s hs hrg _ => simp; exact ⟨s, hs, hrg⟩
  | err =>
    rw [hr] at h
    cases h with
    | fail hn => simp; exact fun s hs => hn s hs

/-! ### flag queries -/

/-- **C19-flags.** `is_address_writeable` reports the write flag of the segment containing the
address, and fails iff no segment contains it. -/
theorem isAddressWriteable_spec {segs : List Seg} (hd : Disjoint segs) (a : Nat) :
    (∀ s ∈ segs, s.has a → isAddressWriteable segs a = .ok s.w) ∧
    ((∀ s ∈ segs, ¬ s.has a) → isAddressWriteable segs a = .err) := by
  constructor
  · intro s hs hsa
    simp [isAddressWriteable, find_containsAddr hd hs hsa]
  · intro hn
    have : segs.find? (fun t => t.containsAddr a) = none := by
      rw [List.find?_eq_none]; intro t ht hc; exact hn t ht ((containsAddr_iff t a).mp hc)
    simp [isAddressWriteable, this]

/-- **C19-interval-flags.** interval queries report the flag of the segment containing the start
address if the interval end does not leave it, and fail otherwise. -/
theorem intervalFlag_spec {segs : List Seg} (hd : Disjoint segs) (flag : Seg → Bool) (a e : Nat) :
    (∀ s ∈ segs, s.has a → e ≤ s.endAddr → intervalFlag flag segs a e = .ok (flag s)) ∧
    (∀ s ∈ segs, s.has a → s.endAddr < e → intervalFlag flag segs a e = .err) ∧
    ((∀ s ∈ segs, ¬ s.has a) → intervalFlag flag segs a e = .err) := by
  refine ⟨?_, ?_, ?_⟩
  · intro s hs hsa he
    simp [intervalFlag, find_containsAddr hd hs hsa, he]
  · intro s hs hsa he
    have : ¬ e ≤ s.endAddr := by omega
    simp [intervalFlag, find_containsAddr hd hs hsa, this]
  · intro hn
    have : segs.find? (fun t => t.containsAddr a) = none := by
      rw [List.find?_eq_none]; intro t ht hc; exact hn t ht ((containsAddr_iff t a).mp hc)
    simp [intervalFlag, this]

/-- **C19-ro-pointer.** -/
theorem roDataPointer_spec {segs : List Seg} (hd : Disjoint segs) (a : Nat) :
    (∀ s ∈ segs, s.has a → roDataPointer segs a = if s.w then .err else .ok (s, a - s.base)) ∧
    ((∀ s ∈ segs, ¬ s.has a) → roDataPointer segs a = .err) := by
  constructor
  · intro s hs hsa
    simp [roDataPointer, find_containsAddr hd hs hsa]
  · intro hn
    have : segs.find? (fun t => t.containsAddr a) = none := by
      rw [List.find?_eq_none]; intro t ht hc; exact hn t ht ((containsAddr_iff t a).mp hc)
    simp [roDataPointer, this]

/-! ### string read -/

theorem nulPos_spec (bs : List Nat) (k : Nat) (hk : k < bs.length)
    (hz : bs.getD k 1 = 0) (hnz : ∀ j < k, bs.getD j 0 ≠ 0) : nulPos bs = some k := by
  induction bs generalizing k with
  | nil => simp at hk
  | cons b bs ih =>
    cases k with
    | zero =>
      simp at hz
      simp [nulPos, hz]
    | succ k =>
      have hb : b ≠ 0 := by simpa using hnz 0 (by omega)
      have := ih k (by simpa using hk) (by simpa using hz)
        (fun j hj => by simpa using hnz (j + 1) (by omega))
      simp [nulPos, hb, this]

/-- **C19-string.** A string read at any address `a` inside a segment `s` (in particular inside
a read-only one), such that the first NUL at or after `a` within the segment is at `a + k` and
the bytes before it are valid UTF-8, returns exactly the bytes `[a, a+k)` of the segment — also
when another segment ends exactly at `a` (adjacent segments). -/
theorem readString_spec {segs : List Seg} (hd : Disjoint segs) (valid : List Nat → Bool)
    {s : Seg} (hs : s ∈ segs) {a k : Nat} (hsa : s.has a) (hk : a + k < s.endAddr)
    (hz : s.byteAt (a + k) = 0) (hnz : ∀ j < k, s.byteAt (a + j) ≠ 0)
    (hv : valid ((s.bytes.drop (a - s.base)).take k) = true) :
    readString valid segs a = .ok ((s.bytes.drop (a - s.base)).take k) := by
  have hb : s.base ≤ a := hsa.1
  have hlen : a + k - s.base < s.bytes.length := by simp [Seg.endAddr] at hk; omega
  have hnul : nulPos (s.bytes.drop (a - s.base)) = some k := by
    apply nulPos_spec
    · simp; omega
    · have : a - s.base + k = a + k - s.base := by omega
      simp only [Seg.byteAt, List.getD_eq_getElem?_getD] at hz
      simp only [List.getD_eq_getElem?_getD, List.getElem?_drop, this]
      rw [List.getElem?_eq_getElem hlen] at hz ⊢
      simpa using hz
    · intro j hj
      have h := hnz j hj
      have : a - s.base + j = a + j - s.base := by omega
      simp only [Seg.byteAt] at h
      simpa [List.getD_eq_getElem?_getD, List.getElem?_drop, this] using h
  simp [readString, find_containsAddr hd hs hsa, hnul, hv]

/-- a string read outside every segment fails -/
theorem readString_outside {segs : List Seg} (valid : List Nat → Bool) (a : Nat)
    (hn : ∀ s ∈ segs, ¬ s.has a) : readString valid segs a = .err := by
  have : segs.find? (fun t => t.containsAddr a) = none := by
    rw [List.find?_eq_none]; intro t ht hc; exact hn t ht ((containsAddr_iff t a).mp hc)
  simp [readString, this]

/-! ### global offset -/

/-- **C19-offset.** shifting all segments shifts all queries -/
theorem read_addOffset (segs : List Seg) (le : Bool) (addr size off : Nat) :
    read (addOffset segs off) le (addr + off) size = read segs le addr size := by
  induction segs with
  | nil => simp [addOffset, read]
  | cons s rest ih =>
    have hc : Seg.containsRange { s with base := s.base + off } (addr + off) size
        = s.containsRange addr size := by
      rw [Bool.eq_iff_iff, containsRange_iff, containsRange_iff]
      simp only [Seg.hasRange, Seg.endAddr]
      omega
    simp only [addOffset, List.map_cons, read, List.find?_cons] at ih ⊢
    rw [hc]
    cases s.containsRange addr size with
    | true =>
      have : addr + off - (s.base + off) = addr - s.base := by omega
      simp [this]
    | false => simpa using ih

theorem addOffset_disjoint {segs : List Seg} (hd : Disjoint segs) (off : Nat) :
    Disjoint (addOffset segs off) := by
  unfold Disjoint addOffset at *
  rw [List.pairwise_map]
  refine hd.imp ?_
  intro a b h
  simp only [Seg.disjoint, Seg.endAddr] at *
  omega

/-! ### non-vacuity: a concrete adjacent-segment layout meets the hypotheses -/

def exSegs : List Seg :=
  [ { base := 0x1000, bytes := [1, 2, 3, 4], r := true, w := false, x := false },
    { base := 0x1004, bytes := [0x78, 0x79, 0], r := true, w := false, x := false },
    { base := 0x2000, bytes := [9, 9], r := true, w := true, x := false } ]

example : Disjoint exSegs := by
  simp [Disjoint, exSegs, Seg.disjoint, Seg.endAddr]
example : read exSegs true 0x1001 2 = .ok (some 0x0302) := by decide
example : read exSegs false 0x1001 2 = .ok (some 0x0203) := by decide
example : read exSegs true 0x1003 2 = .err := by decide          -- straddles two segments
example : read exSegs true 0x2000 2 = .ok none := by decide
example : readString (fun _ => true) exSegs 0x1004 = .ok [0x78, 0x79] := by decide

end CweModel.C19
