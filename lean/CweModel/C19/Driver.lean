/- C19 model driver: executes the model and the executable specification on harness cases. -/
import CweModel.Base.Proto
import CweModel.C19.Model
import CweModel.C19.Loader
open Lean CweModel.Proto

namespace CweModel.C19

def utf8Valid (bs : List Nat) : Bool :=
  ByteArray.validateUTF8 ⟨(bs.map (fun b => UInt8.ofNat b)).toArray⟩

def parseSeg (j : Json) : Except String Seg := do
  return { base := ← natF j "b", bytes := ← hexBytes (← strF j "d"),
           r := ← boolF j "r", w := ← boolF j "w", x := ← boolF j "x" }

def disjointB : List Seg → Bool
  | [] => true
  | s :: rest => rest.all (fun t => decide (s.endAddr ≤ t.base) || decide (t.endAddr ≤ s.base)) && disjointB rest

def showRead : Res (Option Nat) → String
  | .ok (some v) => s!"some:{v}"
  | .ok none => "none"
  | .err => "err"

def showBool : Res Bool → String
  | .ok b => toString b
  | .err => "err"

def verdict (cls impl model : String) (spec : Option String) : String :=
  match spec with
  | some e =>
    if impl != e then s!"spec class={cls} expected={e} impl={impl} model={model}"
    else if impl != model then s!"diff class={cls} model={model} impl={impl}"
    else s!"ok {cls} constrained"
  | none =>
    if impl != model then s!"diff class={cls} model={model} impl={impl}" else s!"ok {cls} modelonly"

def segStr (s : Seg) : String :=
  let b (x : Bool) := if x then "1" else "0"
  s!"{s.base}:{bytesHex s.bytes}:{b s.r}{b s.w}{b s.x}"

def showSegO : Option Seg → String
  | some s => segStr s
  | none => "panic"

/-- constructor cases: the model IS the specification of the byte/flag layout (see `Props`); the
verdict is `spec` on any difference, because every theorem about the constructors is about this model -/
def handleCtor (j : Json) (q : String) : Except String String := do
  let bin ← hexBytes (← strF j "bin")
  let impl ← strF j "impl"
  let m ← match q with
    | "elfseg" => pure (showSegO (fromElfSegment bin (← natF j "off") (← natF j "filesz") (← natF j "vaddr")
        (← natF j "memsz") (← natF j "flags")))
    | "elfsec" => pure (showSegO (fromElfSection bin (← natF j "base") (← natF j "shtype") (← natF j "flags")
        (← natF j "off") (← natF j "size") (← natF j "align")))
    | "pesec" => pure (showSegO (fromPeSection bin (← natF j "rawptr") (← natF j "rawsize") (← natF j "vsize")
        (← natF j "vaddr") (← natF j "chars")))
    | "hex" => pure (match parseHexStringToU64 (← strF j "s") with
        | some x => s!"ok:{x}"
        | none => "err")
    | "bare" =>
      let cfg : BareMetalConfig := { processorId := ← strF j "pid", flashBase := ← strF j "flash",
                                     ramBase := ← strF j "ram", ramSize := ← strF j "ramsize" }
      pure (match newFromBareMetal bin cfg with
        | .ok (segs, le) => s!"ok:{if le then 1 else 0}:0:{String.intercalate ";" (segs.map segStr)}"
        | .err => "err")
    | _ => throw s!"unknown ctor {q}"
  if impl == m then return s!"ok ctor-{q}"
  else return s!"spec class=ctor-{q} expected={m} impl={impl}"

def handleE (line : String) : Except String String := do
  let j ← Json.parse line
  let q ← strF j "q"
  if (optF j "bin").isSome then return ← handleCtor j q
  let le ← boolF j "le"
  let segs0 ← mapM' parseSeg (← arrF j "segs")
  let off := (natF j "off").toOption.getD 0
  let segs := addOffset segs0 off
  let a ← natF j "a"
  let n := (natF j "n").toOption.getD 0
  let impl ← strF j "impl"
  let dj := disjointB segs
  let inside := segs.filter (fun s => decide (s.base ≤ a) && decide (a < s.endAddr))
  let edge := if (segs.any (fun s => s.endAddr == a)) then "adjacent" else "plain"
  match q with
  | "read" =>
    let m := showRead (read segs le a n)
    let sp := if dj && n > 0 then some (showRead (specRead segs le a n)) else none
    return verdict s!"read-{edge}" impl m sp
  | "glob" =>
    let m := toString (isGlobalMemoryAddress segs le a n)
    let sp := if dj && n > 0 then
        some (toString (segs.any (fun s => decide (s.base ≤ a) && decide (a + n ≤ s.endAddr)))) else none
    return verdict s!"glob-{edge}" impl m sp
  | "str" =>
    let m := match readString utf8Valid segs a with
      | .ok bs => "ok:" ++ bytesHex bs
      | .err => "err"
    -- executable form of `readString_spec`: unique containing segment, NUL inside it, valid UTF-8
    let sp := match dj, inside with
      | true, [s] =>
        let rest := s.bytes.drop (a - s.base)
        match nulPos rest with
        | some k => if utf8Valid (rest.take k) then some ("ok:" ++ bytesHex (rest.take k)) else none
        | none => none
      | true, [] => some "err"
      | _, _ => none
    return verdict s!"str-{edge}" impl m sp
  | "w" =>
    let m := showBool (isAddressWriteable segs a)
    let sp := if dj then some (showBool (specFlagAt (·.w) segs a)) else none
    return verdict s!"w-{edge}" impl m sp
  | "ir" =>
    let m := showBool (isIntervalReadable segs a n)
    let sp := match dj, inside with
      | true, [s] => some (if n ≤ s.endAddr then toString s.r else "err")
      | true, [] => some "err"
      | _, _ => none
    return verdict s!"ir-{edge}" impl m sp
  | "iw" =>
    let m := showBool (isIntervalWriteable segs a n)
    let sp := match dj, inside with
      | true, [s] => some (if n ≤ s.endAddr then toString s.w else "err")
      | true, [] => some "err"
      | _, _ => none
    return verdict s!"iw-{edge}" impl m sp
  | "ro" =>
    let m := match roDataPointer segs a with
      | .ok (s, i) => s!"ok:{s.base}:{i}"
      | .err => "err"
    let sp := match dj, inside with
      | true, [s] => some (if s.w then "err" else s!"ok:{s.base}:{a - s.base}")
      | true, [] => some "err"
      | _, _ => none
    return verdict s!"ro-{edge}" impl m sp
  | _ => throw s!"unknown query {q}"

end CweModel.C19

def main : IO Unit := CweModel.Proto.runDriver (CweModel.Proto.guarded CweModel.C19.handleE)
