/- C19 model driver: executes the model and the executable specification on harness cases. -/
import CweModel.Base.Proto
import CweModel.C19.Model
open Lean CweModel.Proto

namespace CweModel.C19

def utf8Valid (bs : List Nat) : Bool :=
  ByteArray.validateUTF8 ⟨(bs.map (fun b => UInt8.ofNat b)).toArray⟩

def parseSeg (j : Json) : Except String Seg := do
  return { base := ← natF j "b", bytes := ← hexBytes (← strF j "d"),
           r := ← boolF j "r", w := ← boolF j "w", x := ← boolF j "x" }

def disjointB : List Seg → Bool
  | [] => true
  | s :: rest => rest.all (fun t => decide (s.endAddr ≤ t.base) || decide (t.endAddr ≤ s.base)) && disjointB rest

def showRead : Res (Option Nat) → String
  | .ok (some v) => s!"some:{v}"
  | .ok none => "none"
  | .err => "err"

def showBool : Res Bool → String
  | .ok b => toString b
  | .err => "err"

def verdict (cls impl model : String) (spec : Option String) : String :=
  match spec with
  | some e =>
    if impl != e then s!"spec class={cls} expected={e} impl={impl} model={model}"
    else if impl != model then s!"diff class={cls} model={model} impl={impl}"
    else s!"ok {cls} constrained"
  | none =>
    if impl != model then s!"diff class={cls} model={model} impl={impl}" else s!"ok {cls} modelonly"

def handleE (line : String) : Except String String := do
  let j ← Json.parse line
  let q ← strF j "q"
  let le ← boolF j "le"
  let segs0 ← mapM' parseSeg (← arrF j "segs")
  let off := (natF j "off").toOption.getD 0
  let segs := addOffset segs0 off
  let a ← natF j "a"
  let n := (natF j "n").toOption.getD 0
  let impl ← strF j "impl"
  let dj := disjointB segs
  let inside := segs.filter (fun s => decide (s.base ≤ a) && decide (a < s.endAddr))
  let edge := if (segs.any (fun s => s.endAddr == a)) then "adjacent" else "plain"
  match q with
  | "read" =>
    let m := showRead (read segs le a n)
    let sp := if dj && n > 0 then some (showRead (specRead segs le a n)) else none
    return verdict s!"read-{edge}" impl m sp
  | "glob" =>
    let m := toString (isGlobalMemoryAddress segs le a n)
    let sp := if dj && n > 0 then
        some (toString (segs.any (fun s => decide (s.base ≤ a) && decide (a + n ≤ s.endAddr)))) else none
    return verdict s!"glob-{edge}" impl m sp
  | "str" =>
    let m := match readString utf8Valid segs a with
      | .ok bs => "ok:" ++ bytesHex bs
      | .err => "err"
    -- executable form of `readString_spec`: unique containing segment, NUL inside it, valid UTF-8
    let sp := match dj, inside with
      | true, [s] =>
        let rest := s.bytes.drop (a - s.base)
        match nulPos rest with
        | some k => if utf8Valid (rest.take k) then some ("ok:" ++ bytesHex (rest.take k)) else none
        | none => none
      | true, [] => some "err"
      | _, _ => none
    return verdict s!"str-{edge}" impl m sp
  | "w" =>
    let m := showBool (isAddressWriteable segs a)
    let sp := if dj then some (showBool (specFlagAt (·.w) segs a)) else none
    return verdict s!"w-{edge}" impl m sp
  | "ir" =>
    let m := showBool (isIntervalReadable segs a n)
    let sp := match dj, inside with
      | true, [s] => some (if n ≤ s.endAddr then toString s.r else "err")
      | true, [] => some "err"
      | _, _ => none
    return verdict s!"ir-{edge}" impl m sp
  | "iw" =>
    let m := showBool (isIntervalWriteable segs a n)
    let sp := match dj, inside with
      | true, [s] => some (if n ≤ s.endAddr then toString s.w else "err")
      | true, [] => some "err"
      | _, _ => none
    return verdict s!"iw-{edge}" impl m sp
  | "ro" =>
    let m := match roDataPointer segs a with
      | .ok (s, i) => s!"ok:{s.base}:{i}"
      | .err => "err"
    let sp := match dj, inside with
      | true, [s] => some (if s.w then "err" else s!"ok:{s.base}:{a - s.base}")
      | true, [] => some "err"
      | _, _ => none
    return verdict s!"ro-{edge}" impl m sp
  | _ => throw s!"unknown query {q}"

end CweModel.C19

def main : IO Unit := CweModel.Proto.runDriver (CweModel.Proto.guarded CweModel.C19.handleE)
