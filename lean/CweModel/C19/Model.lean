/-
C19 — model of `RuntimeMemoryImage` queries
(`src/cwe_checker_lib/src/intermediate_representation/runtime_memory_image.rs`).

Every function mirrors the Rust function of the same name line by line: a `for segment in
self.memory_segments.iter()` loop with an early `return` becomes `List.find?` on the loop
condition followed by the loop body. u64 arithmetic is modelled in `Nat` under the
precondition `NoOverflow` (`base + len < 2^64`), which is what `goblin`-loaded images satisfy
and what the harness generates.
-/
namespace CweModel.C19

structure Seg where
  base  : Nat
  bytes : List Nat          -- each < 256
  r : Bool
  w : Bool
  x : Bool
deriving Repr, DecidableEq

def Seg.endAddr (s : Seg) : Nat := s.base + s.bytes.length

/-- result of a query: `Err` models `Err(anyhow!(..))` -/
inductive Res (α : Type) where
  | ok  : α → Res α
  | err : Res α
deriving Repr, DecidableEq

/-- loop condition of `read`:
`address >= base && size <= base + len && address <= base + len - size` -/
def Seg.containsRange (s : Seg) (addr size : Nat) : Bool :=
  decide (addr ≥ s.base) && decide (size ≤ s.endAddr) && decide (addr ≤ s.endAddr - size)

/-- loop condition of the flag / pointer queries: `address >= base && address < base + len` -/
def Seg.containsAddr (s : Seg) (addr : Nat) : Bool :=
  decide (addr ≥ s.base) && decide (addr < s.endAddr)

/-- `bitvector = from_u8(b0); for b in rest { bitvector = Piece(bitvector, b) }`:
the first byte ends up most significant. -/
def pieceBytes (bs : List Nat) : Nat := bs.foldl (fun acc b => acc * 256 + b) 0

/-- `RuntimeMemoryImage::read`; `ok none` is the "writeable, content unknown" answer. -/
def read (segs : List Seg) (le : Bool) (addr size : Nat) : Res (Option Nat) :=
  match segs.find? (fun s => s.containsRange addr size) with
  | none => .err
  | some s =>
    if s.w then .ok none
    else
      let idx := addr - s.base
      let bytes := (s.bytes.drop idx).take size
      let bytes := if le then bytes.reverse else bytes
      .ok (some (pieceBytes bytes))

/-- `is_global_memory_address(c)` = `read(c, c.bytesize()).is_ok()` -/
def isGlobalMemoryAddress (segs : List Seg) (le : Bool) (addr size : Nat) : Bool :=
  match read segs le addr size with
  | .ok _ => true
  | .err => false

/-- position of the first NUL byte -/
def nulPos : List Nat → Option Nat
  | [] => none
  | b :: bs => if b = 0 then some 0 else (nulPos bs).map (· + 1)

/-- `read_string_until_null_terminator` (after the `fix:` commit: the segment test is
`address < base + len`). Returns the bytes before the NUL; UTF-8 validation is a parameter
(`CStr::to_str`). -/
def readString (utf8Valid : List Nat → Bool) (segs : List Seg) (addr : Nat) : Res (List Nat) :=
  match segs.find? (fun s => s.containsAddr addr) with
  | none => .err
  | some s =>
    let rest := s.bytes.drop (addr - s.base)
    match nulPos rest with
    | none => .err
    | some e =>
      let str := rest.take e
      if utf8Valid str then .ok str else .err

def isAddressWriteable (segs : List Seg) (addr : Nat) : Res Bool :=
  match segs.find? (fun s => s.containsAddr addr) with
  | none => .err
  | some s => .ok s.w

/-- shared shape of `is_interval_readable` / `is_interval_writeable` -/
def intervalFlag (flag : Seg → Bool) (segs : List Seg) (startA endA : Nat) : Res Bool :=
  match segs.find? (fun s => s.containsAddr startA) with
  | none => .err
  | some s => if endA ≤ s.endAddr then .ok (flag s) else .err

def isIntervalReadable := intervalFlag (·.r)
def isIntervalWriteable := intervalFlag (·.w)

/-- `get_ro_data_pointer_at_address`: (segment, index) -/
def roDataPointer (segs : List Seg) (addr : Nat) : Res (Seg × Nat) :=
  match segs.find? (fun s => s.containsAddr addr) with
  | none => .err
  | some s => if s.w then .err else .ok (s, addr - s.base)

/-- `add_global_memory_offset` -/
def addOffset (segs : List Seg) (off : Nat) : List Seg :=
  segs.map (fun s => { s with base := s.base + off })

/-! ### Specification: the byte map induced by the segments -/

/-- two segments share no address -/
def Seg.disjoint (a b : Seg) : Prop := a.endAddr ≤ b.base ∨ b.endAddr ≤ a.base

def Disjoint (segs : List Seg) : Prop := segs.Pairwise Seg.disjoint

/-- `a` is an address of segment `s` -/
def Seg.has (s : Seg) (a : Nat) : Prop := s.base ≤ a ∧ a < s.endAddr

/-- the whole range `[addr, addr+size)` lies in `s` -/
def Seg.hasRange (s : Seg) (addr size : Nat) : Prop := s.base ≤ addr ∧ addr + size ≤ s.endAddr

/-- byte stored at address `a` of segment `s` -/
def Seg.byteAt (s : Seg) (a : Nat) : Nat := s.bytes.getD (a - s.base) 0

/-- value of the `size` bytes at `addr` in the image's byte order: little endian means the
byte at the lowest address is least significant. -/
def valueAt (s : Seg) (le : Bool) (addr : Nat) : Nat → Nat
  | 0 => 0
  | n + 1 =>
    if le then s.byteAt addr + 256 * valueAt s le (addr + 1) n
    else s.byteAt addr * 256 ^ n + valueAt s le (addr + 1) n

/-- Declarative specification of `read` (property C19, first sentence). -/
inductive ReadSpec (segs : List Seg) (le : Bool) (addr size : Nat) : Res (Option Nat) → Prop where
  | value (s : Seg) : s ∈ segs → s.hasRange addr size → s.w = false →
      ReadSpec segs le addr size (.ok (some (valueAt s le addr size)))
  | unknown (s : Seg) : s ∈ segs → s.hasRange addr size → s.w = true →
      ReadSpec segs le addr size (.ok none)
  | fail : (∀ s ∈ segs, ¬ s.hasRange addr size) → ReadSpec segs le addr size .err

/-- executable form of the specification, used by the driver on implementation outputs:
looks at ALL segments containing the range (for disjoint non-empty ranges there is at most one). -/
def specRead (segs : List Seg) (le : Bool) (addr size : Nat) : Res (Option Nat) :=
  match segs.filter (fun s => decide (s.base ≤ addr) && decide (addr + size ≤ s.endAddr)) with
  | [] => .err
  | s :: _ => if s.w then .ok none else .ok (some (valueAt s le addr size))

def specFlagAt (flag : Seg → Bool) (segs : List Seg) (addr : Nat) : Res Bool :=
  match segs.filter (fun s => decide (s.base ≤ addr) && decide (addr < s.endAddr)) with
  | [] => .err
  | s :: _ => .ok (flag s)

end CweModel.C19
