/-
C19 — model of the `MemorySegment` constructors (`utils/binary.rs`) and of
`RuntimeMemoryImage::new_from_bare_metal` (runtime_memory_image.rs). `none` models a panic of the
real code (slice out of bounds), `Res.err` an `Err(..)`.
-/
import CweModel.C19.Model

namespace CweModel.C19

/-- `&binary[a..b]`: panics if out of bounds -/
def slice (bin : List Nat) (a b : Nat) : Option (List Nat) :=
  if a ≤ b ∧ b ≤ bin.length then some ((bin.drop a).take (b - a)) else none

def satAdd64 (a b : Nat) : Nat := min (a + b) (2 ^ 64 - 1)

/-- `MemorySegment::from_elf_segment` (goblin `file_range`/`vm_range` use saturating additions) -/
def fromElfSegment (bin : List Nat) (off filesz vaddr memsz flags : Nat) : Option Seg := do
  let bytes ← slice bin off (satAdd64 off filesz)
  let vmLen := satAdd64 vaddr memsz - vaddr
  let fileLen := satAdd64 off filesz - off
  let bytes := if vmLen > fileLen then bytes ++ List.replicate (vmLen - bytes.length) 0 else bytes
  some { base := vaddr, bytes, r := flags &&& 4 != 0, w := flags &&& 2 != 0, x := flags &&& 1 != 0 }

def nextPowerOfTwo (n : Nat) : Nat := if n ≤ 1 then 1 else 2 ^ (Nat.log2 (n - 1) + 1)
def nextMultipleOf (a m : Nat) : Nat := if a % m = 0 then a else a + (m - a % m)

/-- `MemorySegment::from_elf_section` (`SHT_NOBITS` = 8, `SHF_WRITE` = 1, `SHF_ALLOC` = 2, `SHF_EXECINSTR` = 4) -/
def fromElfSection (bin : List Nat) (base shType shFlags shOffset shSize shAddralign : Nat) : Option Seg := do
  let bytes ← if shType = 8 then some (List.replicate shSize 0) else slice bin shOffset (satAdd64 shOffset shSize)
  let alloc := shFlags % 2 ^ 32 &&& 2 == 2
  some { base := nextMultipleOf base (nextPowerOfTwo shAddralign), bytes, r := true,
         w := alloc && (shFlags % 2 ^ 32 &&& 1 == 1), x := alloc && (shFlags % 2 ^ 32 &&& 4 == 4) }

/-- `MemorySegment::from_pe_section` -/
def fromPeSection (bin : List Nat) (rawPtr rawSize virtSize virtAddr characteristics : Nat) : Option Seg := do
  let bytes ← slice bin rawPtr (rawPtr + rawSize)
  let bytes := if virtSize > rawSize then bytes ++ List.replicate (virtSize - bytes.length) 0 else bytes
  some { base := virtAddr, bytes, r := characteristics &&& 0x40000000 != 0,
         w := characteristics &&& 0x80000000 != 0, x := characteristics &&& 0x20000000 != 0 }

def fromBareMetalFile (bin : List Nat) (base : Nat) : Seg := { base, bytes := bin, r := true, w := true, x := true }
def newBareMetalRamSegment (base size : Nat) : Seg :=
  { base, bytes := List.replicate size 0, r := true, w := true, x := false }

def hexDigitVal (c : Char) : Option Nat :=
  if '0' ≤ c ∧ c ≤ '9' then some (c.toNat - 48)
  else if 'a' ≤ c ∧ c ≤ 'f' then some (c.toNat - 87)
  else if 'A' ≤ c ∧ c ≤ 'F' then some (c.toNat - 55) else none

/-- `u64::from_str_radix(s, radix)`: optional leading `+`, at least one digit, no overflow -/
def parseU64 (radix : Nat) (s : List Char) : Option Nat :=
  let digits := match s with
    | '+' :: rest => rest
    | _ => s
  if digits.isEmpty then none else
  digits.foldl (fun acc c => do
    let a ← acc
    let d ← hexDigitVal c
    if d ≥ radix then none else
    let v := a * radix + d
    if v < 2 ^ 64 then some v else none) (some 0)

/-- `parse_hex_string_to_u64`: strips one leading "0x" -/
def parseHexStringToU64 (s : String) : Option Nat :=
  let cs := s.toList
  let cs := match cs with
    | '0' :: 'x' :: rest => rest
    | _ => cs
  parseU64 16 cs

structure BareMetalConfig where
  processorId : String
  flashBase : String
  ramBase : String
  ramSize : String

/-- `RuntimeMemoryImage::new_from_bare_metal`: (segments, little endian) or `err`.
`max_address >> address_bit_length` is a release-mode `u64` shift: the amount is taken modulo 64. -/
def newFromBareMetal (bin : List Nat) (cfg : BareMetalConfig) : Res (List Seg × Bool) :=
  let parts := cfg.processorId.splitOn ":"
  if parts.length < 3 then .err else
  let le? := match parts[1]! with
    | "LE" => some true
    | "BE" => some false
    | _ => none
  match le?, parseHexStringToU64 cfg.flashBase, parseHexStringToU64 cfg.ramBase,
        parseHexStringToU64 cfg.ramSize, parseU64 10 (parts[2]!).toList with
  | some le, some flash, some ram, some ramSize, some bits =>
    if flash + bin.length ≥ 2 ^ 64 then .err
    else if (flash + bin.length) >>> (bits % 64) != 0 then .err
    else .ok ([fromBareMetalFile bin flash, newBareMetalRamSegment ram ramSize], le)
  | _, _, _, _, _ => .err

end CweModel.C19
