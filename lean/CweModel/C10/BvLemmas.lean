/-
C10 — bit-vector facts behind the rewrite rules of `trivial_operation_substitution.rs`, stated on the
P-Code reference semantics `Ref.*` (Base/Bv.lean). Core-only.
-/
import CweModel.C10.SemLemmas

namespace CweModel.C10
open CweModel CweModel.IR

/-! ### rules for equal operands -/

theorem ref_idem {op : BinOpType} (hop : op = .IntAnd ∨ op = .IntOr ∨ op = .BoolAnd ∨ op = .BoolOr) (a : Bv) :
    Ref.binOp op a a = .val a := by
  obtain ⟨w, x⟩ := a
  rcases hop with h | h | h | h <;> subst h <;> simp [Ref.binOp, sameW, valV]

theorem ref_xor_self {op : BinOpType} (hop : op = .IntXOr ∨ op = .BoolXOr) (a : Bv) :
    Ref.binOp op a a = .val (Bv.ofNat a.w 0) := by
  obtain ⟨w, x⟩ := a
  rcases hop with h | h <;> subst h <;> simp [Ref.binOp, sameW, valV, Bv.ofNat]

theorem ref_cmp_self_true {op : BinOpType} (hop : op = .IntEqual ∨ op = .IntLessEqual ∨ op = .IntSLessEqual) (a : Bv) :
    Ref.binOp op a a = .val (Bv.ofBool true) := by
  obtain ⟨w, x⟩ := a
  rcases hop with h | h | h <;> subst h <;>
    simp [Ref.binOp, sameW, valB, Ref.eq, Ref.lessEq, Ref.slessEq]

theorem ref_cmp_self_false {op : BinOpType} (hop : op = .IntNotEqual ∨ op = .IntLess ∨ op = .IntSLess) (a : Bv) :
    Ref.binOp op a a = .val (Bv.ofBool false) := by
  obtain ⟨w, x⟩ := a
  rcases hop with h | h | h <;> subst h <;>
    simp [Ref.binOp, sameW, valB, Ref.eq, Ref.less, Ref.sless]

/-! ### rules with one constant operand -/

theorem bv_zero_of_toNat {w : Nat} {z : BitVec w} (h : z.toNat = 0) : z = 0#w :=
  BitVec.eq_of_toNat_eq (by simpa using h)

theorem bv_allOnes_of_toNat {w : Nat} {z : BitVec w} (h : z.toNat = 2 ^ w - 1) : z = BitVec.allOnes w :=
  BitVec.eq_of_toNat_eq (by simpa [BitVec.toNat_allOnes] using h)

/-- `0 | a = a`, `0 ^ a = a` -/
theorem ref_orxor_zero_left {op : BinOpType} (hop : op = .IntOr ∨ op = .IntXOr ∨ op = .BoolOr ∨ op = .BoolXOr)
    {z a v : Bv} (hz : z.toNat = 0) (h : Ref.binOp op z a = .val v) : v = a := by
  obtain ⟨zw, zv⟩ := z
  obtain ⟨w, x⟩ := a
  simp only [Bv.toNat] at hz
  rcases hop with e | e | e | e <;> subst e <;> simp only [Ref.binOp, sameW, valV] at h <;>
    (split at h
     · next hw =>
       subst hw
       injection h with h; subst h
       simp [bv_zero_of_toNat hz]
     · cases h)

theorem ref_orxor_zero_right {op : BinOpType} (hop : op = .IntOr ∨ op = .IntXOr ∨ op = .BoolOr ∨ op = .BoolXOr)
    {z a v : Bv} (hz : z.toNat = 0) (h : Ref.binOp op a z = .val v) : v = a := by
  obtain ⟨zw, zv⟩ := z
  obtain ⟨w, x⟩ := a
  simp only [Bv.toNat] at hz
  rcases hop with e | e | e | e <;> subst e <;> simp only [Ref.binOp, sameW, valV] at h <;>
    (split at h
     · next hw =>
       subst hw
       injection h with h; subst h
       simp [bv_zero_of_toNat hz]
     · cases h)

/-- `-1 & a = a` -/
theorem ref_and_ones_left {op : BinOpType} (hop : op = .IntAnd ∨ op = .BoolAnd)
    {z a v : Bv} (hz : z.toNat = 2 ^ z.w - 1) (h : Ref.binOp op z a = .val v) : v = a := by
  obtain ⟨zw, zv⟩ := z
  obtain ⟨w, x⟩ := a
  simp only [Bv.toNat] at hz
  rcases hop with e | e <;> subst e <;> simp only [Ref.binOp, sameW, valV] at h <;>
    (split at h
     · next hw =>
       subst hw
       injection h with h; subst h
       simp [bv_allOnes_of_toNat hz]
     · cases h)

theorem ref_and_ones_right {op : BinOpType} (hop : op = .IntAnd ∨ op = .BoolAnd)
    {z a v : Bv} (hz : z.toNat = 2 ^ z.w - 1) (h : Ref.binOp op a z = .val v) : v = a := by
  obtain ⟨zw, zv⟩ := z
  obtain ⟨w, x⟩ := a
  simp only [Bv.toNat] at hz
  rcases hop with e | e <;> subst e <;> simp only [Ref.binOp, sameW, valV] at h <;>
    (split at h
     · next hw =>
       subst hw
       injection h with h; subst h
       simp [bv_allOnes_of_toNat hz]
     · cases h)

/-- `0 && a = 0` -/
theorem ref_booland_zero_left {z a v : Bv} (hz : z.toNat = 0) (h : Ref.binOp .BoolAnd z a = .val v) : v = z := by
  obtain ⟨zw, zv⟩ := z
  obtain ⟨w, x⟩ := a
  simp only [Bv.toNat] at hz
  simp only [Ref.binOp, sameW, valV] at h
  split at h
  · next hw =>
    subst hw
    injection h with h; subst h
    simp [bv_zero_of_toNat hz]
  · cases h

theorem ref_booland_zero_right {z a v : Bv} (hz : z.toNat = 0) (h : Ref.binOp .BoolAnd a z = .val v) : v = z := by
  obtain ⟨zw, zv⟩ := z
  obtain ⟨w, x⟩ := a
  simp only [Bv.toNat] at hz
  simp only [Ref.binOp, sameW, valV] at h
  split at h
  · next hw =>
    subst hw
    injection h with h; subst h
    simp [bv_zero_of_toNat hz]
  · cases h

/-- a boolean is 0 or 1 -/
theorem bv_bool_cases {w : Nat} {x : BitVec w} (h : x.toNat ≤ 1) : x = 0#w ∨ (x.toNat = 1 ∧ x = 1#w) := by
  rcases Nat.le_one_iff_eq_zero_or_eq_one.mp h with h0 | h1
  · exact .inl (bv_zero_of_toNat h0)
  · refine .inr ⟨h1, BitVec.eq_of_toNat_eq ?_⟩
    have hlt := x.isLt
    rw [h1] at hlt ⊢
    simp [Nat.mod_eq_of_lt hlt]

theorem bv_one_of_toNat {w : Nat} {z : BitVec w} (h : z.toNat = 1) : z = 1#w :=
  (bv_bool_cases (x := z) (by omega)).elim (fun h0 => by rw [h0] at h; simp at h) (fun h1 => h1.2)

theorem bv_one_and_self (w : Nat) : (1#w) &&& (1#w) = 1#w := by simp
theorem bv_one_and_zero (w : Nat) : (1#w) &&& (0#w) = 0#w := by simp
theorem bv_zero_and_one (w : Nat) : (0#w) &&& (1#w) = 0#w := by simp
theorem bv_one_or_zero (w : Nat) : (1#w) ||| (0#w) = 1#w := by simp
theorem bv_zero_or_one (w : Nat) : (0#w) ||| (1#w) = 1#w := by simp
theorem bv_one_or_self (w : Nat) : (1#w) ||| (1#w) = 1#w := by simp

/-- `1 && a = a` on booleans -/
theorem ref_booland_one_left {z a v : Bv} (hz : z.toNat = 1) (ha : a.toNat ≤ 1)
    (h : Ref.binOp .BoolAnd z a = .val v) : v = a := by
  obtain ⟨zw, zv⟩ := z
  obtain ⟨w, x⟩ := a
  simp only [Bv.toNat] at hz ha
  simp only [Ref.binOp, sameW, valV] at h
  split at h
  · next hw =>
    subst hw
    injection h with h; subst h
    rw [bv_one_of_toNat hz]
    rcases bv_bool_cases ha with e | ⟨_, e⟩ <;> rw [e] <;> simp
  · cases h

theorem ref_booland_one_right {z a v : Bv} (hz : z.toNat = 1) (ha : a.toNat ≤ 1)
    (h : Ref.binOp .BoolAnd a z = .val v) : v = a := by
  obtain ⟨zw, zv⟩ := z
  obtain ⟨w, x⟩ := a
  simp only [Bv.toNat] at hz ha
  simp only [Ref.binOp, sameW, valV] at h
  split at h
  · next hw =>
    subst hw
    injection h with h; subst h
    rw [bv_one_of_toNat hz]
    rcases bv_bool_cases ha with e | ⟨_, e⟩ <;> rw [e] <;> simp
  · cases h

/-- `1 || a = 1` on booleans -/
theorem ref_boolor_one_left {z a v : Bv} (hz : z.toNat = 1) (ha : a.toNat ≤ 1)
    (h : Ref.binOp .BoolOr z a = .val v) : v = z := by
  obtain ⟨zw, zv⟩ := z
  obtain ⟨w, x⟩ := a
  simp only [Bv.toNat] at hz ha
  simp only [Ref.binOp, sameW, valV] at h
  split at h
  · next hw =>
    subst hw
    injection h with h; subst h
    rw [bv_one_of_toNat hz]
    rcases bv_bool_cases ha with e | ⟨_, e⟩ <;> rw [e] <;> simp
  · cases h

theorem ref_boolor_one_right {z a v : Bv} (hz : z.toNat = 1) (ha : a.toNat ≤ 1)
    (h : Ref.binOp .BoolOr a z = .val v) : v = z := by
  obtain ⟨zw, zv⟩ := z
  obtain ⟨w, x⟩ := a
  simp only [Bv.toNat] at hz ha
  simp only [Ref.binOp, sameW, valV] at h
  split at h
  · next hw =>
    subst hw
    injection h with h; subst h
    rw [bv_one_of_toNat hz]
    rcases bv_bool_cases ha with e | ⟨_, e⟩ <;> rw [e] <;> simp
  · cases h

/-- `1 ^ a = ¬a` on one-byte booleans -/
theorem ref_boolxor_one_left {z a v : Bv} (hz : z.toNat = 1) (ha : a.toNat ≤ 1) (hw8 : a.w = 8)
    (h : Ref.binOp .BoolXOr z a = .val v) : Ref.unOp .BoolNegate a = .val v := by
  obtain ⟨zw, zv⟩ := z
  obtain ⟨w, x⟩ := a
  simp only [Bv.toNat] at hz ha
  simp only at hw8; subst hw8
  simp only [Ref.binOp, sameW, valV] at h
  split at h
  · next hw =>
    subst hw
    injection h with h; subst h
    rw [bv_one_of_toNat hz]
    rcases bv_bool_cases ha with e | ⟨_, e⟩ <;> rw [e] <;> simp [Ref.unOp, Bv.toNat, valB, Bv.ofBool]
  · cases h

theorem ref_boolxor_one_right {z a v : Bv} (hz : z.toNat = 1) (ha : a.toNat ≤ 1) (hw8 : a.w = 8)
    (h : Ref.binOp .BoolXOr a z = .val v) : Ref.unOp .BoolNegate a = .val v := by
  obtain ⟨zw, zv⟩ := z
  obtain ⟨w, x⟩ := a
  simp only [Bv.toNat] at hz ha
  simp only at hw8; subst hw8
  simp only [Ref.binOp, sameW, valV] at h
  split at h
  · next hw =>
    subst hw
    injection h with h; subst h
    rw [bv_one_of_toNat hz]
    rcases bv_bool_cases ha with e | ⟨_, e⟩ <;> rw [e] <;> simp [Ref.unOp, Bv.toNat, valB, Bv.ofBool]
  · cases h

/-! ### inversion of same-width operations -/

theorem sameW_inv {a b : Bv} {f : {w : Nat} → BitVec w → BitVec w → Res} {r : Bv}
    (h : sameW a b f = .val r) : ∃ (w : Nat) (x y : BitVec w), a = ⟨w, x⟩ ∧ b = ⟨w, y⟩ ∧ f x y = .val r := by
  obtain ⟨aw, av⟩ := a
  obtain ⟨bw, bv⟩ := b
  unfold sameW at h
  split at h
  · next hw => simp only at hw; subst hw; exact ⟨aw, av, bv, rfl, rfl, h⟩
  · cases h

/-- the six integer comparisons as Boolean functions -/
def cmpB (op : BinOpType) {w : Nat} (x y : BitVec w) : Option Bool :=
  match op with
  | .IntEqual => some (Ref.eq x y)
  | .IntNotEqual => some (!Ref.eq x y)
  | .IntLess => some (Ref.less x y)
  | .IntSLess => some (Ref.sless x y)
  | .IntLessEqual => some (Ref.lessEq x y)
  | .IntSLessEqual => some (Ref.slessEq x y)
  | .IntSBorrow => some (Ref.sborrow x y)
  | _ => none

theorem ref_cmp_inv {op : BinOpType} {a b r : Bv} {w : Nat} {x y : BitVec w} (ha : a = ⟨w, x⟩) (hb : b = ⟨w, y⟩)
    {c : Bool} (hc : cmpB op x y = some c) (h : Ref.binOp op a b = .val r) : r = Bv.ofBool c := by
  subst ha hb
  cases op <;> simp only [cmpB, Option.some.injEq, reduceCtorEq] at hc <;> subst hc <;>
    simp only [Ref.binOp, sameW_mk, valB] at h <;> injection h with h <;> exact h.symm

theorem ref_cmp_inv' {op : BinOpType} (hop : (cmpB op (0#1) (0#1)).isSome) {a b r : Bv}
    (h : Ref.binOp op a b = .val r) :
    ∃ (w : Nat) (x y : BitVec w) (c : Bool), a = ⟨w, x⟩ ∧ b = ⟨w, y⟩ ∧ cmpB op x y = some c ∧ r = Bv.ofBool c := by
  cases op <;> simp only [cmpB, Option.isSome, reduceCtorEq] at hop <;>
    simp only [Ref.binOp] at h <;>
    (obtain ⟨w, x, y, ha, hb, hf⟩ := sameW_inv h
     simp only [valB] at hf; injection hf with hf
     exact ⟨w, x, y, _, ha, hb, rfl, hf.symm⟩)

theorem ref_cmp_intro {op : BinOpType} {w : Nat} {x y : BitVec w} {c : Bool} (hc : cmpB op x y = some c) :
    Ref.binOp op ⟨w, x⟩ ⟨w, y⟩ = .val (Bv.ofBool c) := by
  cases op <;> simp only [cmpB, Option.some.injEq, reduceCtorEq] at hc <;> subst hc <;>
    simp only [Ref.binOp, sameW_mk, valB]

theorem ref_sub_inv {a b d : Bv} (h : Ref.binOp .IntSub a b = .val d) :
    ∃ (w : Nat) (x y : BitVec w), a = ⟨w, x⟩ ∧ b = ⟨w, y⟩ ∧ d = ⟨w, Ref.sub x y⟩ := by
  simp only [Ref.binOp] at h
  obtain ⟨w, x, y, ha, hb, hf⟩ := sameW_inv h
  simp only [valV] at hf; injection hf with hf
  exact ⟨w, x, y, ha, hb, hf.symm⟩

theorem ref_add_inv {a b d : Bv} (h : Ref.binOp .IntAdd a b = .val d) :
    ∃ (w : Nat) (x y : BitVec w), a = ⟨w, x⟩ ∧ b = ⟨w, y⟩ ∧ d = ⟨w, Ref.add x y⟩ := by
  simp only [Ref.binOp] at h
  obtain ⟨w, x, y, ha, hb, hf⟩ := sameW_inv h
  simp only [valV] at hf; injection hf with hf
  exact ⟨w, x, y, ha, hb, hf.symm⟩

theorem ref_boolor_ofBool (p q : Bool) : Ref.binOp .BoolOr (Bv.ofBool p) (Bv.ofBool q) = .val (Bv.ofBool (p || q)) := by
  cases p <;> cases q <;> rfl
theorem ref_booland_ofBool (p q : Bool) : Ref.binOp .BoolAnd (Bv.ofBool p) (Bv.ofBool q) = .val (Bv.ofBool (p && q)) := by
  cases p <;> cases q <;> rfl
theorem ref_eq_ofBool (p q : Bool) : Ref.binOp .IntEqual (Bv.ofBool p) (Bv.ofBool q) = .val (Bv.ofBool (p == q)) := by
  cases p <;> cases q <;> rfl
theorem ref_ne_ofBool (p q : Bool) : Ref.binOp .IntNotEqual (Bv.ofBool p) (Bv.ofBool q) = .val (Bv.ofBool (p != q)) := by
  cases p <;> cases q <;> rfl
theorem ref_boolneg_ofBool (p : Bool) : Ref.unOp .BoolNegate (Bv.ofBool p) = .val (Bv.ofBool (!p)) := by
  cases p <;> rfl

/-! ### comparison facts -/

theorem bv_sub_eq_zero_iff {w : Nat} (x y : BitVec w) : x - y = 0#w ↔ x = y := by
  rw [BitVec.sub_eq_iff_eq_add]; simp

theorem ref_eq_sub_zero {w : Nat} (x y : BitVec w) : Ref.eq (Ref.sub x y) (0#w) = Ref.eq x y := by
  rw [← C01.sub_eq]
  simp only [Ref.eq]
  have h1 : ((x - y).toNat = (0#w).toNat) ↔ (x.toNat = y.toNat) := by
    rw [← BitVec.toNat_eq, ← BitVec.toNat_eq, bv_sub_eq_zero_iff]
  simp only [h1]

theorem ref_eq_zero_sub {w : Nat} (x y : BitVec w) : Ref.eq (0#w) (Ref.sub x y) = Ref.eq x y := by
  rw [← ref_eq_sub_zero x y]
  simp only [Ref.eq, eq_comm]

theorem ref_eq_comm {w : Nat} (x y : BitVec w) : Ref.eq x y = Ref.eq y x := by
  simp only [Ref.eq, eq_comm]

theorem toNat_eq_iff_toInt_eq {w : Nat} (x y : BitVec w) : x.toNat = y.toNat ↔ x.toInt = y.toInt := by
  rw [← BitVec.toNat_eq, BitVec.toInt_inj]

theorem ref_sless_or_eq {w : Nat} (x y : BitVec w) : (Ref.sless x y || Ref.eq x y) = Ref.slessEq x y := by
  simp only [Ref.sless, Ref.eq, Ref.slessEq, toNat_eq_iff_toInt_eq]
  rw [Bool.eq_iff_iff]; simp only [Bool.or_eq_true, decide_eq_true_eq]; omega

theorem ref_less_or_eq {w : Nat} (x y : BitVec w) : (Ref.less x y || Ref.eq x y) = Ref.lessEq x y := by
  simp only [Ref.less, Ref.eq, Ref.lessEq]
  rw [Bool.eq_iff_iff]; simp only [Bool.or_eq_true, decide_eq_true_eq]; omega

theorem ref_slessEq_and_ne {w : Nat} (x y : BitVec w) : (Ref.slessEq x y && !Ref.eq x y) = Ref.sless x y := by
  simp only [Ref.sless, Ref.eq, Ref.slessEq, toNat_eq_iff_toInt_eq]
  rw [Bool.eq_iff_iff]; simp only [Bool.and_eq_true, Bool.not_eq_true', decide_eq_true_eq, decide_eq_false_iff_not]; omega

theorem ref_lessEq_and_ne {w : Nat} (x y : BitVec w) : (Ref.lessEq x y && !Ref.eq x y) = Ref.less x y := by
  simp only [Ref.less, Ref.eq, Ref.lessEq]
  rw [Bool.eq_iff_iff]; simp only [Bool.and_eq_true, Bool.not_eq_true', decide_eq_true_eq, decide_eq_false_iff_not]; omega


/-! ### the signed-less idiom `(a - b <s 0) != (a sborrow b)` -/

theorem ref_sub_toInt {w : Nat} (x y : BitVec w) : (Ref.sub x y).toInt = (x.toInt - y.toInt).bmod (2 ^ w) := by
  simp only [Ref.sub, BitVec.toInt_ofInt]

set_option linter.unusedSimpArgs false in
theorem sless_sub_xor_sborrow {w : Nat} (hw : 0 < w) (x y : BitVec w) :
    (Ref.sless (Ref.sub x y) (0#w) != Ref.sborrow x y) = Ref.sless x y := by
  have h1 := @BitVec.toInt_sub_toInt_lt_twoPow_iff w x y
  have h2 := @BitVec.twoPow_le_toInt_sub_toInt_iff w x y
  have hB := ref_sub_toInt x y
  simp only [Ref.sless, Ref.sborrow, BitVec.toInt_zero, hB]
  generalize hb : (x.toInt - y.toInt).bmod (2 ^ w) = B at *
  have hno : -2 ^ (w - 1) ≤ x.toInt - y.toInt → x.toInt - y.toInt < 2 ^ (w - 1) → B = x.toInt - y.toInt := by
    intro ha hc
    rw [← hb, ← BitVec.toInt_ofInt]
    exact C01.toInt_ofInt_of_range w _ hw ha hc
  have hP := C01.two_pow_pos (w - 1)
  rw [Bool.eq_iff_iff]
  simp only [bne_iff_ne, ne_eq, Bool.or_eq_true, decide_eq_true_eq]
  by_cases c1 : x.toInt - y.toInt ≥ 2 ^ (w - 1)
  · have := h2.mp c1
    simp only [c1, true_or, decide_eq_true_eq]
    constructor
    · intro h; exfalso; apply h; simp; omega
    · intro h; omega
  · by_cases c2 : x.toInt - y.toInt < -2 ^ (w - 1)
    · have := h1.mp c2
      simp only [c2, or_true]
      constructor
      · intro _; omega
      · intro _ h; simp at h; omega
    · have := hno (by omega) (by omega)
      simp only [c1, c2, or_self, this]
      simp

theorem sless_sub_eq_sborrow {w : Nat} (hw : 0 < w) (x y : BitVec w) :
    (Ref.sless (Ref.sub x y) (0#w) == Ref.sborrow x y) = Ref.slessEq y x := by
  have h := sless_sub_xor_sborrow hw x y
  have e : Ref.slessEq y x = !Ref.sless x y := by
    simp only [Ref.slessEq, Ref.sless]
    rw [Bool.eq_iff_iff]; simp only [decide_eq_true_eq, Bool.not_eq_true', decide_eq_false_iff_not]; omega
  rw [e, ← h]
  cases Ref.sless (Ref.sub x y) (0#w) <;> cases Ref.sborrow x y <;> rfl

/-! ### piece, subpiece, extensions, negations -/

theorem subpiece_full {w : Nat} (x : BitVec w) : Ref.subpiece x 0 w = x := by
  simp [Ref.subpiece]

theorem subpiece_zext {w S : Nat} (x : BitVec w) (h : w ≤ S) : Ref.subpiece (Ref.zext x S) 0 w = x := by
  apply BitVec.eq_of_toNat_eq
  have hx := x.isLt
  have : 2 ^ w ≤ 2 ^ S := Nat.pow_le_pow_right (by omega) h
  simp only [Ref.subpiece, Ref.zext, BitVec.toNat_ofNat, Nat.pow_zero, Nat.div_one]
  rw [Nat.mod_eq_of_lt (show x.toNat < 2 ^ S by omega), Nat.mod_eq_of_lt hx]

theorem subpiece_sext {w S : Nat} (x : BitVec w) (h : w ≤ S) : Ref.subpiece (Ref.sext x S) 0 w = x := by
  rw [← C01.sext_eq x S h]
  apply BitVec.eq_of_toNat_eq
  have hx := x.isLt
  have hle : 2 ^ w ≤ 2 ^ S := Nat.pow_le_pow_right (by omega) h
  simp only [Ref.subpiece, BitVec.toNat_ofNat, Nat.pow_zero, Nat.div_one, BitVec.toNat_signExtend,
    BitVec.toNat_setWidth]
  rw [Nat.mod_eq_of_lt (show x.toNat < 2 ^ S by omega)]
  split
  · have : 2 ^ S - 2 ^ w = 2 ^ w * (2 ^ (S - w) - 1) := by
      rw [Nat.mul_sub, Nat.mul_one, ← Nat.pow_add]; congr 2; omega
    rw [this, Nat.add_mul_mod_self_left, Nat.mod_eq_of_lt hx]
  · simp [Nat.mod_eq_of_lt hx]

theorem subpiece_piece_high {w₁ w₂ : Nat} (h : BitVec w₁) (l : BitVec w₂) :
    Ref.subpiece (Ref.piece h l) w₂ w₁ = h := by
  apply BitVec.eq_of_toNat_eq
  have hh := h.isLt; have hl := l.isLt
  simp only [Ref.subpiece, Ref.piece, BitVec.toNat_ofNat]
  have hlt : h.toNat * 2 ^ w₂ + l.toNat < 2 ^ (w₁ + w₂) := by
    rw [Nat.pow_add]
    calc h.toNat * 2 ^ w₂ + l.toNat < h.toNat * 2 ^ w₂ + 2 ^ w₂ := by omega
      _ = (h.toNat + 1) * 2 ^ w₂ := by rw [Nat.add_mul, Nat.one_mul]
      _ ≤ 2 ^ w₁ * 2 ^ w₂ := Nat.mul_le_mul_right _ (by omega)
  rw [Nat.mod_eq_of_lt hlt]
  have hpos : 0 < 2 ^ w₂ := Nat.pow_pos (by omega)
  rw [Nat.mul_comm, Nat.mul_add_div hpos, Nat.div_eq_of_lt hl, Nat.add_zero, Nat.mod_eq_of_lt hh]

theorem subpiece_piece_low {w₁ w₂ : Nat} (h : BitVec w₁) (l : BitVec w₂) :
    Ref.subpiece (Ref.piece h l) 0 w₂ = l := by
  apply BitVec.eq_of_toNat_eq
  have hh := h.isLt; have hl := l.isLt
  simp only [Ref.subpiece, Ref.piece, BitVec.toNat_ofNat, Nat.pow_zero, Nat.div_one]
  rw [Nat.mod_mod_of_dvd _ (by rw [Nat.pow_add]; exact Nat.dvd_mul_left _ _)]
  rw [Nat.mul_comm, Nat.mul_add_mod, Nat.mod_eq_of_lt hl]

theorem subpiece_subpiece {w : Nat} (x : BitVec w) (a m b s : Nat) (h : b + s ≤ m) :
    Ref.subpiece (Ref.subpiece x a m) b s = Ref.subpiece x (a + b) s := by
  apply BitVec.eq_of_toNat_eq
  simp only [Ref.subpiece, BitVec.toNat_ofNat]
  have e1 : 2 ^ m = 2 ^ b * 2 ^ (m - b) := by rw [← Nat.pow_add]; congr 1; omega
  rw [e1, Nat.mod_mul_right_div_self]
  have e2 : 2 ^ (m - b) = 2 ^ s * 2 ^ (m - b - s) := by rw [← Nat.pow_add]; congr 1; omega
  rw [Nat.mod_mod_of_dvd _ (by rw [e2]; exact Nat.dvd_mul_right _ _)]
  rw [Nat.div_div_eq_div_mul, ← Nat.pow_add]

theorem zext_zext {w m s : Nat} (x : BitVec w) (h : w ≤ m) : Ref.zext (Ref.zext x m) s = Ref.zext x s := by
  have hx := x.isLt
  have : 2 ^ w ≤ 2 ^ m := Nat.pow_le_pow_right (by omega) h
  simp only [Ref.zext, BitVec.toNat_ofNat]
  rw [Nat.mod_eq_of_lt (by omega)]

theorem sext_sext {w m s : Nat} (x : BitVec w) (h : w ≤ m) : Ref.sext (Ref.sext x m) s = Ref.sext x s := by
  rw [← C01.sext_eq x m h]
  simp only [Ref.sext, BitVec.toInt_signExtend_of_le h]

theorem zext_same {w : Nat} (x : BitVec w) : Ref.zext x w = x := by simp [Ref.zext]
theorem sext_same {w : Nat} (x : BitVec w) : Ref.sext x w = x := by simp [Ref.sext]
theorem ref_neg_neg {w : Nat} (x : BitVec w) : Ref.neg (Ref.neg x) = x := by
  rw [← C01.neg_eq, ← C01.neg_eq]; exact BitVec.neg_neg
theorem ref_not_not {w : Nat} (x : BitVec w) : Ref.not (Ref.not x) = x := by
  rw [← C01.not_eq, ← C01.not_eq]; exact BitVec.not_not

end CweModel.C10
