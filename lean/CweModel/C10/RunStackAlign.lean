/-
C10 pass 5 — RUN-LEVEL theorem for `substitute_and_on_stackpointer` (model `saSub` /
`substituteAndOnStackpointer`, C10/StackAlign.lean).

StackAlignProofs.lean shows that the substituted expression evaluates like the masking expression in a state
in which the stack pointer is `entry value + journaled offset` and the entry value is 16-byte aligned. Here
the missing run-time part is proved against the reference interpreter (`Sem.runBlocks`/`Sem.runSub`,
Base/IRSem.lean):

* `execJmps_goto_counted`, `countJumpsToBlk_one_unique`, `chain_step`: `count_jumps_to_blk` counts every jump
  that can make the interpreter continue at a block; the blocks `get_first_blk_with_defs` walks over (the
  `Chain`: the function's first block, targeted by no counted jump, then along first-jump `Branch`es through
  def-free blocks each targeted by exactly one counted jump) are therefore entered only along the chain, and
  the stack pointer still has its function-entry value whenever one of them is entered — on EVERY run,
  however often other blocks are executed;
* `firstBlkWithDefs_chain`: the index the pass returns is the first block with that tid (the one the
  interpreter executes) and lies on the chain;
* `saStepDef_sound`, `saFold_sound`: the def loop keeps the invariant "SP = entry + journaled (or the loop has
  given up)" along every successful execution, and every produced def executes exactly like the original def
  (also when it gets stuck), using `substituteAnd_eval`;
* `saSub_runSub`: the trace of the function is unchanged — no `NoStuck` hypothesis is needed, only a
  well-formed initial state with an 8-byte, 16-byte-aligned stack pointer;
* `substituteAndOnStackpointer_subs`, `substituteAndOnStackpointer_runSub`: the program level (x86_64).
Core-only.
-/
import CweModel.C10.StackAlignProofs
import CweModel.Base.IRInst

namespace CweModel.C10
open CweModel CweModel.IR CweModel.Sem

/-! ### lists -/

private theorem le_sum_map_of_mem {α : Type} (f : α → Nat) {l : List α} {a : α} (h : a ∈ l) : f a ≤ (l.map f).sum := by
  induction l with
  | nil => cases h
  | cons x xs ih =>
    simp only [List.map, List.sum_cons]
    rcases List.mem_cons.mp h with rfl | h
    · omega
    · have := ih h; omega

private theorem eq_of_sum_map_eq_one {α : Type} (f : α → Nat) {l : List α} {a b : α} (hs : (l.map f).sum = 1)
    (ha : a ∈ l) (hb : b ∈ l) (hfa : 1 ≤ f a) (hfb : 1 ≤ f b) : a = b := by
  induction l with
  | nil => cases ha
  | cons x xs ih =>
    simp only [List.map, List.sum_cons] at hs
    rcases List.mem_cons.mp ha with rfl | ha' <;> rcases List.mem_cons.mp hb with rfl | hb'
    · rfl
    · have := le_sum_map_of_mem f hb'; omega
    · have := le_sum_map_of_mem f ha'; omega
    · have := le_sum_map_of_mem f ha'
      exact ih (by omega) ha' hb'

private theorem getElem?_of_findIdx?_find? {α : Type} (p : α → Bool) {l : List α} {i : Nat} {b : α}
    (hi : l.findIdx? p = some i) (hf : l.find? p = some b) : l[i]? = some b := by
  induction l generalizing i with
  | nil => cases hf
  | cons x xs ih =>
    rw [List.findIdx?_cons] at hi
    rw [List.find?_cons] at hf
    cases hp : p x with
    | true =>
      rw [hp] at hi hf
      simp only [if_true, Option.some.injEq] at hi hf
      subst hi; subst hf; rfl
    | false =>
      rw [hp] at hi hf
      simp only [Bool.false_eq_true, if_false] at hi hf
      cases hx : xs.findIdx? p with
      | none => rw [hx] at hi; cases hi
      | some k =>
        rw [hx] at hi
        simp only [Option.map_some, Option.some.injEq] at hi
        subst hi
        simpa using ih hx hf

/-- replacing the first block with a given tid by a block with the same tid -/
theorem find?_set_same {l : List (Term Blk)} {i : Nat} {b b' : Term Blk} (hb' : b'.tid = b.tid)
    (hi : l.findIdx? (fun x => x.tid == b.tid) = some i) (hf : l.find? (fun x => x.tid == b.tid) = some b) :
    (l.set i b').find? (fun x => x.tid == b.tid) = some b' := by
  induction l generalizing i with
  | nil => cases hf
  | cons x xs ih =>
    rw [List.findIdx?_cons] at hi
    rw [List.find?_cons] at hf
    cases hp : x.tid == b.tid with
    | true =>
      rw [hp] at hi
      simp only [if_true, Option.some.injEq] at hi
      subst hi
      simp only [List.set, List.find?_cons, hb', BEq.rfl]
    | false =>
      rw [hp] at hi hf
      simp only [Bool.false_eq_true, if_false] at hi hf
      cases hx : xs.findIdx? (fun x => x.tid == b.tid) with
      | none => rw [hx] at hi; cases hi
      | some k =>
        rw [hx] at hi
        simp only [Option.map_some, Option.some.injEq] at hi
        subst hi
        simp only [List.set, List.find?_cons, hp]
        exact ih hx hf

/-- ... leaves the lookup of every other tid unchanged -/
theorem find?_set_other {l : List (Term Blk)} {i : Nat} {b b' : Term Blk} {t : Tid} (hb' : b'.tid = b.tid)
    (hi : l[i]? = some b) (ht : (b.tid == t) = false) :
    (l.set i b').find? (fun x => x.tid == t) = l.find? (fun x => x.tid == t) := by
  induction l generalizing i with
  | nil => rfl
  | cons x xs ih =>
    cases i with
    | zero =>
      simp only [List.getElem?_cons_zero, Option.some.injEq] at hi
      subst hi
      simp only [List.set, List.find?_cons, hb', ht]
    | succ k =>
      simp only [List.getElem?_cons_succ] at hi
      simp only [List.set, List.find?_cons]
      rw [ih hi]


/-! ### counted jumps -/

/-- the filter predicate of `countJumpsToBlk`: the jump can make `Sem.execJmps` continue at `t` -/
def countedTo (t : Tid) (j : Term Jmp) : Bool :=
  match j.term with
  | .Branch x => x == t
  | .CBranch x _ => x == t
  | .Call _ (some x) => x == t
  | .CallInd _ (some x) => x == t
  | .CallOther _ (some x) => x == t
  | _ => false

def blkCount (t : Tid) (b : Term Blk) : Nat :=
  (b.term.jmps.filter (countedTo t)).length + (b.term.indirectJmpTargets.filter (· == t)).length

theorem countJumpsToBlk_eq (s : Sub) (t : Tid) : countJumpsToBlk s t = (s.blocks.map (blkCount t)).sum := rfl

theorem blkCount_pos {t : Tid} {b : Term Blk} {j : Term Jmp} (hj : j ∈ b.term.jmps) (hc : countedTo t j = true) :
    1 ≤ blkCount t b := by
  have : j ∈ b.term.jmps.filter (countedTo t) := List.mem_filter.mpr ⟨hj, hc⟩
  have := List.length_pos_of_mem this
  unfold blkCount; omega

/-- a block of the function with a counted jump to `t` makes the count positive -/
theorem countJumpsToBlk_pos {s : Sub} {t : Tid} {b : Term Blk} {j : Term Jmp} (hb : b ∈ s.blocks)
    (hj : j ∈ b.term.jmps) (hc : countedTo t j = true) : 1 ≤ countJumpsToBlk s t := by
  rw [countJumpsToBlk_eq]
  exact Nat.le_trans (blkCount_pos hj hc) (le_sum_map_of_mem (blkCount t) hb)

/-- if the count is one, the block with a counted jump to `t` is unique -/
theorem countJumpsToBlk_one_unique {s : Sub} {t : Tid} {a b : Term Blk} {ja jb : Term Jmp}
    (h1 : countJumpsToBlk s t = 1) (ha : a ∈ s.blocks) (hb : b ∈ s.blocks)
    (hja : ja ∈ a.term.jmps) (hca : countedTo t ja = true)
    (hjb : jb ∈ b.term.jmps) (hcb : countedTo t jb = true) : a = b := by
  rw [countJumpsToBlk_eq] at h1
  exact eq_of_sum_map_eq_one (blkCount t) h1 ha hb (blkCount_pos hja hca) (blkCount_pos hjb hcb)

/-- **step 1.** whenever the jumps of a block continue at `t`, one of them is counted by `countJumpsToBlk · t` -/
theorem execJmps_goto_counted {env : Env} {jmps : List (Term Jmp)} {σ σ₂ : State} {c c₂ : Nat} {evs : List Event}
    {t : Tid} (hj : execJmps env σ c jmps = (evs, .goto t σ₂ c₂)) : ∃ j ∈ jmps, countedTo t j = true := by
  induction jmps with
  | nil => simp only [Sem.execJmps] at hj; cases hj
  | cons j js ih =>
    simp only [Sem.execJmps] at hj
    split at hj
    · next x hx => cases hj; exact ⟨j, List.mem_cons_self, by simp [countedTo, hx]⟩
    · next x cnd hx =>
      split at hj
      · cases hj
      · split at hj
        · cases hj; exact ⟨j, List.mem_cons_self, by simp [countedTo, hx]⟩
        · obtain ⟨j', hm, hc⟩ := ih hj
          exact ⟨j', List.mem_cons_of_mem _ hm, hc⟩
    · split at hj <;> cases hj
    · next x r hx =>
      split at hj
      · cases hj
      · cases hj; exact ⟨j, List.mem_cons_self, by simp [countedTo, hx]⟩
    · next x r hx =>
      split at hj
      · cases hj
      · split at hj
        · cases hj
        · cases hj; exact ⟨j, List.mem_cons_self, by simp [countedTo, hx]⟩
    · next x r hx =>
      split at hj
      · cases hj
      · cases hj; exact ⟨j, List.mem_cons_self, by simp [countedTo, hx]⟩
    · split at hj <;> cases hj

/-- a block whose first jump is `Branch t`: the jumps continue at `t` in the same state -/
theorem execJmps_firstBranch {env : Env} {b : Term Blk} {t : Tid} (h : firstBranchTid b = some t) (σ : State) (c : Nat) :
    execJmps env σ c b.term.jmps = ([], .goto t σ c) ∧ ∃ j ∈ b.term.jmps, countedTo t j = true := by
  unfold firstBranchTid at h
  split at h
  · next j js hjs =>
    split at h
    · next x hx =>
      cases h
      rw [hjs]
      refine ⟨by simp only [Sem.execJmps, hx], j, List.mem_cons_self, by simp [countedTo, hx]⟩
    · cases h
  · cases h

/-! ### the chain of blocks from the function entry to the substituted block -/

/-- `Chain s t`: `t` is the tid of the first block of `s` (which no counted jump targets), or is reached
from a chain block without defs through its first jump `Branch t`, and is targeted by exactly one counted jump -/
inductive Chain (s : Sub) : Tid → Prop
  | entry (b : Term Blk) (bs : List (Term Blk)) (t : Tid) (hs : s.blocks = b :: bs)
      (h0 : countJumpsToBlk s t = 0) (ht : t = b.tid) : Chain s t
  | step (t' t : Tid) (blk : Term Blk) (hc : Chain s t')
      (hf : s.blocks.find? (fun b => b.tid == t') = some blk) (hd : blk.term.defs = [])
      (hb : firstBranchTid blk = some t) (h1 : countJumpsToBlk s t = 1) : Chain s t

private theorem tid_of_find? {l : List (Term Blk)} {t : Tid} {b : Term Blk} (h : l.find? (fun b => b.tid == t) = some b) :
    b.tid = t := by
  have := List.find?_some (p := fun b : Term Blk => b.tid == t) h
  simpa using this

/-- **step 2/5.** the stack pointer has its entry value `R` whenever a chain block is entered: the invariant is
preserved by one block step of the interpreter -/
theorem chain_step {env : Env} {s : Sub} {R : Bv} {t t₂ : Tid} {σ σ₁ σ₂ : State} {c c₂ : Nat} {b : Term Blk}
    {evs evs₂ : List Event}
    (hI : Chain s t → σ.getReg env.sp = R)
    (hb : s.blocks.find? (fun b => b.tid == t) = some b)
    (hd : execDefs σ b.term.defs = some (σ₁, evs))
    (hj : execJmps env σ₁ c b.term.jmps = (evs₂, .goto t₂ σ₂ c₂)) :
    Chain s t₂ → σ₂.getReg env.sp = R := by
  intro hc
  obtain ⟨j, hjm, hjc⟩ := execJmps_goto_counted hj
  have hbm : b ∈ s.blocks := List.mem_of_find?_eq_some hb
  cases hc with
  | entry b0 bs _ hs h0 ht =>
    have := countJumpsToBlk_pos hbm hjm hjc
    omega
  | step t' _ blk hc' hf hd' hfb h1 =>
    obtain ⟨hex, j', hjm', hjc'⟩ := execJmps_firstBranch (env := env) hfb σ₁ c
    have hblkm : blk ∈ s.blocks := List.mem_of_find?_eq_some hf
    have heq : blk = b := countJumpsToBlk_one_unique h1 hblkm hbm hjm' hjc' hjm hjc
    subst heq
    have ht : t' = t := by rw [← tid_of_find? hf, ← tid_of_find? hb]
    subst ht
    rw [hd'] at hd
    simp only [Sem.execDefs, Option.some.injEq, Prod.mk.injEq] at hd
    obtain ⟨rfl, _⟩ := hd
    rw [hex] at hj
    cases hj
    exact hI hc'

/-- **step 3.** the loop of `get_first_blk_with_defs` walks along the chain -/
theorem firstBlkWithDefsLoop_chain (s : Sub) : ∀ (fuel : Nat) (visited : List Tid) (blk : Term Blk) (idx : Nat),
    firstBlkWithDefsLoop s fuel visited blk = some idx → Chain s blk.tid →
    s.blocks.find? (fun b => b.tid == blk.tid) = some blk → blk.term.defs = [] →
    ∃ tb, s.blocks[idx]? = some tb ∧ s.blocks.findIdx? (fun b => b.tid == tb.tid) = some idx ∧
      s.blocks.find? (fun b => b.tid == tb.tid) = some tb ∧ Chain s tb.tid := by
  intro fuel
  induction fuel with
  | zero => intro visited blk idx h; simp only [firstBlkWithDefsLoop] at h; cases h
  | succ n ih =>
    intro visited blk idx h hc hf hd
    simp only [firstBlkWithDefsLoop] at h
    split at h
    · cases h
    · next target htar =>
      split at h
      · cases h
      · split at h
        · cases h
        · next h1 =>
          have h1 : countJumpsToBlk s target = 1 := by simpa using h1
          split at h
          · next idx' tb hidx htb =>
            have htid : tb.tid = target := tid_of_find? htb
            have hchain : Chain s tb.tid := htid ▸ Chain.step blk.tid target blk hc hf hd htar h1
            split at h
            · cases h
              refine ⟨tb, getElem?_of_findIdx?_find? _ hidx htb, ?_, ?_, hchain⟩
              · rw [htid]; exact hidx
              · rw [htid]; exact htb
            · next hne =>
              refine ih _ tb idx h hchain (by rw [htid]; exact htb) ?_
              simpa using hne
          · cases h

theorem firstBlkWithDefs_chain {s : Sub} {idx : Nat} (h : firstBlkWithDefs s = some idx) :
    ∃ tb, s.blocks[idx]? = some tb ∧ s.blocks.findIdx? (fun b => b.tid == tb.tid) = some idx ∧
      s.blocks.find? (fun b => b.tid == tb.tid) = some tb ∧ Chain s tb.tid := by
  unfold firstBlkWithDefs at h
  split at h
  · cases h
  · next b bs hs =>
    split at h
    · cases h
    · next h0 =>
      have h0 : countJumpsToBlk s b.tid = 0 := by simpa using h0
      have hc : Chain s b.tid := Chain.entry b bs b.tid hs h0 rfl
      have hf : s.blocks.find? (fun x => x.tid == b.tid) = some b := by
        rw [hs]; simp only [List.find?_cons, BEq.rfl]
      split at h
      · cases h
        refine ⟨b, by rw [hs]; rfl, ?_, hf, hc⟩
        rw [hs]; simp only [List.findIdx?_cons, BEq.rfl, if_true]
      · next hne =>
        exact firstBlkWithDefsLoop_chain s _ [] b idx h hc hf (by simpa using hne)


/-! ### step 4: the defs of the substituted block -/

theorem ref_add_64 (a b : BitVec 64) : Ref.binOp .IntAdd ⟨64, a⟩ ⟨64, b⟩ = .val ⟨64, a + b⟩ := by
  simp only [Ref.binOp, sameW_mk, valV, C01.add_eq]

theorem constToI64_8 (x : Nat) : constToI64 8 x = BitVec.ofNat 64 x := by
  simp only [constToI64, Nat.lt_irrefl, if_false]

theorem ref_binOp_64_ofBytes {op : BinOpType} (hop : op = .IntAdd ∨ op = .IntSub) {a : BitVec 64} {b x : Nat} {v : Bv}
    (h : Ref.binOp op ⟨64, a⟩ (Bv.ofBytes b x) = .val v) : b = 8 := by
  have hw : (64 : Nat) = 8 * b := by
    rcases hop with rfl | rfl <;> simp only [Ref.binOp] at h <;> exact sameW_val h
  omega

theorem ref_binOp_ofBytes_64 {op : BinOpType} (hop : op = .IntAdd ∨ op = .IntSub) {a : BitVec 64} {b x : Nat} {v : Bv}
    (h : Ref.binOp op (Bv.ofBytes b x) ⟨64, a⟩ = .val v) : b = 8 := by
  have hw : 8 * b = (64 : Nat) := by
    rcases hop with rfl | rfl <;> simp only [Ref.binOp] at h <;> exact sameW_val h
  omega

/-- `SP + c` moves an 8-byte stack pointer `S + j` to `S + (j + c)`; it only evaluates for 8-byte constants -/
theorem eval_sp_add_const {σ : State} {sp : Variable} {S j : BitVec 64} {b x : Nat} {v : Bv}
    (hreg : σ.getReg sp = ⟨64, S + j⟩) (h : eval σ (.BinOp .IntAdd (.Var sp) (.Const b x)) = some v) :
    v = ⟨64, S + (j + constToI64 b x)⟩ := by
  obtain ⟨a, c, ha, hc, hv⟩ := eval_binOp_some.mp h
  simp only [eval, Option.some.injEq] at ha hc
  subst ha; subst hc
  rw [hreg] at hv
  have hb := ref_binOp_64_ofBytes (.inl rfl) hv
  subst hb
  rw [ofBytes8, ref_add_64] at hv
  cases hv
  rw [constToI64_8, BitVec.add_assoc]

theorem eval_const_add_sp {σ : State} {sp : Variable} {S j : BitVec 64} {b x : Nat} {v : Bv}
    (hreg : σ.getReg sp = ⟨64, S + j⟩) (h : eval σ (.BinOp .IntAdd (.Const b x) (.Var sp)) = some v) :
    v = ⟨64, S + (j + constToI64 b x)⟩ := by
  obtain ⟨a, c, ha, hc, hv⟩ := eval_binOp_some.mp h
  simp only [eval, Option.some.injEq] at ha hc
  subst ha; subst hc
  rw [hreg] at hv
  have hb := ref_binOp_ofBytes_64 (.inl rfl) hv
  subst hb
  rw [ofBytes8, ref_add_64] at hv
  cases hv
  rw [constToI64_8, BitVec.add_comm, BitVec.add_assoc]

theorem eval_sp_sub_const {σ : State} {sp : Variable} {S j : BitVec 64} {b x : Nat} {v : Bv}
    (hreg : σ.getReg sp = ⟨64, S + j⟩) (h : eval σ (.BinOp .IntSub (.Var sp) (.Const b x)) = some v) :
    b = 8 ∧ v = ⟨64, S + (j - BitVec.ofNat 64 x)⟩ := by
  obtain ⟨a, c, ha, hc, hv⟩ := eval_binOp_some.mp h
  simp only [eval, Option.some.injEq] at ha hc
  subst ha; subst hc
  rw [hreg] at hv
  have hb := ref_binOp_64_ofBytes (.inr rfl) hv
  subst hb
  rw [ofBytes8, ref_sub_64] at hv
  cases hv
  refine ⟨rfl, ?_⟩
  rw [BitVec.sub_eq_add_neg, BitVec.sub_eq_add_neg, BitVec.add_assoc]

/-- a reported (not performed) substitution leaves the expression unchanged -/
theorem substituteAnd_unchanged {sp : Variable} {e : Expression} {ea j : BitVec 64}
    (h : (substituteAnd sp e ea j).2.1 ≠ []) : (substituteAnd sp e ea j).1 = e ∧ (substituteAnd sp e ea j).2.2 = j := by
  cases e with
  | BinOp op l r =>
    simp only [substituteAnd] at h ⊢
    cases hp : spConstPair sp l r with
    | none => exact ⟨rfl, rfl⟩
    | some bx =>
      obtain ⟨b, x⟩ := bx
      simp only [hp] at h ⊢
      by_cases hop : op = .IntAnd
      · subst hop
        simp only [if_true] at h ⊢
        by_cases hne : negConstToI64 b x ≠ ea
        · rw [if_pos hne]; exact ⟨rfl, rfl⟩
        · rw [if_neg hne] at h; exact absurd rfl h
      · rw [if_neg hop]; exact ⟨rfl, rfl⟩
  | Var _ => exact ⟨rfl, rfl⟩
  | Const _ _ => exact ⟨rfl, rfl⟩
  | UnOp _ _ => exact ⟨rfl, rfl⟩
  | Cast _ _ _ => exact ⟨rfl, rfl⟩
  | Unknown _ _ => exact ⟨rfl, rfl⟩
  | Subpiece _ _ _ => exact ⟨rfl, rfl⟩

/-- a performed substitution: the shape of the output -/
theorem substituteAnd_shape {sp : Variable} {e : Expression} {ea j : BitVec 64}
    (h : (substituteAnd sp e ea j).2.1 = []) :
    ∃ b x, (substituteAnd sp e ea j).1 = .BinOp .IntSub (.Var sp) (.Const b (i64ToConst b (alignOffset j (constToI64 b x)))) ∧
      (substituteAnd sp e ea j).2.2 = j - alignOffset j (constToI64 b x) := by
  cases e with
  | BinOp op l r =>
    simp only [substituteAnd] at h ⊢
    cases hp : spConstPair sp l r with
    | none => simp [hp] at h
    | some bx =>
      obtain ⟨b, x⟩ := bx
      simp only [hp] at h ⊢
      by_cases hop : op = .IntAnd
      · subst hop
        simp only [if_true] at h ⊢
        by_cases hne : negConstToI64 b x ≠ ea
        · rw [if_pos hne] at h; simp at h
        · rw [if_neg hne]; exact ⟨b, x, rfl, rfl⟩
      · rw [if_neg hop] at h; simp at h
  | Var _ => simp [substituteAnd] at h
  | Const _ _ => simp [substituteAnd] at h
  | UnOp _ _ => simp [substituteAnd] at h
  | Cast _ _ _ => simp [substituteAnd] at h
  | Unknown _ _ => simp [substituteAnd] at h
  | Subpiece _ _ _ => simp [substituteAnd] at h

/-- the invariant of the def loop: the pass has given up, or the stack pointer is `S + journaled` -/
def SaInv (sp : Variable) (S : BitVec 64) (acc : SaAcc) (σ : State) : Prop :=
  acc.stop = true ∨ σ.getReg sp = ⟨64, S + acc.journaled⟩

private theorem execDef_assign_some {σ σ₁ : State} {v : Variable} {e : Expression} {evs : List Event}
    (h : execDef σ (.Assign v e) = some (σ₁, evs)) : ∃ x, eval σ e = some x ∧ σ₁ = σ.setReg v x := by
  simp only [Sem.execDef] at h
  cases he : eval σ e with
  | none => rw [he] at h; cases h
  | some x =>
    rw [he] at h
    simp only [Option.bind_eq_bind, Option.bind_some] at h
    split at h
    · cases h
    · cases h; exact ⟨x, rfl, rfl⟩

private theorem execDef_assign_congr {σ : State} {v : Variable} {e e' : Expression} (h : eval σ e' = eval σ e) :
    execDef σ (.Assign v e') = execDef σ (.Assign v e) := by
  simp only [Sem.execDef, h]

private theorem getReg_setReg_self (σ : State) (v : Variable) (x : Bv) : (σ.setReg v x).getReg v = x := by
  rw [getReg_setReg, if_pos rfl]

private theorem getReg_setReg_ne (σ : State) {v w : Variable} (x : Bv) (h : w ≠ v) : (σ.setReg v x).getReg w = σ.getReg w := by
  rw [getReg_setReg, if_neg h]

/-- a def that does not write the stack pointer keeps it -/
theorem execDef_keeps_sp {σ σ₁ : State} {sp : Variable} {d : Def} {evs : List Event}
    (hd : execDef σ d = some (σ₁, evs))
    (hne : match d with | .Assign v _ => v ≠ sp | .Load v _ => v ≠ sp | .Store _ _ => True) :
    σ₁.getReg sp = σ.getReg sp := by
  cases d with
  | Assign v e =>
    obtain ⟨x, _, rfl⟩ := execDef_assign_some hd
    exact getReg_setReg_ne σ x (Ne.symm hne)
  | Load v a =>
    simp only [Sem.execDef] at hd
    cases he : eval σ a with
    | none => rw [he] at hd; cases hd
    | some x =>
      rw [he] at hd
      simp only [Option.bind_eq_bind, Option.bind_some, Option.some.injEq, Prod.mk.injEq] at hd
      obtain ⟨rfl, _⟩ := hd
      exact getReg_setReg_ne σ _ (Ne.symm hne)
  | Store a e =>
    simp only [Sem.execDef] at hd
    cases ha : eval σ a with
    | none => rw [ha] at hd; cases hd
    | some x =>
      cases he : eval σ e with
      | none => rw [ha, he] at hd; cases hd
      | some y =>
        rw [ha, he] at hd
        simp only [Option.bind_eq_bind, Option.bind_some, Option.some.injEq, Prod.mk.injEq] at hd
        obtain ⟨rfl, _⟩ := hd
        exact getReg_writeMem _ _ _ _ _


theorem journalSpValue_spec {j j' : BitVec 64} {isPlus : Bool} {l r : Expression} {sp : Variable}
    (h : journalSpValue j isPlus l r sp = some j') :
    ∃ b x, (l = .Var sp ∧ r = .Const b x ∧ j' = if isPlus then j + constToI64 b x else j - constToI64 b x) ∨
      (isPlus = true ∧ l = .Const b x ∧ r = .Var sp ∧ j' = j + constToI64 b x) := by
  unfold journalSpValue at h
  split at h
  · next v b x =>
    split at h
    · next hv => cases h; subst hv; exact ⟨b, x, .inl ⟨rfl, rfl, rfl⟩⟩
    · cases h
  · next b x v =>
    split at h
    · next hv => cases h; obtain ⟨hp, rfl⟩ := hv; exact ⟨b, x, .inr ⟨hp, rfl, rfl, rfl⟩⟩
    · cases h
  · cases h

theorem ofNat_i64ToConst_8 (o : BitVec 64) : BitVec.ofNat 64 (i64ToConst 8 o) = o := by
  apply BitVec.eq_of_toNat_eq
  simp [i64ToConst, Nat.mod_eq_of_lt o.isLt]

/-- one step of the def loop: the produced def executes exactly like the original one (including getting
stuck), and the loop invariant is kept along successful executions -/
theorem saStepDef_sound (sp : Variable) (S : BitVec 64) (hS : S.toNat % 2 ^ 4 = 0) (acc : SaAcc) (d : Term Def) :
    ∃ d', (saStepDef sp 16#64 acc d).defs = d' :: acc.defs ∧
      ∀ σ, SaInv sp S acc σ → execDef σ d'.term = execDef σ d.term ∧
        ∀ σ₁ evs, execDef σ d.term = some (σ₁, evs) → SaInv sp S (saStepDef sp 16#64 acc d) σ₁ := by
  unfold saStepDef
  split
  · next hstop => exact ⟨d, rfl, fun σ _ => ⟨rfl, fun _ _ _ => .inl hstop⟩⟩
  · next hstop =>
    have hreg : ∀ σ, SaInv sp S acc σ → σ.getReg sp = ⟨64, S + acc.journaled⟩ := by
      intro σ h; rcases h with h | h
      · exact absurd h hstop
      · exact h
    split
    · next v value hdt =>
      split
      · next hv =>
        subst hv
        split
        · next l r =>
          split
          · next j hj =>
            refine ⟨d, rfl, fun σ hi => ⟨rfl, fun σ₁ evs hex => .inr ?_⟩⟩
            rw [hdt] at hex
            obtain ⟨xv, hev, rfl⟩ := execDef_assign_some hex
            rw [getReg_setReg_self]
            obtain ⟨b, x, ⟨rfl, rfl, rfl⟩ | ⟨_, rfl, rfl, rfl⟩⟩ := journalSpValue_spec hj
            · exact eval_sp_add_const (hreg σ hi) hev
            · exact eval_const_add_sp (hreg σ hi) hev
          · exact ⟨d, rfl, fun σ _ => ⟨rfl, fun _ _ _ => .inl rfl⟩⟩
        · next l r =>
          split
          · next j hj =>
            refine ⟨d, rfl, fun σ hi => ⟨rfl, fun σ₁ evs hex => .inr ?_⟩⟩
            rw [hdt] at hex
            obtain ⟨xv, hev, rfl⟩ := execDef_assign_some hex
            rw [getReg_setReg_self]
            obtain ⟨b, x, ⟨rfl, rfl, rfl⟩ | ⟨hp, _⟩⟩ := journalSpValue_spec hj
            · obtain ⟨rfl, rfl⟩ := eval_sp_sub_const (hreg σ hi) hev
              simp only [Bool.false_eq_true, if_false, constToI64_8]
            · cases hp
          · exact ⟨d, rfl, fun σ _ => ⟨rfl, fun _ _ _ => .inl rfl⟩⟩
        · next op l r hnadd hnsub =>
          have hunch := substituteAnd_unchanged (sp := v) (e := .BinOp op l r) (ea := 16#64) (j := acc.journaled)
          have hshape := substituteAnd_shape (sp := v) (e := .BinOp op l r) (ea := 16#64) (j := acc.journaled)
          have heval := fun (σ : State) (hr : σ.getReg v = ⟨64, S + acc.journaled⟩) =>
            substituteAnd_eval hS hr (.BinOp op l r)
          generalize substituteAnd v (.BinOp op l r) 16#64 acc.journaled = r3 at *
          obtain ⟨e', msgs, j'⟩ := r3
          simp only at hunch hshape heval ⊢
          refine ⟨{ tid := d.tid, term := .Assign v e' }, rfl, fun σ hi => ?_⟩
          rw [hdt]
          by_cases hm : msgs = []
          · subst hm
            have he := heval σ (hreg σ hi) rfl
            refine ⟨execDef_assign_congr he, fun σ₁ evs hex => .inr ?_⟩
            obtain ⟨xv, hev, rfl⟩ := execDef_assign_some hex
            rw [getReg_setReg_self]
            obtain ⟨b, x, rfl, rfl⟩ := hshape rfl
            rw [← he] at hev
            obtain ⟨rfl, rfl⟩ := eval_sp_sub_const (hreg σ hi) hev
            simp only [ofNat_i64ToConst_8]
          · obtain ⟨rfl, rfl⟩ := hunch hm
            refine ⟨rfl, fun _ _ _ => .inl ?_⟩
            cases msgs with
            | nil => exact absurd rfl hm
            | cons _ _ => rfl
        · exact ⟨d, rfl, fun σ _ => ⟨rfl, fun _ _ _ => .inl rfl⟩⟩
      · next hv =>
        refine ⟨d, rfl, fun σ hi => ⟨rfl, fun σ₁ evs hex => .inr ?_⟩⟩
        rw [hdt] at hex
        rw [execDef_keeps_sp hex hv]
        exact hreg σ hi
    · next v a hdt =>
      split
      · exact ⟨d, rfl, fun σ _ => ⟨rfl, fun _ _ _ => .inl rfl⟩⟩
      · next hv =>
        refine ⟨d, rfl, fun σ hi => ⟨rfl, fun σ₁ evs hex => .inr ?_⟩⟩
        rw [hdt] at hex
        rw [execDef_keeps_sp hex hv]
        exact hreg σ hi
    · next hna hnl =>
      refine ⟨d, rfl, fun σ hi => ⟨rfl, fun σ₁ evs hex => .inr ?_⟩⟩
      cases hdt : d.term with
      | Assign v e => exact absurd hdt (fun h => hna v e h)
      | Load v a => exact absurd hdt (fun h => hnl v a h)
      | Store a e =>
        rw [hdt] at hex
        rw [execDef_keeps_sp (sp := sp) hex trivial]
        exact hreg σ hi

/-- **step 4.** the def loop: the produced defs execute exactly like the original ones from every state that
satisfies the loop invariant -/
theorem saFold_sound (sp : Variable) (S : BitVec 64) (hS : S.toNat % 2 ^ 4 = 0) (defs : List (Term Def)) :
    ∀ acc : SaAcc, ∃ out, (defs.foldl (saStepDef sp 16#64) acc).defs = out.reverse ++ acc.defs ∧
      ∀ σ, SaInv sp S acc σ → execDefs σ out = execDefs σ defs := by
  induction defs with
  | nil => intro acc; exact ⟨[], rfl, fun _ _ => rfl⟩
  | cons d ds ih =>
    intro acc
    obtain ⟨d', hd', hstep⟩ := saStepDef_sound sp S hS acc d
    obtain ⟨out, hout, hrest⟩ := ih (saStepDef sp 16#64 acc d)
    refine ⟨d' :: out, ?_, fun σ hi => ?_⟩
    · simp only [List.foldl, hout, hd', List.reverse_cons, List.append_assoc, List.singleton_append]
    · obtain ⟨h1, h2⟩ := hstep σ hi
      simp only [Sem.execDefs, h1]
      cases hex : execDef σ d.term with
      | none => rfl
      | some r =>
        obtain ⟨σ₁, e₁⟩ := r
        simp only [Option.bind_eq_bind, Option.bind_some]
        rw [hrest σ₁ (h2 σ₁ e₁ hex)]


/-! ### step 5: the run -/

/-- same-state simulation without a no-stuck hypothesis: under an invariant `I` of the original run, corresponding
blocks have the same jumps and defs that execute identically (including getting stuck) -/
theorem runBlocks_sameDefs (env : Env) (blocks blocks' : List (Term Blk)) (I : Tid → State → Prop)
    (hnone : ∀ t, blocks.find? (fun b => b.tid == t) = none → blocks'.find? (fun b => b.tid == t) = none)
    (hsome : ∀ t σ b, I t σ → blocks.find? (fun b => b.tid == t) = some b →
      ∃ b', blocks'.find? (fun b => b.tid == t) = some b' ∧ b'.term.jmps = b.term.jmps ∧
        execDefs σ b'.term.defs = execDefs σ b.term.defs)
    (hinv : ∀ t σ c b σ₁ evs evs₂ t₂ σ₂ c₂, I t σ → blocks.find? (fun b => b.tid == t) = some b →
      execDefs σ b.term.defs = some (σ₁, evs) → execJmps env σ₁ c b.term.jmps = (evs₂, .goto t₂ σ₂ c₂) → I t₂ σ₂) :
    ∀ fuel t σ c, I t σ → runBlocks env blocks' fuel t σ c = runBlocks env blocks fuel t σ c := by
  intro fuel
  induction fuel with
  | zero => intro t σ c _; rfl
  | succ n ih =>
    intro t σ c hI
    cases hb : blocks.find? (fun b => b.tid == t) with
    | none => rw [runBlocks_none hb, runBlocks_none (hnone t hb)]
    | some b =>
      obtain ⟨b', hb', hj', hd'⟩ := hsome t σ b hI hb
      cases hd : execDefs σ b.term.defs with
      | none => rw [runBlocks_defs_none hb hd, runBlocks_defs_none hb' (hd'.trans hd)]
      | some r =>
        obtain ⟨σ₁, evs⟩ := r
        cases hjm : execJmps env σ₁ c b.term.jmps with
        | mk evs₂ nxt =>
          cases nxt with
          | stop => rw [runBlocks_stop hb hd hjm, runBlocks_stop hb' (hd'.trans hd) (hj' ▸ hjm)]
          | goto t₂ σ₂ c₂ =>
            rw [runBlocks_goto hb hd hjm, runBlocks_goto hb' (hd'.trans hd) (hj' ▸ hjm),
              ih t₂ σ₂ c₂ (hinv t σ c b σ₁ evs evs₂ t₂ σ₂ c₂ hI hb hd hjm)]

theorem find?_set_none {l : List (Term Blk)} {i : Nat} {b b' : Term Blk} {t : Tid} (hb' : b'.tid = b.tid)
    (hi : l[i]? = some b) (hn : l.find? (fun x => x.tid == t) = none) :
    (l.set i b').find? (fun x => x.tid == t) = none := by
  have hm : b ∈ l := List.mem_of_getElem? hi
  have : (b.tid == t) = false := by
    have := List.find?_eq_none.mp hn b hm
    simpa using this
  rw [find?_set_other hb' hi this, hn]

/-- the run of a function in which the block `idx` found by `get_first_blk_with_defs` is replaced by a block with
the same tid and jumps whose defs execute like the original ones whenever the stack pointer has its entry value -/
theorem runBlocks_replace_chain (env : Env) (s : Sub) (idx : Nat) (tb blk' : Term Blk) (R : Bv)
    (hidx : s.blocks[idx]? = some tb) (hfi : s.blocks.findIdx? (fun b => b.tid == tb.tid) = some idx)
    (hf : s.blocks.find? (fun b => b.tid == tb.tid) = some tb) (hc : Chain s tb.tid)
    (htid : blk'.tid = tb.tid) (hjmps : blk'.term.jmps = tb.term.jmps)
    (hdefs : ∀ σ, σ.getReg env.sp = R → execDefs σ blk'.term.defs = execDefs σ tb.term.defs) :
    ∀ fuel t σ c, (Chain s t → σ.getReg env.sp = R) →
      runBlocks env (s.blocks.set idx blk') fuel t σ c = runBlocks env s.blocks fuel t σ c := by
  refine runBlocks_sameDefs env s.blocks _ (fun t σ => Chain s t → σ.getReg env.sp = R) ?_ ?_ ?_
  · intro t hn; exact find?_set_none htid hidx hn
  · intro t σ b hI hb
    cases ht : tb.tid == t with
    | true =>
      have ht' : tb.tid = t := by simpa using ht
      subst ht'
      rw [hf] at hb; cases hb
      exact ⟨blk', find?_set_same htid hfi hf, hjmps, hdefs σ (hI hc)⟩
    | false => exact ⟨b, by rw [find?_set_other htid hidx ht, hb], rfl, rfl⟩
  · intro t σ c b σ₁ evs evs₂ t₂ σ₂ c₂ hI hb hd hj
    exact chain_step hI hb hd hj

/-- **C10-stack-alignment-run.** For every function, every fuel and every well-formed initial state in which the
8-byte stack pointer is 16-byte aligned, the function produced by `substitute_and_on_stackpointer` (expected
alignment 16) has exactly the same observable trace as the original function: the substituted block is entered
only with the function-entry stack pointer, so the substitution `SP & -16 ↦ SP - c` is valid on every run.
No no-stuck hypothesis: defs that get stuck get stuck identically in both functions. -/
theorem saSub_runSub (env : Env) (s : Term Sub) (logs : List String) (σ : State) (fuel : Nat)
    (hsp : env.sp.size = 8) (hσ : StateWF σ) (halign : (σ.getReg env.sp).toNat % 16 = 0) :
    runSub env (saSub env.sp 16#64 logs s).1.term σ fuel = runSub env s.term σ fuel := by
  unfold saSub
  split
  · rfl
  · next idx hidx =>
    split
    · rfl
    · next blk hblk =>
      obtain ⟨tb, htb, hfi, hf, hc⟩ := firstBlkWithDefs_chain hidx
      rw [hblk] at htb; cases htb
      -- the entry value of the stack pointer
      have hw : (σ.getReg env.sp).w = 64 := by rw [hσ env.sp, hsp]
      obtain ⟨S, hS⟩ : ∃ S : BitVec 64, σ.getReg env.sp = ⟨64, S⟩ := by
        generalize σ.getReg env.sp = r at hw
        obtain ⟨w, v⟩ := r
        simp only at hw; subst hw
        exact ⟨v, rfl⟩
      have hS16 : S.toNat % 2 ^ 4 = 0 := by
        rw [hS] at halign; exact halign
      obtain ⟨out, hout, hexec⟩ := saFold_sound env.sp S hS16 blk.term.defs
        { journaled := 0, logs := logs, stop := false, defs := [] }
      simp only [List.append_nil] at hout
      have key := runBlocks_replace_chain env s.term idx blk
        { blk with term := { blk.term with defs := out } } ⟨64, S⟩ hblk hfi hf hc rfl rfl
        (fun σ' hr => hexec σ' (.inr (by rw [hr]; simp)))
      simp only [hout, List.reverse_reverse, replaceAt, runSub]
      cases hbl : s.term.blocks with
      | nil => rfl
      | cons b bs =>
        have hk := key fuel b.tid σ 0 (fun _ => hS)
        rw [hbl] at hk hblk
        cases idx with
        | zero =>
          simp only [List.getElem?_cons_zero, Option.some.injEq] at hblk
          subst hblk
          simpa [List.set] using hk
        | succ k => simpa [List.set] using hk


/-! ### the program level -/

/-- the def loop does not look at the log -/
theorem saStepDef_core (sp : Variable) (ea : BitVec 64) (a b : SaAcc) (d : Term Def)
    (h : a.journaled = b.journaled ∧ a.stop = b.stop ∧ a.defs = b.defs) :
    (saStepDef sp ea a d).journaled = (saStepDef sp ea b d).journaled ∧
    (saStepDef sp ea a d).stop = (saStepDef sp ea b d).stop ∧
    (saStepDef sp ea a d).defs = (saStepDef sp ea b d).defs := by
  obtain ⟨aj, al, as, ad⟩ := a
  obtain ⟨bj, bl, bs, bd⟩ := b
  simp only at h
  obtain ⟨rfl, rfl, rfl⟩ := h
  unfold saStepDef
  simp only
  repeat' split
  all_goals simp_all

theorem saFold_core (sp : Variable) (ea : BitVec 64) (defs : List (Term Def)) : ∀ (a b : SaAcc),
    (a.journaled = b.journaled ∧ a.stop = b.stop ∧ a.defs = b.defs) →
    (defs.foldl (saStepDef sp ea) a).defs = (defs.foldl (saStepDef sp ea) b).defs := by
  induction defs with
  | nil => intro a b h; exact h.2.2
  | cons d ds ih => intro a b h; exact ih _ _ (saStepDef_core sp ea a b d h)

/-- the function `saSub` produces does not depend on the log passed in -/
theorem saSub_fst_logs (sp : Variable) (ea : BitVec 64) (logs : List String) (s : Term Sub) :
    (saSub sp ea logs s).1 = (saSub sp ea [] s).1 := by
  unfold saSub
  split
  · rfl
  · split
    · rfl
    · simp only
      rw [saFold_core sp ea _ { journaled := 0, logs := logs, stop := false, defs := [] }
        { journaled := 0, logs := [], stop := false, defs := [] } ⟨rfl, rfl, rfl⟩]

/-- every function of the output program is `saSub` of the corresponding input function (for some log prefix) -/
theorem substituteAndOnStackpointer_subs (arch : String) (sp : Variable) (p : Program) :
    (substituteAndOnStackpointer arch sp p).1.subs =
      p.subs.map (fun s => (saSub sp (expectedAlignmentOf arch) [] s).1) := by
  unfold substituteAndOnStackpointer
  have key : ∀ (subs : List (Term Sub)) (acc : List (Term Sub) × List String),
      (subs.foldl (fun (acc : List (Term Sub) × List String) s =>
        ((saSub sp (expectedAlignmentOf arch) acc.2 s).1 :: acc.1, (saSub sp (expectedAlignmentOf arch) acc.2 s).2))
        acc).1 = (subs.map (fun s => (saSub sp (expectedAlignmentOf arch) [] s).1)).reverse ++ acc.1 := by
    intro subs
    induction subs with
    | nil => intro acc; rfl
    | cons s ss ih =>
      intro acc
      simp only [List.foldl, List.map, List.reverse_cons, List.append_assoc, List.singleton_append]
      rw [ih, saSub_fst_logs]
  have := key p.subs ([], [])
  simp only [List.append_nil] at this
  show (List.reverse _) = _
  rw [this, List.reverse_reverse]

theorem expectedAlignmentOf_x86_64 : expectedAlignmentOf "x86_64" = 16#64 := by decide

private theorem mem_zip_map_self {α β : Type} (g : α → β) {l : List α} {ss : α × β} (h : ss ∈ l.zip (l.map g)) :
    ss.2 = g ss.1 := by
  induction l with
  | nil => cases h
  | cons x xs ih =>
    simp only [List.map, List.zip_cons_cons, List.mem_cons] at h
    rcases h with rfl | h
    · rfl
    · exact ih h

/-- **C10-stack-alignment-run (program).** On x86_64 every function of the output of
`substitute_and_on_stackpointer` has the same trace as the corresponding input function, from every well-formed
state in which the 8-byte stack pointer is 16-byte aligned at function entry. -/
theorem substituteAndOnStackpointer_runSub (env : Env) (p : Program) (σ : State) (fuel : Nat)
    (hsp : env.sp.size = 8) (hσ : StateWF σ) (halign : (σ.getReg env.sp).toNat % 16 = 0) :
    ∀ ss ∈ p.subs.zip (substituteAndOnStackpointer "x86_64" env.sp p).1.subs,
      runSub env ss.2.term σ fuel = runSub env ss.1.term σ fuel := by
  intro ss hss
  rw [substituteAndOnStackpointer_subs] at hss
  rw [mem_zip_map_self _ hss, expectedAlignmentOf_x86_64]
  exact saSub_runSub env ss.1 [] σ fuel hsp hσ halign


/-! ### non-vacuity -/

namespace RunStackAlignExample

private def rsp : Variable := { name := "RSP", size := 8, isTemp := false }
private def mask : Nat := 0xfffffffffffffff0
private def blk0 : Term Blk :=
  { tid := { id := "blk0" },
    term := { defs := [], jmps := [{ tid := { id := "j0" }, term := .Branch { id := "blk1" } }] } }
private def blk1 : Term Blk :=
  { tid := { id := "blk1" },
    term := {
      defs := [{ tid := { id := "d0" }, term := .Assign rsp (.BinOp .IntSub (.Var rsp) (.Const 8 8)) },
               { tid := { id := "d1" }, term := .Assign rsp (.BinOp .IntAnd (.Var rsp) (.Const 8 mask)) }],
      jmps := [{ tid := { id := "j1" }, term := .Return (.Const 8 0) }] } }

/-- `blk0: goto blk1;  blk1: RSP = RSP - 8; RSP = RSP & 0xffff_ffff_ffff_fff0; return` -/
private def fn : Term Sub := { tid := { id := "sub" }, term := { name := "f", blocks := [blk0, blk1] } }

/-- the pass really rewrites the masking: `RSP & -16` becomes `RSP - 8` -/
example : ((saSub rsp 16#64 [] fn).1.term.blocks.map (fun b => b.term.defs.map (·.term))) =
    [[], [.Assign rsp (.BinOp .IntSub (.Var rsp) (.Const 8 8)),
          .Assign rsp (.BinOp .IntSub (.Var rsp) (.Const 8 8))]] := by rfl

/-- the hypotheses of `saSub_runSub` are satisfiable: a well-formed state with a 16-byte aligned stack pointer -/
example : StateWF (State.setReg { seed := 0 } rsp ⟨64, 0x7ffd00001230#64⟩) ∧
    ((State.setReg { seed := 0 } rsp ⟨64, 0x7ffd00001230#64⟩).getReg rsp).toNat % 16 = 0 :=
  ⟨(stateWF_default 0).setReg _ _ rfl, by rw [getReg_setReg_self]; decide⟩

end RunStackAlignExample
end CweModel.C10
