/-
C10 — the run-time hypothesis H2 (`RunLocals`: every variable read is a physical register or was assigned
since the last call) of the run of the UNOPTIMISED function implies H2 of the run of the function after the
first two stages of `normalize_optimize` (expression propagation, trivial expression substitution), which is
what dead variable elimination needs.

  * merging of assignments `v = e₁; v = e₂ ⇝ v = e₂[v ↦ e₁]` reads the variables of `e₁` and those of `e₂`
    other than `v`;
  * the block-local insertion reads, in addition to the variables of the original expression, variables of
    table entries; every entry of every table (of the fixpoint and of the block-local loop) was created
    from expressions evaluated since the last call (calls reset the tables), so its variables are physical
    or assigned since then (`TableLocal`);
  * `substitute_trivial_operations` introduces no variable (`substTrivial_inputVars`, TrivialVars.lean).
Core-only.
-/
import CweModel.C10.RunDeadVars
import CweModel.C10.TrivialVars

namespace CweModel.C10
open CweModel CweModel.IR CweModel.Sem CweModel.C12

/-! ### monotonicity in the set of assigned variables -/

/-- every variable of `D` is physical or in `D'` -/
def SubL (phys : VarSet) (D D' : List Variable) : Prop := ∀ v ∈ D, v ∈ phys ∨ v ∈ D'

theorem SubL.refl (phys : VarSet) (D : List Variable) : SubL phys D D := fun _ hv => .inr hv

theorem SubL.nil (phys : VarSet) (D' : List Variable) : SubL phys [] D' := fun _ hv => by cases hv

theorem SubL.cons {phys : VarSet} {D D' : List Variable} (h : SubL phys D D') (v : Variable) :
    SubL phys (v :: D) (v :: D') := by
  intro w hw
  rcases List.mem_cons.mp hw with e | e
  · exact .inr (e ▸ List.mem_cons_self)
  · rcases h w e with h | h
    · exact .inl h
    · exact .inr (List.mem_cons_of_mem _ h)

theorem ExprLocal.mono {phys : VarSet} {D D' : List Variable} {e : Expression} (hs : SubL phys D D')
    (h : ExprLocal phys D e) : ExprLocal phys D' e := by
  intro v hv
  rcases h v hv with h | h
  · exact .inl h
  · exact hs v h

/-- H2 for the jump expressions of a block -/
def JmpsLocal (phys : VarSet) (D : List Variable) (jmps : List (Term Jmp)) : Prop :=
  ∀ j ∈ jmps, ∀ e ∈ jmpExprs j.term, ExprLocal phys D e

theorem JmpsLocal.mono {phys : VarSet} {D D' : List Variable} {jmps : List (Term Jmp)} (hs : SubL phys D D')
    (h : JmpsLocal phys D jmps) : JmpsLocal phys D' jmps := fun j hj e he => (h j hj e he).mono hs

/-! ### the generic transport along a same-state simulation -/

/-- the premise of the plain same-state simulation `runBlocks_sameState` (RunLemmas.lean) -/
def BlockSim0 (env : Env) (blocks blocks' : List (Term Blk)) (I : Nat → Tid → State → Nat → Prop) : Prop :=
  ∀ n t σ c b b', I (n + 1) t σ c → blocks.find? (fun b => b.tid == t) = some b →
    blocks'.find? (fun b => b.tid == t) = some b' →
    ∀ σ₁ evs, execDefs σ b.term.defs = some (σ₁, evs) →
      execDefs σ b'.term.defs = some (σ₁, evs) ∧
      (NoStuck (execJmps env σ₁ c b.term.jmps).1 →
        execJmps env σ₁ c b'.term.jmps = execJmps env σ₁ c b.term.jmps ∧
        ∀ evs₂ t₂ σ₂ c₂, execJmps env σ₁ c b.term.jmps = (evs₂, .goto t₂ σ₂ c₂) → I n t₂ σ₂ c₂)

theorem BlockSim.toSim0 {env : Env} {blocks blocks' : List (Term Blk)} {I : Nat → Tid → State → Nat → Prop}
    (h : BlockSim env blocks blocks' I) : BlockSim0 env blocks blocks' I := by
  intro n t σ c b b' hI hb hb' σ₁ evs hd
  obtain ⟨_, hdx, hjx⟩ := h n t σ c b b' hI hb hb' σ₁ evs hd
  exact ⟨hdx, fun hns => (hjx hns).2⟩

/-- **C10-H2-transport.** Let `blocks'` simulate `blocks` in the same states (`BlockSim0` with invariant `I₀`),
and let `J t D'` be a syntactic invariant at the entry of block `t` (`D'` = the variables the NEW run has
assigned since the last call). If for every block the new defs and jumps keep H2 relative to `D'` whenever the
original ones keep it relative to a `D` contained in `D'`, the new block assigns at least the variables the
original assigns, and `J` holds at every block the run continues at, then H2 of the original run implies H2 of
the new run. -/
theorem runLocals_transport (env : Env) (phys : VarSet) (blocks blocks' : List (Term Blk))
    (I₀ : Nat → Tid → State → Nat → Prop) (J : Tid → List Variable → Prop)
    (hfind : ∀ t, (blocks'.find? (fun b => b.tid == t)).isSome = (blocks.find? (fun b => b.tid == t)).isSome)
    (hsim : BlockSim0 env blocks blocks' I₀)
    (hloc : ∀ n t σ c D D' b b', I₀ (n + 1) t σ c → SubL phys D D' → J t D' →
      blocks.find? (fun b => b.tid == t) = some b → blocks'.find? (fun b => b.tid == t) = some b' →
      DefsLocal phys D b.term.defs → JmpsLocal phys (defdAfter D b.term.defs) b.term.jmps →
        DefsLocal phys D' b'.term.defs ∧ SubL phys (defdAfter D b.term.defs) (defdAfter D' b'.term.defs) ∧
        JmpsLocal phys (defdAfter D' b'.term.defs) b'.term.jmps ∧
        ∀ σ₁ evs, execDefs σ b.term.defs = some (σ₁, evs) →
          ∀ evs₂ t₂ σ₂ c₂, execJmps env σ₁ c b.term.jmps = (evs₂, .goto t₂ σ₂ c₂) →
            J t₂ (if c₂ = c then defdAfter D' b'.term.defs else [])) :
    ∀ fuel t σ c D D', I₀ fuel t σ c → SubL phys D D' → J t D' → RunLocals env phys blocks fuel t σ c D →
      NoStuck (runBlocks env blocks fuel t σ c) → RunLocals env phys blocks' fuel t σ c D' := by
  intro fuel
  induction fuel with
  | zero => intro t σ c D D' _ _ _ _ _; trivial
  | succ n ih =>
    intro t σ c D D' hI hsub hJ hrl hns b' hb' σ₁' evs' hd'
    cases hb : blocks.find? (fun b => b.tid == t) with
    | none =>
      have := hfind t
      rw [hb, hb'] at this; cases this
    | some b =>
      cases hd : execDefs σ b.term.defs with
      | none => rw [runBlocks_defs_none hb hd] at hns; exact absurd hns (not_noStuck_stuck _)
      | some r =>
        obtain ⟨σ₁, evs⟩ := r
        obtain ⟨hdl, hjl, hnext⟩ := hrl b hb σ₁ evs hd
        obtain ⟨hdx, hjx⟩ := hsim n t σ c b b' hI hb hb' σ₁ evs hd
        obtain ⟨rfl, rfl⟩ := Prod.mk.inj (Option.some.inj (hdx.symm.trans hd'))
        obtain ⟨hdl', hsub₁, hjl', hJnext⟩ := hloc n t σ c D D' b b' hI hsub hJ hb hb' hdl hjl
        refine ⟨hdl', hjl', fun evs₂ t₂ σ₂ c₂ hjm' => ?_⟩
        have hns₂ : NoStuck (execJmps env σ₁ c b.term.jmps).1 := by
          cases hjm : execJmps env σ₁ c b.term.jmps with
          | mk e₂ nxt =>
            cases nxt with
            | stop => rw [runBlocks_stop hb hd hjm] at hns; exact hns.append_right
            | goto _ _ _ => rw [runBlocks_goto hb hd hjm] at hns; exact hns.append_left.append_right
        obtain ⟨hjeq, hInext⟩ := hjx hns₂
        rw [hjeq] at hjm'
        rw [runBlocks_goto hb hd hjm'] at hns
        refine ih t₂ σ₂ c₂ _ _ (hInext evs₂ t₂ σ₂ c₂ hjm') ?_ (hJnext σ₁ evs hd evs₂ t₂ σ₂ c₂ hjm')
          (hnext evs₂ t₂ σ₂ c₂ hjm') hns.append_right
        by_cases hc : c₂ = c
        · simp only [hc, if_true]; exact hsub₁
        · simp only [hc, if_false]; exact SubL.nil _ _

/-! ### syntactic facts -/

theorem substVar_inputVars {e x : Expression} {v w : Variable} (h : w ∈ (e.substVar v x).inputVars) :
    (w ∈ e.inputVars ∧ w ≠ v) ∨ w ∈ x.inputVars := by
  induction e with
  | Var u =>
    simp only [Expression.substVar] at h
    split at h
    · exact .inr h
    · next hne =>
      simp only [Expression.inputVars, List.mem_singleton] at h ⊢
      subst h
      exact .inl ⟨rfl, hne⟩
  | Const _ _ => simp [Expression.substVar, Expression.inputVars] at h
  | Unknown _ _ => simp [Expression.substVar, Expression.inputVars] at h
  | BinOp op l r ihl ihr =>
    simp only [Expression.substVar, Expression.inputVars, List.mem_append] at h ⊢
    rcases h with h | h
    · rcases ihl h with ⟨h1, h2⟩ | h1
      · exact .inl ⟨.inl h1, h2⟩
      · exact .inr h1
    · rcases ihr h with ⟨h1, h2⟩ | h1
      · exact .inl ⟨.inr h1, h2⟩
      · exact .inr h1
  | UnOp op a ih => simp only [Expression.substVar, Expression.inputVars] at h ⊢; exact ih h
  | Cast op sz a ih => simp only [Expression.substVar, Expression.inputVars] at h ⊢; exact ih h
  | Subpiece lb sz a ih => simp only [Expression.substVar, Expression.inputVars] at h ⊢; exact ih h

/-- substituting an expression that is local for a variable keeps an expression local -/
theorem ExprLocal.substVar {phys : VarSet} {D : List Variable} {e x : Expression} (he : ExprLocal phys D e)
    (hx : ExprLocal phys D x) (v : Variable) : ExprLocal phys D (e.substVar v x) := by
  intro w hw
  rcases substVar_inputVars hw with ⟨h, _⟩ | h
  · exact he w h
  · exact hx w h

theorem ExprLocal.substTrivial {phys : VarSet} {D : List Variable} {e : Expression} (he : ExprLocal phys D e) :
    ExprLocal phys D (substTrivial e) := fun w hw => he w (substTrivial_inputVars e w hw)

theorem assignedVar_map (f : Expression → Expression) (d : Def) : assignedVar (mapDefExprs f d) = assignedVar d := by
  cases d <;> rfl

theorem defdAfter_cons (D : List Variable) (d : Term Def) (ds : List (Term Def)) :
    defdAfter D (d :: ds) = defdAfter (defdAfterDef D d.term) ds := rfl

theorem SubL.defdAfterDef {phys : VarSet} {D D' : List Variable} (h : SubL phys D D') {d d' : Def}
    (ha : assignedVar d' = assignedVar d) : SubL phys (defdAfterDef D d) (defdAfterDef D' d') := by
  unfold C10.defdAfterDef
  rw [ha]
  cases assignedVar d with
  | none => exact h
  | some v => exact h.cons v

theorem defExprs_map (f : Expression → Expression) (d : Def) : defExprs (mapDefExprs f d) = (defExprs d).map f := by
  cases d <;> rfl

/-! ### expression rewriting that introduces no variable (trivial expression substitution) -/

theorem defsLocal_map {phys : VarSet} {f : Expression → Expression} (hf : VarsSub f) :
    ∀ (defs : List (Term Def)) {D D' : List Variable}, SubL phys D D' → DefsLocal phys D defs →
      DefsLocal phys D' (defs.map fun d => { d with term := mapDefExprs f d.term }) ∧
      SubL phys (defdAfter D defs) (defdAfter D' (defs.map fun d => { d with term := mapDefExprs f d.term })) := by
  intro defs
  induction defs with
  | nil => intro D D' hs _; exact ⟨trivial, hs⟩
  | cons d ds ih =>
    intro D D' hs hl
    have hs' : SubL phys (defdAfterDef D d.term) (defdAfterDef D' (mapDefExprs f d.term)) :=
      hs.defdAfterDef (assignedVar_map f d.term)
    obtain ⟨ih1, ih2⟩ := ih hs' hl.2
    refine ⟨⟨?_, ih1⟩, ih2⟩
    intro e' he'
    simp only [defExprs_map, List.mem_map] at he'
    obtain ⟨e, he, rfl⟩ := he'
    exact fun w hw => (hl.1 e he).mono hs w (hf e w hw)

theorem jmpsLocal_map {phys : VarSet} {f : Expression → Expression} (hf : VarsSub f) {D : List Variable}
    {jmps : List (Term Jmp)} (h : JmpsLocal phys D jmps) :
    JmpsLocal phys D (jmps.map fun j => { j with term := mapJmpExprs f j.term }) := by
  intro j' hj' e' he'
  obtain ⟨j, hj, rfl⟩ := List.mem_map.mp hj'
  simp only [jmpExprs_map, List.mem_map] at he'
  obtain ⟨e, he, rfl⟩ := he'
  exact fun w hw => h j hj e he w (hf e w hw)

/-- **C10-H2-trivial.** Trivial expression substitution keeps H2 along runs. -/
theorem substTrivial_runLocals (env : Env) (phys : VarSet) {ptr : Nat} (blocks : List (Term Blk))
    (hws : ∀ b ∈ blocks, WellSizedBlk ptr b.term) (fuel : Nat) (t : Tid) (σ : State) (c : Nat) (D : List Variable)
    (hσ : StateWF σ) (hok : RunOk env blocks fuel t σ c) (hrl : RunLocals env phys blocks fuel t σ c D)
    (hns : NoStuck (runBlocks env blocks fuel t σ c)) :
    RunLocals env phys (blocks.map (mapBlkExprs substTrivial)) fuel t σ c D := by
  refine runLocals_transport env phys blocks _ (fun n t σ c => StateWF σ ∧ RunOk env blocks n t σ c)
    (fun _ _ => True) (find?_isSome_mapBlk (mapBlkExprs substTrivial) (fun _ => rfl) blocks) ?_ ?_
    fuel t σ c D D ⟨hσ, hok⟩ (SubL.refl _ _) trivial hrl hns
  · -- the simulation (as in `substTrivial_runBlocks`)
    intro n t σ c b b' ⟨hσ, hok⟩ hb hb' σ₁ evs hd
    rw [find?_mapBlk (mapBlkExprs substTrivial) (fun _ => rfl), hb] at hb'
    simp only [Option.map, Option.some.injEq] at hb'
    subst hb'
    have hwb := hws b (List.mem_of_find?_eq_some hb)
    obtain ⟨hdefs, hrest⟩ := hok b hb
    obtain ⟨hj, hnext⟩ := hrest σ₁ evs hd
    have hσ₁ := hσ.execDefs hd
    refine ⟨execDefs_map hd (defsRefine_substTrivial hσ hwb.1 hdefs), fun hns₂ => ⟨?_, ?_⟩⟩
    · exact execJmps_map (fun j hjm e he =>
        refines_substTrivial hσ₁ (wellSized_of_jmpExprs (hwb.2 j hjm) e he) (hj j hjm e he)) hns₂
    · intro evs₂ t₂ σ₂ c₂ hjm
      exact ⟨hσ₁.execJmps hjm, hnext evs₂ t₂ σ₂ c₂ hjm⟩
  · intro n t σ c D D' b b' _ hs _ hb hb' hdl hjl
    rw [find?_mapBlk (mapBlkExprs substTrivial) (fun _ => rfl), hb] at hb'
    simp only [Option.map, Option.some.injEq] at hb'
    subst hb'
    obtain ⟨h1, h2⟩ := defsLocal_map (phys := phys) varsSub_substTrivial b.term.defs hs hdl
    exact ⟨h1, h2, jmpsLocal_map varsSub_substTrivial (hjl.mono h2), fun _ _ _ _ _ _ _ _ => trivial⟩


/-! ### merging of assignments -/

theorem SubL.trans {phys : VarSet} {A B C : List Variable} (h₁ : SubL phys A B) (h₂ : SubL phys B C) : SubL phys A C := by
  intro v hv
  rcases h₁ v hv with h | h
  · exact .inl h
  · exact h₂ v h

theorem DefLocal.mono {phys : VarSet} {D D' : List Variable} {d : Def} (hs : SubL phys D D') (h : DefLocal phys D d) :
    DefLocal phys D' d := fun e he => (h e he).mono hs

theorem defsLocal_mono {phys : VarSet} : ∀ (defs : List (Term Def)) {D D' : List Variable}, SubL phys D D' →
    DefsLocal phys D defs → DefsLocal phys D' defs ∧ SubL phys (defdAfter D defs) (defdAfter D' defs) := by
  intro defs
  induction defs with
  | nil => intro D D' hs _; exact ⟨trivial, hs⟩
  | cons d ds ih =>
    intro D D' hs hl
    obtain ⟨ih1, ih2⟩ := ih (hs.defdAfterDef (d := d.term) (d' := d.term) rfl) hl.2
    exact ⟨⟨hl.1.mono hs, ih1⟩, ih2⟩

theorem subL_dup (phys : VarSet) (v : Variable) (D : List Variable) : SubL phys (v :: v :: D) (v :: D) := by
  intro w hw
  rcases List.mem_cons.mp hw with e | e
  · exact .inr (e ▸ List.mem_cons_self)
  · exact .inr e

/-- `merge_def_assignments_to_same_var` keeps H2 (purely syntactic) -/
theorem mergeDefsLoop_local {phys : VarSet} : ∀ (ds : List (Term Def)) (last : Option (Term Def)) {D D' : List Variable},
    SubL phys D D' → DefsLocal phys D (last.toList ++ ds) →
    DefsLocal phys D' (mergeDefsLoop last ds) ∧
      SubL phys (defdAfter D (last.toList ++ ds)) (defdAfter D' (mergeDefsLoop last ds)) := by
  intro ds
  induction ds with
  | nil =>
    intro last D D' hs hl
    simp only [List.append_nil, mergeDefsLoop] at hl ⊢
    exact defsLocal_mono _ hs hl
  | cons d ds ih =>
    intro last D D' hs hl
    unfold mergeDefsLoop
    split
    · next cv ce hdt =>
      split
      · next ld =>
        simp only [Option.toList, List.singleton_append] at hl ⊢
        have hkeep : DefsLocal phys D' (ld :: mergeDefsLoop (some d) ds) ∧
            SubL phys (defdAfter D (ld :: d :: ds)) (defdAfter D' (ld :: mergeDefsLoop (some d) ds)) := by
          obtain ⟨ih1, ih2⟩ := ih (some d) (hs.defdAfterDef (d := ld.term) (d' := ld.term) rfl)
            (by simpa using hl.2)
          exact ⟨⟨hl.1.mono hs, ih1⟩, by simpa [defdAfter_cons] using ih2⟩
        split
        · next lv le hlt =>
          split
          · next heq =>
            subst heq
            -- the merged assignment `cv = ce[cv ↦ le]`
            have hl1 : DefLocal phys D ld.term := hl.1
            have hl2 : DefLocal phys (defdAfterDef D ld.term) d.term := hl.2.1
            have hl3 : DefsLocal phys (defdAfterDef (defdAfterDef D ld.term) d.term) ds := hl.2.2
            rw [hlt] at hl1 hl2 hl3
            rw [hdt] at hl2 hl3
            simp only [defdAfterDef, assignedVar] at hl2 hl3
            have hmerged : ExprLocal phys D (ce.substVar cv le) := by
              intro w hw
              rcases substVar_inputVars hw with ⟨h, hne⟩ | h
              · rcases hl2 ce (by simp [defExprs]) w h with h' | h'
                · exact .inl h'
                · rcases List.mem_cons.mp h' with e | e
                  · exact absurd e hne
                  · exact .inr e
              · exact hl1 le (by simp [defExprs]) w h
            obtain ⟨m1, m2⟩ := defsLocal_mono ds (subL_dup phys cv D) hl3
            have hl' : DefsLocal phys D
                ((some { d with term := mapDefExprs (fun x => x.substVar cv le) d.term }).toList ++ ds) := by
              simp only [Option.toList, List.singleton_append, hdt, mapDefExprs]
              refine ⟨fun e he => ?_, ?_⟩
              · simp only [defExprs, List.mem_singleton] at he; subst he; exact hmerged
              · simpa [defdAfterDef, assignedVar] using m1
            obtain ⟨ih1, ih2⟩ := ih (some { d with term := mapDefExprs (fun x => x.substVar cv le) d.term }) hs hl'
            refine ⟨ih1, SubL.trans ?_ ih2⟩
            simp only [Option.toList, List.singleton_append, hdt, mapDefExprs, defdAfter_cons, hlt, defdAfterDef,
              assignedVar]
            exact m2
          · exact hkeep
        · exact hkeep
      · exact ih (some d) hs (by simpa using hl)
    · cases last with
      | none =>
        simp only [Option.toList, List.nil_append] at hl ⊢
        obtain ⟨ih1, ih2⟩ := ih none (hs.defdAfterDef (d := d.term) (d' := d.term) rfl) (by simpa using hl.2)
        exact ⟨⟨hl.1.mono hs, by simpa using ih1⟩, by simpa [defdAfter_cons] using ih2⟩
      | some ld =>
        simp only [Option.toList, List.singleton_append] at hl ⊢
        have hs₁ := hs.defdAfterDef (d := ld.term) (d' := ld.term) rfl
        have hs₂ := hs₁.defdAfterDef (d := d.term) (d' := d.term) rfl
        obtain ⟨ih1, ih2⟩ := ih none hs₂ (by simpa using hl.2.2)
        exact ⟨⟨hl.1.mono hs, hl.2.1.mono hs₁, by simpa using ih1⟩, by simpa [defdAfter_cons] using ih2⟩

/-- **C10-H2-merge.** `merge_def_assignments_to_same_var` keeps H2 along runs. -/
theorem mergeAssignments_runLocals (env : Env) (phys : VarSet) (blocks : List (Term Blk)) (fuel : Nat) (t : Tid)
    (σ : State) (c : Nat) (D : List Variable) (hrl : RunLocals env phys blocks fuel t σ c D)
    (hns : NoStuck (runBlocks env blocks fuel t σ c)) :
    RunLocals env phys (blocks.map mergeDefAssignmentsToSameVar) fuel t σ c D := by
  refine runLocals_transport env phys blocks _ (fun _ _ _ _ => True) (fun _ _ => True)
    (find?_isSome_mapBlk mergeDefAssignmentsToSameVar (fun _ => rfl) blocks) ?_ ?_
    fuel t σ c D D trivial (SubL.refl _ _) trivial hrl hns
  · intro n t σ c b b' _ hb hb' σ₁ evs hd
    rw [find?_mapBlk mergeDefAssignmentsToSameVar (fun _ => rfl), hb] at hb'
    simp only [Option.map, Option.some.injEq] at hb'
    subst hb'
    exact ⟨mergeDefsLoop_exec b.term.defs none (by simpa using hd), fun _ => ⟨rfl, fun _ _ _ _ _ => trivial⟩⟩
  · intro n t σ c D D' b b' _ hs _ hb hb' hdl hjl
    rw [find?_mapBlk mergeDefAssignmentsToSameVar (fun _ => rfl), hb] at hb'
    simp only [Option.map, Option.some.injEq] at hb'
    subst hb'
    obtain ⟨h1, h2⟩ := mergeDefsLoop_local (phys := phys) b.term.defs none hs (by simpa using hdl)
    have h2' : SubL phys (defdAfter D b.term.defs) (defdAfter D' (mergeDefsLoop none b.term.defs)) := by
      simpa using h2
    exact ⟨h1, h2', hjl.mono h2', fun _ _ _ _ _ _ _ _ => trivial⟩


/-! ### expression propagation: the variables of the table entries are local -/

/-- every entry of the table reads only physical registers and variables assigned since the last call -/
def TableLocal (phys : VarSet) (D : List Variable) (t : Table) : Prop := ∀ q ∈ t, ExprLocal phys D q.2

theorem tableLocal_nil (phys : VarSet) (D : List Variable) : TableLocal phys D [] := fun _ hq => by cases hq

theorem TableLocal.mono {phys : VarSet} {D D' : List Variable} {t : Table} (hs : SubL phys D D')
    (h : TableLocal phys D t) : TableLocal phys D' t := fun q hq => (h q hq).mono hs

theorem TableLocal.filter {phys : VarSet} {D : List Variable} {t : Table} (h : TableLocal phys D t)
    (f : Variable × Expression → Bool) : TableLocal phys D (t.filter f) := fun q hq => h q (List.mem_filter.mp hq).1

theorem TableLocal.get {phys : VarSet} {D : List Variable} {t : Table} (h : TableLocal phys D t) {v : Variable}
    {e : Expression} (hg : t.get v = some e) : ExprLocal phys D e := by
  unfold Table.get at hg
  split at hg
  · next q hq => cases hg; exact h q (List.mem_of_find?_eq_some hq)
  · cases hg

theorem TableLocal.insert {phys : VarSet} {D : List Variable} {t : Table} (h : TableLocal phys D t) {v : Variable}
    {e : Expression} (he : ExprLocal phys D e) : TableLocal phys D (t.insert v e) := by
  intro q hq
  rcases List.mem_cons.mp hq with e' | e'
  · subst e'; exact he
  · exact h q (List.mem_filter.mp e').1

theorem subsetOf_local {phys : VarSet} {D : List Variable} {a b : Table} (h : a.subsetOf b = true)
    (hb : TableLocal phys D b) : TableLocal phys D a := by
  intro q hq
  have := List.all_eq_true.mp h q hq
  exact hb.get (eq_of_beq this)

theorem substAll_local {phys : VarSet} {D : List Variable} {t : Table} (ht : TableLocal phys D t) {e : Expression}
    (he : ExprLocal phys D e) : ExprLocal phys D (substAll t e) := by
  unfold substAll
  induction t generalizing e with
  | nil => exact he
  | cons q qs ih =>
    simp only [List.foldl]
    exact ih (fun r hr => ht r (List.mem_cons_of_mem _ hr)) (he.substVar (ht q List.mem_cons_self) q.1)

theorem extendExpression_local {phys : VarSet} {D : List Variable} {t : Table} (ht : TableLocal phys D t)
    {e : Expression} (he : ExprLocal phys D e) : ExprLocal phys D (extendExpression t e) := by
  unfold extendExpression
  apply ExprLocal.substTrivial
  generalize e.inputVars = vars
  induction vars generalizing e with
  | nil => exact he
  | cons v vs ih =>
    simp only [List.foldl]
    apply ih
    split
    · next x hx =>
      split
      · exact he.substVar (ht.get hx) v
      · exact he
    · exact he

/-- the fixpoint transfer keeps the tables local -/
theorem updateDef_local {phys : VarSet} {D : List Variable} {t : Table} (ht : TableLocal phys D t) {d : Def}
    (hd : DefLocal phys D d) : TableLocal phys (defdAfterDef D d) (updateDef t d) := by
  have hsub : SubL phys D (defdAfterDef D d) := by
    unfold defdAfterDef
    cases assignedVar d with
    | none => exact SubL.refl _ _
    | some v => exact fun w hw => .inr (List.mem_cons_of_mem _ hw)
  cases d with
  | Assign v e =>
    simp only [updateDef, Table.killMentions]
    apply TableLocal.filter
    exact (ht.insert (extendExpression_local ht (hd e (by simp [defExprs])))).mono hsub
  | Load v a => exact (ht.filter _).mono hsub
  | Store a e => exact ht.mono hsub

theorem tableAfterDefs_local {phys : VarSet} : ∀ (defs : List (Term Def)) {D : List Variable} {t : Table},
    TableLocal phys D t → DefsLocal phys D defs → TableLocal phys (defdAfter D defs) (tableAfterDefs t defs) := by
  intro defs
  unfold tableAfterDefs
  induction defs with
  | nil => intro D t ht _; exact ht
  | cons d ds ih =>
    intro D t ht hl
    simp only [List.foldl, defdAfter_cons]
    exact ih (updateDef_local ht hl.1) hl.2

/-- the block-local insertion keeps H2; its table stays local; it assigns the same variables -/
theorem propagateDefs_local {phys : VarSet} : ∀ (defs : List (Term Def)) {D : List Variable} {t : Table},
    TableLocal phys D t → DefsLocal phys D defs →
    DefsLocal phys D (propagateDefs t defs).1 ∧ defdAfter D (propagateDefs t defs).1 = defdAfter D defs ∧
      TableLocal phys (defdAfter D defs) (propagateDefs t defs).2 := by
  intro defs
  induction defs with
  | nil => intro D t ht _; exact ⟨trivial, rfl, ht⟩
  | cons d ds ih =>
    intro D t ht hl
    have hsub : SubL phys D (defdAfterDef D d.term) := by
      unfold defdAfterDef
      cases assignedVar d.term with
      | none => exact SubL.refl _ _
      | some v => exact fun w hw => .inr (List.mem_cons_of_mem _ hw)
    unfold propagateDefs
    split
    · next v e hde =>
      have hl1 := hl.1
      have hl2 := hl.2
      rw [hde] at hl1 hl2 hsub
      have hext : ExprLocal phys D (extendExpression t e) := extendExpression_local ht (hl1 e (by simp [defExprs]))
      have ht₂ : TableLocal phys (defdAfterDef D (.Assign v e))
          (if mentions (extendExpression t e) v = true then t.kill v else (t.kill v).insert v (extendExpression t e)) := by
        split
        · exact (ht.filter _).mono hsub
        · exact ((ht.filter _).insert hext).mono hsub
      obtain ⟨ih1, ih2, ih3⟩ := ih ht₂ hl2
      simp only [defdAfter_cons, hde]
      refine ⟨⟨fun e' he' => ?_, ih1⟩, ih2, ih3⟩
      simp only [defExprs, List.mem_singleton] at he'; subst he'; exact hext
    · next v a hde =>
      have hl1 := hl.1
      have hl2 := hl.2
      rw [hde] at hl1 hl2 hsub
      obtain ⟨ih1, ih2, ih3⟩ := ih ((ht.filter _).mono hsub) hl2
      simp only [defdAfter_cons, hde]
      refine ⟨⟨fun e' he' => ?_, ih1⟩, ih2, ih3⟩
      simp only [defExprs, List.mem_singleton] at he'; subst he'
      exact substAll_local ht (hl1 a (by simp [defExprs]))
    · next a e hde =>
      have hl1 := hl.1
      have hl2 := hl.2
      rw [hde] at hl1 hl2 hsub
      obtain ⟨ih1, ih2, ih3⟩ := ih (ht.mono hsub) hl2
      simp only [defdAfter_cons, hde]
      refine ⟨⟨fun e' he' => ?_, ih1⟩, ih2, ih3⟩
      simp only [defExprs, List.mem_cons, List.not_mem_nil, or_false] at he'
      rcases he' with rfl | rfl
      · exact substAll_local ht (hl1 a (by simp [defExprs]))
      · exact substAll_local ht (hl1 e (by simp [defExprs]))

/-- **C10-H2-propagation.** The block-local insertion of post-fixpoint tables keeps H2 along runs: at the start
of every block reached by the run, every entry of the block's table reads only physical registers and variables
assigned since the last call. -/
theorem propagateWith_runLocals (env : Env) (phys : VarSet) {ptr : Nat} (p₁ : Program) (m : TableMap) (hm : AllWS m)
    (s : Term Sub) (hws : WellSizedSub ptr s.term) (hcl : TablesClosedAt p₁ m s) (hcfg : subCfgOk p₁ s = true)
    (fuel : Nat) (t : Tid) (σ : State) (c : Nat) (D : List Variable)
    (hinv : PropInv env m s.term.blocks fuel t σ c)
    (hJ : ∀ b, s.term.blocks.find? (fun b => b.tid == t) = some b → ∀ tb, m.get b.tid = some tb → TableLocal phys D tb)
    (hrl : RunLocals env phys s.term.blocks fuel t σ c D)
    (hns : NoStuck (runBlocks env s.term.blocks fuel t σ c)) :
    RunLocals env phys (s.term.blocks.map (propagateBlockWith m)) fuel t σ c D := by
  refine runLocals_transport env phys s.term.blocks _ (PropInv env m s.term.blocks)
    (fun t D => ∀ b, s.term.blocks.find? (fun b => b.tid == t) = some b → ∀ tb, m.get b.tid = some tb →
      TableLocal phys D tb)
    (find?_isSome_mapBlk (propagateBlockWith m) (fun _ => rfl) s.term.blocks)
    (propagate_blockSim env p₁ m hm s hws hcl hcfg).toSim0 ?_
    fuel t σ c D D hinv (SubL.refl _ _) hJ hrl hns
  intro n t σ c D D' b b' ⟨_, _, htab⟩ hs hJ hb hb' hdl hjl
  rw [find?_mapBlk (propagateBlockWith m) (fun _ => rfl), hb] at hb'
  simp only [Option.map, Option.some.injEq] at hb'
  subst hb'
  obtain ⟨hbm, hbt⟩ := tid_of_find? hb
  obtain ⟨tb, hg, _⟩ := htab b hb
  have htl : TableLocal phys D' tb := hJ b hb tb hg
  obtain ⟨hdl', hsubd⟩ := defsLocal_mono b.term.defs hs hdl
  have hgd : (m.get b.tid).getD [] = tb := by rw [hg]; rfl
  simp only [propagateBlockWith, hgd, propagateBlock_defs, propagateBlock_jmps]
  obtain ⟨p1, p2, p3⟩ := propagateDefs_local b.term.defs htl hdl'
  rw [p2]
  refine ⟨p1, hsubd, ?_, ?_⟩
  · intro j' hj' e' he'
    obtain ⟨j, hj, rfl⟩ := List.mem_map.mp hj'
    simp only [jmpExprs_map, List.mem_map] at he'
    obtain ⟨e, he, rfl⟩ := he'
    exact substAll_local p3 ((hjl j hj e he).mono hsubd)
  · intro σ₁ evs _ evs₂ t₂ σ₂ c₂ hjm b₂ hb₂ tb₂ hg₂
    obtain ⟨hb₂m, hb₂t⟩ := tid_of_find? hb₂
    have hcb := List.all_eq_true.mp hcfg b hbm
    simp only [Bool.and_eq_true, decide_eq_true_eq] at hcb
    obtain ⟨j, hjmem, u, hu, hgo, _⟩ := execJmps_goto_inv hcb.1 hjm
    have hjok := List.all_eq_true.mp hcb.2 j hjmem
    rcases tablesSent_of_jmpGoes (p := p₁) (m := m) hg hu hjok hgo with ⟨hx, _, rfl⟩ | hx
    · rw [← hb₂t] at hx
      obtain ⟨tb₂', hg₂', hsub⟩ := hcl.sent b hbm b₂ hb₂m _ hx
      rw [hg₂] at hg₂'; cases hg₂'
      simp only [if_true]
      exact subsetOf_local hsub (tableAfterDefs_local b.term.defs htl hdl')
    · rw [← hb₂t] at hx
      obtain ⟨tb₂', hg₂', hsub⟩ := hcl.sent b hbm b₂ hb₂m _ hx
      rw [hg₂] at hg₂'; cases hg₂'
      exact subsetOf_local hsub (tableLocal_nil _ _)


/-! ### function level -/

/-- H1 for the run of a function from its first block -/
def RunOkSub (env : Env) (s : Term Sub) (σ : State) (fuel : Nat) : Prop :=
  ∀ b bs, s.term.blocks = b :: bs → RunOk env s.term.blocks fuel b.tid σ 0

/-- H2 for the run of a function from its first block (no local assigned yet) -/
def RunLocalsSub (env : Env) (phys : VarSet) (s : Term Sub) (σ : State) (fuel : Nat) : Prop :=
  ∀ b bs, s.term.blocks = b :: bs → RunLocals env phys s.term.blocks fuel b.tid σ 0 []

theorem mapSubBlocks_cons {g : Term Blk → Term Blk} {s : Term Sub} {b' : Term Blk} {bs' : List (Term Blk)}
    (h : (mapSubBlocks g s).term.blocks = b' :: bs') :
    ∃ b bs, s.term.blocks = b :: bs ∧ b' = g b := by
  simp only [mapSubBlocks] at h
  cases hbl : s.term.blocks with
  | nil => rw [hbl] at h; cases h
  | cons b bs =>
    rw [hbl] at h
    simp only [List.map, List.cons.injEq] at h
    exact ⟨b, bs, rfl, h.1.symm⟩

theorem noStuck_runSub_cons {env : Env} {s : Term Sub} {σ : State} {fuel : Nat} {b : Term Blk} {bs : List (Term Blk)}
    (hbl : s.term.blocks = b :: bs) (hns : NoStuck (runSub env s.term σ fuel)) :
    NoStuck (runBlocks env s.term.blocks fuel b.tid σ 0) := by
  simpa only [runSub, hbl] using hns

theorem mergeAssignments_runLocalsSub (env : Env) (phys : VarSet) (s : Term Sub) (σ : State) (fuel : Nat)
    (hrl : RunLocalsSub env phys s σ fuel) (hns : NoStuck (runSub env s.term σ fuel)) :
    RunLocalsSub env phys (mapSubBlocks mergeDefAssignmentsToSameVar s) σ fuel := by
  intro b' bs' h
  obtain ⟨b, bs, hbl, rfl⟩ := mapSubBlocks_cons h
  exact mergeAssignments_runLocals env phys s.term.blocks fuel b.tid σ 0 [] (hrl b bs hbl)
    (noStuck_runSub_cons hbl hns)

theorem substTrivial_runLocalsSub (env : Env) (phys : VarSet) {ptr : Nat} (s : Term Sub)
    (hws : WellSizedSub ptr s.term) (σ : State) (fuel : Nat) (hσ : StateWF σ) (hok : RunOkSub env s σ fuel)
    (hrl : RunLocalsSub env phys s σ fuel) (hns : NoStuck (runSub env s.term σ fuel)) :
    RunLocalsSub env phys (mapSubBlocks (mapBlkExprs substTrivial) s) σ fuel := by
  intro b' bs' h
  obtain ⟨b, bs, hbl, rfl⟩ := mapSubBlocks_cons h
  exact substTrivial_runLocals env phys s.term.blocks hws fuel b.tid σ 0 [] hσ (hok b bs hbl) (hrl b bs hbl)
    (noStuck_runSub_cons hbl hns)

theorem propagateWith_runLocalsSub (env : Env) (phys : VarSet) {ptr : Nat} (p₁ : Program)
    (hws : WellSizedProgram p₁ ptr) (m : TableMap) (hm : AllWS m) (hcl : tablesClosed p₁ m = true)
    (hre : tablesReach p₁ m = true) (s : Term Sub) (hs : s ∈ p₁.subs) (hcfg : subCfgOk p₁ s = true)
    (σ : State) (fuel : Nat) (hσ : StateWF σ) (hok : RunOkSub env s σ fuel)
    (hrl : RunLocalsSub env phys s σ fuel) (hns : NoStuck (runSub env s.term σ fuel)) :
    RunLocalsSub env phys (propagateSub m s) σ fuel := by
  have hclAt := tablesClosedAt_of_check hcl hre hs
  intro b' bs' h
  rw [propagateSub_eq] at h
  obtain ⟨b, bs, hbl, rfl⟩ := mapSubBlocks_cons h
  have hentry := hclAt.entry b bs hbl
  refine propagateWith_runLocals env phys p₁ m hm s (hws s hs) hclAt hcfg fuel b.tid σ 0 [] ?_ ?_ (hrl b bs hbl)
    (noStuck_runSub_cons hbl hns)
  · refine ⟨hσ, hok b bs hbl, fun b₀ hb₀ => ?_⟩
    rw [hbl] at hb₀
    simp only [List.find?, beq_self_eq_true, Option.some.injEq] at hb₀
    subst hb₀
    exact ⟨[], hentry, tableValid_nil σ⟩
  · intro b₀ hb₀ tb hg
    rw [hbl] at hb₀
    simp only [List.find?, beq_self_eq_true, Option.some.injEq] at hb₀
    subst hb₀
    rw [hentry] at hg; cases hg
    exact tableLocal_nil _ _


end CweModel.C10
