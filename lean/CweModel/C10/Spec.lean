/-
C10 — the executable specification: observable behaviour of each function before and after a pass,
evaluated with the reference interpreter `CweModel.Sem` (Base/IRSem.lean), and the run-time hypotheses
under which the property is claimed.

Hypotheses on a run of the UNOPTIMISED function (checked along the run; outside them only model ≡
implementation is required):
  H1 boolean discipline: every operand of `BoolAnd/BoolOr/BoolXOr` evaluates to 0 or 1 (P-Code booleans);
  H2 temporaries are local: a temporary (`is_temp`) is only read after it was assigned in the same run
     and since the last call (P-Code temporaries never live across instructions, let alone calls);
  H3 the run does not get stuck (division by zero, float operation, ill-sized operand): if it does,
     the behaviour is undefined from the stuck block on and only the trace before it is compared.
Core-only.
-/
import CweModel.Base.IRSem
import CweModel.C10.Propagation
import CweModel.C10.SemLemmas

namespace CweModel.C10
open CweModel CweModel.IR CweModel.Sem

/-- H2 on one expression given the set of assigned temporaries -/
def tempsOk (defd : List Variable) (e : Expression) : Bool :=
  e.inputVars.all fun v => !v.isTemp || defd.contains v

def exprOk (σ : State) (defd : List Variable) (e : Expression) : Bool := boolOk σ e && tempsOk defd e

/-- hypotheses along the defs of a block; returns the final state and assigned temporaries -/
def hypDefs (σ : State) (defd : List Variable) : List (Term Def) → Option (State × List Variable × Bool)
  | [] => some (σ, defd, true)
  | d :: ds =>
    let ok := match d.term with
      | .Assign _ e => exprOk σ defd e
      | .Load _ a => exprOk σ defd a
      | .Store a e => exprOk σ defd a && exprOk σ defd e
    let defd' := match d.term with
      | .Assign v _ => if v.isTemp then v :: defd else defd
      | .Load v _ => if v.isTemp then v :: defd else defd
      | .Store _ _ => defd
    match execDef σ d.term with
    | none => some (σ, defd, ok)          -- stuck: H3 handles the rest
    | some (σ', _) =>
      match hypDefs σ' defd' ds with
      | some (σ'', defd'', ok') => some (σ'', defd'', ok && ok')
      | none => none

def jmpExprs : Jmp → List Expression
  | .BranchInd e | .CallInd e _ | .Return e => [e]
  | .CBranch _ c => [c]
  | _ => []

/-- hypotheses H1, H2 along the run of a function (same walk as `Sem.runBlocks`) -/
def hypRun (env : Env) (blocks : List (Term Blk)) : Nat → Tid → State → Nat → List Variable → Bool
  | 0, _, _, _, _ => true
  | fuel + 1, cur, σ, calls, defd =>
    match blocks.find? (fun b => b.tid == cur) with
    | none => true
    | some b =>
      match hypDefs σ defd b.term.defs with
      | none => true
      | some (σ₁, defd₁, ok) =>
        if !ok then false else
        match execDefs σ b.term.defs with
        | none => true
        | some _ =>
          let okJ := b.term.jmps.all fun j => (jmpExprs j.term).all (exprOk σ₁ defd₁)
          if !okJ then false else
          match execJmps env σ₁ calls b.term.jmps with
          | (_, .stop) => true
          | (_, .goto t σ₂ calls₂) =>
            hypRun env blocks fuel t σ₂ calls₂ (if calls₂ == calls then defd₁ else [])

def hypSub (env : Env) (s : Sub) (σ : State) (fuel : Nat) : Bool :=
  match s.blocks with
  | [] => true
  | b :: _ => hypRun env s.blocks fuel b.tid σ 0 []

/-- every non-temporary variable read by the blocks is one of the registers `phys` (executable form of
`NonTempPhys`, RunDeadVars.lean: under it the temporaries-based hypothesis H2 checked by `hypRun` is the
hypothesis `RunLocals` of the theorems) -/
def nonTempPhysB (phys : List Variable) (blocks : List (Term Blk)) : Bool :=
  let okE (e : Expression) : Bool := e.inputVars.all fun v => v.isTemp || decide (v ∈ phys)
  blocks.all fun b =>
    (b.term.defs.all fun d => match d.term with
      | .Assign _ e => okE e
      | .Load _ a => okE a
      | .Store a e => okE a && okE e) &&
    (b.term.jmps.all fun j => (jmpExprs j.term).all okE)

def isStuck : Event → Bool
  | .stuck _ => true
  | _ => false

/-- the property compares indirect jumps by their target only ("the same sequence of calls, indirect
jumps and returns with their call and jump targets"; the register state is compared at calls, returns and
dead ends): the state snapshot of a `jumpInd` event is dropped. (Dead-variable elimination legitimately
uses the liveness at the known targets of an indirect jump.) -/
def observable : Event → Event
  | .jumpInd j t _ => .jumpInd j t ""
  | e => e

/-- comparison of the trace of the unoptimised function (`pre`) with the optimised one (`post`):
`Sem.tracesAgree`, except that a stuck `pre` is only compared up to the stuck block (H3) -/
def tracesAgreeUpToStuck (pre post : List Event) : Bool :=
  let cutPre := pre.takeWhile (fun e => !isStuck e)
  if cutPre.length == pre.length then tracesAgree pre post
  else
    let cutPost := post.takeWhile (fun e => !isStuck e && e != .outOfFuel)
    let cutPre' := cutPre.takeWhile (· != .outOfFuel)
    let n := min cutPre'.length cutPost.length
    cutPre'.take n == cutPost.take n

/-- reserved seeds (appended by the harness to the random seeds of every case): every byte of every register in
`others` is 0x80 resp. 0xff, so that the top bit of every sub-piece of every register is set in at least one
execution (sign extensions, signed comparisons) -/
def patternByte (seed : Nat) : Option Nat :=
  if seed == 0xFFFF0080 then some 0x80 else if seed == 0xFFFF00FF then some 0xff else none

def repeatByte (b : Nat) (n : Nat) : Nat := (List.range n).foldl (fun acc _ => acc * 256 + b) 0

/-- the initial machine state of a test: registers and memory from the seed (or a byte pattern for the reserved
seeds), stack pointer a multiple of 16 (`align`), the one-byte flag registers boolean -/
def initialState (seed : Nat) (sp : Variable) (flags : List Variable) (others : List Variable := [])
    (align : Nat := 16) : State :=
  let base : State := { seed := seed }
  let spVal := 0x7ffd00000000 + (mix seed 0x5151 % 0x100000) * align
  let flagRegs := flags.map fun f => (f, Bv.ofBytes f.size (mix (mix seed 0xF1A6) (strHash f.name) % 2))
  -- `others`: registers whose default value is materialised up front (same values as `regDefault`
  -- would give on demand; only avoids recomputing the hash at every read)
  let rest := (others.filter fun v => v != sp && !flags.contains v).map fun v =>
    (v, match patternByte seed with
      | some b => Bv.ofBytes v.size (repeatByte b v.size)
      | none => base.regDefault v)
  { base with regs := (sp, Bv.ofBytes sp.size spVal) :: flagRegs ++ rest }

inductive SubVerdict where
  | agree (stuck : Bool)
  | outsideHyp
  | differ (seed : Nat) (idx : Nat) (pre post : String) (afterCallOther : Bool)

/-- compare one function on one initial state -/
def compareSub (env : Env) (flags : List Variable) (fuel : Nat) (pre post : Sub) (seed : Nat) : SubVerdict :=
  let σ := initialState seed env.sp flags env.physRegs
  if !hypSub env pre σ fuel then .outsideHyp else
  let tp := (runSub env pre σ fuel).map observable
  let tq := (runSub env post σ fuel).map observable
  if tracesAgreeUpToStuck tp tq then .agree (tp.any isStuck)
  else
    let idx := ((tp.zip tq).takeWhile fun (a, b) => a == b).length
    let render (l : List Event) := match l[idx]? with | some e => e.render | none => "<end>"
    let afterCallOther := (tp.take idx).any fun e => match e with | .callOther _ _ _ => true | _ => false
    .differ seed idx (render tp) (render tq) afterCallOther

/-- short class of the first differing event pair -/
def eventKind (s : String) : String := (s.splitOn " ").head!

end CweModel.C10
