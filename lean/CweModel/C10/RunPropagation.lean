/-
C10 pass 2, run level — expression propagation preserves the observable trace of every function.

  * shared run-level helpers: the continuation of the jumps of a block (`JmpGoes`, `execJmps_goto_inv`),
    the same-state simulation that also transports the run-time hypothesis H1 (`RunOk`) to the new
    program (`runBlocks_sameState_ok`);
  * `merge_def_assignments_to_same_var` keeps traces and H1 (`mergeAssignments_runSub`);
  * the block-local insertion with ANY family of tables `m` that is a post-fixpoint of the model transfer
    functions (`tablesClosed`, the check the driver evaluates on the tables of the REAL fixpoint, plus
    `tablesReach`: the entry block and every block a table is sent to have a value) keeps traces and H1:
    the table at the start of every block reached by a run is valid there (`propagateWith_runSub`);
  * the whole pass `propagate_input_expression` for such tables (`propagateProgramWith_runSub`), and for
    the model's own iteration `computeTables` when it stabilised (`propagateProgram_runSub`).

Structural hypotheses (`subCfgOk`): at most two jumps per block; no `CallOther` with a return site (the
CFG of analysis/graph.rs has no edge for it: recorded known limitation); a `Call` with a return site
targets an extern symbol or a function with a returning block (otherwise the CFG has no edge to the
return site, while the reference interpreter continues there).
Core-only.
-/
import CweModel.C10.PropagationProofs
import CweModel.C10.SpecProofs
import CweModel.Base.IRInst

namespace CweModel.IR
deriving instance ReflBEq, LawfulBEq for BinOpType
deriving instance ReflBEq, LawfulBEq for UnOpType
deriving instance ReflBEq, LawfulBEq for CastOpType
deriving instance ReflBEq, LawfulBEq for Expression
end CweModel.IR

namespace CweModel.C10
open CweModel CweModel.IR CweModel.Sem CweModel.C12

/-! ### the continuation of a jump list -/

/-- jump `j`, executed in `σ` with call counter `c`, continues at block `t` in state `σ₂` with counter `c₂` -/
def JmpGoes (env : Env) (σ : State) (c : Nat) (j : Term Jmp) (t : Tid) (σ₂ : State) (c₂ : Nat) : Prop :=
  match j.term with
  | .Branch tgt => tgt = t ∧ σ₂ = σ ∧ c₂ = c
  | .CBranch tgt cnd => tgt = t ∧ σ₂ = σ ∧ c₂ = c ∧ ∃ v, eval σ cnd = some v ∧ v.toNat ≠ 0
  | .Call _ (some r) => r = t ∧ σ₂ = havoc σ env.physRegs env.sp j.tid.id c ∧ c₂ = c + 1
  | .CallInd e (some r) => r = t ∧ σ₂ = havoc σ env.physRegs env.sp j.tid.id c ∧ c₂ = c + 1 ∧ (eval σ e).isSome
  | .CallOther _ (some r) => r = t ∧ σ₂ = havoc σ env.physRegs env.sp j.tid.id c ∧ c₂ = c + 1
  | _ => False

/-- a jump list continues at `t`: its first jump goes there, or the first jump is a conditional jump whose
condition evaluates to zero and the rest of the list continues there -/
theorem execJmps_cons_goto {env : Env} {σ σ₂ : State} {c c₂ : Nat} {j : Term Jmp} {rest : List (Term Jmp)}
    {evs : List Event} {t : Tid} (h : execJmps env σ c (j :: rest) = (evs, .goto t σ₂ c₂)) :
    JmpGoes env σ c j t σ₂ c₂ ∨
      (∃ tgt cnd v, j.term = .CBranch tgt cnd ∧ eval σ cnd = some v ∧ v.toNat = 0 ∧
        execJmps env σ c rest = (evs, .goto t σ₂ c₂)) := by
  simp only [Sem.execJmps] at h
  split at h
  · next tgt hj =>
    simp only [Prod.mk.injEq, Next.goto.injEq] at h
    left; simp only [JmpGoes, hj]; exact ⟨h.2.1, h.2.2.1.symm, h.2.2.2.symm⟩
  · next tgt cnd hj =>
    split at h
    · cases h
    · next v hv =>
      split at h
      · next hnz =>
        simp only [Prod.mk.injEq, Next.goto.injEq] at h
        left; simp only [JmpGoes, hj]
        exact ⟨h.2.1, h.2.2.1.symm, h.2.2.2.symm, v, hv, by simpa using hnz⟩
      · next hz =>
        right; exact ⟨tgt, cnd, v, hj, hv, by simpa using hz, h⟩
  · split at h <;> cases h
  · next callee r hj =>
    split at h
    · cases h
    · next rt =>
      simp only [Prod.mk.injEq, Next.goto.injEq] at h
      left; simp only [JmpGoes, hj]; exact ⟨h.2.1, h.2.2.1.symm, h.2.2.2.symm⟩
  · next e r hj =>
    split at h
    · cases h
    · next v hv =>
      split at h
      · cases h
      · next rt =>
        simp only [Prod.mk.injEq, Next.goto.injEq] at h
        left; simp only [JmpGoes, hj]; exact ⟨h.2.1, h.2.2.1.symm, h.2.2.2.symm, by simp [hv]⟩
  · next d r hj =>
    split at h
    · cases h
    · next rt =>
      simp only [Prod.mk.injEq, Next.goto.injEq] at h
      left; simp only [JmpGoes, hj]; exact ⟨h.2.1, h.2.2.1.symm, h.2.2.2.symm⟩
  · split at h <;> cases h

/-- the jump through which a block with at most two jumps continues at `t` is one of the jumps the CFG
construction looks at (`jmpsWithUntaken`) -/
theorem execJmps_goto_inv {env : Env} {σ σ₂ : State} {c c₂ : Nat} {b : Term Blk} {evs : List Event} {t : Tid}
    (hlen : b.term.jmps.length ≤ 2) (h : execJmps env σ c b.term.jmps = (evs, .goto t σ₂ c₂)) :
    ∃ j ∈ b.term.jmps, ∃ u, (j.term, u) ∈ jmpsWithUntaken b ∧ JmpGoes env σ c j t σ₂ c₂ ∧
      (∀ u', u = some u' → ∃ j₁ tgt cnd v, b.term.jmps = [j₁, j] ∧ u' = j₁.term ∧ j₁.term = .CBranch tgt cnd ∧
        eval σ cnd = some v ∧ v.toNat = 0) := by
  unfold jmpsWithUntaken
  match hj : b.term.jmps, hlen with
  | [], _ => rw [hj] at h; simp only [Sem.execJmps] at h; cases h
  | [j], _ =>
    rw [hj] at h
    rcases execJmps_cons_goto h with hg | ⟨_, _, _, _, _, _, hr⟩
    · exact ⟨j, List.mem_cons_self, none, List.mem_cons_self, hg, fun _ hu => by cases hu⟩
    · simp only [Sem.execJmps] at hr; cases hr
  | [j₁, j₂], _ =>
    rw [hj] at h
    rcases execJmps_cons_goto h with hg | ⟨tgt, cnd, v, hj1, hv, hz, hr⟩
    · exact ⟨j₁, List.mem_cons_self, none, List.mem_cons_self, hg, fun _ hu => by cases hu⟩
    · rcases execJmps_cons_goto hr with hg | ⟨_, _, _, _, _, _, hr'⟩
      · refine ⟨j₂, List.mem_cons_of_mem _ List.mem_cons_self, some j₁.term,
          List.mem_cons_of_mem _ List.mem_cons_self, hg, fun u' hu => ?_⟩
        cases hu
        exact ⟨j₁, tgt, cnd, v, rfl, rfl, hj1, hv, hz⟩
      · simp only [Sem.execJmps] at hr'; cases hr'
  | _ :: _ :: _ :: _, h' => simp at h'

/-! ### the same-state simulation, with the run-time hypothesis H1 transported to the new program -/

/-- the premise of the same-state simulation for one block, including the boolean discipline of the NEW
block: if the invariant holds at the entry of the block and the original defs execute, then the new defs keep
the discipline and execute to the same state with the same events, the new jump expressions keep the
discipline, and (unless the original jumps get stuck) the jumps behave the same and the invariant holds at
the next block. -/
def BlockSim (env : Env) (blocks blocks' : List (Term Blk)) (I : Nat → Tid → State → Nat → Prop) : Prop :=
  ∀ n t σ c b b', I (n + 1) t σ c → blocks.find? (fun b => b.tid == t) = some b →
    blocks'.find? (fun b => b.tid == t) = some b' →
    ∀ σ₁ evs, execDefs σ b.term.defs = some (σ₁, evs) →
      DefsBoolOk b'.term.defs σ ∧ execDefs σ b'.term.defs = some (σ₁, evs) ∧
      (NoStuck (execJmps env σ₁ c b.term.jmps).1 →
        (∀ j ∈ b'.term.jmps, ∀ e ∈ jmpExprs j.term, boolOk σ₁ e = true) ∧
        execJmps env σ₁ c b'.term.jmps = execJmps env σ₁ c b.term.jmps ∧
        ∀ evs₂ t₂ σ₂ c₂, execJmps env σ₁ c b.term.jmps = (evs₂, .goto t₂ σ₂ c₂) → I n t₂ σ₂ c₂)

/-- **C10-same-state-simulation (with H1).** Under `BlockSim`, a run of the original blocks that does not
get stuck is reproduced event by event by the new blocks, and the new run keeps the boolean discipline. -/
theorem runBlocks_sameState_ok (env : Env) (blocks blocks' : List (Term Blk)) (I : Nat → Tid → State → Nat → Prop)
    (hfind : ∀ t, (blocks'.find? (fun b => b.tid == t)).isSome = (blocks.find? (fun b => b.tid == t)).isSome)
    (hblk : BlockSim env blocks blocks' I) :
    ∀ fuel t σ c, I fuel t σ c → NoStuck (runBlocks env blocks fuel t σ c) →
      runBlocks env blocks' fuel t σ c = runBlocks env blocks fuel t σ c ∧ RunOk env blocks' fuel t σ c := by
  intro fuel
  induction fuel with
  | zero => intro t σ c _ _; exact ⟨rfl, trivial⟩
  | succ n ih =>
    intro t σ c hI hns
    cases hb : blocks.find? (fun b => b.tid == t) with
    | none =>
      have := hfind t
      rw [hb] at this
      cases hb' : blocks'.find? (fun b => b.tid == t) with
      | none =>
        refine ⟨by rw [runBlocks_none hb, runBlocks_none hb'], ?_⟩
        intro b' hb''; rw [hb'] at hb''; cases hb''
      | some b' => rw [hb'] at this; cases this
    | some b =>
      have := hfind t
      rw [hb] at this
      cases hb' : blocks'.find? (fun b => b.tid == t) with
      | none => rw [hb'] at this; cases this
      | some b' =>
        cases hd : execDefs σ b.term.defs with
        | none => rw [runBlocks_defs_none hb hd] at hns; exact absurd hns (not_noStuck_stuck _)
        | some r =>
          obtain ⟨σ₁, evs⟩ := r
          obtain ⟨hbo, hd', hj⟩ := hblk n t σ c b b' hI hb hb' σ₁ evs hd
          cases hjm : execJmps env σ₁ c b.term.jmps with
          | mk evs₂ nxt =>
            cases nxt with
            | stop =>
              rw [runBlocks_stop hb hd hjm] at hns ⊢
              have hns₂ : NoStuck (execJmps env σ₁ c b.term.jmps).1 := by rw [hjm]; exact hns.append_right
              obtain ⟨hjb, hj1, _⟩ := hj hns₂
              refine ⟨by rw [runBlocks_stop hb' hd' (hj1.trans hjm)], ?_⟩
              intro b'' hb''
              rw [hb'] at hb''; cases hb''
              refine ⟨hbo, fun σ₁' evs' hd'' => ?_⟩
              rw [hd'] at hd''; cases hd''
              refine ⟨hjb, fun evs₃ t₃ σ₃ c₃ hg => ?_⟩
              rw [hj1, hjm] at hg; cases hg
            | goto t₂ σ₂ c₂ =>
              rw [runBlocks_goto hb hd hjm] at hns ⊢
              have hns₂ : NoStuck (execJmps env σ₁ c b.term.jmps).1 := by
                rw [hjm]; exact hns.append_left.append_right
              obtain ⟨hjb, hj1, hj2⟩ := hj hns₂
              obtain ⟨ih1, ih2⟩ := ih t₂ σ₂ c₂ (hj2 evs₂ t₂ σ₂ c₂ hjm) hns.append_right
              refine ⟨by rw [runBlocks_goto hb' hd' (hj1.trans hjm), ih1], ?_⟩
              intro b'' hb''
              rw [hb'] at hb''; cases hb''
              refine ⟨hbo, fun σ₁' evs' hd'' => ?_⟩
              rw [hd'] at hd''; cases hd''
              refine ⟨hjb, fun evs₃ t₃ σ₃ c₃ hg => ?_⟩
              rw [hj1, hjm] at hg; cases hg
              exact ih2

theorem jmpExprs_map (f : Expression → Expression) (j : Jmp) : jmpExprs (mapJmpExprs f j) = (jmpExprs j).map f := by
  cases j <;> rfl

/-- `runSub` of two functions whose block lists are related by a tid-preserving map -/
theorem runSub_mapBlocks (env : Env) (g : Term Blk → Term Blk) (hg : ∀ b, (g b).tid = b.tid) (s : Term Sub)
    (σ : State) (fuel : Nat) :
    runSub env (mapSubBlocks g s).term σ fuel =
      match s.term.blocks with
      | [] => [.deadEnd (σ.snapshot env.physRegs)]
      | b :: _ => runBlocks env (s.term.blocks.map g) fuel b.tid σ 0 := by
  unfold runSub
  simp only [mapSubBlocks]
  cases hbl : s.term.blocks with
  | nil => rfl
  | cons b bs => simp only [List.map, hg]

theorem find?_isSome_mapBlk (g : Term Blk → Term Blk) (hg : ∀ b, (g b).tid = b.tid) (blocks : List (Term Blk)) (t : Tid) :
    ((blocks.map g).find? (fun b => b.tid == t)).isSome = (blocks.find? (fun b => b.tid == t)).isSome := by
  rw [find?_mapBlk g hg]
  cases blocks.find? (fun b => b.tid == t) <;> rfl


/-! ### `merge_def_assignments_to_same_var` on runs -/

theorem defsBoolOk_cons {d : Term Def} {ds : List (Term Def)} {σ : State} :
    DefsBoolOk (d :: ds) σ ↔ (∀ e ∈ defExprs d.term, boolOk σ e = true) ∧
      ∀ σ' evs, execDef σ d.term = some (σ', evs) → DefsBoolOk ds σ' := Iff.rfl

/-- the merged defs keep the boolean discipline (along an execution that does not get stuck) -/
theorem mergeDefsLoop_boolOk (ds : List (Term Def)) (last : Option (Term Def)) {σ : State} {r : State × List Event}
    (hr : execDefs σ (last.toList ++ ds) = some r) (hb : DefsBoolOk (last.toList ++ ds) σ) :
    DefsBoolOk (mergeDefsLoop last ds) σ := by
  induction ds generalizing last σ r with
  | nil => simpa [mergeDefsLoop] using hb
  | cons d ds ih =>
    unfold mergeDefsLoop
    split
    · next cv ce hdt =>
      split
      · next ld =>
        simp only [Option.toList, List.singleton_append] at hr hb
        obtain ⟨σ₁, e₁, σ₂, e₂, h1, h2, rfl⟩ := execDefs_cons_some.mp hr
        have hkeep : DefsBoolOk (ld :: mergeDefsLoop (some d) ds) σ := by
          refine ⟨hb.1, fun σ' evs hd' => ?_⟩
          rw [h1] at hd'; cases hd'
          exact ih (some d) (by simpa using h2) (by simpa using hb.2 σ₁ e₁ h1)
        split
        · next lv le hlt =>
          split
          · next heq =>
            subst heq
            obtain ⟨σ₃, e₃, σ₄, e₄, h3, h4, hr2⟩ := execDefs_cons_some.mp h2
            cases hr2
            rw [hlt] at h1; rw [hdt] at h3
            have hm := execDef_merge_assign h1 h3
            have hb1 := hb.1
            have hb2 := hb.2 σ₁ e₁ (by rw [hlt]; exact h1)
            rw [hlt] at hb1
            obtain ⟨x, hx, _, hσ₁, _⟩ := execDef_assign_some h1
            have hbce : boolOk σ₁ ce = true := hb2.1 ce (by rw [hdt]; simp [defExprs])
            have hbsub : boolOk σ (ce.substVar cv le) = true :=
              boolOk_substVar hx (hb1 le (by simp [defExprs])) ce (by rw [← hσ₁]; exact hbce)
            apply ih (some { d with term := mapDefExprs (fun x => x.substVar cv le) d.term })
              (r := (σ₂, (e₁ ++ e₃) ++ e₄))
            · simp only [Option.toList, List.singleton_append, mapDefExprs, hdt]
              exact execDefs_cons_some.mpr ⟨σ₃, e₁ ++ e₃, σ₂, e₄, hm, h4, rfl⟩
            · simp only [Option.toList, List.singleton_append, mapDefExprs, hdt]
              refine ⟨fun e he => ?_, fun σ' evs hd' => ?_⟩
              · simp only [defExprs, List.mem_singleton] at he; subst he; exact hbsub
              · rw [hm] at hd'; cases hd'
                exact hb2.2 σ₃ e₃ (by rw [hdt]; exact h3)
          · exact hkeep
        · exact hkeep
      · exact ih (some d) (by simpa using hr) (by simpa using hb)
    · cases last with
      | none =>
        simp only [Option.toList, List.nil_append] at hr hb ⊢
        obtain ⟨σ₁, e₁, σ₂, e₂, h1, h2, rfl⟩ := execDefs_cons_some.mp hr
        refine ⟨hb.1, fun σ' evs hd' => ?_⟩
        rw [h1] at hd'; cases hd'
        exact ih none (by simpa using h2) (by simpa using hb.2 σ₁ e₁ h1)
      | some ld =>
        simp only [Option.toList, List.singleton_append] at hr hb ⊢
        obtain ⟨σ₁, e₁, σ₂, e₂, h1, h2, rfl⟩ := execDefs_cons_some.mp hr
        obtain ⟨σ₃, e₃, σ₄, e₄, h3, h4, hr2⟩ := execDefs_cons_some.mp h2
        cases hr2
        refine ⟨hb.1, fun σ' evs hd' => ?_⟩
        rw [h1] at hd'; cases hd'
        have hb2 := hb.2 σ₁ e₁ h1
        refine ⟨hb2.1, fun σ'' evs' hd'' => ?_⟩
        rw [h3] at hd''; cases hd''
        exact ih none (by simpa using h4) (by simpa using hb2.2 σ₃ e₃ h3)

/-- **C10-merge-assignments-run.** `merge_def_assignments_to_same_var` on a whole function: the run is
reproduced event by event, and the new run keeps the boolean discipline (H1). -/
theorem mergeAssignments_runBlocks (env : Env) (blocks : List (Term Blk)) (fuel : Nat) (t : Tid) (σ : State) (c : Nat)
    (hok : RunOk env blocks fuel t σ c) (hns : NoStuck (runBlocks env blocks fuel t σ c)) :
    runBlocks env (blocks.map mergeDefAssignmentsToSameVar) fuel t σ c = runBlocks env blocks fuel t σ c ∧
      RunOk env (blocks.map mergeDefAssignmentsToSameVar) fuel t σ c := by
  refine runBlocks_sameState_ok env blocks (blocks.map mergeDefAssignmentsToSameVar)
    (fun n t σ c => RunOk env blocks n t σ c)
    (find?_isSome_mapBlk mergeDefAssignmentsToSameVar (fun _ => rfl) blocks) ?_ fuel t σ c hok hns
  intro n t σ c b b' hok hb hb' σ₁ evs hd
  rw [find?_mapBlk mergeDefAssignmentsToSameVar (fun _ => rfl), hb] at hb'
  simp only [Option.map, Option.some.injEq] at hb'
  subst hb'
  obtain ⟨hdefs, hrest⟩ := hok b hb
  obtain ⟨hj, hnext⟩ := hrest σ₁ evs hd
  refine ⟨mergeDefsLoop_boolOk b.term.defs none (by simpa using hd) (by simpa using hdefs),
    mergeDefsLoop_exec b.term.defs none (by simpa using hd), fun _ => ⟨hj, rfl, hnext⟩⟩

theorem mergeAssignments_runSub (env : Env) (s : Term Sub) (σ : State) (fuel : Nat)
    (hok : ∀ b bs, s.term.blocks = b :: bs → RunOk env s.term.blocks fuel b.tid σ 0)
    (hns : NoStuck (runSub env s.term σ fuel)) :
    runSub env (mapSubBlocks mergeDefAssignmentsToSameVar s).term σ fuel = runSub env s.term σ fuel ∧
      (∀ b bs, (mapSubBlocks mergeDefAssignmentsToSameVar s).term.blocks = b :: bs →
        RunOk env (mapSubBlocks mergeDefAssignmentsToSameVar s).term.blocks fuel b.tid σ 0) := by
  rw [runSub_mapBlocks env mergeDefAssignmentsToSameVar (fun _ => rfl)]
  unfold runSub at hns ⊢
  simp only [mapSubBlocks]
  cases hbl : s.term.blocks with
  | nil => exact ⟨rfl, fun b bs h => by cases h⟩
  | cons b bs =>
    rw [hbl] at hns
    have := mergeAssignments_runBlocks env (b :: bs) fuel b.tid σ 0 (by rw [← hbl]; exact hok b bs hbl) hns
    refine ⟨this.1, fun b' bs' h => ?_⟩
    simp only [List.map, List.cons.injEq] at h
    rw [← h.1]
    exact this.2


/-! ### the block-local insertion keeps the boolean discipline -/

theorem propagateDefs_boolOk {ptr : Nat} (defs : List (Term Def)) {σ : State} {t : Table} {r : State × List Event}
    (hσ : StateWF σ) (hv : TableValid σ t) (hws : TableWS t)
    (hwd : ∀ d ∈ defs, WellSizedDef ptr d.term) (hbo : DefsBoolOk defs σ)
    (hr : execDefs σ defs = some r) : DefsBoolOk (propagateDefs t defs).1 σ := by
  induction defs generalizing σ t r with
  | nil => trivial
  | cons d ds ih =>
    obtain ⟨σ₁, e₁, σ₂, e₂, h1, h2, rfl⟩ := execDefs_cons_some.mp hr
    have hwd0 := hwd d List.mem_cons_self
    have hwds : ∀ x ∈ ds, WellSizedDef ptr x.term := fun x hx => hwd x (List.mem_cons_of_mem _ hx)
    have hσ₁ := hσ.execDef h1
    have hbo' := hbo.2 σ₁ e₁ h1
    unfold propagateDefs
    split
    · next v e hde =>
      rw [hde] at h1 hwd0
      obtain ⟨x, hx, hxw, rfl, rfl⟩ := execDef_assign_some h1
      have hext := extendExpression_valid hσ hv hws hwd0.2.1 (hbo.1 e (by rw [hde]; simp [defExprs])) hx
      obtain ⟨hw1, hw2⟩ := extendExpression_sizePreserving hws e hwd0.2.1
      have hv₂ := tableValid_after_assign (v := v) hv hext
      have hws₂ : TableWS (if mentions (extendExpression t e) v = true then t.kill v
          else (t.kill v).insert v (extendExpression t e)) := by
        split
        · exact tableWS_filter hws _
        · exact tableWS_insert (tableWS_filter hws _) ⟨hw1, hw2.trans hwd0.2.2⟩
      refine ⟨fun e' he' => ?_, fun σ' evs hd' => ?_⟩
      · simp only [defExprs, List.mem_singleton] at he'; subst he'; exact hext.2
      · rw [execDef_assign_of hext.1 hxw] at hd'; cases hd'
        exact ih hσ₁ hv₂ hws₂ hwds hbo' h2
    · next v a hde =>
      rw [hde] at h1 hwd0
      have hsub := substAll_valid hv a
      have h1' : execDef σ (.Load v (substAll t a)) = some (σ₁, e₁) := by
        simp only [Sem.execDef] at h1 ⊢
        rw [hsub.1]; exact h1
      have hv₂ : TableValid σ₁ (t.kill v) := by
        simp only [Sem.execDef] at h1
        cases hx : eval σ a with
        | none => rw [hx] at h1; cases h1
        | some x =>
          rw [hx] at h1
          simp only [Option.bind_eq_bind, Option.bind_some, Option.some.injEq, Prod.mk.injEq] at h1
          obtain ⟨rfl, _⟩ := h1
          exact hv.kill_setReg v _
      refine ⟨fun e' he' => ?_, fun σ' evs hd' => ?_⟩
      · simp only [defExprs, List.mem_singleton] at he'; subst he'
        exact hsub.2 (hbo.1 a (by rw [hde]; simp [defExprs]))
      · rw [h1'] at hd'; cases hd'
        exact ih hσ₁ hv₂ (tableWS_filter hws _) hwds hbo' h2
    · next a e hde =>
      rw [hde] at h1 hwd0
      have hsa := substAll_valid hv a
      have hse := substAll_valid hv e
      have h1' : execDef σ (.Store (substAll t a) (substAll t e)) = some (σ₁, e₁) := by
        simp only [Sem.execDef] at h1 ⊢
        rw [hsa.1, hse.1]; exact h1
      have hv₂ : TableValid σ₁ t := by
        simp only [Sem.execDef] at h1
        cases hx : eval σ a with
        | none => rw [hx] at h1; cases h1
        | some x =>
          cases hy : eval σ e with
          | none => rw [hx, hy] at h1; cases h1
          | some y =>
            rw [hx, hy] at h1
            simp only [Option.bind_eq_bind, Option.bind_some, Option.some.injEq, Prod.mk.injEq] at h1
            obtain ⟨rfl, _⟩ := h1
            exact hv.writeMem _ _ _
      refine ⟨fun e' he' => ?_, fun σ' evs hd' => ?_⟩
      · simp only [defExprs, List.mem_cons, List.not_mem_nil, or_false] at he'
        rcases he' with rfl | rfl
        · exact hsa.2 (hbo.1 a (by rw [hde]; simp [defExprs]))
        · exact hse.2 (hbo.1 e (by rw [hde]; simp [defExprs]))
      · rw [h1'] at hd'; cases hd'
        exact ih hσ₁ hv₂ hws hwds hbo' h2

/-! ### post-fixpoint tables -/

theorem allWSB_sound {m : TableMap} (h : allWSB m = true) : AllWS m := by
  intro q hq t hqt
  have := List.all_eq_true.mp h q hq
  rw [hqt] at this
  intro e he
  have he' := List.all_eq_true.mp this e he
  simp only [Bool.and_eq_true, beq_iff_eq, C12.wellSizedExpr, decide_eq_true_eq] at he'
  exact he'

/-- entrywise inclusion, as a proposition -/
theorem subsetOf_valid {σ : State} {a b : Table} (h : a.subsetOf b = true) (hv : TableValid σ b) : TableValid σ a := by
  intro q hq
  have := List.all_eq_true.mp h q hq
  exact hv.get (eq_of_beq this)

/-- the post-fixpoint property of the tables of one function, in the form the run needs it -/
structure TablesClosedAt (p : Program) (m : TableMap) (s : Term Sub) : Prop where
  entry : ∀ e rest, s.term.blocks = e :: rest → m.get e.tid = some []
  sent : ∀ a ∈ s.term.blocks, ∀ b ∈ s.term.blocks, ∀ x ∈ tablesSent p m a b.tid,
    ∃ tb, m.get b.tid = some tb ∧ tb.subsetOf x = true

theorem tablesClosedAt_of_check {p : Program} {m : TableMap} (hcl : tablesClosed p m = true)
    (hre : tablesReach p m = true) {s : Term Sub} (hs : s ∈ p.subs) : TablesClosedAt p m s := by
  have hcl' := List.all_eq_true.mp hcl s hs
  have hre' := List.all_eq_true.mp hre s hs
  simp only [Bool.and_eq_true] at hre'
  obtain ⟨hre1, hre2⟩ := hre'
  constructor
  · intro e rest hbl
    rw [hbl] at hre1 hcl'
    simp only at hre1
    cases hg : m.get e.tid with
    | none => rw [hg] at hre1; cases hre1
    | some tb =>
      have h0 := List.all_eq_true.mp hcl' (0, e) (by simp [List.mapIdx_cons])
      simp only [hg, Bool.and_eq_true] at h0
      have : tb = [] := by
        have := h0.1
        cases tb with
        | nil => rfl
        | cons _ _ => simp at this
      rw [this]
  · intro a ha b hb x hx
    have h1 := List.all_eq_true.mp (List.all_eq_true.mp hre2 a ha) b hb
    have hne : (tablesSent p m a b.tid).isEmpty = false := by
      cases hl : tablesSent p m a b.tid with
      | nil => rw [hl] at hx; cases hx
      | cons _ _ => rfl
    rw [hne, Bool.false_or] at h1
    cases hg : m.get b.tid with
    | none => rw [hg] at h1; cases h1
    | some tb =>
      refine ⟨tb, rfl, ?_⟩
      obtain ⟨i, hi, hib⟩ := List.getElem_of_mem hb
      have hmem : (i, b) ∈ (s.term.blocks.mapIdx fun i b => (i, b)) := by
        rw [List.mem_mapIdx]; exact ⟨i, hi, by rw [hib]⟩
      have h2 := List.all_eq_true.mp hcl' (i, b) hmem
      simp only [hg, Bool.and_eq_true] at h2
      exact List.all_eq_true.mp (List.all_eq_true.mp h2.2 a ha) x hx


/-! ### structural hypotheses on the control flow -/

/-- the table a block sends along the jump the run takes: the table after its defs (state unchanged), or the
empty table (calls) -/
theorem tablesSent_of_jmpGoes {env : Env} {p : Program} {m : TableMap} {a : Term Blk} {ta : Table}
    {σ σ₂ : State} {c c₂ : Nat} {j : Term Jmp} {u : Option Jmp} {t : Tid}
    (hg : m.get a.tid = some ta) (hmem : (j.term, u) ∈ jmpsWithUntaken a) (hok : jmpCfgOk p j.term = true)
    (hgo : JmpGoes env σ c j t σ₂ c₂) :
    (tableAfterDefs ta a.term.defs ∈ tablesSent p m a t ∧ σ₂ = σ ∧ c₂ = c) ∨ ([] ∈ tablesSent p m a t) := by
  simp only [tablesSent, List.mem_flatMap, hg, Option.map]
  unfold JmpGoes at hgo
  cases hj : j.term with
  | Branch tgt =>
    rw [hj] at hgo hmem
    obtain ⟨rfl, rfl, rfl⟩ := hgo
    exact .inl ⟨⟨_, hmem, by simp⟩, rfl, rfl⟩
  | CBranch tgt cnd =>
    rw [hj] at hgo hmem
    obtain ⟨rfl, rfl, rfl, _⟩ := hgo
    exact .inl ⟨⟨_, hmem, by simp⟩, rfl, rfl⟩
  | BranchInd e => rw [hj] at hgo; exact hgo.elim
  | Return e => rw [hj] at hgo; exact hgo.elim
  | Call callee r =>
    rw [hj] at hgo hmem hok
    cases r with
    | none => exact hgo.elim
    | some r =>
      obtain ⟨rfl, _, _⟩ := hgo
      right
      refine ⟨_, hmem, ?_⟩
      simp only [beq_self_eq_true, if_true]
      simp only [jmpCfgOk, Bool.or_eq_true] at hok
      by_cases hext : isExternTid p callee = true
      · simp [hext]
      · rcases hok with hok | hok
        · exact absurd hok hext
        · simp only [hext]
          cases hic : internalCallee p callee with
          | none => rw [hic] at hok; cases hok
          | some f =>
            rw [hic] at hok
            simp only [List.any_eq_true] at hok
            obtain ⟨rb, hrb, hret⟩ := hok
            simp only [Bool.false_eq_true, if_false, List.mem_flatMap, List.mem_filter]
            exact ⟨rb, ⟨hrb, hret⟩, by simp⟩
  | CallInd e r =>
    rw [hj] at hgo hmem
    cases r with
    | none => exact hgo.elim
    | some r =>
      obtain ⟨rfl, _, _⟩ := hgo
      right
      exact ⟨_, hmem, by simp⟩
  | CallOther d r =>
    rw [hj] at hgo hok
    cases r with
    | none => exact hgo.elim
    | some r => simp [jmpCfgOk] at hok


/-! ### the block-local insertion with post-fixpoint tables on runs -/

theorem propagateBlock_defs (t : Table) (b : Term Blk) :
    (propagateBlock t b).term.defs = (propagateDefs t b.term.defs).1 := rfl

theorem propagateBlock_jmps (t : Table) (b : Term Blk) :
    (propagateBlock t b).term.jmps =
      b.term.jmps.map fun j => { j with term := mapJmpExprs (substAll (propagateDefs t b.term.defs).2) j.term } := rfl

/-- the block `insert_expressions` writes for `b`, given the tables `m` -/
def propagateBlockWith (m : TableMap) (b : Term Blk) : Term Blk := propagateBlock ((m.get b.tid).getD []) b

theorem propagateSub_eq (m : TableMap) (s : Term Sub) : propagateSub m s = mapSubBlocks (propagateBlockWith m) s := rfl

theorem tid_of_find? {blocks : List (Term Blk)} {t : Tid} {b : Term Blk}
    (h : blocks.find? (fun b => b.tid == t) = some b) : b ∈ blocks ∧ b.tid = t :=
  ⟨List.mem_of_find?_eq_some h, eq_of_beq (List.find?_some (p := fun b : Term Blk => b.tid == t) h)⟩

/-- the run invariant of expression propagation: the state is well-formed, the rest of the run keeps H1, and
the table of the fixpoint at the start of the current block is valid in the current state -/
def PropInv (env : Env) (m : TableMap) (blocks : List (Term Blk)) (n : Nat) (t : Tid) (σ : State) (c : Nat) : Prop :=
  StateWF σ ∧ RunOk env blocks n t σ c ∧
    ∀ b, blocks.find? (fun b => b.tid == t) = some b → ∃ tb, m.get b.tid = some tb ∧ TableValid σ tb

/-- **C10-propagation-closed.** Closedness of the tables along runs: for every family of tables that is a
post-fixpoint (`TablesClosedAt`), the block-local insertion reproduces every block of a run, and the table of
the next block is valid in the state in which the run enters it. -/
theorem propagate_blockSim (env : Env) {ptr : Nat} (p₁ : Program) (m : TableMap) (hm : AllWS m) (s : Term Sub)
    (hws : WellSizedSub ptr s.term) (hcl : TablesClosedAt p₁ m s) (hcfg : subCfgOk p₁ s = true) :
    BlockSim env s.term.blocks (s.term.blocks.map (propagateBlockWith m))
      (PropInv env m s.term.blocks) := by
  intro n t σ c b b' ⟨hσ, hok, htab⟩ hb hb' σ₁ evs hd
  rw [find?_mapBlk (propagateBlockWith m) (fun _ => rfl), hb] at hb'
  simp only [Option.map, Option.some.injEq] at hb'
  subst hb'
  obtain ⟨hbm, hbt⟩ := tid_of_find? hb
  obtain ⟨tb, hg, hv⟩ := htab b hb
  have hwb := hws b hbm
  have hwst : TableWS tb := allWS_get hm hg
  obtain ⟨hdefs, hrest⟩ := hok b hb
  obtain ⟨hj, hnext⟩ := hrest σ₁ evs hd
  have hσ₁ := hσ.execDefs hd
  have hgd : (m.get b.tid).getD [] = tb := by rw [hg]; rfl
  simp only [propagateBlockWith, hgd, propagateBlock_defs, propagateBlock_jmps]
  obtain ⟨hex, hv', hws'⟩ := propagateDefs_exec b.term.defs hσ hv hwst hwb.1 hdefs hd
  refine ⟨propagateDefs_boolOk b.term.defs hσ hv hwst hwb.1 hdefs hd, hex, fun hns₂ => ⟨?_, ?_, ?_⟩⟩
  · intro j' hj' e he
    obtain ⟨j, hjm, rfl⟩ := List.mem_map.mp hj'
    simp only [jmpExprs_map, List.mem_map] at he
    obtain ⟨e₀, he₀, rfl⟩ := he
    exact (substAll_valid hv' e₀).2 (hj j hjm e₀ he₀)
  · exact execJmps_map (fun j _ e _ v hev => by rw [(substAll_valid hv' e).1]; exact hev) hns₂
  · intro evs₂ t₂ σ₂ c₂ hjm
    refine ⟨hσ₁.execJmps hjm, hnext evs₂ t₂ σ₂ c₂ hjm, fun b₂ hb₂ => ?_⟩
    obtain ⟨hb₂m, hb₂t⟩ := tid_of_find? hb₂
    have hcb := List.all_eq_true.mp hcfg b hbm
    simp only [Bool.and_eq_true, decide_eq_true_eq] at hcb
    obtain ⟨j, hjmem, u, hu, hgo, _⟩ := execJmps_goto_inv hcb.1 hjm
    have hjok := List.all_eq_true.mp hcb.2 j hjmem
    have hvafter : TableValid σ₁ (tableAfterDefs tb b.term.defs) :=
      tableAfterDefs_valid b.term.defs hσ hv hwst hwb.1 hdefs hd
    rcases tablesSent_of_jmpGoes (p := p₁) (m := m) hg hu hjok hgo with ⟨hx, rfl, _⟩ | hx
    · rw [← hb₂t] at hx
      obtain ⟨tb₂, hg₂, hsub⟩ := hcl.sent b hbm b₂ hb₂m _ hx
      exact ⟨tb₂, hg₂, subsetOf_valid hsub hvafter⟩
    · rw [← hb₂t] at hx
      obtain ⟨tb₂, hg₂, hsub⟩ := hcl.sent b hbm b₂ hb₂m _ hx
      exact ⟨tb₂, hg₂, subsetOf_valid hsub (tableValid_nil σ₂)⟩

/-- **C10-propagation-run (tables as parameter).** For ANY family of well-sized tables `m` that is a
post-fixpoint of the model transfer functions on the program `p₁` (`tablesClosed` and `tablesReach`, both
executable), the block-local insertion `insert_expressions` preserves the trace of every function `s` of `p₁`
exactly, for every well-formed initial state and every fuel, provided the run of `s` keeps the boolean
discipline (H1) and does not get stuck (H3); and the run of the new function keeps H1. -/
theorem propagateWith_runSub (env : Env) {ptr : Nat} (p₁ : Program) (hws : WellSizedProgram p₁ ptr)
    (m : TableMap) (hm : AllWS m) (hcl : tablesClosed p₁ m = true) (hre : tablesReach p₁ m = true)
    (s : Term Sub) (hs : s ∈ p₁.subs) (hcfg : subCfgOk p₁ s = true)
    (σ : State) (fuel : Nat) (hσ : StateWF σ)
    (hok : ∀ b bs, s.term.blocks = b :: bs → RunOk env s.term.blocks fuel b.tid σ 0)
    (hns : NoStuck (runSub env s.term σ fuel)) :
    runSub env (propagateSub m s).term σ fuel = runSub env s.term σ fuel ∧
      (∀ b bs, (propagateSub m s).term.blocks = b :: bs →
        RunOk env (propagateSub m s).term.blocks fuel b.tid σ 0) := by
  have hclAt := tablesClosedAt_of_check hcl hre hs
  have hsim := propagate_blockSim env p₁ m hm s (hws s hs) hclAt hcfg
  have hrun := runBlocks_sameState_ok env s.term.blocks
    (s.term.blocks.map (propagateBlockWith m)) (PropInv env m s.term.blocks)
    (find?_isSome_mapBlk (propagateBlockWith m) (fun _ => rfl) s.term.blocks) hsim
  rw [propagateSub_eq, runSub_mapBlocks env (propagateBlockWith m) (fun _ => rfl)]
  simp only [mapSubBlocks]
  cases hbl : s.term.blocks with
  | nil => exact ⟨by simp only [runSub, hbl], fun b bs h => by cases h⟩
  | cons b bs =>
    have hns' : NoStuck (runBlocks env s.term.blocks fuel b.tid σ 0) := by
      simpa only [runSub, hbl] using hns
    have hinv : PropInv env m s.term.blocks fuel b.tid σ 0 := by
      refine ⟨hσ, hok b bs hbl, fun b₀ hb₀ => ?_⟩
      rw [hbl] at hb₀
      simp only [List.find?, beq_self_eq_true, Option.some.injEq] at hb₀
      subst hb₀
      exact ⟨[], hclAt.entry b bs hbl, tableValid_nil σ⟩
    have h2 := hrun fuel b.tid σ 0 hinv hns'
    rw [hbl] at h2
    refine ⟨by simp only [runSub, hbl]; exact h2.1, fun b' bs' h => ?_⟩
    simp only [List.map, List.cons.injEq] at h
    rw [← h.1]
    exact h2.2

/-! ### program level -/

/-- exact trace preservation for one function, with the run-time hypothesis H1 transported to the new function:
for every well-formed state and fuel, if the run of `s` keeps H1 and does not get stuck, the run of `s'` produces
the same events and keeps H1 -/
def SubPreservesOk (env : Env) (s s' : Term Sub) : Prop :=
  ∀ (σ : State) (fuel : Nat), StateWF σ →
    (∀ b bs, s.term.blocks = b :: bs → RunOk env s.term.blocks fuel b.tid σ 0) →
    NoStuck (runSub env s.term σ fuel) →
    runSub env s'.term σ fuel = runSub env s.term σ fuel ∧
      (∀ b bs, s'.term.blocks = b :: bs → RunOk env s'.term.blocks fuel b.tid σ 0)

theorem SubPreservesOk.trans {env : Env} {s s' s'' : Term Sub} (h₁ : SubPreservesOk env s s')
    (h₂ : SubPreservesOk env s' s'') : SubPreservesOk env s s'' := by
  intro σ fuel hσ hok hns
  obtain ⟨e₁, ok₁⟩ := h₁ σ fuel hσ hok hns
  obtain ⟨e₂, ok₂⟩ := h₂ σ fuel hσ ok₁ (by rw [e₁]; exact hns)
  exact ⟨e₂.trans e₁, ok₂⟩

theorem mapJmps_eq_self {g : Term Blk → Term Blk} (hj : ∀ b, (g b).term.jmps = b.term.jmps) (b : Term Blk) :
    hasReturnJmp (g b) = hasReturnJmp b := by
  simp only [hasReturnJmp, hj]

theorem find?_mapSub (f : Term Sub → Term Sub) (hf : ∀ s, (f s).tid = s.tid) (subs : List (Term Sub)) (t : Tid) :
    (subs.map f).find? (fun s => s.tid == t) = (subs.find? (fun s => s.tid == t)).map f := by
  induction subs with
  | nil => rfl
  | cons s ss ih =>
    simp only [List.map, List.find?, hf]
    cases s.tid == t
    · exact ih
    · rfl

/-- `internalCallee` after a block map -/
theorem internalCallee_mapBlocks (g : Term Blk → Term Blk) (p : Program) (t : Tid) :
    internalCallee (mapProgramSubs (mapSubBlocks g) p) t = (internalCallee p t).map (mapSubBlocks g) := by
  unfold internalCallee
  have hext : isExternTid (mapProgramSubs (mapSubBlocks g) p) t = isExternTid p t := rfl
  rw [hext]
  split
  · rfl
  · simp only [mapProgramSubs]
    rw [find?_mapSub (mapSubBlocks g) (fun _ => rfl)]
    cases p.subs.find? (fun s => s.tid == t) with
    | none => rfl
    | some s =>
      simp only [Option.map, mapSubBlocks, List.isEmpty_map]
      split <;> rfl

/-- the structural hypothesis is kept by block maps that keep the jumps -/
theorem subCfgOk_mapBlocks {g : Term Blk → Term Blk} (hj : ∀ b, (g b).term.jmps = b.term.jmps) {p : Program}
    {s : Term Sub} (h : subCfgOk p s = true) :
    subCfgOk (mapProgramSubs (mapSubBlocks g) p) (mapSubBlocks g s) = true := by
  simp only [subCfgOk, mapSubBlocks, List.all_map, List.all_eq_true, Function.comp, hj] at h ⊢
  intro b hb
  have hb' := h b hb
  simp only [Bool.and_eq_true, List.all_eq_true] at hb' ⊢
  refine ⟨hb'.1, fun j hjm => ?_⟩
  have hjo := hb'.2 j hjm
  cases hjt : j.term with
  | Call callee r =>
    cases r with
    | none => rfl
    | some r =>
      rw [hjt] at hjo
      simp only [jmpCfgOk, Bool.or_eq_true] at hjo ⊢
      rcases hjo with hjo | hjo
      · exact .inl hjo
      · right
        rw [internalCallee_mapBlocks]
        cases hic : internalCallee p callee with
        | none => rw [hic] at hjo; cases hjo
        | some f =>
          rw [hic] at hjo
          simp only [Option.map, mapSubBlocks, List.any_map] at hjo ⊢
          rw [List.any_eq_true] at hjo ⊢
          obtain ⟨rb, hrb, hret⟩ := hjo
          exact ⟨rb, hrb, by simp only [Function.comp, mapJmps_eq_self hj]; exact hret⟩
  | CallOther d r =>
    rw [hjt] at hjo
    cases r with
    | none => rfl
    | some r => simp [jmpCfgOk] at hjo
  | Branch t => rfl
  | CBranch t c => rfl
  | BranchInd e => rfl
  | CallInd e r => rfl
  | Return e => rfl

theorem mergeAssignmentsProgram_wellSized {p : Program} {ptr : Nat} (h : WellSizedProgram p ptr) :
    WellSizedProgram (mergeAssignmentsProgram p) ptr := by
  apply wellSizedProgram_mapBlocks _ h
  intro b hb
  exact ⟨mergeDefsLoop_ws b.term.defs none (fun _ h => by cases h) hb.1, hb.2⟩

/-- **C10-propagation-pass (tables as parameter).** The whole pass `propagate_input_expression` — merging of
assignments, then block-local insertion of ANY well-sized post-fixpoint family of tables `m` for the merged
program (in particular the tables of the real fixpoint, which the driver checks with `tablesClosed` and
`tablesReach`) — preserves the trace of every function exactly and transports H1. -/
theorem propagateProgramWith_preserves (env : Env) {ptr : Nat} (p : Program) (hp : WellSizedProgram p ptr)
    (m : TableMap) (hm : AllWS m) (hcl : tablesClosed (mergeAssignmentsProgram p) m = true)
    (hre : tablesReach (mergeAssignmentsProgram p) m = true)
    (s : Term Sub) (hs : s ∈ p.subs) (hcfg : subCfgOk p s = true) :
    SubPreservesOk env s (propagateSub m (mapSubBlocks mergeDefAssignmentsToSameVar s)) := by
  refine SubPreservesOk.trans (s' := mapSubBlocks mergeDefAssignmentsToSameVar s) ?_ ?_
  · intro σ fuel _ hok hns
    exact mergeAssignments_runSub env s σ fuel hok hns
  · intro σ fuel hσ hok hns
    have hs₁ : mapSubBlocks mergeDefAssignmentsToSameVar s ∈ (mergeAssignmentsProgram p).subs := by
      simp only [mergeAssignmentsProgram, mapProgramSubs, List.mem_map]
      exact ⟨s, hs, rfl⟩
    exact propagateWith_runSub env (mergeAssignmentsProgram p) (mergeAssignmentsProgram_wellSized hp) m hm hcl hre
      _ hs₁ (subCfgOk_mapBlocks (g := mergeDefAssignmentsToSameVar) (fun _ => rfl) hcfg) σ fuel hσ hok hns

theorem zip_map_mem' {α β : Type} (f : α → β) (l : List α) (x : α × β) (h : x ∈ l.zip (l.map f)) :
    x.1 ∈ l ∧ x.2 = f x.1 := by
  induction l with
  | nil => cases h
  | cons a as ih =>
    simp only [List.map, List.zip_cons_cons, List.mem_cons] at h
    rcases h with rfl | h
    · exact ⟨List.mem_cons_self, rfl⟩
    · exact ⟨List.mem_cons_of_mem _ (ih h).1, (ih h).2⟩

/-- the functions of the output of `propagate_input_expression` -/
theorem propagateProgram_subs (p : Program) :
    (propagateProgram p).subs = p.subs.map fun s =>
      propagateSub (computeTables (mergeAssignmentsProgram p)) (mapSubBlocks mergeDefAssignmentsToSameVar s) := by
  simp only [propagateProgram, mergeAssignmentsProgram, mapProgramSubs, List.map_map]
  rfl

/-- **C10-propagation-pass.** `propagate_input_expression` with the tables of the model's own iteration:
whenever the iteration has reached a post-fixpoint (checked by the two executable conditions — the
iteration is fuelled), the pass preserves the trace of every function exactly and transports H1. -/
theorem propagateProgram_preserves (env : Env) {ptr : Nat} (p : Program) (hp : WellSizedProgram p ptr)
    (hcl : tablesClosed (mergeAssignmentsProgram p) (computeTables (mergeAssignmentsProgram p)) = true)
    (hre : tablesReach (mergeAssignmentsProgram p) (computeTables (mergeAssignmentsProgram p)) = true)
    (ss : Term Sub × Term Sub) (hss : ss ∈ p.subs.zip (propagateProgram p).subs) (hcfg : subCfgOk p ss.1 = true) :
    SubPreservesOk env ss.1 ss.2 := by
  rw [propagateProgram_subs] at hss
  obtain ⟨hmem, himg⟩ := zip_map_mem' _ _ ss hss
  rw [himg]
  exact propagateProgramWith_preserves env p hp _ (computeTables_ws (mergeAssignmentsProgram_wellSized hp)) hcl hre
    ss.1 hmem hcfg


end CweModel.C10
