/-
C10 — the structural hypotheses of the run-level theorems are kept by the first three passes.

Expression propagation (both of its stages), trivial expression substitution and dead variable elimination
keep the control-flow skeleton of a program: the same functions and blocks (by tid), the same jumps up to
their expressions, the same indirect-jump hints (`KeepsCfg`). Every structural hypothesis used by the
run-level theorems — `CfOk` (RunControlFlow.lean), `dveShapeOk` (DeadVars.lean), `subCfgOk`
(Propagation.lean) — depends on that skeleton only, so it is enough to require them of the INPUT program.
Core-only.
-/
import CweModel.C10.RunControlFlow
import CweModel.C10.RunDeadVars

namespace CweModel.C10
open CweModel CweModel.IR CweModel.Sem CweModel.C10.CF

/-! ### passes that keep the control-flow skeleton -/

def mapTermJmp (f : Expression → Expression) (j : Term Jmp) : Term Jmp := { j with term := mapJmpExprs f j.term }

/-- the block transformer `g` (which may depend on the function) keeps tids, hints and jumps up to expressions -/
structure KeepsCfg (g : Term Sub → Term Blk → Term Blk) : Prop where
  tid : ∀ s b, (g s b).tid = b.tid
  hints : ∀ s b, (g s b).term.indirectJmpTargets = b.term.indirectJmpTargets
  jmps : ∀ s b, ∃ f, (g s b).term.jmps = b.term.jmps.map (mapTermJmp f)

/-- the program transformer of a block transformer -/
def mapCfg (g : Term Sub → Term Blk → Term Blk) (p : Program) : Program :=
  mapProgramSubs (fun s => mapSubBlocks (g s) s) p

theorem mapJmpExprs_id (j : Jmp) : mapJmpExprs (fun e => e) j = j := by cases j <;> rfl

theorem mapTermJmp_id (j : Term Jmp) : mapTermJmp (fun e => e) j = j := by
  unfold mapTermJmp
  rw [mapJmpExprs_id]

theorem map_mapTermJmp_id (js : List (Term Jmp)) : js.map (mapTermJmp fun e => e) = js := by
  have : (mapTermJmp fun e => e) = id := funext mapTermJmp_id
  rw [this, List.map_id]

/-! #### the jumps keep their constructor and targets -/

theorem isCBranchJmp_map (f : Expression → Expression) (j : Jmp) : isCBranchJmp (mapJmpExprs f j) = isCBranchJmp j := by
  cases j <;> rfl

theorem mapJmpExprs_eq_callOther {f : Expression → Expression} {j : Jmp} {d : String} {r : Option Tid}
    (h : mapJmpExprs f j = .CallOther d r) : j = .CallOther d r := by
  cases j <;> simp only [mapJmpExprs] at h <;> first | exact h | cases h

theorem mapJmpExprs_eq_call {f : Expression → Expression} {j : Jmp} {c : Tid} {r : Option Tid}
    (h : mapJmpExprs f j = .Call c r) : j = .Call c r := by
  cases j <;> simp only [mapJmpExprs] at h <;> first | exact h | cases h

theorem mapJmpExprs_cbranch {f : Expression → Expression} {j : Jmp} {t : Tid} {c : Expression}
    (h : j = .CBranch t c) : mapJmpExprs f j = .CBranch t (f c) := by
  subst h; rfl

theorem hasReturnJmp_keeps {g : Term Sub → Term Blk → Term Blk} (hg : KeepsCfg g) (s : Term Sub) (b : Term Blk) :
    hasReturnJmp (g s b) = hasReturnJmp b := by
  obtain ⟨f, hf⟩ := hg.jmps s b
  simp only [hasReturnJmp, hf, List.any_map]
  congr 1
  funext j
  simp only [Function.comp, mapTermJmp]
  cases j.term <;> rfl

/-! #### program-level lookups -/

theorem isExternTid_mapCfg (g : Term Sub → Term Blk → Term Blk) (p : Program) (t : Tid) :
    isExternTid (mapCfg g p) t = isExternTid p t := rfl

theorem internalCallee_mapCfg (g : Term Sub → Term Blk → Term Blk) (p : Program) (t : Tid) :
    internalCallee (mapCfg g p) t = (internalCallee p t).map (fun s => mapSubBlocks (g s) s) := by
  unfold internalCallee
  rw [isExternTid_mapCfg]
  split
  · rfl
  · simp only [mapCfg, mapProgramSubs]
    rw [C10.find?_mapSub (fun s => mapSubBlocks (g s) s) (fun _ => rfl)]
    cases p.subs.find? (fun s => s.tid == t) with
    | none => rfl
    | some s =>
      simp only [Option.map, mapSubBlocks, List.isEmpty_map]
      split <;> rfl

theorem mem_mapCfg_subs {g : Term Sub → Term Blk → Term Blk} {p : Program} {s' : Term Sub} :
    s' ∈ (mapCfg g p).subs ↔ ∃ s ∈ p.subs, s' = mapSubBlocks (g s) s := by
  simp only [mapCfg, mapProgramSubs, List.mem_map]
  constructor
  · rintro ⟨s, hs, rfl⟩; exact ⟨s, hs, rfl⟩
  · rintro ⟨s, hs, rfl⟩; exact ⟨s, hs, rfl⟩

theorem mem_mapSubBlocks {g : Term Blk → Term Blk} {s : Term Sub} {b' : Term Blk} :
    b' ∈ (mapSubBlocks g s).term.blocks ↔ ∃ b ∈ s.term.blocks, b' = g b := by
  simp only [mapSubBlocks, List.mem_map]
  constructor
  · rintro ⟨b, hb, rfl⟩; exact ⟨b, hb, rfl⟩
  · rintro ⟨b, hb, rfl⟩; exact ⟨b, hb, rfl⟩

/-! ### the structural hypotheses are kept -/

theorem dveBlkOk_keeps {g : Term Sub → Term Blk → Term Blk} (hg : KeepsCfg g) (s : Term Sub) (b : Term Blk) :
    dveBlkOk (g s b) = dveBlkOk b := by
  obtain ⟨f, hf⟩ := hg.jmps s b
  unfold dveBlkOk
  rw [hf, hg.hints]
  match b.term.jmps with
  | [] => rfl
  | [j] => simp only [List.map, mapTermJmp, isCBranchJmp_map]
  | [j₁, j₂] =>
    simp only [List.map, mapTermJmp, isCBranchJmp_map]
    cases j₂.term <;> rfl
  | _ :: _ :: _ :: _ => rfl

theorem dveShapeOk_keeps {g : Term Sub → Term Blk → Term Blk} (hg : KeepsCfg g) (s : Term Sub)
    (blocks : List (Term Blk)) : dveShapeOk (blocks.map (g s)) = dveShapeOk blocks := by
  simp only [dveShapeOk, List.all_map]
  congr 1
  funext b
  exact dveBlkOk_keeps hg s b

theorem blkOk_keeps {g : Term Sub → Term Blk → Term Blk} (hg : KeepsCfg g) {p : Program} (s : Term Sub) {b : Term Blk}
    (h : BlkOk p b) : BlkOk (mapCfg g p) (g s b) := by
  obtain ⟨f, hf⟩ := hg.jmps s b
  refine ⟨?_, ?_, ?_⟩
  · have hs := h.shape
    unfold jmpShape at hs ⊢
    rw [hf]
    match hjm : b.term.jmps with
    | [] => trivial
    | [j] => trivial
    | [j₁, j₂] =>
      rw [hjm] at hs
      obtain ⟨t, c, hj⟩ := hs
      exact ⟨t, f c, mapJmpExprs_cbranch hj⟩
    | _ :: _ :: _ :: _ => rw [hjm] at hs; exact hs.elim
  · intro j' hj' d r hjt
    rw [hf] at hj'
    obtain ⟨j, hj, rfl⟩ := List.mem_map.mp hj'
    exact h.noCallOtherRet j hj d r (mapJmpExprs_eq_callOther hjt)
  · intro j' hj' callee r hjt
    rw [hf] at hj'
    obtain ⟨j, hj, rfl⟩ := List.mem_map.mp hj'
    rcases h.callRet j hj callee r (mapJmpExprs_eq_call hjt) with hext | ⟨sc, hsc, hne⟩
    · exact .inl hext
    · right
      refine ⟨mapSubBlocks (g sc) sc, by rw [internalCallee_mapCfg, hsc]; rfl, ?_⟩
      intro hnil
      apply hne
      have : ∀ bb ∈ sc.term.blocks, hasReturnJmp bb = false := by
        intro bb hbb
        cases hr : hasReturnJmp bb with
        | false => rfl
        | true =>
          have hm : g sc bb ∈ (mapSubBlocks (g sc) sc).term.blocks.filter hasReturnJmp := by
            rw [List.mem_filter]
            exact ⟨mem_mapSubBlocks.mpr ⟨bb, hbb, rfl⟩, by rw [hasReturnJmp_keeps hg]; exact hr⟩
          rw [hnil] at hm; cases hm
      exact List.filter_eq_nil_iff.mpr (fun bb hbb => by rw [this bb hbb]; exact Bool.false_ne_true)

theorem jmpTidsUnique_keeps {g : Term Sub → Term Blk → Term Blk} (hg : KeepsCfg g) {p : Program}
    (h : JmpTidsUnique p) : JmpTidsUnique (mapCfg g p) := by
  intro s₁' hs₁ b₁' hb₁ j₁' hj₁ s₂' hs₂ b₂' hb₂ j₂' hj₂ heq
  obtain ⟨s₁, hs₁m, rfl⟩ := mem_mapCfg_subs.mp hs₁
  obtain ⟨s₂, hs₂m, rfl⟩ := mem_mapCfg_subs.mp hs₂
  obtain ⟨b₁, hb₁m, rfl⟩ := mem_mapSubBlocks.mp hb₁
  obtain ⟨b₂, hb₂m, rfl⟩ := mem_mapSubBlocks.mp hb₂
  obtain ⟨f₁, hf₁⟩ := hg.jmps s₁ b₁
  obtain ⟨f₂, hf₂⟩ := hg.jmps s₂ b₂
  rw [hf₁] at hj₁
  rw [hf₂] at hj₂
  obtain ⟨j₁, hj₁m, rfl⟩ := List.mem_map.mp hj₁
  obtain ⟨j₂, hj₂m, rfl⟩ := List.mem_map.mp hj₂
  obtain ⟨rfl, rfl, rfl⟩ := h s₁ hs₁m b₁ hb₁m j₁ hj₁m s₂ hs₂m b₂ hb₂m j₂ hj₂m heq
  have hff : mapTermJmp f₂ j₂ = mapTermJmp f₁ j₂ := by
    -- both are members of the same jump list `(g s₂ b₂).term.jmps`
    rw [hf₂] at hf₁
    have := List.map_inj_left.mp hf₁ j₂ hj₁m
    exact this
  exact ⟨rfl, rfl, hff⟩

theorem blkTidsUnique_keeps {g : Term Sub → Term Blk → Term Blk} (hg : KeepsCfg g) {p : Program}
    (h : BlkTidsUnique p) : BlkTidsUnique (mapCfg g p) := by
  intro s₁' hs₁ b₁' hb₁ s₂' hs₂ b₂' hb₂ heq
  obtain ⟨s₁, hs₁m, rfl⟩ := mem_mapCfg_subs.mp hs₁
  obtain ⟨s₂, hs₂m, rfl⟩ := mem_mapCfg_subs.mp hs₂
  obtain ⟨b₁, hb₁m, rfl⟩ := mem_mapSubBlocks.mp hb₁
  obtain ⟨b₂, hb₂m, rfl⟩ := mem_mapSubBlocks.mp hb₂
  rw [hg.tid, hg.tid] at heq
  obtain ⟨rfl, rfl⟩ := h s₁ hs₁m b₁ hb₁m s₂ hs₂m b₂ hb₂m heq
  exact ⟨rfl, rfl⟩

/-- **C10-skeleton.** A pass that keeps the control-flow skeleton keeps the structural hypotheses `CfOk`. -/
theorem cfOk_keeps {g : Term Sub → Term Blk → Term Blk} (hg : KeepsCfg g) {p : Program} (h : CfOk p) :
    CfOk (mapCfg g p) := by
  refine ⟨jmpTidsUnique_keeps hg h.jmpTids, blkTidsUnique_keeps hg h.blkTids, ?_⟩
  intro s' hs' b' hb'
  obtain ⟨s, hs, rfl⟩ := mem_mapCfg_subs.mp hs'
  obtain ⟨b, hb, rfl⟩ := mem_mapSubBlocks.mp hb'
  exact blkOk_keeps hg s (h.blks s hs b hb)

/-- `CfOk` contains the structural hypothesis of expression propagation -/
theorem subCfgOk_of_cfOk {p : Program} (h : CfOk p) {s : Term Sub} (hs : s ∈ p.subs) : subCfgOk p s = true := by
  simp only [subCfgOk, List.all_eq_true, Bool.and_eq_true, decide_eq_true_eq]
  intro b hb
  have hb' := h.blks s hs b hb
  refine ⟨?_, fun j hj => ?_⟩
  · have := hb'.shape
    unfold jmpShape at this
    match hjm : b.term.jmps with
    | [] => simp
    | [_] => simp
    | [_, _] => simp
    | _ :: _ :: _ :: _ => rw [hjm] at this; exact this.elim
  · cases hjt : j.term with
    | Call callee r =>
      cases r with
      | none => rfl
      | some r =>
        simp only [jmpCfgOk, Bool.or_eq_true]
        rcases hb'.callRet j hj callee r hjt with hext | ⟨sc, hsc, hne⟩
        · exact .inl hext
        · right
          rw [hsc]
          simp only [List.any_eq_true]
          cases hf : sc.term.blocks.filter hasReturnJmp with
          | nil => exact absurd hf hne
          | cons rb _ =>
            have hm : rb ∈ sc.term.blocks.filter hasReturnJmp := by rw [hf]; exact List.mem_cons_self
            exact ⟨rb, (List.mem_filter.mp hm).1, (List.mem_filter.mp hm).2⟩
    | CallOther d r =>
      cases r with
      | none => rfl
      | some r => exact absurd hjt (hb'.noCallOtherRet j hj d r)
    | Branch _ => rfl
    | CBranch _ _ => rfl
    | BranchInd _ => rfl
    | CallInd _ _ => rfl
    | Return _ => rfl

/-! ### the first three passes keep the skeleton -/

theorem keepsCfg_merge : KeepsCfg (fun _ => mergeDefAssignmentsToSameVar) :=
  ⟨fun _ _ => rfl, fun _ _ => rfl, fun _ b => ⟨fun e => e, (map_mapTermJmp_id b.term.jmps).symm⟩⟩

theorem keepsCfg_propagate (m : TableMap) : KeepsCfg (fun _ => propagateBlockWith m) :=
  ⟨fun _ _ => rfl, fun _ _ => rfl, fun _ b => ⟨_, propagateBlock_jmps _ b⟩⟩

theorem keepsCfg_trivial : KeepsCfg (fun _ => mapBlkExprs substTrivial) :=
  ⟨fun _ _ => rfl, fun _ _ => rfl, fun _ _ => ⟨substTrivial, rfl⟩⟩

theorem keepsCfg_removeDead (phys : VarSet) :
    KeepsCfg (fun s => removeDeadBlock (computeAliveVars phys s.term.blocks)) :=
  ⟨fun _ _ => rfl, fun _ _ => rfl, fun _ b => ⟨fun e => e, (map_mapTermJmp_id b.term.jmps).symm⟩⟩

theorem mergeAssignmentsProgram_eq (p : Program) :
    mergeAssignmentsProgram p = mapCfg (fun _ => mergeDefAssignmentsToSameVar) p := rfl

theorem propagateProgram_eq (p : Program) :
    propagateProgram p = mapCfg (fun _ => propagateBlockWith (computeTables (mergeAssignmentsProgram p)))
      (mergeAssignmentsProgram p) := rfl

theorem substTrivialProgram_eq (p : Program) :
    substTrivialProgram p = mapCfg (fun _ => mapBlkExprs substTrivial) p := rfl

theorem removeDeadProgram_eq (phys : VarSet) (p : Program) :
    removeDeadProgram phys p = mapCfg (fun s => removeDeadBlock (computeAliveVars phys s.term.blocks)) p := rfl

/-- `CfOk` of the input program gives `CfOk` of the program after expression propagation, trivial expression
substitution and dead variable elimination -/
theorem cfOk_stages (phys : VarSet) {p : Program} (h : CfOk p) :
    CfOk (removeDeadProgram phys (substTrivialProgram (propagateProgram p))) := by
  rw [removeDeadProgram_eq, substTrivialProgram_eq, propagateProgram_eq, mergeAssignmentsProgram_eq]
  exact cfOk_keeps (keepsCfg_removeDead phys) (cfOk_keeps keepsCfg_trivial
    (cfOk_keeps (keepsCfg_propagate _) (cfOk_keeps keepsCfg_merge h)))

end CweModel.C10
