/-
C10 pass 1 — model of `Expression::substitute_trivial_operations`
(intermediate_representation/expression/trivial_operation_substitution.rs) and of
`Project::substitute_trivial_expressions` (project.rs), rule by rule, in the order of the Rust code.

The model is of the REPAIRED code (D2: `substitute_equivalent_comparison_ops` fires for the constant
zero only; the unrepaired variant is kept as `substEquivalentComparisonOpsD2` for the record).

Constants are `Const bytes val`; apint values are always reduced modulo `2^(8·bytes)`, the model reduces
explicitly so that the theorems hold for every `Expression` value.

Where the real code would panic (`expect("Arithmetic operation with non-matching byte sizes.")`,
`unwrap()` of a constant folding on operands of different sizes) the model leaves the expression
unchanged; this only happens for expressions that are not `WellSized`.
Core-only.
-/
import CweModel.Base.Bv
import CweModel.Base.IRInst
import CweModel.C12.Model

namespace CweModel.C10
open CweModel CweModel.IR

/- `Variable` derives `BEq` and `DecidableEq` independently; list membership needs them to agree -/
deriving instance ReflBEq, LawfulBEq for Variable

/-! ### constants -/
def cval (b x : Nat) : Nat := x % 2 ^ (8 * b)
/-- `Bitvector::is_zero` -/
def isZeroC (b x : Nat) : Bool := cval b x == 0
/-- `Bitvector::is_one` -/
def isOneC (b x : Nat) : Bool := cval b x == 1
/-- `bitvec.clone().into_bitnot().is_zero()` -/
def isAllOnesC (b x : Nat) : Bool := cval b x == 2 ^ (8 * b) - 1

/-- `Const(left.bin_op(op, right).unwrap())`; `none` = the real code panics / reports an error -/
def foldConst (op : BinOpType) (b₁ x₁ b₂ x₂ : Nat) : Option Expression :=
  match Impl.binOp op (Bv.ofBytes b₁ x₁) (Bv.ofBytes b₂ x₂) with
  | .val r => some (.Const r.bytes r.toNat)
  | _ => none

/-! ### the five `substitute_*` steps of `substitute_trivial_binops` -/

/-- `substitute_binop_for_lhs_equal_rhs` -/
def substBinopForLhsEqualRhs (e : Expression) : Expression :=
  match e with
  | .BinOp op l r =>
    if l = r then
      match op with
      | .BoolAnd | .BoolOr | .IntAnd | .IntOr => l
      | .BoolXOr | .IntXOr => .Const l.bytesize 0
      | .IntEqual | .IntLessEqual | .IntSLessEqual => .Const 1 1
      | .IntNotEqual | .IntLess | .IntSLess => .Const 1 0
      | _ => e
    else e
  | _ => e

/-- the or-pattern `(Const(bitvec), op, other) | (other, op, Const(bitvec)) if guard(bitvec)`:
the first alternative whose guard holds; returns (bytes, val, other) -/
def constAndOther (guard : Nat → Nat → Bool) (l r : Expression) : Option (Nat × Nat × Expression) :=
  match l with
  | .Const b x =>
    if guard b x then some (b, x, r) else
      match r with
      | .Const b' x' => if guard b' x' then some (b', x', l) else none
      | _ => none
  | _ =>
    match r with
    | .Const b' x' => if guard b' x' then some (b', x', l) else none
    | _ => none

/-- `matches!(op, IntOr | IntXOr | BoolOr | BoolXOr)` -/
def isOrXorOp : BinOpType → Bool
  | .IntOr | .IntXOr | .BoolOr | .BoolXOr => true
  | _ => false
/-- `matches!(op, IntAnd | BoolAnd)` -/
def isAndOp : BinOpType → Bool
  | .IntAnd | .BoolAnd => true
  | _ => false

/-- `substitute_and_xor_or_with_constant` -/
def substAndXorOrWithConstant (e : Expression) : Expression :=
  match e with
  | .BinOp op l r =>
    match (if isOrXorOp op = true then constAndOther isZeroC l r else none) with
    | some (_, _, other) => other                              -- `a or 0 = a`, `a xor 0 = a`
    | none =>
    match (if isAndOp op = true then constAndOther isAllOnesC l r else none) with
    | some (_, _, other) => other                              -- `a and -1 = a`
    | none =>
    match (if op = .BoolAnd then constAndOther isZeroC l r else none) with
    | some (b, x, _) => .Const b x                             -- `a and 0 = 0`
    | none =>
    match (if op = .BoolAnd then constAndOther isOneC l r else none) with
    | some (_, _, other) => other                              -- `a and 1 = a`
    | none =>
    match (if op = .BoolOr then constAndOther isOneC l r else none) with
    | some (b, x, _) => .Const b x                             -- `a or 1 = 1`
    | none =>
    match (if op = .BoolXOr then constAndOther isOneC l r else none) with
    | some (_, _, other) => .UnOp .BoolNegate other            -- `a xor 1 = ¬a`
    | none => e
  | _ => e

/-- the or-pattern `(Const(bitvec), op, BinOp{IntSub}) | (BinOp{IntSub}, op, Const(bitvec))`:
(bytes, val, inner_lhs, inner_rhs) -/
def constAndSub (guard : Nat → Nat → Bool) (l r : Expression) : Option (Nat × Nat × Expression × Expression) :=
  match l, r with
  | .Const b x, .BinOp .IntSub il ir => if guard b x then some (b, x, il, ir) else none
  | .BinOp .IntSub il ir, .Const b x => if guard b x then some (b, x, il, ir) else none
  | _, _ => none

/-- the or-patterns `(BinOp{opA}, outer, BinOp{opB}) | (BinOp{opB}, outer, BinOp{opA})` with the guard
`(aL == bL && aR == bR) || (aL == bR && aR == bL)`; returns the operands of the `opA` expression -/
def pairOf (opA opB : BinOpType) (l r : Expression) : Option (Expression × Expression) :=
  let guard (aL aR bL bR : Expression) : Bool := (aL = bL ∧ aR = bR) ∨ (aL = bR ∧ aR = bL)
  let alt1 := match l, r with
    | .BinOp o₁ aL aR, .BinOp o₂ bL bR =>
      if o₁ = opA ∧ o₂ = opB ∧ guard aL aR bL bR then some (aL, aR) else none
    | _, _ => none
  match alt1 with
  | some p => some p
  | none =>
    match l, r with
    | .BinOp o₁ bL bR, .BinOp o₂ aL aR =>
      if o₁ = opB ∧ o₂ = opA ∧ guard aL aR bL bR then some (aL, aR) else none
    | _, _ => none

/-- `substitute_equivalent_comparison_ops` (repaired: constant zero only) -/
def substEquivalentComparisonOps (e : Expression) : Expression :=
  match e with
  | .BinOp op l r =>
    match (if op = .IntEqual ∨ op = .IntNotEqual then constAndSub isZeroC l r else none) with
    | some (_, _, il, ir) => .BinOp op il ir                   -- `0 == x - y` ⇝ `x == y`
    | none =>
    match (if op = .BoolOr then pairOf .IntSLess .IntEqual l r else none) with
    | some (a, b) => .BinOp .IntSLessEqual a b
    | none =>
    match (if op = .BoolOr then pairOf .IntLess .IntEqual l r else none) with
    | some (a, b) => .BinOp .IntLessEqual a b
    | none =>
    match (if op = .BoolAnd then pairOf .IntLessEqual .IntNotEqual l r else none) with
    | some (a, b) => .BinOp .IntLess a b
    | none =>
    match (if op = .BoolAnd then pairOf .IntSLessEqual .IntNotEqual l r else none) with
    | some (a, b) => .BinOp .IntSLess a b
    | none => e
  | _ => e

/-- the first arm of `substitute_equivalent_comparison_ops` BEFORE the repair (D2): also the constant one,
with the comparison flipped -/
def substEquivalentComparisonOpsD2 (e : Expression) : Expression :=
  match e with
  | .BinOp op l r =>
    match (if op = .IntEqual ∨ op = .IntNotEqual then
             constAndSub (fun b x => isZeroC b x || isOneC b x) l r else none) with
    | some (b, x, il, ir) =>
      let flip : BinOpType := if op = .IntEqual then .IntNotEqual else .IntEqual
      .BinOp (if isZeroC b x then op else flip) il ir
    | none => substEquivalentComparisonOps e
  | _ => e

/-- `unpack_a_minus_b_less_than_zero` -/
def unpackAMinusBLessThanZero : Expression → Option (Expression × Expression)
  | .BinOp .IntSLess (.BinOp .IntSub a b) (.Const cb cx) => if isZeroC cb cx then some (a, b) else none
  | _ => none

/-- `unpack_a_intsborrow_b` -/
def unpackAIntSBorrowB : Expression → Option (Expression × Expression)
  | .BinOp .IntSBorrow a b => some (a, b)
  | _ => none

/-- `substitute_complicated_a_less_than_b` -/
def substComplicatedALessThanB (e : Expression) : Expression :=
  match e with
  | .BinOp op l r =>
    if op = .IntNotEqual ∨ op = .IntEqual then
      let ab : Option (Expression × Expression) :=
        match unpackAMinusBLessThanZero l with
        | some (a, b) =>
          match unpackAIntSBorrowB r with
          | some (a', b') => if a = a' ∧ b = b' then some (a, b) else none
          | none => none
        | none =>
          match unpackAIntSBorrowB l with
          | some (a, b) =>
            match unpackAMinusBLessThanZero r with
            | some (a', b') => if a = a' ∧ b = b' then some (a, b) else none
            | none => none
          | none => none
      match ab with
      | some (a, b) => if op = .IntNotEqual then .BinOp .IntSLess a b else .BinOp .IntSLessEqual b a
      | none => e
    else e
  | _ => e

/-- `substitute_arithmetics_with_constants` -/
def substArithmeticsWithConstants (e : Expression) : Expression :=
  match e with
  | .BinOp .IntAdd (.Const b₁ x₁) (.Const b₂ x₂) => (foldConst .IntAdd b₁ x₁ b₂ x₂).getD e
  | .BinOp .IntSub (.Const b₁ x₁) (.Const b₂ x₂) => (foldConst .IntSub b₁ x₁ b₂ x₂).getD e
  | .BinOp .IntSub (.BinOp .IntSub left (.Const bm xm)) (.Const br xr) =>
    -- `(x - const_1) - const_2 = x - (const_1 + const_2)`
    match foldConst .IntAdd bm xm br xr with
    | some c => .BinOp .IntSub left c
    | none => e
  | .BinOp .IntAdd (.BinOp .IntAdd left (.Const bm xm)) (.Const br xr) =>
    -- `(x + const_1) + const_2 = x + (const_1 + const_2)`
    match foldConst .IntAdd bm xm br xr with
    | some c => .BinOp .IntAdd left c
    | none => e
  | .BinOp .IntAdd (.BinOp .IntAdd (.Const bl xl) middle) (.Const br xr) =>
    -- `(const_1 + x) + const_2 = x + (const_1 + const_2)` (only if `middle` is not a constant: previous arm)
    match foldConst .IntAdd bl xl br xr with
    | some c => .BinOp .IntAdd middle c
    | none => e
  | _ => e

/-- `substitute_trivial_binops` -/
def substTrivialBinops (e : Expression) : Expression :=
  substArithmeticsWithConstants (substComplicatedALessThanB (substEquivalentComparisonOps
    (substAndXorOrWithConstant (substBinopForLhsEqualRhs e))))

/-! ### the non-BinOp arms of `substitute_trivial_operations` (argument already substituted) -/

/-- the `Subpiece` arm -/
def substSubpiece (lb s : Nat) (arg : Expression) : Expression :=
  if lb = 0 ∧ s = arg.bytesize then arg else
  match arg with
  | .Cast cop _ inner =>
    if (cop = .IntZExt ∨ cop = .IntSExt) ∧ lb = 0 ∧ s = inner.bytesize then inner
    else .Subpiece lb s arg
  | .BinOp .Piece l r =>
    if lb = r.bytesize ∧ s = l.bytesize then l
    else if lb = 0 ∧ s = r.bytesize then r
    else .Subpiece lb s arg
  | .Subpiece ilb _ inner => .Subpiece (lb + ilb) s inner
  | _ => .Subpiece lb s arg

/-- the `Cast` arm -/
def substCast (op : CastOpType) (s : Nat) (arg : Expression) : Expression :=
  if (op = .IntSExt ∨ op = .IntZExt) ∧ s = arg.bytesize then arg
  else if op = .IntSExt ∨ op = .IntZExt then
    match arg with
    | .Cast iop _ inner => if op = iop then .Cast op s inner else .Cast op s arg
    | _ => .Cast op s arg
  else .Cast op s arg

/-- the negated comparison of `!(x op y)`, to be applied to the swapped operands -/
def negatedComparison : BinOpType → Option BinOpType
  | .IntEqual => some .IntNotEqual
  | .IntNotEqual => some .IntEqual
  | .IntLess => some .IntLessEqual
  | .IntSLess => some .IntSLessEqual
  | .IntLessEqual => some .IntLess
  | .IntSLessEqual => some .IntSLess
  | _ => none

/-- the `UnOp` arm -/
def substUnOp (op : UnOpType) (arg : Expression) : Expression :=
  match arg with
  | .UnOp iop inner =>
    if op = iop ∧ (op = .IntNegate ∨ op = .BoolNegate ∨ op = .Int2Comp) then inner else .UnOp op arg
  | .BinOp iop il ir =>
    if op = .BoolNegate then
      match negatedComparison iop with
      | some nop => .BinOp nop ir il      -- note: operands swapped
      | none => .UnOp op arg
    else .UnOp op arg
  | _ => .UnOp op arg

/-- **`Expression::substitute_trivial_operations`** -/
def substTrivial : Expression → Expression
  | .Var v => .Var v
  | .Const b x => .Const b x
  | .Unknown d s => .Unknown d s
  | .Subpiece lb s a => substSubpiece lb s (substTrivial a)
  | .Cast op s a => substCast op s (substTrivial a)
  | .UnOp op a => substUnOp op (substTrivial a)
  | .BinOp op l r => substTrivialBinops (.BinOp op (substTrivial l) (substTrivial r))

/-! ### lifting to defs, jumps, blocks, programs: `Project::substitute_trivial_expressions` -/

def mapDefExprs (f : Expression → Expression) : Def → Def
  | .Assign v e => .Assign v (f e)
  | .Load v a => .Load v (f a)
  | .Store a e => .Store (f a) (f e)

def mapJmpExprs (f : Expression → Expression) : Jmp → Jmp
  | .BranchInd e => .BranchInd (f e)
  | .CBranch t c => .CBranch t (f c)
  | .CallInd e r => .CallInd (f e) r
  | .Return e => .Return (f e)
  | j => j

def mapBlkExprs (f : Expression → Expression) (b : Term Blk) : Term Blk :=
  { b with term := { b.term with
      defs := b.term.defs.map (fun d => { d with term := mapDefExprs f d.term }),
      jmps := b.term.jmps.map (fun j => { j with term := mapJmpExprs f j.term }) } }

def mapSubBlocks (f : Term Blk → Term Blk) (s : Term Sub) : Term Sub :=
  { s with term := { s.term with blocks := s.term.blocks.map f } }

def mapProgramSubs (f : Term Sub → Term Sub) (p : Program) : Program :=
  { p with subs := p.subs.map f }

/-- `Project::substitute_trivial_expressions` -/
def substTrivialProgram (p : Program) : Program :=
  mapProgramSubs (mapSubBlocks (mapBlkExprs substTrivial)) p

end CweModel.C10
