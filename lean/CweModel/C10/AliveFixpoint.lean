/-
C10 pass 3 — the fuelled liveness iteration of the model (`computeAliveVars`) always reaches a post-fixpoint.

`aliveFix` stops when a round does not change the total size of the map; the fuel
`(subVarCount blocks + phys.length + 1) * (blocks.length + 1) + 2` is sufficient because
  * every iterate has the shape `blocks.map fun b => (b.tid, G b)`,
  * every `G b` is duplicate-free and contains only physical registers and variables read by an expression of
    a def or jump of the function (`af_univ`, of length `≤ subVarCount blocks + phys.length`), so the total
    size never exceeds `blocks.length * (af_univ phys blocks).length`,
  * a round never shrinks a set (`insertAll` only appends), and a round that keeps the total size keeps the
    whole map — which then is a post-fixpoint (`aliveClosed`) when the block tids are unique.
Core-only.
-/
import CweModel.C10.RunDeadVars

namespace CweModel.C10
open CweModel CweModel.IR

/-! ### `insertAll` only appends -/

theorem af_insertAll_append (s : VarSet) (vs : List Variable) : ∃ extra, s.insertAll vs = s ++ extra := by
  unfold VarSet.insertAll
  induction vs generalizing s with
  | nil => exact ⟨[], by simp⟩
  | cons x xs ih =>
    simp only [List.foldl]
    by_cases hx : x ∈ s
    · rw [if_pos hx]; exact ih s
    · rw [if_neg hx]
      obtain ⟨e, he⟩ := ih (s ++ [x])
      exact ⟨x :: e, by rw [he]; simp⟩

theorem af_insertAll_length_le (s : VarSet) (vs : List Variable) : s.length ≤ (s.insertAll vs).length := by
  obtain ⟨e, he⟩ := af_insertAll_append s vs
  rw [he, List.length_append]; omega

theorem af_insertAll_eq_of_length {s : VarSet} {vs : List Variable} (h : (s.insertAll vs).length = s.length) :
    s.insertAll vs = s := by
  obtain ⟨e, he⟩ := af_insertAll_append s vs
  rw [he, List.length_append] at h
  have : e = [] := List.eq_nil_of_length_eq_zero (by omega)
  rw [he, this, List.append_nil]

theorem af_insertAll_nodup {s : VarSet} (vs : List Variable) (h : s.Nodup) : (s.insertAll vs).Nodup := by
  unfold VarSet.insertAll
  induction vs generalizing s with
  | nil => exact h
  | cons x xs ih =>
    simp only [List.foldl]
    by_cases hx : x ∈ s
    · rw [if_pos hx]; exact ih h
    · rw [if_neg hx]
      apply ih
      rw [List.nodup_append]
      refine ⟨h, by simp, ?_⟩
      intro a ha b hb
      rw [List.mem_singleton] at hb
      subst hb
      intro e; subst e; exact hx ha

/-! ### sums -/

theorem af_sum_le {α : Type} (l : List α) (f g : α → Nat) (h : ∀ x ∈ l, f x ≤ g x) :
    (l.map f).sum ≤ (l.map g).sum := by
  induction l with
  | nil => simp
  | cons a as ih =>
    simp only [List.map_cons, List.sum_cons]
    have h1 := h a List.mem_cons_self
    have h2 := ih (fun x hx => h x (List.mem_cons_of_mem _ hx))
    omega

theorem af_sum_eq {α : Type} (l : List α) (f g : α → Nat) (h : ∀ x ∈ l, f x ≤ g x)
    (hs : (l.map g).sum = (l.map f).sum) : ∀ x ∈ l, g x = f x := by
  induction l with
  | nil => intro x hx; cases hx
  | cons a as ih =>
    simp only [List.map_cons, List.sum_cons] at hs
    have h1 := h a List.mem_cons_self
    have h2 := af_sum_le as f g (fun x hx => h x (List.mem_cons_of_mem _ hx))
    intro x hx
    rcases List.mem_cons.mp hx with e | hx
    · subst e; omega
    · exact ih (fun x hx => h x (List.mem_cons_of_mem _ hx)) (by omega) x hx

theorem af_sum_le_mul {α : Type} (l : List α) (f : α → Nat) (K : Nat) (h : ∀ x ∈ l, f x ≤ K) :
    (l.map f).sum ≤ l.length * K := by
  induction l with
  | nil => simp
  | cons a as ih =>
    simp only [List.map_cons, List.sum_cons, List.length_cons, Nat.succ_mul]
    have h1 := h a List.mem_cons_self
    have h2 := ih (fun x hx => h x (List.mem_cons_of_mem _ hx))
    omega

/-! ### the universe of variables of a function -/

/-- variables read by a def -/
def af_defVars : Def → List Variable
  | .Assign _ e => e.inputVars
  | .Load _ a => a.inputVars
  | .Store a e => a.inputVars ++ e.inputVars

/-- variables read by the expression of a jump -/
def af_jmpVars : Jmp → List Variable
  | .CBranch _ c => c.inputVars
  | .BranchInd e => e.inputVars
  | .CallInd e _ => e.inputVars
  | .Return e => e.inputVars
  | _ => []

def af_blkVars (b : Term Blk) : List Variable :=
  (b.term.defs.map fun d => af_defVars d.term).flatten ++ (b.term.jmps.map fun j => af_jmpVars j.term).flatten

/-- physical registers and all variables read anywhere in the function -/
def af_univ (phys : VarSet) (blocks : List (Term Blk)) : List Variable :=
  phys ++ (blocks.map af_blkVars).flatten

theorem af_univ_length (phys : VarSet) (blocks : List (Term Blk)) :
    (af_univ phys blocks).length ≤ subVarCount blocks + phys.length := by
  have h : ((blocks.map af_blkVars).flatten).length ≤ subVarCount blocks := by
    rw [List.length_flatten, List.map_map]
    unfold subVarCount
    apply af_sum_le
    intro b _
    simp only [Function.comp_def, af_blkVars, List.length_append, List.length_flatten, List.map_map]
    apply Nat.add_le_add
    · apply af_sum_le
      intro d _
      cases d.term <;> simp [af_defVars]
    · apply af_sum_le
      intro j _
      cases j.term <;> simp [af_jmpVars]
  simp only [af_univ, List.length_append]
  omega

theorem af_mem_univ_phys {phys : VarSet} {blocks : List (Term Blk)} {v : Variable} (h : v ∈ phys) :
    v ∈ af_univ phys blocks := List.mem_append_left _ h

theorem af_mem_univ_def {phys : VarSet} {blocks : List (Term Blk)} {b : Term Blk} {d : Term Def} {v : Variable}
    (hb : b ∈ blocks) (hd : d ∈ b.term.defs) (hv : v ∈ af_defVars d.term) : v ∈ af_univ phys blocks := by
  apply List.mem_append_right
  rw [List.mem_flatten]
  refine ⟨af_blkVars b, List.mem_map.mpr ⟨b, hb, rfl⟩, ?_⟩
  apply List.mem_append_left
  rw [List.mem_flatten]
  exact ⟨_, List.mem_map.mpr ⟨d, hd, rfl⟩, hv⟩

theorem af_mem_univ_jmp {phys : VarSet} {blocks : List (Term Blk)} {b : Term Blk} {j : Term Jmp} {v : Variable}
    (hb : b ∈ blocks) (hj : j ∈ b.term.jmps) (hv : v ∈ af_jmpVars j.term) : v ∈ af_univ phys blocks := by
  apply List.mem_append_right
  rw [List.mem_flatten]
  refine ⟨af_blkVars b, List.mem_map.mpr ⟨b, hb, rfl⟩, ?_⟩
  apply List.mem_append_right
  rw [List.mem_flatten]
  exact ⟨_, List.mem_map.mpr ⟨j, hj, rfl⟩, hv⟩

/-! ### where the variables of the transfer functions come from -/

theorem af_mem_updateAliveByDef {A : VarSet} {d : Def} {v : Variable} (h : v ∈ updateAliveByDef A d) :
    v ∈ A ∨ v ∈ af_defVars d := by
  cases d with
  | Assign x e =>
    simp only [updateAliveByDef] at h
    split at h
    · rcases mem_insertAll.mp h with h | h
      · exact .inl (mem_remove.mp h).1
      · exact .inr h
    · exact .inl h
  | Load x a =>
    simp only [updateAliveByDef] at h
    rcases mem_insertAll.mp h with h | h
    · exact .inl (mem_remove.mp h).1
    · exact .inr h
  | Store a e =>
    simp only [updateAliveByDef] at h
    rcases mem_insertAll.mp h with h | h
    · rcases mem_insertAll.mp h with h | h
      · exact .inl h
      · exact .inr (List.mem_append_left _ h)
    · exact .inr (List.mem_append_right _ h)

theorem af_mem_aliveBeforeDefs {A : VarSet} {defs : List (Term Def)} {v : Variable}
    (h : v ∈ aliveBeforeDefs A defs) : v ∈ A ∨ ∃ d ∈ defs, v ∈ af_defVars d.term := by
  unfold aliveBeforeDefs at h
  induction defs with
  | nil => exact .inl h
  | cons d ds ih =>
    simp only [List.foldr] at h
    rcases af_mem_updateAliveByDef h with h | h
    · rcases ih h with h | ⟨d', hd', hv⟩
      · exact .inl h
      · exact .inr ⟨d', List.mem_cons_of_mem _ hd', hv⟩
    · exact .inr ⟨d, List.mem_cons_self, h⟩

theorem af_mem_branchInd_fold {aliveStart : Tid → VarSet} {cv uv : List Variable} {v : Variable} :
    ∀ (ts : List Tid) (acc : VarSet),
      v ∈ ts.foldl (fun acc t => ((acc.insertAll (aliveStart t)).insertAll cv).insertAll uv) acc →
      v ∈ acc ∨ (∃ t, v ∈ aliveStart t) ∨ v ∈ cv ∨ v ∈ uv := by
  intro ts
  induction ts with
  | nil => intro acc h; exact .inl h
  | cons t ts ih =>
    intro acc h
    simp only [List.foldl] at h
    rcases ih _ h with h | h
    · rcases mem_insertAll.mp h with h | h
      · rcases mem_insertAll.mp h with h | h
        · rcases mem_insertAll.mp h with h | h
          · exact .inl h
          · exact .inr (.inl ⟨t, h⟩)
        · exact .inr (.inr (.inl h))
      · exact .inr (.inr (.inr h))
    · exact .inr h

theorem af_mem_jmpContribution {phys : VarSet} {aliveStart : Tid → VarSet} {ind : List Tid} {j : Jmp}
    {u : Option Jmp} {s : VarSet} {v : Variable}
    (hs : jmpContribution phys aliveStart ind j u = some s) (hv : v ∈ s) :
    v ∈ phys ∨ (∃ t, v ∈ aliveStart t) ∨ v ∈ af_jmpVars j ∨ ∃ j', u = some j' ∧ v ∈ af_jmpVars j' := by
  have huv : v ∈ (match u with | some (.CBranch _ c) => c.inputVars | _ => []) →
      ∃ j', u = some j' ∧ v ∈ af_jmpVars j' := by
    intro h
    split at h
    · exact ⟨_, rfl, h⟩
    · cases h
  cases j with
  | Branch t =>
    simp only [jmpContribution, Option.some.injEq] at hs
    subst hs
    rcases mem_insertAll.mp hv with h | h
    · rcases mem_insertAll.mp h with h | h
      · exact .inr (.inl ⟨t, h⟩)
      · simp [jmpCondVars] at h
    · exact .inr (.inr (.inr (huv h)))
  | CBranch t c =>
    simp only [jmpContribution, Option.some.injEq] at hs
    subst hs
    rcases mem_insertAll.mp hv with h | h
    · rcases mem_insertAll.mp h with h | h
      · exact .inr (.inl ⟨t, h⟩)
      · exact .inr (.inr (.inl h))
    · exact .inr (.inr (.inr (huv h)))
  | BranchInd e =>
    simp only [jmpContribution] at hs
    split at hs
    · cases hs
    · simp only [Option.some.injEq] at hs
      subst hs
      rcases af_mem_branchInd_fold _ _ hv with h | h | h | h
      · cases h
      · exact .inr (.inl h)
      · exact .inr (.inr (.inl h))
      · exact .inr (.inr (.inr (huv h)))
  | Call t r =>
    simp only [jmpContribution, Option.some.injEq] at hs
    subst hs
    exact .inl hv
  | CallInd e r =>
    simp only [jmpContribution, Option.some.injEq] at hs
    subst hs
    rcases mem_insertAll.mp hv with h | h
    · exact .inl h
    · exact .inr (.inr (.inl h))
  | CallOther d r => simp [jmpContribution] at hs
  | Return e =>
    simp only [jmpContribution, Option.some.injEq] at hs
    subst hs
    rcases mem_insertAll.mp hv with h | h
    · exact .inl h
    · exact .inr (.inr (.inl h))

theorem af_mem_deadEnd_fold {v : Variable} : ∀ (jmps : List (Term Jmp)) (acc : VarSet),
    v ∈ jmps.foldl (fun acc j =>
      match j.term with
      | .CallInd e _ => acc.insertAll e.inputVars
      | .BranchInd e => acc.insertAll e.inputVars
      | .CBranch _ c => acc.insertAll c.inputVars
      | .Return e => acc.insertAll e.inputVars
      | _ => acc) acc → v ∈ acc ∨ ∃ j ∈ jmps, v ∈ af_jmpVars j.term := by
  intro jmps
  induction jmps with
  | nil => intro acc h; exact .inl h
  | cons j js ih =>
    intro acc h
    simp only [List.foldl] at h
    rcases ih _ h with h | ⟨j', hj', hv⟩
    · have : v ∈ acc ∨ v ∈ af_jmpVars j.term := by
        split at h
        all_goals first
          | (rename_i heq; rw [heq]; rcases mem_insertAll.mp h with h | h
             · exact .inl h
             · exact .inr h)
          | exact .inl h
      rcases this with h | h
      · exact .inl h
      · exact .inr ⟨j, List.mem_cons_self, h⟩
    · exact .inr ⟨j', List.mem_cons_of_mem _ hj', hv⟩

theorem af_mem_deadEndAlive {phys : VarSet} {v : Variable} (jmps : List (Term Jmp))
    (h : v ∈ deadEndAlive phys jmps) : v ∈ phys ∨ ∃ j ∈ jmps, v ∈ af_jmpVars j.term :=
  af_mem_deadEnd_fold jmps phys h

theorem af_mem_present {D : VarSet} {cs : List (Option VarSet)} {v : Variable}
    (h : v ∈ (if (cs.filterMap id).isEmpty then D
      else (cs.filterMap id).foldl (fun acc s => acc.insertAll s) [])) :
    v ∈ D ∨ ∃ s, some s ∈ cs ∧ v ∈ s := by
  split at h
  · exact .inl h
  · rcases mem_foldl_insertAll.mp h with h | ⟨s, hs, hv⟩
    · cases h
    · rw [List.mem_filterMap] at hs
      obtain ⟨o, ho, hos⟩ := hs
      simp only [id] at hos
      subst hos
      exact .inr ⟨s, ho, hv⟩

theorem af_mem_aliveEndOf {phys : VarSet} {aliveStart : Tid → VarSet} {b : Term Blk} {v : Variable}
    (h : v ∈ aliveEndOf phys aliveStart b) :
    v ∈ phys ∨ (∃ t, v ∈ aliveStart t) ∨ ∃ j ∈ b.term.jmps, v ∈ af_jmpVars j.term := by
  unfold aliveEndOf at h
  rcases af_mem_present h with h | ⟨s, ho, hv⟩
  · rcases af_mem_deadEndAlive _ h with h | h
    · exact .inl h
    · exact .inr (.inr h)
  · split at ho
    · cases ho
    · rename_i j hj
      rw [List.mem_singleton] at ho
      rcases af_mem_jmpContribution ho.symm hv with h | h | h | ⟨j', hj', _⟩
      · exact .inl h
      · exact .inr (.inl h)
      · exact .inr (.inr ⟨j, by rw [hj]; exact List.mem_cons_self, h⟩)
      · cases hj'
    · rename_i j₁ j₂ rest hj
      rcases List.mem_cons.mp ho with ho | ho
      · rcases af_mem_jmpContribution ho.symm hv with h | h | h | ⟨j', hj', _⟩
        · exact .inl h
        · exact .inr (.inl h)
        · exact .inr (.inr ⟨j₁, by rw [hj]; exact List.mem_cons_self, h⟩)
        · cases hj'
      · rw [List.mem_singleton] at ho
        rcases af_mem_jmpContribution ho.symm hv with h | h | h | ⟨j', hj', h⟩
        · exact .inl h
        · exact .inr (.inl h)
        · exact .inr (.inr ⟨j₂, by rw [hj]; exact List.mem_cons_of_mem _ List.mem_cons_self, h⟩)
        · cases hj'
          exact .inr (.inr ⟨j₁, by rw [hj]; exact List.mem_cons_self, h⟩)

/-! ### the shape of the iterates -/

/-- every iterate is `blocks.map fun b => (b.tid, G b)` -/
def af_mk (blocks : List (Term Blk)) (G : Term Blk → VarSet) : AliveMap := blocks.map fun b => (b.tid, G b)

theorem af_get_mk (blocks : List (Term Blk)) (G : Term Blk → VarSet) (t : Tid) :
    (af_mk blocks G).get t = match blocks.find? (fun b => b.tid == t) with | some b => G b | none => [] := by
  simp only [AliveMap.get, af_mk, List.find?_map, Function.comp_def]
  cases blocks.find? fun b => b.tid == t <;> rfl

theorem af_get_cases (blocks : List (Term Blk)) (G : Term Blk → VarSet) (t : Tid) :
    (af_mk blocks G).get t = [] ∨ ∃ b ∈ blocks, (af_mk blocks G).get t = G b := by
  rw [af_get_mk]
  cases h : blocks.find? fun b => b.tid == t with
  | none => exact .inl rfl
  | some b => exact .inr ⟨b, List.mem_of_find?_eq_some h, rfl⟩

theorem af_get_of_mem {blocks : List (Term Blk)} (G : Term Blk → VarSet)
    (huniq : ∀ b ∈ blocks, ∀ b' ∈ blocks, b'.tid = b.tid → b' = b) {b : Term Blk} (hb : b ∈ blocks) :
    (af_mk blocks G).get b.tid = G b := by
  rw [af_get_mk]
  cases h : blocks.find? fun b' => b'.tid == b.tid with
  | none =>
    have := List.find?_eq_none.mp h b hb
    simp at this
  | some b' =>
    have h1 := List.mem_of_find?_eq_some h
    have h2 := List.find?_some (p := fun b' : Term Blk => b'.tid == b.tid) h
    have h3 : b'.tid = b.tid := by simpa using h2
    rw [huniq b hb b' h1 h3]

theorem af_size_mk (blocks : List (Term Blk)) (G : Term Blk → VarSet) :
    aliveMapSize (af_mk blocks G) = (blocks.map fun b => (G b).length).sum := by
  simp only [aliveMapSize, af_mk, List.map_map, Function.comp_def]

theorem af_round_mk (phys : VarSet) (blocks : List (Term Blk)) (m : AliveMap) :
    aliveRound phys blocks m =
      af_mk blocks (fun b => (m.get b.tid).insertAll (aliveEndOf phys (aliveStartOf blocks m) b)) := rfl

/-! ### invariant: duplicate-free subsets of the universe -/

def af_Inv (phys : VarSet) (blocks : List (Term Blk)) (G : Term Blk → VarSet) : Prop :=
  ∀ b ∈ blocks, (G b).Nodup ∧ ∀ v ∈ G b, v ∈ af_univ phys blocks

theorem af_get_inv {phys : VarSet} {blocks : List (Term Blk)} {G : Term Blk → VarSet}
    (hI : af_Inv phys blocks G) (t : Tid) :
    ((af_mk blocks G).get t).Nodup ∧ ∀ v ∈ (af_mk blocks G).get t, v ∈ af_univ phys blocks := by
  rcases af_get_cases blocks G t with h | ⟨b, hb, h⟩
  · rw [h]; exact ⟨List.nodup_nil, fun v hv => by cases hv⟩
  · rw [h]; exact hI b hb

theorem af_mem_aliveStartOf {phys : VarSet} {blocks : List (Term Blk)} {G : Term Blk → VarSet}
    (hI : af_Inv phys blocks G) {t : Tid} {v : Variable}
    (hv : v ∈ aliveStartOf blocks (af_mk blocks G) t) : v ∈ af_univ phys blocks := by
  unfold aliveStartOf at hv
  split at hv
  · rename_i b hb
    rcases af_mem_aliveBeforeDefs hv with h | ⟨d, hd, h⟩
    · exact (af_get_inv hI t).2 v h
    · exact af_mem_univ_def (List.mem_of_find?_eq_some hb) hd h
  · cases hv

theorem af_inv_round {phys : VarSet} {blocks : List (Term Blk)} {G : Term Blk → VarSet}
    (hI : af_Inv phys blocks G) :
    af_Inv phys blocks (fun b => ((af_mk blocks G).get b.tid).insertAll
      (aliveEndOf phys (aliveStartOf blocks (af_mk blocks G)) b)) := by
  intro b hb
  refine ⟨af_insertAll_nodup _ (af_get_inv hI b.tid).1, ?_⟩
  intro v hv
  rcases mem_insertAll.mp hv with h | h
  · exact (af_get_inv hI b.tid).2 v h
  · rcases af_mem_aliveEndOf h with h | ⟨t, h⟩ | ⟨j, hj, h⟩
    · exact af_mem_univ_phys h
    · exact af_mem_aliveStartOf hI h
    · exact af_mem_univ_jmp hb hj h

theorem af_size_le {phys : VarSet} {blocks : List (Term Blk)} {G : Term Blk → VarSet}
    (hI : af_Inv phys blocks G) :
    aliveMapSize (af_mk blocks G) ≤ blocks.length * (af_univ phys blocks).length := by
  rw [af_size_mk]
  apply af_sum_le_mul
  intro b hb
  exact List.Nodup.length_le_of_subset (hI b hb).1 (fun v hv => (hI b hb).2 v hv)

/-! ### a round that keeps the total size keeps the map, which is then a post-fixpoint -/

theorem af_size_round_ge {phys : VarSet} {blocks : List (Term Blk)} (G : Term Blk → VarSet)
    (huniq : ∀ b ∈ blocks, ∀ b' ∈ blocks, b'.tid = b.tid → b' = b) :
    aliveMapSize (af_mk blocks G) ≤ aliveMapSize (aliveRound phys blocks (af_mk blocks G)) := by
  rw [af_round_mk, af_size_mk, af_size_mk]
  apply af_sum_le
  intro b hb
  rw [af_get_of_mem G huniq hb]
  exact af_insertAll_length_le _ _

theorem af_round_stable {phys : VarSet} {blocks : List (Term Blk)} (G : Term Blk → VarSet)
    (huniq : ∀ b ∈ blocks, ∀ b' ∈ blocks, b'.tid = b.tid → b' = b)
    (hsz : aliveMapSize (aliveRound phys blocks (af_mk blocks G)) = aliveMapSize (af_mk blocks G)) :
    aliveRound phys blocks (af_mk blocks G) = af_mk blocks G := by
  rw [af_round_mk, af_size_mk, af_size_mk] at hsz
  have hle : ∀ b ∈ blocks, (G b).length ≤ (((af_mk blocks G).get b.tid).insertAll
      (aliveEndOf phys (aliveStartOf blocks (af_mk blocks G)) b)).length := by
    intro b hb
    rw [af_get_of_mem G huniq hb]
    exact af_insertAll_length_le _ _
  have heq := af_sum_eq blocks _ _ hle hsz
  rw [af_round_mk]
  unfold af_mk
  apply List.map_congr_left
  intro b hb
  have h := heq b hb
  have hg := af_get_of_mem G huniq hb
  unfold af_mk at hg h
  rw [hg] at h
  show (b.tid, (AliveMap.get (List.map (fun b => (b.tid, G b)) blocks) b.tid).insertAll _) = _
  rw [hg]
  rw [af_insertAll_eq_of_length h]

/-- a map that a round does not change is a post-fixpoint -/
theorem af_closed_of_round_eq {phys : VarSet} {blocks : List (Term Blk)} {m : AliveMap}
    (huniq : ∀ b ∈ blocks, ∀ b' ∈ blocks, b'.tid = b.tid → b' = b)
    (h : aliveRound phys blocks m = m) : aliveClosed phys blocks m = true := by
  unfold aliveClosed
  rw [List.all_eq_true]
  intro b hb
  rw [subset_iff]
  intro v hv
  have hg := af_get_of_mem (fun b => (m.get b.tid).insertAll (aliveEndOf phys (aliveStartOf blocks m) b)) huniq hb
  rw [← af_round_mk, h] at hg
  rw [hg]
  exact mem_insertAll.mpr (.inr hv)

/-- **C10-liveness-stable.** if the iteration stops through the size test (a round keeps `aliveMapSize`), the
map it returns is a post-fixpoint -/
theorem aliveFix_closed_of_stable {phys : VarSet} {blocks : List (Term Blk)} (G : Term Blk → VarSet)
    (huniq : ∀ b ∈ blocks, ∀ b' ∈ blocks, b'.tid = b.tid → b' = b)
    (hsz : aliveMapSize (aliveRound phys blocks (af_mk blocks G)) = aliveMapSize (af_mk blocks G)) :
    aliveClosed phys blocks (aliveRound phys blocks (af_mk blocks G)) = true := by
  have h := af_round_stable G huniq hsz
  rw [h]
  exact af_closed_of_round_eq huniq h

/-! ### the fuel is sufficient -/

theorem af_fix_closed {phys : VarSet} {blocks : List (Term Blk)}
    (huniq : ∀ b ∈ blocks, ∀ b' ∈ blocks, b'.tid = b.tid → b' = b) :
    ∀ (fuel : Nat) (G : Term Blk → VarSet), af_Inv phys blocks G →
      blocks.length * (af_univ phys blocks).length < aliveMapSize (af_mk blocks G) + fuel →
      aliveClosed phys blocks (aliveFix phys blocks fuel (af_mk blocks G)) = true := by
  intro fuel
  induction fuel with
  | zero =>
    intro G hI hlt
    have := af_size_le hI
    omega
  | succ fuel ih =>
    intro G hI hlt
    simp only [aliveFix]
    split
    · rename_i hsz
      exact aliveFix_closed_of_stable G huniq (by simpa using hsz)
    · rename_i hsz
      have hne : aliveMapSize (aliveRound phys blocks (af_mk blocks G)) ≠ aliveMapSize (af_mk blocks G) := by
        simpa using hsz
      have hge := af_size_round_ge (phys := phys) G huniq
      rw [af_round_mk] at hne hge ⊢
      apply ih _ (af_inv_round hI)
      omega

/-- **C10-liveness-fixpoint.** the model's liveness iteration always reaches a post-fixpoint: the fuel of
`computeAliveVars` is sufficient (block tids unique by value) -/
theorem computeAliveVars_closed (phys : VarSet) (blocks : List (Term Blk))
    (huniq : ∀ b ∈ blocks, ∀ b' ∈ blocks, b'.tid = b.tid → b' = b) :
    aliveClosed phys blocks (computeAliveVars phys blocks) = true := by
  unfold computeAliveVars
  apply af_fix_closed huniq _ (fun _ => [])
  · intro b _
    exact ⟨List.nodup_nil, fun v hv => by cases hv⟩
  · have hU := af_univ_length phys blocks
    have h1 : blocks.length * (af_univ phys blocks).length ≤
        (blocks.length + 1) * (subVarCount blocks + phys.length + 1) :=
      Nat.mul_le_mul (Nat.le_succ _) (by omega)
    rw [Nat.mul_comm (blocks.length + 1)] at h1
    omega

end CweModel.C10
