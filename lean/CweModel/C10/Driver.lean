/- C10 model driver: executes the pass models and the executable specification (trace equality under the
reference interpreter, size consistency) on the outputs of the real passes. -/
import CweModel.Base.Proto
import CweModel.C10.Spec
open Lean CweModel.Proto CweModel.IR

namespace CweModel.C10

def x64Regs : List Variable :=
  ["RAX", "RBX", "RCX", "RDX", "RSI", "RDI", "RBP", "RSP", "R8", "R9", "R10", "R11", "R12", "R13", "R14", "R15"].map
    fun n => { name := n, size := 8 }
def x64Flags : List Variable := ["ZF", "CF", "SF", "OF"].map fun n => { name := n, size := 1 }
def spReg : Variable := { name := "RSP", size := 8 }
def physRegs : List Variable := x64Regs ++ x64Flags
def env : Sem.Env := { physRegs := physRegs, sp := spReg }

inductive Outcome where
  | ok (tags : List String)
  | diff (cls : String) (detail : String)
  | spec (cls : String) (detail : String)

/-- semantic comparison of all functions of `pre` with their counterparts in `post` -/
def compareProgramsSem (pass : String) (pre post : Program) (seeds : List Nat) (fuel : Nat) :
    Except (String × String) (List String) := do
  let mut tags : List String := []
  for s in pre.subs do
    match post.subs.find? (·.tid == s.tid) with
    | none => throw (s!"{pass}-sub-missing", s.tid.id)
    | some s' =>
      for seed in seeds do
        match compareSub env x64Flags fuel s.term s'.term seed with
        | .agree stuck => tags := (if stuck then "run-stuck" else "run-agree") :: tags
        | .outsideHyp => tags := "run-outside-hyp" :: tags
        | .differ sd idx a b afterCallOther =>
          -- a run that continued at the return site of a CallOther: the CFG of graph.rs has no edge for
          -- that control flow (known limitation, recorded in known_findings.json)
          let cls := if afterCallOther then s!"{pass}-after-callother" else s!"{pass}-trace"
          throw (cls, s!"{eventKind a}/{eventKind b} sub={s.tid.id} seed={sd} event={idx} pre=[{a}] post=[{b}]")
  return tags

def modelOf (pass : String) (arch : String) (p : Program) : Option (Program × List String) :=
  match pass with
  | "prop" => some (propagateProgram p, [])
  | "triv" => some (substTrivialProgram p, [])
  | "dve" => some (removeDeadProgram physRegs p, [])
  | "cf" => some (propagateControlFlow p, [])
  | "sa" => some (substituteAndOnStackpointer arch spReg p)
  | _ => none

/-- first syntactic difference between two programs (for the diff detail) -/
def firstDiff (a b : Program) : String :=
  let subs := a.subs.zip b.subs
  match subs.find? (fun (x, y) => x != y) with
  | none => if a.subs.length != b.subs.length then "number-of-subs" else "other"
  | some (x, y) =>
    if x.term.blocks.length != y.term.blocks.length then
      s!"sub={x.tid.id} blocks model={x.term.blocks.map (·.tid.id)} impl={y.term.blocks.map (·.tid.id)}"
    else
    match (x.term.blocks.zip y.term.blocks).find? (fun (p, q) => p != q) with
    | none => s!"sub={x.tid.id}"
    | some (p, q) =>
      match (p.term.defs.zip q.term.defs).find? (fun (d, e) => d != e) with
      | some (d, e) => s!"blk={p.tid.id} def model={reprStr d.term} impl={reprStr e.term}".replace "\n" " "
      | none =>
        if p.term.defs.length != q.term.defs.length then
          s!"blk={p.tid.id} defs model={p.term.defs.map (·.tid.id)} impl={q.term.defs.map (·.tid.id)}"
        else s!"blk={p.tid.id} jmps model={reprStr (p.term.jmps.map (·.term))} impl={reprStr (q.term.jmps.map (·.term))}".replace "\n" " "

def shorten (s : String) : String :=
  ((if s.length > 400 then (s.take 400).toString ++ "…" else s).replace " " "_")

structure Acc where
  tags : List String := []
  spec : Option (String × String) := none
  diff : Option (String × String) := none

/-- keep the first specification failure, but let a failure of another kind replace one of the class that
is a recorded known limitation (`…-after-callother`), so that it cannot mask anything -/
def Acc.addSpec (a : Acc) (c d : String) : Acc :=
  match a.spec with
  | none => { a with spec := some (c, d) }
  | some (c₀, _) => if c₀.endsWith "-after-callother" && !c.endsWith "-after-callother" then { a with spec := some (c, d) } else a
def Acc.addDiff (a : Acc) (c d : String) : Acc := if a.diff.isSome then a else { a with diff := some (c, d) }

def parseOut (j : Json) : Except String (Option (Except String Program)) :=
  if j.isNull then return none
  else match j.getStr? with
    | .ok s => return some (.error s)
    | .error _ => do return some (.ok (← parseProgram j))

def handleE (line : String) : Except String String := do
  let j ← Json.parse line
  let arch ← strF j "arch"
  let seeds ← mapM' (·.getNat?) (← arrF j "seeds")
  let fuel ← natF j "fuel"
  let p0 ← parseProgram (← field j "p0")
  let steps ← arrF j "steps"
  let ws0 := C12.Model.wellSizedProgram p0 spReg.size
  -- structural hypotheses of the run-level theorems on the input program: `subCfgOk` (expression propagation,
  -- RunPropagation.lean) and those of the composition theorem (`OptimizeHyp` of Props.lean: `CfOk`, `dveShapeOk`;
  -- `NonTempPhys` connects the executable hypothesis check `hypSub` to H2 of the theorems)
  let cfg0 := p0.subs.all (subCfgOk p0)
  let opt0 := cfOkB p0 && p0.subs.all (fun s => dveShapeOk s.term.blocks)
  let ntp0 := p0.subs.all (fun s => nonTempPhysB physRegs s.term.blocks)
  let mut acc : Acc := { tags := [if ws0 then "wellsized-input" else "illsized-input",
    if cfg0 then "cfg-hyp-ok" else "cfg-hyp-outside",
    if opt0 then "optimize-hyp-ok" else "optimize-hyp-outside",
    if ntp0 then "nontemp-phys-ok" else "nontemp-phys-outside"] }
  let mut cur := p0
  for st in steps do
    let pass ← strF st "pass"
    let implLogs := match arrF st "logs" with
      | .ok l => l.filterMap (fun x => x.getStr?.toOption)
      | .error _ => []
    -- the tables of the real fixpoint (expression propagation only)
    let realTables : Option TableMap ← match (field st "tables").toOption with
      | none => pure none
      | some tj => do
        let rows ← match tj.getArr? with | .ok a => pure a.toList | .error e => throw e
        let m ← mapM' (fun (row : Json) => do
          let parts ← match row.getArr? with | .ok a => pure a.toList | .error e => throw e
          match parts with
          | [tidJ, entriesJ] =>
            let tid ← parseTid tidJ
            let es ← match entriesJ.getArr? with | .ok a => pure a.toList | .error e => throw e
            let entries ← mapM' (fun (ej : Json) => do
              match (← match ej.getArr? with | .ok a => pure a.toList | .error e => throw e) with
              | [vj, xj] => do return ((← parseVariable vj), (← parseExpression xj))
              | _ => throw "table entry") es
            return (tid, some entries)
          | _ => throw "table row") rows
        pure (some m)
    match ← parseOut (← field st "out") with
    | some (.error msg) =>
      acc := acc.addSpec s!"{pass}-{(msg.splitOn "_").head!}" (shorten msg)
      -- the chain cannot continue on the implementation side; continue with the model output
      match modelOf pass arch cur with
      | some (m, _) => cur := m
      | none => pure ()
    | outOpt =>
      let out : Program := match outOpt with | some (.ok p) => p | _ => cur
      acc := { acc with tags := (pass ++ (if outOpt.isNone then "-unchanged" else "-changed")) :: acc.tags }
      -- hypotheses of the run-level theorems (RunDeadVars.lean, RunControlFlow.lean; `OptimizeHyp` of Props.lean),
      -- evaluated on the input of the pass
      if pass == "dve" then
        let shapeOk := cur.subs.all fun s => dveShapeOk s.term.blocks
        let closed := cur.subs.all fun s =>
          aliveClosed physRegs s.term.blocks (computeAliveVars physRegs s.term.blocks)
        acc := { acc with tags := (if shapeOk then "dve-shape-hyp-ok" else "dve-shape-hyp-outside") ::
          (if closed then "dve-model-alive-closed" else "dve-model-alive-not-closed") :: acc.tags }
      if pass == "cf" then
        acc := { acc with tags := (if cfOkB cur then "cf-hyp-ok" else "cf-hyp-outside") :: acc.tags }
      if ws0 && outOpt.isSome then
        -- (an unchanged program trivially behaves the same and stays well-sized)
        -- C12: the output of the pass is size-consistent
        match C12.firstIllSized out spReg.size with
        | some (t, r) => acc := acc.addSpec s!"{pass}-illsized-{r}" s!"term={t}"
        | none => pure ()
        -- C10: same observable behaviour
        match compareProgramsSem pass cur out seeds fuel with
        | .ok tags => acc := { acc with tags := tags ++ acc.tags }
        | .error (c, d) => acc := acc.addSpec c (shorten d)
      -- model ≡ implementation
      match modelOf pass arch cur with
      | none => throw s!"unknown pass {pass}"
      | some (m, mlogs) =>
        if m == out && (pass != "sa" || mlogs == implLogs) then
          acc := { acc with tags := s!"{pass}-model-syntactic" :: acc.tags }
        else if pass == "prop" then
          -- the textual result of the block-local insertion depends on HashMap iteration order:
          -- compare up to that order (see `closeProgram`)
          let mc := closeProgram cur m
          let oc := closeProgram cur out
          if mc == oc then acc := { acc with tags := "prop-model-up-to-order" :: acc.tags }
          else if realTables.isSome then
            -- the fixpoint result may depend on the visiting order; the real tables are checked below
            acc := { acc with tags := "prop-model-differs-fixpoint-order" :: acc.tags }
          else
            acc := acc.addDiff "prop-model" (shorten (firstDiff mc oc))
            if ws0 && outOpt.isSome then
              let extra := (List.range 48).map fun k => CweModel.Sem.mix (seeds.headD 1 + 7919 * k) k % 2 ^ 48
              match compareProgramsSem pass cur out extra fuel with
              | .ok _ => acc := { acc with tags := "diff-extra-states-agree" :: acc.tags }
              | .error (c, d) => acc := acc.addSpec c (shorten d)
        else if m != out then
          acc := acc.addDiff s!"{pass}-model" (shorten (firstDiff m out))
          -- the model and the implementation disagree on this program: look harder for an execution in which
          -- the implementation output behaves differently (many more initial states)
          if ws0 && outOpt.isSome then
            let extra := (List.range 48).map fun k => CweModel.Sem.mix (seeds.headD 1 + 7919 * k) k % 2 ^ 48
            match compareProgramsSem pass cur out extra fuel with
            | .ok _ => acc := { acc with tags := "diff-extra-states-agree" :: acc.tags }
            | .error (c, d) => acc := acc.addSpec c (shorten d)
        else acc := acc.addDiff s!"{pass}-logs" (shorten s!"model={mlogs} impl={implLogs}")
      -- expression propagation: the tables of the real fixpoint
      match realTables with
      | none => pure ()
      | some rt =>
        let p₁ := mergeAssignmentsProgram cur
        -- (a) the real pass output is the model's block-local insertion of the real tables
        let ins := propagateProgramWith rt p₁
        if ins == out then acc := { acc with tags := "prop-insertion-syntactic" :: acc.tags }
        else if closeProgramWith rt ins == closeProgramWith rt out then
          acc := { acc with tags := "prop-insertion-up-to-order" :: acc.tags }
        else
          acc := acc.addDiff "prop-insertion" (shorten (firstDiff (closeProgramWith rt ins) (closeProgramWith rt out)))
          if ws0 then
            let extra := (List.range 48).map fun k => CweModel.Sem.mix (seeds.headD 1 + 7919 * k) k % 2 ^ 48
            match compareProgramsSem pass cur out extra fuel with
            | .ok _ => acc := { acc with tags := "diff-extra-states-agree" :: acc.tags }
            | .error (c, d) => acc := acc.addSpec c (shorten d)
        -- (b) the real tables are a post-fixpoint of the model's transfer functions (soundness condition)
        if tablesClosed p₁ rt then acc := { acc with tags := "prop-tables-closed" :: acc.tags }
        else acc := acc.addDiff "prop-tables-not-closed" "the tables of the real fixpoint are not a post-fixpoint of the model transfer"
        -- (b') ... in which the entry block and every block a table is sent to have a value: together with (b)
        -- the hypothesis of the run-level theorem `propagateProgramWith_preserves` (RunPropagation.lean)
        if tablesReach p₁ rt then acc := { acc with tags := "prop-tables-reach" :: acc.tags }
        else acc := acc.addDiff "prop-tables-not-reaching" "a block that is sent a table (or an entry block) has no value in the real fixpoint"
        -- (b'') ... and whose entries are size-consistent (`allWSB`): with (b), (b') the hypotheses on the tables of
        -- `normalizeOptimizeWith_preserves_partial` (Props.lean)
        if allWSB rt then acc := { acc with tags := "prop-tables-wellsized" :: acc.tags }
        else if ws0 then acc := acc.addDiff "prop-tables-illsized" "an entry of a table of the real fixpoint is not size-consistent"
        -- (c) they normally equal the tables of the model's own iteration
        let mt := computeTables p₁
        if tableMapsAgree p₁ rt mt then acc := { acc with tags := "prop-tables-equal" :: acc.tags }
        else acc := { acc with tags := "prop-tables-differ-by-iteration-order" :: acc.tags }
        -- (d) the model's own (fuelled) iteration reached a post-fixpoint: hypothesis of `propagateProgram_preserves`
        if tablesClosed p₁ mt && tablesReach p₁ mt then acc := { acc with tags := "prop-model-tables-closed" :: acc.tags }
        else acc := { acc with tags := "prop-model-tables-not-closed" :: acc.tags }
      cur := out
  -- the whole `normalize_optimize` (given when it differs from the chain of the single passes)
  match (field j "full").toOption with
  | none => pure ()
  | some fj =>
    match ← parseOut fj with
    | none => acc := { acc with tags := "full-equals-chain" :: acc.tags }
    | some (.error msg) => acc := acc.addSpec s!"full-{(msg.splitOn "_").head!}" (shorten msg)
    | some (.ok full) =>
      acc := acc.addDiff "full-differs-from-chain" (shorten (firstDiff cur full))
      if ws0 then
        match compareProgramsSem "full" p0 full seeds fuel with
        | .ok _ => pure ()
        | .error (c, d) => acc := acc.addSpec c (shorten d)
  match acc.spec, acc.diff with
  | some (c, d), _ => return s!"spec class={c} expected=same-behaviour impl={d}"
  | none, some (c, d) => return s!"diff class={c} {d}"
  | none, none =>
    -- compress the tags: distinct tags only
    let distinct := acc.tags.foldl (fun l t => if l.contains t then l else t :: l) []
    return "ok " ++ " ".intercalate distinct

end CweModel.C10

def main : IO Unit := CweModel.Proto.runDriver (CweModel.Proto.guarded CweModel.C10.handleE)
