/-
C10 pass 4 — the RUN-LEVEL trace theorem for `propagate_control_flow`
(model `propagateControlFlow` in ControlFlow.lean = `retargetJumps (allRetargets p)` followed by
`removeNewOrphanedBlocks`).

Auxiliary material (namespace `CweModel.C10.CF`):
  * `FuelLe a b`: trace `a` is trace `b` cut off by the fuel marker (or equal); `tracesAgree_of_fuelLe`.
  * `runBlocks_ahead`: generic simulation for a block list whose jumps go to targets that the original run
    reaches later in the same state without events (`Ahead`; the new run needs LESS fuel).
  * `execJmps_retarget`: inversion of `Sem.execJmps` (the taken jump, the untaken conditionals before it) and
    the behaviour of a retargeted jump list.
  * `edge_of_goto`: the CFG edge of a taken jump and the truth of the condition the pass reads off it
    (`negateCondition_true`: a condition that evaluates to zero has a true negation).
  * `entryOk_of_goto`: soundness of `get_block_precondition_after_defs` along a run of the original function.
  * `retarget_ahead`, `retarget_runBlocks`: the retarget map computed by the pass is semantically correct.
  * `removeOrphans_runBlocks`: removing blocks whose tids are in `orphanTids` does not change a run.
Theorems of the pass (namespace `CweModel.C10`): `CfOk` (structural hypotheses, executable form `cfOkB`),
`retargetJumps_runSub`, `removeNewOrphanedBlocks_runSub`, `propagateControlFlow_runSub`.
Core-only.
-/
import CweModel.C10.ControlFlowProofs
import CweModel.C10.PropagationProofs
import CweModel.Base.IRInst

namespace CweModel.C10
open CweModel CweModel.IR CweModel.Sem

/-! All auxiliary definitions and lemmas live in the namespace `CweModel.C10.CF`. -/
namespace CF

/-! ### traces cut off by the fuel marker -/

deriving instance ReflBEq, LawfulBEq for Event

/-- `a` is `b`, or `a` ran out of fuel after producing a prefix of `b` -/
def FuelLe (a b : List Event) : Prop :=
  a = b ∨ ∃ pre rest, a = pre ++ [Event.outOfFuel] ∧ b = pre ++ rest ∧ Event.outOfFuel ∉ pre

theorem FuelLe.refl (a : List Event) : FuelLe a a := .inl rfl

theorem FuelLe.fuel (b : List Event) : FuelLe [Event.outOfFuel] b :=
  .inr ⟨[], b, rfl, rfl, List.not_mem_nil⟩

theorem FuelLe.prepend {a b : List Event} (x : List Event) (hx : Event.outOfFuel ∉ x) (h : FuelLe a b) :
    FuelLe (x ++ a) (x ++ b) := by
  rcases h with rfl | ⟨pre, rest, rfl, rfl, hp⟩
  · exact .inl rfl
  · refine .inr ⟨x ++ pre, rest, by simp, by simp, ?_⟩
    intro h
    rcases List.mem_append.mp h with h | h
    · exact hx h
    · exact hp h

theorem tracesAgree_self (a : List Event) : tracesAgree a a = true := by
  simp only [tracesAgree]
  split <;> exact beq_self_eq_true _

/-- a trace cut off by the fuel marker agrees with the longer trace -/
theorem tracesAgree_of_fuelLe {a b : List Event} (h : FuelLe a b) : tracesAgree a b = true := by
  rcases h with rfl | ⟨pre, rest, rfl, rfl, hp⟩
  · exact tracesAgree_self _
  · have hpre : ∀ e ∈ pre, (e != Event.outOfFuel) = true := by
      intro e he
      simp only [bne_iff_ne, ne_eq]
      rintro rfl
      exact hp he
    have h1 : (pre ++ [Event.outOfFuel]).takeWhile (· != Event.outOfFuel) = pre := by
      rw [List.takeWhile_append_of_pos hpre]
      simp [List.takeWhile]
    have h2 : (pre ++ rest).takeWhile (· != Event.outOfFuel) = pre ++ rest.takeWhile (· != Event.outOfFuel) :=
      List.takeWhile_append_of_pos hpre
    simp only [tracesAgree, h1, h2]
    have hne : (pre.length == (pre ++ [Event.outOfFuel]).length) = false := by simp
    simp only [hne, Bool.false_and]
    simp

/-! ### the interpreter never emits the fuel marker inside a block -/

theorem execDef_noFuel {σ σ' : State} {d : Def} {evs : List Event} (h : execDef σ d = some (σ', evs)) :
    Event.outOfFuel ∉ evs := by
  cases d with
  | Assign v e =>
    obtain ⟨_, _, _, _, rfl⟩ := execDef_assign_some h
    exact List.not_mem_nil
  | Load v a =>
    simp only [Sem.execDef] at h
    cases he : eval σ a with
    | none => rw [he] at h; cases h
    | some x =>
      rw [he] at h
      simp only [Option.bind_eq_bind, Option.bind_some, Option.some.injEq, Prod.mk.injEq] at h
      obtain ⟨_, rfl⟩ := h
      simp
  | Store a e =>
    simp only [Sem.execDef] at h
    cases ha : eval σ a with
    | none => rw [ha] at h; cases h
    | some x =>
      cases he : eval σ e with
      | none => rw [ha, he] at h; cases h
      | some y =>
        rw [ha, he] at h
        simp only [Option.bind_eq_bind, Option.bind_some, Option.some.injEq, Prod.mk.injEq] at h
        obtain ⟨_, rfl⟩ := h
        simp

theorem execDefs_noFuel {defs : List (Term Def)} {σ σ' : State} {evs : List Event}
    (h : execDefs σ defs = some (σ', evs)) : Event.outOfFuel ∉ evs := by
  induction defs generalizing σ evs with
  | nil => simp only [Sem.execDefs, Option.some.injEq, Prod.mk.injEq] at h; obtain ⟨_, rfl⟩ := h; exact List.not_mem_nil
  | cons d ds ih =>
    obtain ⟨σ₁, e₁, σ₂, e₂, h1, h2, h3⟩ := execDefs_cons_some.mp h
    cases h3
    intro hm
    rcases List.mem_append.mp hm with hm | hm
    · exact execDef_noFuel h1 hm
    · exact ih h2 hm

theorem execJmps_noFuel (env : Env) (σ : State) (c : Nat) (jmps : List (Term Jmp)) :
    Event.outOfFuel ∉ (execJmps env σ c jmps).1 := by
  induction jmps with
  | nil => simp [Sem.execJmps]
  | cons j js ih =>
    simp only [Sem.execJmps]
    split
    · simp
    · split
      · simp
      · split
        · simp
        · exact ih
    · split <;> simp
    · split <;> simp
    · split
      · simp
      · split <;> simp
    · split <;> simp
    · split <;> simp

/-! ### the generic "ahead" simulation -/

/-- the run that enters `t` in `(σ, c)` reaches `t'` in the same `(σ, c)` without an event (consuming fuel),
where the invariant `I` holds — or runs out of fuel before, or gets stuck -/
def Ahead (env : Env) (blocks : List (Term Blk)) (I : Tid → State → Nat → Prop) (t t' : Tid) (σ : State) (c : Nat) :
    Prop :=
  ∀ n, NoStuck (runBlocks env blocks n t σ c) →
    runBlocks env blocks n t σ c = [Event.outOfFuel] ∨
    ∃ n', n' ≤ n ∧ runBlocks env blocks n t σ c = runBlocks env blocks n' t' σ c ∧ I t' σ c

theorem Ahead.refl {env : Env} {blocks : List (Term Blk)} {I : Tid → State → Nat → Prop} {t : Tid} {σ : State}
    {c : Nat} (h : I t σ c) : Ahead env blocks I t t σ c :=
  fun n _ => .inr ⟨n, Nat.le_refl _, rfl, h⟩

theorem Ahead.trans {env : Env} {blocks : List (Term Blk)} {I : Tid → State → Nat → Prop} {t₁ t₂ t₃ : Tid}
    {σ : State} {c : Nat} (h₁ : Ahead env blocks I t₁ t₂ σ c) (h₂ : I t₂ σ c → Ahead env blocks I t₂ t₃ σ c) :
    Ahead env blocks I t₁ t₃ σ c := by
  intro n hns
  rcases h₁ n hns with h | ⟨n', hn', heq, hI₂⟩
  · exact .inl h
  · rw [heq] at hns ⊢
    rcases h₂ hI₂ n' hns with h | ⟨n'', hn'', heq', hI⟩
    · exact .inl h
    · exact .inr ⟨n'', Nat.le_trans hn'' hn', heq', hI⟩

/-- Two block lists with the same block tids and the same defs; whenever the invariant `I` holds at the entry
of a block, the jumps of the new block produce the same events and stop iff the original jumps stop, and if
the original jumps continue at `t₂` the new jumps continue at some `t₂'` that the original run reaches from
`t₂` silently (`Ahead`). Then the original run with fuel `n` is the new run with fuel `m ≥ n`, cut off by
the fuel marker (unless the original run gets stuck). -/
theorem runBlocks_ahead (env : Env) (blocks blocks' : List (Term Blk)) (I : Tid → State → Nat → Prop)
    (hfind : ∀ t, (blocks'.find? (fun b => b.tid == t)).isSome = (blocks.find? (fun b => b.tid == t)).isSome)
    (hblk : ∀ t σ c b b', I t σ c → blocks.find? (fun b => b.tid == t) = some b →
        blocks'.find? (fun b => b.tid == t) = some b' →
        ∀ σ₁ evs, execDefs σ b.term.defs = some (σ₁, evs) →
          execDefs σ b'.term.defs = some (σ₁, evs) ∧
          (NoStuck (execJmps env σ₁ c b.term.jmps).1 →
            (∀ evs₂, execJmps env σ₁ c b.term.jmps = (evs₂, .stop) →
              execJmps env σ₁ c b'.term.jmps = (evs₂, .stop)) ∧
            (∀ evs₂ t₂ σ₂ c₂, execJmps env σ₁ c b.term.jmps = (evs₂, .goto t₂ σ₂ c₂) →
              ∃ t₂', execJmps env σ₁ c b'.term.jmps = (evs₂, .goto t₂' σ₂ c₂) ∧
                Ahead env blocks I t₂ t₂' σ₂ c₂))) :
    ∀ n m t σ c, n ≤ m → I t σ c → NoStuck (runBlocks env blocks n t σ c) →
      FuelLe (runBlocks env blocks n t σ c) (runBlocks env blocks' m t σ c) := by
  intro n
  induction n using Nat.strongRecOn with
  | _ n ih =>
    intro m t σ c hnm hI hns
    cases n with
    | zero => exact FuelLe.fuel _
    | succ n =>
      obtain ⟨m, rfl⟩ : ∃ m', m = m' + 1 := ⟨m - 1, by omega⟩
      have hnm' : n ≤ m := by omega
      cases hb : blocks.find? (fun b => b.tid == t) with
      | none => rw [runBlocks_none hb] at hns; exact absurd hns (not_noStuck_stuck _)
      | some b =>
        have := hfind t
        rw [hb] at this
        cases hb' : blocks'.find? (fun b => b.tid == t) with
        | none => rw [hb'] at this; cases this
        | some b' =>
          cases hd : execDefs σ b.term.defs with
          | none => rw [runBlocks_defs_none hb hd] at hns; exact absurd hns (not_noStuck_stuck _)
          | some r =>
            obtain ⟨σ₁, evs⟩ := r
            obtain ⟨hd', hj⟩ := hblk t σ c b b' hI hb hb' σ₁ evs hd
            cases hjm : execJmps env σ₁ c b.term.jmps with
            | mk evs₂ nxt =>
              cases nxt with
              | stop =>
                rw [runBlocks_stop hb hd hjm] at hns ⊢
                have hns₂ : NoStuck (execJmps env σ₁ c b.term.jmps).1 := by rw [hjm]; exact hns.append_right
                rw [runBlocks_stop hb' hd' ((hj hns₂).1 evs₂ hjm)]
                exact FuelLe.refl _
              | goto t₂ σ₂ c₂ =>
                rw [runBlocks_goto hb hd hjm] at hns ⊢
                have hns₂ : NoStuck (execJmps env σ₁ c b.term.jmps).1 := by
                  rw [hjm]; exact hns.append_left.append_right
                obtain ⟨t₂', hj', hahead⟩ := (hj hns₂).2 evs₂ t₂ σ₂ c₂ hjm
                rw [runBlocks_goto hb' hd' hj']
                have hnf : Event.outOfFuel ∉ evs ++ evs₂ := by
                  intro hm
                  rcases List.mem_append.mp hm with hm | hm
                  · exact execDefs_noFuel hd hm
                  · have := execJmps_noFuel env σ₁ c b.term.jmps
                    rw [hjm] at this
                    exact this hm
                apply FuelLe.prepend _ hnf
                have hns₃ := hns.append_right
                rcases hahead n hns₃ with h | ⟨n', hn', heq, hI'⟩
                · rw [h]; exact FuelLe.fuel _
                · rw [heq] at hns₃ ⊢
                  exact ih n' (by omega) m t₂' σ₂ c₂ (by omega) hI' hns₃

/-! ### inversion of `execJmps`; retargeted jump lists -/

/-- jump `j`, executed in `(σ, c)`, continues at block `t` in `(σ', c')` -/
inductive TakesTo (env : Env) (σ : State) (c : Nat) (j : Term Jmp) : Tid → State → Nat → Prop
  | branch {t : Tid} : j.term = .Branch t → TakesTo env σ c j t σ c
  | cbranch {t : Tid} {cnd : Expression} {v : Bv} : j.term = .CBranch t cnd → eval σ cnd = some v → v.toNat ≠ 0 →
      TakesTo env σ c j t σ c
  | call {callee t : Tid} : j.term = .Call callee (some t) →
      TakesTo env σ c j t (havoc σ env.physRegs env.sp j.tid.id c) (c + 1)
  | callInd {e : Expression} {t : Tid} : j.term = .CallInd e (some t) →
      TakesTo env σ c j t (havoc σ env.physRegs env.sp j.tid.id c) (c + 1)
  | callOther {d : String} {t : Tid} : j.term = .CallOther d (some t) →
      TakesTo env σ c j t (havoc σ env.physRegs env.sp j.tid.id c) (c + 1)

/-- a conditional jump whose condition evaluates to zero -/
def Untaken (σ : State) (j : Term Jmp) : Prop :=
  ∃ t cnd v, j.term = .CBranch t cnd ∧ eval σ cnd = some v ∧ v.toNat = 0

/-- the target of jump `j` (originally `t`) after `retargetJmp m` -/
def newTgt (m : List (Tid × Tid)) (j : Term Jmp) (t : Tid) : Tid :=
  match m.find? (·.1 == j.tid) with
  | some (_, n) => n
  | none => t

theorem execJmps_retarget (env : Env) (σ : State) (c : Nat) (m : List (Tid × Tid)) :
    ∀ js : List (Term Jmp),
      (∀ evs, execJmps env σ c js = (evs, .stop) → execJmps env σ c (js.map (retargetJmp m)) = (evs, .stop)) ∧
      (∀ evs t σ' c', execJmps env σ c js = (evs, .goto t σ' c') →
        ∃ pre j post, js = pre ++ j :: post ∧ (∀ j' ∈ pre, Untaken σ j') ∧ TakesTo env σ c j t σ' c' ∧
          execJmps env σ c (js.map (retargetJmp m)) = (evs, .goto (newTgt m j t) σ' c')) := by
  intro js
  induction js with
  | nil => exact ⟨fun evs h => h, fun evs t σ' c' h => by simp [Sem.execJmps] at h⟩
  | cons j js ih =>
    obtain ⟨jt, jterm⟩ := j
    cases jterm with
    | Branch t =>
      refine ⟨fun evs h => by simp [Sem.execJmps] at h, fun evs t' σ' c' h => ?_⟩
      simp only [Sem.execJmps, Prod.mk.injEq, Next.goto.injEq] at h
      obtain ⟨rfl, rfl, rfl, rfl⟩ := h
      refine ⟨[], ⟨jt, .Branch t⟩, js, rfl, by simp, .branch rfl, ?_⟩
      simp only [List.map, retargetJmp, newTgt]
      cases m.find? (·.1 == jt) with
      | none => rfl
      | some kn => rfl
    | CBranch t cnd =>
      have hmap : (retargetJmp m ⟨jt, .CBranch t cnd⟩) = ⟨jt, .CBranch (newTgt m ⟨jt, .CBranch t cnd⟩ t) cnd⟩ := by
        simp only [retargetJmp, newTgt]
        cases m.find? (·.1 == jt) with
        | none => rfl
        | some kn => rfl
      simp only [List.map, hmap, Sem.execJmps]
      cases he : eval σ cnd with
      | none => exact ⟨fun evs h => h, fun evs t' σ' c' h => by simp at h⟩
      | some v =>
        simp only
        by_cases hv : v.toNat = 0
        · have hb : (v.toNat != 0) = false := by simp [hv]
          simp only [hb, Bool.false_eq_true, if_false]
          refine ⟨ih.1, fun evs t' σ' c' h => ?_⟩
          obtain ⟨pre, j, post, hjs, hpre, htk, hnew⟩ := ih.2 evs t' σ' c' h
          refine ⟨⟨jt, .CBranch t cnd⟩ :: pre, j, post, by rw [hjs]; rfl, ?_, htk, hnew⟩
          intro j' hj'
          rcases List.mem_cons.mp hj' with rfl | hj'
          · exact ⟨t, cnd, v, rfl, he, hv⟩
          · exact hpre j' hj'
        · have hb : (v.toNat != 0) = true := by simp [hv]
          simp only [hb, if_true]
          refine ⟨fun evs h => by simp at h, fun evs t' σ' c' h => ?_⟩
          simp only [Prod.mk.injEq, Next.goto.injEq] at h
          obtain ⟨rfl, rfl, rfl, rfl⟩ := h
          exact ⟨[], ⟨jt, .CBranch t cnd⟩, js, rfl, by simp, .cbranch rfl he hv, rfl⟩
    | BranchInd e =>
      have hmap : (retargetJmp m ⟨jt, .BranchInd e⟩) = ⟨jt, .BranchInd e⟩ := by
        simp only [retargetJmp]
        cases m.find? (·.1 == jt) with
        | none => rfl
        | some kn => rfl
      simp only [List.map, hmap, Sem.execJmps]
      cases eval σ e with
      | none => exact ⟨fun evs h => h, fun evs t' σ' c' h => by simp at h⟩
      | some v => exact ⟨fun evs h => h, fun evs t' σ' c' h => by simp at h⟩
    | Return e =>
      have hmap : (retargetJmp m ⟨jt, .Return e⟩) = ⟨jt, .Return e⟩ := by
        simp only [retargetJmp]
        cases m.find? (·.1 == jt) with
        | none => rfl
        | some kn => rfl
      simp only [List.map, hmap, Sem.execJmps]
      cases eval σ e with
      | none => exact ⟨fun evs h => h, fun evs t' σ' c' h => by simp at h⟩
      | some v => exact ⟨fun evs h => h, fun evs t' σ' c' h => by simp at h⟩
    | Call callee r =>
      cases r with
      | none =>
        have hmap : (retargetJmp m ⟨jt, .Call callee none⟩) = ⟨jt, .Call callee none⟩ := by
          simp only [retargetJmp]
          cases m.find? (·.1 == jt) with
          | none => rfl
          | some kn => rfl
        simp only [List.map, hmap, Sem.execJmps]
        exact ⟨fun evs h => h, fun evs t' σ' c' h => by simp at h⟩
      | some r =>
        have hmap : (retargetJmp m ⟨jt, .Call callee (some r)⟩) =
            ⟨jt, .Call callee (some (newTgt m ⟨jt, .Call callee (some r)⟩ r))⟩ := by
          simp only [retargetJmp, newTgt]
          cases m.find? (·.1 == jt) with
          | none => rfl
          | some kn => rfl
        simp only [List.map, hmap, Sem.execJmps]
        refine ⟨fun evs h => by simp at h, fun evs t' σ' c' h => ?_⟩
        simp only [Prod.mk.injEq, Next.goto.injEq] at h
        obtain ⟨rfl, rfl, rfl, rfl⟩ := h
        exact ⟨[], ⟨jt, .Call callee (some r)⟩, js, rfl, by simp, .call rfl, rfl⟩
    | CallInd e r =>
      cases r with
      | none =>
        have hmap : (retargetJmp m ⟨jt, .CallInd e none⟩) = ⟨jt, .CallInd e none⟩ := by
          simp only [retargetJmp]
          cases m.find? (·.1 == jt) with
          | none => rfl
          | some kn => rfl
        simp only [List.map, hmap, Sem.execJmps]
        cases eval σ e with
        | none => exact ⟨fun evs h => h, fun evs t' σ' c' h => by simp at h⟩
        | some v => exact ⟨fun evs h => h, fun evs t' σ' c' h => by simp at h⟩
      | some r =>
        have hmap : (retargetJmp m ⟨jt, .CallInd e (some r)⟩) =
            ⟨jt, .CallInd e (some (newTgt m ⟨jt, .CallInd e (some r)⟩ r))⟩ := by
          simp only [retargetJmp, newTgt]
          cases m.find? (·.1 == jt) with
          | none => rfl
          | some kn => rfl
        simp only [List.map, hmap, Sem.execJmps]
        cases eval σ e with
        | none => exact ⟨fun evs h => h, fun evs t' σ' c' h => by simp at h⟩
        | some v =>
          refine ⟨fun evs h => by simp at h, fun evs t' σ' c' h => ?_⟩
          simp only [Prod.mk.injEq, Next.goto.injEq] at h
          obtain ⟨rfl, rfl, rfl, rfl⟩ := h
          exact ⟨[], ⟨jt, .CallInd e (some r)⟩, js, rfl, by simp, .callInd rfl, rfl⟩
    | CallOther d r =>
      cases r with
      | none =>
        have hmap : (retargetJmp m ⟨jt, .CallOther d none⟩) = ⟨jt, .CallOther d none⟩ := by
          simp only [retargetJmp]
          cases m.find? (·.1 == jt) with
          | none => rfl
          | some kn => rfl
        simp only [List.map, hmap, Sem.execJmps]
        exact ⟨fun evs h => h, fun evs t' σ' c' h => by simp at h⟩
      | some r =>
        have hmap : (retargetJmp m ⟨jt, .CallOther d (some r)⟩) =
            ⟨jt, .CallOther d (some (newTgt m ⟨jt, .CallOther d (some r)⟩ r))⟩ := by
          simp only [retargetJmp, newTgt]
          cases m.find? (·.1 == jt) with
          | none => rfl
          | some kn => rfl
        simp only [List.map, hmap, Sem.execJmps]
        refine ⟨fun evs h => by simp at h, fun evs t' σ' c' h => ?_⟩
        simp only [Prod.mk.injEq, Next.goto.injEq] at h
        obtain ⟨rfl, rfl, rfl, rfl⟩ := h
        exact ⟨[], ⟨jt, .CallOther d (some r)⟩, js, rfl, by simp, .callOther rfl, rfl⟩

/-! ### `negate_condition`, converse direction -/

/-- if `c` evaluates to zero then `negate_condition(c)` is true (non-zero) -/
theorem negateCondition_true {σ : State} {c : Expression} {v : Bv} (h : eval σ c = some v) (hz : v.toNat = 0) :
    CondTrue σ (negateCondition c) := by
  unfold negateCondition
  split
  · next arg =>
    obtain ⟨x, hx, hxv⟩ := eval_unOp_some.mp h
    simp only [Ref.unOp] at hxv
    split at hxv
    · simp only [valB] at hxv; injection hxv with hxv; subst hxv; exact absurd hz (by decide)
    · split at hxv
      · next h1 => exact ⟨x, hx, by omega⟩
      · cases hxv
  · refine ⟨Bv.ofBool true, eval_unOp_some.mpr ⟨v, h, ?_⟩, by decide⟩
    simp only [Ref.unOp, hz, if_true, valB]

/-! ### the CFG edge of a taken jump -/

/-- the condition that `get_precondition_from_incoming_edges` reads off an edge -/
def edgeCond : InEdge → Option Expression
  | .jump (.CBranch _ c) none => some c
  | .jump (.Branch _) (some (.CBranch _ c)) => some (negateCondition c)
  | _ => none

/-- the fold of `preconditionFromIncoming` -/
def condsOf (edges : List InEdge) : Option (List Expression) :=
  edges.foldr (fun e acc =>
    match acc with
    | none => none
    | some cs =>
      match e with
      | .jump (.CBranch _ c) none => some (c :: cs)
      | .jump (.Branch _) (some (.CBranch _ c)) => some (negateCondition c :: cs)
      | _ => none) (some [])

theorem preconditionFromIncoming_eq (edges : List InEdge) :
    preconditionFromIncoming edges =
      match condsOf edges with
      | some (c :: cs) => if cs.all (· = c) then some c else none
      | _ => none := rfl

theorem condsOf_cons (e : InEdge) (es : List InEdge) :
    condsOf (e :: es) =
      match condsOf es with
      | none => none
      | some cs =>
        match e with
        | .jump (.CBranch _ c) none => some (c :: cs)
        | .jump (.Branch _) (some (.CBranch _ c)) => some (negateCondition c :: cs)
        | _ => none := rfl

theorem condsOf_mem : ∀ (edges : List InEdge) (cs : List Expression), condsOf edges = some cs →
    ∀ e ∈ edges, ∃ c ∈ cs, edgeCond e = some c := by
  intro edges
  induction edges with
  | nil => intro cs _ e he; cases he
  | cons e es ih =>
    intro cs h x hx
    rw [condsOf_cons] at h
    cases hes : condsOf es with
    | none => rw [hes] at h; cases h
    | some cs' =>
      rw [hes] at h
      simp only at h
      have ih' := ih cs' hes
      split at h
      · next t c =>
        cases h
        rcases List.mem_cons.mp hx with rfl | hx
        · exact ⟨c, List.mem_cons_self, rfl⟩
        · obtain ⟨c', hc', he'⟩ := ih' x hx
          exact ⟨c', List.mem_cons_of_mem _ hc', he'⟩
      · next t t' c =>
        cases h
        rcases List.mem_cons.mp hx with rfl | hx
        · exact ⟨negateCondition c, List.mem_cons_self, rfl⟩
        · obtain ⟨c', hc', he'⟩ := ih' x hx
          exact ⟨c', List.mem_cons_of_mem _ hc', he'⟩
      · cases h

/-- all incoming edges carry the precondition -/
theorem preconditionFromIncoming_mem {edges : List InEdge} {c : Expression}
    (h : preconditionFromIncoming edges = some c) : ∀ e ∈ edges, edgeCond e = some c := by
  rw [preconditionFromIncoming_eq] at h
  intro e he
  cases hcs : condsOf edges with
  | none => rw [hcs] at h; cases h
  | some cs =>
    rw [hcs] at h
    cases cs with
    | nil => cases h
    | cons c₀ cs =>
      simp only at h
      split at h
      · next hall =>
        cases h
        obtain ⟨c', hc', he'⟩ := condsOf_mem edges _ hcs e he
        rcases List.mem_cons.mp hc' with rfl | hc'
        · exact he'
        · have := List.all_eq_true.mp hall c' hc'
          rw [he']; simpa using this
      · cases h

/-- the edges of one jump (with its untaken conditional) of block `a` to block `t` -/
def edgesOfJmp (p : Program) (a : Term Blk) (t : Tid) : Jmp × Option Jmp → List InEdge :=
  fun (j, u) =>
    match j with
    | .Branch tgt => if tgt == t then [.jump j u] else []
    | .CBranch tgt _ => if tgt == t then [.jump j u] else []
    | .BranchInd _ => (a.term.indirectJmpTargets.filter (· == t)).map fun _ => .jump j u
    | .Call callee (some r) =>
      if r == t then
        if isExternTid p callee then [.other]
        else match internalCallee p callee with
          | some s => (s.term.blocks.filter hasReturnJmp).map fun _ => .other
          | none => []
      else []
    | .CallInd _ (some r) => if r == t then [.other] else []
    | _ => []

theorem edgesFromBlock_eq (p : Program) (a : Term Blk) (t : Tid) :
    edgesFromBlock p a t = (jmpsWithUntaken a).flatMap (edgesOfJmp p a t) := rfl

/-- zero, one or two jumps, the first of two a `CBranch` (`Cfg.jmpShapeOk`) -/
def jmpShape (a : Term Blk) : Prop :=
  match a.term.jmps with
  | [] | [_] => True
  | [j, _] => ∃ t c, j.term = .CBranch t c
  | _ => False

/-- a direct call with a return site has a CFG edge to the return site -/
def CallRetOk (p : Program) (j : Term Jmp) : Prop :=
  ∀ callee r, j.term = .Call callee (some r) →
    isExternTid p callee = true ∨
      ∃ sc, internalCallee p callee = some sc ∧ sc.term.blocks.filter hasReturnJmp ≠ []

/-- what the CFG construction needs from one block -/
structure BlkOk (p : Program) (a : Term Blk) : Prop where
  shape : jmpShape a
  noCallOtherRet : ∀ j ∈ a.term.jmps, ∀ d r, j.term ≠ .CallOther d (some r)
  callRet : ∀ j ∈ a.term.jmps, CallRetOk p j

theorem edge_of_single {env : Env} {σ σ₂ : State} {c c₂ : Nat} {t₂ : Tid} (p : Program) (a : Term Blk)
    (j : Term Jmp) (u : Option Jmp) (hco : ∀ d r, j.term ≠ .CallOther d (some r)) (hcall : CallRetOk p j)
    (hu : ∀ t₁ c₁, u = some (.CBranch t₁ c₁) → ∃ v, eval σ c₁ = some v ∧ v.toNat = 0)
    (htk : TakesTo env σ c j t₂ σ₂ c₂) :
    ∃ e ∈ edgesOfJmp p a t₂ (j.term, u), ∀ cnd, edgeCond e = some cnd → CondTrue σ₂ cnd := by
  cases htk with
  | branch hj =>
    refine ⟨.jump j.term u, by simp [edgesOfJmp, hj], ?_⟩
    intro cnd hc
    rw [hj] at hc
    cases u with
    | none => simp [edgeCond] at hc
    | some uj =>
      cases uj with
      | CBranch t₁ c₁ =>
        simp only [edgeCond, Option.some.injEq] at hc
        subst hc
        obtain ⟨v, hv, hz⟩ := hu t₁ c₁ rfl
        exact negateCondition_true hv hz
      | _ => simp [edgeCond] at hc
  | cbranch hj he hv =>
    refine ⟨.jump j.term u, by simp [edgesOfJmp, hj], ?_⟩
    intro cnd hc
    rw [hj] at hc
    cases u with
    | none =>
      simp only [edgeCond, Option.some.injEq] at hc
      subst hc
      exact ⟨_, he, hv⟩
    | some uj => simp [edgeCond] at hc
  | call hj =>
    rename_i callee
    refine ⟨.other, ?_, fun cnd hc => by simp [edgeCond] at hc⟩
    simp only [edgesOfJmp, hj, beq_self_eq_true, if_true]
    rcases hcall callee t₂ hj with hext | ⟨sc, hsc, hne⟩
    · simp [hext]
    · split
      · simp
      · rw [hsc]
        cases hl : sc.term.blocks.filter hasReturnJmp with
        | nil => exact absurd hl hne
        | cons x xs => exact List.mem_map.mpr ⟨x, by rw [hl]; exact List.mem_cons_self, rfl⟩
  | callInd hj =>
    exact ⟨.other, by simp [edgesOfJmp, hj], fun cnd hc => by simp [edgeCond] at hc⟩
  | callOther hj => exact absurd hj (hco _ _)

/-- the taken jump of a well-shaped block, paired with its untaken conditional, is listed by `jmpsWithUntaken` -/
theorem taken_mem_jmpsWithUntaken {σ : State} {a : Term Blk} (hs : jmpShape a) {pre post : List (Term Jmp)}
    {j : Term Jmp} (hjs : a.term.jmps = pre ++ j :: post) (hpre : ∀ j' ∈ pre, Untaken σ j') :
    ∃ u, (j.term, u) ∈ jmpsWithUntaken a ∧
      (∀ t₁ c₁, u = some (.CBranch t₁ c₁) → ∃ v, eval σ c₁ = some v ∧ v.toNat = 0) ∧
      (pre = [] → u = none) := by
  simp only [jmpShape, jmpsWithUntaken] at hs ⊢
  rw [hjs] at hs ⊢
  cases pre with
  | nil =>
    cases post with
    | nil => exact ⟨none, by simp, by simp, fun _ => rfl⟩
    | cons y post => exact ⟨none, by simp, by simp, fun _ => rfl⟩
  | cons x pre =>
    cases pre with
    | nil =>
      cases post with
      | nil =>
        refine ⟨some x.term, by simp, ?_, by simp⟩
        intro t₁ c₁ hu
        obtain ⟨t, cnd, v, hx, hv, hz⟩ := hpre x List.mem_cons_self
        simp only [Option.some.injEq] at hu
        rw [hx] at hu
        cases hu
        exact ⟨v, hv, hz⟩
      | cons y post => simp at hs
    | cons y pre =>
      cases pre with
      | nil => simp at hs
      | cons z pre => simp at hs

/-- **the CFG edge of a taken jump.** If the jumps of block `a` continue at `t₂`, the CFG has an edge from `a`
to `t₂`, and the condition the pass reads off this edge (if any) is true in the continuation state. -/
theorem edge_of_goto {env : Env} {σ σ₂ : State} {c c₂ : Nat} {t₂ : Tid} {evs : List Event} (p : Program)
    (a : Term Blk) (hok : BlkOk p a) (h : execJmps env σ c a.term.jmps = (evs, .goto t₂ σ₂ c₂)) :
    ∃ e ∈ edgesFromBlock p a t₂, ∀ cnd, edgeCond e = some cnd → CondTrue σ₂ cnd := by
  obtain ⟨pre, j, post, hjs, hpre, htk, _⟩ := (execJmps_retarget env σ c [] a.term.jmps).2 evs t₂ σ₂ c₂ h
  obtain ⟨u, hmem, hu, _⟩ := taken_mem_jmpsWithUntaken hok.shape hjs hpre
  have hj : j ∈ a.term.jmps := by rw [hjs]; simp
  obtain ⟨e, he, hc⟩ := edge_of_single p a j u (hok.noCallOtherRet j hj) (hok.callRet j hj) hu htk
  exact ⟨e, by rw [edgesFromBlock_eq]; exact List.mem_flatMap.mpr ⟨_, hmem, he⟩, hc⟩

/-! ### soundness of the block precondition -/

/-- the defs do not assign an input variable of `cnd` (the `clobbered` test of `blockPreconditionAfterDefs`) -/
def clobbers (cnd : Expression) (defs : List (Term Def)) : Bool :=
  defs.any fun d => match d.term with
    | .Assign v _ => decide (v ∈ cnd.inputVars)
    | .Load v _ => decide (v ∈ cnd.inputVars)
    | .Store _ _ => false

theorem eval_execDefs_of_not_clobbered {cnd : Expression} {defs : List (Term Def)} {σ σ₁ : State}
    {evs : List Event} (h : execDefs σ defs = some (σ₁, evs)) (hnc : clobbers cnd defs = false) :
    eval σ₁ cnd = eval σ cnd := by
  induction defs generalizing σ evs with
  | nil => simp only [Sem.execDefs, Option.some.injEq, Prod.mk.injEq] at h; obtain ⟨rfl, _⟩ := h; rfl
  | cons d ds ih =>
    obtain ⟨σ', e₁, σ₂, e₂, h1, h2, h3⟩ := execDefs_cons_some.mp h
    cases h3
    simp only [clobbers, List.any_cons, Bool.or_eq_false_iff] at hnc
    rw [ih h2 (by simpa [clobbers] using hnc.2)]
    have hnc1 := hnc.1
    cases hd : d.term with
    | Assign v e =>
      rw [hd] at h1 hnc1
      obtain ⟨x, _, _, rfl, _⟩ := execDef_assign_some h1
      exact eval_setReg_of_not_mem (by simpa using hnc1)
    | Load v adr =>
      rw [hd] at h1 hnc1
      simp only [Sem.execDef] at h1
      cases he : eval σ adr with
      | none => rw [he] at h1; cases h1
      | some x =>
        rw [he] at h1
        simp only [Option.bind_eq_bind, Option.bind_some, Option.some.injEq, Prod.mk.injEq] at h1
        obtain ⟨rfl, _⟩ := h1
        exact eval_setReg_of_not_mem (by simpa using hnc1)
    | Store adr e =>
      rw [hd] at h1
      simp only [Sem.execDef] at h1
      cases ha : eval σ adr with
      | none => rw [ha] at h1; cases h1
      | some x =>
        cases he : eval σ e with
        | none => rw [ha, he] at h1; cases h1
        | some y =>
          rw [ha, he] at h1
          simp only [Option.bind_eq_bind, Option.bind_some, Option.some.injEq, Prod.mk.injEq] at h1
          obtain ⟨rfl, _⟩ := h1
          exact eval_writeMem _ _ _ _ _

/-- the invariant of the original run at the entry of block `t`: the block precondition computed by the
pass holds after the defs of the block -/
def EntryOk (p : Program) (s : Term Sub) (t : Tid) (σ : State) (_c : Nat) : Prop :=
  ∀ b, s.term.blocks.find? (fun b => b.tid == t) = some b →
    ∀ cnd, blockPreconditionAfterDefs p s b = some cnd →
      ∀ σ₁ evs, execDefs σ b.term.defs = some (σ₁, evs) → CondTrue σ₁ cnd

/-- the first block of a function has no precondition -/
theorem entryOk_entry (p : Program) (s : Term Sub) (e : Term Blk) (rest : List (Term Blk))
    (hbl : s.term.blocks = e :: rest) (σ : State) (c : Nat) : EntryOk p s e.tid σ c := by
  intro b hb cnd hpre
  rw [hbl] at hb
  simp only [List.find?, beq_self_eq_true, Option.some.injEq] at hb
  subst hb
  simp [blockPreconditionAfterDefs, hbl] at hpre

/-- **C10-block-precondition-sound.** When a run of the function enters a block through the jumps of a block
`a` of the function, the precondition `get_block_precondition_after_defs` computes for the entered block holds
after its defs. -/
theorem entryOk_of_goto {env : Env} {σ σ₂ : State} {c c₂ : Nat} {t₂ : Tid} {evs : List Event} (p : Program)
    (s : Term Sub) (a : Term Blk) (ha : a ∈ s.term.blocks) (hok : BlkOk p a)
    (h : execJmps env σ c a.term.jmps = (evs, .goto t₂ σ₂ c₂)) : EntryOk p s t₂ σ₂ c₂ := by
  intro b hb cnd hpre σ₁ evs' hd
  have hbt : b.tid = t₂ := by
    have := List.find?_some (p := fun b : Term Blk => b.tid == t₂) hb
    simpa using this
  obtain ⟨e, he, hc⟩ := edge_of_goto p a hok h
  have hin : e ∈ incomingEdges p s b := by
    have hfb : e ∈ s.term.blocks.flatMap fun a => edgesFromBlock p a b.tid :=
      List.mem_flatMap.mpr ⟨a, ha, by rw [hbt]; exact he⟩
    have hif : ∀ cond : Bool, e ∈ (if cond then
        (s.term.blocks.flatMap fun a => edgesFromBlock p a b.tid) ++ [InEdge.other]
        else s.term.blocks.flatMap fun a => edgesFromBlock p a b.tid) := by
      intro cond; cases cond <;> simp [hfb]
    exact hif _
  unfold blockPreconditionAfterDefs at hpre
  split at hpre
  · cases hpre
  · split at hpre
    · cases hpre
    · split at hpre
      · cases hpre
      · next c₀ hc₀ =>
        simp only at hpre
        split at hpre
        · cases hpre
        · next hncl =>
          cases hpre
          obtain ⟨v, hv, hnz⟩ := hc cnd (preconditionFromIncoming_mem hc₀ e hin)
          have hncl' : clobbers cnd b.term.defs = false := by
            simp only [Bool.not_eq_true, List.any_eq_false] at hncl
            simp only [clobbers, List.any_eq_false]
            intro d hdm
            have := hncl d hdm
            cases hdt : d.term <;> simp only [hdt] at this ⊢ <;> simp [this]
          exact ⟨v, by rw [eval_execDefs_of_not_clobbered hd hncl']; exact hv, hnz⟩

/-! ### following a chain of retargetable blocks -/

theorem ahead_step {env : Env} {blocks : List (Term Blk)} {I : Tid → State → Nat → Prop} {cur t : Tid}
    {σ : State} {c : Nat} {b : Term Blk} (hb : blocks.find? (fun b => b.tid == cur) = some b)
    (hd : execDefs σ b.term.defs = some (σ, []))
    (hj : execJmps env σ c b.term.jmps = ([], .goto t σ c) ∨ ¬ NoStuck (execJmps env σ c b.term.jmps).1)
    (hI : execJmps env σ c b.term.jmps = ([], .goto t σ c) → I t σ c) :
    Ahead env blocks I cur t σ c := by
  intro n hns
  cases n with
  | zero => exact .inl rfl
  | succ n =>
    rcases hj with hj | hj
    · right
      refine ⟨n, Nat.le_succ n, ?_, hI hj⟩
      rw [runBlocks_goto hb hd hj]; rfl
    · exfalso
      apply hj
      cases hjm : execJmps env σ c b.term.jmps with
      | mk evs₂ nxt =>
        cases nxt with
        | stop => rw [runBlocks_stop hb hd hjm] at hns; exact hns.append_right
        | goto t₂ σ₂ c₂ => rw [runBlocks_goto hb hd hjm] at hns; exact hns.append_left.append_right

/-- `find_target_for_retargetable_jump`, with the invariant: under conditions that hold in `σ`, the run that
enters `cur` reaches the computed target silently in the same state, and the invariant (established by every
jump of a block of the function) holds there. -/
theorem followChain_ahead (env : Env) (blocks : List (Term Blk)) (I : Tid → State → Nat → Prop)
    (conds : List Expression) {σ : State} (c : Nat) (hc : CondsHold σ conds)
    (hedge : ∀ b ∈ blocks, ∀ t, execJmps env σ c b.term.jmps = ([], .goto t σ c) → I t σ c) :
    ∀ fuel visited cur, I cur σ c → Ahead env blocks I cur (followChain blocks conds fuel visited cur) σ c := by
  intro fuel
  induction fuel with
  | zero => intro visited cur hI; exact Ahead.refl hI
  | succ f ih =>
    intro visited cur hI
    simp only [followChain]
    cases hb : blocks.find? (fun b => b.tid == cur) with
    | none => exact Ahead.refl hI
    | some b =>
      simp only
      cases hchk : checkForRetargetableBlock b conds with
      | none => exact Ahead.refl hI
      | some t =>
        simp only
        split
        · exact Ahead.refl hI
        · obtain ⟨hd, hj⟩ := checkForRetargetableBlock_step (env := env) (c := c) hc hchk
          have hstep : Ahead env blocks I cur t σ c :=
            ahead_step hb hd hj (hedge b (List.mem_of_find?_eq_some hb) t)
          exact Ahead.trans hstep (ih (t :: visited) t)

/-! ### what stands behind an entry of the retarget map -/

/-- the precondition of the block as a list (`true_conditions` starts with it) -/
def preConds (p : Program) (s : Term Sub) (b : Term Blk) : List Expression :=
  match blockPreconditionAfterDefs p s b with | some c => [c] | none => []

/-- a jump with a return site `r` -/
def IsCallRet (j : Term Jmp) (r : Tid) : Prop :=
  (∃ callee, j.term = .Call callee (some r)) ∨ (∃ e, j.term = .CallInd e (some r)) ∨
    (∃ d, j.term = .CallOther d (some r))

/-- the justification of the entry `(j.tid, n)` of `retargetsOfBlock p s b` -/
inductive RetJust (p : Program) (s : Term Sub) (b : Term Blk) (j : Term Jmp) (n : Tid) : Prop
  | call (r : Tid) : b.term.jmps = [j] → IsCallRet j r →
      findTargetForRetargetableJump r s.term [] = some n → RetJust p s b j n
  | branch (t : Tid) : b.term.jmps = [j] → j.term = .Branch t →
      findTargetForRetargetableJump t s.term (preConds p s b) = some n → RetJust p s b j n
  | cIf (j₂ : Term Jmp) (tIf tElse : Tid) (c : Expression) : b.term.jmps = [j, j₂] → j.term = .CBranch tIf c →
      j₂.term = .Branch tElse →
      findTargetForRetargetableJump tIf s.term (preConds p s b ++ [c]) = some n → RetJust p s b j n
  | cElse (j₁ : Term Jmp) (tIf tElse : Tid) (c : Expression) : b.term.jmps = [j₁, j] → j₁.term = .CBranch tIf c →
      j.term = .Branch tElse →
      findTargetForRetargetableJump tElse s.term (preConds p s b ++ [negateCondition c]) = some n →
      RetJust p s b j n

theorem mem_one {jt k n target : Tid} {s : Sub} {conds : List Expression}
    (h : (k, n) ∈ (match findTargetForRetargetableJump target s conds with
      | some n => [(jt, n)]
      | none => ([] : List (Tid × Tid)))) :
    k = jt ∧ findTargetForRetargetableJump target s conds = some n := by
  cases hft : findTargetForRetargetableJump target s conds with
  | none => rw [hft] at h; cases h
  | some n' =>
    rw [hft] at h
    simp only [List.mem_singleton, Prod.mk.injEq] at h
    exact ⟨h.1, by rw [h.2]⟩

theorem mem_retargetsOfBlock {p : Program} {s : Term Sub} {b : Term Blk} {k n : Tid}
    (h : (k, n) ∈ retargetsOfBlock p s b) : ∃ j ∈ b.term.jmps, j.tid = k ∧ RetJust p s b j n := by
  unfold retargetsOfBlock at h
  simp only at h
  split at h
  · next j hjl =>
    split at h
    · next callee r hjt =>
      obtain ⟨hk, hft⟩ := mem_one h
      exact ⟨j, by rw [hjl]; simp, hk.symm, .call r hjl (.inl ⟨callee, hjt⟩) hft⟩
    · next e r hjt =>
      obtain ⟨hk, hft⟩ := mem_one h
      exact ⟨j, by rw [hjl]; simp, hk.symm, .call r hjl (.inr (.inl ⟨e, hjt⟩)) hft⟩
    · next d r hjt =>
      obtain ⟨hk, hft⟩ := mem_one h
      exact ⟨j, by rw [hjl]; simp, hk.symm, .call r hjl (.inr (.inr ⟨d, hjt⟩)) hft⟩
    · next t hjt =>
      obtain ⟨hk, hft⟩ := mem_one h
      exact ⟨j, by rw [hjl]; simp, hk.symm, .branch t hjl hjt hft⟩
    · cases h
  · next j₁ j₂ hjl =>
    split at h
    · next tIf c tElse hj1 hj2 =>
      rcases List.mem_append.mp h with h | h
      · obtain ⟨hk, hft⟩ := mem_one h
        exact ⟨j₁, by rw [hjl]; simp, hk.symm, .cIf j₂ tIf tElse c hjl hj1 hj2 hft⟩
      · obtain ⟨hk, hft⟩ := mem_one h
        exact ⟨j₂, by rw [hjl]; simp, hk.symm, .cElse j₁ tIf tElse c hjl hj1 hj2 hft⟩
    · cases h
  · cases h

theorem allRetargets_find {p : Program} (hu : JmpTidsUnique p) {s : Term Sub} (hs : s ∈ p.subs) {b : Term Blk}
    (hb : b ∈ s.term.blocks) {j : Term Jmp} (hj : j ∈ b.term.jmps) {k n : Tid}
    (h : (allRetargets p).find? (·.1 == j.tid) = some (k, n)) : RetJust p s b j n := by
  have hk := List.find?_some (p := fun x : Tid × Tid => x.1 == j.tid) h
  have hmem := List.mem_of_find?_eq_some h
  simp only [beq_iff_eq] at hk
  subst hk
  simp only [allRetargets, List.mem_flatMap] at hmem
  obtain ⟨s', hs', b', hb', hmem⟩ := hmem
  obtain ⟨j', hj', hjt, hjust⟩ := mem_retargetsOfBlock hmem
  obtain ⟨rfl, rfl, rfl⟩ := hu s hs b hb j hj s' hs' b' hb' j' hj' hjt
  exact hjust

/-! ### the retarget map of the pass is semantically correct -/

theorem findTarget_ahead (env : Env) (p : Program) (s : Term Sub) (hblks : ∀ b ∈ s.term.blocks, BlkOk p b)
    {σ : State} {c : Nat} {conds : List Expression} (hc : CondsHold σ conds) {target n : Tid}
    (hft : findTargetForRetargetableJump target s.term conds = some n) (hI : EntryOk p s target σ c) :
    Ahead env s.term.blocks (EntryOk p s) target n σ c := by
  unfold findTargetForRetargetableJump at hft
  simp only at hft
  split at hft
  · cases hft
    exact followChain_ahead env s.term.blocks (EntryOk p s) conds c hc
      (fun b hb t hj => entryOk_of_goto p s b hb (hblks b hb) hj) _ _ _ hI
  · cases hft

theorem condsHold_nil (σ : State) : CondsHold σ [] := fun _ h => by cases h

theorem condsHold_append {σ : State} {a b : List Expression} (ha : CondsHold σ a) (hb : CondsHold σ b) :
    CondsHold σ (a ++ b) := by
  intro c hc
  rcases List.mem_append.mp hc with h | h
  · exact ha c h
  · exact hb c h

theorem condsHold_singleton {σ : State} {c : Expression} (h : CondTrue σ c) : CondsHold σ [c] := by
  intro c' hc'
  simp only [List.mem_singleton] at hc'
  subst hc'
  exact h

theorem condsHold_preConds {p : Program} {s : Term Sub} {b : Term Blk} {σ : State}
    (h : ∀ cnd, blockPreconditionAfterDefs p s b = some cnd → CondTrue σ cnd) : CondsHold σ (preConds p s b) := by
  unfold preConds
  cases hpc : blockPreconditionAfterDefs p s b with
  | none => exact condsHold_nil σ
  | some cnd => exact condsHold_singleton (h cnd hpc)

/-- **C10-retarget-map-sound.** For a block `b` of a function of the program whose precondition holds in the
state `σ₁` after its defs: whenever the jumps of `b` continue at `t₂`, the retargeted jumps produce the same
events and continue, in the same state, at a block that the original run reaches from `t₂` silently. -/
theorem retarget_ahead (env : Env) (p : Program) (hu : JmpTidsUnique p) (s : Term Sub) (hs : s ∈ p.subs)
    (hblks : ∀ b ∈ s.term.blocks, BlkOk p b) (b : Term Blk) (hb : b ∈ s.term.blocks) {σ₁ σ₂ : State} {c c₂ : Nat}
    {evs₂ : List Event} {t₂ : Tid}
    (hpre : ∀ cnd, blockPreconditionAfterDefs p s b = some cnd → CondTrue σ₁ cnd)
    (hj : execJmps env σ₁ c b.term.jmps = (evs₂, .goto t₂ σ₂ c₂)) :
    ∃ t₂', execJmps env σ₁ c (b.term.jmps.map (retargetJmp (allRetargets p))) = (evs₂, .goto t₂' σ₂ c₂) ∧
      Ahead env s.term.blocks (EntryOk p s) t₂ t₂' σ₂ c₂ := by
  obtain ⟨pre, j, post, hjs, hun, htk, hnew⟩ :=
    (execJmps_retarget env σ₁ c (allRetargets p) b.term.jmps).2 evs₂ t₂ σ₂ c₂ hj
  refine ⟨_, hnew, ?_⟩
  have hI₂ : EntryOk p s t₂ σ₂ c₂ := entryOk_of_goto p s b hb (hblks b hb) hj
  have hjm : j ∈ b.term.jmps := by rw [hjs]; simp
  unfold newTgt
  cases hm : (allRetargets p).find? (·.1 == j.tid) with
  | none => exact Ahead.refl hI₂
  | some kn =>
    obtain ⟨k, n⟩ := kn
    simp only
    have hjust := allRetargets_find hu hs hb hjm hm
    cases hjust with
    | call r hjl hcr hft =>
      have hr : r = t₂ ∧ True := by
        rcases hcr with ⟨callee, h⟩ | ⟨e, h⟩ | ⟨d, h⟩ <;> cases htk <;> simp_all
      obtain ⟨rfl, _⟩ := hr
      exact findTarget_ahead env p s hblks (condsHold_nil σ₂) hft hI₂
    | branch t hjl hjt hft =>
      have hr : t = t₂ ∧ σ₂ = σ₁ := by cases htk <;> simp_all
      obtain ⟨rfl, rfl⟩ := hr
      exact findTarget_ahead env p s hblks (condsHold_preConds hpre) hft hI₂
    | cIf j₂ tIf tElse cnd hjl hjt hj2 hft =>
      have hr : tIf = t₂ ∧ σ₂ = σ₁ ∧ CondTrue σ₁ cnd := by
        cases htk with
        | cbranch h1 h2 h3 => rw [hjt] at h1; cases h1; exact ⟨rfl, rfl, _, h2, h3⟩
        | _ => simp_all
      obtain ⟨rfl, rfl, hct⟩ := hr
      exact findTarget_ahead env p s hblks (condsHold_append (condsHold_preConds hpre) (condsHold_singleton hct))
        hft hI₂
    | cElse j₁ tIf tElse cnd hjl hj1 hjt hft =>
      have hr : tElse = t₂ ∧ σ₂ = σ₁ := by cases htk <;> simp_all
      obtain ⟨rfl, rfl⟩ := hr
      have hz : ∃ v, eval σ₂ cnd = some v ∧ v.toNat = 0 := by
        rw [hjl] at hjs
        cases pre with
        | nil =>
          simp only [List.nil_append, List.cons.injEq] at hjs
          obtain ⟨rfl, _⟩ := hjs
          rw [hj1] at hjt; cases hjt
        | cons x pre =>
          simp only [List.cons_append, List.cons.injEq] at hjs
          obtain ⟨rfl, _⟩ := hjs
          obtain ⟨t', c', v, hx, hv, hvz⟩ := hun j₁ List.mem_cons_self
          rw [hj1] at hx; cases hx
          exact ⟨v, hv, hvz⟩
      obtain ⟨v, hv, hvz⟩ := hz
      exact findTarget_ahead env p s hblks
        (condsHold_append (condsHold_preConds hpre) (condsHold_singleton (negateCondition_true hv hvz))) hft hI₂

/-- the block transformer of `retargetJumps` -/
def retBlk (m : List (Tid × Tid)) (b : Term Blk) : Term Blk :=
  { b with term := { b.term with jmps := b.term.jmps.map (retargetJmp m) } }

theorem retargetJumps_eq (m : List (Tid × Tid)) (p : Program) :
    retargetJumps m p = mapProgramSubs (mapSubBlocks (retBlk m)) p := rfl

/-- **C10-retarget-run (blocks).** The run of the original blocks with fuel `n` is the run of the retargeted
blocks with fuel `m ≥ n`, cut off by the fuel marker. -/
theorem retarget_runBlocks (env : Env) (p : Program) (hu : JmpTidsUnique p) (s : Term Sub) (hs : s ∈ p.subs)
    (hblks : ∀ b ∈ s.term.blocks, BlkOk p b) :
    ∀ n m t σ c, n ≤ m → EntryOk p s t σ c → NoStuck (runBlocks env s.term.blocks n t σ c) →
      FuelLe (runBlocks env s.term.blocks n t σ c)
        (runBlocks env (s.term.blocks.map (retBlk (allRetargets p))) m t σ c) := by
  apply runBlocks_ahead env s.term.blocks _ (EntryOk p s)
  · intro t
    rw [find?_mapBlk (retBlk (allRetargets p)) (fun _ => rfl)]
    cases s.term.blocks.find? (fun b => b.tid == t) <;> rfl
  · intro t σ c b b' hI hb hb' σ₁ evs hd
    rw [find?_mapBlk (retBlk (allRetargets p)) (fun _ => rfl), hb] at hb'
    simp only [Option.map, Option.some.injEq] at hb'
    subst hb'
    refine ⟨hd, fun _ => ⟨?_, ?_⟩⟩
    · intro evs₂ hj
      exact (execJmps_retarget env σ₁ c (allRetargets p) b.term.jmps).1 evs₂ hj
    · intro evs₂ t₂ σ₂ c₂ hj
      exact retarget_ahead env p hu s hs hblks b (List.mem_of_find?_eq_some hb)
        (fun cnd hc => hI b hb cnd hc σ₁ evs hd) hj

/-! ### removal of blocks that no jump reaches -/

/-- Generic: `bs'` finds the same block as `bs` for every tid that is not `Removed`, and no jump of a block of
`bs` continues at a `Removed` tid; then the runs from a tid that is not `Removed` are equal. -/
theorem removeOrphans_runBlocks_gen (env : Env) (bs bs' : List (Term Blk)) (Removed : Tid → Prop)
    (hfind : ∀ t, ¬ Removed t → bs'.find? (fun b => b.tid == t) = bs.find? (fun b => b.tid == t))
    (hstep : ∀ a ∈ bs, ∀ σ c evs t₂ σ₂ c₂, execJmps env σ c a.term.jmps = (evs, .goto t₂ σ₂ c₂) → ¬ Removed t₂) :
    ∀ n t σ c, ¬ Removed t → runBlocks env bs' n t σ c = runBlocks env bs n t σ c := by
  intro n
  induction n with
  | zero => intro t σ c _; rfl
  | succ n ih =>
    intro t σ c ht
    cases hb : bs.find? (fun b => b.tid == t) with
    | none => rw [runBlocks_none hb, runBlocks_none ((hfind t ht).trans hb)]
    | some b =>
      have hb' := (hfind t ht).trans hb
      cases hd : execDefs σ b.term.defs with
      | none => rw [runBlocks_defs_none hb hd, runBlocks_defs_none hb' hd]
      | some r =>
        obtain ⟨σ₁, evs⟩ := r
        cases hjm : execJmps env σ₁ c b.term.jmps with
        | mk evs₂ nxt =>
          cases nxt with
          | stop => rw [runBlocks_stop hb hd hjm, runBlocks_stop hb' hd hjm]
          | goto t₂ σ₂ c₂ =>
            rw [runBlocks_goto hb hd hjm, runBlocks_goto hb' hd hjm,
              ih t₂ σ₂ c₂ (hstep b (List.mem_of_find?_eq_some hb) σ₁ c evs₂ t₂ σ₂ c₂ hjm)]

theorem find?_congr_mem {α : Type} {l : List α} {f g : α → Bool} (h : ∀ x ∈ l, f x = g x) :
    l.find? f = l.find? g := by
  induction l with
  | nil => rfl
  | cons a as ih =>
    simp only [List.find?, h a List.mem_cons_self]
    rw [ih (fun x hx => h x (List.mem_cons_of_mem _ hx))]

theorem mem_incomingEdges {p : Program} {s : Term Sub} {a b : Term Blk} {e : InEdge} (ha : a ∈ s.term.blocks)
    (he : e ∈ edgesFromBlock p a b.tid) : e ∈ incomingEdges p s b := by
  have hfb : e ∈ s.term.blocks.flatMap fun a => edgesFromBlock p a b.tid := List.mem_flatMap.mpr ⟨a, ha, he⟩
  have hif : ∀ cond : Bool, e ∈ (if cond then
      (s.term.blocks.flatMap fun a => edgesFromBlock p a b.tid) ++ [InEdge.other]
      else s.term.blocks.flatMap fun a => edgesFromBlock p a b.tid) := by
    intro cond; cases cond <;> simp [hfb]
  exact hif _

/-- the function transformer of `removeNewOrphanedBlocks` -/
def remSub (newOrphans : List Tid) (s : Term Sub) : Term Sub :=
  match s.term.blocks with
  | [] => s
  | e :: rest => { s with term := { s.term with
      blocks := e :: rest.filter (fun b => !(newOrphans.contains b.tid)) } }

theorem removeNewOrphanedBlocks_eq (p : Program) (before after : List Tid) :
    removeNewOrphanedBlocks p before after =
      mapProgramSubs (remSub (after.filter (fun t => !(before.contains t)))) p := rfl

/-- a block that some jump of its function reaches is not in `orphanTids` -/
theorem not_orphan_of_goto {env : Env} {p : Program} (hu : BlkTidsUnique p) {s : Term Sub} (hs : s ∈ p.subs)
    (hblks : ∀ b ∈ s.term.blocks, BlkOk p b) {a : Term Blk} (ha : a ∈ s.term.blocks) {σ σ₂ : State} {c c₂ : Nat}
    {evs : List Event} {t₂ : Tid} (hj : execJmps env σ c a.term.jmps = (evs, .goto t₂ σ₂ c₂))
    {b₂ : Term Blk} (hb₂ : b₂ ∈ s.term.blocks) (ht : b₂.tid = t₂) : t₂ ∉ orphanTids p := by
  intro horph
  simp only [orphanTids, List.mem_flatMap, List.mem_map, List.mem_filter] at horph
  obtain ⟨s₀, hs₀, b₀, ⟨hb₀, hinc⟩, htid⟩ := horph
  obtain ⟨rfl, rfl⟩ := hu s hs b₂ hb₂ s₀ hs₀ b₀ hb₀ (by rw [htid, ht])
  obtain ⟨e, he, _⟩ := edge_of_goto p a (hblks a ha) hj
  have := mem_incomingEdges (s := s₀) (b := b₀) ha (by rw [htid]; exact he)
  simp only [List.isEmpty_iff] at hinc
  rw [hinc] at this
  cases this

/-- **C10-orphan-removal-run.** Removing, from a function of a program, blocks (other than the first) whose
tids are in `orphanTids` does not change any run that starts at a block that is kept. -/
theorem removeOrphans_runBlocks (env : Env) (p : Program) (hu : BlkTidsUnique p) (s : Term Sub) (hs : s ∈ p.subs)
    (hblks : ∀ b ∈ s.term.blocks, BlkOk p b) (newOrphans : List Tid) (hno : ∀ t ∈ newOrphans, t ∈ orphanTids p)
    (e : Term Blk) (rest : List (Term Blk)) (hbl : s.term.blocks = e :: rest) (n : Nat) (σ : State) (c : Nat) :
    runBlocks env (e :: rest.filter (fun b => !(newOrphans.contains b.tid))) n e.tid σ c =
      runBlocks env (e :: rest) n e.tid σ c := by
  apply removeOrphans_runBlocks_gen env (e :: rest) _
    (fun t => (∃ b ∈ rest, b.tid = t) ∧ newOrphans.contains t = true ∧ t ≠ e.tid)
  · intro t ht
    simp only [List.find?]
    cases het : e.tid == t with
    | true => rfl
    | false =>
      simp only
      rw [List.find?_filter]
      apply find?_congr_mem
      intro x hx
      cases hxt : x.tid == t with
      | false => simp
      | true =>
        have hxt' : x.tid = t := by simpa using hxt
        have : newOrphans.contains x.tid = false := by
          cases hc : newOrphans.contains x.tid with
          | false => rfl
          | true =>
            exfalso
            apply ht
            refine ⟨⟨x, hx, hxt'⟩, by rw [← hxt']; exact hc, ?_⟩
            intro h
            rw [h] at het
            simp at het
        simp only [this, Bool.not_false]
        decide
  · intro a ha σ' c' evs t₂ σ₂ c₂ hj hrem
    obtain ⟨⟨b₂, hb₂, ht⟩, hc, _⟩ := hrem
    rw [← hbl] at ha
    exact not_orphan_of_goto hu hs hblks ha hj (b₂ := b₂) (by rw [hbl]; exact List.mem_cons_of_mem _ hb₂) ht
      (hno t₂ (List.contains_iff_mem.mp hc))
  · simp

/-! ### the structural hypotheses survive the retargeting -/

theorem retargetJmp_cases (m : List (Tid × Tid)) (j : Term Jmp) :
    match j.term with
    | .Branch _ => ∃ t', (retargetJmp m j).term = .Branch t'
    | .CBranch _ c => ∃ t', (retargetJmp m j).term = .CBranch t' c
    | .Call t (some _) => ∃ r', (retargetJmp m j).term = .Call t (some r')
    | .CallInd e (some _) => ∃ r', (retargetJmp m j).term = .CallInd e (some r')
    | .CallOther d (some _) => ∃ r', (retargetJmp m j).term = .CallOther d (some r')
    | other => (retargetJmp m j).term = other := by
  obtain ⟨jt, jterm⟩ := j
  unfold retargetJmp
  cases m.find? (·.1 == jt) with
  | none =>
    cases jterm with
    | Call t r => cases r <;> simp
    | CallInd e r => cases r <;> simp
    | CallOther d r => cases r <;> simp
    | _ => simp
  | some kn =>
    cases jterm with
    | Call t r => cases r <;> simp
    | CallInd e r => cases r <;> simp
    | CallOther d r => cases r <;> simp
    | _ => simp

theorem retargetJmp_cbranch {m : List (Tid × Tid)} {j : Term Jmp} {t : Tid} {c : Expression}
    (h : j.term = .CBranch t c) : ∃ t', (retargetJmp m j).term = .CBranch t' c := by
  have := retargetJmp_cases m j
  rw [h] at this
  exact this

theorem retargetJmp_return {m : List (Tid × Tid)} {j : Term Jmp} {e : Expression}
    (h : j.term = .Return e) : (retargetJmp m j).term = .Return e := by
  have := retargetJmp_cases m j
  rw [h] at this
  exact this

theorem retargetJmp_callOther_inv {m : List (Tid × Tid)} {j : Term Jmp} {d : String} {r : Tid}
    (h : (retargetJmp m j).term = .CallOther d (some r)) : ∃ r', j.term = .CallOther d (some r') := by
  have := retargetJmp_cases m j
  cases hj : j.term with
  | CallOther d' r' =>
    rw [hj] at this
    cases r' with
    | none => simp only at this; rw [this] at h; cases h
    | some r' =>
      simp only at this
      obtain ⟨r'', h'⟩ := this
      rw [h'] at h; cases h
      exact ⟨r', rfl⟩
  | Call t r' =>
    rw [hj] at this
    cases r' with
    | none => simp only at this; rw [this] at h; cases h
    | some r' => simp only at this; obtain ⟨r'', h'⟩ := this; rw [h'] at h; cases h
  | CallInd e r' =>
    rw [hj] at this
    cases r' with
    | none => simp only at this; rw [this] at h; cases h
    | some r' => simp only at this; obtain ⟨r'', h'⟩ := this; rw [h'] at h; cases h
  | Branch t => rw [hj] at this; simp only at this; obtain ⟨r'', h'⟩ := this; rw [h'] at h; cases h
  | CBranch t c => rw [hj] at this; simp only at this; obtain ⟨r'', h'⟩ := this; rw [h'] at h; cases h
  | BranchInd e => rw [hj] at this; simp only at this; rw [this] at h; cases h
  | Return e => rw [hj] at this; simp only at this; rw [this] at h; cases h

theorem retargetJmp_call_inv {m : List (Tid × Tid)} {j : Term Jmp} {callee r : Tid}
    (h : (retargetJmp m j).term = .Call callee (some r)) : ∃ r', j.term = .Call callee (some r') := by
  have := retargetJmp_cases m j
  cases hj : j.term with
  | Call t r' =>
    rw [hj] at this
    cases r' with
    | none => simp only at this; rw [this] at h; cases h
    | some r' =>
      simp only at this
      obtain ⟨r'', h'⟩ := this
      rw [h'] at h; cases h
      exact ⟨r', rfl⟩
  | CallOther d r' =>
    rw [hj] at this
    cases r' with
    | none => simp only at this; rw [this] at h; cases h
    | some r' => simp only at this; obtain ⟨r'', h'⟩ := this; rw [h'] at h; cases h
  | CallInd e r' =>
    rw [hj] at this
    cases r' with
    | none => simp only at this; rw [this] at h; cases h
    | some r' => simp only at this; obtain ⟨r'', h'⟩ := this; rw [h'] at h; cases h
  | Branch t => rw [hj] at this; simp only at this; obtain ⟨r'', h'⟩ := this; rw [h'] at h; cases h
  | CBranch t c => rw [hj] at this; simp only at this; obtain ⟨r'', h'⟩ := this; rw [h'] at h; cases h
  | BranchInd e => rw [hj] at this; simp only at this; rw [this] at h; cases h
  | Return e => rw [hj] at this; simp only at this; rw [this] at h; cases h

theorem hasReturnJmp_retBlk (m : List (Tid × Tid)) (b : Term Blk) (h : hasReturnJmp b = true) :
    hasReturnJmp (retBlk m b) = true := by
  simp only [hasReturnJmp, retBlk, List.any_eq_true, List.mem_map] at h ⊢
  obtain ⟨j, hj, hr⟩ := h
  refine ⟨retargetJmp m j, ⟨j, hj, rfl⟩, ?_⟩
  cases hjt : j.term with
  | Return e => rw [retargetJmp_return hjt]
  | _ => rw [hjt] at hr; cases hr

theorem find?_mapSub (f : Term Sub → Term Sub) (hf : ∀ s, (f s).tid = s.tid) (subs : List (Term Sub)) (t : Tid) :
    (subs.map f).find? (fun s => s.tid == t) = (subs.find? (fun s => s.tid == t)).map f := by
  induction subs with
  | nil => rfl
  | cons s ss ih =>
    simp only [List.map, List.find?, hf]
    cases s.tid == t
    · exact ih
    · rfl

theorem isExternTid_retarget (m : List (Tid × Tid)) (p : Program) (t : Tid) :
    isExternTid (retargetJumps m p) t = isExternTid p t := rfl

theorem internalCallee_retarget (m : List (Tid × Tid)) (p : Program) (t : Tid) :
    internalCallee (retargetJumps m p) t = (internalCallee p t).map (mapSubBlocks (retBlk m)) := by
  unfold internalCallee
  rw [isExternTid_retarget]
  split
  · rfl
  · have : (retargetJumps m p).subs.find? (fun s => s.tid == t) =
        (p.subs.find? (fun s => s.tid == t)).map (mapSubBlocks (retBlk m)) :=
      find?_mapSub (mapSubBlocks (retBlk m)) (fun _ => rfl) p.subs t
    rw [this]
    cases p.subs.find? (fun s => s.tid == t) with
    | none => rfl
    | some s =>
      simp only [Option.map, mapSubBlocks, List.isEmpty_map]
      split <;> rfl

theorem blkOk_retarget {m : List (Tid × Tid)} {p : Program} {b : Term Blk} (h : BlkOk p b) :
    BlkOk (retargetJumps m p) (retBlk m b) := by
  refine ⟨?_, ?_, ?_⟩
  · have hs := h.shape
    simp only [jmpShape, retBlk] at hs ⊢
    cases hjl : b.term.jmps with
    | nil => simp
    | cons j js =>
      cases js with
      | nil => simp
      | cons j₂ js =>
        cases js with
        | nil =>
          rw [hjl] at hs
          simp only [List.map] at hs ⊢
          obtain ⟨t, c, hj⟩ := hs
          obtain ⟨t', hj'⟩ := retargetJmp_cbranch (m := m) hj
          exact ⟨t', c, hj'⟩
        | cons j₃ js => rw [hjl] at hs; simp at hs
  · intro j₁ hj₁ d r hjt
    simp only [retBlk, List.mem_map] at hj₁
    obtain ⟨j, hj, rfl⟩ := hj₁
    obtain ⟨r', hj'⟩ := retargetJmp_callOther_inv hjt
    exact h.noCallOtherRet j hj d r' hj'
  · intro j₁ hj₁ callee r hjt
    simp only [retBlk, List.mem_map] at hj₁
    obtain ⟨j, hj, rfl⟩ := hj₁
    obtain ⟨r', hj'⟩ := retargetJmp_call_inv hjt
    rcases h.callRet j hj callee r' hj' with hext | ⟨sc, hsc, hne⟩
    · exact .inl hext
    · refine .inr ⟨mapSubBlocks (retBlk m) sc, by rw [internalCallee_retarget, hsc]; rfl, ?_⟩
      cases hl : sc.term.blocks.filter hasReturnJmp with
      | nil => exact absurd hl hne
      | cons x xs =>
        have hx : x ∈ sc.term.blocks.filter hasReturnJmp := by rw [hl]; exact List.mem_cons_self
        obtain ⟨hx1, hx2⟩ := List.mem_filter.mp hx
        have : retBlk m x ∈ (mapSubBlocks (retBlk m) sc).term.blocks.filter hasReturnJmp :=
          List.mem_filter.mpr ⟨List.mem_map.mpr ⟨x, hx1, rfl⟩, hasReturnJmp_retBlk m x hx2⟩
        intro hnil
        rw [hnil] at this
        cases this

theorem blkTidsUnique_retarget {m : List (Tid × Tid)} {p : Program} (h : BlkTidsUnique p) :
    BlkTidsUnique (retargetJumps m p) := by
  intro s₁ hs₁ b₁ hb₁ s₁' hs₁' b₁' hb₁' htid
  simp only [retargetJumps_eq, mapProgramSubs, List.mem_map] at hs₁ hs₁'
  obtain ⟨s, hs, rfl⟩ := hs₁
  obtain ⟨s', hs', rfl⟩ := hs₁'
  simp only [mapSubBlocks, List.mem_map] at hb₁ hb₁'
  obtain ⟨b, hb, rfl⟩ := hb₁
  obtain ⟨b', hb', rfl⟩ := hb₁'
  obtain ⟨rfl, rfl⟩ := h s hs b hb s' hs' b' hb' htid
  exact ⟨rfl, rfl⟩

theorem zip_map_mem' {α β : Type} (f : α → β) (l : List α) (x : α × β) (h : x ∈ l.zip (l.map f)) :
    x.1 ∈ l ∧ x.2 = f x.1 := by
  induction l with
  | nil => cases h
  | cons a as ih =>
    simp only [List.map, List.zip_cons_cons, List.mem_cons] at h
    rcases h with rfl | h
    · exact ⟨List.mem_cons_self, rfl⟩
    · exact ⟨List.mem_cons_of_mem _ (ih h).1, (ih h).2⟩

end CF

open CF

/-! ### the theorems of the pass -/

/-- **Structural hypotheses on the program** (all established by `Project::normalize_basic` / assumed by
`analysis/graph.rs`, except the two recorded limitations):
* `jmpTids`: jump tids are unique in the program (the retarget map is keyed by jump tid);
* `blkTids`: block tids are unique in the program (`get_nodes_without_incoming_edge` is keyed by block tid);
* `blks`: every block has at most two jumps, the first of two a `CBranch` (`jmpShape`); no `CallOther` has a
  return site (the CFG has no edge for it: recorded known limitation — the theorem is false without it);
  every `Call callee (some r)` targets an extern symbol or an internal function with a returning block
  (otherwise the CFG has no edge to the return site although the interpreter continues there). -/
structure CfOk (p : Program) : Prop where
  jmpTids : JmpTidsUnique p
  blkTids : BlkTidsUnique p
  blks : ∀ s ∈ p.subs, ∀ b ∈ s.term.blocks, BlkOk p b

/-- **C10-retarget-run.** `retarget_jumps` with the map computed by the pass: the run of the original
function with fuel `n` is the run of the retargeted function with the same fuel, cut off by the fuel marker
(the retargeted run skips def-free forwarding blocks and so gets further with the same fuel). -/
theorem retargetJumps_runSub (env : Env) (p : Program) (hcfg : CfOk p) (s : Term Sub) (hs : s ∈ p.subs)
    (σ : State) (fuel : Nat) (hns : NoStuck (runSub env s.term σ fuel)) :
    FuelLe (runSub env s.term σ fuel)
      (runSub env (mapSubBlocks (retBlk (allRetargets p)) s).term σ fuel) := by
  unfold runSub at hns ⊢
  simp only [mapSubBlocks]
  cases hbl : s.term.blocks with
  | nil => exact FuelLe.refl _
  | cons e rest =>
    rw [hbl] at hns
    simp only at hns
    have := retarget_runBlocks env p hcfg.jmpTids s hs (hcfg.blks s hs) fuel fuel e.tid σ 0 (Nat.le_refl _)
      (entryOk_entry p s e rest hbl σ 0) (by rw [hbl]; exact hns)
    rw [hbl] at this
    exact this

/-- **C10-orphan-removal-run (function).** `remove_new_orphaned_blocks` does not change the run of a function. -/
theorem removeNewOrphanedBlocks_runSub (env : Env) (p : Program) (hu : BlkTidsUnique p)
    (hblks : ∀ s ∈ p.subs, ∀ b ∈ s.term.blocks, BlkOk p b) (before : List Tid) (s : Term Sub) (hs : s ∈ p.subs)
    (σ : State) (fuel : Nat) :
    runSub env (remSub ((orphanTids p).filter (fun t => !(before.contains t))) s).term σ fuel =
      runSub env s.term σ fuel := by
  unfold runSub remSub
  cases hbl : s.term.blocks with
  | nil => simp only [hbl]
  | cons e rest =>
    simp only
    exact removeOrphans_runBlocks env p hu s hs (hblks s hs) _ (fun t ht => (List.mem_filter.mp ht).1) e rest hbl
      fuel σ 0

theorem propagateControlFlow_eq (p : Program) :
    propagateControlFlow p =
      mapProgramSubs (remSub ((orphanTids (retargetJumps (allRetargets p) p)).filter
        (fun t => !((orphanTids p).contains t)))) (retargetJumps (allRetargets p) p) := rfl

/-- the image of the function `s` of `p` under `propagate_control_flow` -/
def cfSub (p : Program) (s : Term Sub) : Term Sub :=
  remSub ((orphanTids (retargetJumps (allRetargets p) p)).filter (fun t => !((orphanTids p).contains t)))
    (mapSubBlocks (retBlk (allRetargets p)) s)

theorem propagateControlFlow_subs (p : Program) : (propagateControlFlow p).subs = p.subs.map (cfSub p) := by
  rw [propagateControlFlow_eq, retargetJumps_eq]
  simp only [mapProgramSubs, List.map_map]
  rfl

/-- **C10-control-flow-run (fuel form).** The run of the original function is the run of its image under
`propagate_control_flow` with the same fuel, cut off by the fuel marker. -/
theorem propagateControlFlow_fuelLe (env : Env) (p : Program) (hcfg : CfOk p) (s : Term Sub) (hs : s ∈ p.subs)
    (σ : State) (fuel : Nat) (hns : NoStuck (runSub env s.term σ fuel)) :
    FuelLe (runSub env s.term σ fuel) (runSub env (cfSub p s).term σ fuel) := by
  have hmem₁ : mapSubBlocks (retBlk (allRetargets p)) s ∈ (retargetJumps (allRetargets p) p).subs := by
    rw [retargetJumps_eq]
    exact List.mem_map.mpr ⟨s, hs, rfl⟩
  have hblks₁ : ∀ s ∈ (retargetJumps (allRetargets p) p).subs, ∀ b ∈ s.term.blocks,
      BlkOk (retargetJumps (allRetargets p) p) b := by
    intro s₁ hs₁ b₁ hb₁
    simp only [retargetJumps_eq, mapProgramSubs, List.mem_map] at hs₁
    obtain ⟨s, hs, rfl⟩ := hs₁
    simp only [mapSubBlocks, List.mem_map] at hb₁
    obtain ⟨b, hb, rfl⟩ := hb₁
    exact blkOk_retarget (hcfg.blks s hs b hb)
  unfold cfSub
  rw [removeNewOrphanedBlocks_runSub env (retargetJumps (allRetargets p) p)
    (blkTidsUnique_retarget hcfg.blkTids) hblks₁ (orphanTids p) _ hmem₁ σ fuel]
  exact retargetJumps_runSub env p hcfg s hs σ fuel hns

/-- **C10-control-flow-run.** `propagate_control_flow` preserves the observable behaviour of every function:
for every program satisfying the structural hypotheses `CfOk`, every function `ss.1` and its image `ss.2`,
every initial state and every fuel, if the run of the original function does not get stuck, the two traces
agree (`Sem.tracesAgree`: equal, or equal up to the point where the original run — which executes the skipped
forwarding blocks and therefore consumes more fuel — runs out of fuel). -/
theorem propagateControlFlow_runSub (env : Env) (p : Program) (hcfg : CfOk p)
    (ss : Term Sub × Term Sub) (hss : ss ∈ p.subs.zip (propagateControlFlow p).subs)
    (σ : State) (fuel : Nat) (_hσ : StateWF σ)
    (hns : NoStuck (runSub env ss.1.term σ fuel)) :
    tracesAgree (runSub env ss.1.term σ fuel) (runSub env ss.2.term σ fuel) = true := by
  rw [propagateControlFlow_subs] at hss
  obtain ⟨hmem, himg⟩ := zip_map_mem' _ _ ss hss
  rw [himg]
  exact tracesAgree_of_fuelLe (propagateControlFlow_fuelLe env p hcfg ss.1 hmem σ fuel hns)

/-! ### an executable check of the structural hypotheses; non-vacuity -/

namespace CF

theorem blkOkB_sound {p : Program} {a : Term Blk} (h : blkOkB p a = true) : BlkOk p a := by
  simp only [blkOkB, Bool.and_eq_true, List.all_eq_true] at h
  obtain ⟨hs, hj⟩ := h
  refine ⟨?_, ?_, ?_⟩
  · simp only [jmpShapeB] at hs
    simp only [jmpShape]
    split at hs
    · next heq => simp only [heq]
    · next heq => simp only [heq]
    · next j j₂ heq =>
      simp only [heq]
      split at hs
      · next t c hjt => exact ⟨t, c, hjt⟩
      · cases hs
    · cases hs
  · intro j hjm d r hjt
    have := (hj j hjm).1
    simp [noCallOtherRetB, hjt] at this
  · intro j hjm callee r hjt
    have := (hj j hjm).2
    simp only [callRetOkB, hjt, Bool.or_eq_true] at this
    rcases this with h | h
    · exact .inl h
    · right
      cases hic : internalCallee p callee with
      | none => rw [hic] at h; cases h
      | some sc =>
        rw [hic] at h
        refine ⟨sc, rfl, ?_⟩
        intro hnil
        simp only [hnil] at h
        cases h

end CF

theorem cfOkB_sound {p : Program} (h : cfOkB p = true) : CfOk p := by
  simp only [cfOkB, Bool.and_eq_true, decide_eq_true_eq, List.all_eq_true] at h
  exact ⟨h.1.1, h.1.2, fun s hs b hb => blkOkB_sound (h.2 s hs b hb)⟩

/-- a function whose first block jumps to a def-free forwarding block -/
private def exProgram : Program :=
  { subs := [⟨⟨"f", "0"⟩, { name := "f", blocks := [
      ⟨⟨"b0", "0"⟩, { defs := [], jmps := [⟨⟨"j0", "0"⟩, .Branch ⟨"b1", "0"⟩⟩] }⟩,
      ⟨⟨"b1", "0"⟩, { defs := [], jmps := [⟨⟨"j1", "0"⟩, .Branch ⟨"b2", "0"⟩⟩] }⟩,
      ⟨⟨"b2", "0"⟩, { defs := [], jmps := [⟨⟨"j2", "0"⟩, .Return (.Const 8 0)⟩] }⟩] }⟩],
    externSymbols := [], entryPoints := [] }

/-- the hypotheses of `propagateControlFlow_runSub` hold for it … -/
example : CfOk exProgram := cfOkB_sound (by decide)

/-- … and the pass retargets the jump of the first block and removes the forwarding block -/
example : (propagateControlFlow exProgram).subs.map (fun s => s.term.blocks.map (fun b => (b.tid.id, b.term.jmps.map (·.term)))) =
    [[("b0", [.Branch ⟨"b2", "0"⟩]), ("b2", [.Return (.Const 8 0)])]] := by decide

private def zf : Expression := .Var ⟨"ZF", 1, false⟩

/-- a conditional jump to a block that tests the same condition again -/
private def exProgram₂ : Program :=
  { subs := [⟨⟨"g", "0"⟩, { name := "g", blocks := [
      ⟨⟨"b0", "0"⟩, { defs := [], jmps := [⟨⟨"j0", "0"⟩, .CBranch ⟨"b1", "0"⟩ zf⟩, ⟨⟨"j1", "0"⟩, .Branch ⟨"b2", "0"⟩⟩] }⟩,
      ⟨⟨"b1", "0"⟩, { defs := [], jmps := [⟨⟨"j2", "0"⟩, .CBranch ⟨"b3", "0"⟩ zf⟩, ⟨⟨"j3", "0"⟩, .Branch ⟨"b4", "0"⟩⟩] }⟩,
      ⟨⟨"b2", "0"⟩, { defs := [], jmps := [⟨⟨"j4", "0"⟩, .Return (.Const 8 0)⟩] }⟩,
      ⟨⟨"b3", "0"⟩, { defs := [], jmps := [⟨⟨"j5", "0"⟩, .Return (.Const 8 0)⟩] }⟩,
      ⟨⟨"b4", "0"⟩, { defs := [], jmps := [⟨⟨"j6", "0"⟩, .Return (.Const 8 0)⟩] }⟩] }⟩],
    externSymbols := [], entryPoints := [] }

example : CfOk exProgram₂ := cfOkB_sound (by decide)

/-- the conditional jump of `b0` is retargeted to `b3` (the condition is known to hold in `b1`), `b1` goes -/
example : (propagateControlFlow exProgram₂).subs.map (fun s => s.term.blocks.map (fun b => (b.tid.id, b.term.jmps.map (·.term)))) =
    [[("b0", [.CBranch ⟨"b3", "0"⟩ zf, .Branch ⟨"b2", "0"⟩]), ("b2", [.Return (.Const 8 0)]),
      ("b3", [.Return (.Const 8 0)]), ("b4", [.Return (.Const 8 0)])]] := by decide

end CweModel.C10
