/-
C10 pass 5 — the arithmetic behind `substitute_and_on_stackpointer`: if the stack pointer at function
entry is a multiple of `2^k` and the current stack pointer is `entry + j` (the journaled offset), then
`SP & -2^k = SP - (j - (j & -2^k))`, which is exactly what the pass substitutes, and the new journaled
offset `j & -2^k` again describes the stack pointer.
Core-only.
-/
import CweModel.C10.RunLemmas
import CweModel.C12.Props

namespace CweModel.C10
open CweModel CweModel.IR CweModel.Sem

/-- the alignment mask `-2^k` -/
def alignMask (k : Nat) : BitVec 64 := BitVec.allOnes 64 <<< k

theorem alignMask_16 : alignMask 4 = 0xfffffffffffffff0#64 := by decide
theorem alignMask_4 : alignMask 2 = 0xfffffffffffffffc#64 := by decide

theorem toNat_and_alignMask (x : BitVec 64) (k : Nat) :
    (x &&& alignMask k).toNat = x.toNat - x.toNat % 2 ^ k := by
  unfold alignMask
  rw [← BitVec.shiftLeft_ushiftRight]
  simp only [BitVec.toNat_shiftLeft, BitVec.toNat_ushiftRight, Nat.shiftLeft_eq, Nat.shiftRight_eq_div_pow]
  have h1 : x.toNat / 2 ^ k * 2 ^ k = x.toNat - x.toNat % 2 ^ k := by
    have := Nat.div_add_mod x.toNat (2 ^ k)
    rw [Nat.mul_comm] at this
    omega
  rw [h1]
  exact Nat.mod_eq_of_lt (by have := x.isLt; omega)

theorem mod_two_pow_of_mod_two_pow64 (n k : Nat) (hk : k ≤ 64) : n % 2 ^ 64 % 2 ^ k = n % 2 ^ k := by
  apply Nat.mod_mod_of_dvd
  exact Nat.pow_dvd_pow 2 hk

theorem alignOffset_toNat (j : BitVec 64) (k : Nat) : (alignOffset j (alignMask k)).toNat = j.toNat % 2 ^ k := by
  unfold alignOffset
  rw [BitVec.toNat_sub, toNat_and_alignMask]
  have hj := j.isLt
  have hr : j.toNat % 2 ^ k ≤ j.toNat := Nat.mod_le _ _
  have : 2 ^ 64 - (j.toNat - j.toNat % 2 ^ k) + j.toNat = 2 ^ 64 + j.toNat % 2 ^ k := by omega
  rw [this, Nat.add_mod, Nat.mod_self, Nat.zero_add, Nat.mod_mod]
  exact Nat.mod_eq_of_lt (by omega)

theorem toNat_sub_of_le (x y : BitVec 64) (h : y.toNat ≤ x.toNat) : (x - y).toNat = x.toNat - y.toNat := by
  rw [BitVec.toNat_sub]
  have hx := x.isLt
  have : 2 ^ 64 - y.toNat + x.toNat = 2 ^ 64 + (x.toNat - y.toNat) := by have := y.isLt; omega
  rw [this, Nat.add_mod, Nat.mod_self, Nat.zero_add, Nat.mod_mod]
  exact Nat.mod_eq_of_lt (by omega)

/-- **C10-stack-alignment.** Let the stack pointer at function entry `S` be a multiple of `2^k` (`k ≤ 64`)
and the current stack pointer be `S + j`. Then masking with `-2^k` subtracts `j - (j & -2^k)`:
`(S + j) & -2^k = (S + j) - (j - (j & -2^k))` — the expression `substitute_and_on_stackpointer` writes. -/
theorem align_eq_sub (S j : BitVec 64) (k : Nat) (hk : k ≤ 64) (hS : S.toNat % 2 ^ k = 0) :
    (S + j) &&& alignMask k = (S + j) - alignOffset j (alignMask k) := by
  apply BitVec.eq_of_toNat_eq
  have hT : (S + j).toNat % 2 ^ k = j.toNat % 2 ^ k := by
    rw [BitVec.toNat_add, mod_two_pow_of_mod_two_pow64 _ _ hk, Nat.add_mod, hS, Nat.zero_add, Nat.mod_mod]
  have hr : (alignOffset j (alignMask k)).toNat ≤ (S + j).toNat := by
    rw [alignOffset_toNat, ← hT]; exact Nat.mod_le _ _
  rw [toNat_and_alignMask, toNat_sub_of_le _ _ hr, alignOffset_toNat, hT]

/-- the journaled offset after the substitution describes the new stack pointer -/
theorem align_journal (S j : BitVec 64) (m : BitVec 64) :
    (S + j) - alignOffset j m = S + (j - alignOffset j m) := by
  rw [BitVec.sub_eq_add_neg, BitVec.sub_eq_add_neg, BitVec.add_assoc]

/-- ... and is a multiple of `2^k`, so the stack pointer is aligned again -/
theorem align_journal_aligned (j : BitVec 64) (k : Nat) :
    (j - alignOffset j (alignMask k)).toNat % 2 ^ k = 0 := by
  have hr : (alignOffset j (alignMask k)).toNat ≤ j.toNat := by rw [alignOffset_toNat]; exact Nat.mod_le _ _
  rw [toNat_sub_of_le _ _ hr, alignOffset_toNat]
  have := Nat.div_add_mod j.toNat (2 ^ k)
  have h2 : j.toNat - j.toNat % 2 ^ k = 2 ^ k * (j.toNat / 2 ^ k) := by omega
  rw [h2, Nat.mul_mod_right]

/-- non-vacuity: entry stack pointer `0x7ffd_0000_1230`, journaled `-0x28`: the mask subtracts 8 -/
example : alignOffset (0 - 0x28#64) (alignMask 4) = 8#64 := by decide

/-! ### the substituted expression in the model -/

theorem mask_of_negConst {x : Nat} (h : negConstToI64 8 x = 16#64) : constToI64 8 x = alignMask 4 := by
  simp only [negConstToI64, constToI64, Nat.lt_irrefl, if_false] at h ⊢
  have : BitVec.ofNat 64 x = -(16#64) := by rw [← h, BitVec.neg_neg]
  rw [this]; decide

theorem ofBytes8 (x : Nat) : Bv.ofBytes 8 x = ⟨64, BitVec.ofNat 64 x⟩ := rfl

theorem ref_and_64 (a b : BitVec 64) : Ref.binOp .IntAnd ⟨64, a⟩ ⟨64, b⟩ = .val ⟨64, a &&& b⟩ := by
  simp only [Ref.binOp, sameW_mk, valV]

theorem ref_sub_64 (a b : BitVec 64) : Ref.binOp .IntSub ⟨64, a⟩ ⟨64, b⟩ = .val ⟨64, a - b⟩ := by
  simp only [Ref.binOp, sameW_mk, valV, C01.sub_eq]

theorem ref_and_width_ne {a b : Bv} (h : a.w ≠ b.w) : Ref.binOp .IntAnd a b = .panic := by
  simp only [Ref.binOp, sameW, dif_neg h]
theorem ref_sub_width_ne {a b : Bv} (h : a.w ≠ b.w) : Ref.binOp .IntSub a b = .panic := by
  simp only [Ref.binOp, sameW, dif_neg h]

/-- **C10-stack-alignment-model.** In a state in which the 8-byte stack pointer register holds `S + j` with
`S` (the value at function entry) a multiple of 16 and `j` the journaled offset, the expression the pass
writes evaluates exactly like the masking expression it replaces. -/
theorem substituteAnd_eval {σ : State} {sp : Variable} {S j : BitVec 64}
    (hS : S.toNat % 2 ^ 4 = 0) (hreg : σ.getReg sp = ⟨64, S + j⟩) (e : Expression)
    (hsub : (substituteAnd sp e 16#64 j).2.1 = []) :
    eval σ (substituteAnd sp e 16#64 j).1 = eval σ e := by
  cases e with
  | BinOp op l r =>
    simp only [substituteAnd] at hsub ⊢
    cases hp : spConstPair sp l r with
    | none => simp [hp] at hsub
    | some bx =>
      obtain ⟨b, x⟩ := bx
      simp only [hp] at hsub ⊢
      by_cases hop : op = .IntAnd
      · subst hop
        simp only [if_true] at hsub ⊢
        by_cases hne : negConstToI64 b x ≠ 16#64
        · rw [if_pos hne] at hsub; simp at hsub
        · rw [if_neg hne]
          simp only
          have hneg : negConstToI64 b x = 16#64 := by simpa using hne
          by_cases hb : b = 8
          · subst hb
            have hmask := mask_of_negConst hneg
            have hoffc : BitVec.ofNat 64 (i64ToConst 8 (alignOffset j (constToI64 8 x))) =
                alignOffset j (alignMask 4) := by
              rw [hmask]
              simp only [i64ToConst]
              apply BitVec.eq_of_toNat_eq
              simp [Nat.mod_eq_of_lt (alignOffset j (alignMask 4)).isLt]
            have hm : BitVec.ofNat 64 x = alignMask 4 := by
              simpa [constToI64] using hmask
            have key := align_eq_sub S j 4 (by omega) hS
            have lhs : eval σ (.BinOp .IntSub (.Var sp) (.Const 8 (i64ToConst 8 (alignOffset j (constToI64 8 x))))) =
                some ⟨64, (S + j) - alignOffset j (alignMask 4)⟩ := by
              rw [eval_binOp_some]
              refine ⟨⟨64, S + j⟩, _, ?_, eval_const _ _ _, ?_⟩
              · simp only [eval]; exact congrArg some hreg
              · rw [ofBytes8, hoffc, ref_sub_64]
            rw [lhs]
            rcases C12.spConstPair_spec hp with ⟨rfl, rfl⟩ | ⟨rfl, rfl⟩
            · symm
              rw [eval_binOp_some]
              refine ⟨⟨64, S + j⟩, _, ?_, eval_const _ _ _, ?_⟩
              · simp only [eval]; exact congrArg some hreg
              · rw [ofBytes8, hm, ref_and_64, key]
            · symm
              rw [eval_binOp_some]
              refine ⟨_, ⟨64, S + j⟩, eval_const _ _ _, ?_, ?_⟩
              · simp only [eval]; exact congrArg some hreg
              · rw [ofBytes8, hm, ref_and_64, BitVec.and_comm, key]
          · -- a mask of another size than the register: neither expression evaluates
            have hw : (⟨64, S + j⟩ : Bv).w ≠ (Bv.ofBytes b (i64ToConst b (alignOffset j (constToI64 b x)))).w := by
              simp only [ofBytes_w]; omega
            have hw' : (⟨64, S + j⟩ : Bv).w ≠ (Bv.ofBytes b x).w := by simp only [ofBytes_w]; omega
            have lhs : eval σ (.BinOp .IntSub (.Var sp) (.Const b (i64ToConst b (alignOffset j (constToI64 b x))))) = none := by
              rw [eval_binOp]
              simp only [eval, hreg, Option.bind_some, ref_sub_width_ne hw, resToOpt]
            rw [lhs]
            rcases C12.spConstPair_spec hp with ⟨rfl, rfl⟩ | ⟨rfl, rfl⟩
            · rw [eval_binOp]
              simp only [eval, hreg, Option.bind_some, ref_and_width_ne hw', resToOpt]
            · rw [eval_binOp]
              simp only [eval, hreg, Option.bind_some, ref_and_width_ne (Ne.symm hw'), resToOpt]
      · rw [if_neg hop] at hsub; simp at hsub
  | Var _ => simp [substituteAnd] at hsub
  | Const _ _ => simp [substituteAnd] at hsub
  | UnOp _ _ => simp [substituteAnd] at hsub
  | Cast _ _ _ => simp [substituteAnd] at hsub
  | Unknown _ _ => simp [substituteAnd] at hsub
  | Subpiece _ _ _ => simp [substituteAnd] at hsub

end CweModel.C10
