/-
C10 — Optimizing normalization preserves program behaviour.

  "For every basic-normalized program and every concrete initial machine state whose stack pointer is
   aligned at function entry, each function of the optimized program behaves observably like the
   unoptimized one. It performs the same sequence of memory reads and writes (addresses, sizes and values)
   and the same sequence of calls, indirect jumps and returns with their call and jump targets, and reaches
   every call, return and dead end with the same physical-register and memory state."

The pass models are in Trivial / Propagation / DeadVars / ControlFlow / StackAlign.lean, the proofs of the
pass cores in TrivialProofs / PropagationProofs / DeadVarsProofs / ControlFlowProofs / StackAlignProofs.lean,
the facts about runs of the reference interpreter in RunLemmas.lean, the run-level trace theorems of the
passes in RunPropagation / RunDeadVars (+ AliveFixpoint) / RunControlFlow / RunStackAlign.lean, the transport
of the structural hypotheses and of H2 through the passes in Transport / RunLocalsTransport (+ TrivialVars).lean.
This file states the property for a pass and for the composition, and proves the composition.
-/
import CweModel.C10.Spec
import CweModel.C10.PropagationProofs
import CweModel.C10.ControlFlowProofs
import CweModel.C10.StackAlignProofs
import CweModel.C10.SpecProofs
import CweModel.C10.RunPropagation
import CweModel.C10.RunDeadVars
import CweModel.C10.RunStackAlign
import CweModel.C10.RunControlFlow
import CweModel.C10.Transport
import CweModel.C10.RunLocalsTransport
import CweModel.C10.AliveFixpoint

namespace CweModel.C10
open CweModel CweModel.IR CweModel.Sem CweModel.C12

/-- **C10-negate-involutive.** `negate_condition` removes a double negation instead of stacking one. -/
theorem negateCondition_negate (e : Expression) : negateCondition (.UnOp .BoolNegate e) = e := rfl

deriving instance ReflBEq for Event

theorem tracesAgree_refl (a : List Event) : tracesAgree a a = true := by
  simp only [tracesAgree]
  split <;> exact beq_self_eq_true _

/-- The property for one pass `pass` (a program transformer that keeps the list of functions): for every
size-consistent program, every function `s` and its image `s'`, every well-formed initial state with an
aligned stack pointer and every fuel, if the run of `s` keeps the boolean discipline (H1) and does not get
stuck (H3), the two runs agree observably (`Sem.tracesAgree`: equal traces, or equal up to the point where
one of them runs out of fuel).

(H2 "temporaries are local" of Spec.lean is needed by dead-variable elimination only and is part of the
executable specification; the theorems proved so far do not need it.) -/
def PassPreserves (env : Env) (ptr : Nat) (align : Nat) (pass : Program → Program) : Prop :=
  ∀ p : Program, WellSizedProgram p ptr →
    ∀ ss ∈ p.subs.zip (pass p).subs,
      ∀ (σ : State) (fuel : Nat), StateWF σ → (σ.getReg env.sp).toNat % align = 0 →
        (∀ b bs, ss.1.term.blocks = b :: bs → RunOk env ss.1.term.blocks fuel b.tid σ 0) →
        NoStuck (runSub env ss.1.term σ fuel) →
        tracesAgree (runSub env ss.1.term σ fuel) (runSub env ss.2.term σ fuel) = true

/-- **The composition theorem in full, on raw traces** (statement): `Project::normalize_optimize` preserves the
behaviour of every function. This raw-trace form demands more than the property (see
`NormalizeOptimizePreservesObs` below, the form that is proved under extra hypotheses); it holds for the stage
`substitute_trivial_expressions` (`substTrivialProgram_preserves`). -/
def NormalizeOptimizePreserves (env : Env) (arch : String) (phys : VarSet) : Prop :=
  PassPreserves env env.sp.size 16 (normalizeOptimize arch env.sp phys)

theorem zip_map_mem {α β : Type} (f : α → β) (l : List α) (x : α × β) (h : x ∈ l.zip (l.map f)) :
    x.1 ∈ l ∧ x.2 = f x.1 := by
  induction l with
  | nil => cases h
  | cons a as ih =>
    simp only [List.map, List.zip_cons_cons, List.mem_cons] at h
    rcases h with rfl | h
    · exact ⟨List.mem_cons_self, rfl⟩
    · exact ⟨List.mem_cons_of_mem _ (ih h).1, (ih h).2⟩

/-- **C10-trivial-preserves.** The stage `Project::substitute_trivial_expressions` of `normalize_optimize`
preserves the behaviour of every function, in the sense of the property, for ALL size-consistent programs,
states and fuels. -/
theorem substTrivialProgram_preserves (env : Env) (ptr align : Nat) :
    PassPreserves env ptr align substTrivialProgram := by
  intro p hp ss hss σ fuel hσ _ hok hns
  obtain ⟨hmem, himg⟩ := zip_map_mem _ _ ss (by simpa [substTrivialProgram, mapProgramSubs] using hss)
  rw [himg, substTrivial_runSub env ss.1 (hp ss.1 hmem) σ fuel hσ hok hns]
  exact tracesAgree_refl _

/-- **C10-dead-variables-preserves.** `remove_dead_var_assignments` on a function whose block tids are unique:
the liveness iteration of the model reaches a post-fixpoint (`computeAliveVars_closed`), hence the pass preserves
the observable trace under H2 and H3. -/
theorem removeDeadSub_preserves (env : Env) (phys : VarSet) (s : Term Sub)
    (huniq : ∀ b ∈ s.term.blocks, ∀ b' ∈ s.term.blocks, b'.tid = b.tid → b' = b)
    (hshape : dveShapeOk s.term.blocks = true) (hregs : ∀ v ∈ env.physRegs, v ∈ phys) (σ : State) (fuel : Nat)
    (hloc : ∀ b bs, s.term.blocks = b :: bs → RunLocals env phys s.term.blocks fuel b.tid σ 0 [])
    (hns : NoStuck (runSub env s.term σ fuel)) :
    (runSub env (removeDeadSub phys s).term σ fuel).map observable = (runSub env s.term σ fuel).map observable :=
  removeDeadSub_runSub env phys s hshape (computeAliveVars_closed phys _ huniq) hregs σ fuel hloc hns

/-! ### the composition of the five stages

`NormalizeOptimizePreserves` above compares raw traces. That is more than the property says and more than dead
variable elimination delivers: the property compares the register state "at every call, return and dead end",
while the reference interpreter also records a state snapshot in every indirect-jump event, and
`remove_dead_var_assignments` legitimately removes an assignment to a physical register that is dead at the
known targets of an indirect jump. The composition is therefore stated on observable traces (`Spec.observable`
drops the snapshot of indirect-jump events, exactly what the driver compares). -/

/-- the composition theorem in full, on observable traces -/
def NormalizeOptimizePreservesObs (env : Env) (arch : String) (phys : VarSet) : Prop :=
  ∀ p : Program, WellSizedProgram p env.sp.size →
    ∀ ss ∈ p.subs.zip (normalizeOptimize arch env.sp phys p).subs,
      ∀ (σ : State) (fuel : Nat), StateWF σ → (σ.getReg env.sp).toNat % 16 = 0 →
        (∀ b bs, ss.1.term.blocks = b :: bs → RunOk env ss.1.term.blocks fuel b.tid σ 0) →
        NoStuck (runSub env ss.1.term σ fuel) →
        tracesAgree ((runSub env ss.1.term σ fuel).map observable)
          ((runSub env ss.2.term σ fuel).map observable) = true

/-- the program after the first two stages (expression propagation with the tables `m`, trivial expression
substitution) -/
def stage2 (m : TableMap) (p : Program) : Program :=
  substTrivialProgram (propagateProgramWith m (mergeAssignmentsProgram p))
/-- ... and after dead variable elimination -/
def stage3 (m : TableMap) (phys : VarSet) (p : Program) : Program := removeDeadProgram phys (stage2 m p)

/-- the image of the function `s` of `p` after the first two stages -/
def stage2Sub (m : TableMap) (s : Term Sub) : Term Sub :=
  mapSubBlocks (mapBlkExprs substTrivial) (propagateSub m (mapSubBlocks mergeDefAssignmentsToSameVar s))

theorem stage2_subs (m : TableMap) (p : Program) : (stage2 m p).subs = p.subs.map (stage2Sub m) := by
  simp only [stage2, substTrivialProgram, propagateProgramWith, mergeAssignmentsProgram, mapProgramSubs, List.map_map]
  rfl

theorem normalizeOptimize_eq (arch : String) (sp : Variable) (phys : VarSet) (p : Program) :
    normalizeOptimize arch sp phys p =
      normalizeOptimizeWith (computeTables (mergeAssignmentsProgram p)) arch sp phys p := rfl

/-- The hypotheses of the composition theorem that are not hypotheses of the property:
  * the architecture (the stack alignment substitution is proved for x86_64: 8-byte stack pointer, alignment 16);
  * every register of the snapshots is a physical register for dead variable elimination;
  * structural conditions on the INPUT program: `CfOk` (unique jump and block tids, at most two jumps per block
    the first of two conditional, no `CallOther` with a return site — recorded known limitation —, calls with a
    return site target an extern symbol or a function with a returning block) and `dveShapeOk` (a conditional
    jump is followed by a jump that always has a CFG edge).
The tables of the expression-propagation fixpoint are a parameter of the theorem (any well-sized post-fixpoint). -/
structure OptimizeHyp (env : Env) (arch : String) (phys : VarSet) (p : Program) : Prop where
  arch64 : arch = "x86_64"
  sp8 : env.sp.size = 8
  regs : ∀ v ∈ env.physRegs, v ∈ phys
  cf : CfOk p
  shape : ∀ s ∈ p.subs, dveShapeOk s.term.blocks = true

/-- `CfOk` of the input program gives `CfOk` of the program after the first three stages -/
theorem cfOk_stage3 (m : TableMap) (phys : VarSet) {p : Program} (h : CfOk p) : CfOk (stage3 m phys p) := by
  have : stage3 m phys p = mapCfg (fun s => removeDeadBlock (computeAliveVars phys s.term.blocks))
      (mapCfg (fun _ => mapBlkExprs substTrivial)
        (mapCfg (fun _ => propagateBlockWith m) (mapCfg (fun _ => mergeDefAssignmentsToSameVar) p))) := rfl
  rw [this]
  exact cfOk_keeps (keepsCfg_removeDead phys) (cfOk_keeps keepsCfg_trivial
    (cfOk_keeps (keepsCfg_propagate _) (cfOk_keeps keepsCfg_merge h)))

/-- block tids stay unique (by value) inside every function after the first two stages -/
theorem blkTidsUnique_stage2 (m : TableMap) {p : Program} (h : CF.BlkTidsUnique p) :
    CF.BlkTidsUnique (stage2 m p) := by
  have : stage2 m p = mapCfg (fun _ => mapBlkExprs substTrivial)
      (mapCfg (fun _ => propagateBlockWith m) (mapCfg (fun _ => mergeDefAssignmentsToSameVar) p)) := rfl
  rw [this]
  exact blkTidsUnique_keeps keepsCfg_trivial (blkTidsUnique_keeps (keepsCfg_propagate _)
    (blkTidsUnique_keeps keepsCfg_merge h))

/-- the jump shapes needed by dead variable elimination are kept by the first two stages -/
theorem dveShapeOk_stage2Sub (m : TableMap) (s : Term Sub) (h : dveShapeOk s.term.blocks = true) :
    dveShapeOk (stage2Sub m s).term.blocks = true := by
  simp only [stage2Sub, propagateSub_eq, mapSubBlocks]
  rw [dveShapeOk_keeps keepsCfg_trivial s, dveShapeOk_keeps (keepsCfg_propagate _) s,
    dveShapeOk_keeps keepsCfg_merge s]
  exact h

theorem observable_ne_fuel {e : Event} (h : e ≠ .outOfFuel) : observable e ≠ .outOfFuel := by
  cases e <;> simp_all [observable]

theorem isStuck_observable (e : Event) : isStuck (observable e) = isStuck e := by
  cases e <;> rfl

theorem NoStuck.of_map_observable {a b : List Event} (h : a.map observable = b.map observable) (hb : NoStuck b) :
    NoStuck a := by
  intro e he
  have : observable e ∈ b.map observable := by rw [← h]; exact List.mem_map_of_mem he
  obtain ⟨e', he', heq⟩ := List.mem_map.mp this
  rw [← isStuck_observable, ← heq, isStuck_observable]
  exact hb e' he'

theorem FuelLe.map_observable {a b : List Event} (h : CF.FuelLe a b) :
    CF.FuelLe (a.map observable) (b.map observable) := by
  rcases h with rfl | ⟨pre, rest, rfl, rfl, hp⟩
  · exact .inl rfl
  · refine .inr ⟨pre.map observable, rest.map observable, by simp [observable], by simp, ?_⟩
    intro hm
    obtain ⟨e, he, heq⟩ := List.mem_map.mp hm
    by_cases hf : e = .outOfFuel
    · exact hp (hf ▸ he)
    · exact observable_ne_fuel hf heq

/-- **C10-composition (tables as parameter).** `Project::normalize_optimize` — all five stages: expression
propagation, trivial expression substitution, dead variable elimination, control flow propagation, stack
alignment substitution — with ANY well-sized family of tables `m` that is a post-fixpoint of the transfer
functions of expression propagation on the input program (`tablesClosed`, `tablesReach`: executable; the driver
checks them for the tables of the REAL fixpoint on every case) preserves the observable behaviour of every
function: for every size-consistent program `p` satisfying `OptimizeHyp`, every function `ss.1` of `p` and its
image `ss.2`, every well-formed initial state with a 16-byte aligned stack pointer and every fuel, if the run of
`ss.1` keeps the boolean discipline (H1), keeps H2 (`RunLocals`: non-physical registers are assigned before they
are read and do not live across calls) and does not get stuck (H3), then the observable traces agree
(`Sem.tracesAgree`: equal, or equal up to the point where the unoptimised run, which executes the forwarding
blocks the optimised one skips, runs out of fuel).

Partial with respect to `NormalizeOptimizePreservesObs`: the hypotheses `OptimizeHyp` (architecture, structural
conditions on the input program) and H2, which the property does not state (it is a hypothesis of the executable
specification: P-Code temporaries are local). -/
theorem normalizeOptimizeWith_preserves_partial (env : Env) (arch : String) (phys : VarSet) (p : Program)
    (hp : WellSizedProgram p env.sp.size) (H : OptimizeHyp env arch phys p)
    (m : TableMap) (hws : AllWS m) (hcl : tablesClosed (mergeAssignmentsProgram p) m = true)
    (hre : tablesReach (mergeAssignmentsProgram p) m = true)
    (ss : Term Sub × Term Sub) (hss : ss ∈ p.subs.zip (normalizeOptimizeWith m arch env.sp phys p).subs)
    (σ : State) (fuel : Nat) (hσ : StateWF σ) (halign : (σ.getReg env.sp).toNat % 16 = 0)
    (hok : ∀ b bs, ss.1.term.blocks = b :: bs → RunOk env ss.1.term.blocks fuel b.tid σ 0)
    (hns : NoStuck (runSub env ss.1.term σ fuel))
    (hloc : ∀ b bs, ss.1.term.blocks = b :: bs → RunLocals env phys ss.1.term.blocks fuel b.tid σ 0 []) :
    tracesAgree ((runSub env ss.1.term σ fuel).map observable)
      ((runSub env ss.2.term σ fuel).map observable) = true := by
  -- the functions of the output, stage by stage
  have hsubs : (normalizeOptimizeWith m arch env.sp phys p).subs = p.subs.map fun s =>
      (saSub env.sp (expectedAlignmentOf arch) [] (cfSub (stage3 m phys p) (removeDeadSub phys (stage2Sub m s)))).1 := by
    have h3 : (stage3 m phys p).subs = p.subs.map fun s => removeDeadSub phys (stage2Sub m s) := by
      simp only [stage3, removeDeadProgram, mapProgramSubs, stage2_subs, List.map_map]; rfl
    have : normalizeOptimizeWith m arch env.sp phys p =
        (substituteAndOnStackpointer arch env.sp (propagateControlFlow (stage3 m phys p))).1 := rfl
    rw [this, substituteAndOnStackpointer_subs, propagateControlFlow_subs, h3, List.map_map, List.map_map]
    rfl
  rw [hsubs] at hss
  obtain ⟨hmem, himg⟩ := zip_map_mem _ _ ss hss
  rw [himg]
  generalize ss.1 = s at hmem hok hns hloc ⊢
  have hcfg : subCfgOk p s = true := subCfgOk_of_cfOk H.cf hmem
  -- stage 1a: merging of assignments (exact, transports H1 and H2)
  obtain ⟨e₀, ok₀⟩ := mergeAssignments_runSub env s σ fuel hok hns
  have hns₀ : NoStuck (runSub env (mapSubBlocks mergeDefAssignmentsToSameVar s).term σ fuel) := by rw [e₀]; exact hns
  have loc₀ := mergeAssignments_runLocalsSub env phys s σ fuel hloc hns
  -- stage 1b: block-local insertion of the fixpoint tables (exact, transports H1 and H2)
  have hp₁ := mergeAssignmentsProgram_wellSized hp
  have hm₁ : mapSubBlocks mergeDefAssignmentsToSameVar s ∈ (mergeAssignmentsProgram p).subs := by
    simp only [mergeAssignmentsProgram, mapProgramSubs, List.mem_map]
    exact ⟨s, hmem, rfl⟩
  have hcfg₁ := subCfgOk_mapBlocks (g := mergeDefAssignmentsToSameVar) (fun _ => rfl) hcfg
  obtain ⟨e₁, ok₁⟩ := propagateWith_runSub env (mergeAssignmentsProgram p) hp₁ m hws hcl hre
    _ hm₁ hcfg₁ σ fuel hσ ok₀ hns₀
  have loc₁ := propagateWith_runLocalsSub env phys (mergeAssignmentsProgram p) hp₁ m hws hcl hre
    _ hm₁ hcfg₁ σ fuel hσ ok₀ loc₀ hns₀
  have hns₁ : NoStuck (runSub env (propagateSub m (mapSubBlocks mergeDefAssignmentsToSameVar s)).term σ fuel) := by
    rw [e₁]; exact hns₀
  -- stage 2: trivial expression substitution (exact, transports H2)
  have hws₁ : WellSizedSub env.sp.size (propagateSub m (mapSubBlocks mergeDefAssignmentsToSameVar s)).term := by
    rw [propagateSub_eq]
    intro b' hb'
    obtain ⟨b, hb, rfl⟩ := mem_mapSubBlocks.mp hb'
    apply propagateBlock_ws _ (hp₁ _ hm₁ b hb)
    cases hg : m.get b.tid with
    | none => exact tableWS_nil
    | some t => exact allWS_get hws hg
  have e₂ : runSub env (stage2Sub m s).term σ fuel = runSub env s.term σ fuel := by
    unfold stage2Sub
    rw [substTrivial_runSub env _ hws₁ σ fuel hσ ok₁ hns₁, e₁, e₀]
  have loc₂ : RunLocalsSub env phys (stage2Sub m s) σ fuel :=
    substTrivial_runLocalsSub env phys _ hws₁ σ fuel hσ ok₁ loc₁ hns₁
  -- stage 3: dead variable elimination (observable traces)
  have hm₂ : stage2Sub m s ∈ (stage2 m p).subs := by
    rw [stage2_subs]; exact List.mem_map.mpr ⟨s, hmem, rfl⟩
  have halive : aliveClosed phys (stage2Sub m s).term.blocks
      (computeAliveVars phys (stage2Sub m s).term.blocks) = true :=
    computeAliveVars_closed phys _ (fun b hb b' hb' heq =>
      (blkTidsUnique_stage2 m H.cf.blkTids _ hm₂ b hb _ hm₂ b' hb' heq).2)
  have e₃ := removeDeadSub_runSub env phys (stage2Sub m s) (dveShapeOk_stage2Sub m s (H.shape s hmem))
    halive H.regs σ fuel loc₂ (by rw [e₂]; exact hns)
  have hns₃ : NoStuck (runSub env (removeDeadSub phys (stage2Sub m s)).term σ fuel) :=
    NoStuck.of_map_observable e₃ (by rw [e₂]; exact hns)
  -- stage 4: control flow propagation (the optimised run needs less fuel)
  have hm₃ : removeDeadSub phys (stage2Sub m s) ∈ (stage3 m phys p).subs := by
    simp only [stage3, removeDeadProgram, mapProgramSubs]
    exact List.mem_map.mpr ⟨_, hm₂, rfl⟩
  have e₄ := propagateControlFlow_fuelLe env (stage3 m phys p) (cfOk_stage3 m phys H.cf) _ hm₃ σ fuel hns₃
  -- stage 5: stack alignment substitution (exact)
  have hea : expectedAlignmentOf arch = 16#64 := by rw [H.arch64]; exact expectedAlignmentOf_x86_64
  rw [hea, saSub_runSub env _ [] σ fuel H.sp8 hσ halign]
  -- together
  apply CF.tracesAgree_of_fuelLe
  have := FuelLe.map_observable e₄
  rw [e₃, e₂] at this
  exact this

/-- **C10-composition (partial).** `Project::normalize_optimize` as modelled, i.e. with the tables of the model's
own fuelled iteration `computeTables`, whenever that iteration reached a post-fixpoint (two executable conditions;
the driver evaluates them on every generated case).

Partial with respect to `NormalizeOptimizePreservesObs`: the hypotheses `OptimizeHyp` (architecture, structural
conditions on the input program), the stabilisation of `computeTables`, and H2, which the property does not state
(it is a hypothesis of the executable specification: P-Code temporaries are local). -/
theorem normalizeOptimize_preserves_partial (env : Env) (arch : String) (phys : VarSet) (p : Program)
    (hp : WellSizedProgram p env.sp.size) (H : OptimizeHyp env arch phys p)
    (hcl : tablesClosed (mergeAssignmentsProgram p) (computeTables (mergeAssignmentsProgram p)) = true)
    (hre : tablesReach (mergeAssignmentsProgram p) (computeTables (mergeAssignmentsProgram p)) = true)
    (ss : Term Sub × Term Sub) (hss : ss ∈ p.subs.zip (normalizeOptimize arch env.sp phys p).subs)
    (σ : State) (fuel : Nat) (hσ : StateWF σ) (halign : (σ.getReg env.sp).toNat % 16 = 0)
    (hok : ∀ b bs, ss.1.term.blocks = b :: bs → RunOk env ss.1.term.blocks fuel b.tid σ 0)
    (hns : NoStuck (runSub env ss.1.term σ fuel))
    (hloc : ∀ b bs, ss.1.term.blocks = b :: bs → RunLocals env phys ss.1.term.blocks fuel b.tid σ 0 []) :
    tracesAgree ((runSub env ss.1.term σ fuel).map observable)
      ((runSub env ss.2.term σ fuel).map observable) = true :=
  normalizeOptimizeWith_preserves_partial env arch phys p hp H _
    (computeTables_ws (mergeAssignmentsProgram_wellSized hp)) hcl hre ss
    (by rw [← normalizeOptimize_eq]; exact hss) σ fuel hσ halign hok hns hloc

/-- **C10-composition from the executable hypothesis check (partial).** The same with the run-time hypotheses
H1 and H2 in the form the driver evaluates them: `hypSub` (Spec.lean) accepts the run of the unoptimised
function, and every non-temporary variable the function reads is a physical register. -/
theorem normalizeOptimize_preserves_of_hypSub_partial (env : Env) (arch : String) (phys : VarSet) (p : Program)
    (hp : WellSizedProgram p env.sp.size) (H : OptimizeHyp env arch phys p)
    (hcl : tablesClosed (mergeAssignmentsProgram p) (computeTables (mergeAssignmentsProgram p)) = true)
    (hre : tablesReach (mergeAssignmentsProgram p) (computeTables (mergeAssignmentsProgram p)) = true)
    (ss : Term Sub × Term Sub) (hss : ss ∈ p.subs.zip (normalizeOptimize arch env.sp phys p).subs)
    (σ : State) (fuel : Nat) (hσ : StateWF σ) (halign : (σ.getReg env.sp).toNat % 16 = 0)
    (hnt : NonTempPhys phys ss.1.term.blocks) (hhyp : hypSub env ss.1.term σ fuel = true)
    (hns : NoStuck (runSub env ss.1.term σ fuel)) :
    tracesAgree ((runSub env ss.1.term σ fuel).map observable)
      ((runSub env ss.2.term σ fuel).map observable) = true := by
  refine normalizeOptimize_preserves_partial env arch phys p hp H hcl hre ss hss σ fuel hσ halign ?_ hns ?_
  · intro b bs hbl
    simp only [hypSub, hbl] at hhyp
    exact runOk_of_hypRun env _ fuel b.tid σ 0 [] (by rw [hbl]; exact hhyp)
  · intro b bs hbl
    simp only [hypSub, hbl] at hhyp
    exact runLocals_of_hypRun env phys _ hnt fuel b.tid σ 0 [] [] (fun _ h => h) (by rw [hbl]; exact hhyp)

/-! ### non-vacuity: the hypotheses are satisfiable and the rules fire -/

private def rax : Variable := ⟨"RAX", 8, false⟩
private def rbx : Variable := ⟨"RBX", 8, false⟩

/-- the repaired rule: `0 == RAX - RBX ⇝ RAX == RBX`, and `1 == RAX - RBX` is left alone (D2) -/
example : substTrivial (.BinOp .IntEqual (.Const 8 0) (.BinOp .IntSub (.Var rax) (.Var rbx))) =
    .BinOp .IntEqual (.Var rax) (.Var rbx) := by decide
example : substTrivial (.BinOp .IntEqual (.Const 8 1) (.BinOp .IntSub (.Var rax) (.Var rbx))) =
    .BinOp .IntEqual (.Const 8 1) (.BinOp .IntSub (.Var rax) (.Var rbx)) := by decide
/-- the unrepaired rule rewrote it to `RAX != RBX` -/
example : substEquivalentComparisonOpsD2 (.BinOp .IntEqual (.Const 8 1) (.BinOp .IntSub (.Var rax) (.Var rbx))) =
    .BinOp .IntNotEqual (.Var rax) (.Var rbx) := by decide

/-- hypotheses of `substTrivial_eval` on a concrete state and expression: a well-formed state, a well-sized
expression that evaluates -/
example : ∃ (σ : State) (e : Expression) (v : Bv), StateWF σ ∧ WellSized e ∧ boolOk σ e = true ∧ eval σ e = some v :=
  ⟨{ seed := 1 }, .BinOp .IntXOr (.Const 8 5) (.Const 8 5), Bv.ofBytes 8 0, stateWF_default 1, by decide, rfl, rfl⟩

/-- a table with one entry is valid in the state after the assignment that created it -/
example : TableValid (({ seed := 1 } : State).setReg rax (Bv.ofBytes 8 7)) [(rax, .Const 8 7)] := by
  intro p hp
  simp only [List.mem_singleton] at hp
  subst hp
  exact ⟨by rw [eval_const, getReg_setReg]; rfl, rfl⟩

/-! ### non-vacuity of the composition theorem: a concrete program on which every stage fires

`b0: RAX = RBX + 1; $U1 = RAX; if ZF goto b1 else goto b2`, `b1: RCX = $U1; return`, `b2: goto b1`.
Expression propagation rewrites `RCX = $U1` to `RCX = RBX + 1`, dead variable elimination removes the assignment to
the temporary, control flow propagation retargets the jump to the forwarding block `b2` and removes it. -/

private def xRax : Variable := ⟨"RAX", 8, false⟩
private def xRbx : Variable := ⟨"RBX", 8, false⟩
private def xRcx : Variable := ⟨"RCX", 8, false⟩
private def xRsp : Variable := ⟨"RSP", 8, false⟩
private def xZf : Variable := ⟨"ZF", 1, false⟩
private def xT0 : Variable := ⟨"$U1", 8, true⟩
private def xPhys : VarSet := [xRax, xRbx, xRcx, xRsp, xZf]
private def xEnv : Env := { physRegs := xPhys, sp := xRsp }

private def xP : Program :=
  { subs := [⟨⟨"f", "0"⟩, { name := "f", blocks := [
      ⟨⟨"b0", "0"⟩, { defs := [⟨⟨"d0", "0"⟩, .Assign xRax (.BinOp .IntAdd (.Var xRbx) (.Const 8 1))⟩,
                               ⟨⟨"d1", "0"⟩, .Assign xT0 (.Var xRax)⟩],
                      jmps := [⟨⟨"j0", "0"⟩, .CBranch ⟨"b1", "0"⟩ (.Var xZf)⟩, ⟨⟨"j1", "0"⟩, .Branch ⟨"b2", "0"⟩⟩] }⟩,
      ⟨⟨"b1", "0"⟩, { defs := [⟨⟨"d2", "0"⟩, .Assign xRcx (.Var xT0)⟩],
                      jmps := [⟨⟨"j2", "0"⟩, .Return (.Const 8 0)⟩] }⟩,
      ⟨⟨"b2", "0"⟩, { defs := [], jmps := [⟨⟨"j3", "0"⟩, .Branch ⟨"b1", "0"⟩⟩] }⟩] }⟩],
    externSymbols := [], entryPoints := [] }

/-- the program satisfies the hypotheses of the composition theorem … -/
example : WellSizedProgram xP xEnv.sp.size := by decide
example : OptimizeHyp xEnv "x86_64" xPhys xP :=
  ⟨rfl, rfl, by decide, cfOkB_sound (by decide), by decide⟩
example : tablesClosed (mergeAssignmentsProgram xP) (computeTables (mergeAssignmentsProgram xP)) = true ∧
    tablesReach (mergeAssignmentsProgram xP) (computeTables (mergeAssignmentsProgram xP)) = true := by decide

/-- … all three optimisations happen … -/
example : (normalizeOptimize "x86_64" xRsp xPhys xP).subs.map
    (fun s => s.term.blocks.map (fun b => (b.tid.id, b.term.defs.map (·.term), b.term.jmps.map (·.term)))) =
    [[("b0", [.Assign xRax (.BinOp .IntAdd (.Var xRbx) (.Const 8 1))],
        [.CBranch ⟨"b1", "0"⟩ (.Var xZf), .Branch ⟨"b1", "0"⟩]),
      ("b1", [.Assign xRcx (.BinOp .IntAdd (.Var xRbx) (.Const 8 1))], [.Return (.Const 8 0)])]] := by decide

/-- … and the run-time hypotheses hold for a concrete aligned state: the executable check accepts the run (H1, H2),
every non-temporary variable is a physical register, the run does not get stuck (H3) -/
private def xσ : State := State.setReg { seed := 3 } xRsp ⟨64, 0x7ffd00001230#64⟩
example : StateWF xσ ∧ (xσ.getReg xEnv.sp).toNat % 16 = 0 :=
  ⟨(stateWF_default 3).setReg _ _ rfl, by decide⟩
example : hypSub xEnv (xP.subs.head!).term xσ 10 = true := by decide
example : NonTempPhys xPhys (xP.subs.head!).term.blocks := nonTempPhysB_sound (by decide)
example : NoStuck (runSub xEnv (xP.subs.head!).term xσ 10) := by unfold NoStuck; decide

end CweModel.C10
