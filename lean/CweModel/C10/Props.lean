/-
C10 — Optimizing normalization preserves program behaviour.

  "For every basic-normalized program and every concrete initial machine state whose stack pointer is
   aligned at function entry, each function of the optimized program behaves observably like the
   unoptimized one. It performs the same sequence of memory reads and writes (addresses, sizes and values)
   and the same sequence of calls, indirect jumps and returns with their call and jump targets, and reaches
   every call, return and dead end with the same physical-register and memory state."

The pass models are in Trivial / Propagation / DeadVars / ControlFlow / StackAlign.lean, the proofs of the
pass cores in TrivialProofs / PropagationProofs / DeadVarsProofs / ControlFlowProofs / StackAlignProofs.lean,
the facts about runs of the reference interpreter in RunLemmas.lean. This file states the property for a
pass and for the composition, and collects what is proved.
-/
import CweModel.C10.Spec
import CweModel.C10.PropagationProofs
import CweModel.C10.ControlFlowProofs
import CweModel.C10.StackAlignProofs
import CweModel.C10.SpecProofs

namespace CweModel.C10
open CweModel CweModel.IR CweModel.Sem CweModel.C12

/-- **C10-negate-involutive.** `negate_condition` removes a double negation instead of stacking one. -/
theorem negateCondition_negate (e : Expression) : negateCondition (.UnOp .BoolNegate e) = e := rfl

deriving instance ReflBEq for Event

theorem tracesAgree_refl (a : List Event) : tracesAgree a a = true := by
  simp only [tracesAgree]
  split <;> exact beq_self_eq_true _

/-- The property for one pass `pass` (a program transformer that keeps the list of functions): for every
size-consistent program, every function `s` and its image `s'`, every well-formed initial state with an
aligned stack pointer and every fuel, if the run of `s` keeps the boolean discipline (H1) and does not get
stuck (H3), the two runs agree observably (`Sem.tracesAgree`: equal traces, or equal up to the point where
one of them runs out of fuel).

(H2 "temporaries are local" of Spec.lean is needed by dead-variable elimination only and is part of the
executable specification; the theorems proved so far do not need it.) -/
def PassPreserves (env : Env) (ptr : Nat) (align : Nat) (pass : Program → Program) : Prop :=
  ∀ p : Program, WellSizedProgram p ptr →
    ∀ ss ∈ p.subs.zip (pass p).subs,
      ∀ (σ : State) (fuel : Nat), StateWF σ → (σ.getReg env.sp).toNat % align = 0 →
        (∀ b bs, ss.1.term.blocks = b :: bs → RunOk env ss.1.term.blocks fuel b.tid σ 0) →
        NoStuck (runSub env ss.1.term σ fuel) →
        tracesAgree (runSub env ss.1.term σ fuel) (runSub env ss.2.term σ fuel) = true

/-- **The composition theorem in full** (statement): `Project::normalize_optimize` preserves the behaviour
of every function. Proved so far: the stage `substitute_trivial_expressions` (`trivial_preserves` below) and
the cores of the other four passes (see the list in props/C10.json). -/
def NormalizeOptimizePreserves (env : Env) (arch : String) (phys : VarSet) : Prop :=
  PassPreserves env env.sp.size 16 (normalizeOptimize arch env.sp phys)

theorem zip_map_mem {α β : Type} (f : α → β) (l : List α) (x : α × β) (h : x ∈ l.zip (l.map f)) :
    x.1 ∈ l ∧ x.2 = f x.1 := by
  induction l with
  | nil => cases h
  | cons a as ih =>
    simp only [List.map, List.zip_cons_cons, List.mem_cons] at h
    rcases h with rfl | h
    · exact ⟨List.mem_cons_self, rfl⟩
    · exact ⟨List.mem_cons_of_mem _ (ih h).1, (ih h).2⟩

/-- **C10-trivial-preserves (composition, partial).** The stage `Project::substitute_trivial_expressions`
of `normalize_optimize` preserves the behaviour of every function, in the sense of the property, for ALL
size-consistent programs, states and fuels. -/
theorem normalizeOptimize_preserves_partial (env : Env) (ptr align : Nat) :
    PassPreserves env ptr align substTrivialProgram := by
  intro p hp ss hss σ fuel hσ _ hok hns
  obtain ⟨hmem, himg⟩ := zip_map_mem _ _ ss (by simpa [substTrivialProgram, mapProgramSubs] using hss)
  rw [himg, substTrivial_runSub env ss.1 (hp ss.1 hmem) σ fuel hσ hok hns]
  exact tracesAgree_refl _

/-! ### non-vacuity: the hypotheses are satisfiable and the rules fire -/

private def rax : Variable := ⟨"RAX", 8, false⟩
private def rbx : Variable := ⟨"RBX", 8, false⟩

/-- the repaired rule: `0 == RAX - RBX ⇝ RAX == RBX`, and `1 == RAX - RBX` is left alone (D2) -/
example : substTrivial (.BinOp .IntEqual (.Const 8 0) (.BinOp .IntSub (.Var rax) (.Var rbx))) =
    .BinOp .IntEqual (.Var rax) (.Var rbx) := by decide
example : substTrivial (.BinOp .IntEqual (.Const 8 1) (.BinOp .IntSub (.Var rax) (.Var rbx))) =
    .BinOp .IntEqual (.Const 8 1) (.BinOp .IntSub (.Var rax) (.Var rbx)) := by decide
/-- the unrepaired rule rewrote it to `RAX != RBX` -/
example : substEquivalentComparisonOpsD2 (.BinOp .IntEqual (.Const 8 1) (.BinOp .IntSub (.Var rax) (.Var rbx))) =
    .BinOp .IntNotEqual (.Var rax) (.Var rbx) := by decide

/-- hypotheses of `substTrivial_eval` on a concrete state and expression: a well-formed state, a well-sized
expression that evaluates -/
example : ∃ (σ : State) (e : Expression) (v : Bv), StateWF σ ∧ WellSized e ∧ boolOk σ e = true ∧ eval σ e = some v :=
  ⟨{ seed := 1 }, .BinOp .IntXOr (.Const 8 5) (.Const 8 5), Bv.ofBytes 8 0, stateWF_default 1, by decide, rfl, rfl⟩

/-- a table with one entry is valid in the state after the assignment that created it -/
example : TableValid (({ seed := 1 } : State).setReg rax (Bv.ofBytes 8 7)) [(rax, .Const 8 7)] := by
  intro p hp
  simp only [List.mem_singleton] at hp
  subst hp
  exact ⟨by rw [eval_const, getReg_setReg]; rfl, rfl⟩

end CweModel.C10
