/-
C10 — Optimizing normalization preserves program behaviour.

  "For every basic-normalized program and every concrete initial machine state whose stack pointer is
   aligned at function entry, each function of the optimized program behaves observably like the
   unoptimized one. It performs the same sequence of memory reads and writes (addresses, sizes and values)
   and the same sequence of calls, indirect jumps and returns with their call and jump targets, and reaches
   every call, return and dead end with the same physical-register and memory state."

The pass models are in Trivial / Propagation / DeadVars / ControlFlow / StackAlign.lean, the proofs of the
pass cores in TrivialProofs / PropagationProofs / DeadVarsProofs / ControlFlowProofs / StackAlignProofs.lean,
the facts about runs of the reference interpreter in RunLemmas.lean. This file states the property for a
pass and for the composition, and collects what is proved.
-/
import CweModel.C10.Spec
import CweModel.C10.PropagationProofs
import CweModel.C10.ControlFlowProofs
import CweModel.C10.StackAlignProofs
import CweModel.C10.SpecProofs
import CweModel.C10.RunPropagation
import CweModel.C10.RunDeadVars
import CweModel.C10.RunStackAlign
import CweModel.C10.RunControlFlow

namespace CweModel.C10
open CweModel CweModel.IR CweModel.Sem CweModel.C12

/-- **C10-negate-involutive.** `negate_condition` removes a double negation instead of stacking one. -/
theorem negateCondition_negate (e : Expression) : negateCondition (.UnOp .BoolNegate e) = e := rfl

deriving instance ReflBEq for Event

theorem tracesAgree_refl (a : List Event) : tracesAgree a a = true := by
  simp only [tracesAgree]
  split <;> exact beq_self_eq_true _

/-- The property for one pass `pass` (a program transformer that keeps the list of functions): for every
size-consistent program, every function `s` and its image `s'`, every well-formed initial state with an
aligned stack pointer and every fuel, if the run of `s` keeps the boolean discipline (H1) and does not get
stuck (H3), the two runs agree observably (`Sem.tracesAgree`: equal traces, or equal up to the point where
one of them runs out of fuel).

(H2 "temporaries are local" of Spec.lean is needed by dead-variable elimination only and is part of the
executable specification; the theorems proved so far do not need it.) -/
def PassPreserves (env : Env) (ptr : Nat) (align : Nat) (pass : Program → Program) : Prop :=
  ∀ p : Program, WellSizedProgram p ptr →
    ∀ ss ∈ p.subs.zip (pass p).subs,
      ∀ (σ : State) (fuel : Nat), StateWF σ → (σ.getReg env.sp).toNat % align = 0 →
        (∀ b bs, ss.1.term.blocks = b :: bs → RunOk env ss.1.term.blocks fuel b.tid σ 0) →
        NoStuck (runSub env ss.1.term σ fuel) →
        tracesAgree (runSub env ss.1.term σ fuel) (runSub env ss.2.term σ fuel) = true

/-- **The composition theorem in full** (statement): `Project::normalize_optimize` preserves the behaviour
of every function. Proved so far: the stage `substitute_trivial_expressions` (`trivial_preserves` below) and
the cores of the other four passes (see the list in props/C10.json). -/
def NormalizeOptimizePreserves (env : Env) (arch : String) (phys : VarSet) : Prop :=
  PassPreserves env env.sp.size 16 (normalizeOptimize arch env.sp phys)

theorem zip_map_mem {α β : Type} (f : α → β) (l : List α) (x : α × β) (h : x ∈ l.zip (l.map f)) :
    x.1 ∈ l ∧ x.2 = f x.1 := by
  induction l with
  | nil => cases h
  | cons a as ih =>
    simp only [List.map, List.zip_cons_cons, List.mem_cons] at h
    rcases h with rfl | h
    · exact ⟨List.mem_cons_self, rfl⟩
    · exact ⟨List.mem_cons_of_mem _ (ih h).1, (ih h).2⟩

/-- **C10-trivial-preserves.** The stage `Project::substitute_trivial_expressions` of `normalize_optimize`
preserves the behaviour of every function, in the sense of the property, for ALL size-consistent programs,
states and fuels. -/
theorem substTrivialProgram_preserves (env : Env) (ptr align : Nat) :
    PassPreserves env ptr align substTrivialProgram := by
  intro p hp ss hss σ fuel hσ _ hok hns
  obtain ⟨hmem, himg⟩ := zip_map_mem _ _ ss (by simpa [substTrivialProgram, mapProgramSubs] using hss)
  rw [himg, substTrivial_runSub env ss.1 (hp ss.1 hmem) σ fuel hσ hok hns]
  exact tracesAgree_refl _

/-! ### the composition of the five stages

`NormalizeOptimizePreserves` above compares raw traces. That is more than the property says and more than dead
variable elimination delivers: the property compares the register state "at every call, return and dead end",
while the reference interpreter also records a state snapshot in every indirect-jump event, and
`remove_dead_var_assignments` legitimately removes an assignment to a physical register that is dead at the
known targets of an indirect jump. The composition is therefore stated on observable traces (`Spec.observable`
drops the snapshot of indirect-jump events, exactly what the driver compares). -/

/-- the composition theorem in full, on observable traces -/
def NormalizeOptimizePreservesObs (env : Env) (arch : String) (phys : VarSet) : Prop :=
  ∀ p : Program, WellSizedProgram p env.sp.size →
    ∀ ss ∈ p.subs.zip (normalizeOptimize arch env.sp phys p).subs,
      ∀ (σ : State) (fuel : Nat), StateWF σ → (σ.getReg env.sp).toNat % 16 = 0 →
        (∀ b bs, ss.1.term.blocks = b :: bs → RunOk env ss.1.term.blocks fuel b.tid σ 0) →
        NoStuck (runSub env ss.1.term σ fuel) →
        tracesAgree ((runSub env ss.1.term σ fuel).map observable)
          ((runSub env ss.2.term σ fuel).map observable) = true

/-- the program after the first two stages (expression propagation, trivial expression substitution) -/
def stage2 (p : Program) : Program := substTrivialProgram (propagateProgram p)
/-- ... and after dead variable elimination -/
def stage3 (phys : VarSet) (p : Program) : Program := removeDeadProgram phys (stage2 p)

/-- the image of the function `s` of `p` after the first two stages -/
def stage2Sub (p : Program) (s : Term Sub) : Term Sub :=
  mapSubBlocks (mapBlkExprs substTrivial)
    (propagateSub (computeTables (mergeAssignmentsProgram p)) (mapSubBlocks mergeDefAssignmentsToSameVar s))

theorem stage2_subs (p : Program) : (stage2 p).subs = p.subs.map (stage2Sub p) := by
  simp only [stage2, substTrivialProgram, mapProgramSubs, propagateProgram_subs, List.map_map]
  rfl

/-- The hypotheses of the composition theorem that are not hypotheses of the property: the architecture,
the structural conditions on the control flow (on the input program for expression propagation, on the
intermediate programs for dead variable elimination and control flow propagation), and that the two fuelled
fixpoint iterations of the model reached a post-fixpoint. All of them are executable conditions on the input
program or on outputs of the pass models; the driver evaluates them on every generated case. -/
structure OptimizeHyp (env : Env) (arch : String) (phys : VarSet) (p : Program) : Prop where
  arch64 : arch = "x86_64"
  sp8 : env.sp.size = 8
  regs : ∀ v ∈ env.physRegs, v ∈ phys
  cfg : ∀ s ∈ p.subs, subCfgOk p s = true
  tablesClosed : tablesClosed (mergeAssignmentsProgram p) (computeTables (mergeAssignmentsProgram p)) = true
  tablesReach : tablesReach (mergeAssignmentsProgram p) (computeTables (mergeAssignmentsProgram p)) = true
  shape₂ : ∀ s ∈ (stage2 p).subs, dveShapeOk s.term.blocks = true
  alive₂ : ∀ s ∈ (stage2 p).subs, aliveClosed phys s.term.blocks (computeAliveVars phys s.term.blocks) = true
  cf₃ : CfOk (stage3 phys p)

theorem observable_ne_fuel {e : Event} (h : e ≠ .outOfFuel) : observable e ≠ .outOfFuel := by
  cases e <;> simp_all [observable]

theorem isStuck_observable (e : Event) : isStuck (observable e) = isStuck e := by
  cases e <;> rfl

theorem NoStuck.of_map_observable {a b : List Event} (h : a.map observable = b.map observable) (hb : NoStuck b) :
    NoStuck a := by
  intro e he
  have : observable e ∈ b.map observable := by rw [← h]; exact List.mem_map_of_mem he
  obtain ⟨e', he', heq⟩ := List.mem_map.mp this
  rw [← isStuck_observable, ← heq, isStuck_observable]
  exact hb e' he'

theorem FuelLe.map_observable {a b : List Event} (h : CF.FuelLe a b) :
    CF.FuelLe (a.map observable) (b.map observable) := by
  rcases h with rfl | ⟨pre, rest, rfl, rfl, hp⟩
  · exact .inl rfl
  · refine .inr ⟨pre.map observable, rest.map observable, by simp [observable], by simp, ?_⟩
    intro hm
    obtain ⟨e, he, heq⟩ := List.mem_map.mp hm
    by_cases hf : e = .outOfFuel
    · exact hp (hf ▸ he)
    · exact observable_ne_fuel hf heq

/-- **C10-composition (partial).** `Project::normalize_optimize` — all five stages: expression propagation,
trivial expression substitution, dead variable elimination, control flow propagation, stack alignment
substitution — preserves the observable behaviour of every function: for every size-consistent program `p`
satisfying `OptimizeHyp`, every function `ss.1` of `p` and its image `ss.2`, every well-formed initial state with a
16-byte aligned stack pointer and every fuel, if the run of `ss.1` keeps the boolean discipline (H1) and does
not get stuck (H3), and the run of the function after the first two stages keeps H2 (`RunLocals`:
non-physical registers are assigned before they are read and do not live across calls), then the observable
traces agree (`Sem.tracesAgree`: equal, or equal up to the point where the unoptimised run, which executes the
forwarding blocks the optimised one skips, runs out of fuel).

Partial with respect to `NormalizeOptimizePreservesObs`: the hypotheses `OptimizeHyp` (see there) and that H2
is assumed for the run of the intermediate function `stage2Sub p ss.1` rather than derived from H2 of the run of
`ss.1`. -/
theorem normalizeOptimize_preserves_partial (env : Env) (arch : String) (phys : VarSet) (p : Program)
    (hp : WellSizedProgram p env.sp.size) (H : OptimizeHyp env arch phys p)
    (ss : Term Sub × Term Sub) (hss : ss ∈ p.subs.zip (normalizeOptimize arch env.sp phys p).subs)
    (σ : State) (fuel : Nat) (hσ : StateWF σ) (halign : (σ.getReg env.sp).toNat % 16 = 0)
    (hok : ∀ b bs, ss.1.term.blocks = b :: bs → RunOk env ss.1.term.blocks fuel b.tid σ 0)
    (hns : NoStuck (runSub env ss.1.term σ fuel))
    (hloc : ∀ b bs, (stage2Sub p ss.1).term.blocks = b :: bs →
      RunLocals env phys (stage2Sub p ss.1).term.blocks fuel b.tid σ 0 []) :
    tracesAgree ((runSub env ss.1.term σ fuel).map observable)
      ((runSub env ss.2.term σ fuel).map observable) = true := by
  -- the functions of the output, stage by stage
  have hsubs : (normalizeOptimize arch env.sp phys p).subs = p.subs.map fun s =>
      (saSub env.sp (expectedAlignmentOf arch) [] (cfSub (stage3 phys p) (removeDeadSub phys (stage2Sub p s)))).1 := by
    have h3 : (stage3 phys p).subs = p.subs.map fun s => removeDeadSub phys (stage2Sub p s) := by
      simp only [stage3, removeDeadProgram, mapProgramSubs, stage2_subs, List.map_map]; rfl
    have : normalizeOptimize arch env.sp phys p =
        (substituteAndOnStackpointer arch env.sp (propagateControlFlow (stage3 phys p))).1 := rfl
    rw [this, substituteAndOnStackpointer_subs, propagateControlFlow_subs, h3, List.map_map, List.map_map]
    rfl
  rw [hsubs] at hss
  obtain ⟨hmem, himg⟩ := zip_map_mem _ _ ss hss
  rw [himg]
  generalize ss.1 = s at hmem hok hns hloc ⊢
  -- stage 1: expression propagation (exact, transports H1)
  have hs₁ : (s, propagateSub (computeTables (mergeAssignmentsProgram p)) (mapSubBlocks mergeDefAssignmentsToSameVar s)) ∈
      p.subs.zip (propagateProgram p).subs := by
    rw [propagateProgram_subs]
    exact List.mem_iff_getElem.mpr (by
      obtain ⟨i, hi, rfl⟩ := List.getElem_of_mem hmem
      exact ⟨i, by simpa using hi, by simp⟩)
  obtain ⟨e₁, ok₁⟩ := propagateProgram_preserves env p hp H.tablesClosed H.tablesReach _ hs₁ (H.cfg s hmem)
    σ fuel hσ hok hns
  simp only at e₁ ok₁
  -- stage 2: trivial expression substitution (exact)
  have hws₁ : WellSizedSub env.sp.size
      (propagateSub (computeTables (mergeAssignmentsProgram p)) (mapSubBlocks mergeDefAssignmentsToSameVar s)).term := by
    apply propagateProgram_wellSized hp
    rw [propagateProgram_subs]
    exact List.mem_map.mpr ⟨s, hmem, rfl⟩
  have e₂ : runSub env (stage2Sub p s).term σ fuel = runSub env s.term σ fuel := by
    unfold stage2Sub
    rw [substTrivial_runSub env _ hws₁ σ fuel hσ ok₁ (by rw [e₁]; exact hns), e₁]
  -- stage 3: dead variable elimination (observable traces)
  have hm₂ : stage2Sub p s ∈ (stage2 p).subs := by
    rw [stage2_subs]; exact List.mem_map.mpr ⟨s, hmem, rfl⟩
  have e₃ := removeDeadSub_runSub env phys (stage2Sub p s) (H.shape₂ _ hm₂) (H.alive₂ _ hm₂) H.regs σ fuel hloc
    (by rw [e₂]; exact hns)
  have hns₃ : NoStuck (runSub env (removeDeadSub phys (stage2Sub p s)).term σ fuel) :=
    NoStuck.of_map_observable e₃ (by rw [e₂]; exact hns)
  -- stage 4: control flow propagation (the optimised run needs less fuel)
  have hm₃ : removeDeadSub phys (stage2Sub p s) ∈ (stage3 phys p).subs := by
    simp only [stage3, removeDeadProgram, mapProgramSubs]
    exact List.mem_map.mpr ⟨_, hm₂, rfl⟩
  have e₄ := propagateControlFlow_fuelLe env (stage3 phys p) H.cf₃ _ hm₃ σ fuel hns₃
  -- stage 5: stack alignment substitution (exact)
  have hea : expectedAlignmentOf arch = 16#64 := by rw [H.arch64]; exact expectedAlignmentOf_x86_64
  rw [hea, saSub_runSub env _ [] σ fuel H.sp8 hσ halign]
  -- together
  apply CF.tracesAgree_of_fuelLe
  have := FuelLe.map_observable e₄
  rw [e₃, e₂] at this
  exact this

/-! ### non-vacuity: the hypotheses are satisfiable and the rules fire -/

private def rax : Variable := ⟨"RAX", 8, false⟩
private def rbx : Variable := ⟨"RBX", 8, false⟩

/-- the repaired rule: `0 == RAX - RBX ⇝ RAX == RBX`, and `1 == RAX - RBX` is left alone (D2) -/
example : substTrivial (.BinOp .IntEqual (.Const 8 0) (.BinOp .IntSub (.Var rax) (.Var rbx))) =
    .BinOp .IntEqual (.Var rax) (.Var rbx) := by decide
example : substTrivial (.BinOp .IntEqual (.Const 8 1) (.BinOp .IntSub (.Var rax) (.Var rbx))) =
    .BinOp .IntEqual (.Const 8 1) (.BinOp .IntSub (.Var rax) (.Var rbx)) := by decide
/-- the unrepaired rule rewrote it to `RAX != RBX` -/
example : substEquivalentComparisonOpsD2 (.BinOp .IntEqual (.Const 8 1) (.BinOp .IntSub (.Var rax) (.Var rbx))) =
    .BinOp .IntNotEqual (.Var rax) (.Var rbx) := by decide

/-- hypotheses of `substTrivial_eval` on a concrete state and expression: a well-formed state, a well-sized
expression that evaluates -/
example : ∃ (σ : State) (e : Expression) (v : Bv), StateWF σ ∧ WellSized e ∧ boolOk σ e = true ∧ eval σ e = some v :=
  ⟨{ seed := 1 }, .BinOp .IntXOr (.Const 8 5) (.Const 8 5), Bv.ofBytes 8 0, stateWF_default 1, by decide, rfl, rfl⟩

/-- a table with one entry is valid in the state after the assignment that created it -/
example : TableValid (({ seed := 1 } : State).setReg rax (Bv.ofBytes 8 7)) [(rax, .Const 8 7)] := by
  intro p hp
  simp only [List.mem_singleton] at hp
  subst hp
  exact ⟨by rw [eval_const, getReg_setReg]; rfl, rfl⟩

end CweModel.C10
