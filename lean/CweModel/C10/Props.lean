/-
C10 — Optimizing normalization preserves program behaviour: the registered theorems.
(The pass-specific lemmas live next to the pass models.)
-/
import CweModel.C10.Spec
import CweModel.C10.TrivialProofs

namespace CweModel.C10
open CweModel CweModel.IR

/-- **C10-negate-involutive.** `negate_condition` removes a double negation instead of stacking one. -/
theorem negateCondition_negate (e : Expression) : negateCondition (.UnOp .BoolNegate e) = e := rfl

end CweModel.C10
