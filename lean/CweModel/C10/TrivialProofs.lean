/-
C10 pass 1 — proofs about `substTrivial` (model of `Expression::substitute_trivial_operations`):
on every well-sized expression it keeps the size, stays well-sized, and — in every well-formed state in
which the expression evaluates under the boolean discipline — evaluates to the same value.
Core-only.
-/
import CweModel.C10.BvLemmas

namespace CweModel.C10
open CweModel CweModel.IR CweModel.Sem CweModel.C12

/-- `e'` may replace the well-sized expression `e` in state `σ` -/
structure Sound (σ : State) (e e' : Expression) : Prop where
  ws : WellSized e'
  size : e'.bytesize = e.bytesize
  sem : ∀ v, boolOk σ e = true → eval σ e = some v → eval σ e' = some v ∧ boolOk σ e' = true

theorem Sound.refl {σ : State} {e : Expression} (hw : WellSized e) : Sound σ e e :=
  ⟨hw, rfl, fun _ hb hv => ⟨hv, hb⟩⟩

theorem Sound.trans {σ : State} {e e' e'' : Expression} (h₁ : Sound σ e e') (h₂ : Sound σ e' e'') : Sound σ e e'' :=
  ⟨h₂.ws, h₂.size.trans h₁.size, fun v hb hv =>
    let ⟨hv', hb'⟩ := h₁.sem v hb hv
    h₂.sem v hb' hv'⟩

theorem wellSized_pos : ∀ {e : Expression}, WellSized e → 0 < e.bytesize := by
  intro e
  induction e with
  | Var x => intro h; exact h
  | Const b x => intro h; exact h
  | Unknown d s => intro h; exact h
  | BinOp op l r ihl ihr =>
    intro h
    have hl := ihl h.1
    cases op <;> simp only [Expression.bytesize] <;> omega
  | UnOp op a ih =>
    intro h
    have ha := ih h.1
    cases op <;> simp only [Expression.bytesize] <;> omega
  | Cast op s a ih => intro h; exact h.2.1
  | Subpiece lb s a ih => intro h; exact h.2.1

/-! ### `boolOk` equations -/

theorem boolOk_binOp {σ : State} {op : BinOpType} {l r : Expression} :
    boolOk σ (.BinOp op l r) = true ↔
      boolOk σ l = true ∧ boolOk σ r = true ∧
        (isBoolOp op = true → isBoolVal (eval σ l) = true ∧ isBoolVal (eval σ r) = true) := by
  simp only [boolOk, Bool.and_eq_true, Bool.or_eq_true, Bool.not_eq_true']
  constructor
  · rintro ⟨⟨h1, h2⟩, h3⟩
    refine ⟨h1, h2, fun hop => ?_⟩
    rcases h3 with h3 | h3
    · rw [hop] at h3; cases h3
    · exact h3
  · rintro ⟨h1, h2, h3⟩
    refine ⟨⟨h1, h2⟩, ?_⟩
    cases hop : isBoolOp op
    · exact .inl rfl
    · exact .inr (h3 hop)

theorem boolOk_unOp {σ : State} {op : UnOpType} {a : Expression} : boolOk σ (.UnOp op a) = boolOk σ a := by
  simp only [boolOk]
theorem boolOk_cast {σ : State} {op : CastOpType} {s : Nat} {a : Expression} :
    boolOk σ (.Cast op s a) = boolOk σ a := by simp only [boolOk]
theorem boolOk_subpiece {σ : State} {lb s : Nat} {a : Expression} :
    boolOk σ (.Subpiece lb s a) = boolOk σ a := by simp only [boolOk]
theorem boolOk_const {σ : State} {b x : Nat} : boolOk σ (.Const b x) = true := by simp only [boolOk]

/-! ### congruence -/

theorem Sound.binOp {σ : State} {op : BinOpType} {l l' r r' : Expression}
    (hw : WellSized (.BinOp op l r)) (hl : Sound σ l l') (hr : Sound σ r r') :
    Sound σ (.BinOp op l r) (.BinOp op l' r') := by
  refine ⟨⟨hl.ws, hr.ws, ?_⟩, ?_, ?_⟩
  · rw [hl.size, hr.size]; exact hw.2.2
  · cases op <;> simp only [Expression.bytesize, hl.size, hr.size]
  · intro v hb hv
    obtain ⟨hbl, hbr, hbo⟩ := boolOk_binOp.mp hb
    obtain ⟨a, b, ha, hb', hab⟩ := eval_binOp_some.mp hv
    obtain ⟨ha', hbl'⟩ := hl.sem a hbl ha
    obtain ⟨hb'', hbr'⟩ := hr.sem b hbr hb'
    refine ⟨eval_binOp_some.mpr ⟨a, b, ha', hb'', hab⟩, boolOk_binOp.mpr ⟨hbl', hbr', fun hop => ?_⟩⟩
    have := hbo hop
    rw [ha, hb'] at this
    rw [ha', hb'']; exact this

theorem Sound.unOp {σ : State} {op : UnOpType} {a a' : Expression}
    (hw : WellSized (.UnOp op a)) (ha : Sound σ a a') : Sound σ (.UnOp op a) (.UnOp op a') := by
  refine ⟨⟨ha.ws, ?_⟩, ?_, ?_⟩
  · rw [ha.size]; exact hw.2
  · cases op <;> simp only [Expression.bytesize, ha.size]
  · intro v hb hv
    rw [boolOk_unOp] at hb
    obtain ⟨x, hx, hxv⟩ := eval_unOp_some.mp hv
    obtain ⟨hx', hb'⟩ := ha.sem x hb hx
    exact ⟨eval_unOp_some.mpr ⟨x, hx', hxv⟩, by rw [boolOk_unOp]; exact hb'⟩

theorem Sound.cast {σ : State} {op : CastOpType} {s : Nat} {a a' : Expression}
    (hw : WellSized (.Cast op s a)) (ha : Sound σ a a') : Sound σ (.Cast op s a) (.Cast op s a') := by
  refine ⟨⟨ha.ws, hw.2.1, ?_⟩, rfl, ?_⟩
  · rw [ha.size]; exact hw.2.2
  · intro v hb hv
    rw [boolOk_cast] at hb
    obtain ⟨x, hx, hxv⟩ := eval_cast_some.mp hv
    obtain ⟨hx', hb'⟩ := ha.sem x hb hx
    exact ⟨eval_cast_some.mpr ⟨x, hx', hxv⟩, by rw [boolOk_cast]; exact hb'⟩

theorem Sound.subpiece {σ : State} {lb s : Nat} {a a' : Expression}
    (hw : WellSized (.Subpiece lb s a)) (ha : Sound σ a a') : Sound σ (.Subpiece lb s a) (.Subpiece lb s a') := by
  refine ⟨⟨ha.ws, hw.2.1, ?_⟩, rfl, ?_⟩
  · rw [ha.size]; exact hw.2.2
  · intro v hb hv
    rw [boolOk_subpiece] at hb
    obtain ⟨x, hx, hxv⟩ := eval_subpiece_some.mp hv
    obtain ⟨hx', hb'⟩ := ha.sem x hb hx
    exact ⟨eval_subpiece_some.mpr ⟨x, hx', hxv⟩, by rw [boolOk_subpiece]; exact hb'⟩

/-! ### step 1: `substitute_binop_for_lhs_equal_rhs` -/

theorem ofBytes_one_one : Bv.ofBytes 1 1 = Bv.ofBool true := rfl
theorem ofBytes_one_zero : Bv.ofBytes 1 0 = Bv.ofBool false := rfl

theorem eval_const (σ : State) (b x : Nat) : eval σ (.Const b x) = some (Bv.ofBytes b x) := by simp only [eval]

/-- what evaluating `op l l` gives -/
theorem eval_same_operands {σ : State} {op : BinOpType} {l : Expression} {v : Bv}
    (hv : eval σ (.BinOp op l l) = some v) : ∃ a, eval σ l = some a ∧ Ref.binOp op a a = .val v := by
  obtain ⟨a, b, ha, hb, hab⟩ := eval_binOp_some.mp hv
  rw [ha] at hb; cases hb
  exact ⟨a, ha, hab⟩

theorem sound_lhsEqualRhs {σ : State} (hσ : StateWF σ) {e : Expression} (hw : WellSized e) :
    Sound σ e (substBinopForLhsEqualRhs e) := by
  unfold substBinopForLhsEqualRhs
  split
  · next op l r =>
    split
    · next hlr =>
      subst hlr
      obtain ⟨hwl, _, hs⟩ := hw
      have hpos := wellSized_pos hwl
      -- the three kinds of results
      have idem : (op = .IntAnd ∨ op = .IntOr ∨ op = .BoolAnd ∨ op = .BoolOr) → Sound σ (.BinOp op l l) l := by
        intro hop
        refine ⟨hwl, ?_, ?_⟩
        · rcases hop with h | h | h | h <;> subst h <;> simp only [Expression.bytesize] <;>
            (simp only [binSizesOk, binClass] at hs; omega)
        · intro v hb hv
          obtain ⟨a, ha, hab⟩ := eval_same_operands hv
          rw [ref_idem hop a] at hab; cases hab
          exact ⟨ha, (boolOk_binOp.mp hb).1⟩
      have xor : (op = .IntXOr ∨ op = .BoolXOr) → Sound σ (.BinOp op l l) (.Const l.bytesize 0) := by
        intro hop
        refine ⟨hpos, ?_, ?_⟩
        · rcases hop with h | h <;> subst h <;> simp only [Expression.bytesize] <;>
            (simp only [binSizesOk, binClass] at hs; omega)
        · intro v hb hv
          obtain ⟨a, ha, hab⟩ := eval_same_operands hv
          rw [ref_xor_self hop a] at hab; cases hab
          rw [eval_const, eval_width hσ hwl ha]
          exact ⟨rfl, boolOk_const⟩
      have cmpT : (op = .IntEqual ∨ op = .IntLessEqual ∨ op = .IntSLessEqual) → Sound σ (.BinOp op l l) (.Const 1 1) := by
        intro hop
        refine ⟨by decide, ?_, ?_⟩
        · rcases hop with h | h | h <;> subst h <;> rfl
        · intro v hb hv
          obtain ⟨a, ha, hab⟩ := eval_same_operands hv
          rw [ref_cmp_self_true hop a] at hab; cases hab
          exact ⟨by rw [eval_const, ofBytes_one_one], boolOk_const⟩
      have cmpF : (op = .IntNotEqual ∨ op = .IntLess ∨ op = .IntSLess) → Sound σ (.BinOp op l l) (.Const 1 0) := by
        intro hop
        refine ⟨by decide, ?_, ?_⟩
        · rcases hop with h | h | h <;> subst h <;> rfl
        · intro v hb hv
          obtain ⟨a, ha, hab⟩ := eval_same_operands hv
          rw [ref_cmp_self_false hop a] at hab; cases hab
          exact ⟨by rw [eval_const, ofBytes_one_zero], boolOk_const⟩
      cases op <;> first
        | exact idem (by simp)
        | exact xor (by simp)
        | exact cmpT (by simp)
        | exact cmpF (by simp)
        | exact Sound.refl ⟨hwl, hwl, hs⟩
    · exact Sound.refl hw
  · exact Sound.refl hw

/-! ### step 2: `substitute_and_xor_or_with_constant` -/

theorem ite_some_bool {α : Type} {c : Bool} {x : Option α} {y : α} (h : (if c = true then x else none) = some y) :
    c = true ∧ x = some y := by
  cases c <;> simp_all

theorem ite_some_prop {α : Type} {c : Prop} [Decidable c] {x : Option α} {y : α}
    (h : (if c then x else none) = some y) : c ∧ x = some y := by
  by_cases hc : c <;> simp_all

theorem constAndOther_spec {g : Nat → Nat → Bool} {l r : Expression} {b x : Nat} {o : Expression}
    (h : constAndOther g l r = some (b, x, o)) :
    g b x = true ∧ ((l = .Const b x ∧ o = r) ∨ (r = .Const b x ∧ o = l)) := by
  unfold constAndOther at h
  split at h
  · next b' x' =>
    split at h
    · next hg => cases h; exact ⟨hg, .inl ⟨rfl, rfl⟩⟩
    · split at h
      · next b'' x'' =>
        split at h
        · next hg => cases h; exact ⟨hg, .inr ⟨rfl, rfl⟩⟩
        · cases h
      · cases h
  · split at h
    · next b'' x'' =>
      split at h
      · next hg => cases h; exact ⟨hg, .inr ⟨rfl, rfl⟩⟩
      · cases h
    · cases h

theorem ofBytes_toNat (b x : Nat) : (Bv.ofBytes b x).toNat = cval b x := by
  simp [Bv.ofBytes, Bv.ofNat, Bv.toNat, cval]
theorem ofBytes_w (b x : Nat) : (Bv.ofBytes b x).w = 8 * b := rfl

theorem zero_of_isZeroC {b x : Nat} (h : isZeroC b x = true) : (Bv.ofBytes b x).toNat = 0 := by
  rw [ofBytes_toNat]; simpa [isZeroC] using h
theorem one_of_isOneC {b x : Nat} (h : isOneC b x = true) : (Bv.ofBytes b x).toNat = 1 := by
  rw [ofBytes_toNat]; simpa [isOneC] using h
theorem ones_of_isAllOnesC {b x : Nat} (h : isAllOnesC b x = true) :
    (Bv.ofBytes b x).toNat = 2 ^ (Bv.ofBytes b x).w - 1 := by
  rw [ofBytes_toNat, ofBytes_w]; simpa [isAllOnesC] using h

theorem isBoolVal_some {a : Bv} (h : isBoolVal (some a) = true) : a.toNat ≤ 1 := by
  simpa [isBoolVal] using h

/-- evaluation of a binary operation one of whose operands is the constant `Const b x`, the other `o` -/
theorem eval_const_other {σ : State} {op : BinOpType} {l r o : Expression} {b x : Nat} {v : Bv}
    (hc : (l = .Const b x ∧ o = r) ∨ (r = .Const b x ∧ o = l))
    (hv : eval σ (.BinOp op l r) = some v) :
    ∃ a, eval σ o = some a ∧
      (Ref.binOp op (Bv.ofBytes b x) a = .val v ∨ Ref.binOp op a (Bv.ofBytes b x) = .val v) := by
  obtain ⟨a, c, ha, hc', hac⟩ := eval_binOp_some.mp hv
  rcases hc with ⟨rfl, rfl⟩ | ⟨rfl, rfl⟩
  · rw [eval_const] at ha; cases ha; exact ⟨c, hc', .inl hac⟩
  · rw [eval_const] at hc'; cases hc'; exact ⟨a, ha, .inr hac⟩

theorem sizes_const_other {op : BinOpType} {l r o : Expression} {b x : Nat}
    (hs : binSizesOk op l.bytesize r.bytesize)
    (hc : (l = .Const b x ∧ o = r) ∨ (r = .Const b x ∧ o = l))
    (hop : op = .IntOr ∨ op = .IntXOr ∨ op = .BoolOr ∨ op = .BoolXOr ∨ op = .IntAnd ∨ op = .BoolAnd) :
    o.bytesize = (Expression.BinOp op l r).bytesize ∧ b = (Expression.BinOp op l r).bytesize := by
  rcases hc with ⟨rfl, rfl⟩ | ⟨rfl, rfl⟩ <;>
    rcases hop with h | h | h | h | h | h <;> subst h <;>
    simp only [binSizesOk, binClass, Expression.bytesize] at hs ⊢ <;>
    (constructor <;> first | trivial | omega)

/-- the facts every arm of step 2 needs about "the other operand" -/
structure ConstOther (σ : State) (op : BinOpType) (l r : Expression) (b x : Nat) (o : Expression) : Prop where
  wo : WellSized o
  wc : WellSized (.Const b x)
  bo : boolOk σ (.BinOp op l r) = true → boolOk σ o = true
  bv : ∀ {a}, isBoolOp op = true → boolOk σ (.BinOp op l r) = true → eval σ o = some a → a.toNat ≤ 1
  ev : ∀ {v}, eval σ (.BinOp op l r) = some v → ∃ a, eval σ o = some a ∧
      (Ref.binOp op (Bv.ofBytes b x) a = .val v ∨ Ref.binOp op a (Bv.ofBytes b x) = .val v)

theorem constOther_of {σ : State} {op : BinOpType} {l r o : Expression} {b x : Nat}
    (hw : WellSized (.BinOp op l r)) (hc : (l = .Const b x ∧ o = r) ∨ (r = .Const b x ∧ o = l)) :
    ConstOther σ op l r b x o := by
  obtain ⟨hwl, hwr, _⟩ := hw
  refine ⟨?_, ?_, ?_, ?_, fun hv => eval_const_other hc hv⟩
  · rcases hc with ⟨_, rfl⟩ | ⟨_, rfl⟩ <;> assumption
  · rcases hc with ⟨rfl, _⟩ | ⟨rfl, _⟩ <;> assumption
  · intro hb
    have := boolOk_binOp.mp hb
    rcases hc with ⟨_, rfl⟩ | ⟨_, rfl⟩
    · exact this.2.1
    · exact this.1
  · intro a hop hb ha
    have := (boolOk_binOp.mp hb).2.2 hop
    rcases hc with ⟨_, rfl⟩ | ⟨_, rfl⟩
    · rw [ha] at this; exact isBoolVal_some this.2
    · rw [ha] at this; exact isBoolVal_some this.1

theorem arm_orxor_zero {σ : State} {op : BinOpType} {l r o : Expression} {b x : Nat}
    (hw : WellSized (.BinOp op l r)) (hc : (l = .Const b x ∧ o = r) ∨ (r = .Const b x ∧ o = l))
    (hop : op = .IntOr ∨ op = .IntXOr ∨ op = .BoolOr ∨ op = .BoolXOr) (hg : isZeroC b x = true) :
    Sound σ (.BinOp op l r) o := by
  have C := constOther_of (σ := σ) hw hc
  refine ⟨C.wo, (sizes_const_other hw.2.2 hc (by rcases hop with h | h | h | h <;> simp [h])).1, fun v hb hv => ?_⟩
  obtain ⟨a, ha, hr⟩ := C.ev hv
  have hz := zero_of_isZeroC hg
  rcases hr with hr | hr
  · rw [ref_orxor_zero_left hop hz hr]; exact ⟨ha, C.bo hb⟩
  · rw [ref_orxor_zero_right hop hz hr]; exact ⟨ha, C.bo hb⟩

theorem arm_and_ones {σ : State} {op : BinOpType} {l r o : Expression} {b x : Nat}
    (hw : WellSized (.BinOp op l r)) (hc : (l = .Const b x ∧ o = r) ∨ (r = .Const b x ∧ o = l))
    (hop : op = .IntAnd ∨ op = .BoolAnd) (hg : isAllOnesC b x = true) :
    Sound σ (.BinOp op l r) o := by
  have C := constOther_of (σ := σ) hw hc
  refine ⟨C.wo, (sizes_const_other hw.2.2 hc (by rcases hop with h | h <;> simp [h])).1, fun v hb hv => ?_⟩
  obtain ⟨a, ha, hr⟩ := C.ev hv
  have hz := ones_of_isAllOnesC hg
  rcases hr with hr | hr
  · rw [ref_and_ones_left hop hz hr]; exact ⟨ha, C.bo hb⟩
  · rw [ref_and_ones_right hop hz hr]; exact ⟨ha, C.bo hb⟩

theorem arm_booland_zero {σ : State} {l r o : Expression} {b x : Nat}
    (hw : WellSized (.BinOp .BoolAnd l r)) (hc : (l = .Const b x ∧ o = r) ∨ (r = .Const b x ∧ o = l))
    (hg : isZeroC b x = true) : Sound σ (.BinOp .BoolAnd l r) (.Const b x) := by
  have C := constOther_of (σ := σ) hw hc
  refine ⟨C.wc, (sizes_const_other hw.2.2 hc (by simp)).2, fun v hb hv => ?_⟩
  obtain ⟨a, ha, hr⟩ := C.ev hv
  have hz := zero_of_isZeroC hg
  rcases hr with hr | hr
  · rw [ref_booland_zero_left hz hr]; exact ⟨eval_const _ _ _, boolOk_const⟩
  · rw [ref_booland_zero_right hz hr]; exact ⟨eval_const _ _ _, boolOk_const⟩

theorem arm_booland_one {σ : State} {l r o : Expression} {b x : Nat}
    (hw : WellSized (.BinOp .BoolAnd l r)) (hc : (l = .Const b x ∧ o = r) ∨ (r = .Const b x ∧ o = l))
    (hg : isOneC b x = true) : Sound σ (.BinOp .BoolAnd l r) o := by
  have C := constOther_of (σ := σ) hw hc
  refine ⟨C.wo, (sizes_const_other hw.2.2 hc (by simp)).1, fun v hb hv => ?_⟩
  obtain ⟨a, ha, hr⟩ := C.ev hv
  have hz := one_of_isOneC hg
  have hab := C.bv rfl hb ha
  rcases hr with hr | hr
  · rw [ref_booland_one_left hz hab hr]; exact ⟨ha, C.bo hb⟩
  · rw [ref_booland_one_right hz hab hr]; exact ⟨ha, C.bo hb⟩

theorem arm_boolor_one {σ : State} {l r o : Expression} {b x : Nat}
    (hw : WellSized (.BinOp .BoolOr l r)) (hc : (l = .Const b x ∧ o = r) ∨ (r = .Const b x ∧ o = l))
    (hg : isOneC b x = true) : Sound σ (.BinOp .BoolOr l r) (.Const b x) := by
  have C := constOther_of (σ := σ) hw hc
  refine ⟨C.wc, (sizes_const_other hw.2.2 hc (by simp)).2, fun v hb hv => ?_⟩
  obtain ⟨a, ha, hr⟩ := C.ev hv
  have hz := one_of_isOneC hg
  have hab := C.bv rfl hb ha
  rcases hr with hr | hr
  · rw [ref_boolor_one_left hz hab hr]; exact ⟨eval_const _ _ _, boolOk_const⟩
  · rw [ref_boolor_one_right hz hab hr]; exact ⟨eval_const _ _ _, boolOk_const⟩

theorem arm_boolxor_one {σ : State} (hσ : StateWF σ) {l r o : Expression} {b x : Nat}
    (hw : WellSized (.BinOp .BoolXOr l r)) (hc : (l = .Const b x ∧ o = r) ∨ (r = .Const b x ∧ o = l))
    (hg : isOneC b x = true) : Sound σ (.BinOp .BoolXOr l r) (.UnOp .BoolNegate o) := by
  have C := constOther_of (σ := σ) hw hc
  have hsz := (sizes_const_other hw.2.2 hc (by simp)).1
  have ho1 : o.bytesize = 1 := hsz
  refine ⟨⟨C.wo, ho1⟩, hsz, fun v hb hv => ?_⟩
  obtain ⟨a, ha, hr⟩ := C.ev hv
  have hz := one_of_isOneC hg
  have hab := C.bv rfl hb ha
  have hw8 : a.w = 8 := by rw [eval_width hσ C.wo ha, ho1]
  refine ⟨eval_unOp_some.mpr ⟨a, ha, ?_⟩, by rw [boolOk_unOp]; exact C.bo hb⟩
  rcases hr with hr | hr
  · exact ref_boolxor_one_left hz hab hw8 hr
  · exact ref_boolxor_one_right hz hab hw8 hr

theorem sound_andXorOrWithConstant {σ : State} (hσ : StateWF σ) {e : Expression} (hw : WellSized e) :
    Sound σ e (substAndXorOrWithConstant e) := by
  unfold substAndXorOrWithConstant
  split
  · next op l r =>
    split
    · next b x o hm =>
      obtain ⟨hop, hm⟩ := ite_some_bool hm
      obtain ⟨hg, hc⟩ := constAndOther_spec hm
      exact arm_orxor_zero hw hc (by cases op <;> simp_all [isOrXorOp]) hg
    · split
      · next b x o hm =>
        obtain ⟨hop, hm⟩ := ite_some_bool hm
        obtain ⟨hg, hc⟩ := constAndOther_spec hm
        exact arm_and_ones hw hc (by cases op <;> simp_all [isAndOp]) hg
      · split
        · next b x o hm =>
          obtain ⟨hop, hm⟩ := ite_some_prop hm
          obtain ⟨hg, hc⟩ := constAndOther_spec hm
          subst hop
          exact arm_booland_zero hw hc hg
        · split
          · next b x o hm =>
            obtain ⟨hop, hm⟩ := ite_some_prop hm
            obtain ⟨hg, hc⟩ := constAndOther_spec hm
            subst hop
            exact arm_booland_one hw hc hg
          · split
            · next b x o hm =>
              obtain ⟨hop, hm⟩ := ite_some_prop hm
              obtain ⟨hg, hc⟩ := constAndOther_spec hm
              subst hop
              exact arm_boolor_one hw hc hg
            · split
              · next b x o hm =>
                obtain ⟨hop, hm⟩ := ite_some_prop hm
                obtain ⟨hg, hc⟩ := constAndOther_spec hm
                subst hop
                exact arm_boolxor_one hσ hw hc hg
              · exact Sound.refl hw
  · exact Sound.refl hw

/-! ### step 3: `substitute_equivalent_comparison_ops` -/

theorem ref_same_width {op : BinOpType} (hop : binClass op = .same) {a b r : Bv}
    (h : Ref.binOp op a b = .val r) : a.w = b.w := by
  cases op <;> simp only [binClass, reduceCtorEq] at hop <;> simp only [Ref.binOp] at h <;>
    first
    | exact sameW_val h
    | (split at h
       · cases h
       · exact sameW_val h)
    | cases h

theorem ref_bool_width {op : BinOpType} (hop : binClass op = .bool) {a b r : Bv}
    (h : Ref.binOp op a b = .val r) : a.w = b.w := by
  cases op <;> simp only [binClass, reduceCtorEq] at hop <;> simp only [Ref.binOp] at h <;> exact sameW_val h

/-- the four "pair of comparisons" rules -/
inductive PairRule : BinOpType → BinOpType → BinOpType → BinOpType → Prop where
  | sle : PairRule .BoolOr .IntSLess .IntEqual .IntSLessEqual
  | ule : PairRule .BoolOr .IntLess .IntEqual .IntLessEqual
  | ult : PairRule .BoolAnd .IntLessEqual .IntNotEqual .IntLess
  | slt : PairRule .BoolAnd .IntSLessEqual .IntNotEqual .IntSLess

theorem ref_pair_rule {outer opA opB newop : BinOpType} (hrule : PairRule outer opA opB newop)
    {va vb p q v : Bv}
    (hA : Ref.binOp opA va vb = .val p)
    (hB : Ref.binOp opB va vb = .val q ∨ Ref.binOp opB vb va = .val q)
    (hO : Ref.binOp outer p q = .val v ∨ Ref.binOp outer q p = .val v) :
    Ref.binOp newop va vb = .val v := by
  obtain ⟨w, x⟩ := va
  obtain ⟨w2, y⟩ := vb
  have hw : w = w2 := by cases hrule <;> exact ref_same_width rfl hA
  subst hw
  cases hrule
  all_goals
    have hp := ref_cmp_inv rfl rfl rfl hA
    subst hp
  · -- sle
    have hq' : q = Bv.ofBool (Ref.eq x y) := by
      rcases hB with hB | hB
      · exact ref_cmp_inv rfl rfl rfl hB
      · rw [ref_eq_comm]; exact ref_cmp_inv rfl rfl rfl hB
    subst hq'
    rw [ref_boolor_ofBool, ref_boolor_ofBool, Bool.or_comm (Ref.eq x y)] at hO
    have : v = Bv.ofBool (Ref.sless x y || Ref.eq x y) := by rcases hO with h | h <;> (injection h with h; exact h.symm)
    rw [this, ref_sless_or_eq]; exact ref_cmp_intro rfl
  · have hq' : q = Bv.ofBool (Ref.eq x y) := by
      rcases hB with hB | hB
      · exact ref_cmp_inv rfl rfl rfl hB
      · rw [ref_eq_comm]; exact ref_cmp_inv rfl rfl rfl hB
    subst hq'
    rw [ref_boolor_ofBool, ref_boolor_ofBool, Bool.or_comm (Ref.eq x y)] at hO
    have : v = Bv.ofBool (Ref.less x y || Ref.eq x y) := by rcases hO with h | h <;> (injection h with h; exact h.symm)
    rw [this, ref_less_or_eq]; exact ref_cmp_intro rfl
  · have hq' : q = Bv.ofBool (!Ref.eq x y) := by
      rcases hB with hB | hB
      · exact ref_cmp_inv rfl rfl rfl hB
      · rw [ref_eq_comm]; exact ref_cmp_inv rfl rfl rfl hB
    subst hq'
    rw [ref_booland_ofBool, ref_booland_ofBool, Bool.and_comm (!Ref.eq x y)] at hO
    have : v = Bv.ofBool (Ref.lessEq x y && !Ref.eq x y) := by rcases hO with h | h <;> (injection h with h; exact h.symm)
    rw [this, ref_lessEq_and_ne]; exact ref_cmp_intro rfl
  · have hq' : q = Bv.ofBool (!Ref.eq x y) := by
      rcases hB with hB | hB
      · exact ref_cmp_inv rfl rfl rfl hB
      · rw [ref_eq_comm]; exact ref_cmp_inv rfl rfl rfl hB
    subst hq'
    rw [ref_booland_ofBool, ref_booland_ofBool, Bool.and_comm (!Ref.eq x y)] at hO
    have : v = Bv.ofBool (Ref.slessEq x y && !Ref.eq x y) := by rcases hO with h | h <;> (injection h with h; exact h.symm)
    rw [this, ref_slessEq_and_ne]; exact ref_cmp_intro rfl

theorem ref_cmp_zero_sub {op : BinOpType} (hop : op = .IntEqual ∨ op = .IntNotEqual) {z a b d v : Bv}
    (hz : z.toNat = 0) (hs : Ref.binOp .IntSub a b = .val d)
    (hc : Ref.binOp op z d = .val v ∨ Ref.binOp op d z = .val v) : Ref.binOp op a b = .val v := by
  obtain ⟨w, x⟩ := a
  obtain ⟨w2, y⟩ := b
  have hw : w = w2 := ref_same_width rfl hs
  subst hw
  simp only [Ref.binOp, sameW_mk, valV] at hs
  injection hs with hs; subst hs
  obtain ⟨zw, zv⟩ := z
  have hzw : zw = w := by
    rcases hop with h | h <;> subst h <;> rcases hc with hc | hc
    · exact ref_same_width rfl hc
    · exact (ref_same_width rfl hc).symm
    · exact ref_same_width rfl hc
    · exact (ref_same_width rfl hc).symm
  subst hzw
  simp only [Bv.toNat] at hz
  have hz0 := bv_zero_of_toNat hz
  subst hz0
  rcases hop with h | h <;> subst h <;> rcases hc with hc | hc
  · rw [ref_cmp_inv rfl rfl rfl hc]; simp only [ref_eq_zero_sub]; exact ref_cmp_intro rfl
  · rw [ref_cmp_inv rfl rfl rfl hc]; simp only [ref_eq_sub_zero]; exact ref_cmp_intro rfl
  · rw [ref_cmp_inv rfl rfl rfl hc]; simp only [ref_eq_zero_sub]; exact ref_cmp_intro rfl
  · rw [ref_cmp_inv rfl rfl rfl hc]; simp only [ref_eq_sub_zero]; exact ref_cmp_intro rfl


theorem constAndSub_spec {g : Nat → Nat → Bool} {l r il ir : Expression} {b x : Nat}
    (h : constAndSub g l r = some (b, x, il, ir)) :
    g b x = true ∧ ((l = .Const b x ∧ r = .BinOp .IntSub il ir) ∨ (l = .BinOp .IntSub il ir ∧ r = .Const b x)) := by
  unfold constAndSub at h
  split at h
  · split at h
    · next hg => cases h; exact ⟨hg, .inl ⟨rfl, rfl⟩⟩
    · cases h
  · split at h
    · next hg => cases h; exact ⟨hg, .inr ⟨rfl, rfl⟩⟩
    · cases h
  · cases h

theorem pairOf_spec {opA opB : BinOpType} {l r a b : Expression} (h : pairOf opA opB l r = some (a, b)) :
    ∃ c d, ((a = c ∧ b = d) ∨ (a = d ∧ b = c)) ∧
      ((l = .BinOp opA a b ∧ r = .BinOp opB c d) ∨ (l = .BinOp opB c d ∧ r = .BinOp opA a b)) := by
  unfold pairOf at h
  simp only at h
  split at h
  · next p hp =>
    cases h
    split at hp
    · next o₁ aL aR o₂ bL bR =>
      split at hp
      · next hc =>
        cases hp
        obtain ⟨rfl, rfl, hg⟩ := hc
        refine ⟨bL, bR, ?_, .inl ⟨rfl, rfl⟩⟩
        simpa using hg
      · cases hp
    · cases hp
  · split at h
    · next o₁ bL bR o₂ aL aR _ =>
      split at h
      · next hc =>
        cases h
        obtain ⟨rfl, rfl, hg⟩ := hc
        refine ⟨bL, bR, ?_, .inr ⟨rfl, rfl⟩⟩
        simpa using hg
      · cases h
    · cases h

theorem arm_cmp_zero_sub {σ : State} {op : BinOpType} {l r il ir : Expression} {b x : Nat}
    (hw : WellSized (.BinOp op l r)) (hop : op = .IntEqual ∨ op = .IntNotEqual) (hg : isZeroC b x = true)
    (hc : (l = .Const b x ∧ r = .BinOp .IntSub il ir) ∨ (l = .BinOp .IntSub il ir ∧ r = .Const b x)) :
    Sound σ (.BinOp op l r) (.BinOp op il ir) := by
  have hsub : WellSized (.BinOp .IntSub il ir) := by
    rcases hc with ⟨rfl, rfl⟩ | ⟨rfl, rfl⟩
    · exact hw.2.1
    · exact hw.1
  obtain ⟨hwi, hwj, hsz⟩ := hsub
  have hsz' : il.bytesize = ir.bytesize := hsz
  refine ⟨⟨hwi, hwj, ?_⟩, ?_, fun v hb hv => ?_⟩
  · rcases hop with h | h <;> subst h <;> exact hsz'
  · rcases hop with h | h <;> subst h <;> rfl
  · have hz := zero_of_isZeroC hg
    obtain ⟨hbl, hbr, _⟩ := boolOk_binOp.mp hb
    obtain ⟨va, vb, ha, hb', hab⟩ := eval_binOp_some.mp hv
    have hnb : isBoolOp op = false := by rcases hop with h | h <;> subst h <;> rfl
    rcases hc with ⟨rfl, rfl⟩ | ⟨rfl, rfl⟩
    · rw [eval_const] at ha; cases ha
      obtain ⟨x₁, x₂, h1, h2, h12⟩ := eval_binOp_some.mp hb'
      obtain ⟨hb1, hb2, _⟩ := boolOk_binOp.mp hbr
      exact ⟨eval_binOp_some.mpr ⟨x₁, x₂, h1, h2, ref_cmp_zero_sub hop hz h12 (.inl hab)⟩,
        boolOk_binOp.mpr ⟨hb1, hb2, fun h => by rw [hnb] at h; cases h⟩⟩
    · rw [eval_const] at hb'; cases hb'
      obtain ⟨x₁, x₂, h1, h2, h12⟩ := eval_binOp_some.mp ha
      obtain ⟨hb1, hb2, _⟩ := boolOk_binOp.mp hbl
      exact ⟨eval_binOp_some.mpr ⟨x₁, x₂, h1, h2, ref_cmp_zero_sub hop hz h12 (.inr hab)⟩,
        boolOk_binOp.mpr ⟨hb1, hb2, fun h => by rw [hnb] at h; cases h⟩⟩

theorem pairRule_classes {outer opA opB newop : BinOpType} (h : PairRule outer opA opB newop) :
    binClass opA = .same ∧ binClass newop = .same ∧ isBoolOp opA = false ∧ isBoolOp newop = false ∧
    (Expression.BinOp outer (.Var default) (.Var default)).bytesize = 1 ∧
    (Expression.BinOp newop (.Var default) (.Var default)).bytesize = 1 := by
  cases h <;> exact ⟨rfl, rfl, rfl, rfl, rfl, rfl⟩

theorem arm_pair {σ : State} {outer opA opB newop : BinOpType} (hrule : PairRule outer opA opB newop)
    {l r a b c d : Expression} (hw : WellSized (.BinOp outer l r))
    (hcd : (a = c ∧ b = d) ∨ (a = d ∧ b = c))
    (hlr : (l = .BinOp opA a b ∧ r = .BinOp opB c d) ∨ (l = .BinOp opB c d ∧ r = .BinOp opA a b)) :
    Sound σ (.BinOp outer l r) (.BinOp newop a b) := by
  have hA : WellSized (.BinOp opA a b) := by
    rcases hlr with ⟨rfl, rfl⟩ | ⟨rfl, rfl⟩
    · exact hw.1
    · exact hw.2.1
  obtain ⟨hwa, hwb, hsz⟩ := hA
  have hsz' : a.bytesize = b.bytesize := by cases hrule <;> exact hsz
  refine ⟨⟨hwa, hwb, by cases hrule <;> exact hsz'⟩, by cases hrule <;> rfl, fun v hb hv => ?_⟩
  obtain ⟨hbl, hbr, _⟩ := boolOk_binOp.mp hb
  obtain ⟨vl, vr, hl, hr, hlrv⟩ := eval_binOp_some.mp hv
  have hnb : isBoolOp newop = false := by cases hrule <;> rfl
  -- values of the two comparisons
  have key : ∃ va vb p q, eval σ a = some va ∧ eval σ b = some vb ∧ boolOk σ a = true ∧ boolOk σ b = true ∧
      Ref.binOp opA va vb = .val p ∧
      (Ref.binOp opB va vb = .val q ∨ Ref.binOp opB vb va = .val q) ∧
      (Ref.binOp outer p q = .val v ∨ Ref.binOp outer q p = .val v) := by
    rcases hlr with ⟨rfl, rfl⟩ | ⟨rfl, rfl⟩
    · obtain ⟨va, vb, h1, h2, h12⟩ := eval_binOp_some.mp hl
      obtain ⟨vc, vd, h3, h4, h34⟩ := eval_binOp_some.mp hr
      obtain ⟨hb1, hb2, _⟩ := boolOk_binOp.mp hbl
      refine ⟨va, vb, vl, vr, h1, h2, hb1, hb2, h12, ?_, .inl hlrv⟩
      rcases hcd with ⟨rfl, rfl⟩ | ⟨rfl, rfl⟩
      · rw [h1] at h3; rw [h2] at h4; cases h3; cases h4; exact .inl h34
      · rw [h2] at h3; rw [h1] at h4; cases h3; cases h4; exact .inr h34
    · obtain ⟨va, vb, h1, h2, h12⟩ := eval_binOp_some.mp hr
      obtain ⟨vc, vd, h3, h4, h34⟩ := eval_binOp_some.mp hl
      obtain ⟨hb1, hb2, _⟩ := boolOk_binOp.mp hbr
      refine ⟨va, vb, vr, vl, h1, h2, hb1, hb2, h12, ?_, .inr hlrv⟩
      rcases hcd with ⟨rfl, rfl⟩ | ⟨rfl, rfl⟩
      · rw [h1] at h3; rw [h2] at h4; cases h3; cases h4; exact .inl h34
      · rw [h2] at h3; rw [h1] at h4; cases h3; cases h4; exact .inr h34
  obtain ⟨va, vb, p, q, h1, h2, hb1, hb2, hA, hB, hO⟩ := key
  exact ⟨eval_binOp_some.mpr ⟨va, vb, h1, h2, ref_pair_rule hrule hA hB hO⟩,
    boolOk_binOp.mpr ⟨hb1, hb2, fun h => by rw [hnb] at h; cases h⟩⟩

theorem sound_equivalentComparisonOps {σ : State} {e : Expression} (hw : WellSized e) :
    Sound σ e (substEquivalentComparisonOps e) := by
  unfold substEquivalentComparisonOps
  split
  · next op l r =>
    split
    · next b x il ir hm =>
      obtain ⟨hop, hm⟩ := ite_some_prop hm
      obtain ⟨hg, hc⟩ := constAndSub_spec hm
      exact arm_cmp_zero_sub hw hop hg hc
    · split
      · next a b hm =>
        obtain ⟨hop, hm⟩ := ite_some_prop hm
        obtain ⟨c, d, hcd, hlr⟩ := pairOf_spec hm
        subst hop
        exact arm_pair .sle hw hcd hlr
      · split
        · next a b hm =>
          obtain ⟨hop, hm⟩ := ite_some_prop hm
          obtain ⟨c, d, hcd, hlr⟩ := pairOf_spec hm
          subst hop
          exact arm_pair .ule hw hcd hlr
        · split
          · next a b hm =>
            obtain ⟨hop, hm⟩ := ite_some_prop hm
            obtain ⟨c, d, hcd, hlr⟩ := pairOf_spec hm
            subst hop
            exact arm_pair .ult hw hcd hlr
          · split
            · next a b hm =>
              obtain ⟨hop, hm⟩ := ite_some_prop hm
              obtain ⟨c, d, hcd, hlr⟩ := pairOf_spec hm
              subst hop
              exact arm_pair .slt hw hcd hlr
            · exact Sound.refl hw
  · exact Sound.refl hw

/-! ### step 4: `substitute_complicated_a_less_than_b` -/

theorem ref_sless_idiom {va vb d z p q v : Bv} (hpos : 0 < va.w) (hz : z.toNat = 0)
    (hs : Ref.binOp .IntSub va vb = .val d) (hl : Ref.binOp .IntSLess d z = .val p)
    (hq : Ref.binOp .IntSBorrow va vb = .val q) :
    ((Ref.binOp .IntNotEqual p q = .val v ∨ Ref.binOp .IntNotEqual q p = .val v) →
        Ref.binOp .IntSLess va vb = .val v) ∧
    ((Ref.binOp .IntEqual p q = .val v ∨ Ref.binOp .IntEqual q p = .val v) →
        Ref.binOp .IntSLessEqual vb va = .val v) := by
  obtain ⟨w, x⟩ := va
  obtain ⟨w2, y⟩ := vb
  have hw : w = w2 := ref_same_width rfl hs
  subst hw
  simp only [Ref.binOp, sameW_mk, valV] at hs
  injection hs with hs; subst hs
  obtain ⟨zw, zv⟩ := z
  have hzw : w = zw := ref_same_width rfl hl
  subst hzw
  simp only [Bv.toNat] at hz
  have hz0 := bv_zero_of_toNat hz
  subst hz0
  have hp := ref_cmp_inv rfl rfl rfl hl
  have hq' := ref_cmp_inv rfl rfl rfl hq
  subst hp hq'
  simp only at hpos
  constructor
  · intro h
    rw [ref_ne_ofBool, ref_ne_ofBool] at h
    have hv : v = Bv.ofBool (Ref.sless (Ref.sub x y) (0#w) != Ref.sborrow x y) := by
      rcases h with h | h
      · injection h with h; exact h.symm
      · injection h with h; rw [← h]; congr 1
        cases Ref.sless (Ref.sub x y) (0#w) <;> cases Ref.sborrow x y <;> rfl
    rw [hv, sless_sub_xor_sborrow hpos]; exact ref_cmp_intro rfl
  · intro h
    rw [ref_eq_ofBool, ref_eq_ofBool] at h
    have hv : v = Bv.ofBool (Ref.sless (Ref.sub x y) (0#w) == Ref.sborrow x y) := by
      rcases h with h | h
      · injection h with h; exact h.symm
      · injection h with h; rw [← h]; congr 1
        cases Ref.sless (Ref.sub x y) (0#w) <;> cases Ref.sborrow x y <;> rfl
    rw [hv, sless_sub_eq_sborrow hpos]; exact ref_cmp_intro rfl

theorem unpackLess_spec {e a b : Expression} (h : unpackAMinusBLessThanZero e = some (a, b)) :
    ∃ cb cx, e = .BinOp .IntSLess (.BinOp .IntSub a b) (.Const cb cx) ∧ isZeroC cb cx = true := by
  unfold unpackAMinusBLessThanZero at h
  split at h
  · next a' b' cb cx =>
    split at h
    · next hz => cases h; exact ⟨cb, cx, rfl, hz⟩
    · cases h
  · cases h

theorem unpackBorrow_spec {e a b : Expression} (h : unpackAIntSBorrowB e = some (a, b)) :
    e = .BinOp .IntSBorrow a b := by
  unfold unpackAIntSBorrowB at h
  split at h
  · cases h; rfl
  · cases h

/-- the shape the rule recognises: one operand is `(a - b) <s 0`, the other `a sborrow b` -/
def IsLessIdiom (l r a b : Expression) : Prop :=
  ∃ cb cx, isZeroC cb cx = true ∧
    ((l = .BinOp .IntSLess (.BinOp .IntSub a b) (.Const cb cx) ∧ r = .BinOp .IntSBorrow a b) ∨
     (l = .BinOp .IntSBorrow a b ∧ r = .BinOp .IntSLess (.BinOp .IntSub a b) (.Const cb cx)))

theorem arm_lessIdiom {σ : State} (hσ : StateWF σ) {op : BinOpType} {l r a b : Expression}
    (hw : WellSized (.BinOp op l r)) (hop : op = .IntNotEqual ∨ op = .IntEqual) (hi : IsLessIdiom l r a b) :
    Sound σ (.BinOp op l r) (if op = .IntNotEqual then .BinOp .IntSLess a b else .BinOp .IntSLessEqual b a) := by
  obtain ⟨cb, cx, hz0, hlr⟩ := hi
  have hB : WellSized (.BinOp .IntSBorrow a b) := by
    rcases hlr with ⟨rfl, rfl⟩ | ⟨rfl, rfl⟩
    · exact hw.2.1
    · exact hw.1
  obtain ⟨hwa, hwb, hsz⟩ := hB
  have hsz' : a.bytesize = b.bytesize := hsz
  have hz := zero_of_isZeroC hz0
  refine ⟨?_, ?_, fun v hb hv => ?_⟩
  · rcases hop with h | h <;> subst h
    · exact ⟨hwa, hwb, hsz'⟩
    · exact ⟨hwb, hwa, hsz'.symm⟩
  · rcases hop with h | h <;> subst h <;> rfl
  · obtain ⟨hbl, hbr, _⟩ := boolOk_binOp.mp hb
    obtain ⟨vl, vr, hl, hr, hlrv⟩ := eval_binOp_some.mp hv
    have key : ∃ va vb d p q, eval σ a = some va ∧ eval σ b = some vb ∧ boolOk σ a = true ∧ boolOk σ b = true ∧
        Ref.binOp .IntSub va vb = .val d ∧ Ref.binOp .IntSLess d (Bv.ofBytes cb cx) = .val p ∧
        Ref.binOp .IntSBorrow va vb = .val q ∧ (Ref.binOp op p q = .val v ∨ Ref.binOp op q p = .val v) := by
      rcases hlr with ⟨rfl, rfl⟩ | ⟨rfl, rfl⟩
      · obtain ⟨d, z, hd, hzc, hdz⟩ := eval_binOp_some.mp hl
        rw [eval_const] at hzc; cases hzc
        obtain ⟨va, vb, h1, h2, h12⟩ := eval_binOp_some.mp hd
        obtain ⟨va', vb', h1', h2', hq⟩ := eval_binOp_some.mp hr
        rw [h1] at h1'; rw [h2] at h2'; cases h1'; cases h2'
        obtain ⟨hb1, hb2, _⟩ := boolOk_binOp.mp hbr
        exact ⟨va, vb, d, vl, vr, h1, h2, hb1, hb2, h12, hdz, hq, .inl hlrv⟩
      · obtain ⟨d, z, hd, hzc, hdz⟩ := eval_binOp_some.mp hr
        rw [eval_const] at hzc; cases hzc
        obtain ⟨va, vb, h1, h2, h12⟩ := eval_binOp_some.mp hd
        obtain ⟨va', vb', h1', h2', hq⟩ := eval_binOp_some.mp hl
        rw [h1] at h1'; rw [h2] at h2'; cases h1'; cases h2'
        obtain ⟨hb1, hb2, _⟩ := boolOk_binOp.mp hbl
        exact ⟨va, vb, d, vr, vl, h1, h2, hb1, hb2, h12, hdz, hq, .inr hlrv⟩
    obtain ⟨va, vb, d, p, q, h1, h2, hb1, hb2, hs, hl', hq, hO⟩ := key
    have hpos : 0 < va.w := by
      rw [eval_width hσ hwa h1]; have := wellSized_pos hwa; omega
    have idiom := ref_sless_idiom (v := v) hpos hz hs hl' hq
    rcases hop with h | h <;> subst h
    · simp only [if_true]
      exact ⟨eval_binOp_some.mpr ⟨va, vb, h1, h2, idiom.1 hO⟩,
        boolOk_binOp.mpr ⟨hb1, hb2, fun h => by cases h⟩⟩
    · simp only [reduceCtorEq, if_false]
      exact ⟨eval_binOp_some.mpr ⟨vb, va, h2, h1, idiom.2 hO⟩,
        boolOk_binOp.mpr ⟨hb2, hb1, fun h => by cases h⟩⟩

theorem sound_complicatedALessThanB {σ : State} (hσ : StateWF σ) {e : Expression} (hw : WellSized e) :
    Sound σ e (substComplicatedALessThanB e) := by
  unfold substComplicatedALessThanB
  split
  · next op l r =>
    split
    · next hop =>
      simp only
      split
      · next a b hab =>
        have hi : IsLessIdiom l r a b := by
          split at hab
          · next a₁ b₁ h1 =>
            split at hab
            · next a₂ b₂ h2 =>
              split at hab
              · next he =>
                cases hab
                obtain ⟨rfl, rfl⟩ := he
                obtain ⟨cb, cx, hl, hz⟩ := unpackLess_spec h1
                exact ⟨cb, cx, hz, .inl ⟨hl, unpackBorrow_spec h2⟩⟩
              · cases hab
            · cases hab
          · split at hab
            · next a₁ b₁ h1 =>
              split at hab
              · next a₂ b₂ h2 =>
                split at hab
                · next he =>
                  cases hab
                  obtain ⟨rfl, rfl⟩ := he
                  obtain ⟨cb, cx, hr, hz⟩ := unpackLess_spec h2
                  exact ⟨cb, cx, hz, .inr ⟨unpackBorrow_spec h1, hr⟩⟩
                · cases hab
              · cases hab
            · cases hab
        exact arm_lessIdiom hσ hw hop hi
      · exact Sound.refl hw
    · exact Sound.refl hw
  · exact Sound.refl hw

/-! ### step 5: `substitute_arithmetics_with_constants` -/

theorem bv_sub_sub {w : Nat} (x a b : BitVec w) : x - a - b = x - (a + b) := by
  rw [BitVec.sub_eq_add_neg, BitVec.sub_eq_add_neg, BitVec.sub_eq_add_neg, BitVec.neg_add, BitVec.add_assoc,
    BitVec.sub_eq_add_neg]

theorem ref_add_mk {w : Nat} (x y : BitVec w) : Ref.binOp .IntAdd ⟨w, x⟩ ⟨w, y⟩ = .val ⟨w, x + y⟩ := by
  simp only [Ref.binOp, sameW_mk, valV, C01.add_eq]
theorem ref_sub_mk {w : Nat} (x y : BitVec w) : Ref.binOp .IntSub ⟨w, x⟩ ⟨w, y⟩ = .val ⟨w, x - y⟩ := by
  simp only [Ref.binOp, sameW_mk, valV, C01.sub_eq]

theorem ref_assoc_sub {x m r t v c : Bv} (h1 : Ref.binOp .IntSub x m = .val t)
    (h2 : Ref.binOp .IntSub t r = .val v) (h3 : Ref.binOp .IntAdd m r = .val c) :
    Ref.binOp .IntSub x c = .val v := by
  obtain ⟨w, xv⟩ := x; obtain ⟨wm, mv⟩ := m; obtain ⟨wr, rv⟩ := r
  have e1 : w = wm := ref_same_width rfl h1
  subst e1
  rw [ref_sub_mk] at h1; injection h1 with h1; subst h1
  have e2 : w = wr := ref_same_width rfl h2
  subst e2
  rw [ref_sub_mk] at h2; rw [ref_add_mk] at h3
  injection h2 with h2; injection h3 with h3; subst h2 h3
  rw [ref_sub_mk, bv_sub_sub]

theorem ref_assoc_add {x m r t v c : Bv} (h1 : Ref.binOp .IntAdd x m = .val t ∨ Ref.binOp .IntAdd m x = .val t)
    (h2 : Ref.binOp .IntAdd t r = .val v) (h3 : Ref.binOp .IntAdd m r = .val c) :
    Ref.binOp .IntAdd x c = .val v := by
  obtain ⟨w, xv⟩ := x; obtain ⟨wm, mv⟩ := m; obtain ⟨wr, rv⟩ := r
  have e1 : w = wm := by
    rcases h1 with h | h
    · exact ref_same_width rfl h
    · exact (ref_same_width rfl h).symm
  subst e1
  have ht : t = ⟨w, xv + mv⟩ := by
    rcases h1 with h | h
    · rw [ref_add_mk] at h; injection h with h; exact h.symm
    · rw [ref_add_mk] at h; injection h with h; rw [← h, BitVec.add_comm]
  subst ht
  have e2 : w = wr := ref_same_width rfl h2
  subst e2
  rw [ref_add_mk] at h2 h3
  injection h2 with h2; injection h3 with h3; subst h2 h3
  rw [ref_add_mk, BitVec.add_assoc]

theorem ofBytes_toNat_self {r : Bv} {b : Nat} (hw : r.w = 8 * b) : Bv.ofBytes r.bytes r.toNat = r := by
  obtain ⟨w, x⟩ := r
  simp only at hw; subst hw
  have hb : (⟨8 * b, x⟩ : Bv).bytes = b := by simp only [Bv.bytes]; omega
  rw [hb]
  apply Bv.ext'
  · rfl
  · simp [Bv.ofBytes, Bv.ofNat, Bv.toNat]

theorem foldConst_spec {op : BinOpType} (hop : op = .IntAdd ∨ op = .IntSub) {b₁ x₁ b₂ x₂ : Nat} {c : Expression}
    (h : foldConst op b₁ x₁ b₂ x₂ = some c) :
    ∃ r : Bv, c = .Const r.bytes r.toNat ∧ Ref.binOp op (Bv.ofBytes b₁ x₁) (Bv.ofBytes b₂ x₂) = .val r ∧
      r.w = 8 * b₁ ∧ r.bytes = b₁ ∧ b₁ = b₂ := by
  unfold foldConst at h
  split at h
  · next r hr =>
    cases h
    have hw : (Bv.ofBytes b₁ x₁).w = (Bv.ofBytes b₂ x₂).w := by
      rcases hop with e | e <;> subst e <;> simp only [Impl.binOp] at hr <;> exact sameW_val hr
    have hwb : C01.WellSizedBin op (Bv.ofBytes b₁ x₁) (Bv.ofBytes b₂ x₂) := by
      rcases hop with e | e <;> subst e <;> exact hw
    rw [C01.binOp_eq_ref op _ _ hwb] at hr
    have hrw : r.w = 8 * b₁ := by
      have := ref_binOp_w hr
      rcases hop with e | e <;> subst e <;> simpa [binResW, ofBytes_w] using this
    refine ⟨r, rfl, hr, hrw, ?_, ?_⟩
    · simp only [Bv.bytes, hrw]; omega
    · simp only [ofBytes_w] at hw; omega
  · cases h

theorem eval_foldConst {σ : State} {r : Bv} {b : Nat} (hw : r.w = 8 * b) :
    eval σ (.Const r.bytes r.toNat) = some r := by
  rw [eval_const, ofBytes_toNat_self hw]

theorem arm_fold_consts {σ : State} {op : BinOpType} (hop : op = .IntAdd ∨ op = .IntSub) {b₁ x₁ b₂ x₂ : Nat}
    (hw : WellSized (.BinOp op (.Const b₁ x₁) (.Const b₂ x₂))) :
    Sound σ (.BinOp op (.Const b₁ x₁) (.Const b₂ x₂))
      ((foldConst op b₁ x₁ b₂ x₂).getD (.BinOp op (.Const b₁ x₁) (.Const b₂ x₂))) := by
  cases hf : foldConst op b₁ x₁ b₂ x₂ with
  | none => exact Sound.refl hw
  | some c =>
    obtain ⟨r, rfl, hr, hrw, hrb, _⟩ := foldConst_spec hop hf
    have hb1 : 0 < b₁ := hw.1
    refine ⟨by show 0 < r.bytes; omega, ?_, fun v _ hv => ?_⟩
    · rcases hop with e | e <;> subst e <;> exact hrb
    · obtain ⟨a, b, ha, hb, hab⟩ := eval_binOp_some.mp hv
      rw [eval_const] at ha hb; cases ha; cases hb
      rw [hr] at hab; cases hab
      exact ⟨eval_foldConst hrw, boolOk_const⟩

/-- `(x ∘ c₁) ∘ c₂ ⇝ x ∘ (c₁ + c₂)` for `∘ = -` and `∘ = +` (incl. `(c₁ + x) + c₂`) -/
theorem arm_const_chain {σ : State} {op : BinOpType} (hop : op = .IntAdd ∨ op = .IntSub)
    {x inner : Expression} {bm xm br xr : Nat} {c : Expression}
    (hinner : inner = .BinOp op x (.Const bm xm) ∨ (op = .IntAdd ∧ inner = .BinOp op (.Const bm xm) x))
    (hw : WellSized (.BinOp op inner (.Const br xr)))
    (hf : foldConst .IntAdd bm xm br xr = some c) :
    Sound σ (.BinOp op inner (.Const br xr)) (.BinOp op x c) := by
  obtain ⟨r, rfl, hr, hrw, hrb, hbb⟩ := foldConst_spec (.inl rfl) hf
  obtain ⟨hwi, hwc, hsz⟩ := hw
  have hwx : WellSized x ∧ x.bytesize = bm ∧ inner.bytesize = x.bytesize := by
    rcases hinner with rfl | ⟨rfl, rfl⟩
    · obtain ⟨h1, _, h3⟩ := hwi
      rcases hop with e | e <;> subst e <;> exact ⟨h1, h3, rfl⟩
    · obtain ⟨_, h2, h3⟩ := hwi
      have h3' : bm = x.bytesize := h3
      exact ⟨h2, h3'.symm, h3'⟩
  obtain ⟨hwx, hxb, hib⟩ := hwx
  have hbm : 0 < bm := by have := wellSized_pos hwx; omega
  refine ⟨⟨hwx, by show 0 < r.bytes; omega, ?_⟩, ?_, fun v hb hv => ?_⟩
  · rcases hop with e | e <;> subst e <;> show x.bytesize = r.bytes <;> omega
  · rcases hop with e | e <;> subst e <;> simp only [Expression.bytesize] <;> omega
  · obtain ⟨hbi, _, _⟩ := boolOk_binOp.mp hb
    obtain ⟨t, zr, ht, hzr, htr⟩ := eval_binOp_some.mp hv
    rw [eval_const] at hzr; cases hzr
    have hnb : isBoolOp op = false := by rcases hop with e | e <;> subst e <;> rfl
    rcases hinner with rfl | ⟨rfl, rfl⟩
    · obtain ⟨vx, zm, hx, hzm, hxm⟩ := eval_binOp_some.mp ht
      rw [eval_const] at hzm; cases hzm
      obtain ⟨hbx, _, _⟩ := boolOk_binOp.mp hbi
      refine ⟨eval_binOp_some.mpr ⟨vx, r, hx, eval_foldConst hrw, ?_⟩,
        boolOk_binOp.mpr ⟨hbx, boolOk_const, fun h => by rw [hnb] at h; cases h⟩⟩
      rcases hop with e | e <;> subst e
      · exact ref_assoc_add (.inl hxm) htr hr
      · exact ref_assoc_sub hxm htr hr
    · obtain ⟨zm, vx, hzm, hx, hxm⟩ := eval_binOp_some.mp ht
      rw [eval_const] at hzm; cases hzm
      obtain ⟨_, hbx, _⟩ := boolOk_binOp.mp hbi
      exact ⟨eval_binOp_some.mpr ⟨vx, r, hx, eval_foldConst hrw, ref_assoc_add (.inr hxm) htr hr⟩,
        boolOk_binOp.mpr ⟨hbx, boolOk_const, fun h => by cases h⟩⟩

theorem sound_arithmeticsWithConstants {σ : State} {e : Expression} (hw : WellSized e) :
    Sound σ e (substArithmeticsWithConstants e) := by
  unfold substArithmeticsWithConstants
  split
  · exact arm_fold_consts (.inl rfl) hw
  · exact arm_fold_consts (.inr rfl) hw
  · split
    · next c hf => exact arm_const_chain (.inr rfl) (.inl rfl) hw hf
    · exact Sound.refl hw
  · split
    · next c hf => exact arm_const_chain (.inl rfl) (.inl rfl) hw hf
    · exact Sound.refl hw
  · split
    · next c hf => exact arm_const_chain (.inl rfl) (.inr ⟨rfl, rfl⟩) hw hf
    · exact Sound.refl hw
  · exact Sound.refl hw

/-- `substitute_trivial_binops` -/
theorem sound_trivialBinops {σ : State} (hσ : StateWF σ) {e : Expression} (hw : WellSized e) :
    Sound σ e (substTrivialBinops e) := by
  unfold substTrivialBinops
  have h1 := sound_lhsEqualRhs hσ hw
  have h2 := sound_andXorOrWithConstant hσ h1.ws
  have h3 := sound_equivalentComparisonOps (σ := σ) h2.ws
  have h4 := sound_complicatedALessThanB hσ h3.ws
  have h5 := sound_arithmeticsWithConstants (σ := σ) h4.ws
  exact h1.trans (h2.trans (h3.trans (h4.trans h5)))

/-! ### the `Subpiece`, `Cast` and `UnOp` arms -/

theorem ref_subpiece_full {a v : Bv} {s : Nat} (hw : a.w = 8 * s) (h : Ref.subpieceOp 0 s a = .val v) : v = a := by
  obtain ⟨w, x⟩ := a
  simp only at hw; subst hw
  unfold Ref.subpieceOp at h
  split at h
  · simp only [valV, Nat.mul_zero] at h; injection h with h; rw [← h, subpiece_full]
  · cases h

theorem ref_subpiece_ext {op : CastOpType} (hop : op = .IntZExt ∨ op = .IntSExt) {x y v : Bv} {S s : Nat}
    (hx : x.w = 8 * s) (hc : Ref.cast op S x = .val y) (h : Ref.subpieceOp 0 s y = .val v) : v = x := by
  obtain ⟨w, xv⟩ := x
  simp only at hx; subst hx
  rcases hop with e | e <;> subst e <;> simp only [Ref.cast] at hc <;>
    (split at hc
     · next hle =>
       simp only [valV] at hc; injection hc with hc; subst hc
       unfold Ref.subpieceOp at h
       split at h
       · simp only [valV, Nat.mul_zero] at h; injection h with h; rw [← h]
         first
         | rw [subpiece_zext _ hle]
         | rw [subpiece_sext _ hle]
       · cases h
     · cases hc)

theorem ref_piece_mk {w₁ w₂ : Nat} (h : BitVec w₁) (l : BitVec w₂) :
    Ref.binOp .Piece ⟨w₁, h⟩ ⟨w₂, l⟩ = .val ⟨w₁ + w₂, Ref.piece h l⟩ := rfl

theorem ref_subpiece_piece_high {hi lo y v : Bv} {lb s : Nat} (hp : Ref.binOp .Piece hi lo = .val y)
    (hs : Ref.subpieceOp lb s y = .val v) (h1 : 8 * lb = lo.w) (h2 : 8 * s = hi.w) : v = hi := by
  obtain ⟨w₁, h⟩ := hi; obtain ⟨w₂, l⟩ := lo
  simp only at h1 h2; subst h1 h2
  rw [ref_piece_mk] at hp; injection hp with hp; subst hp
  unfold Ref.subpieceOp at hs
  split at hs
  · simp only [valV] at hs; injection hs with hs; rw [← hs, subpiece_piece_high]
  · cases hs

theorem ref_subpiece_piece_low {hi lo y v : Bv} {s : Nat} (hp : Ref.binOp .Piece hi lo = .val y)
    (hs : Ref.subpieceOp 0 s y = .val v) (h2 : 8 * s = lo.w) : v = lo := by
  obtain ⟨w₁, h⟩ := hi; obtain ⟨w₂, l⟩ := lo
  simp only at h2; subst h2
  rw [ref_piece_mk] at hp; injection hp with hp; subst hp
  unfold Ref.subpieceOp at hs
  split at hs
  · simp only [valV, Nat.mul_zero] at hs; injection hs with hs; rw [← hs, subpiece_piece_low]
  · cases hs

theorem ref_subpiece_subpiece {x y v : Bv} {ilb m lb s : Nat} (h1 : Ref.subpieceOp ilb m x = .val y)
    (h2 : Ref.subpieceOp lb s y = .val v) (hle : lb + s ≤ m) (hs : 0 < s) (hin : 8 * (ilb + m) ≤ x.w) :
    Ref.subpieceOp (lb + ilb) s x = .val v := by
  obtain ⟨w, xv⟩ := x
  simp only at hin
  unfold Ref.subpieceOp at h1
  split at h1
  · simp only [valV] at h1; injection h1 with h1; subst h1
    unfold Ref.subpieceOp at h2
    split at h2
    · simp only [valV] at h2; injection h2 with h2; subst h2
      unfold Ref.subpieceOp
      rw [if_pos (by simp only; omega)]
      simp only [valV]
      rw [subpiece_subpiece _ _ _ _ _ (by omega)]
      have : 8 * ilb + 8 * lb = 8 * (lb + ilb) := by omega
      rw [this]
    · cases h2
  · cases h1

theorem ref_cast_same {op : CastOpType} (hop : op = .IntZExt ∨ op = .IntSExt) {a v : Bv} {s : Nat}
    (hw : a.w = 8 * s) (h : Ref.cast op s a = .val v) : v = a := by
  obtain ⟨w, x⟩ := a
  simp only at hw; subst hw
  rcases hop with e | e <;> subst e <;> simp only [Ref.cast] at h <;>
    (split at h
     · simp only [valV] at h; injection h with h; rw [← h]
       first
       | rw [zext_same]
       | rw [sext_same]
     · cases h)

theorem ref_cast_cast {op : CastOpType} (hop : op = .IntZExt ∨ op = .IntSExt) {x y v : Bv} {m s : Nat}
    (h1 : Ref.cast op m x = .val y) (h2 : Ref.cast op s y = .val v) : Ref.cast op s x = .val v := by
  obtain ⟨w, xv⟩ := x
  rcases hop with e | e <;> subst e <;> simp only [Ref.cast] at h1 h2 ⊢ <;>
    (split at h1
     · next hle =>
       simp only [valV] at h1; injection h1 with h1; subst h1
       split at h2
       · next hle2 =>
         have hle3 : w ≤ 8 * s := by simp only at hle hle2; omega
         rw [if_pos hle3]
         simp only [valV] at h2 ⊢
         injection h2 with h2
         rw [← h2]
         first
         | rw [zext_zext _ hle]
         | rw [sext_sext _ hle]
       · cases h2
     · cases h1)

theorem ref_unop_unop {op : UnOpType} (hop : op = .IntNegate ∨ op = .Int2Comp) {x y v : Bv}
    (h1 : Ref.unOp op x = .val y) (h2 : Ref.unOp op y = .val v) : v = x := by
  obtain ⟨w, xv⟩ := x
  rcases hop with e | e <;> subst e <;> simp only [Ref.unOp, valV] at h1 h2 <;>
    (injection h1 with h1; subst h1; injection h2 with h2; rw [← h2]
     first
     | rw [ref_not_not]
     | rw [ref_neg_neg])

theorem ref_boolneg_boolneg {x y v : Bv} (hw : x.w = 8)
    (h1 : Ref.unOp .BoolNegate x = .val y) (h2 : Ref.unOp .BoolNegate y = .val v) : v = x := by
  obtain ⟨w, xv⟩ := x
  simp only at hw; subst hw
  simp only [Ref.unOp] at h1
  split at h1
  · next h0 =>
    simp only [valB] at h1; injection h1 with h1; subst h1
    rw [ref_boolneg_ofBool] at h2; injection h2 with h2; rw [← h2]
    simp only [Bv.toNat] at h0
    rw [bv_zero_of_toNat h0]; rfl
  · split at h1
    · next h1' =>
      simp only [valB] at h1; injection h1 with h1; subst h1
      rw [ref_boolneg_ofBool] at h2; injection h2 with h2; rw [← h2]
      simp only [Bv.toNat] at h1'
      rw [bv_one_of_toNat h1'.2]; rfl
    · cases h1

theorem ref_boolneg_cmp {iop nop : BinOpType} (hn : negatedComparison iop = some nop) {a b p v : Bv}
    (h1 : Ref.binOp iop a b = .val p) (h2 : Ref.unOp .BoolNegate p = .val v) : Ref.binOp nop b a = .val v := by
  obtain ⟨w, x⟩ := a; obtain ⟨w2, y⟩ := b
  have hw : w = w2 := by
    cases iop <;> simp only [negatedComparison, reduceCtorEq] at hn <;> exact ref_same_width rfl h1
  subst hw
  cases iop <;> simp only [negatedComparison, reduceCtorEq, Option.some.injEq] at hn <;> subst hn <;>
    (have hp := ref_cmp_inv rfl rfl rfl h1
     subst hp
     rw [ref_boolneg_ofBool] at h2; injection h2 with h2; rw [← h2]
     refine (ref_cmp_intro (c := _) ?_)
     simp only [cmpB, Option.some.injEq, Ref.eq, Ref.less, Ref.lessEq, Ref.sless, Ref.slessEq]
     rw [Bool.eq_iff_iff]
     simp only [Bool.not_eq_true', decide_eq_true_eq, decide_eq_false_iff_not, Bool.not_not]
     omega)

theorem sound_substSubpiece {σ : State} (hσ : StateWF σ) {lb s : Nat} {arg : Expression}
    (hw : WellSized (.Subpiece lb s arg)) : Sound σ (.Subpiece lb s arg) (substSubpiece lb s arg) := by
  obtain ⟨hwa, hs, hle⟩ := hw
  have hw : WellSized (.Subpiece lb s arg) := ⟨hwa, hs, hle⟩
  unfold substSubpiece
  split
  · next hc =>
    obtain ⟨rfl, rfl⟩ := hc
    refine ⟨hwa, rfl, fun v hb hv => ?_⟩
    obtain ⟨x, hx, hxv⟩ := eval_subpiece_some.mp hv
    rw [ref_subpiece_full (eval_width hσ hwa hx) hxv]
    exact ⟨hx, by rw [boolOk_subpiece] at hb; exact hb⟩
  · split
    · next cop S inner =>
      split
      · next hc =>
        obtain ⟨hop, rfl, rfl⟩ := hc
        obtain ⟨hwi, _, _⟩ := hwa
        refine ⟨hwi, rfl, fun v hb hv => ?_⟩
        obtain ⟨y, hy, hyv⟩ := eval_subpiece_some.mp hv
        obtain ⟨x, hx, hxy⟩ := eval_cast_some.mp hy
        rw [ref_subpiece_ext hop (eval_width hσ hwi hx) hxy hyv]
        exact ⟨hx, by rw [boolOk_subpiece, boolOk_cast] at hb; exact hb⟩
      · exact Sound.refl hw
    · next l r =>
      obtain ⟨hwl, hwr, _⟩ := hwa
      split
      · next hc =>
        obtain ⟨rfl, rfl⟩ := hc
        refine ⟨hwl, rfl, fun v hb hv => ?_⟩
        obtain ⟨y, hy, hyv⟩ := eval_subpiece_some.mp hv
        obtain ⟨vl, vr, hl, hr, hlr⟩ := eval_binOp_some.mp hy
        rw [ref_subpiece_piece_high hlr hyv (eval_width hσ hwr hr).symm (eval_width hσ hwl hl).symm]
        rw [boolOk_subpiece] at hb
        exact ⟨hl, (boolOk_binOp.mp hb).1⟩
      · split
        · next hc =>
          obtain ⟨rfl, rfl⟩ := hc
          refine ⟨hwr, rfl, fun v hb hv => ?_⟩
          obtain ⟨y, hy, hyv⟩ := eval_subpiece_some.mp hv
          obtain ⟨vl, vr, hl, hr, hlr⟩ := eval_binOp_some.mp hy
          rw [ref_subpiece_piece_low hlr hyv (eval_width hσ hwr hr).symm]
          rw [boolOk_subpiece] at hb
          exact ⟨hr, (boolOk_binOp.mp hb).2.1⟩
        · exact Sound.refl hw
    · next ilb m inner _ =>
      obtain ⟨hwi, hm, hile⟩ := hwa
      have hle' : lb + s ≤ m := hle
      refine ⟨⟨hwi, hs, by omega⟩, rfl, fun v hb hv => ?_⟩
      obtain ⟨y, hy, hyv⟩ := eval_subpiece_some.mp hv
      obtain ⟨x, hx, hxy⟩ := eval_subpiece_some.mp hy
      have hxw := eval_width hσ hwi hx
      refine ⟨eval_subpiece_some.mpr ⟨x, hx, ref_subpiece_subpiece hxy hyv hle' hs (by rw [hxw]; omega)⟩, ?_⟩
      rw [boolOk_subpiece, boolOk_subpiece] at hb; rw [boolOk_subpiece]; exact hb
    · exact Sound.refl hw

theorem sound_substCast {σ : State} (hσ : StateWF σ) {op : CastOpType} {s : Nat} {arg : Expression}
    (hw : WellSized (.Cast op s arg)) : Sound σ (.Cast op s arg) (substCast op s arg) := by
  obtain ⟨hwa, hs, hcs⟩ := hw
  have hw : WellSized (.Cast op s arg) := ⟨hwa, hs, hcs⟩
  unfold substCast
  split
  · next hc =>
    obtain ⟨hop, rfl⟩ := hc
    refine ⟨hwa, rfl, fun v hb hv => ?_⟩
    obtain ⟨x, hx, hxv⟩ := eval_cast_some.mp hv
    rw [ref_cast_same (hop.symm) (eval_width hσ hwa hx) hxv]
    exact ⟨hx, by rw [boolOk_cast] at hb; exact hb⟩
  · split
    · next hop =>
      split
      · next iop m inner _ =>
        split
        · next he =>
          subst he
          obtain ⟨hwi, hm, hci⟩ := hwa
          have h1 : inner.bytesize ≤ m := by rcases hop with e | e <;> subst e <;> exact hci
          have h2 : m ≤ s := by rcases hop with e | e <;> subst e <;> exact hcs
          refine ⟨⟨hwi, hs, ?_⟩, rfl, fun v hb hv => ?_⟩
          · rcases hop with e | e <;> subst e <;> show inner.bytesize ≤ s <;> omega
          · obtain ⟨y, hy, hyv⟩ := eval_cast_some.mp hv
            obtain ⟨x, hx, hxy⟩ := eval_cast_some.mp hy
            refine ⟨eval_cast_some.mpr ⟨x, hx, ref_cast_cast hop.symm hxy hyv⟩, ?_⟩
            rw [boolOk_cast, boolOk_cast] at hb; rw [boolOk_cast]; exact hb
        · exact Sound.refl hw
      · exact Sound.refl hw
    · exact Sound.refl hw

theorem negatedComparison_classes {iop nop : BinOpType} (h : negatedComparison iop = some nop) :
    binClass iop = .same ∧ binClass nop = .same ∧ isBoolOp nop = false := by
  cases iop <;> simp only [negatedComparison, reduceCtorEq, Option.some.injEq] at h <;> subst h <;>
    exact ⟨rfl, rfl, rfl⟩

theorem sound_substUnOp {σ : State} (hσ : StateWF σ) {op : UnOpType} {arg : Expression}
    (hw : WellSized (.UnOp op arg)) : Sound σ (.UnOp op arg) (substUnOp op arg) := by
  obtain ⟨hwa, hus⟩ := hw
  have hw : WellSized (.UnOp op arg) := ⟨hwa, hus⟩
  unfold substUnOp
  split
  · next iop inner =>
    split
    · next hc =>
      obtain ⟨rfl, hop⟩ := hc
      obtain ⟨hwi, hius⟩ := hwa
      refine ⟨hwi, ?_, fun v hb hv => ?_⟩
      · rcases hop with e | e | e <;> subst e <;> rfl
      · obtain ⟨y, hy, hyv⟩ := eval_unOp_some.mp hv
        obtain ⟨x, hx, hxy⟩ := eval_unOp_some.mp hy
        have hbi : boolOk σ inner = true := by rw [boolOk_unOp, boolOk_unOp] at hb; exact hb
        rcases hop with e | e | e <;> subst e
        · rw [ref_unop_unop (.inl rfl) hxy hyv]; exact ⟨hx, hbi⟩
        · have h8 : x.w = 8 := by
            have h1 : inner.bytesize = 1 := hius
            rw [eval_width hσ hwi hx, h1]
          rw [ref_boolneg_boolneg h8 hxy hyv]; exact ⟨hx, hbi⟩
        · rw [ref_unop_unop (.inr rfl) hxy hyv]; exact ⟨hx, hbi⟩
    · exact Sound.refl hw
  · next iop il ir =>
    split
    · next hop =>
      subst hop
      split
      · next nop hn =>
        obtain ⟨hc1, hc2, hnb⟩ := negatedComparison_classes hn
        obtain ⟨hwl, hwr, hsz⟩ := hwa
        have hsz' : il.bytesize = ir.bytesize := by
          simp only [binSizesOk, hc1] at hsz; exact hsz
        refine ⟨⟨hwr, hwl, by simp only [binSizesOk, hc2]; exact hsz'.symm⟩, ?_, fun v hb hv => ?_⟩
        · cases iop <;> simp only [negatedComparison, reduceCtorEq, Option.some.injEq] at hn <;> subst hn <;> rfl
        · obtain ⟨p, hp, hpv⟩ := eval_unOp_some.mp hv
          obtain ⟨a, b, ha, hb', hab⟩ := eval_binOp_some.mp hp
          rw [boolOk_unOp] at hb
          obtain ⟨hb1, hb2, _⟩ := boolOk_binOp.mp hb
          exact ⟨eval_binOp_some.mpr ⟨b, a, hb', ha, ref_boolneg_cmp hn hab hpv⟩,
            boolOk_binOp.mpr ⟨hb2, hb1, fun h => by rw [hnb] at h; cases h⟩⟩
      · exact Sound.refl hw
    · exact Sound.refl hw
  · exact Sound.refl hw

/-! ### the theorems -/

/-- `substTrivial` may replace every well-sized expression in every well-formed state -/
theorem sound_substTrivial {σ : State} (hσ : StateWF σ) :
    ∀ {e : Expression}, WellSized e → Sound σ e (substTrivial e) := by
  intro e
  induction e with
  | Var x => intro hw; exact Sound.refl hw
  | Const b x => intro hw; exact Sound.refl hw
  | Unknown d s => intro hw; exact Sound.refl hw
  | BinOp op l r ihl ihr =>
    intro hw
    simp only [substTrivial]
    have h1 := Sound.binOp hw (ihl hw.1) (ihr hw.2.1)
    exact h1.trans (sound_trivialBinops hσ h1.ws)
  | UnOp op a ih =>
    intro hw
    simp only [substTrivial]
    have h1 := Sound.unOp hw (ih hw.1)
    exact h1.trans (sound_substUnOp hσ h1.ws)
  | Cast op s a ih =>
    intro hw
    simp only [substTrivial]
    have h1 := Sound.cast hw (ih hw.1)
    exact h1.trans (sound_substCast hσ h1.ws)
  | Subpiece lb s a ih =>
    intro hw
    simp only [substTrivial]
    have h1 := Sound.subpiece hw (ih hw.1)
    exact h1.trans (sound_substSubpiece hσ h1.ws)

/-- **C10-trivial-eval.** For every well-sized expression and every machine state (registers hold values
of their sizes) in which the expression evaluates under the boolean discipline, the result of
`substitute_trivial_operations` evaluates to the same value (and keeps the discipline). -/
theorem substTrivial_eval {σ : State} (hσ : StateWF σ) {e : Expression} (hw : WellSized e) {v : Bv}
    (hb : boolOk σ e = true) (hv : eval σ e = some v) :
    eval σ (substTrivial e) = some v ∧ boolOk σ (substTrivial e) = true :=
  (sound_substTrivial hσ hw).sem v hb hv

/-- **C10-trivial-size / C12.** `substitute_trivial_operations` keeps the size of a well-sized expression -/
theorem substTrivial_bytesize {e : Expression} (hw : WellSized e) : (substTrivial e).bytesize = e.bytesize :=
  (sound_substTrivial (stateWF_default 0) hw).size

/-- **C12-trivial.** `substitute_trivial_operations` maps well-sized expressions to well-sized expressions -/
theorem substTrivial_wellSized {e : Expression} (hw : WellSized e) : WellSized (substTrivial e) :=
  (sound_substTrivial (stateWF_default 0) hw).ws

end CweModel.C10
