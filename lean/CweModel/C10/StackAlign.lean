/-
C10 pass 5 — model of `substitute_and_on_stackpointer` (analysis/stack_alignment_substitution/mod.rs).

The journaled stack-pointer offset is an `i64` (release build: wrapping arithmetic) — modelled as `BitVec 64`.
`ApInt::try_to_i64` sign-extends values narrower than 64 bit; for 64 bit it is the bit pattern.
Core-only.
-/
import CweModel.C10.ControlFlow

namespace CweModel.C10
open CweModel CweModel.IR

/-- `ApInt::try_to_i64` of the constant `Const b x` (for `b ≤ 8`; wider constants with non-zero upper
digits make the real code panic) -/
def constToI64 (b x : Nat) : BitVec 64 :=
  if b < 8 then (BitVec.ofNat (8 * b) x).signExtend 64 else BitVec.ofNat 64 x

/-- `try_to_i64(into_negate(bitmask))` -/
def negConstToI64 (b x : Nat) : BitVec 64 :=
  if b < 8 then (-(BitVec.ofNat (8 * b) x)).signExtend 64 else -(BitVec.ofNat 64 x)

/-- `ApInt::from_i64(offset).into_resize_unsigned(bytesize)` as a constant value -/
def i64ToConst (b : Nat) (o : BitVec 64) : Nat := o.toNat % 2 ^ (8 * b)

def msgUnexpectedAlignment := "Unexpected alignment"
def msgUnsubstitutable := "Unsubstitutable Operation on SP"
def msgUnsubstitutableOperands := "Unsubstitutable Operation on SP. Operants are not register and constant."
def msgUnexpectedAssignment := "Unexpected assignment on SP"

/-- the offset the pass subtracts: `journaled_sp - (journaled_sp & bitmask)` -/
def alignOffset (journaled mask : BitVec 64) : BitVec 64 := journaled - (journaled &&& mask)

/-- the pattern `(Var(sp), Const(c)) | (Const(c), Var(sp))` with `sp` the stack pointer: the constant -/
def spConstPair (sp : Variable) (l r : Expression) : Option (Nat × Nat) :=
  match l, r with
  | .Var v, .Const b x => if v = sp then some (b, x) else none
  | .Const b x, .Var v => if v = sp then some (b, x) else none
  | _, _ => none

/-- `substitute`: the new expression, the log messages and the new journaled offset. Repaired code: the
variable has to be the stack pointer (otherwise the operands "are not register and constant"), a bitmask
other than the expected alignment is reported but not substituted, and after a substitution the journaled
offset is the aligned one. A non-empty log means "not substituted". -/
def substituteAnd (sp : Variable) (exp : Expression) (expectedAlignment : BitVec 64) (journaled : BitVec 64) :
    Expression × List String × BitVec 64 :=
  match exp with
  | .BinOp op l r =>
    match spConstPair sp l r with
    | some (b, x) =>
      if op = .IntAnd then
        if negConstToI64 b x ≠ expectedAlignment then (exp, [msgUnexpectedAlignment], journaled)
        else
          (.BinOp .IntSub (.Var sp) (.Const b (i64ToConst b (alignOffset journaled (constToI64 b x)))), [],
            journaled - alignOffset journaled (constToI64 b x))
      else (exp, [msgUnsubstitutable], journaled)
    | none => (exp, [msgUnsubstitutableOperands], journaled)
  | _ => (exp, [msgUnsubstitutable], journaled)

/-- `journal_sp_value`; `none` = `Err`. Repaired code: `c - SP` is not `SP - c`. -/
def journalSpValue (journaled : BitVec 64) (isPlus : Bool) (l r : Expression) (sp : Variable) : Option (BitVec 64) :=
  match l, r with
  | .Var v, .Const b x =>
    if v = sp then some (if isPlus then journaled + constToI64 b x else journaled - constToI64 b x) else none
  | .Const b x, .Var v =>
    if isPlus ∧ v = sp then some (journaled + constToI64 b x) else none
  | _, _ => none

/-- `get_first_branch_tid` -/
def firstBranchTid (b : Term Blk) : Option Tid :=
  match b.term.jmps with
  | j :: _ => match j.term with | .Branch t => some t | _ => none
  | [] => none

/-- `count_jumps_to_blk` (repaired code): jumps, return sites and indirect-jump hints of the function
that target the block -/
def countJumpsToBlk (s : Sub) (t : Tid) : Nat :=
  (s.blocks.map fun b =>
    (b.term.jmps.filter fun j => match j.term with
      | .Branch x => x == t
      | .CBranch x _ => x == t
      | .Call _ (some x) => x == t
      | .CallInd _ (some x) => x == t
      | .CallOther _ (some x) => x == t
      | _ => false).length + (b.term.indirectJmpTargets.filter (· == t)).length).sum

/-- the loop of `get_first_blk_with_defs`: index of the first block with defs following first `Branch`es;
repaired code: every block on the way is reached by that one jump only -/
def firstBlkWithDefsLoop (s : Sub) : Nat → List Tid → Term Blk → Option Nat
  | 0, _, _ => none
  | fuel + 1, visited, blk =>
    match firstBranchTid blk with
    | none => none
    | some target =>
      if blk.tid ∈ visited then none else
      if countJumpsToBlk s target ≠ 1 then none else
      match s.blocks.findIdx? (·.tid == target), s.blocks.find? (·.tid == target) with
      | some idx, some tb =>
        if !tb.term.defs.isEmpty then some idx
        else firstBlkWithDefsLoop s fuel (blk.tid :: visited) tb
      | _, _ => none

/-- `get_first_blk_with_defs` -/
def firstBlkWithDefs (s : Sub) : Option Nat :=
  match s.blocks with
  | [] => none
  | b :: _ =>
    if countJumpsToBlk s b.tid ≠ 0 then none
    else if !b.term.defs.isEmpty then some 0
    else firstBlkWithDefsLoop s (s.blocks.length + 1) [] b

structure SaAcc where
  journaled : BitVec 64
  logs : List String           -- the global log (all functions so far)
  stop : Bool                  -- `continue 'sub_loop` was executed
  defs : List (Term Def)       -- processed defs, reversed

/-- the body of the `for def in blk.term.defs.iter_mut()` loop -/
def saStepDef (sp : Variable) (expectedAlignment : BitVec 64) (acc : SaAcc) (d : Term Def) : SaAcc :=
  if acc.stop then { acc with defs := d :: acc.defs } else
  match d.term with
  | .Assign v value =>
    if v = sp then
      match value with
      | .BinOp .IntAdd l r =>
        match journalSpValue acc.journaled true l r sp with
        | some j => { acc with journaled := j, defs := d :: acc.defs }
        | none => { acc with stop := true, defs := d :: acc.defs }
      | .BinOp .IntSub l r =>
        match journalSpValue acc.journaled false l r sp with
        | some j => { acc with journaled := j, defs := d :: acc.defs }
        | none => { acc with stop := true, defs := d :: acc.defs }
      | .BinOp _ _ _ =>
        let (e', msgs, j') := substituteAnd sp value expectedAlignment acc.journaled
        { acc with journaled := j', logs := acc.logs ++ msgs, stop := !msgs.isEmpty,
                   defs := { d with term := .Assign v e' } :: acc.defs }
      | _ => { acc with logs := acc.logs ++ [msgUnexpectedAssignment], stop := true, defs := d :: acc.defs }
    else { acc with defs := d :: acc.defs }
  | .Load v _ =>
    -- repaired: a load into the stack pointer loses track of it
    if v = sp then { acc with logs := acc.logs ++ [msgUnexpectedAssignment], stop := true, defs := d :: acc.defs }
    else { acc with defs := d :: acc.defs }
  | _ => { acc with defs := d :: acc.defs }

def replaceAt {α : Type} (l : List α) (i : Nat) (x : α) : List α := l.set i x

/-- one function; returns the new function and the global log -/
def saSub (sp : Variable) (expectedAlignment : BitVec 64) (logs : List String) (s : Term Sub) :
    Term Sub × List String :=
  match firstBlkWithDefs s.term with
  | none => (s, logs)
  | some idx =>
    match s.term.blocks[idx]? with
    | none => (s, logs)
    | some blk =>
      let acc := blk.term.defs.foldl (saStepDef sp expectedAlignment)
        { journaled := 0, logs := logs, stop := false, defs := [] }
      let blk' := { blk with term := { blk.term with defs := acc.defs.reverse } }
      ({ s with term := { s.term with blocks := replaceAt s.term.blocks idx blk' } }, acc.logs)

def expectedAlignmentOf (arch : String) : BitVec 64 :=
  if arch = "x86_32" then 16 else if arch = "x86_64" then 16 else if arch = "arm32" then 4 else 0

/-- **`substitute_and_on_stackpointer`**: new program and the log messages -/
def substituteAndOnStackpointer (arch : String) (sp : Variable) (p : Program) : Program × List String :=
  let (subs, logs) := p.subs.foldl (fun (acc : List (Term Sub) × List String) s =>
    let (s', logs') := saSub sp (expectedAlignmentOf arch) acc.2 s
    (s' :: acc.1, logs')) ([], [])
  ({ p with subs := subs.reverse }, logs)

end CweModel.C10
