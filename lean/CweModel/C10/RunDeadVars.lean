/-
C10 pass 3, run level — dead-variable elimination preserves the observable trace of every function.

For ANY liveness map `m` that is a post-fixpoint of the liveness equations (`aliveClosed`, executable) the
function with the dead assignments removed produces, from the same initial state, the same observable trace
(`Spec.observable`: the state snapshot of an indirect-jump event is dropped — the pass legitimately uses the
liveness at the known targets of an indirect jump), provided the run of the original function
  * does not get stuck (H3), and
  * keeps the hypothesis H2 "non-physical registers are local" (`RunLocals`): every variable that is read is
    a physical register (member of `phys`) or was assigned earlier in the run since the last call.
The simulation relates the state `σ` of the original run and the state `σ'` of the new run by agreement on
the variables that are alive AND (physical or assigned since the last call) — `AgreeL`; a call havocs the
physical registers identically on both sides and empties the set of assigned locals.

Structural hypothesis `dveShapeOk`: no jump, one unconditional jump, or a conditional jump followed by a
jump that always has a CFG edge.
Core-only.
-/
import CweModel.C10.RunPropagation

namespace CweModel.C10
open CweModel CweModel.IR CweModel.Sem

/-! ### agreement on the alive variables that are physical or assigned since the last call -/

/-- the two states have the same memory and parameters and agree on the registers in `A` that are physical
(`phys`) or in the list `D` of the variables assigned since the last call -/
structure AgreeL (phys : VarSet) (A : VarSet) (D : List Variable) (σ₁ σ₂ : State) : Prop where
  seed : σ₁.seed = σ₂.seed
  mem : σ₁.mem = σ₂.mem
  le : σ₁.littleEndian = σ₂.littleEndian
  ptr : σ₁.ptrBytes = σ₂.ptrBytes
  regs : ∀ v ∈ A, (v ∈ phys ∨ v ∈ D) → σ₁.getReg v = σ₂.getReg v

theorem AgreeL.refl (phys A : VarSet) (D : List Variable) (σ : State) : AgreeL phys A D σ σ :=
  ⟨rfl, rfl, rfl, rfl, fun _ _ _ => rfl⟩

theorem AgreeL.mono {phys A B : VarSet} {D : List Variable} {σ₁ σ₂ : State} (h : AgreeL phys A D σ₁ σ₂)
    (hBA : ∀ v ∈ B, v ∈ A) : AgreeL phys B D σ₁ σ₂ :=
  ⟨h.seed, h.mem, h.le, h.ptr, fun v hv hg => h.regs v (hBA v hv) hg⟩

/-- H2 on one expression: every variable read is physical or assigned since the last call -/
def ExprLocal (phys : VarSet) (D : List Variable) (e : Expression) : Prop :=
  ∀ v ∈ e.inputVars, v ∈ phys ∨ v ∈ D

theorem AgreeL.eval {phys A : VarSet} {D : List Variable} {σ₁ σ₂ : State} (h : AgreeL phys A D σ₁ σ₂)
    {e : Expression} (he : ∀ v ∈ e.inputVars, v ∈ A) (hl : ExprLocal phys D e) : eval σ₁ e = eval σ₂ e :=
  eval_agree h.seed (fun v hv => h.regs v (he v hv) (hl v hv))

theorem AgreeL.readMem {phys A : VarSet} {D : List Variable} {σ₁ σ₂ : State} (h : AgreeL phys A D σ₁ σ₂) (a n : Nat) :
    σ₁.readMem a n = σ₂.readMem a n := by
  simp only [State.readMem, State.wrapAddr, h.ptr, h.le, getByte_agree h.seed h.mem]

theorem AgreeL.writeMem {phys A : VarSet} {D : List Variable} {σ₁ σ₂ : State} (h : AgreeL phys A D σ₁ σ₂)
    (a n val : Nat) : AgreeL phys A D (σ₁.writeMem a n val) (σ₂.writeMem a n val) := by
  obtain ⟨s1, l1, p1, _⟩ := writeMem_fields σ₁ a n val
  obtain ⟨s2, l2, p2, _⟩ := writeMem_fields σ₂ a n val
  refine ⟨by rw [s1, s2, h.seed], writeMem_mem_congr h.mem h.le h.ptr a n val, by rw [l1, l2, h.le],
    by rw [p1, p2, h.ptr], fun v hv hg => ?_⟩
  rw [getReg_writeMem, getReg_writeMem]; exact h.regs v hv hg

/-- both sides assign `v`: afterwards `v` counts as assigned -/
theorem AgreeL.setReg_both {phys A : VarSet} {D : List Variable} {σ₁ σ₂ : State} {v : Variable}
    (h : AgreeL phys (A.remove v) D σ₁ σ₂) (x : Bv) : AgreeL phys A (v :: D) (σ₁.setReg v x) (σ₂.setReg v x) := by
  refine ⟨h.seed, h.mem, h.le, h.ptr, fun w hw hg => ?_⟩
  rw [getReg_setReg, getReg_setReg]
  split
  · rfl
  · next hne =>
    refine h.regs w (mem_remove.mpr ⟨hw, hne⟩) ?_
    rcases hg with hg | hg
    · exact .inl hg
    · rcases List.mem_cons.mp hg with e | e
      · exact absurd e hne
      · exact .inr e

/-- only the original run assigns the dead variable `v` -/
theorem AgreeL.setReg_left {phys A : VarSet} {D : List Variable} {σ₁ σ₂ : State} (h : AgreeL phys A D σ₁ σ₂)
    {v : Variable} (hv : v ∉ A) (x : Bv) : AgreeL phys A (v :: D) (σ₁.setReg v x) σ₂ := by
  refine ⟨h.seed, h.mem, h.le, h.ptr, fun w hw hg => ?_⟩
  rw [getReg_setReg]
  split
  · next e => subst e; exact absurd hw hv
  · next hne =>
    refine h.regs w hw ?_
    rcases hg with hg | hg
    · exact .inl hg
    · rcases List.mem_cons.mp hg with e | e
      · exact absurd e hne
      · exact .inr e

/-! ### H2 along the defs of a block (purely syntactic, given the variables assigned so far) -/

def assignedVar : Def → Option Variable
  | .Assign v _ => some v
  | .Load v _ => some v
  | .Store _ _ => none

/-- the variables assigned since the last call, after the def -/
def defdAfterDef (D : List Variable) (d : Def) : List Variable :=
  match assignedVar d with
  | some v => v :: D
  | none => D

def DefLocal (phys : VarSet) (D : List Variable) (d : Def) : Prop := ∀ e ∈ defExprs d, ExprLocal phys D e

def DefsLocal (phys : VarSet) : List Variable → List (Term Def) → Prop
  | _, [] => True
  | D, d :: ds => DefLocal phys D d.term ∧ DefsLocal phys (defdAfterDef D d.term) ds

def defdAfter (D : List Variable) (defs : List (Term Def)) : List Variable :=
  defs.foldl (fun D d => defdAfterDef D d.term) D

/-! ### one def -/

/-- a def that is kept: from states agreeing on the (local) variables alive before it, it produces the same
event and states agreeing on the (local) variables alive after it -/
theorem execDef_agreeL_kept {phys A : VarSet} {D : List Variable} {σ₁ σ₂ σ₁' : State} {d : Def} {evs : List Event}
    (h : AgreeL phys (updateAliveByDef A d) D σ₁ σ₂) (hl : DefLocal phys D d)
    (hkeep : ∀ v e, d = .Assign v e → v ∈ A)
    (hd : execDef σ₁ d = some (σ₁', evs)) :
    ∃ σ₂', execDef σ₂ d = some (σ₂', evs) ∧ AgreeL phys A (defdAfterDef D d) σ₁' σ₂' := by
  cases d with
  | Assign v e =>
    have hv := hkeep v e rfl
    simp only [updateAliveByDef, if_pos hv] at h
    have he : eval σ₁ e = eval σ₂ e :=
      h.eval (fun w hw => mem_insertAll.mpr (.inr hw)) (hl e (by simp [defExprs]))
    simp only [Sem.execDef] at hd ⊢
    rw [← he]
    cases hx : eval σ₁ e with
    | none => rw [hx] at hd; cases hd
    | some x =>
      rw [hx] at hd
      simp only [Option.bind_eq_bind, Option.bind_some] at hd ⊢
      split at hd
      · cases hd
      · next hw =>
        rw [if_neg hw]
        cases hd
        exact ⟨_, rfl, AgreeL.setReg_both (h.mono fun w hw => mem_insertAll.mpr (.inl hw)) x⟩
  | Load v a =>
    simp only [updateAliveByDef] at h
    have he : eval σ₁ a = eval σ₂ a :=
      h.eval (fun w hw => mem_insertAll.mpr (.inr hw)) (hl a (by simp [defExprs]))
    simp only [Sem.execDef] at hd ⊢
    rw [← he]
    cases hx : eval σ₁ a with
    | none => rw [hx] at hd; cases hd
    | some x =>
      rw [hx] at hd
      simp only [Option.bind_eq_bind, Option.bind_some, Option.some.injEq, Prod.mk.injEq] at hd ⊢
      obtain ⟨rfl, rfl⟩ := hd
      rw [← h.readMem]
      exact ⟨_, ⟨rfl, rfl⟩, AgreeL.setReg_both (h.mono fun w hw => mem_insertAll.mpr (.inl hw)) _⟩
  | Store a e =>
    simp only [updateAliveByDef] at h
    have ha : eval σ₁ a = eval σ₂ a :=
      h.eval (fun w hw => mem_insertAll.mpr (.inl (mem_insertAll.mpr (.inr hw)))) (hl a (by simp [defExprs]))
    have he : eval σ₁ e = eval σ₂ e :=
      h.eval (fun w hw => mem_insertAll.mpr (.inr hw)) (hl e (by simp [defExprs]))
    simp only [Sem.execDef] at hd ⊢
    rw [← ha, ← he]
    cases hx : eval σ₁ a with
    | none => rw [hx] at hd; cases hd
    | some x =>
      cases hy : eval σ₁ e with
      | none => rw [hx, hy] at hd; cases hd
      | some y =>
        rw [hx, hy] at hd
        simp only [Option.bind_eq_bind, Option.bind_some, Option.some.injEq, Prod.mk.injEq] at hd ⊢
        obtain ⟨rfl, rfl⟩ := hd
        refine ⟨_, ⟨rfl, rfl⟩, ?_⟩
        exact (h.mono fun w hw => mem_insertAll.mpr (.inl (mem_insertAll.mpr (.inl hw)))).writeMem _ _ _

/-- a dead assignment: executing it on one side only keeps the agreement and produces no event -/
theorem execDef_agreeL_dead {phys A : VarSet} {D : List Variable} {σ₁ σ₂ σ₁' : State} {v : Variable} {e : Expression}
    {evs : List Event} (h : AgreeL phys A D σ₁ σ₂) (hv : v ∉ A) (hd : execDef σ₁ (.Assign v e) = some (σ₁', evs)) :
    evs = [] ∧ AgreeL phys A (v :: D) σ₁' σ₂ := by
  simp only [Sem.execDef] at hd
  cases hx : eval σ₁ e with
  | none => rw [hx] at hd; cases hd
  | some x =>
    rw [hx] at hd
    simp only [Option.bind_eq_bind, Option.bind_some] at hd
    split at hd
    · cases hd
    · cases hd; exact ⟨rfl, h.setReg_left hv x⟩

/-! ### the defs of a block -/

/-- **C10-dead-variables-local.** The backward transfer is sound for agreement restricted to local variables:
if `σ₁` and `σ₂` agree on the variables alive before the defs that are physical or assigned since the last call,
the defs keep H2 and the original defs execute from `σ₁`, then the cleaned defs execute from `σ₂` with the same
memory events and the final states agree on the alive variables that are physical or assigned by now. -/
theorem removeDeadDefs_soundL (phys A : VarSet) (defs : List (Term Def)) {D : List Variable} {σ₁ σ₂ σ₁' : State}
    {evs : List Event} (h : AgreeL phys (aliveBeforeDefs A defs) D σ₁ σ₂) (hl : DefsLocal phys D defs)
    (hd : execDefs σ₁ defs = some (σ₁', evs)) :
    ∃ σ₂', execDefs σ₂ (removeDeadDefs A defs).1 = some (σ₂', evs) ∧ AgreeL phys A (defdAfter D defs) σ₁' σ₂' := by
  induction defs generalizing σ₁ σ₂ evs D with
  | nil =>
    simp only [Sem.execDefs, Option.some.injEq, Prod.mk.injEq] at hd
    obtain ⟨rfl, rfl⟩ := hd
    exact ⟨σ₂, rfl, h⟩
  | cons d ds ih =>
    simp only [Sem.execDefs] at hd
    cases h1 : Sem.execDef σ₁ d.term with
    | none => rw [h1] at hd; cases hd
    | some r1 =>
      obtain ⟨σm, e₁⟩ := r1
      rw [h1] at hd
      simp only [Option.bind_eq_bind, Option.bind_some] at hd
      cases h2 : Sem.execDefs σm ds with
      | none => rw [h2] at hd; cases hd
      | some r2 =>
        obtain ⟨σe, e₂⟩ := r2
        rw [h2] at hd
        simp only [Option.bind_some, Option.some.injEq, Prod.mk.injEq] at hd
        obtain ⟨rfl, rfl⟩ := hd
        have hB : aliveBeforeDefs A (d :: ds) = updateAliveByDef (aliveBeforeDefs A ds) d.term := rfl
        rw [hB] at h
        have hD : defdAfter D (d :: ds) = defdAfter (defdAfterDef D d.term) ds := rfl
        rw [removeDeadDefs_cons, hD]
        split
        · next hkeep =>
          have hk : ∀ v e, d.term = .Assign v e → v ∈ aliveBeforeDefs A ds := by
            intro v e hde
            rw [hde] at hkeep
            simpa [keepDef] using hkeep
          obtain ⟨σ₂m, hx, hag⟩ := execDef_agreeL_kept h hl.1 hk h1
          obtain ⟨σ₂', hy, hag'⟩ := ih hag hl.2 h2
          refine ⟨σ₂', ?_, hag'⟩
          simp only [Sem.execDefs, hx, hy, Option.bind_eq_bind, Option.bind_some]
        · next hkeep =>
          cases hdt : d.term with
          | Assign v e =>
            rw [hdt] at hkeep h h1
            have hv : v ∉ aliveBeforeDefs A ds := by simpa [keepDef] using hkeep
            simp only [updateAliveByDef, if_neg hv] at h
            obtain ⟨he, hag⟩ := execDef_agreeL_dead h hv h1
            subst he
            have hl2 := hl.2
            rw [hdt] at hl2
            obtain ⟨σ₂', hy, hag'⟩ := ih (D := v :: D) hag hl2 h2
            exact ⟨σ₂', by simpa using hy, by simpa [defdAfterDef, assignedVar] using hag'⟩
          | Load v a => rw [hdt] at hkeep; simp [keepDef] at hkeep
          | Store a e => rw [hdt] at hkeep; simp [keepDef] at hkeep

/-! ### calls: the havoc of the physical registers, state snapshots -/

theorem havocFold_fields (val : Variable → Bv) (sp : Variable) (regs : List Variable) (s₀ : State) :
    let r := regs.foldl (fun s v => if v == sp then s else s.setReg v (val v)) s₀
    r.seed = s₀.seed ∧ r.mem = s₀.mem ∧ r.littleEndian = s₀.littleEndian ∧ r.ptrBytes = s₀.ptrBytes := by
  induction regs generalizing s₀ with
  | nil => exact ⟨rfl, rfl, rfl, rfl⟩
  | cons v vs ih =>
    simp only [List.foldl]
    split
    · exact ih s₀
    · exact ih (s₀.setReg v (val v))

theorem getReg_havocFold (val : Variable → Bv) (sp : Variable) (regs : List Variable) (s₀ : State) (w : Variable) :
    (regs.foldl (fun s v => if v == sp then s else s.setReg v (val v)) s₀).getReg w =
      if w ∈ regs ∧ w ≠ sp then val w else s₀.getReg w := by
  induction regs generalizing s₀ with
  | nil => simp
  | cons v vs ih =>
    simp only [List.foldl]
    rw [ih]
    by_cases hvs : w ∈ vs
    · by_cases hsp : w = sp
      · subst hsp
        simp only [ne_eq, not_true_eq_false, and_false, if_false]
        split
        · rfl
        · next hne => rw [getReg_setReg, if_neg (fun e => hne (by rw [← e]; exact beq_self_eq_true w))]
      · simp [hvs, hsp]
    · simp only [hvs, false_and, if_false, List.mem_cons]
      by_cases hwv : w = v
      · subst hwv
        by_cases hsp : w = sp
        · subst hsp; simp
        · have : (w == sp) = false := by simpa using hsp
          simp only [this, Bool.false_eq_true, if_false, getReg_setReg, if_true, true_or, ne_eq, hsp,
            not_false_eq_true, and_self]
      · have hor : (w = v ∨ False) ↔ False := by simp [hwv]
        simp only [or_false, hwv, false_and, if_false]
        split
        · rfl
        · rw [getReg_setReg, if_neg hwv]

/-- a call havocs both states identically: afterwards they agree on every physical register, provided they agreed
on all of them before (`phys ⊆ E`); no local variable counts as assigned any more -/
theorem AgreeL.havoc {phys E : VarSet} {D : List Variable} {σ₁ σ₂ : State} (h : AgreeL phys E D σ₁ σ₂)
    (hE : ∀ v ∈ phys, v ∈ E) (X : VarSet) (regs : List Variable) (sp : Variable) (site : String) (nth : Nat) :
    AgreeL phys X [] (Sem.havoc σ₁ regs sp site nth) (Sem.havoc σ₂ regs sp site nth) := by
  unfold Sem.havoc
  obtain ⟨s1, m1, l1, p1⟩ := havocFold_fields
    (fun v => Bv.ofBytes v.size (mix (mix (mix σ₁.seed (strHash site)) nth) (strHash v.name))) sp regs σ₁
  obtain ⟨s2, m2, l2, p2⟩ := havocFold_fields
    (fun v => Bv.ofBytes v.size (mix (mix (mix σ₂.seed (strHash site)) nth) (strHash v.name))) sp regs σ₂
  refine ⟨by rw [s1, s2, h.seed], by rw [m1, m2, h.mem], by rw [l1, l2, h.le], by rw [p1, p2, h.ptr], fun v _ hg => ?_⟩
  have hvp : v ∈ phys := by
    rcases hg with hg | hg
    · exact hg
    · cases hg
  rw [getReg_havocFold, getReg_havocFold, h.seed]
  split
  · rfl
  · exact h.regs v (hE v hvp) (.inl hvp)

/-- the snapshot as a function of the rendered registers, the memory overrides and the seed -/
def snapshotOf (rs : List String) (mem : List (Nat × Nat)) (seed : Nat) : String :=
  let ms := (mem.filter (fun p => p.2 != mix (mix seed 0xABCD) p.1 % 256)).toArray.qsort (fun a b => a.1 < b.1)
  let msS := ms.toList.map (fun p => s!"{p.1}:{p.2}")
  String.intercalate "," rs ++ "|" ++ String.intercalate "," msS

theorem snapshot_eq (σ : State) (regs : List Variable) :
    σ.snapshot regs = snapshotOf (regs.map (fun v => s!"{v.name}={(σ.getReg v).toNat}")) σ.mem σ.seed := rfl

theorem snapshot_agree {σ₁ σ₂ : State} {regs : List Variable} (hs : σ₁.seed = σ₂.seed) (hm : σ₁.mem = σ₂.mem)
    (hr : ∀ v ∈ regs, σ₁.getReg v = σ₂.getReg v) : σ₁.snapshot regs = σ₂.snapshot regs := by
  have hmap : regs.map (fun v => s!"{v.name}={(σ₁.getReg v).toNat}") =
      regs.map (fun v => s!"{v.name}={(σ₂.getReg v).toNat}") :=
    List.map_congr_left (fun v hv => by rw [hr v hv])
  rw [snapshot_eq, snapshot_eq, hmap, hs, hm]

theorem AgreeL.snapshot {phys E : VarSet} {D : List Variable} {σ₁ σ₂ : State} (h : AgreeL phys E D σ₁ σ₂)
    (hE : ∀ v ∈ phys, v ∈ E) {regs : List Variable} (hregs : ∀ v ∈ regs, v ∈ phys) :
    σ₁.snapshot regs = σ₂.snapshot regs :=
  snapshot_agree h.seed h.mem (fun v hv => h.regs v (hE v (hregs v hv)) (.inl (hregs v hv)))

/-! ### liveness sets -/

theorem subset_iff {a b : VarSet} : a.subset b = true ↔ ∀ v ∈ a, v ∈ b := by
  simp [VarSet.subset, List.all_eq_true]

theorem mem_foldl_insertAll {l : List VarSet} {init : VarSet} {v : Variable} :
    v ∈ l.foldl (fun acc s => acc.insertAll s) init ↔ v ∈ init ∨ ∃ s ∈ l, v ∈ s := by
  induction l generalizing init with
  | nil => simp
  | cons x xs ih =>
    simp only [List.foldl]
    rw [ih, mem_insertAll]
    constructor
    · rintro ((h | h) | ⟨s, hs, hv⟩)
      · exact .inl h
      · exact .inr ⟨x, List.mem_cons_self, h⟩
      · exact .inr ⟨s, List.mem_cons_of_mem _ hs, hv⟩
    · rintro (h | ⟨s, hs, hv⟩)
      · exact .inl (.inl h)
      · rcases List.mem_cons.mp hs with e | e
        · subst e; exact .inl (.inr hv)
        · exact .inr ⟨s, e, hv⟩

/-- the variables of the target expression of an indirect jump with known targets are alive -/
theorem mem_branchInd_fold {aliveStart : Tid → VarSet} {cv uv : List Variable} {v : Variable} (hv : v ∈ cv) :
    ∀ (ts : List Tid) (acc : VarSet), ts ≠ [] →
      v ∈ ts.foldl (fun acc t => ((acc.insertAll (aliveStart t)).insertAll cv).insertAll uv) acc := by
  have keep : ∀ (ts : List Tid) (acc : VarSet), v ∈ acc →
      v ∈ ts.foldl (fun acc t => ((acc.insertAll (aliveStart t)).insertAll cv).insertAll uv) acc := by
    intro ts
    induction ts with
    | nil => intro acc h; exact h
    | cons t ts ih =>
      intro acc h
      simp only [List.foldl]
      exact ih _ (mem_insertAll.mpr (.inl (mem_insertAll.mpr (.inl (mem_insertAll.mpr (.inl h))))))
  intro ts acc hne
  cases ts with
  | nil => exact absurd rfl hne
  | cons t ts =>
    simp only [List.foldl]
    exact keep ts _ (mem_insertAll.mpr (.inl (mem_insertAll.mpr (.inr hv))))


/-! ### the jumps of a block -/

/-- the continuations of the two runs agree: both stop, or both continue at the same block with the same call
counter in states that agree on the local alive variables of that block (after a call no local is assigned) -/
def NextAgree (phys : VarSet) (aliveStart : Tid → VarSet) (c : Nat) (D : List Variable) : Next → Next → Prop
  | .stop, .stop => True
  | .goto t σ₂ c₂, .goto t' σ₂' c₂' =>
    t' = t ∧ c₂' = c₂ ∧ AgreeL phys (aliveStart t) (if c₂ = c then D else []) σ₂ σ₂'
  | _, _ => False

/-- agreement of the results of `execJmps` in the two runs -/
def JmpsAgree (env : Env) (phys : VarSet) (aliveStart : Tid → VarSet) (c : Nat) (D : List Variable)
    (σ₁ σ₁' : State) (jmps : List (Term Jmp)) : Prop :=
  (execJmps env σ₁' c jmps).1.map observable = (execJmps env σ₁ c jmps).1.map observable ∧
    NextAgree phys aliveStart c D (execJmps env σ₁ c jmps).2 (execJmps env σ₁' c jmps).2

theorem mem_deadEndAlive_phys {phys : VarSet} {v : Variable} (hv : v ∈ phys) :
    ∀ (jmps : List (Term Jmp)), v ∈ deadEndAlive phys jmps := by
  intro jmps
  unfold deadEndAlive
  suffices h : ∀ (acc : VarSet), v ∈ acc → v ∈ jmps.foldl (fun acc j =>
      match j.term with
      | .CallInd e _ => acc.insertAll e.inputVars
      | .BranchInd e => acc.insertAll e.inputVars
      | .CBranch _ c => acc.insertAll c.inputVars
      | .Return e => acc.insertAll e.inputVars
      | _ => acc) acc from h phys hv
  induction jmps with
  | nil => intro acc h; exact h
  | cons j js ih =>
    intro acc h
    simp only [List.foldl]
    apply ih
    split <;> first | exact mem_insertAll.mpr (.inl h) | exact h

/-- the last jump of a block (not a conditional jump): if what the liveness equations make alive for it — its
contribution, or the dead-end value when it has no CFG edge — is alive at the end of the block, both runs
produce the same observable events and agreeing continuations -/
theorem execJmps_final_agree {env : Env} {phys E : VarSet} {aliveStart : Tid → VarSet} {D : List Variable}
    {σ₁ σ₁' : State} (c : Nat) (j : Term Jmp) (targets : List Tid) (u : Option Jmp)
    (hncb : isCBranchJmp j.term = false)
    (hlive : match jmpContribution phys aliveStart targets j.term u with
      | some s => ∀ v ∈ s, v ∈ E
      | none => ∀ v ∈ deadEndAlive phys [j], v ∈ E)
    (hregs : ∀ v ∈ env.physRegs, v ∈ phys) (h : AgreeL phys E D σ₁ σ₁')
    (hloc : ∀ e ∈ jmpExprs j.term, ExprLocal phys D e) :
    JmpsAgree env phys aliveStart c D σ₁ σ₁' [j] := by
  unfold JmpsAgree
  cases hj : j.term with
  | Branch t =>
    rw [hj] at hlive
    simp only [jmpContribution] at hlive
    simp only [Sem.execJmps, hj, List.map_nil, NextAgree, if_true, true_and]
    exact h.mono fun v hv => hlive v (mem_insertAll.mpr (.inl (mem_insertAll.mpr (.inl hv))))
  | CBranch t cnd => rw [hj] at hncb; cases hncb
  | BranchInd e =>
    rw [hj] at hlive hloc
    have hvars : ∀ v ∈ e.inputVars, v ∈ E := by
      intro v hv
      cases targets with
      | nil =>
        simp only [jmpContribution, deadEndAlive, List.foldl, hj] at hlive
        exact hlive v (mem_insertAll.mpr (.inr hv))
      | cons t ts =>
        simp only [jmpContribution] at hlive
        exact hlive v (mem_branchInd_fold (by simpa [jmpCondVars] using hv) (t :: ts) [] (by simp))
    have he := h.eval hvars (hloc e (by simp [jmpExprs]))
    simp only [Sem.execJmps, hj, ← he]
    cases eval σ₁ e with
    | none => exact ⟨rfl, trivial⟩
    | some v => exact ⟨by simp [observable], trivial⟩
  | Call t r =>
    rw [hj] at hlive
    simp only [jmpContribution] at hlive
    have hsn := h.snapshot hlive hregs
    simp only [Sem.execJmps, hj, ← hsn]
    cases r with
    | none => exact ⟨rfl, trivial⟩
    | some rt =>
      refine ⟨rfl, rfl, rfl, ?_⟩
      rw [if_neg (by omega)]
      exact h.havoc hlive _ _ _ _ _
  | CallInd e r =>
    rw [hj] at hlive hloc
    simp only [jmpContribution] at hlive
    have hphys : ∀ v ∈ phys, v ∈ E := fun v hv => hlive v (mem_insertAll.mpr (.inl hv))
    have he := h.eval (fun v hv => hlive v (mem_insertAll.mpr (.inr hv))) (hloc e (by simp [jmpExprs]))
    have hsn := h.snapshot hphys hregs
    simp only [Sem.execJmps, hj, ← he, ← hsn]
    cases eval σ₁ e with
    | none => exact ⟨rfl, trivial⟩
    | some v =>
      cases r with
      | none => exact ⟨rfl, trivial⟩
      | some rt =>
        refine ⟨rfl, rfl, rfl, ?_⟩
        rw [if_neg (by omega)]
        exact h.havoc hphys _ _ _ _ _
  | CallOther d r =>
    rw [hj] at hlive
    simp only [jmpContribution] at hlive
    have hphys : ∀ v ∈ phys, v ∈ E := fun v hv => hlive v (mem_deadEndAlive_phys hv _)
    have hsn := h.snapshot hphys hregs
    simp only [Sem.execJmps, hj, ← hsn]
    cases r with
    | none => exact ⟨rfl, trivial⟩
    | some rt =>
      refine ⟨rfl, rfl, rfl, ?_⟩
      rw [if_neg (by omega)]
      exact h.havoc hphys _ _ _ _ _
  | Return e =>
    rw [hj] at hlive hloc
    simp only [jmpContribution] at hlive
    have hphys : ∀ v ∈ phys, v ∈ E := fun v hv => hlive v (mem_insertAll.mpr (.inl hv))
    have he := h.eval (fun v hv => hlive v (mem_insertAll.mpr (.inr hv))) (hloc e (by simp [jmpExprs]))
    have hsn := h.snapshot hphys hregs
    simp only [Sem.execJmps, hj, ← he, ← hsn]
    cases eval σ₁ e with
    | none => exact ⟨by first | rfl | trivial, trivial⟩
    | some v => exact ⟨by first | rfl | trivial, trivial⟩


/-- **C10-liveness-jumps.** The jumps of a block of an admissible shape: if the two states agree on the local
variables alive at the end of the block, and the liveness map is closed at this block, both runs produce the same
observable events and agreeing continuations. -/
theorem execJmps_agree {env : Env} {phys E : VarSet} {aliveStart : Tid → VarSet} {D : List Variable}
    {σ₁ σ₁' : State} (c : Nat) (b : Term Blk) (hshape : dveBlkOk b = true)
    (hclosed : ∀ v ∈ aliveEndOf phys aliveStart b, v ∈ E)
    (hregs : ∀ v ∈ env.physRegs, v ∈ phys) (h : AgreeL phys E D σ₁ σ₁')
    (hloc : ∀ j ∈ b.term.jmps, ∀ e ∈ jmpExprs j.term, ExprLocal phys D e) :
    JmpsAgree env phys aliveStart c D σ₁ σ₁' b.term.jmps := by
  unfold dveBlkOk at hshape
  match hjm : b.term.jmps with
  | [] =>
    simp only [aliveEndOf, hjm, List.filterMap_nil, List.isEmpty_nil, if_true, deadEndAlive, List.foldl] at hclosed
    have hsn := h.snapshot hclosed hregs
    simp only [JmpsAgree, Sem.execJmps, ← hsn, NextAgree, and_self]
  | [j] =>
    rw [hjm] at hshape hloc
    simp only [Bool.not_eq_true'] at hshape
    refine execJmps_final_agree c j b.term.indirectJmpTargets none hshape ?_ hregs h
      (hloc j List.mem_cons_self)
    simp only [aliveEndOf, hjm] at hclosed
    cases hc : jmpContribution phys aliveStart b.term.indirectJmpTargets j.term none with
    | none =>
      simp only [hc] at hclosed
      exact hclosed
    | some s₁ =>
      simp only [hc] at hclosed
      intro v hv
      exact hclosed v (mem_insertAll.mpr (.inr hv))
  | [j₁, j₂] =>
    rw [hjm] at hshape hloc
    simp only [Bool.and_eq_true] at hshape
    obtain ⟨hcb, hsh2⟩ := hshape
    cases hj1 : j₁.term with
    | CBranch t cnd =>
      have hc1 : jmpContribution phys aliveStart b.term.indirectJmpTargets j₁.term none =
          some (((aliveStart t).insertAll cnd.inputVars).insertAll []) := by
        rw [hj1]; rfl
      -- the second jump always has a contribution
      have hc2 : ∃ s₂, jmpContribution phys aliveStart b.term.indirectJmpTargets j₂.term (some j₁.term) = some s₂ := by
        cases hj2 : j₂.term with
        | Branch _ => exact ⟨_, rfl⟩
        | CBranch _ _ => rw [hj2] at hsh2; cases hsh2
        | BranchInd e =>
          rw [hj2] at hsh2
          simp only [jmpContribution]
          cases hts : b.term.indirectJmpTargets with
          | nil => rw [hts] at hsh2; simp at hsh2
          | cons _ _ => exact ⟨_, rfl⟩
        | Call _ _ => exact ⟨_, rfl⟩
        | CallInd _ _ => exact ⟨_, rfl⟩
        | CallOther _ _ => rw [hj2] at hsh2; cases hsh2
        | Return _ => exact ⟨_, rfl⟩
      obtain ⟨s₂, hc2⟩ := hc2
      simp only [aliveEndOf, hjm, hc1, hc2] at hclosed
      have hs1 : ∀ v ∈ ((aliveStart t).insertAll cnd.inputVars).insertAll [], v ∈ E := fun v hv =>
        hclosed v (mem_foldl_insertAll.mpr (.inr ⟨_, List.mem_cons_self, hv⟩))
      have hs2 : ∀ v ∈ s₂, v ∈ E := fun v hv =>
        hclosed v (mem_foldl_insertAll.mpr (.inr ⟨_, List.mem_cons_of_mem _ List.mem_cons_self, hv⟩))
      have hcnd := h.eval (e := cnd)
        (fun v hv => hs1 v (mem_insertAll.mpr (.inl (mem_insertAll.mpr (.inr hv)))))
        (hloc j₁ List.mem_cons_self cnd (by rw [hj1]; simp [jmpExprs]))
      have hfin := execJmps_final_agree (env := env) (σ₁ := σ₁) (σ₁' := σ₁') (aliveStart := aliveStart) c j₂
        b.term.indirectJmpTargets (some j₁.term)
        (by cases hj2 : j₂.term <;> first | rfl | (rw [hj2] at hsh2; cases hsh2))
        (by rw [hc2]; exact hs2) hregs h (hloc j₂ (List.mem_cons_of_mem _ List.mem_cons_self))
      unfold JmpsAgree at hfin ⊢
      simp only [Sem.execJmps, hj1, ← hcnd]
      cases eval σ₁ cnd with
      | none => exact ⟨rfl, trivial⟩
      | some v =>
        simp only
        split
        · refine ⟨rfl, rfl, rfl, ?_⟩
          rw [if_pos rfl]
          exact h.mono fun w hw => hs1 w (mem_insertAll.mpr (.inl (mem_insertAll.mpr (.inl hw))))
        · exact hfin
    | Branch _ => rw [hj1] at hcb; cases hcb
    | BranchInd _ => rw [hj1] at hcb; cases hcb
    | Call _ _ => rw [hj1] at hcb; cases hcb
    | CallInd _ _ => rw [hj1] at hcb; cases hcb
    | CallOther _ _ => rw [hj1] at hcb; cases hcb
    | Return _ => rw [hj1] at hcb; cases hcb
  | _ :: _ :: _ :: _ => rw [hjm] at hshape; cases hshape


/-! ### runs -/

/-- the run-time hypothesis H2 along a run of at most `n` blocks starting at block `t` in state `σ`, `D` being
the variables assigned since the last call: every variable read is physical or in `D` -/
def RunLocals (env : Env) (phys : VarSet) (blocks : List (Term Blk)) : Nat → Tid → State → Nat → List Variable → Prop
  | 0, _, _, _, _ => True
  | n + 1, t, σ, c, D => ∀ b, blocks.find? (fun b => b.tid == t) = some b →
      ∀ σ₁ evs, execDefs σ b.term.defs = some (σ₁, evs) →
        DefsLocal phys D b.term.defs ∧
        (∀ j ∈ b.term.jmps, ∀ e ∈ jmpExprs j.term, ExprLocal phys (defdAfter D b.term.defs) e) ∧
        ∀ evs₂ t₂ σ₂ c₂, execJmps env σ₁ c b.term.jmps = (evs₂, .goto t₂ σ₂ c₂) →
          RunLocals env phys blocks n t₂ σ₂ c₂ (if c₂ = c then defdAfter D b.term.defs else [])

/-- **C10-dead-variables-run (blocks).** The simulation across blocks and calls: from states that agree on the
local variables alive at the start of the current block, the original blocks and the blocks without the dead
assignments produce the same observable events. -/
theorem removeDead_runBlocks (env : Env) (phys : VarSet) (blocks : List (Term Blk)) (m : AliveMap)
    (hshape : dveShapeOk blocks = true) (hclosed : aliveClosed phys blocks m = true)
    (hregs : ∀ v ∈ env.physRegs, v ∈ phys) :
    ∀ (n : Nat) (t : Tid) (σ σ' : State) (c : Nat) (D : List Variable),
      AgreeL phys (aliveStartOf blocks m t) D σ σ' → RunLocals env phys blocks n t σ c D →
      NoStuck (runBlocks env blocks n t σ c) →
      (runBlocks env (blocks.map (removeDeadBlock m)) n t σ' c).map observable =
        (runBlocks env blocks n t σ c).map observable := by
  intro n
  induction n with
  | zero => intro t σ σ' c D _ _ _; rfl
  | succ n ih =>
    intro t σ σ' c D hag hloc hns
    cases hb : blocks.find? (fun b => b.tid == t) with
    | none => rw [runBlocks_none hb] at hns; exact absurd hns (not_noStuck_stuck _)
    | some b =>
      have hb' : (blocks.map (removeDeadBlock m)).find? (fun b => b.tid == t) = some (removeDeadBlock m b) := by
        rw [find?_mapBlk (removeDeadBlock m) (fun _ => rfl), hb]; rfl
      obtain ⟨hbm, hbt⟩ := tid_of_find? hb
      have hstart : aliveStartOf blocks m t = aliveBeforeDefs (m.get b.tid) b.term.defs := by
        simp only [aliveStartOf, hb, hbt]
      rw [hstart] at hag
      cases hd : execDefs σ b.term.defs with
      | none => rw [runBlocks_defs_none hb hd] at hns; exact absurd hns (not_noStuck_stuck _)
      | some r =>
        obtain ⟨σ₁, evs⟩ := r
        obtain ⟨hdl, hjl, hnext⟩ := hloc b hb σ₁ evs hd
        obtain ⟨σ₁', hd', hag₁⟩ := removeDeadDefs_soundL phys (m.get b.tid) b.term.defs hag hdl hd
        have hd'' : execDefs σ' (removeDeadBlock m b).term.defs = some (σ₁', evs) := hd'
        have hcl : ∀ v ∈ aliveEndOf phys (aliveStartOf blocks m) b, v ∈ m.get b.tid :=
          subset_iff.mp (List.all_eq_true.mp hclosed b hbm)
        have hJ := execJmps_agree (env := env) c b (List.all_eq_true.mp hshape b hbm) hcl hregs hag₁ hjl
        unfold JmpsAgree at hJ
        cases hjm : execJmps env σ₁ c b.term.jmps with
        | mk evs₂ nxt =>
          cases hjm' : execJmps env σ₁' c b.term.jmps with
          | mk evs₂' nxt' =>
            rw [hjm, hjm'] at hJ
            obtain ⟨hev, hnx⟩ := hJ
            simp only at hev hnx
            cases nxt with
            | stop =>
              cases nxt' with
              | stop =>
                rw [runBlocks_stop hb hd hjm, runBlocks_stop hb' hd'' hjm', List.map_append, List.map_append, hev]
              | goto _ _ _ => exact hnx.elim
            | goto t₂ σ₂ c₂ =>
              cases nxt' with
              | stop => exact hnx.elim
              | goto t₂' σ₂' c₂' =>
                obtain ⟨rfl, rfl, hag₂⟩ := hnx
                rw [runBlocks_goto hb hd hjm] at hns ⊢
                rw [runBlocks_goto hb' hd'' hjm']
                simp only [List.map_append, hev]
                rw [ih t₂' σ₂ σ₂' c₂' _ hag₂ (hnext evs₂ t₂' σ₂ c₂' hjm) hns.append_right]

/-- **C10-dead-variables-run (liveness map as parameter).** For ANY liveness map `m` that is a post-fixpoint of
the liveness equations of the function (`aliveClosed`, executable), removing the assignments that are dead
according to `m` preserves the observable trace of the function from every initial state and for every fuel,
provided the run of the original function keeps H2 (`RunLocals`, starting with no local assigned) and does not
get stuck (H3). -/
theorem removeDeadWith_runSub (env : Env) (phys : VarSet) (s : Term Sub) (m : AliveMap)
    (hshape : dveShapeOk s.term.blocks = true) (hclosed : aliveClosed phys s.term.blocks m = true)
    (hregs : ∀ v ∈ env.physRegs, v ∈ phys) (σ : State) (fuel : Nat)
    (hloc : ∀ b bs, s.term.blocks = b :: bs → RunLocals env phys s.term.blocks fuel b.tid σ 0 [])
    (hns : NoStuck (runSub env s.term σ fuel)) :
    (runSub env (mapSubBlocks (removeDeadBlock m) s).term σ fuel).map observable =
      (runSub env s.term σ fuel).map observable := by
  have hrun := removeDead_runBlocks env phys s.term.blocks m hshape hclosed hregs fuel
  cases hbl : s.term.blocks with
  | nil => simp only [runSub, mapSubBlocks, hbl, List.map_nil]
  | cons b bs =>
    have hns' : NoStuck (runBlocks env s.term.blocks fuel b.tid σ 0) := by
      simpa only [runSub, hbl] using hns
    have h2 := hrun b.tid σ σ 0 [] (AgreeL.refl _ _ _ _) (hloc b bs hbl) hns'
    rw [hbl] at h2
    simp only [runSub, mapSubBlocks, hbl, List.map_cons]
    exact h2

/-- **C10-dead-variables-run.** `remove_dead_var_assignments` on one function with the liveness map of the
model's own (fuelled) iteration, whenever that iteration reached a post-fixpoint. -/
theorem removeDeadSub_runSub (env : Env) (phys : VarSet) (s : Term Sub)
    (hshape : dveShapeOk s.term.blocks = true)
    (hclosed : aliveClosed phys s.term.blocks (computeAliveVars phys s.term.blocks) = true)
    (hregs : ∀ v ∈ env.physRegs, v ∈ phys) (σ : State) (fuel : Nat)
    (hloc : ∀ b bs, s.term.blocks = b :: bs → RunLocals env phys s.term.blocks fuel b.tid σ 0 [])
    (hns : NoStuck (runSub env s.term σ fuel)) :
    (runSub env (removeDeadSub phys s).term σ fuel).map observable = (runSub env s.term σ fuel).map observable :=
  removeDeadWith_runSub env phys s _ hshape hclosed hregs σ fuel hloc hns


/-! ### the executable hypothesis check of the driver implies H2

`Spec.hypRun` (evaluated by the driver on every run of the unoptimised function) tracks the TEMPORARIES assigned
since the last call and requires every temporary that is read to be among them. If every non-temporary variable
the function reads is a physical register (`NonTempPhys`), this is `RunLocals`. -/

/-- every non-temporary variable read by the blocks is a physical register -/
def NonTempPhys (phys : VarSet) (blocks : List (Term Blk)) : Prop :=
  ∀ b ∈ blocks,
    (∀ d ∈ b.term.defs, ∀ e ∈ defExprs d.term, ∀ v ∈ e.inputVars, v.isTemp = false → v ∈ phys) ∧
    (∀ j ∈ b.term.jmps, ∀ e ∈ jmpExprs j.term, ∀ v ∈ e.inputVars, v.isTemp = false → v ∈ phys)

theorem nonTempPhysB_sound {phys : VarSet} {blocks : List (Term Blk)} (h : nonTempPhysB phys blocks = true) :
    NonTempPhys phys blocks := by
  intro b hb
  have hb' := List.all_eq_true.mp h b hb
  simp only [Bool.and_eq_true, List.all_eq_true] at hb'
  have hv : ∀ e : Expression, (∀ v ∈ e.inputVars, (v.isTemp || decide (v ∈ phys)) = true) →
      ∀ v ∈ e.inputVars, v.isTemp = false → v ∈ phys := by
    intro e he v hv ht
    simpa [ht] using he v hv
  refine ⟨fun d hd e he => ?_, fun j hj e he => hv e (hb'.2 j hj e he)⟩
  have hd' := hb'.1 d hd
  cases hdt : d.term with
  | Assign w x =>
    rw [hdt] at hd' he
    simp only [List.all_eq_true] at hd'
    simp only [defExprs, List.mem_singleton] at he; subst he
    exact hv _ hd'
  | Load w x =>
    rw [hdt] at hd' he
    simp only [List.all_eq_true] at hd'
    simp only [defExprs, List.mem_singleton] at he; subst he
    exact hv _ hd'
  | Store a x =>
    rw [hdt] at hd' he
    simp only [Bool.and_eq_true, List.all_eq_true] at hd'
    simp only [defExprs, List.mem_cons, List.not_mem_nil, or_false] at he
    rcases he with rfl | rfl
    · exact hv _ hd'.1
    · exact hv _ hd'.2

theorem exprLocal_of_exprOk {phys : VarSet} {σ : State} {defd D : List Variable} {e : Expression}
    (hnt : ∀ v ∈ e.inputVars, v.isTemp = false → v ∈ phys) (hsub : ∀ v ∈ defd, v ∈ D)
    (h : exprOk σ defd e = true) : ExprLocal phys D e := by
  intro v hv
  simp only [exprOk, tempsOk, Bool.and_eq_true, List.all_eq_true, Bool.or_eq_true, Bool.not_eq_true'] at h
  rcases h.2 v hv with ht | ht
  · exact .inl (hnt v hv ht)
  · exact .inr (hsub v (List.contains_iff_mem.mp ht))

theorem hypDefs_locals {phys : VarSet} : ∀ (defs : List (Term Def)) {σ σ' σ₁ : State} {defd defd' D : List Variable}
    {evs : List Event},
    (∀ d ∈ defs, ∀ e ∈ defExprs d.term, ∀ v ∈ e.inputVars, v.isTemp = false → v ∈ phys) →
    (∀ v ∈ defd, v ∈ D) → hypDefs σ defd defs = some (σ', defd', true) → execDefs σ defs = some (σ₁, evs) →
    DefsLocal phys D defs ∧ ∀ v ∈ defd', v ∈ defdAfter D defs := by
  intro defs
  induction defs with
  | nil =>
    intro σ σ' σ₁ defd defd' D evs _ hsub h _
    simp only [hypDefs, Option.some.injEq, Prod.mk.injEq] at h
    obtain ⟨_, rfl, _⟩ := h
    exact ⟨trivial, hsub⟩
  | cons d ds ih =>
    intro σ σ' σ₁ defd defd' D evs hnt hsub h he
    obtain ⟨σm, e₁, σ₂, e₂, h1, h2, _⟩ := execDefs_cons_some.mp he
    simp only [hypDefs, h1] at h
    split at h
    · next σ'' defd'' ok' hrec =>
      simp only [Option.some.injEq, Prod.mk.injEq, Bool.and_eq_true] at h
      obtain ⟨_, rfl, hok, hok'⟩ := h
      subst hok'
      have hntd := hnt d List.mem_cons_self
      have hsub' : ∀ v ∈ (match d.term with
          | .Assign v _ => if v.isTemp then v :: defd else defd
          | .Load v _ => if v.isTemp then v :: defd else defd
          | .Store _ _ => defd), v ∈ defdAfterDef D d.term := by
        intro v hv
        cases hdt : d.term with
        | Assign w x =>
          simp only [hdt] at hv
          simp only [defdAfterDef, assignedVar]
          by_cases ht : w.isTemp = true
          · rw [if_pos ht] at hv
            rcases List.mem_cons.mp hv with e | e
            · exact e ▸ List.mem_cons_self
            · exact List.mem_cons_of_mem _ (hsub v e)
          · rw [if_neg ht] at hv
            exact List.mem_cons_of_mem _ (hsub v hv)
        | Load w x =>
          simp only [hdt] at hv
          simp only [defdAfterDef, assignedVar]
          by_cases ht : w.isTemp = true
          · rw [if_pos ht] at hv
            rcases List.mem_cons.mp hv with e | e
            · exact e ▸ List.mem_cons_self
            · exact List.mem_cons_of_mem _ (hsub v e)
          · rw [if_neg ht] at hv
            exact List.mem_cons_of_mem _ (hsub v hv)
        | Store a x =>
          simp only [hdt] at hv
          simpa [defdAfterDef, assignedVar] using hsub v hv
      obtain ⟨ih1, ih2⟩ := ih (fun x hx => hnt x (List.mem_cons_of_mem _ hx)) hsub' hrec h2
      refine ⟨⟨?_, ih1⟩, ih2⟩
      intro e he
      cases hdt : d.term with
      | Assign w x =>
        rw [hdt] at hok he hntd
        simp only [defExprs, List.mem_singleton] at he; subst he
        exact exprLocal_of_exprOk (hntd _ (by simp [defExprs])) hsub hok
      | Load w x =>
        rw [hdt] at hok he hntd
        simp only [defExprs, List.mem_singleton] at he; subst he
        exact exprLocal_of_exprOk (hntd _ (by simp [defExprs])) hsub hok
      | Store a x =>
        rw [hdt] at hok he hntd
        simp only [Bool.and_eq_true] at hok
        simp only [defExprs, List.mem_cons, List.not_mem_nil, or_false] at he
        rcases he with rfl | rfl
        · exact exprLocal_of_exprOk (hntd _ (by simp [defExprs])) hsub hok.1
        · exact exprLocal_of_exprOk (hntd _ (by simp [defExprs])) hsub hok.2
    · cases h

/-- **C10-hypothesis-check-H2.** If the executable check `hypRun` accepts a run and every non-temporary variable
the function reads is a physical register, the run satisfies the declarative hypothesis `RunLocals`. -/
theorem runLocals_of_hypRun (env : Env) (phys : VarSet) (blocks : List (Term Blk)) (hnt : NonTempPhys phys blocks) :
    ∀ (fuel : Nat) (t : Tid) (σ : State) (c : Nat) (defd D : List Variable),
      (∀ v ∈ defd, v ∈ D) → hypRun env blocks fuel t σ c defd = true → RunLocals env phys blocks fuel t σ c D := by
  intro fuel
  induction fuel with
  | zero => intro t σ c defd D _ _; trivial
  | succ n ih =>
    intro t σ c defd D hsub h b hb σ₁ evs hd
    obtain ⟨hbm, _⟩ := tid_of_find? hb
    simp only [hypRun, hb] at h
    cases hh : hypDefs σ defd b.term.defs with
    | none =>
      exfalso
      have : ∀ (defs : List (Term Def)) (σ : State) (defd : List Variable), hypDefs σ defd defs ≠ none := by
        intro defs
        induction defs with
        | nil => intro σ defd; simp [hypDefs]
        | cons d ds ihd =>
          intro σ defd
          simp only [hypDefs]
          cases execDef σ d.term with
          | none => simp
          | some r =>
            simp only
            cases hr : hypDefs r.1 (match d.term with
              | .Assign v _ => if v.isTemp then v :: defd else defd
              | .Load v _ => if v.isTemp then v :: defd else defd
              | .Store _ _ => defd) ds with
            | none => exact absurd hr (ihd _ _)
            | some x => simp
      exact this _ _ _ hh
    | some r =>
      obtain ⟨σ₁', defd₁, ok⟩ := r
      rw [hh] at h
      simp only at h
      cases ok with
      | false => simp at h
      | true =>
        simp only [Bool.not_true, Bool.false_eq_true, if_false] at h
        obtain ⟨_, hstate⟩ := hypDefs_sound b.term.defs hh
        have hs := hstate σ₁ evs hd
        subst hs
        obtain ⟨hdl, hsub₁⟩ := hypDefs_locals (phys := phys) b.term.defs (hnt b hbm).1 hsub hh hd
        rw [hd] at h
        simp only at h
        split at h
        · cases h
        · next hokJ =>
          have hokJ' : (b.term.jmps.all fun j => (jmpExprs j.term).all (exprOk σ₁' defd₁)) = true := by
            simpa using hokJ
          refine ⟨hdl, fun j hj e he => ?_, fun evs₂ t₂ σ₂ c₂ hjm => ?_⟩
          · have := List.all_eq_true.mp hokJ' j hj
            exact exprLocal_of_exprOk ((hnt b hbm).2 j hj e he) hsub₁ (List.all_eq_true.mp this e he)
          · rw [hjm] at h
            simp only at h
            refine ih t₂ σ₂ c₂ _ _ ?_ h
            intro v hv
            by_cases hc : c₂ = c
            · simp only [hc, beq_self_eq_true, if_true] at hv ⊢
              exact hsub₁ v hv
            · have : (c₂ == c) = false := by simpa using hc
              simp only [this, Bool.false_eq_true, if_false] at hv
              cases hv


end CweModel.C10
