/-
C10 pass 3 — soundness of the backward transfer of dead-variable elimination
(`update_alive_vars_by_def`, `remove_dead_var_assignments_of_block`): two machine states that agree on
the variables alive before a block's defs produce the same memory events when one executes the original
defs and the other the cleaned defs, and afterwards agree on the variables alive at the end of the block.
Core-only.
-/
import CweModel.C10.RunLemmas

namespace CweModel.C10
open CweModel CweModel.IR CweModel.Sem

/-! ### variable sets -/

theorem mem_insertAll {s : VarSet} {vs : List Variable} {v : Variable} :
    v ∈ s.insertAll vs ↔ v ∈ s ∨ v ∈ vs := by
  unfold VarSet.insertAll
  induction vs generalizing s with
  | nil => simp
  | cons x xs ih =>
    simp only [List.foldl]
    rw [ih]
    by_cases hx : x ∈ s
    · rw [if_pos hx]
      constructor
      · rintro (h | h)
        · exact .inl h
        · exact .inr (List.mem_cons_of_mem _ h)
      · rintro (h | h)
        · exact .inl h
        · rcases List.mem_cons.mp h with e | h
          · subst e; exact .inl hx
          · exact .inr h
    · rw [if_neg hx]
      simp only [List.mem_append, List.mem_cons, List.not_mem_nil, or_false, or_assoc]

theorem mem_remove {s : VarSet} {v w : Variable} : v ∈ s.remove w ↔ v ∈ s ∧ v ≠ w := by
  simp [VarSet.remove, List.mem_filter]

/-! ### agreement of states -/

/-- the two states have the same memory and parameters and agree on the registers in `A` -/
structure AgreeOn (A : VarSet) (σ₁ σ₂ : State) : Prop where
  seed : σ₁.seed = σ₂.seed
  mem : σ₁.mem = σ₂.mem
  le : σ₁.littleEndian = σ₂.littleEndian
  ptr : σ₁.ptrBytes = σ₂.ptrBytes
  regs : ∀ v ∈ A, σ₁.getReg v = σ₂.getReg v

theorem AgreeOn.mono {A B : VarSet} {σ₁ σ₂ : State} (h : AgreeOn A σ₁ σ₂) (hBA : ∀ v ∈ B, v ∈ A) : AgreeOn B σ₁ σ₂ :=
  ⟨h.seed, h.mem, h.le, h.ptr, fun v hv => h.regs v (hBA v hv)⟩

theorem eval_agree {σ₁ σ₂ : State} (hs : σ₁.seed = σ₂.seed) :
    ∀ {e : Expression}, (∀ v ∈ e.inputVars, σ₁.getReg v = σ₂.getReg v) → eval σ₁ e = eval σ₂ e := by
  intro e
  induction e with
  | Var x => intro h; simp only [eval]; rw [h x (by simp [Expression.inputVars])]
  | Const b x => intro _; rfl
  | Unknown d s => intro _; simp only [eval, hs]
  | BinOp op l r ihl ihr =>
    intro h
    rw [eval_binOp, eval_binOp, ihl (fun v hv => h v (by simp [Expression.inputVars, hv])),
      ihr (fun v hv => h v (by simp [Expression.inputVars, hv]))]
  | UnOp op a ih => intro h; rw [eval_unOp, eval_unOp, ih (fun v hv => h v (by simpa [Expression.inputVars] using hv))]
  | Cast op s a ih => intro h; rw [eval_cast, eval_cast, ih (fun v hv => h v (by simpa [Expression.inputVars] using hv))]
  | Subpiece lb s a ih =>
    intro h; rw [eval_subpiece, eval_subpiece, ih (fun v hv => h v (by simpa [Expression.inputVars] using hv))]

theorem AgreeOn.eval {A : VarSet} {σ₁ σ₂ : State} (h : AgreeOn A σ₁ σ₂) {e : Expression}
    (he : ∀ v ∈ e.inputVars, v ∈ A) : eval σ₁ e = eval σ₂ e :=
  eval_agree h.seed (fun v hv => h.regs v (he v hv))

theorem getByte_agree {σ₁ σ₂ : State} (hs : σ₁.seed = σ₂.seed) (hm : σ₁.mem = σ₂.mem) (a : Nat) :
    σ₁.getByte a = σ₂.getByte a := by
  simp only [State.getByte, State.memDefault, hs, hm]

theorem readMem_agree {A : VarSet} {σ₁ σ₂ : State} (h : AgreeOn A σ₁ σ₂) (a n : Nat) :
    σ₁.readMem a n = σ₂.readMem a n := by
  simp only [State.readMem, State.wrapAddr, h.ptr, h.le, getByte_agree h.seed h.mem]

theorem AgreeOn.setReg_both {A : VarSet} {σ₁ σ₂ : State} (h : AgreeOn (A.remove v) σ₁ σ₂) (x : Bv) :
    AgreeOn A (σ₁.setReg v x) (σ₂.setReg v x) := by
  refine ⟨h.seed, h.mem, h.le, h.ptr, fun w hw => ?_⟩
  rw [getReg_setReg, getReg_setReg]
  split
  · rfl
  · next hne => exact h.regs w (mem_remove.mpr ⟨hw, hne⟩)

theorem AgreeOn.setReg_left {A : VarSet} {σ₁ σ₂ : State} (h : AgreeOn A σ₁ σ₂) {v : Variable} (hv : v ∉ A) (x : Bv) :
    AgreeOn A (σ₁.setReg v x) σ₂ := by
  refine ⟨h.seed, h.mem, h.le, h.ptr, fun w hw => ?_⟩
  rw [getReg_setReg]
  split
  · next e => subst e; exact absurd hw hv
  · exact h.regs w hw

theorem writeMem_fields (σ : State) (a n val : Nat) :
    (σ.writeMem a n val).seed = σ.seed ∧ (σ.writeMem a n val).littleEndian = σ.littleEndian ∧
    (σ.writeMem a n val).ptrBytes = σ.ptrBytes ∧ (σ.writeMem a n val).regs = σ.regs := by
  unfold State.writeMem
  generalize List.range n = l
  suffices h : ∀ (s : State), let r := l.foldl (fun s i =>
      s.setByte (σ.wrapAddr (a + i)) (val / 256 ^ (if σ.littleEndian then i else n - 1 - i) % 256)) s
      r.seed = s.seed ∧ r.littleEndian = s.littleEndian ∧ r.ptrBytes = s.ptrBytes ∧ r.regs = s.regs from h σ
  induction l with
  | nil => intro s; exact ⟨rfl, rfl, rfl, rfl⟩
  | cons x xs ih =>
    intro s
    simp only [List.foldl]
    have := ih (s.setByte (σ.wrapAddr (a + x)) (val / 256 ^ (if σ.littleEndian then x else n - 1 - x) % 256))
    exact this

theorem foldl_setByte_mem_congr (addr byte : Nat → Nat) (l : List Nat) (s₁ s₂ : State) (hm : s₁.mem = s₂.mem) :
    (l.foldl (fun s i => s.setByte (addr i) (byte i)) s₁).mem = (l.foldl (fun s i => s.setByte (addr i) (byte i)) s₂).mem := by
  induction l generalizing s₁ s₂ with
  | nil => exact hm
  | cons x xs ih =>
    simp only [List.foldl]
    apply ih
    simp only [State.setByte, hm]

theorem writeMem_mem_congr {σ₁ σ₂ : State} (hm : σ₁.mem = σ₂.mem) (hl : σ₁.littleEndian = σ₂.littleEndian)
    (hp : σ₁.ptrBytes = σ₂.ptrBytes) (a n val : Nat) :
    (σ₁.writeMem a n val).mem = (σ₂.writeMem a n val).mem := by
  unfold State.writeMem
  simp only [State.wrapAddr, hl, hp]
  exact foldl_setByte_mem_congr _ _ _ _ _ hm

theorem AgreeOn.writeMem {A : VarSet} {σ₁ σ₂ : State} (h : AgreeOn A σ₁ σ₂) (a n val : Nat) :
    AgreeOn A (σ₁.writeMem a n val) (σ₂.writeMem a n val) := by
  obtain ⟨s1, l1, p1, _⟩ := writeMem_fields σ₁ a n val
  obtain ⟨s2, l2, p2, _⟩ := writeMem_fields σ₂ a n val
  refine ⟨by rw [s1, s2, h.seed], writeMem_mem_congr h.mem h.le h.ptr a n val, by rw [l1, l2, h.le],
    by rw [p1, p2, h.ptr], fun v hv => ?_⟩
  rw [getReg_writeMem, getReg_writeMem]; exact h.regs v hv

/-! ### one def -/

/-- a def that is kept: from states agreeing on the variables alive before it, it produces the same
event and states agreeing on the variables alive after it -/
theorem execDef_agree_kept {A : VarSet} {σ₁ σ₂ σ₁' : State} {d : Def} {evs : List Event}
    (h : AgreeOn (updateAliveByDef A d) σ₁ σ₂)
    (hkeep : ∀ v e, d = .Assign v e → v ∈ A)
    (hd : execDef σ₁ d = some (σ₁', evs)) :
    ∃ σ₂', execDef σ₂ d = some (σ₂', evs) ∧ AgreeOn A σ₁' σ₂' := by
  cases d with
  | Assign v e =>
    have hv := hkeep v e rfl
    simp only [updateAliveByDef, if_pos hv] at h
    have he : eval σ₁ e = eval σ₂ e := h.eval (fun w hw => mem_insertAll.mpr (.inr hw))
    simp only [Sem.execDef] at hd ⊢
    rw [← he]
    cases hx : eval σ₁ e with
    | none => rw [hx] at hd; cases hd
    | some x =>
      rw [hx] at hd
      simp only [Option.bind_eq_bind, Option.bind_some] at hd ⊢
      split at hd
      · cases hd
      · next hw =>
        rw [if_neg hw]
        cases hd
        exact ⟨_, rfl, AgreeOn.setReg_both (h.mono fun w hw => mem_insertAll.mpr (.inl hw)) x⟩
  | Load v a =>
    simp only [updateAliveByDef] at h
    have he : eval σ₁ a = eval σ₂ a := h.eval (fun w hw => mem_insertAll.mpr (.inr hw))
    simp only [Sem.execDef] at hd ⊢
    rw [← he]
    cases hx : eval σ₁ a with
    | none => rw [hx] at hd; cases hd
    | some x =>
      rw [hx] at hd
      simp only [Option.bind_eq_bind, Option.bind_some, Option.some.injEq, Prod.mk.injEq] at hd ⊢
      obtain ⟨rfl, rfl⟩ := hd
      rw [← readMem_agree h]
      exact ⟨_, ⟨rfl, rfl⟩, AgreeOn.setReg_both (h.mono fun w hw => mem_insertAll.mpr (.inl hw)) _⟩
  | Store a e =>
    simp only [updateAliveByDef] at h
    have ha : eval σ₁ a = eval σ₂ a :=
      h.eval (fun w hw => mem_insertAll.mpr (.inl (mem_insertAll.mpr (.inr hw))))
    have he : eval σ₁ e = eval σ₂ e := h.eval (fun w hw => mem_insertAll.mpr (.inr hw))
    simp only [Sem.execDef] at hd ⊢
    rw [← ha, ← he]
    cases hx : eval σ₁ a with
    | none => rw [hx] at hd; cases hd
    | some x =>
      cases hy : eval σ₁ e with
      | none => rw [hx, hy] at hd; cases hd
      | some y =>
        rw [hx, hy] at hd
        simp only [Option.bind_eq_bind, Option.bind_some, Option.some.injEq, Prod.mk.injEq] at hd ⊢
        obtain ⟨rfl, rfl⟩ := hd
        refine ⟨_, ⟨rfl, rfl⟩, ?_⟩
        exact (h.mono fun w hw => mem_insertAll.mpr (.inl (mem_insertAll.mpr (.inl hw)))).writeMem _ _ _

/-- a dead assignment: executing it on one side only keeps the agreement and produces no event -/
theorem execDef_agree_dead {A : VarSet} {σ₁ σ₂ σ₁' : State} {v : Variable} {e : Expression} {evs : List Event}
    (h : AgreeOn A σ₁ σ₂) (hv : v ∉ A) (hd : execDef σ₁ (.Assign v e) = some (σ₁', evs)) :
    evs = [] ∧ AgreeOn A σ₁' σ₂ := by
  simp only [Sem.execDef] at hd
  cases hx : eval σ₁ e with
  | none => rw [hx] at hd; cases hd
  | some x =>
    rw [hx] at hd
    simp only [Option.bind_eq_bind, Option.bind_some] at hd
    split at hd
    · cases hd
    · cases hd; exact ⟨rfl, h.setReg_left hv x⟩

/-! ### the defs of a block -/

theorem removeDeadDefs_snd (A : VarSet) (defs : List (Term Def)) :
    (removeDeadDefs A defs).2 = aliveBeforeDefs A defs := by
  induction defs with
  | nil => rfl
  | cons d ds ih => simp only [removeDeadDefs, aliveBeforeDefs, List.foldr] at ih ⊢; rw [ih]

theorem removeDeadDefs_cons (A : VarSet) (d : Term Def) (ds : List (Term Def)) :
    (removeDeadDefs A (d :: ds)).1 =
      if keepDef (aliveBeforeDefs A ds) d.term = true then d :: (removeDeadDefs A ds).1
      else (removeDeadDefs A ds).1 := by
  have h := removeDeadDefs_snd A ds
  simp only [removeDeadDefs, List.foldr] at h ⊢
  rw [h]

/-- **C10-dead-variables.** Soundness of the backward transfer: if `σ₁` and `σ₂` agree on the variables
alive before the defs of a block (`aliveBeforeDefs A defs`, computed by `update_alive_vars_by_def`) and the
original defs execute from `σ₁`, then the cleaned defs (`remove_dead_var_assignments_of_block`) execute from
`σ₂` with the same memory events and the final states agree on the variables `A` alive at the end. -/
theorem removeDeadDefs_sound (A : VarSet) (defs : List (Term Def)) {σ₁ σ₂ σ₁' : State} {evs : List Event}
    (h : AgreeOn (aliveBeforeDefs A defs) σ₁ σ₂) (hd : execDefs σ₁ defs = some (σ₁', evs)) :
    ∃ σ₂', execDefs σ₂ (removeDeadDefs A defs).1 = some (σ₂', evs) ∧ AgreeOn A σ₁' σ₂' := by
  induction defs generalizing σ₁ σ₂ evs with
  | nil =>
    simp only [Sem.execDefs, Option.some.injEq, Prod.mk.injEq] at hd
    obtain ⟨rfl, rfl⟩ := hd
    exact ⟨σ₂, rfl, h⟩
  | cons d ds ih =>
    simp only [Sem.execDefs] at hd
    cases h1 : Sem.execDef σ₁ d.term with
    | none => rw [h1] at hd; cases hd
    | some r1 =>
      obtain ⟨σm, e₁⟩ := r1
      rw [h1] at hd
      simp only [Option.bind_eq_bind, Option.bind_some] at hd
      cases h2 : Sem.execDefs σm ds with
      | none => rw [h2] at hd; cases hd
      | some r2 =>
        obtain ⟨σe, e₂⟩ := r2
        rw [h2] at hd
        simp only [Option.bind_some, Option.some.injEq, Prod.mk.injEq] at hd
        obtain ⟨rfl, rfl⟩ := hd
        have hB : aliveBeforeDefs A (d :: ds) = updateAliveByDef (aliveBeforeDefs A ds) d.term := rfl
        rw [hB] at h
        rw [removeDeadDefs_cons]
        split
        · next hkeep =>
          -- the def is kept
          have hk : ∀ v e, d.term = .Assign v e → v ∈ aliveBeforeDefs A ds := by
            intro v e hde
            rw [hde] at hkeep
            simpa [keepDef] using hkeep
          obtain ⟨σ₂m, hx, hag⟩ := execDef_agree_kept h hk h1
          obtain ⟨σ₂', hy, hag'⟩ := ih hag h2
          refine ⟨σ₂', ?_, hag'⟩
          simp only [Sem.execDefs, hx, hy, Option.bind_eq_bind, Option.bind_some]
        · next hkeep =>
          -- a dead assignment
          cases hdt : d.term with
          | Assign v e =>
            rw [hdt] at hkeep h h1
            have hv : v ∉ aliveBeforeDefs A ds := by simpa [keepDef] using hkeep
            simp only [updateAliveByDef, if_neg hv] at h
            obtain ⟨he, hag⟩ := execDef_agree_dead h hv h1
            subst he
            obtain ⟨σ₂', hy, hag'⟩ := ih hag h2
            exact ⟨σ₂', by simpa using hy, hag'⟩
          | Load v a => rw [hdt] at hkeep; simp [keepDef] at hkeep
          | Store a e => rw [hdt] at hkeep; simp [keepDef] at hkeep

end CweModel.C10
